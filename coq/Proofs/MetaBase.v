(* MetaBase.v (C11): meta contexts seal the machine.

   [keeps n l l']      the last n elements of a stack (the part below a context mark) survive
   [sealed s s']       the frame of everything executed inside one meta context: heap, context
                       stack and marks unchanged, every stack unchanged below its mark
   [frame] / [fp]      a generic compositional predicate "program m keeps relation R from every
                       state satisfying Pre", with the bind / get / put rules
   and the instance for the machine: every [wl] program (hence every native word, every opcode,
   [fetch_and_run], [run]) is [sealed] when started in meta mode. *)
From Xeh Require Import Model.Prelude Model.Bits Model.Codec Model.Cell Model.Lexer Model.Fmt
                        Model.Vm Model.Words Model.Build.
From Xeh Require Import Proofs.VmFrame Proofs.VmLimits Proofs.NoPanic Proofs.NoPanicBuild Proofs.NoPanicFlow.
Local Notation length := List.length.
Local Open Scope list_scope.

#[local] Arguments Z.add : simpl never.
#[local] Arguments Z.sub : simpl never.
#[local] Arguments Z.mul : simpl never.
#[local] Arguments Z.ltb : simpl never.
#[local] Arguments Z.leb : simpl never.
#[local] Arguments Z.eqb : simpl never.
#[local] Arguments Z.of_nat : simpl never.
#[local] Arguments Z.to_nat : simpl never.

(* ---------- the part of a stack below a mark ---------- *)
Lemma lastn_cons {A} (n : nat) (x : A) (l : list A) : n <= length l -> lastn n (x :: l) = lastn n l.
Proof. intros H. apply (lastn_app n [x] l H). Qed.

Definition keeps {A} (n : nat) (l l' : list A) : Prop := n <= length l' /\ lastn n l' = lastn n l.

Lemma keeps_refl {A} n (l : list A) : n <= length l -> keeps n l l.
Proof. intros H. split; [exact H|reflexivity]. Qed.

Lemma keeps_trans {A} n (a b c : list A) : keeps n a b -> keeps n b c -> keeps n a c.
Proof. intros [A1 A2] [B1 B2]. split; [exact B1|congruence]. Qed.

Lemma keeps_le {A} n m (l l' : list A) : m <= n -> keeps n l l' -> n <= length l -> keeps m l l'.
Proof.
  intros Hle [H1 H2] Hl. split; [lia|].
  rewrite <- (lastn_lastn m n l') by exact Hle. rewrite H2. apply lastn_lastn. exact Hle.
Qed.

Lemma keeps_app {A} n (a l : list A) : n <= length l -> keeps n l (a ++ l).
Proof. intros H. split; [rewrite app_length; lia|apply lastn_app; exact H]. Qed.

Lemma keeps_app_l {A} n (a b l : list A) : n <= length l -> keeps n (a ++ l) (b ++ l).
Proof. intros H. split; [rewrite app_length; lia|rewrite !lastn_app by exact H; reflexivity]. Qed.

(* the whole stack when the mark is its length *)
Lemma keeps_all {A} (l l' : list A) : keeps (length l) l l' -> exists a, l' = a ++ l.
Proof.
  intros [H1 H2]. exists (firstn (length l' - length l) l').
  rewrite (lastn_split (length l) l') at 1. rewrite H2. rewrite lastn_all by lia. reflexivity.
Qed.

(* ---------- contexts ---------- *)
Definition is_meta (s : state) : Prop := cmode (cx s) = MMeta.

(* every stack reaches its mark *)
Definition wfm (s : state) : Prop :=
  ds_len (cx s) <= length (ds s) /\ rs_len (cx s) <= length (rs s) /\
  ls_len (cx s) <= length (loops s) /\ ss_ptr (cx s) <= length (special s) /\
  fs_len (cx s) <= length (flows s).

(* all of a context except the instruction pointer *)
Definition cmarks (c : ctx) : nat * nat * nat * nat * nat * nat * nat * mode :=
  (ds_len c, cs_len c, rs_len c, fs_len c, ls_len c, ss_ptr c, di_len c, cmode c).

Lemma cmarks_fields c c' : cmarks c' = cmarks c ->
  ds_len c' = ds_len c /\ cs_len c' = cs_len c /\ rs_len c' = rs_len c /\ fs_len c' = fs_len c /\
  ls_len c' = ls_len c /\ ss_ptr c' = ss_ptr c /\ di_len c' = di_len c /\ cmode c' = cmode c.
Proof. unfold cmarks. intros E. injection E as -> -> -> -> -> -> -> ->. repeat split. Qed.

Definition sealed (s s' : state) : Prop :=
  heap s' = heap s /\ nested s' = nested s /\ cmarks (cx s') = cmarks (cx s) /\
  keeps (ds_len (cx s)) (ds s) (ds s') /\ keeps (rs_len (cx s)) (rs s) (rs s') /\
  keeps (ls_len (cx s)) (loops s) (loops s') /\ keeps (ss_ptr (cx s)) (special s) (special s') /\
  keeps (fs_len (cx s)) (flows s) (flows s').

Definition mpre (s : state) : Prop := is_meta s /\ wfm s.

Lemma sealed_refl s : wfm s -> sealed s s.
Proof.
  intros (H1 & H2 & H3 & H4 & H5). unfold sealed.
  repeat split; try reflexivity; assumption.
Qed.

Lemma sealed_trans a b c : sealed a b -> sealed b c -> sealed a c.
Proof.
  intros (A1 & A2 & A3 & A4 & A5 & A6 & A7 & A8) (B1 & B2 & B3 & B4 & B5 & B6 & B7 & B8).
  destruct (cmarks_fields _ _ A3) as (E1 & E2 & E3 & E4 & E5 & E6 & E7 & E8).
  rewrite E1 in B4. rewrite E3 in B5. rewrite E5 in B6. rewrite E6 in B7. rewrite E4 in B8.
  unfold sealed. repeat split; try congruence; try (eapply keeps_trans; eassumption);
    first [apply B4|apply B5|apply B6|apply B7|apply B8].
Qed.

Lemma sealed_wfm a b : sealed a b -> wfm b.
Proof.
  intros (A1 & A2 & A3 & A4 & A5 & A6 & A7 & A8).
  destruct (cmarks_fields _ _ A3) as (E1 & E2 & E3 & E4 & E5 & E6 & E7 & E8).
  unfold wfm. rewrite E1, E3, E5, E6, E4.
  repeat split; first [apply A4|apply A5|apply A6|apply A7|apply A8].
Qed.

Lemma sealed_meta a b : is_meta a -> sealed a b -> is_meta b.
Proof.
  intros H (_ & _ & A3 & _). destruct (cmarks_fields _ _ A3) as (_ & _ & _ & _ & _ & _ & _ & E).
  unfold is_meta in *. congruence.
Qed.

Lemma sealed_mpre a b : mpre a -> sealed a b -> mpre b.
Proof. intros [H1 H2] S. split; [eapply sealed_meta; eassumption|eapply sealed_wfm; eassumption]. Qed.

(* the fields [sealed] talks about *)
Definition score (s : state) :=
  (heap s, nested s, cx s, ds s, rs s, loops s, special s, flows s).

Lemma sealed_score s s' : wfm s -> score s' = score s -> sealed s s'.
Proof.
  intros W E. unfold score in E. injection E as E1 E2 E3 E4 E5 E6 E7 E8.
  destruct W as (H1 & H2 & H3 & H4 & H5). unfold sealed.
  rewrite E1, E2, E3, E4, E5, E6, E7, E8. repeat split; assumption.
Qed.

(* ---------- a generic frame predicate ---------- *)
Record frame := mkFrame {
  fr_pre : state -> Prop;
  fr_rel : state -> state -> Prop;
  fr_refl : forall s, fr_pre s -> fr_rel s s;
  fr_trans : forall a b c, fr_rel a b -> fr_rel b c -> fr_rel a c;
  fr_keep : forall a b, fr_pre a -> fr_rel a b -> fr_pre b }.

Definition fpa (F : frame) {A} (s : state) (m : M A) : Prop :=
  fr_pre F s -> res_all (fr_rel F s) (m s).
Definition fp (F : frame) {A} (m : M A) : Prop := forall s, fpa F s m.

Section FrameRules.
  Variable F : frame.

  Lemma fpa_ret A (a : A) s : fpa F s (ret a).
  Proof. intros H. apply fr_refl. exact H. Qed.
  Lemma fpa_fail A k p s : fpa F s (@fail A k p).
  Proof. intros H. apply fr_refl. exact H. Qed.
  Lemma fpa_unsup A s : fpa F s (@unsup A).
  Proof. intros H. exact I. Qed.
  Lemma fpa_panic A s : fpa F s (@panic A).
  Proof. intros H. exact I. Qed.

  Lemma fpa_bind A B (m : M A) (f : A -> M B) s :
    fpa F s m -> (forall a, fp F (f a)) -> fpa F s (bind m f).
  Proof.
    intros Hm Hf Hs. unfold bind. specialize (Hm Hs).
    destruct (m s) as [a s1|k p s1| |]; cbn [res_all] in *; auto.
    pose proof (Hf a s1 (fr_keep F _ _ Hs Hm)) as H2.
    destruct (f a s1); cbn [res_all] in *; auto; eapply fr_trans; eassumption.
  Qed.

  Lemma fpa_get_bind B (k : state -> M B) s : fpa F s (k s) -> fpa F s (bind get k).
  Proof. intros H. exact H. Qed.

  Lemma fpa_put s s' : (fr_pre F s -> fr_rel F s s') -> fpa F s (put s').
  Proof. intros H Hs. apply H. exact Hs. Qed.

  Lemma fpa_modify f s : (fr_pre F s -> fr_rel F s (f s)) -> fpa F s (modify f).
  Proof. intros H Hs. apply H. exact Hs. Qed.

  Lemma fp_ret A (a : A) : fp F (ret a).
  Proof. intros s. apply fpa_ret. Qed.
  Lemma fp_fail A k p : fp F (@fail A k p).
  Proof. intros s. apply fpa_fail. Qed.
  Lemma fp_unsup A : fp F (@unsup A).
  Proof. intros s. apply fpa_unsup. Qed.
  Lemma fp_bind A B (m : M A) (f : A -> M B) : fp F m -> (forall a, fp F (f a)) -> fp F (bind m f).
  Proof. intros Hm Hf s. apply fpa_bind; [apply Hm|exact Hf]. Qed.

  (* with a postcondition on the returned value *)
  Definition fpav {A} (Q : A -> Prop) (s : state) (m : M A) : Prop :=
    fr_pre F s ->
    match m s with
    | ROk a s' => Q a /\ fr_rel F s s'
    | RErr _ _ s' => fr_rel F s s'
    | _ => True
    end.

  Lemma fpa_bindv A B (Q : A -> Prop) (m : M A) (f : A -> M B) s :
    fpav Q s m -> (forall a, Q a -> fp F (f a)) -> fpa F s (bind m f).
  Proof.
    intros Hm Hf Hs. unfold bind. specialize (Hm Hs).
    destruct (m s) as [a s1|k p s1| |]; cbn [res_all] in *; auto.
    destruct Hm as [Hq Hm].
    pose proof (Hf a Hq s1 (fr_keep F _ _ Hs Hm)) as H2.
    destruct (f a s1); cbn [res_all] in *; auto; eapply fr_trans; eassumption.
  Qed.

  Lemma fpa_pre A (m : M A) s : (fr_pre F s -> fpa F s m) -> fpa F s m.
  Proof. intros H Hs. apply H; exact Hs. Qed.

  (* a program whose result states satisfy the relation outright *)
  Lemma fpa_of_rel A (m : M A) s : (fr_pre F s -> res_all (fr_rel F s) (m s)) -> fpa F s m.
  Proof. intros H. exact H. Qed.
End FrameRules.

(* ---------- the frame of a meta context ---------- *)
Definition SF : frame := mkFrame mpre sealed (fun s H => sealed_refl s (proj2 H)) sealed_trans sealed_mpre.

(* finishing tactic for the primitives: after the state is a record of variables *)
Ltac bool_hyps :=
  repeat match goal with
         | H : (_ <? _)%nat = true |- _ => apply Nat.ltb_lt in H
         | H : (_ <? _)%nat = false |- _ => apply Nat.ltb_ge in H
         | H : (_ <=? _)%nat = true |- _ => apply Nat.leb_le in H
         | H : (_ <=? _)%nat = false |- _ => apply Nat.leb_gt in H
         end.

Ltac keeps_fin :=
  unfold keeps; cbn [length] in *;
  split; [lia|repeat (rewrite lastn_cons by (cbn [length]; lia)); reflexivity].

Ltac sealed_prim :=
  let s := fresh "s" in
  intros s [Hm (W1 & W2 & W3 & W4 & W5)]; unfold is_meta in Hm;
  destruct s as [d0 h0 c0 g0 so0 in0 st0 rs0 fl0 lo0 sp0 cx0 ne0 me0 il0 hl0 sl0 rl0 ou0 lt0 sg0];
  destruct cx0 as [m1 m2 m3 m4 m5 m6 m7 m8 m9];
  cbv [dict heap code dbg sources input ds rs flows loops special cx nested meter insn_limit
       heap_limit stack_limit rlog out last_tok stopping
       ds_len cs_len rs_len fs_len ls_len ss_ptr di_len cip cmode] in Hm, W1, W2, W3, W4, W5;
  subst m9;
  cbv [push_data pop_data top_data swap_data rot_data over_data push_return pop_return top_frame
       push_loop pop_loop loop_next loop_set_items push_special pop_special get_var set_var
       init_local set_ip next_ip print modify ret fail unsup panic alloc_heap mode_eqb
       add_rstep limit_reached data_depth ip set_ip_raw
       set_ds set_rs set_loops set_special set_heap set_cx set_rlog set_out set_stopping
       dict heap code dbg sources input ds rs flows loops special cx nested meter insn_limit
       heap_limit stack_limit rlog out last_tok stopping
       ds_len cs_len rs_len fs_len ls_len ss_ptr di_len cip cmode];
  break_matches;
  cbv [res_all]; try exact I;
  bool_hyps;
  cbv [sealed cmarks dict heap code dbg sources input ds rs flows loops special cx nested
       ds_len cs_len rs_len fs_len ls_len ss_ptr di_len cip cmode];
  repeat match goal with |- _ /\ _ => split end;
  try reflexivity; try keeps_fin.

Lemma wl_sealed : forall A (m : M A), wl m -> fp SF m.
Proof.
  induction 1; try (intros s; unfold fpa; cbn [SF fr_pre fr_rel]; revert s; sealed_prim; fail).
  - intros s. apply fpa_bind; [apply IHwl|exact H1].
  - intros s. apply fpa_get_bind. apply H0.
Qed.

(* ---------- variables are sealed in meta mode ---------- *)
Lemma get_var_meta a s : is_meta s -> get_var a s = RErr EConst None s.
Proof. unfold is_meta, get_var. intros ->. reflexivity. Qed.
Lemma set_var_meta a v s : is_meta s -> set_var a v s = RErr EConst None s.
Proof. unfold is_meta, set_var. intros ->. reflexivity. Qed.
Lemma alloc_heap_meta v s : is_meta s -> alloc_heap v s = RErr EConst None s.
Proof. unfold is_meta, alloc_heap. intros ->. reflexivity. Qed.

Lemma fp_alloc_heap v : fp SF (alloc_heap v).
Proof. intros s [Hm W]. rewrite alloc_heap_meta by exact Hm. apply sealed_refl. exact W. Qed.

(* ---------- the machine ---------- *)
Section Machine.
  Variable fo : fops.

  Lemma far_sealed : fp SF (fetch_and_run (native_fn fo)).
  Proof.
    intros s Hs. cbn [SF fr_pre fr_rel] in *. pose proof (far_spec_holds (native_fn fo) s) as FS.
    assert (X : forall i o s1, score s1 = score s -> res_all (sealed s) (exec_op (native_fn fo) i o s1)).
    { intros i o s1 E.
      assert (S1 : sealed s s1) by (apply sealed_score; [apply Hs|exact E]).
      pose proof (wl_sealed _ _ (wl_exec_op _ (native_wl fo) i o) s1 (sealed_mpre _ _ Hs S1)) as H.
      cbn [SF fr_rel] in H.
      destruct (exec_op (native_fn fo) i o s1); cbn [res_all] in *; auto; eapply sealed_trans; eauto. }
    inversion FS; cbn [res_all]; try exact I;
      try (apply sealed_score; [apply Hs|reflexivity]); apply X; reflexivity.
  Qed.

  Lemma run_sealed : forall fuel s, mpre s ->
    match run (native_fn fo) fuel s with Some r => res_all (sealed s) r | None => True end.
  Proof.
    induction fuel as [|f IH]; intros s Hs; cbn [run]; [exact I|].
    destruct (is_running s); [|apply sealed_refl; apply Hs].
    pose proof (far_sealed s Hs) as H. cbn [SF fr_rel] in H.
    destruct (fetch_and_run (native_fn fo) s) as [u s1|k p s1| |]; cbn [res_all] in *; auto.
    specialize (IH s1 (sealed_mpre _ _ Hs H)).
    destruct (run (native_fn fo) f s1) as [r|]; [|exact I].
    destruct r; cbn [res_all] in *; auto; eapply sealed_trans; eauto.
  Qed.

  Lemma fp_run_m rf : fp SF (run_m fo rf).
  Proof.
    intros s Hs. unfold run_m, nf. pose proof (run_sealed rf s Hs) as H.
    destruct (run (native_fn fo) rf s); [exact H|exact I].
  Qed.

  Lemma steps_sealed : forall n s s', mpre s -> steps (native_fn fo) n s = Some s' -> sealed s s'.
  Proof.
    induction n as [|n IH]; intros s s' Hs E; cbn [steps] in E.
    - injection E as <-. apply sealed_refl. apply Hs.
    - pose proof (far_sealed s Hs) as H. cbn [SF fr_rel] in H.
      destruct (fetch_and_run (native_fn fo) s) as [u s1|k p s1| |]; try discriminate.
      cbn [res_all] in H. eapply sealed_trans; [exact H|].
      apply IH; [eapply sealed_mpre; eassumption|exact E].
  Qed.
End Machine.
