(* StructParse.v: facts about the parser [pseq] of Model/Struct.v.
   * name resolution: a local of the enclosing definition before a global; the newest
     declaration of a local ([rpos]: last occurrence) and the newest binding of a global
     ([lookup]: first in the newest-first list);
   * `break` outside a loop is a flow error, whatever follows it;
   * the invariant of a parse, for every token list: what has been compiled stays compiled
     (the accumulator is a prefix of the result), function ids are allocated in increasing
     order and an id once bound keeps its body (so a call compiled before a redefinition
     keeps calling the old body), the nesting counters are restored, the pending-break flag
     is exact enough that neither the top level of a parsed source nor the body of any parsed
     definition has a `break` at its own level. *)
From Xeh Require Import Model.Prelude Model.Bits Model.Codec Model.Cell Model.Lexer Model.Fmt
                        Model.Vm Model.Words Model.Struct Proofs.StructBase Proofs.StructNat Proofs.StructInv
                        Proofs.StructLoops Proofs.StructRs.
Local Notation length := List.length.
Local Open Scope string_scope.

(* ---------- rpos: the newest declaration ---------- *)
Lemma rpos_app : forall l1 l2 n i acc,
  rpos (l1 ++ l2) n i acc = rpos l2 n (i + length l1) (rpos l1 n i acc).
Proof.
  induction l1 as [| x r IH]; intros l2 n i acc; cbn [app rpos length].
  - rewrite Nat.add_0_r. reflexivity.
  - rewrite IH. replace (S i + length r) with (i + S (length r)) by lia. reflexivity.
Qed.

(* declaring a name makes it the one that is found *)
Lemma rpos_declared_last : forall ls n, rpos (ls ++ [n]) n 0 None = Some (length ls).
Proof. intros. rewrite rpos_app. cbn [rpos]. rewrite String.eqb_refl. reflexivity. Qed.

(* declaring another name changes nothing for this one *)
Lemma rpos_declared_other : forall ls m n, m <> n -> rpos (ls ++ [m]) n 0 None = rpos ls n 0 None.
Proof.
  intros ls m n H. rewrite rpos_app. cbn [rpos]. apply String.eqb_neq in H. rewrite H. reflexivity.
Qed.

Lemma rpos_some : forall l n i acc k,
  rpos l n i acc = Some k ->
  (acc = Some k /\ ~ In n l) \/
  (exists j, k = i + j /\ nth_error l j = Some n /\ forall j', j < j' -> nth_error l j' <> Some n).
Proof.
  induction l as [| x r IH]; intros n i acc k H; cbn [rpos] in H.
  - left. split; [ exact H | intros [] ].
  - apply IH in H as [(Ha & Hn) | (j & Hk & Hj & Hlast)].
    + destruct (String.eqb_spec x n) as [-> | Ne].
      * right. exists 0. injection Ha as <-. repeat split; [ lia | ].
        intros j' Hj' E. destruct j' as [| j']; [ lia | ]. cbn in E. apply nth_error_In in E. contradiction.
      * left. split; [ exact Ha | ]. intros [E | E]; [ contradiction | contradiction ].
    + right. exists (S j). repeat split; [ lia | exact Hj | ].
      intros j' Hj' E. destruct j' as [| j']; [ lia | ]. cbn in E. apply (Hlast j'); [ lia | exact E ].
Qed.

(* [rpos] returns the LAST occurrence *)
Theorem rpos_is_last : forall ls n k,
  rpos ls n 0 None = Some k ->
  nth_error ls k = Some n /\ forall j, k < j -> nth_error ls j <> Some n.
Proof.
  intros ls n k H. apply rpos_some in H as [(Ha & _) | (j & -> & Hj & Hl)]; [ discriminate | ].
  split; assumption.
Qed.

Lemma rpos_none_acc : forall l n i acc, ~ In n l -> rpos l n i acc = acc.
Proof.
  induction l as [| x r IH]; intros n i acc H; [ reflexivity | ].
  cbn [rpos]. destruct (String.eqb_spec x n) as [-> | Ne].
  - exfalso. apply H. left. reflexivity.
  - apply IH. intro E. apply H. right. exact E.
Qed.

Lemma rpos_in : forall l n i acc, In n l -> exists k, rpos l n i acc = Some k.
Proof.
  induction l as [| x r IH]; intros n i acc H; [ destruct H | ].
  cbn [rpos]. destruct (in_dec string_dec n r) as [Hr | Hr].
  - apply IH. exact Hr.
  - destruct H as [-> | H]; [ | contradiction ].
    rewrite String.eqb_refl, rpos_none_acc by exact Hr. eauto.
Qed.

Theorem rpos_none : forall ls n, rpos ls n 0 None = None <-> ~ In n ls.
Proof.
  intros ls n. split.
  - intros H E. destruct (rpos_in ls n 0 None E) as (k & Ek). congruence.
  - intro H. apply rpos_none_acc. exact H.
Qed.

(* ---------- lookup: the newest binding ---------- *)
Lemma lookup_newest : forall n b l, lookup ((n, b) :: l) n = Some b.
Proof. intros. cbn [lookup]. rewrite String.eqb_refl. reflexivity. Qed.

Lemma lookup_other : forall m b l n, m <> n -> lookup ((m, b) :: l) n = lookup l n.
Proof. intros m b l n H. cbn [lookup]. apply String.eqb_neq in H. rewrite H. reflexivity. Qed.

Lemma lookup_app_first : forall l1 l2 n b, lookup l1 n = Some b -> lookup (l1 ++ l2) n = Some b.
Proof.
  induction l1 as [| [k c] r IH]; intros l2 n b H; [ discriminate | ].
  cbn [app lookup] in *. destruct (String.eqb k n); auto.
Qed.

(* ---------- one token ---------- *)
Definition local_ix (e : penv) (w : string) : option nat :=
  match plocals e with Some ls => rpos ls w 0 None | None => None end.

Definition stmt_of_binding (bd : binding) (p : pos) : stmt :=
  match bd with
  | BVar x => SGet x p
  | BFun g => SCall g p
  | BConst c => SLit c p
  end.

Section Steps.
  Variable fo : fops.
  Variable pr : string -> option Z.
  Notation pseq := (pseq fo pr).

  (* a local of the enclosing definition wins over every global of the same name *)
  Theorem pseq_local_first : forall f w a b rest e terms acc brk i,
    local_ix e w = Some i ->
    pseq (S f) ((TWord w, a, b) :: rest) e terms acc brk =
    pseq f rest e terms (SLocGet i (a, b) :: acc) brk.
  Proof. intros. unfold local_ix in H. cbn [Struct.pseq]. rewrite H. reflexivity. Qed.

  (* otherwise the newest global binding (variable, definition, constant) wins over
     terminators, keywords and native words *)
  Theorem pseq_global : forall f w a b rest e terms acc brk bd,
    local_ix e w = None -> lookup (names e) w = Some bd ->
    pseq (S f) ((TWord w, a, b) :: rest) e terms acc brk =
    pseq f rest e terms (stmt_of_binding bd (a, b) :: acc) brk.
  Proof.
    intros. unfold local_ix in H. cbn [Struct.pseq]. rewrite H, H0. destruct bd; reflexivity.
  Qed.

  (* `break` outside every loop: a flow error; the tokens after it are not looked at *)
  Theorem pseq_break_outside : forall f a b rest e terms acc brk,
    local_ix e "break" = None -> lookup (names e) "break" = None -> mem terms "break" = false ->
    loopdepth e = 0 ->
    pseq (S f) ((TWord "break", a, b) :: rest) e terms acc brk = PErr EFlow.
  Proof.
    intros. unfold local_ix in H. cbn [Struct.pseq]. rewrite H, H0, H1. cbn. rewrite H2. reflexivity.
  Qed.

  Theorem pseq_break_inside : forall f a b rest e terms acc brk,
    local_ix e "break" = None -> lookup (names e) "break" = None -> mem terms "break" = false ->
    0 < loopdepth e ->
    pseq (S f) ((TWord "break", a, b) :: rest) e terms acc brk =
    pseq f rest e terms (SBreak :: acc) true.
  Proof.
    intros. unfold local_ix in H. cbn [Struct.pseq]. rewrite H, H0, H1. cbn.
    destruct (loopdepth e); [ lia | reflexivity ].
  Qed.

  (* a lexical error, an unknown word: errors at that token, whatever follows *)
  Theorem pseq_lex_error : forall f x y z a b rest e terms acc brk,
    pseq (S f) ((TErr x y z, a, b) :: rest) e terms acc brk = PErr EParse.
  Proof. reflexivity. Qed.

  (* ---------- a definition ---------- *)
  Definition def_env (e : penv) (name : string) : penv :=
    mkpenv ((name, BFun (nfun e)) :: names e) (funs e) (S (nfun e)) (nheap e) (Some [])
           (loopdepth e) (S (nest e)).
  Definition after_def (e e1 : penv) (body : list stmt) : penv :=
    mkpenv (names e1) ((nfun e, body) :: funs e1) (nfun e1) (nheap e1) None (loopdepth e) (nest e).

  Theorem pseq_colon_step : forall f a b rest e terms acc brk name na nb r0 body tp r1 e1,
    local_ix e ":" = None -> lookup (names e) ":" = None -> mem terms ":" = false ->
    plocals e = None -> skipb rest = (TWord name, na, nb) :: r0 ->
    pseq f r0 (def_env e name) [";"] [] false = POk body ";" tp r1 e1 false ->
    pseq (S f) ((TWord ":", a, b) :: rest) e terms acc brk =
    pseq f r1 (after_def e e1 body) terms (SDef (nfun e) :: acc) brk.
  Proof.
    intros f a b rest e terms acc brk name na nb r0 body tp r1 e1 H H0 H1 H2 H3 H4.
    unfold local_ix in H. cbn [Struct.pseq]. rewrite H, H0, H1. cbn. rewrite H2, H3.
    unfold def_env in H4. rewrite H4. reflexivity.
  Qed.
End Steps.

(* ---------- the arms of a case, named ---------- *)
Section Arms.
  Variable pf : list (tok * nat * nat) -> penv -> list string -> list stmt -> bool -> pres.
  Variable e : penv.
  Variable terms : list string.
  Variable acc : list stmt.
  Fixpoint parse_arms (k : nat) (toks : list (tok * nat * nat)) (e' : penv)
           (got : list (list stmt * pos * list stmt)) (brk' : bool) : pres :=
    match k with
    | O => PUnsup
    | S k' =>
      match pf toks e' ["of"; "endcase"] [] false with
      | POk pre "of" pof r1 e1 b1 =>
        match pf r1 e1 ["endof"] [] false with
        | POk body "endof" _ r2 e2 b2 => parse_arms k' r2 e2 (got ++ [(pre, pof, body)])%list (brk' || b1 || b2)
        | POk _ _ _ _ _ _ => PErr EFlow
        | x => x
        end
      | POk dflt "endcase" _ r1 e1 b1 =>
        pf r1 (leave e e1) terms (SCase got dflt :: acc) (brk' || b1)
      | POk _ _ _ _ _ _ => PErr EFlow
      | x => x
      end
    end.
End Arms.

Lemma pseq_case_unfold : forall fo pr f a b rest e terms acc brk,
  pseq fo pr (S f) ((TWord "case", a, b) :: rest) e terms acc brk =
  match local_ix e "case" with
  | Some i => pseq fo pr f rest e terms (SLocGet i (a, b) :: acc) brk
  | None =>
    match lookup (names e) "case" with
    | Some bd => pseq fo pr f rest e terms (stmt_of_binding bd (a, b) :: acc) brk
    | None =>
      if mem terms "case" then POk (rev acc) "case" (a, b) rest e brk
      else parse_arms (pseq fo pr f) e terms acc (S f) rest (enter e false) [] brk
    end
  end.
Proof.
  intros. unfold local_ix. cbn [pseq].
  destruct (match plocals e with Some ls => rpos ls "case" 0 None | None => None end); [ reflexivity | ].
  destruct (lookup (names e) "case") as [[] |]; try reflexivity.
Qed.

(* ---------- the invariant ---------- *)
Definition kext (e e' : penv) : Prop :=
  nfun e <= nfun e' /\
  (forall g, g < nfun e -> fun_body (funs e') g = fun_body (funs e) g) /\
  loopdepth e' = loopdepth e /\ nest e' = nest e /\
  (plocals e = None -> plocals e' = None) /\
  (forall ls, plocals e = Some ls -> 0 < nest e ->
     exists more, plocals e' = Some (ls ++ more)%list /\ names e' = names e) /\
  (funs_nobreak (funs e) -> funs_nobreak (funs e')) /\
  nheap e <= nheap e'.

Definition pinv (e : penv) (acc : list stmt) (brk : bool) (r : pres) : Prop :=
  match r with
  | POk body term tp rest e' brk' =>
      kext e e' /\ exists l, body = (rev acc ++ l)%list /\
        (brk = true -> brk' = true) /\ (has_own_break_block l = true -> brk' = true) /\
        (loopdepth e = 0 -> brk = false -> brk' = false) /\
        (plocals e = None -> no_local_block l = true)
  | _ => True
  end.

Lemma kext_refl : forall e, kext e e.
Proof.
  intro e. unfold kext. repeat split; auto. intros ls H _. exists []. rewrite app_nil_r. auto.
Qed.

Lemma kext_trans : forall a b c, kext a b -> kext b c -> kext a c.
Proof.
  intros a b c (A1 & A2 & A3 & A4 & A5 & A6 & A7 & A8) (B1 & B2 & B3 & B4 & B5 & B6 & B7 & B8).
  unfold kext. repeat split; try lia; try congruence; auto.
  - intros g Hg. rewrite B2 by lia. apply A2. exact Hg.
  - intros ls H N. destruct (A6 ls H N) as (m1 & P1 & N1).
    destruct (B6 _ P1) as (m2 & P2 & N2); [ lia | ].
    exists (m1 ++ m2)%list. rewrite app_assoc. split; congruence.
Qed.

Lemma kext_enter_leave : forall e il e2, kext (enter e il) e2 -> kext e (leave e e2).
Proof.
  intros e il e2 (A1 & A2 & A3 & A4 & A5 & A6 & A7 & A8). unfold kext. cbn in *.
  repeat split; auto.
  all: try (intros ls H N; apply A6; [ exact H | lia ]).
Qed.

Lemma kext_set_locals : forall e ls name,
  plocals e = Some ls -> kext e (set_locals e (Some (ls ++ [name])%list)).
Proof.
  intros e ls name H. unfold kext. cbn. repeat split; auto.
  - intro N. congruence.
  - intros ls0 H0 _. rewrite H in H0. injection H0 as <-. exists [name]. auto.
Qed.

Lemma kext_var : forall e name,
  (0 <? nest e)%nat = false ->
  kext e (mkpenv ((name, BVar (nheap e)) :: names e) (funs e) (nfun e) (S (nheap e)) (plocals e)
                 (loopdepth e) (nest e)).
Proof.
  intros e name H. apply Nat.ltb_ge in H. unfold kext. cbn. repeat split; auto.
  intros ls _ N. lia.
Qed.

Lemma funs_nobreak_cons : forall g body fs,
  has_own_break_block body = false -> funs_nobreak fs -> funs_nobreak ((g, body) :: fs).
Proof.
  intros g body fs Hb Hf g' b' H. cbn [fun_body] in H. destruct (Nat.eqb g g').
  - injection H as <-. exact Hb.
  - eapply Hf; eauto.
Qed.

Lemma kext_colon : forall e name e1 body,
  plocals e = None ->
  kext (mkpenv ((name, BFun (nfun e)) :: names e) (funs e) (S (nfun e)) (nheap e) (Some [])
               (loopdepth e) (S (nest e))) e1 ->
  has_own_break_block body = false ->
  kext e (mkpenv (names e1) ((nfun e, body) :: funs e1) (nfun e1) (nheap e1) None (loopdepth e) (nest e)).
Proof.
  intros e name e1 body HN (A1 & A2 & A3 & A4 & A5 & A6 & A7 & A8) Hb. unfold kext. cbn in *.
  repeat split; auto; try lia.
  - intros g Hg. destruct (Nat.eqb_spec (nfun e) g); [ lia | ]. apply A2. lia.
  - intros ls H. congruence.
  - intro Hf. apply funs_nobreak_cons; auto.
Qed.

Lemma pinv_here : forall e acc brk t tp rest, pinv e acc brk (POk (rev acc) t tp rest e brk).
Proof.
  intros. cbn [pinv]. split; [ apply kext_refl | ]. exists []. rewrite app_nil_r.
  repeat split; auto. discriminate.
Qed.

Lemma kext_locN : forall e e', kext e e' -> plocals e = None -> plocals e' = None.
Proof. intros e e' H. apply H. Qed.

Lemma kext_depth : forall e e', kext e e' -> loopdepth e' = loopdepth e.
Proof. intros e e' H. apply H. Qed.

Lemma pinv_tail : forall e e1 acc x brk brk1 r,
  kext e e1 -> (brk = true -> brk1 = true) -> (has_own_break x = true -> brk1 = true) ->
  (loopdepth e = 0 -> brk = false -> brk1 = false) ->
  (plocals e = None -> no_local_stmt x = true) ->
  pinv e1 (x :: acc) brk1 r -> pinv e acc brk r.
Proof.
  intros e e1 acc x brk brk1 r K B1 B2 B3 B4 H. destruct r as [body t tp rest e' brk' | |]; cbn [pinv] in *; auto.
  destruct H as (K' & l & -> & C1 & C2 & C3 & C4). split; [ eapply kext_trans; eauto | ].
  exists (x :: l). cbn [rev]. rewrite <- app_assoc. cbn [app]. repeat split; auto.
  - cbn [has_own_break_block]. intro H. apply orb_prop in H as [H | H]; auto.
  - intros D N. apply C3; auto. rewrite (kext_depth _ _ K). exact D.
  - intro N. unfold no_local_block. rewrite all_block_cons. unfold no_local_stmt in B4. rewrite (B4 N).
    apply C4. apply (kext_locN _ _ K N).
Qed.

Lemma all_arms_app : forall P a b, all_arms P (a ++ b) = all_arms P a && all_arms P b.
Proof.
  intros P. induction a as [| [[pre pof] body] a IH]; intro b; [ reflexivity | ].
  cbn [app]. rewrite !all_arms_cons, IH. rewrite !andb_assoc. reflexivity.
Qed.

Lemma has_own_break_arms_app : forall a b,
  has_own_break_arms (a ++ b) = has_own_break_arms a || has_own_break_arms b.
Proof.
  induction a as [| [[pre pof] body] a IH]; intro b; [ reflexivity | ].
  cbn [app has_own_break_arms]. rewrite IH. rewrite !orb_assoc. reflexivity.
Qed.

(* ---------- tactics ---------- *)
Ltac pstep :=
  match goal with
  | |- pinv _ _ _ (PErr _) => exact I
  | |- pinv _ _ _ PUnsup => exact I
  | |- pinv _ _ _ (match ?x with _ => _ end) =>
    let T := type of x in
    lazymatch T with
    | string => destruct x as [| [[] [] [] [] [] [] [] []] x]
    | _ => destruct x eqn:?
    end
  | |- pinv _ _ _ (if ?x then _ else _) => destruct x eqn:?
  end.

Ltac sat IH :=
  repeat match goal with
  | E : _ ?t ?e ?tm ?ac ?bk = POk _ _ _ _ _ _ |- _ =>
    let H := fresh "PI" in
    pose proof (IH t e tm ac bk) as H; rewrite E in H; cbn [pinv rev app] in H; clear E;
    let K := fresh "K" in let l := fresh "l" in let HB := fresh "HB" in let HD := fresh "HD" in
    let HN := fresh "HN" in
    destruct H as (K & l & -> & _ & HB & HD & HN)
  end.

Ltac kx :=
  first
    [ apply kext_refl
    | eapply kext_enter_leave; first [ eassumption | eapply kext_trans; eassumption
                                     | eapply kext_trans; [ eassumption | eapply kext_trans; eassumption ] ]
    | apply kext_set_locals; assumption
    | apply kext_var; assumption
    | eapply kext_colon; [ assumption | eassumption | ];
      match goal with
      | HB : has_own_break_block ?l = true -> false = true |- has_own_break_block ?l = false =>
        destruct (has_own_break_block l); [ specialize (HB eq_refl); discriminate HB | reflexivity ]
      end ].

(* what the sub-parses say about the pending-break flags at loop depth 0 *)
Ltac depth_facts :=
  repeat match goal with
  | K : kext _ _ |- _ => apply kext_depth in K; cbn [enter leave loopdepth] in K
  end;
  repeat match goal with
  | HD : ?A -> false = false -> ?b = false |- _ =>
    let X := fresh "X" in
    assert (X : b = false) by (apply HD; [ cbn [enter leave loopdepth] in *; congruence | reflexivity ]);
    clear HD; try subst b
  end.

Ltac brk_true :=
  intros;
  repeat match goal with
  | H : _ || _ = true |- _ => apply orb_prop in H; destruct H
  end;
  repeat match goal with
  | HB : has_own_break_block ?l = true -> _, H : has_own_break_block ?l = true |- _ => specialize (HB H)
  | HB : has_own_break_arms ?l = true -> _, H : has_own_break_arms ?l = true |- _ => specialize (HB H)
  end;
  subst; try discriminate; rewrite ?orb_true_r, ?orb_true_l; auto.

(* the sub-parses of a parse outside every definition are outside every definition *)
Ltac loc_facts :=
  repeat match goal with
  | K : kext ?A ?B |- _ =>
    lazymatch goal with
    | _ : plocals B = None |- _ => fail
    | _ => let X := fresh "PL" in
           assert (X : plocals B = None)
             by (apply (kext_locN A B K); cbn [enter leave plocals]; assumption)
    end
  end.

Ltac nl :=
  let N := fresh "N" in
  intro N; loc_facts; unfold no_local_stmt, no_local_block in *;
  rewrite ?all_stmt_SIf, ?all_stmt_SIfE, ?all_stmt_SCase, ?all_stmt_SUntil, ?all_stmt_SRepeat,
          ?all_stmt_SWhile, ?all_stmt_SDo;
  cbn [ok_nolocal andb];
  repeat match goal with
  | HN : plocals ?E = None -> all_block ok_nolocal ?l = true |- _ =>
    rewrite HN by (cbn [enter leave plocals]; assumption); clear HN
  end;
  first [ reflexivity | congruence | auto ].

Section Inv.
  Variable fo : fops.
  Variable pr : string -> option Z.

  Lemma arms_inv : forall f,
    (forall toks e terms acc brk, pinv e acc brk (pseq fo pr f toks e terms acc brk)) ->
    forall e terms acc brk k toks e' got brk',
      kext (enter e false) e' -> (brk = true -> brk' = true) ->
      (has_own_break_arms got = true -> brk' = true) ->
      (loopdepth e = 0 -> brk = false -> brk' = false) ->
      (plocals e = None -> all_arms ok_nolocal got = true) ->
      pinv e acc brk (parse_arms (pseq fo pr f) e terms acc k toks e' got brk').
  Proof.
    intros f IH e terms acc brk. induction k as [| k IHk]; intros toks e' got brk' Hk B1 B2 B3 B4; [ exact I | ].
    cbn [parse_arms]. repeat pstep; sat IH.
    - (* another arm *)
      apply IHk.
      + eapply kext_trans; [ exact Hk | eapply kext_trans; eassumption ].
      + intro HH. rewrite (B1 HH). reflexivity.
      + rewrite has_own_break_arms_app. cbn [has_own_break_arms]. rewrite !orb_false_r. brk_true.
      + intros D N. rewrite (B3 D N). pose proof (kext_depth _ _ Hk) as D1. cbn [enter loopdepth] in D1.
        depth_facts. reflexivity.
      + intro N. rewrite all_arms_app, (B4 N). rewrite all_arms_cons. cbn [all_arms]. loc_facts.
        unfold no_local_block in *. rewrite HN, HN0 by assumption. reflexivity.
    - (* endcase *)
      match goal with
      | |- pinv ?e ?acc ?brk (pseq _ _ _ _ ?e1 _ (?x :: ?acc) ?b1) =>
        apply (pinv_tail e e1 acc x brk b1); [ | | | | | apply IH ]
      end.
      + eapply kext_enter_leave. eapply kext_trans; eassumption.
      + intro HH. rewrite (B1 HH). reflexivity.
      + rewrite has_own_break_SCase. brk_true.
      + intros D N. rewrite (B3 D N). pose proof (kext_depth _ _ Hk) as D1. cbn [enter loopdepth] in D1.
        depth_facts. reflexivity.
      + intro N. unfold no_local_stmt, no_local_block in *. rewrite all_stmt_SCase, (B4 N).
        cbn [ok_nolocal andb]. loc_facts. apply HN. assumption.
  Qed.

  Lemma pseq_inv_word : forall f,
    (forall toks e terms acc brk, pinv e acc brk (pseq fo pr f toks e terms acc brk)) ->
    forall w a b rest e terms acc brk,
      pinv e acc brk (pseq fo pr (S f) ((TWord w, a, b) :: rest) e terms acc brk).
  Proof.
    intros f IH w a b rest e terms acc brk.
    destruct (String.eqb w "case") eqn:Ecase.
    - apply String.eqb_eq in Ecase. subst w. rewrite pseq_case_unfold.
      destruct (local_ix e "case").
      { eapply pinv_tail; [ | | | | | apply IH ]; [ apply kext_refl | auto | intro HH; discriminate HH | auto | intro; reflexivity ]. }
      destruct (lookup (names e) "case") as [bd |].
      { eapply pinv_tail; [ | | | | | apply IH ]; [ apply kext_refl | auto | destruct bd; intro HH; discriminate HH | auto | destruct bd; intro; reflexivity ]. }
      destruct (mem terms "case"); [ apply pinv_here | ].
      apply arms_inv; auto; [ apply kext_refl | intro HH; discriminate HH ].
    - cbn [pseq]. rewrite Ecase. repeat pstep.
      all: sat IH.
      all: try (apply pinv_here).
      all: match goal with
           | |- pinv ?e ?acc ?brk (pseq _ _ _ _ ?e1 _ (?x :: ?acc) ?b1) =>
             apply (pinv_tail e e1 acc x brk b1); [ kx | | | | nl | apply IH ]
           end.
      all: try (intro; assumption).
      all: try (intro HH; discriminate HH).
      all: try (intros; assumption).
      all: try (intro HH; rewrite HH; reflexivity).
      all: try (rewrite ?has_own_break_SIf, ?has_own_break_SIfE, ?has_own_break_SUntil; brk_true; fail).
      all: try (intros D N; subst; depth_facts; reflexivity).
      (* break inside a loop: the depth is not 0 *)
      all: try (intros D N; match goal with Hd : (0 <? loopdepth _)%nat = true |- _ =>
                                              rewrite D in Hd; discriminate Hd end).
  Qed.

  Theorem pseq_inv : forall f toks e terms acc brk, pinv e acc brk (pseq fo pr f toks e terms acc brk).
  Proof.
    induction f as [| f IH]; intros toks e terms acc brk; [ exact I | ].
    destruct toks as [| [[t a] b] rest]; [ apply pinv_here | ].
    destruct t as [| w | | | c | txt | x y z].
    - apply pinv_here.
    - apply pseq_inv_word. exact IH.
    - cbn [pseq]. apply IH.
    - cbn [pseq]. apply IH.
    - cbn [pseq]. eapply pinv_tail; [ | | | | | apply IH ]; [ apply kext_refl | auto | intro HH; discriminate HH | auto | intro; reflexivity ].
    - cbn [pseq]. destruct (pr txt); [ | exact I ].
      eapply pinv_tail; [ | | | | | apply IH ]; [ apply kext_refl | auto | intro HH; discriminate HH | auto | intro; reflexivity ].
    - exact I.
  Qed.
End Inv.
