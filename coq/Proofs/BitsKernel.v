(* Byte-level kernels of the bit-string mirror, characterised through N.testbit
   by finite sweeps over bytes, plus arithmetic facts about [bits_to_N]. *)
From Xeh Require Import Model.Prelude Model.Bits.
From Coq Require Import ZifyBool ZifyNat ZifyN.
Local Ltac Zify.zify_post_hook ::= Z.div_mod_to_equations.

#[local] Arguments N.add : simpl never.
#[local] Arguments N.sub : simpl never.
#[local] Arguments N.mul : simpl never.
#[local] Arguments N.eqb : simpl never.
#[local] Arguments N.ltb : simpl never.
#[local] Arguments N.leb : simpl never.
#[local] Arguments N.land : simpl never.
#[local] Arguments N.lor : simpl never.
#[local] Arguments N.lxor : simpl never.
#[local] Arguments N.shiftl : simpl never.
#[local] Arguments N.shiftr : simpl never.
#[local] Arguments N.testbit : simpl never.
#[local] Arguments N.pow : simpl never.
#[local] Arguments N.of_nat : simpl never.
#[local] Arguments Nat.div : simpl never.
#[local] Arguments Nat.modulo : simpl never.

(* ---------- sweeping machinery ---------- *)

Definition bytes : list N := map N.of_nat (seq 0 256).

Lemma in_bytes x : (x < 256)%N -> In x bytes.
Proof.
  intros H. unfold bytes. apply in_map_iff. exists (N.to_nat x). split; [lia|].
  apply in_seq. lia.
Qed.

Lemma sweep_byte (P : N -> bool) :
  forallb P bytes = true -> forall x, (x < 256)%N -> P x = true.
Proof. intros H x Hx. rewrite forallb_forall in H. apply H, in_bytes, Hx. Qed.

Lemma sweep_nat n (P : nat -> bool) :
  forallb P (seq 0 n) = true -> forall k, k < n -> P k = true.
Proof. intros H k Hk. rewrite forallb_forall in H. apply H, in_seq. lia. Qed.

Lemma sweep_bool (P : bool -> bool) :
  forallb P [true; false] = true -> forall b, P b = true.
Proof.
  intros H b. cbn [forallb] in H. apply andb_prop in H. destruct H as [H1 H2].
  apply andb_prop in H2. destruct H2 as [H2 _]. destruct b; assumption.
Qed.

(* bit [k] of a byte, counted from the most significant bit *)
Definition tb (x : N) (k : nat) : bool := N.testbit x (N.of_nat (7 - k)).

(* ---------- bits_to_N arithmetic ---------- *)

Definition bstep (acc : N) (b : bool) : N := (2 * acc + (if b then 1 else 0))%N.

Lemma bits_to_N_fold l : bits_to_N l = fold_left bstep l 0%N.
Proof. reflexivity. Qed.

Lemma pow2_S n : (2 ^ N.of_nat (S n) = 2 * 2 ^ N.of_nat n)%N.
Proof. rewrite Nat2N.inj_succ, N.pow_succ_r'. reflexivity. Qed.

Lemma pow2_pos n : (0 < 2 ^ n)%N.
Proof. apply N.neq_0_lt_0, N.pow_nonzero. discriminate. Qed.

Lemma fold_bstep_acc l : forall acc,
  fold_left bstep l acc = (acc * 2 ^ N.of_nat (length l) + fold_left bstep l 0)%N.
Proof.
  induction l as [|b l IH]; intros acc; cbn [fold_left length].
  - change (N.of_nat 0) with 0%N. rewrite N.pow_0_r. lia.
  - rewrite IH. rewrite (IH (bstep 0 b)). rewrite pow2_S.
    unfold bstep. destruct b; lia.
Qed.

Lemma bits_to_N_nil : bits_to_N [] = 0%N.
Proof. reflexivity. Qed.

Lemma bits_to_N_cons b l :
  bits_to_N (b :: l) = (b2n b * 2 ^ N.of_nat (length l) + bits_to_N l)%N.
Proof.
  rewrite !bits_to_N_fold. cbn [fold_left]. rewrite fold_bstep_acc.
  unfold bstep, b2n. destruct b; lia.
Qed.

Lemma bits_to_N_app a b :
  bits_to_N (a ++ b) = (bits_to_N a * 2 ^ N.of_nat (length b) + bits_to_N b)%N.
Proof.
  rewrite !bits_to_N_fold. rewrite fold_left_app. apply fold_bstep_acc.
Qed.

Lemma bits_to_N_lt l : (bits_to_N l < 2 ^ N.of_nat (length l))%N.
Proof.
  induction l as [|b l IH].
  - rewrite bits_to_N_nil. cbn [length]. change (N.of_nat 0) with 0%N.
    rewrite N.pow_0_r. lia.
  - rewrite bits_to_N_cons. cbn [length]. rewrite pow2_S.
    pose proof (pow2_pos (N.of_nat (length l))) as HP.
    unfold b2n. destruct b; lia.
Qed.

Lemma bits_to_N_inj : forall a b,
  length a = length b -> bits_to_N a = bits_to_N b -> a = b.
Proof.
  induction a as [|x a IH]; intros [|y b] Hl He; cbn [length] in Hl; try discriminate.
  - reflexivity.
  - injection Hl as Hl. rewrite !bits_to_N_cons in He. rewrite <- Hl in He.
    pose proof (bits_to_N_lt a) as Ha. pose proof (bits_to_N_lt b) as Hb.
    rewrite <- Hl in Hb.
    pose proof (pow2_pos (N.of_nat (length a))) as HP.
    set (P := (2 ^ N.of_nat (length a))%N) in *.
    assert (x = y /\ bits_to_N a = bits_to_N b) as [-> E].
    { unfold b2n in He. destruct x, y; split; try reflexivity; lia. }
    f_equal. apply IH; assumption.
Qed.

(* shift-or of a value below 2^n is an addition *)
Lemma lor_shiftl_add v w n :
  (w < 2 ^ n)%N -> N.lor (N.shiftl v n) w = (v * 2 ^ n + w)%N.
Proof.
  intros Hw.
  assert (Hland : N.land (N.shiftl v n) w = 0%N).
  { apply N.bits_inj. intros k. rewrite N.land_spec, N.bits_0.
    destruct (N.lt_ge_cases k n) as [Hk|Hk].
    - rewrite N.shiftl_spec_low by assumption. reflexivity.
    - destruct (N.eq_dec w 0) as [->|Hnz].
      + rewrite N.bits_0. apply andb_false_r.
      + rewrite (N.bits_above_log2 w k).
        * apply andb_false_r.
        * apply N.lt_le_trans with n; [|assumption].
          apply N.log2_lt_pow2; [lia|assumption]. }
  rewrite <- N.lxor_lor by assumption.
  rewrite <- N.add_nocarry_lxor by assumption.
  rewrite N.shiftl_mul_pow2. reflexivity.
Qed.

Lemma land_255_lt a : (N.land a 255 < 256)%N.
Proof.
  change 255%N with (N.ones 8). rewrite N.land_ones.
  apply N.mod_lt. discriminate.
Qed.

(* ---------- cut_bits ---------- *)

Definition k_cut (x : N) (sb len : nat) : bool :=
  if len <=? 8 - sb
  then N.eqb (N.land (N.shiftr x (N.of_nat (8 - (sb + len)))) (bit_mask len))
             (bits_to_N (map (tb x) (seq sb len)))
  else true.

Lemma k_cut_all :
  forallb (fun x => forallb (fun sb => forallb (fun len => k_cut x sb len) (seq 0 9)) (seq 0 8)) bytes = true.
Proof. vm_compute. reflexivity. Qed.

Lemma cut_kernel x sb len : (x < 256)%N -> sb < 8 -> len <= 8 - sb ->
  N.land (N.shiftr x (N.of_nat (8 - (sb + len)))) (bit_mask len)
  = bits_to_N (map (tb x) (seq sb len)).
Proof.
  intros Hx Hs Hl.
  pose proof (sweep_byte _ k_cut_all x Hx) as H1. cbv beta in H1.
  pose proof (sweep_nat _ _ H1 sb Hs) as H2. cbv beta in H2.
  pose proof (sweep_nat _ _ H2 len ltac:(lia)) as H3. cbv beta in H3.
  unfold k_cut in H3. replace (len <=? 8 - sb) with true in H3 by lia.
  apply N.eqb_eq in H3. exact H3.
Qed.

Lemma cut_bits_spec x s e : (x < 256)%N ->
  cut_bits x s e =
  (bits_to_N (map (tb x) (seq (s mod 8) (Nat.min (e - s) (8 - s mod 8)))),
   Nat.min (e - s) (8 - s mod 8)).
Proof.
  intros Hx. unfold cut_bits. cbv zeta. f_equal.
  apply cut_kernel; [assumption|lia|lia].
Qed.

(* a byte is the value of its eight bits *)
Lemma k_byte_all :
  forallb (fun x => N.eqb (bits_to_N (map (tb x) (seq 0 8))) x) bytes = true.
Proof. vm_compute. reflexivity. Qed.

Lemma byte_bits x : (x < 256)%N -> bits_to_N (map (tb x) (seq 0 8)) = x.
Proof.
  intros Hx. pose proof (sweep_byte _ k_byte_all x Hx) as H. cbv beta in H.
  apply N.eqb_eq in H. exact H.
Qed.

(* ---------- bit_at ---------- *)

Lemma k_bitat_all :
  forallb (fun x => forallb (fun k =>
     N.eqb (N.land (N.shiftr x (N.of_nat (7 - k))) 1) (b2n (tb x k))) (seq 0 8)) bytes = true.
Proof. vm_compute. reflexivity. Qed.

Lemma bitat_kernel x k : (x < 256)%N -> k < 8 ->
  N.land (N.shiftr x (N.of_nat (7 - k))) 1 = b2n (tb x k).
Proof.
  intros Hx Hk.
  pose proof (sweep_byte _ k_bitat_all x Hx) as H1. cbv beta in H1.
  pose proof (sweep_nat _ _ H1 k Hk) as H2. cbv beta in H2.
  apply N.eqb_eq in H2. exact H2.
Qed.

(* ---------- or one bit into a byte ---------- *)

Lemma k_or_all :
  forallb (fun y => forallb (fun b => forallb (fun s =>
     N.ltb (N.lor y (N.shiftl (b2n b) (N.of_nat (7 - s)))) 256 &&
     forallb (fun j =>
       Bool.eqb (tb (N.lor y (N.shiftl (b2n b) (N.of_nat (7 - s)))) j)
                (tb y j || (b && (j =? s)))) (seq 0 8)) (seq 0 8)) [true; false]) bytes = true.
Proof. vm_compute. reflexivity. Qed.

Lemma or_kernel y b s : (y < 256)%N -> s < 8 ->
  (N.lor y (N.shiftl (b2n b) (N.of_nat (7 - s))) < 256)%N /\
  forall j, j < 8 ->
    tb (N.lor y (N.shiftl (b2n b) (N.of_nat (7 - s)))) j = (tb y j || (b && (j =? s))).
Proof.
  intros Hy Hs.
  pose proof (sweep_byte _ k_or_all y Hy) as H1. cbv beta in H1.
  pose proof (sweep_bool _ H1 b) as H2. cbv beta in H2.
  pose proof (sweep_nat _ _ H2 s Hs) as H3. cbv beta in H3.
  apply andb_prop in H3. destruct H3 as [H3 H4]. split.
  - apply N.ltb_lt. exact H3.
  - intros j Hj. pose proof (sweep_nat _ _ H4 j Hj) as H5. cbv beta in H5.
    apply eqb_prop in H5. exact H5.
Qed.

(* ---------- xor one bit of a byte ---------- *)

Lemma k_xor_all :
  forallb (fun y => forallb (fun s =>
     N.ltb (N.lxor y (N.shiftl 1 (N.of_nat (7 - s)))) 256 &&
     forallb (fun j =>
       Bool.eqb (tb (N.lxor y (N.shiftl 1 (N.of_nat (7 - s)))) j)
                (xorb (tb y j) (j =? s))) (seq 0 8)) (seq 0 8)) bytes = true.
Proof. vm_compute. reflexivity. Qed.

Lemma xor_kernel y s : (y < 256)%N -> s < 8 ->
  (N.lxor y (N.shiftl 1 (N.of_nat (7 - s))) < 256)%N /\
  forall j, j < 8 ->
    tb (N.lxor y (N.shiftl 1 (N.of_nat (7 - s)))) j = xorb (tb y j) (j =? s).
Proof.
  intros Hy Hs.
  pose proof (sweep_byte _ k_xor_all y Hy) as H1. cbv beta in H1.
  pose proof (sweep_nat _ _ H1 s Hs) as H3. cbv beta in H3.
  apply andb_prop in H3. destruct H3 as [H3 H4]. split.
  - apply N.ltb_lt. exact H3.
  - intros j Hj. pose proof (sweep_nat _ _ H4 j Hj) as H5. cbv beta in H5.
    apply eqb_prop in H5. exact H5.
Qed.

(* ---------- clear the bits after position r of a byte ---------- *)

Lemma k_trim_all :
  forallb (fun y => forallb (fun r =>
     N.ltb (N.land y (N.land (N.shiftl 255 (N.of_nat (8 - r))) 255)) 256 &&
     forallb (fun j =>
       Bool.eqb (tb (N.land y (N.land (N.shiftl 255 (N.of_nat (8 - r))) 255)) j)
                (tb y j && (j <? r))) (seq 0 8)) (seq 0 8)) bytes = true.
Proof. vm_compute. reflexivity. Qed.

Lemma trim_kernel y r : (y < 256)%N -> r < 8 ->
  (N.land y (N.land (N.shiftl 255 (N.of_nat (8 - r))) 255) < 256)%N /\
  forall j, j < 8 ->
    tb (N.land y (N.land (N.shiftl 255 (N.of_nat (8 - r))) 255)) j = (tb y j && (j <? r)).
Proof.
  intros Hy Hs.
  pose proof (sweep_byte _ k_trim_all y Hy) as H1. cbv beta in H1.
  pose proof (sweep_nat _ _ H1 r Hs) as H3. cbv beta in H3.
  apply andb_prop in H3. destruct H3 as [H3 H4]. split.
  - apply N.ltb_lt. exact H3.
  - intros j Hj. pose proof (sweep_nat _ _ H4 j Hj) as H5. cbv beta in H5.
    apply eqb_prop in H5. exact H5.
Qed.

(* ---------- BitvecBuilder: first bit of a fresh byte ---------- *)

Lemma k_push_all :
  forallb (fun b => forallb (fun j =>
     Bool.eqb (tb (N.land (N.shiftl (b2n b) 7) 255) j) (b && (j =? 0))) (seq 0 8)) [true; false] = true.
Proof. vm_compute. reflexivity. Qed.

Lemma push_kernel b j : j < 8 ->
  tb (N.land (N.shiftl (b2n b) 7) 255) j = (b && (j =? 0)).
Proof.
  intros Hj.
  pose proof (sweep_bool _ k_push_all b) as H1. cbv beta in H1.
  pose proof (sweep_nat _ _ H1 j Hj) as H2. cbv beta in H2.
  apply eqb_prop in H2. exact H2.
Qed.

(* ---------- from_hex: high and low nibble ---------- *)

Definition nibbles : list N := map N.of_nat (seq 0 16).

Lemma sweep_nibble (P : N -> bool) :
  forallb P nibbles = true -> forall x, (x < 16)%N -> P x = true.
Proof.
  intros H x Hx. rewrite forallb_forall in H. apply H.
  unfold nibbles. apply in_map_iff. exists (N.to_nat x). split; [lia|].
  apply in_seq. lia.
Qed.

Lemma k_hexhi_all :
  forallb (fun v => forallb (fun j =>
     Bool.eqb (tb (N.land (N.shiftl v 4) 255) j)
              ((j <? 4) && nth j (nibble_bits v) false)) (seq 0 8)) nibbles = true.
Proof. vm_compute. reflexivity. Qed.

Lemma hexhi_kernel v j : (v < 16)%N -> j < 8 ->
  tb (N.land (N.shiftl v 4) 255) j = ((j <? 4) && nth j (nibble_bits v) false).
Proof.
  intros Hv Hj.
  pose proof (sweep_nibble _ k_hexhi_all v Hv) as H1. cbv beta in H1.
  pose proof (sweep_nat _ _ H1 j Hj) as H2. cbv beta in H2.
  apply eqb_prop in H2. exact H2.
Qed.

Lemma k_hexlo_all :
  forallb (fun y => forallb (fun v =>
     N.ltb (N.lor y v) 256 &&
     forallb (fun j =>
       Bool.eqb (tb (N.lor y v) j)
                (tb y j || ((4 <=? j) && nth (j - 4) (nibble_bits v) false))) (seq 0 8)) nibbles) bytes = true.
Proof. vm_compute. reflexivity. Qed.

Lemma hexlo_kernel y v : (y < 256)%N -> (v < 16)%N ->
  (N.lor y v < 256)%N /\
  forall j, j < 8 ->
    tb (N.lor y v) j = (tb y j || ((4 <=? j) && nth (j - 4) (nibble_bits v) false)).
Proof.
  intros Hy Hv.
  pose proof (sweep_byte _ k_hexlo_all y Hy) as H1. cbv beta in H1.
  pose proof (sweep_nibble _ H1 v Hv) as H3. cbv beta in H3.
  apply andb_prop in H3. destruct H3 as [H3 H4]. split.
  - apply N.ltb_lt. exact H3.
  - intros j Hj. pose proof (sweep_nat _ _ H4 j Hj) as H5. cbv beta in H5.
    apply eqb_prop in H5. exact H5.
Qed.

(* ---------- detach: left-align a group of at most 8 bits ---------- *)

Definition pack (g : list bool) : N :=
  N.land (N.shiftl (bits_to_N g) (N.of_nat (8 - length g))) 255.

Fixpoint all_lists (n : nat) : list (list bool) :=
  match n with
  | O => [[]]
  | S m => map (cons true) (all_lists m) ++ map (cons false) (all_lists m)
  end.

Lemma in_all_lists : forall g, In g (all_lists (length g)).
Proof.
  induction g as [|b g IH]; cbn [length all_lists].
  - left. reflexivity.
  - apply in_or_app. destruct b; [left|right]; apply in_map; exact IH.
Qed.

Lemma k_pack_all :
  forallb (fun n => forallb (fun g => forallb (fun j =>
     Bool.eqb (tb (pack g) j) (nth j g false)) (seq 0 8)) (all_lists n)) (seq 0 9) = true.
Proof. vm_compute. reflexivity. Qed.

Lemma pack_kernel g j : length g <= 8 -> j < 8 -> tb (pack g) j = nth j g false.
Proof.
  intros Hg Hj.
  pose proof (sweep_nat _ _ k_pack_all (length g) ltac:(lia)) as H1. cbv beta in H1.
  rewrite forallb_forall in H1. specialize (H1 g (in_all_lists g)). cbv beta in H1.
  pose proof (sweep_nat _ _ H1 j Hj) as H2. cbv beta in H2.
  apply eqb_prop in H2. exact H2.
Qed.

Lemma pack_lt g : (pack g < 256)%N.
Proof. apply land_255_lt. Qed.
