(* DbgMapProv.v (C17, 2): provenance of the debug-map entries.

   [is_token_span src a b]: the lexer, run over the text [src] ([lex_string]), produces a
   token (not whitespace, not a comment) with exactly the span [a, b).
   [tok_ok s (n, a, b)]: n is the index of a source of s and [a, b) is a token span of it.
   [dbg_ok s]: every entry of the debug map is [tok_ok]; [last_ok s]: so is the last token.

   The input lexers are kept "live" ([lex_live]: every token they will still produce is a
   token of [lex_string] of their source), so each token fetched by [next_token] is a token of
   its source; [code_emit] appends the last token; nothing else writes the debug map except
   the truncations.  The invariant is carried through every immediate word, [build1] for any
   fuel, the context operations, [build_unwind], [eval] / [compile] for ALL sources and every
   machine step, hence holds in every state reachable from [boot]. *)
From Xeh Require Import Model.Prelude Model.Bits Model.Codec Model.Cell Model.Lexer Model.Fmt
                        Model.Vm Model.Words Model.Build Model.Boot.
From Xeh Require Import Proofs.LexLoc Proofs.LexBasic Proofs.LexNext Proofs.LexAll.
From Xeh Require Import Proofs.VmFrame Proofs.VmLimits Proofs.DbgMapVm Proofs.DbgMapGen
                        Proofs.DbgMapAlign.

#[local] Arguments Z.add : simpl never.
#[local] Arguments Z.sub : simpl never.
#[local] Arguments Z.mul : simpl never.
#[local] Arguments Z.ltb : simpl never.
#[local] Arguments Z.leb : simpl never.
#[local] Arguments Z.eqb : simpl never.
#[local] Arguments Z.of_nat : simpl never.
#[local] Arguments Z.to_nat : simpl never.

(* ---------- definitions ---------- *)
Definition nonws (t : tok) : bool := match t with TWs | TComment => false | _ => true end.

Definition is_token_span (src : string) (a b : nat) : Prop :=
  exists t, In (t, a, b) (lex_string src) /\ nonws t = true.

Definition src_of (s : state) (n : nat) : string := nth n (sources s) EmptyString.

Definition tok_ok (s : state) (t : tokref) : Prop :=
  let '(n, a, b) := t in n < List.length (sources s) /\ is_token_span (src_of s n) a b.

Definition dbg_ok (s : state) : Prop := Forall (tok_ok s) (dbg s).

Definition last_ok (s : state) : Prop :=
  match last_tok s with Some t => tok_ok s t | None => True end.

(* a lexer in the middle of its text: what it will still produce is part of lex_string *)
Definition lex_live (src : string) (l : lexst) : Prop :=
  Inv src l /\
  exists fuel, String.length src - lpos l < fuel /\ incl (lex_all fuel l) (lex_string src).

Definition inlex_ok (s : state) (il : inlex) : Prop :=
  in_src il < List.length (sources s) /\ lex_live (src_of s (in_src il)) (in_lex il).

Definition inputs_ok (s : state) : Prop := Forall (inlex_ok s) (input s).

(* no meta context is open *)
Definition nometa (s : state) : Prop :=
  cmode (cx s) <> MMeta /\ Forall (fun c => cmode c <> MMeta) (nested s).

(* a token has been read, or no meta context is open (so that nothing is emitted before the
   first token of the session has been read) *)
Definition tok_ready (s : state) : Prop := last_tok s <> None \/ nometa s.

Definition PE (s : state) : Prop := al s /\ dbg_ok s /\ last_ok s /\ tok_ready s.
Definition P0 (s : state) : Prop := PE s /\ inputs_ok s.
Definition P1 (s : state) : Prop := P0 s /\ last_tok s <> None.
(* between API calls no input is pending *)
Definition PT (s : state) : Prop := PE s /\ input s = [].

(* the last token is a token [tk] of its source *)
Definition last_is (s : state) (tk : tok) : Prop :=
  exists n a b, last_tok s = Some (n, a, b) /\ n < List.length (sources s) /\
                In (tk, a, b) (lex_string (src_of s n)).

(* ---------- the lexer ---------- *)
Lemma lex_live_new src : lex_live src (lex_new src).
Proof.
  split; [apply Inv_new|]. exists (S (String.length src)). split; [cbn [lex_new lpos]; lia|].
  unfold lex_string. apply incl_refl.
Qed.

Lemma lex_live_step src l t l' : lex_live src l -> lex_next l = (t, l') ->
  In (t, lstart l', lpos l') (lex_string src) /\
  Inv src l' /\
  (is_final t = false -> lex_live src l' /\ String.length src - lpos l' < String.length src - lpos l).
Proof.
  intros (HI & fuel & Hf & Hin) Hn.
  destruct fuel as [|f]; [lia|].
  rewrite lex_all_S, Hn in Hin.
  destruct (step_inv src l t l' HI Hn) as (I' & S1 & S2 & S3 & S4).
  destruct (is_final t) eqn:Et.
  - split; [apply Hin; left; reflexivity|]. split; [exact I'|]. discriminate.
  - split; [apply Hin; left; reflexivity|]. split; [exact I'|]. intros _.
    destruct (S3 eq_refl) as [Q1 Q2]. split; [|lia].
    split; [exact I'|]. exists f. split; [lia|].
    intros x Hx. apply Hin. right. exact Hx.
Qed.

Lemma lex_nonws_live src : forall fuel l t l',
  lex_live src l -> String.length src - lpos l < fuel ->
  lex_next_nonws fuel l = (t, l') ->
  In (t, lstart l', lpos l') (lex_string src) /\ nonws t = true /\
  (is_final t = false -> lex_live src l').
Proof.
  induction fuel as [|f IH]; intros l t l' HL Hf H; [lia|].
  cbn [lex_next_nonws] in H. destruct (lex_next l) as [t0 l0] eqn:Hn.
  destruct (lex_live_step src l t0 l0 HL Hn) as (A1 & A2 & A3).
  destruct t0; try (injection H as <- <-; split; [exact A1|]; split; [reflexivity|];
                    intros Hfin; exact (proj1 (A3 Hfin))).
  - destruct (A3 eq_refl) as [B1 B2]. eapply IH; [exact B1|lia|exact H].
  - destruct (A3 eq_refl) as [B1 B2]. eapply IH; [exact B1|lia|exact H].
Qed.

Lemma lex_nonws_live_std src l t l' :
  lex_live src l -> lex_next_nonws (S (String.length (lrest l))) l = (t, l') ->
  In (t, lstart l', lpos l') (lex_string src) /\ nonws t = true /\
  (is_final t = false -> lex_live src l').
Proof.
  intros HL H. eapply lex_nonws_live; [exact HL| |exact H].
  destruct HL as ((I1 & I2) & _). rewrite I1, str_drop_length. lia.
Qed.

(* ---------- monotonicity in the sources ---------- *)
Lemma src_of_app s s' ext n : sources s' = sources s ++ ext -> n < List.length (sources s) ->
  src_of s' n = src_of s n.
Proof. intros E H. unfold src_of. rewrite E. apply app_nth1. exact H. Qed.

Lemma tok_ok_ext s s' ext t : sources s' = sources s ++ ext -> tok_ok s t -> tok_ok s' t.
Proof.
  intros E. destruct t as [[n a] b]. cbn [tok_ok]. intros [H1 H2]. split.
  - rewrite E, app_length. lia.
  - rewrite (src_of_app s s' ext n E H1). exact H2.
Qed.

Lemma tok_ok_eq s s' t : sources s' = sources s -> tok_ok s t -> tok_ok s' t.
Proof. intros E. apply (tok_ok_ext s s' []). rewrite app_nil_r. exact E. Qed.

Lemma dbg_ok_eq s s' : sources s' = sources s -> dbg s' = dbg s -> dbg_ok s -> dbg_ok s'.
Proof.
  unfold dbg_ok. intros E1 E2 H. rewrite E2. eapply Forall_impl; [|exact H].
  intros t. apply tok_ok_eq. exact E1.
Qed.

Lemma last_ok_eq s s' : sources s' = sources s -> last_tok s' = last_tok s -> last_ok s -> last_ok s'.
Proof.
  unfold last_ok. intros E1 E2 H. rewrite E2. destruct (last_tok s); [|exact I].
  eapply tok_ok_eq; eassumption.
Qed.

Lemma inlex_ok_ext s s' ext il : sources s' = sources s ++ ext -> inlex_ok s il -> inlex_ok s' il.
Proof.
  intros E [H1 H2]. split.
  - rewrite E, app_length. lia.
  - rewrite (src_of_app s s' ext _ E H1). exact H2.
Qed.

Lemma inputs_ok_eq s s' : sources s' = sources s -> input s' = input s -> inputs_ok s -> inputs_ok s'.
Proof.
  unfold inputs_ok. intros E1 E2 H. rewrite E2. eapply Forall_impl; [|exact H].
  intros il. apply (inlex_ok_ext s s' []). rewrite app_nil_r. exact E1.
Qed.

Lemma nometa_eq s s' : cmode (cx s') = cmode (cx s) -> nested s' = nested s -> nometa s -> nometa s'.
Proof. unfold nometa. intros -> ->. auto. Qed.

Lemma tok_ready_eq s s' :
  last_tok s' = last_tok s -> cmode (cx s') = cmode (cx s) -> nested s' = nested s ->
  tok_ready s -> tok_ready s'.
Proof.
  unfold tok_ready. intros E1 E2 E3 [H|H]; [left; congruence|right; eapply nometa_eq; eassumption].
Qed.

(* ---------- stability under machine steps ---------- *)
Lemma PE_vm s s' : vmrel s s' -> PE s -> PE s'.
Proof.
  intros V (A & B & C & D). destruct (vmrel_keeps _ _ V) as (K1 & K2 & K3 & K4 & K5 & K6 & K7).
  split; [eapply al_vm; eassumption|]. split; [eapply dbg_ok_eq; eassumption|].
  split; [eapply last_ok_eq; eassumption|].
  eapply tok_ready_eq; try eassumption. apply ctx_noip_mode. exact K7.
Qed.

Lemma P0_vm s s' : vmrel s s' -> P0 s -> P0 s'.
Proof.
  intros V (A & B). destruct (vmrel_keeps _ _ V) as (K1 & K2 & K3 & K4 & K5 & K6 & K7).
  split; [eapply PE_vm; eassumption|]. eapply inputs_ok_eq; eassumption.
Qed.

Lemma P1_vm s s' : vmrel s s' -> P1 s -> P1 s'.
Proof.
  intros V (A & B). destruct (vmrel_keeps _ _ V) as (K1 & K2 & K3 & K4 & K5 & K6 & K7).
  split; [eapply P0_vm; eassumption|]. congruence.
Qed.

Lemma PT_vm s s' : vmrel s s' -> PT s -> PT s'.
Proof.
  intros V (A & B). destruct (vmrel_keeps _ _ V) as (K1 & K2 & K3 & K4 & K5 & K6 & K7).
  split; [eapply PE_vm; eassumption|]. congruence.
Qed.

(* with a token read, the context fields do not matter *)
Lemma P1_ctx s s' :
  code s' = code s -> dbg s' = dbg s -> sources s' = sources s -> input s' = input s ->
  last_tok s' = last_tok s -> P1 s -> P1 s'.
Proof.
  intros E1 E2 E3 E4 E5 (((A & B & C & D) & F) & G).
  assert (G' : last_tok s' <> None) by congruence.
  split; [|exact G']. split; [|eapply inputs_ok_eq; eassumption].
  split; [eapply al_eq; eassumption|]. split; [eapply dbg_ok_eq; eassumption|].
  split; [eapply last_ok_eq; eassumption|]. left. exact G'.
Qed.

(* ---------- token reading ---------- *)
Section Tok.
  Variable pr : string -> option Z.

  Definition tok_post (s : state) (r : res btok) : Prop :=
    match r with
    | ROk BEnd s' => P0 s' /\ input s' = [] /\ (last_tok s <> None -> last_tok s' <> None)
    | ROk (BWord w) s' => P1 s' /\ last_is s' (TWord w)
    | ROk (BLit c) s' =>
      P1 s' /\ (last_is s' (TLit c) \/
                exists txt r, last_is s' (TReal txt) /\ pr txt = Some r /\ c = CReal r)
    | RErr k _ s' =>
      PE s' /\ k = EParse /\
      ((exists e x y, last_is s' (TErr e x y)) \/ (exists txt, last_is s' (TReal txt) /\ pr txt = None))
    | _ => True
    end.

  Lemma next_token_prov : forall fuel s, P0 s -> tok_post s (next_token pr fuel s).
  Proof.
    induction fuel as [|f IH]; intros s Hs; cbn [next_token]; [exact I|].
    destruct (input s) as [|il rest] eqn:Ein.
    { cbn [tok_post]. auto. }
    cbv zeta.
    destruct Hs as ((Ha & Hd & Hl & Hr) & Hi).
    unfold inputs_ok in Hi. rewrite Ein in Hi. inversion Hi as [|x y [Hil1 Hil2] Hrest]; subst x y.
    destruct (lex_next_nonws (S (String.length (lrest (in_lex il)))) (in_lex il)) as [t l'] eqn:En.
    destruct (lex_nonws_live_std _ _ _ _ Hil2 En) as (T1 & T2 & T3).
    set (s1 := set_last_tok (set_input s (mkinlex (in_src il) l' :: rest))
                            (Some (in_src il, lstart l', lpos l'))).
    assert (Htk : tok_ok s1 (in_src il, lstart l', lpos l')).
    { cbn [tok_ok]. split; [exact Hil1|]. exists t. split; [exact T1|exact T2]. }
    assert (HE1 : PE s1).
    { split; [exact Ha|]. split; [exact Hd|]. split; [exact Htk|]. left. discriminate. }
    assert (Hlast : last_is s1 t).
    { exists (in_src il), (lstart l'), (lpos l'). split; [reflexivity|]. split; [exact Hil1|exact T1]. }
    assert (HP1 : is_final t = false -> P1 s1).
    { intros Hfin. split; [|discriminate]. split; [exact HE1|].
      unfold inputs_ok. change (input s1) with (mkinlex (in_src il) l' :: rest).
      constructor; [|exact Hrest]. split; [exact Hil1|]. exact (T3 Hfin). }
    destruct t; try exact I.
    - (* end of this lexer *)
      assert (H0 : P0 (set_input s1 rest)).
      { split; [exact HE1|]. exact Hrest. }
      specialize (IH (set_input s1 rest) H0).
      destruct (next_token pr f (set_input s1 rest)) as [t2 s2|k p s2| |]; try exact IH.
      destruct t2; try exact IH.
      destruct IH as (B1 & B2 & B3). split; [exact B1|]. split; [exact B2|].
      intros _. apply B3. discriminate.
    - cbn [tok_post]. split; [apply HP1; reflexivity|exact Hlast].
    - cbn [tok_post]. split; [apply HP1; reflexivity|left; exact Hlast].
    - destruct (pr text) as [r|] eqn:Epr.
      + cbn [tok_post]. split; [apply HP1; reflexivity|]. right. exists text, r. auto.
      + cbn [tok_post]. split; [exact HE1|]. split; [reflexivity|]. right. exists text. auto.
    - cbn [tok_post]. split; [exact HE1|]. split; [reflexivity|]. left. eauto.
  Qed.

  Lemma get_token_prov : forall s, P0 s -> tok_post s (get_token pr s).
  Proof. intros s Hs. apply next_token_prov. exact Hs. Qed.

  Lemma prov_tok0 :
    gq PE P0 (fun t s' => match t with BEnd => P0 s' | _ => P1 s' end) (get_token pr).
  Proof.
    intros s Hs. pose proof (get_token_prov s Hs) as H.
    destruct (get_token pr s) as [t s1|k p s1| |]; auto.
    - destruct t; cbn [tok_post] in H; tauto.
    - cbn [tok_post] in H. tauto.
  Qed.

  Lemma prov_tok : gp P1 PE (get_token pr).
  Proof.
    intros s [Hs Hn]. pose proof (get_token_prov s Hs) as H.
    destruct (get_token pr s) as [t s1|k p s1| |]; auto.
    - destruct t; cbn [tok_post] in H; try tauto.
      destruct H as (B1 & B2 & B3). split; [exact B1|auto].
    - cbn [tok_post] in H. tauto.
  Qed.

  Lemma prov_name : gp P1 PE (next_name pr).
  Proof.
    intros s Hs. unfold next_name. cbv zeta.
    pose proof (prov_tok s Hs) as H. pose proof (get_token_bk pr s) as K.
    destruct (get_token pr s) as [t s1|k p s1| |]; auto.
    cbn [res_all] in K. destruct K as (K1 & K2 & K3 & K4 & K5 & K6 & K7).
    destruct Hs as (((Ha & Hd & Hl & Hr) & Hi) & Hn).
    assert (X : forall s1, P1 s1 -> code s1 = code s -> dbg s1 = dbg s -> sources s1 = sources s ->
                  PE (match last_tok s with Some _ => set_last_tok s1 (last_tok s) | None => s1 end)).
    { intros s2 (((Ha2 & Hd2 & Hl2 & Hr2) & Hi2) & Hn2) E1 E2 E3.
      destruct (last_tok s) as [t0|] eqn:El; [|congruence].
      split; [exact Ha2|]. split; [exact Hd2|]. split; [|left; discriminate].
      unfold last_ok in *. cbn [set_last_tok last_tok]. rewrite El in Hl.
      eapply tok_ok_eq; [|exact Hl]. exact E3. }
    destruct t; try exact H; apply X; assumption.
  Qed.
End Tok.

(* ---------- emission ---------- *)
Lemma prov_emit op : gp P1 PE (code_emit op).
Proof.
  intros s (((Ha & Hd & Hl & Hr) & Hi) & Hn). rewrite code_emit_al by exact Ha.
  split; [|exact Hn]. split; [|exact Hi].
  split; [apply al_emit_state; exact Ha|]. split; [|split; [exact Hl|exact Hr]].
  unfold dbg_ok, emit_state, cur_tok. cbn [set_code set_dbg dbg].
  apply Forall_app. split; [exact Hd|]. constructor; [|constructor].
  unfold last_ok in Hl. destruct (last_tok s) as [t|]; [exact Hl|congruence].
Qed.

(* ---------- contexts ---------- *)
Lemma prov_open m : gp P1 PE (context_open m).
Proof. intros s Hs. unfold context_open. cbv zeta. eapply P1_ctx; [..|exact Hs]; reflexivity. Qed.

Lemma nometa_open s m c : m <> MMeta -> cmode c = m -> nometa s ->
  nometa (set_nested (set_cx s c) (cx s :: nested s)).
Proof.
  intros Hm Hc [N1 N2]. split; [cbn [set_nested set_cx cx]; congruence|].
  cbn [set_nested set_cx nested]. constructor; assumption.
Qed.

Lemma intern_state_PE t s : PE s ->
  PE (set_input (set_sources s (sources s ++ [t])) (mkinlex (List.length (sources s)) (lex_new t) :: input s)).
Proof.
  intros (Ha & Hd & Hl & Hr).
  set (s' := set_input _ _).
  assert (E : sources s' = sources s ++ [t]) by reflexivity.
  split; [exact Ha|]. split; [|split].
  - unfold dbg_ok. change (dbg s') with (dbg s). eapply Forall_impl; [|exact Hd].
    intros x. apply (tok_ok_ext s s' [t] x E).
  - unfold last_ok in *. change (last_tok s') with (last_tok s). destruct (last_tok s); [|exact I].
    apply (tok_ok_ext s s' [t] _ E Hl).
  - exact Hr.
Qed.

Lemma intern_state_inputs t s : inputs_ok s ->
  inputs_ok (set_input (set_sources s (sources s ++ [t])) (mkinlex (List.length (sources s)) (lex_new t) :: input s)).
Proof.
  intros Hi. set (s' := set_input _ _).
  assert (E : sources s' = sources s ++ [t]) by reflexivity.
  unfold inputs_ok. change (input s') with (mkinlex (List.length (sources s)) (lex_new t) :: input s).
  constructor.
  - split; cbn [in_src in_lex].
    + rewrite E, app_length. cbn [List.length]. lia.
    + unfold src_of. rewrite E. rewrite app_nth2 by lia. rewrite Nat.sub_diag. cbn [nth].
      apply lex_live_new.
  - eapply Forall_impl; [|exact Hi]. intros il. apply (inlex_ok_ext s s' [t] il E).
Qed.

Lemma prov_intern t : gp P1 PE (intern_source t).
Proof.
  intros s ((He & Hi) & Hn). unfold intern_source. cbv zeta.
  split; [|exact Hn]. split; [apply intern_state_PE; exact He|apply intern_state_inputs; exact Hi].
Qed.

Section Close.
  Variable fo : fops.
  Variable rf : nat.

  Lemma prov_emit_results : forall fuel, gp P1 PE (emit_results fuel).
  Proof.
    induction fuel as [|f IH]; intros s Hs; cbn [emit_results]; [exact Hs|].
    destruct (ds_len (cx s) <? List.length (ds s))%nat; [|exact Hs].
    pose proof (wl_frm _ _ wl_pop_data s) as H1.
    destruct (pop_data s) as [v s1|k p s1| |]; cbn [res_all] in *; auto.
    - assert (Hs1 : P1 s1) by (eapply P1_vm; [apply vmrel_frm; exact H1|exact Hs]).
      unfold code_emit_value. pose proof (prov_emit (load_value_opcode v) s1 Hs1) as H2.
      destruct (code_emit (load_value_opcode v) s1) as [u s2|k p s2| |]; auto.
      apply IH. exact H2.
    - assert (Hs1 : P1 s1) by (eapply P1_vm; [apply vmrel_frm; exact H1|exact Hs]).
      exact (proj1 (proj1 Hs1)).
  Qed.

  Lemma P1_PE s : P1 s -> PE s.
  Proof. intros H. exact (proj1 (proj1 H)). Qed.

  Lemma in_firstn_in {A} (n : nat) (l : list A) x : In x (firstn n l) -> In x l.
  Proof. intros H. rewrite <- (firstn_skipn n l). apply in_or_app. left. exact H. Qed.

  Lemma dbg_ok_trunc s n : dbg_ok s ->
    dbg_ok (set_dbg (set_code s (firstn n (code s))) (firstn n (dbg s))).
  Proof.
    unfold dbg_ok. cbn [set_dbg set_code dbg]. intros H.
    apply Forall_forall. intros x Hx. rewrite Forall_forall in H.
    apply (H x). eapply in_firstn_in. exact Hx.
  Qed.

  Lemma P1_trunc s n : P1 s -> P1 (set_dbg (set_code s (firstn n (code s))) (firstn n (dbg s))).
  Proof.
    intros (((Ha & Hd & Hl & Hr) & Hi) & Hn). split; [|exact Hn]. split; [|exact Hi].
    split; [apply al_trunc; exact Ha|]. split; [apply dbg_ok_trunc; exact Hd|]. split; [exact Hl|exact Hr].
  Qed.

  (* context_close with a token read *)
  Lemma prov_close : gp P1 PE (context_close fo rf).
  Proof.
    intros s Hs. unfold context_close.
    destruct (nested s) as [|prev rest]; [apply P1_PE; exact Hs|]. cbv zeta.
    assert (H0 : P1 (set_nested s rest)) by (eapply P1_ctx; [..|exact Hs]; reflexivity).
    pose proof (gq_run_m fo rf P1 P1 P1_vm (fun _ h => h) _ H0) as H.
    destruct (cmode (cx (set_nested s rest))).
    - eapply P1_ctx; [..|exact H0]; reflexivity.
    - destruct (run_m fo rf (set_nested s rest)) as [u s1|k p s1| |]; auto.
      + eapply P1_ctx; [..|exact H]; reflexivity.
      + cbv beta in H. apply P1_PE. eapply P1_ctx; [..|exact H]; reflexivity.
    - destruct (run_m fo rf (set_nested s rest)) as [u s1|k p s1| |]; auto.
      + set (s2 := set_dbg (set_code s1 (firstn (cs_len (cx s1)) (code s1))) (firstn (cs_len (cx s1)) (dbg s1))).
        assert (H2 : P1 s2) by (apply P1_trunc; exact H).
        set (s3 := set_dict s2 _).
        assert (H3 : P1 s3) by (eapply P1_ctx; [..|exact H2]; reflexivity).
        match goal with |- context [if ?b then _ else _] => destruct b end.
        * pose proof (prov_emit_results (S (List.length (ds s3))) s3 H3) as H4.
          destruct (emit_results (S (List.length (ds s3))) s3) as [u4 s4|k p s4| |]; auto.
          eapply P1_ctx; [..|exact H4]; reflexivity.
        * eapply P1_ctx; [..|exact H3]; reflexivity.
      + apply P1_PE. eapply P1_ctx; [..|exact H]; reflexivity.
  Qed.
End Close.

(* ---------- the walk ---------- *)
Section Walk.
  Variable fo : fops.
  Variable pr : string -> option Z.
  Variable rf : nat.

  Lemma P1_P0 s : P1 s -> P0 s.
  Proof. intros H. exact (proj1 H). Qed.
  Lemma P0_PE s : P0 s -> PE s.
  Proof. intros H. exact (proj1 H). Qed.

  Lemma prov_immediate_fn : forall fuel name w, immediate_fn fo pr rf fuel name = Some w -> gp P1 PE w.
  Proof.
    exact (gp_immediate_fn fo pr rf P0 P1 PE P1_P0 P0_PE P1_vm prov_emit (prov_tok pr) (prov_name pr)
             (prov_open MMeta) (fun s Hs => prov_close fo rf s (proj1 Hs)) prov_intern).
  Qed.

  Lemma prov_build_word : forall fuel name, gp P1 PE (build_word fo pr rf fuel name).
  Proof.
    exact (gp_build_word fo pr rf P0 P1 PE P1_P0 P0_PE P1_vm prov_emit (prov_tok pr) (prov_name pr)
             (prov_open MMeta) (fun s Hs => prov_close fo rf s (proj1 Hs)) prov_intern).
  Qed.

  Lemma prov_build1 : forall fuel depth, gp0 P0 PE (build1 fo pr rf fuel depth).
  Proof.
    exact (gp0_build1 fo pr rf P0 P1 PE P1_P0 P0_PE P1_vm P0_vm prov_emit (prov_tok pr) (prov_tok0 pr)
             (prov_name pr) (prov_open MMeta) (fun s Hs => prov_close fo rf s (proj1 Hs)) prov_intern).
  Qed.
End Walk.
