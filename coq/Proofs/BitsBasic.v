(* Basic facts about the bit-string mirror used by every later proof file. *)
From Xeh Require Import Model.Prelude Model.Bits.

Lemma abs_length c : length (abs c) = clen c.
Proof. unfold abs. now rewrite map_length, seq_length. Qed.
