(* UnwindLists.v (C10): list facts used by the unwinding proofs: prefixes kept by appending,
   by updates above the prefix and by truncations; suffixes kept by stack operations above a
   mark; [lastn]; [purge_dict]; [take_cond]. *)
From Xeh Require Import Model.Prelude Model.Bits Model.Codec Model.Cell Model.Lexer Model.Fmt
                        Model.Vm Model.Words Model.Build.
From Xeh Require Import Proofs.VmFrame Proofs.VmLimits.
Local Notation length := List.length.

Definition prefix_of {A} (p l : list A) : Prop := exists e, l = p ++ e.
Definition suffix_of {A} (p l : list A) : Prop := exists v, l = v ++ p.

(* ---------- prefixes ---------- *)
Lemma prefix_refl {A} (l : list A) : prefix_of l l.
Proof. exists []. rewrite app_nil_r. reflexivity. Qed.

Lemma prefix_length {A} (p l : list A) : prefix_of p l -> length p <= length l.
Proof. intros [e ->]. rewrite app_length. lia. Qed.

Lemma prefix_app {A} (p l x : list A) : prefix_of p l -> prefix_of p (l ++ x).
Proof. intros [e ->]. exists (e ++ x). rewrite app_assoc. reflexivity. Qed.

Lemma list_set_app_r {A} (p e : list A) i v :
  length p <= i -> list_set (p ++ e) i v = p ++ list_set e (i - length p) v.
Proof.
  revert i. induction p as [|x p IH]; intros i H; cbn [app length] in *.
  - rewrite Nat.sub_0_r. reflexivity.
  - destruct i as [|i]; [lia|]. cbn [list_set Nat.sub]. rewrite IH by lia. reflexivity.
Qed.

Lemma prefix_list_set {A} (p l : list A) i v :
  prefix_of p l -> length p <= i -> prefix_of p (list_set l i v).
Proof. intros [e ->] H. rewrite list_set_app_r by exact H. eexists. reflexivity. Qed.

Lemma prefix_firstn {A} (p l : list A) n :
  prefix_of p l -> length p <= n -> prefix_of p (firstn n l).
Proof.
  intros [e ->] H. rewrite firstn_app.
  rewrite firstn_all2 by exact H. eexists. reflexivity.
Qed.

Lemma prefix_firstn_eq {A} (p l : list A) : prefix_of p l -> firstn (length p) l = p.
Proof.
  intros [e ->]. rewrite firstn_app, Nat.sub_diag, firstn_all. cbn [firstn]. apply app_nil_r.
Qed.

Lemma prefix_removelast {A} (p d : list A) x :
  prefix_of p (d ++ [x]) -> length p <= length d -> prefix_of p d.
Proof.
  intros [e E] H. exists (firstn (length d - length p) e).
  assert (F : firstn (length d) (d ++ [x]) = d).
  { rewrite firstn_app, Nat.sub_diag, firstn_all. cbn [firstn]. apply app_nil_r. }
  rewrite <- F at 1. rewrite E. rewrite firstn_app. rewrite firstn_all2 by exact H. reflexivity.
Qed.

Lemma prefix_nth {A} (p l : list A) i : prefix_of p l -> i < length p -> nth_error l i = nth_error p i.
Proof. intros [e ->] H. apply nth_error_app1. exact H. Qed.

(* two lists with the same length that agree wherever the first one is defined *)
Lemma nth_error_ext_len {A} (l l' : list A) :
  length l' = length l -> (forall i x, nth_error l i = Some x -> nth_error l' i = Some x) -> l' = l.
Proof.
  revert l'. induction l as [|a l IH]; intros l' HL H; destruct l' as [|a' l']; cbn [length] in HL; try lia.
  - reflexivity.
  - f_equal.
    + specialize (H 0 a eq_refl). cbn in H. congruence.
    + apply IH; [lia|]. intros i x Hx. apply (H (S i) x). exact Hx.
Qed.

(* ---------- suffixes ---------- *)
Lemma suffix_refl {A} (l : list A) : suffix_of l l.
Proof. exists []. reflexivity. Qed.

Lemma suffix_length {A} (p l : list A) : suffix_of p l -> length p <= length l.
Proof. intros [e ->]. rewrite app_length. lia. Qed.

Lemma suffix_cons {A} (h : list A) c r : suffix_of h r -> suffix_of h (c :: r).
Proof. intros [v ->]. exists (c :: v). reflexivity. Qed.

Lemma suffix_app {A} (h x r : list A) : suffix_of h r -> suffix_of h (x ++ r).
Proof. intros [v ->]. exists (x ++ v). rewrite app_assoc. reflexivity. Qed.

Lemma suffix_tail {A} (h : list A) c r : suffix_of h (c :: r) -> length h <= length r -> suffix_of h r.
Proof.
  intros [v E] H. destruct v as [|c' v]; cbn [app] in E.
  - subst h. cbn [length] in H. lia.
  - injection E as _ ->. exists v. reflexivity.
Qed.

Lemma suffix_skipn {A} (h l : list A) n :
  suffix_of h l -> n + length h <= length l -> suffix_of h (skipn n l).
Proof.
  intros [v ->] H. rewrite app_length in H. rewrite skipn_app.
  replace (n - length v) with 0 by lia. cbn [skipn]. eexists. reflexivity.
Qed.

Lemma lastn_length_eq {A} (h l : list A) : suffix_of h l -> lastn (length h) l = h.
Proof.
  intros [v ->]. unfold lastn. rewrite app_length.
  replace (length v + length h - length h) with (length v) by lia.
  rewrite skipn_app, Nat.sub_diag, skipn_all. reflexivity.
Qed.

Lemma lastn_suffix {A} (h l : list A) n :
  suffix_of h l -> length h <= n -> suffix_of h (lastn n l).
Proof.
  intros Hs H. unfold lastn. apply suffix_skipn; [exact Hs|].
  pose proof (suffix_length _ _ Hs). lia.
Qed.

Lemma lastn_0 {A} (l : list A) : lastn 0 l = [].
Proof. unfold lastn. rewrite Nat.sub_0_r. apply skipn_all. Qed.

(* ---------- swap_remove_last / purge_dict ---------- *)
Lemma swap_remove_last_spec : forall l lst l', swap_remove_last l = Some (lst, l') -> l = l' ++ [lst].
Proof.
  induction l as [|x r IH]; intros lst l' H; cbn [swap_remove_last] in H; [discriminate|].
  destruct r as [|y r'].
  - injection H as <- <-. reflexivity.
  - destruct (swap_remove_last (y :: r')) as [[lst0 r0]|] eqn:E; [|discriminate].
    injection H as <- <-. rewrite (IH _ _ eq_refl). reflexivity.
Qed.

Lemma purge_dict_prefix : forall fuel p d i,
  prefix_of p d -> length p <= i -> prefix_of p (purge_dict fuel d i).
Proof.
  induction fuel as [|f IH]; intros p d i Hp Hi; cbn [purge_dict]; [exact Hp|].
  destruct (nth_error d i) as [e|] eqn:En; [|exact Hp].
  destruct (dent e).
  - apply IH; [exact Hp|lia].
  - destruct (swap_remove_last d) as [[lst d']|] eqn:Es; [|exact Hp].
    apply swap_remove_last_spec in Es. subst d.
    assert (Hlt : i < length (d' ++ [lst])) by (apply nth_error_Some; congruence).
    rewrite app_length in Hlt. cbn [length] in Hlt.
    destruct (i =? length d')%nat eqn:Ei.
    + apply Nat.eqb_eq in Ei. apply IH; [|exact Hi]. eapply prefix_removelast; [exact Hp|lia].
    + apply Nat.eqb_neq in Ei. apply IH; [|exact Hi].
      apply prefix_list_set; [|exact Hi]. eapply prefix_removelast; [exact Hp|lia].
  - destruct (swap_remove_last d) as [[lst d']|] eqn:Es; [|exact Hp].
    apply swap_remove_last_spec in Es. subst d.
    assert (Hlt : i < length (d' ++ [lst])) by (apply nth_error_Some; congruence).
    rewrite app_length in Hlt. cbn [length] in Hlt.
    destruct (i =? length d')%nat eqn:Ei.
    + apply Nat.eqb_eq in Ei. apply IH; [|exact Hi]. eapply prefix_removelast; [exact Hp|lia].
    + apply Nat.eqb_neq in Ei. apply IH; [|exact Hi].
      apply prefix_list_set; [|exact Hi]. eapply prefix_removelast; [exact Hp|lia].
Qed.

(* ---------- take_cond, find_fun, set_fun_locals ---------- *)
Lemma take_cond_Forall (P : flow -> Prop) : forall l f l',
  take_cond l = Some (f, l') -> Forall P l -> P f /\ Forall P l' /\ length l = S (length l').
Proof.
  induction l as [|x r IH]; intros f l' H HF; cbn [take_cond] in H; [discriminate|].
  inversion HF as [|? ? Hx Hr]; subst.
  destruct x; try discriminate;
    try (injection H as <- <-; repeat split; assumption).
  destruct (take_cond r) as [[g r']|] eqn:E; [|discriminate].
  injection H as <- <-. destruct (IH _ _ eq_refl Hr) as (A & B & C).
  repeat split; [exact A|constructor; assumption|cbn [length]; lia].
Qed.

Lemma set_fun_locals_Forall (P : flow -> Prop) ls :
  (forall d st l0, P (FFun d st l0) -> P (FFun d st ls)) ->
  forall l, Forall P l -> Forall P (set_fun_locals l ls) /\ length (set_fun_locals l ls) = length l.
Proof.
  intros HP. induction l as [|x r IH]; intros HF; cbn [set_fun_locals]; [split; [constructor|reflexivity]|].
  inversion HF as [|? ? Hx Hr]; subst. destruct (IH Hr) as [A B].
  destruct x; cbn [length]; (split; [constructor; eauto|congruence]).
Qed.

Lemma find_fun_Forall (P : flow -> Prop) : forall l d st ls,
  find_fun l = Some (d, st, ls) -> Forall P l -> P (FFun d st ls).
Proof.
  induction l as [|x r IH]; intros d st ls H HF; cbn [find_fun] in H; [discriminate|].
  inversion HF as [|? ? Hx Hr]; subst.
  destruct x; try (eapply IH; eassumption).
  injection H as <- <- <-. exact Hx.
Qed.
