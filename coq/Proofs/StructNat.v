(* StructNat.v: what native words can do to the control stacks.
   [wn fe] is the shape of every native word: a program over the data-stack, heap, special
   stack and output primitives; the only primitive that touches the loop stack is
   [loop_set_items], allowed when [fe = true]; nothing touches the return stack or the
   context marks.  Every word of [native_fn fo] is [wn true]; every word except
   "%foreach-next" is [wn false]. *)
From Xeh Require Import Model.Prelude Model.Bits Model.Codec Model.Cell Model.Lexer Model.Fmt
                        Model.Vm Model.Words Model.Struct Proofs.VmFrame.
Local Notation length := List.length.
Local Open Scope string_scope.

#[local] Arguments Z.add : simpl never.
#[local] Arguments Z.sub : simpl never.
#[local] Arguments Z.mul : simpl never.
#[local] Arguments Z.ltb : simpl never.
#[local] Arguments Z.leb : simpl never.
#[local] Arguments Z.eqb : simpl never.
#[local] Arguments Z.of_nat : simpl never.
#[local] Arguments Z.to_nat : simpl never.

Inductive wn (fe : bool) : forall {A : Type}, M A -> Prop :=
| wn_ret : forall A (a : A), wn fe (ret a)
| wn_fail : forall A k p, wn fe (@fail A k p)
| wn_unsup : forall A, wn fe (@unsup A)
| wn_panic : forall A, wn fe (@panic A)
| wn_bind : forall A B (m : M A) (f : A -> M B), wn fe m -> (forall a, wn fe (f a)) -> wn fe (bind m f)
| wn_get_bind : forall B (k : state -> M B), (forall s0, wn fe (k s0)) -> wn fe (bind get k)
| wn_set_stopping : forall b, wn fe (modify (fun s => set_stopping s b))
| wn_push_data : forall c, wn fe (push_data c)
| wn_pop_data : wn fe pop_data
| wn_top_data : wn fe top_data
| wn_swap_data : wn fe swap_data
| wn_rot_data : wn fe rot_data
| wn_over_data : wn fe over_data
| wn_loop_set_items : forall c, fe = true -> wn fe (loop_set_items c)
| wn_push_special : forall p, wn fe (push_special p)
| wn_pop_special : wn fe pop_special
| wn_get_var : forall a, wn fe (get_var a)
| wn_set_var : forall a v, wn fe (set_var a v)
| wn_print : forall msg, wn fe (print msg).

Ltac wn_prim :=
  lazymatch goal with
  | |- wn _ (ret _) => apply wn_ret
  | |- wn _ (fail _ _) => apply wn_fail
  | |- wn _ unsup => apply wn_unsup
  | |- wn _ panic => apply wn_panic
  | |- wn _ (modify (fun s => set_stopping s _)) => apply wn_set_stopping
  | |- wn _ (push_data _) => apply wn_push_data
  | |- wn _ pop_data => apply wn_pop_data
  | |- wn _ top_data => apply wn_top_data
  | |- wn _ swap_data => apply wn_swap_data
  | |- wn _ rot_data => apply wn_rot_data
  | |- wn _ over_data => apply wn_over_data
  | |- wn true (loop_set_items _) => apply wn_loop_set_items; reflexivity
  | |- wn _ (push_special _) => apply wn_push_special
  | |- wn _ pop_special => apply wn_pop_special
  | |- wn _ (get_var _) => apply wn_get_var
  | |- wn _ (set_var _ _) => apply wn_set_var
  | |- wn _ (print _) => apply wn_print
  end.

Create HintDb wndb.

Ltac wn_step :=
  cbv beta zeta;
  first
    [ wn_prim
    | solve [ auto 2 with wndb nocore ]
    | lazymatch goal with
      | |- wn _ (bind get _) => apply wn_get_bind; intro
      | |- wn _ (bind _ _) => apply wn_bind; [ | intro ]
      | |- wn _ (match ?x with _ => _ end) => destruct x
      | |- wn _ ?m => let h := head_of m in unfold h
      end ].

Ltac wn_solve := repeat wn_step.

Lemma wn_pop_n : forall fe n, wn fe (pop_n n).
Proof. induction n; cbn [pop_n]; wn_solve. Qed.
#[export] Hint Resolve wn_pop_n : wndb.

Lemma wn_push_all : forall fe l, wn fe (push_all l).
Proof. induction l; cbn [push_all]; wn_solve. Qed.
#[export] Hint Resolve wn_push_all : wndb.

(* the one word that writes a loop record *)
Definition foreach_next : string := "%foreach-next".
Definition may_set_items (w : string) : bool := String.eqb w foreach_next.

Lemma wn_word_table : forall fo,
  Forall (fun nw => wn (may_set_items (fst nw)) (snd nw)) (word_table fo).
Proof.
  intro fo. unfold word_table.
  repeat (apply Forall_cons;
          [ cbn [fst snd];
            match goal with |- wn ?b _ => let v := eval vm_compute in b in change b with v end;
            wn_solve | ]).
  apply Forall_nil.
Qed.

Lemma table_find_Forall2 : forall (P : string -> M unit -> Prop) t name w,
  Forall (fun nw => P (fst nw) (snd nw)) t -> table_find t name = Some w -> P name w.
Proof.
  induction t as [| [n x] r IH]; intros name w HF H; cbn [table_find] in H.
  - discriminate.
  - inversion HF; subst. destruct (String.eqb n name) eqn:E.
    + injection H as <-. apply String.eqb_eq in E. subst. assumption.
    + eapply IH; eauto.
Qed.

Lemma wn_sized_word : forall fe fo name w, sized_word fo name = Some w -> wn fe w.
Proof.
  intros fe fo name w H. unfold sized_word in H. cbv beta zeta in H.
  repeat match type of H with
         | context [if ?b then _ else _] =>
           destruct b; cbv beta iota in H;
           [ injection H as <-; wn_solve | ]
         end.
  discriminate.
Qed.

Lemma wn_weaken : forall A (m : M A), wn false m -> wn true m.
Proof.
  intros A m H. induction H; try (constructor; auto; fail).
Qed.

(* every native word, with the flag telling whether it is "%foreach-next" *)
Theorem native_wn : forall fo w f, native_fn fo w = Some f -> wn (may_set_items w) f.
Proof.
  intros fo w f H. unfold native_fn in H.
  destruct (table_find (word_table fo) w) eqn:E.
  - injection H as <-.
    apply (table_find_Forall2 (fun n m => wn (may_set_items n) m) _ _ _ (wn_word_table fo) E).
  - eapply wn_sized_word; eauto.
Qed.

Corollary native_wn_true : forall fo w f, native_fn fo w = Some f -> wn true f.
Proof.
  intros fo w f H. pose proof (native_wn fo w f H) as W.
  destruct (may_set_items w); [ assumption | apply wn_weaken; assumption ].
Qed.

Corollary native_wn_false : forall fo w f,
  native_fn fo w = Some f -> w <> foreach_next -> wn false f.
Proof.
  intros fo w f H N. pose proof (native_wn fo w f H) as W.
  unfold may_set_items in W. destruct (String.eqb w foreach_next) eqn:E; [ | assumption ].
  apply String.eqb_eq in E. contradiction.
Qed.

(* ---------- what a [wn] program preserves ---------- *)
(* the key of a loop record: what I / J / K and the loop instructions read of a counted loop *)
Definition lkey (l : loopr) : Z * Z := (l_start l, l_end l).

(* [s'] has the control stacks of [s]: same return stack, same context, and the same loop
   stack (up to the items field of the records when [fe]) *)
Definition keeps (fe : bool) (s s' : state) : Prop :=
  rs s' = rs s /\ cx s' = cx s /\
  map lkey (loops s') = map lkey (loops s) /\ (fe = false -> loops s' = loops s).

Lemma keeps_refl : forall fe s, keeps fe s s.
Proof. intros; repeat split; reflexivity. Qed.
Lemma keeps_trans : forall fe a b c, keeps fe a b -> keeps fe b c -> keeps fe a c.
Proof.
  intros fe a b c (H1 & H2 & H3 & H4) (G1 & G2 & G3 & G4). repeat split; try congruence.
  intro E. rewrite G4, H4; auto.
Qed.
Lemma keeps_weaken : forall s s', keeps false s s' -> keeps true s s'.
Proof. intros s s' (H1 & H2 & H3 & H4). repeat split; auto. Qed.

Lemma keeps_of_eq : forall fe s s',
  rs s' = rs s -> cx s' = cx s -> loops s' = loops s -> keeps fe s s'.
Proof. intros fe s s' H1 H2 H3. repeat split; auto. rewrite H3. reflexivity. Qed.

Lemma keeps_add_rstep : forall fe r s, keeps fe s (add_rstep r s).
Proof. intros. apply keeps_of_eq; unfold add_rstep; destruct (rlog s); reflexivity. Qed.

(* a result keeps the control stacks: both the success and the error state *)
Definition rkeeps (fe : bool) {A} (s : state) (r : res A) : Prop :=
  match r with
  | ROk _ s' => keeps fe s s'
  | RErr _ _ s' => keeps fe s s'
  | _ => True
  end.

Ltac keeps_triv :=
  apply keeps_of_eq; cbn; unfold add_rstep;
  repeat match goal with |- context [rlog ?s] => destruct (rlog s) end; cbn; try reflexivity.

Lemma push_data_keeps : forall fe c s, rkeeps fe s (push_data c s).
Proof. intros. unfold push_data. destruct (limit_reached _ _); cbn; keeps_triv. Qed.
Lemma pop_data_keeps : forall fe s, rkeeps fe s (pop_data s).
Proof.
  intros. unfold pop_data. destruct (ds s); [ cbn; keeps_triv | ].
  destruct (Nat.ltb _ _); cbn; keeps_triv.
Qed.
Lemma top_data_keeps : forall fe s, rkeeps fe s (top_data s).
Proof.
  intros. unfold top_data. destruct (ds s); [ cbn; keeps_triv | ].
  destruct (Nat.ltb _ _); cbn; keeps_triv.
Qed.
Lemma swap_data_keeps : forall fe s, rkeeps fe s (swap_data s).
Proof.
  intros. unfold swap_data. destruct (ds s) as [| a [| b r]]; try (cbn; keeps_triv; fail).
  destruct (Nat.leb _ _); cbn; keeps_triv.
Qed.
Lemma rot_data_keeps : forall fe s, rkeeps fe s (rot_data s).
Proof.
  intros. unfold rot_data. destruct (ds s) as [| a [| b [| c r]]]; try (cbn; keeps_triv; fail).
  destruct (Nat.leb _ _); cbn; keeps_triv.
Qed.
Lemma over_data_keeps : forall fe s, rkeeps fe s (over_data s).
Proof.
  intros. unfold over_data. destruct (ds s) as [| a [| b r]]; try (cbn; keeps_triv; fail).
  destruct (Nat.leb _ _); [ | cbn; keeps_triv ].
  pose proof (push_data_keeps fe b (add_rstep ROverData s)) as H.
  destruct (push_data b (add_rstep ROverData s)); cbn in *; auto;
    (eapply keeps_trans; [ apply keeps_add_rstep | exact H ]).
Qed.
Lemma loop_set_items_keeps : forall c s, rkeeps true s (loop_set_items c s).
Proof.
  intros. unfold loop_set_items. destruct (loops s) as [| l r] eqn:E; [ cbn; keeps_triv | ].
  destruct (Nat.ltb _ _); [ | cbn; keeps_triv ].
  cbn. repeat split; try discriminate; unfold add_rstep; cbn;
    destruct (rlog s); cbn; rewrite ?E; reflexivity.
Qed.
Lemma push_special_keeps : forall fe p s, rkeeps fe s (push_special p s).
Proof. intros. unfold push_special. cbn. keeps_triv. Qed.
Lemma pop_special_keeps : forall fe s, rkeeps fe s (pop_special s).
Proof.
  intros. unfold pop_special. destruct (special s); [ cbn; keeps_triv | ].
  destruct (Nat.ltb _ _); cbn; keeps_triv.
Qed.
Lemma get_var_keeps : forall fe a s, rkeeps fe s (get_var a s).
Proof.
  intros. unfold get_var. destruct (mode_eqb _ _); [ cbn; keeps_triv | ].
  destruct (nth_error _ _); cbn; keeps_triv.
Qed.
Lemma set_var_keeps : forall fe a v s, rkeeps fe s (set_var a v s).
Proof.
  intros. unfold set_var. destruct (mode_eqb _ _); [ cbn; keeps_triv | ].
  destruct (nth_error _ _); cbn; keeps_triv.
Qed.

Theorem wn_keeps : forall fe A (m : M A), wn fe m -> forall s, rkeeps fe s (m s).
Proof.
  intros fe A m H. induction H; intro s;
    try (cbn; apply keeps_refl); try exact I;
    auto using push_data_keeps, pop_data_keeps, top_data_keeps, swap_data_keeps, rot_data_keeps,
               over_data_keeps, push_special_keeps, pop_special_keeps, get_var_keeps, set_var_keeps.
  - (* bind *)
    unfold bind. specialize (IHwn s). destruct (m s) as [a s1 | k p s1 | |]; cbn in *; auto.
    match goal with Hf : forall a s, rkeeps _ s (f a s) |- _ => specialize (Hf a s1) end.
    destruct (f a s1); cbn in *; auto; eapply keeps_trans; eauto.
  - (* get *)
    unfold bind, get. match goal with Hk : forall s0 s, rkeeps _ s (k s0 s) |- _ => apply Hk end.
  - (* set_stopping *)
    unfold modify. cbn. keeps_triv.
  - (* loop_set_items *)
    subst fe. apply loop_set_items_keeps.
  - unfold print. cbn. keeps_triv.
Qed.

(* every native word keeps the return stack, the context and the loop stack up to items;
   every native word except "%foreach-next" keeps the loop stack exactly *)
Theorem native_keeps : forall fo w f s,
  native_fn fo w = Some f -> rkeeps (may_set_items w) s (f s).
Proof. intros fo w f s H. apply wn_keeps. eapply native_wn; eauto. Qed.
