(* CursorInv.v: C06 (c) (d): every parsing word keeps the cursor invariant, in every outcome;
   words other than open-bitstr / close-bitstr leave the input and the stash alone; open
   pushes the suspended (input, offset) on the stash, close pops and restores it. *)
From Xeh Require Import Model.Prelude Model.Bits Model.Codec Model.Cell Model.Lexer Model.Fmt
                        Model.Vm Model.Words.
From Xeh Require Import Proofs.BitsBasic Proofs.BitsLists Proofs.BitsMirror Proofs.BitsProofs
                        Proofs.CodecBasic Proofs.CodecProofs Proofs.VmStep Proofs.CursorDefs
                        Proofs.CursorProofs Proofs.CursorWords Proofs.CursorTable.
From Coq Require Import ZifyBool ZifyNat ZifyN.
Local Notation length := List.length.

#[local] Arguments Z.add : simpl never.
#[local] Arguments Z.sub : simpl never.
#[local] Arguments Z.mul : simpl never.
#[local] Arguments Z.ltb : simpl never.
#[local] Arguments Z.leb : simpl never.
#[local] Arguments Z.eqb : simpl never.
#[local] Arguments Z.of_nat : simpl never.
#[local] Arguments Z.to_nat : simpl never.
#[local] Arguments Z.pow : simpl never.

(* a step that keeps the invariant, the input and the stash *)
Definition plain_step (s s' : state) : Prop :=
  cur_inv s' /\ h_input (heap s') = h_input (heap s) /\ h_stash (heap s') = h_stash (heap s).

Definition inv_plain (f : M unit) : Prop :=
  forall s, cur_inv s -> behaves (f s) (plain_step s) (fun _ => plain_step s).

Lemma cursor_unique s i1 o1 i2 o2 : cursor s i1 o1 -> cursor s i2 o2 -> i1 = i2 /\ o1 = o2.
Proof.
  intros (_ & _ & Hi1 & Ho1 & _) (_ & _ & Hi2 & Ho2 & _). split; congruence.
Qed.

Lemma h_input_set_offset h c : h_input (list_set h R_OFFSET c) = h_input h.
Proof. unfold h_input. rewrite nth_list_set_other by (unfold R_OFFSET, R_INPUT; lia). reflexivity. Qed.

Lemma Forall_app_r {A} (P : A -> Prop) l1 l2 : Forall P (l1 ++ l2) -> Forall P l2.
Proof. intros H. apply Forall_app in H. tauto. Qed.

Lemma cell_ok_int v x : value v = CInt x -> cell_ok v.
Proof. intros H b Hb. congruence. Qed.
Lemma cell_ok_real v x : value v = CReal x -> cell_ok v.
Proof. intros H b Hb. congruence. Qed.
Lemma cell_ok_str x : cell_ok (CStr x).
Proof. intros b Hb. discriminate. Qed.
Lemma cell_ok_nil : cell_ok CNil.
Proof. intros b Hb. discriminate. Qed.

Section Plain.
  Variables (s : state) (inp : cbs) (off : Z).
  Hypothesis Hinv : cur_inv s.
  Hypothesis Hcur : cursor s inp off.

  Lemma plain_of_heap s' pos :
    heap s' = list_set (heap s) R_OFFSET (cint pos) -> sim s s' ->
    (Z.of_nat (cstart inp) <= pos <= Z.of_nat (cend inp))%Z ->
    Forall cell_ok (ds s') -> plain_step s s'.
  Proof.
    intros Hh Hs Hp Hds. destruct Hinv as (_ & (v & Hv & Hvok) & _).
    split; [|split].
    - split; [|split].
      + exists inp, pos. split; [eapply sim_notmeta; eauto; apply Hcur|].
        rewrite Hh. apply (hcursor_set_offset _ _ off); [apply Hcur|exact Hp].
      + exists v. rewrite Hh, h_stash_set_offset. auto.
      + exact Hds.
    - rewrite Hh. apply h_input_set_offset.
    - rewrite Hh. apply h_stash_set_offset.
  Qed.

  Lemma plain_of_same s' :
    heap s' = heap s -> sim s s' -> Forall cell_ok (ds s') -> plain_step s s'.
  Proof.
    intros Hh Hs Hds. destruct Hinv as (_ & Hst & _).
    split; [|split].
    - split; [|split].
      + exists inp, off. split; [eapply sim_notmeta; eauto; apply Hcur|]. rewrite Hh. apply Hcur.
      + rewrite Hh. exact Hst.
      + exact Hds.
    - rewrite Hh. reflexivity.
    - rewrite Hh. reflexivity.
  Qed.

  Lemma suffix_ok args d : ds s = args ++ d -> Forall cell_ok d.
  Proof. intros H. destruct Hinv as (_ & _ & Hds). rewrite H in Hds. eapply Forall_app_r; eauto. Qed.

  Lemma plain_of_done s' n rest v args :
    read_done s s' inp off n rest v -> ds s = args ++ rest -> cell_ok v -> plain_step s s'.
  Proof.
    intros (Hn & Hfit & Hd & Hh & Hs) Ha Hv.
    assert (Hr : (Z.of_nat (cstart inp) <= off)%Z) by (destruct Hcur as (_ & _ & _ & _ & _ & _ & ?); lia).
    eapply plain_of_heap; eauto; [lia|]. rewrite Hd. constructor; [exact Hv|]. eapply suffix_ok; eauto.
  Qed.

  Lemma plain_of_frame ar s' : fail_frame ar s s' -> plain_step s s'.
  Proof.
    intros (Hh & Hs & args & Ha & _). apply plain_of_same; auto. eapply suffix_ok; eauto.
  Qed.

  Lemma sub_ok n : (0 <= n)%Z -> (off + n <= Z.of_nat (cend inp))%Z -> cell_ok (CBits (sub inp off n)).
  Proof.
    intros Hn Hfit b Hb. cbn [value] in Hb. injection Hb as <-.
    destruct Hcur as (_ & _ & _ & _ & Hw & Hbd & Hr).
    destruct (sub_spec inp off n Hw ltac:(lia) Hn Hfit) as (Hsw & _). split; [exact Hsw|].
    unfold sub. cbn [cend]. lia.
  Qed.

  Lemma plain_of_bits s' n rest args :
    bits_read s s' inp off n rest -> ds s = args ++ rest -> plain_step s s'.
  Proof.
    intros (b & Hd & _ & _ & _ & ->) Ha. eapply plain_of_done; eauto.
    destruct Hd as (Hn & Hfit & _). apply sub_ok; auto.
  Qed.

  Lemma plain_of_num s' n rest o x args :
    num_read s s' inp off n rest o x -> ds s = args ++ rest -> plain_step s s'.
  Proof.
    intros (v & Hd & _ & Hv & _) Ha. eapply plain_of_done; eauto. eapply cell_ok_int; eauto.
  Qed.

  Lemma plain_of_real s' n rest o x args :
    real_read s s' inp off n rest o x -> ds s = args ++ rest -> plain_step s s'.
  Proof.
    intros (v & Hd & _ & Hv & _) Ha. eapply plain_of_done; eauto. eapply cell_ok_real; eauto.
  Qed.
End Plain.

Ltac inv_start :=
  let s := fresh "s" in let Hinv := fresh "Hinv" in
  let inp := fresh "inp" in let off := fresh "off" in let Hcur := fresh "Hcur" in
  intros s Hinv; pose proof Hinv as ((inp & off & Hcur) & _).

Lemma cons_app {A} (c : A) r : c :: r = [c] ++ r.
Proof. reflexivity. Qed.

Lemma inv_bits : inv_plain (with_size read_bits).
Proof.
  intros s Hinv. pose proof Hinv as ((inp & off & Hcur) & _).
  eapply behaves_conseq; [apply (bits_word s inp off Hcur)| |].
  - intros s' (c & rest & n & Hd & _ & Hb). eapply plain_of_bits; eauto. rewrite Hd. apply cons_app.
  - intros k s' Hf. exact (plain_of_frame s inp off Hinv Hcur _ s' Hf).
Qed.

Lemma inv_bytes : inv_plain (with_size (fun n => read_bits (n * 8))).
Proof.
  intros s Hinv. pose proof Hinv as ((inp & off & Hcur) & _).
  eapply behaves_conseq; [apply (bytes_word s inp off Hcur)| |].
  - intros s' (c & rest & n & Hd & _ & Hb). eapply plain_of_bits; eauto. rewrite Hd. apply cons_app.
  - intros k s' Hf. exact (plain_of_frame s inp off Hinv Hcur _ s' Hf).
Qed.

Lemma inv_unsigned n o : inv_plain (read_unsigned n o).
Proof.
  intros s Hinv. pose proof Hinv as ((inp & off & Hcur) & _).
  eapply behaves_conseq; [apply (unsigned_word s inp off Hcur)| |].
  - intros s' (_ & Hb). eapply (plain_of_num s inp off Hinv Hcur s' n (ds s) o _ []); eauto.
  - intros k s' Hf. exact (plain_of_frame s inp off Hinv Hcur _ s' Hf).
Qed.

Lemma inv_signed n o : inv_plain (read_signed n o).
Proof.
  intros s Hinv. pose proof Hinv as ((inp & off & Hcur) & _).
  eapply behaves_conseq; [apply (signed_word s inp off Hcur)| |].
  - intros s' (_ & Hb). eapply (plain_of_num s inp off Hinv Hcur s' n (ds s) o _ []); eauto.
  - intros k s' Hf. exact (plain_of_frame s inp off Hinv Hcur _ s' Hf).
Qed.

Lemma inv_float fo n o : inv_plain (read_float fo n o).
Proof.
  intros s Hinv. pose proof Hinv as ((inp & off & Hcur) & _).
  eapply behaves_conseq; [apply (float_word s inp off Hcur)| |].
  - intros s' (pat & _ & Hb). eapply (plain_of_real s inp off Hinv Hcur s' n (ds s) o _ []); eauto.
  - intros k s' Hf. exact (plain_of_frame s inp off Hinv Hcur _ s' Hf).
Qed.

Lemma inv_unsigned_cur n : inv_plain (with_order (read_unsigned n)).
Proof.
  intros s Hinv. pose proof Hinv as ((inp & off & Hcur) & _).
  eapply behaves_conseq; [apply (unsigned_cur_word s inp off Hcur)| |].
  - intros s' (o & _ & _ & Hb). eapply (plain_of_num s inp off Hinv Hcur s' n (ds s) o _ []); eauto.
  - intros k s' Hf. exact (plain_of_frame s inp off Hinv Hcur _ s' Hf).
Qed.

Lemma inv_signed_cur n : inv_plain (with_order (read_signed n)).
Proof.
  intros s Hinv. pose proof Hinv as ((inp & off & Hcur) & _).
  eapply behaves_conseq; [apply (signed_cur_word s inp off Hcur)| |].
  - intros s' (o & _ & _ & Hb). eapply (plain_of_num s inp off Hinv Hcur s' n (ds s) o _ []); eauto.
  - intros k s' Hf. exact (plain_of_frame s inp off Hinv Hcur _ s' Hf).
Qed.

Lemma inv_float_cur fo n : inv_plain (with_order (read_float fo n)).
Proof.
  intros s Hinv. pose proof Hinv as ((inp & off & Hcur) & _).
  eapply behaves_conseq; [apply (float_cur_word s inp off Hcur)| |].
  - intros s' (o & _ & pat & _ & Hb). eapply (plain_of_real s inp off Hinv Hcur s' n (ds s) o _ []); eauto.
  - intros k s' Hf. exact (plain_of_frame s inp off Hinv Hcur _ s' Hf).
Qed.

Lemma inv_uint : inv_plain (with_size (fun n => with_order (read_unsigned n))).
Proof.
  intros s Hinv. pose proof Hinv as ((inp & off & Hcur) & _).
  eapply behaves_conseq; [apply (uint_word s inp off Hcur)| |].
  - intros s' (c & rest & n & Hd & _ & o & _ & _ & Hb). eapply plain_of_num; eauto. rewrite Hd. apply cons_app.
  - intros k s' Hf. exact (plain_of_frame s inp off Hinv Hcur _ s' Hf).
Qed.

Lemma inv_int : inv_plain (with_size (fun n => with_order (read_signed n))).
Proof.
  intros s Hinv. pose proof Hinv as ((inp & off & Hcur) & _).
  eapply behaves_conseq; [apply (int_word s inp off Hcur)| |].
  - intros s' (c & rest & n & Hd & _ & o & _ & _ & Hb). eapply plain_of_num; eauto. rewrite Hd. apply cons_app.
  - intros k s' Hf. exact (plain_of_frame s inp off Hinv Hcur _ s' Hf).
Qed.

Lemma inv_floatn fo : inv_plain (with_size (fun n => with_order (read_float fo n))).
Proof.
  intros s Hinv. pose proof Hinv as ((inp & off & Hcur) & _).
  eapply behaves_conseq; [apply (floatn_word s inp off Hcur)| |].
  - intros s' (c & rest & n & Hd & _ & o & _ & pat & _ & Hb). eapply plain_of_real; eauto. rewrite Hd. apply cons_app.
  - intros k s' Hf. exact (plain_of_frame s inp off Hinv Hcur _ s' Hf).
Qed.

Lemma inv_magic : inv_plain w_magic.
Proof.
  intros s Hinv. pose proof Hinv as ((inp & off & Hcur) & _).
  eapply behaves_conseq; [apply (magic_word' s inp off Hcur)| |].
  - intros s' (c & rest & pat & Hd & _ & Hb & _). eapply plain_of_bits; eauto. rewrite Hd. apply cons_app.
  - intros k s' Hf. exact (plain_of_frame s inp off Hinv Hcur _ s' Hf).
Qed.

Lemma inv_nulbytestr : inv_plain w_nulbytestr.
Proof.
  intros s Hinv. pose proof Hinv as ((inp & off & Hcur) & _).
  eapply behaves_conseq; [apply (nulbytestr_word' s inp off Hcur)| |].
  - intros s' Hb. eapply (plain_of_bits s inp off Hinv Hcur s' _ (ds s) []); [exact Hb|reflexivity].
  - intros k s' Hf. exact (plain_of_frame s inp off Hinv Hcur _ s' Hf).
Qed.

Lemma inv_cstr : inv_plain w_cstr.
Proof.
  intros s Hinv. pose proof Hinv as ((inp & off & Hcur) & _).
  eapply behaves_conseq; [apply (cstr_word' s inp off Hcur)| |].
  - cbv zeta. intros s' (Hb & _).
    eapply (plain_of_done s inp off Hinv Hcur s' _ (ds s) _ []); [exact Hb|reflexivity|apply cell_ok_str].
  - intros k s' Hf. exact (plain_of_frame s inp off Hinv Hcur _ s' Hf).
Qed.

Lemma inv_seek : inv_plain w_seek.
Proof.
  intros s Hinv. pose proof Hinv as ((inp & off & Hcur) & _).
  apply wp_behaves. eapply wp_conseq; [apply (seek_word s inp off Hcur)| |auto|auto].
  - intros u s' (c & rest & n & Hd & _ & Hin & Hd' & Hh & Hs & _).
    eapply plain_of_heap; eauto. rewrite Hd'. eapply (suffix_ok s Hinv [c]). exact Hd.
  - intros k p s' Hf. exact (plain_of_frame s inp off Hinv Hcur _ s' Hf).
Qed.

Lemma inv_remain : inv_plain w_remain.
Proof.
  intros s Hinv. pose proof Hinv as ((inp & off & Hcur) & _).
  apply wp_behaves. eapply wp_conseq; [apply (remain_word s inp off Hcur)| |auto|auto].
  - intros u s' (Hd & Hh & Hs). eapply plain_of_same; eauto. rewrite Hd.
    constructor; [eapply cell_ok_int; reflexivity|apply Hinv].
  - intros k p s' Hf. exact (plain_of_frame s inp off Hinv Hcur _ s' Hf).
Qed.

Lemma inv_find : inv_plain w_find.
Proof.
  intros s Hinv. pose proof Hinv as ((inp & off & Hcur) & _).
  apply wp_behaves. eapply wp_conseq; [apply (find_word s inp off Hcur)| |auto|auto].
  - intros u s' (c & rest & pat & r & Hd & _ & Hd' & Hh & Hs & Hres).
    eapply plain_of_same; eauto. rewrite Hd'. constructor.
    + destruct Hres as [-> | (p & -> & _)]; [apply cell_ok_nil|eapply cell_ok_int; reflexivity].
    + eapply (suffix_ok s Hinv [c]). exact Hd.
  - intros k p s' Hf. exact (plain_of_frame s inp off Hinv Hcur _ s' Hf).
Qed.

Lemma inv_plain_table : forall fo, Forall (fun nw => inv_plain (snd nw)) (plain_table fo).
Proof.
  intro fo. unfold plain_table.
  repeat (apply Forall_cons;
          [ cbn [snd];
            first [ apply inv_bits | apply inv_bytes | apply inv_uint | apply inv_int | apply inv_floatn
                  | apply inv_magic | apply inv_nulbytestr | apply inv_cstr | apply inv_seek
                  | apply inv_remain | apply inv_find
                  | apply inv_unsigned | apply inv_signed | apply inv_float
                  | apply inv_unsigned_cur | apply inv_signed_cur | apply inv_float_cur ] | ]).
  apply Forall_nil.
Qed.
