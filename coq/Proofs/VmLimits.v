(* VmLimits.v: the resource limits of the machine are hard bounds (statements of Props/C14.v). *)
From Xeh Require Import Model.Prelude Model.Bits Model.Codec Model.Cell Model.Lexer Model.Fmt
                        Model.Vm Model.Words Proofs.VmFrame.
(* NOT local on purpose: Props/C14.v writes [length (ds s)] after importing Model.Cell, which
   exports Coq's String library and so makes the bare name [length] mean [String.length];
   importing this file makes it mean [List.length] again (as in Model/Vm.v), which is the
   only reading under which the statements of C14 typecheck. *)
Notation length := List.length.

#[local] Arguments Z.add : simpl never.
#[local] Arguments Z.sub : simpl never.
#[local] Arguments Z.mul : simpl never.
#[local] Arguments Z.ltb : simpl never.
#[local] Arguments Z.leb : simpl never.
#[local] Arguments Z.eqb : simpl never.
#[local] Arguments Z.of_nat : simpl never.
#[local] Arguments Z.to_nat : simpl never.

(* ---------- lemmas that do not depend on the words ---------- *)
Theorem insn_limit_is_error : forall nf s N,
  insn_limit s = Some N -> (N <= meter s)%Z -> fetch_and_run nf s = RErr ELimit None s.
Proof.
  intros nf s N HL Hle. unfold fetch_and_run, meter_increase. rewrite HL.
  apply Z.leb_le in Hle. rewrite Hle. reflexivity.
Qed.

Theorem push_at_limit_is_error : forall c s S,
  stack_limit s = Some S -> (S <= Z.of_nat (length (ds s)))%Z -> push_data c s = RErr ELimit None s.
Proof.
  intros c s S HL Hle. unfold push_data, limit_reached. rewrite HL.
  apply Z.leb_le in Hle. rewrite Hle. reflexivity.
Qed.

Theorem alloc_bound : forall v s H,
  heap_limit s = Some H ->
  match alloc_heap v s with
  | ROk _ s' => (Z.of_nat (length (heap s')) <= H)%Z /\ length (heap s') = S (length (heap s))
  | RErr _ _ s' => s' = s
  | _ => False
  end.
Proof.
  intros v s H HL. unfold alloc_heap, limit_reached. rewrite HL.
  destruct (mode_eqb (cmode (cx s)) MMeta); [ reflexivity | ].
  destruct (H <=? Z.of_nat (length (heap s)))%Z eqn:E; [ reflexivity | ].
  apply Z.leb_gt in E.
  change (heap (set_heap s (heap s ++ [v]))) with (heap s ++ [v]).
  rewrite app_length. cbn [length]. split; lia.
Qed.

Theorem recover_stack : forall c s,
  push_data c (set_limits s (insn_limit s) (heap_limit s) None) =
  ROk tt (set_limits (set_ds (add_rstep RPopData s) (c :: ds s)) (insn_limit s) (heap_limit s) None).
Proof.
  intros c s. unfold push_data, add_rstep. destruct s as [d0 h0 c0 g0 so0 in0 st0 rs0 fl0 lo0 sp0 cx0 ne0 me0 il0 hl0 sl0 rl0 ou0 lt0 sg0].
  destruct rl0; reflexivity.
Qed.

(* ---------- the frame of a [wl] program ---------- *)
Definition lim_rel (s s' : state) : Prop :=
  meter s' = meter s /\ insn_limit s' = insn_limit s /\ heap_limit s' = heap_limit s /\
  stack_limit s' = stack_limit s /\ length (heap s') = length (heap s) /\
  code s' = code s /\ dict s' = dict s /\
  (forall S, stack_limit s = Some S -> length (ds s') <= Nat.max (length (ds s)) (Z.to_nat S)).

Definition res_all {A} (P : state -> Prop) (r : res A) : Prop :=
  match r with
  | ROk _ s => P s
  | RErr _ _ s => P s
  | _ => True
  end.

Definition P_lim {A} (m : M A) : Prop := forall s, res_all (lim_rel s) (m s).

Lemma lim_rel_refl : forall s, lim_rel s s.
Proof. intro s. unfold lim_rel. repeat split. intros. apply Nat.le_max_l. Qed.

Lemma lim_rel_trans : forall a b c, lim_rel a b -> lim_rel b c -> lim_rel a c.
Proof.
  unfold lim_rel. intros a b c (A1 & A2 & A3 & A4 & A5 & A6 & A7 & A8) (B1 & B2 & B3 & B4 & B5 & B6 & B7 & B8).
  repeat split; try congruence.
  intros S HS. specialize (A8 S HS). rewrite <- A4 in HS. specialize (B8 S HS). lia.
Qed.

Lemma list_set_length : forall A (l : list A) i v, length (list_set l i v) = length l.
Proof. induction l; destruct i; intros; cbn [list_set length]; auto. Qed.

Ltac destruct_state s :=
  destruct s as [d0 h0 c0 g0 so0 in0 st0 rs0 fl0 lo0 sp0 cx0 ne0 me0 il0 hl0 sl0 rl0 ou0 lt0 sg0].

Ltac lim_fin :=
  cbv [res_all]; try exact I;
  cbv [lim_rel dict heap code dbg sources input ds rs flows loops special cx nested meter insn_limit
       heap_limit stack_limit rlog out last_tok stopping];
  repeat split; try reflexivity;
  try (rewrite ?list_set_length; reflexivity);
  try (intros S0 HS0; cbn [length]; lia).

Ltac break_matches :=
  repeat (match goal with
          | |- context [match ?x with _ => _ end] => is_var x; destruct x
          end; cbv beta iota);
  repeat (match goal with
          | |- context [match ?x with _ => _ end] =>
            lazymatch x with context [match _ with _ => _ end] => fail | _ => idtac end;
            destruct x eqn:?
          end; cbv beta iota).

Ltac lim_prim :=
  let s := fresh "s" in
  intro s; destruct_state s;
  cbv [push_data pop_data top_data swap_data rot_data over_data push_return pop_return top_frame
       push_loop pop_loop loop_next loop_set_items push_special pop_special get_var set_var
       init_local set_ip next_ip print modify ret fail unsup panic
       add_rstep limit_reached data_depth ip set_ip_raw
       set_ds set_rs set_loops set_special set_heap set_cx set_rlog set_out set_stopping
       dict heap code dbg sources input ds rs flows loops special cx nested meter insn_limit
       heap_limit stack_limit rlog out last_tok stopping];
  break_matches;
  lim_fin.

Lemma wl_lim : forall A (m : M A), wl m -> P_lim m.
Proof.
  induction 1; try (lim_prim; fail).
  - (* bind *)
    intro s. unfold bind. specialize (IHwl s).
    destruct (m s) as [a s1 | k p s1 | |]; cbn [res_all] in *; auto.
    specialize (H1 a s1). destruct (f a s1); cbn [res_all] in *; auto;
      eapply lim_rel_trans; eauto.
  - (* get *)
    intro s. unfold bind, get. apply H0.
  - (* push_data *)
    intro s. destruct_state s.
    cbv [push_data add_rstep limit_reached set_ds set_rlog stack_limit ds rlog].
    destruct sl0 as [S1|].
    + destruct (S1 <=? Z.of_nat (length st0))%Z eqn:E.
      * apply lim_rel_refl.
      * apply Z.leb_gt in E. destruct rl0; lim_fin; intros S0 HS0; injection HS0 as <-; cbn [length]; lia.
    + destruct rl0; lim_fin; intros S0 HS0; discriminate.
  - (* over_data *)
    intro s. destruct_state s.
    cbv [over_data push_data add_rstep limit_reached data_depth set_ds set_rlog stack_limit ds rlog cx].
    destruct st0 as [|a [|b r]]; try apply lim_rel_refl.
    destruct (2 <=? _); [ | apply lim_rel_refl ].
    destruct sl0 as [S1|].
    + destruct rl0; cbv [stack_limit ds];
      (destruct (S1 <=? Z.of_nat (length (a :: b :: r)))%Z eqn:E;
       [ lim_fin | apply Z.leb_gt in E; lim_fin; intros S0 HS0; injection HS0 as <-; cbn [length] in *; lia ]).
    + destruct rl0; lim_fin; intros S0 HS0; discriminate.
Qed.

Section WithTable.
  Variable nf : natives.
  Hypothesis Hnf : forall w f, nf w = Some f -> wl f.

  Lemma exec_op_lim : forall ip0 op s, res_all (lim_rel s) (exec_op nf ip0 op s).
  Proof. intros. apply wl_lim. apply wl_exec_op. exact Hnf. Qed.

  Lemma meter_bound_gen : forall s s' N,
    insn_limit s = Some N -> (meter s <= N)%Z ->
    fetch_and_run nf s = ROk tt s' ->
    (meter s < meter s' <= N)%Z /\ insn_limit s' = Some N.
  Proof.
    intros s s' N HL Hle H.
    pose proof (far_spec_holds nf s) as FS. rewrite H in FS.
    inversion FS; subst; unfold mlim in *; rewrite HL in *;
      match goal with
      | Hx : exec_op nf ?i ?o ?s1 = ROk tt s' |- _ =>
        pose proof (exec_op_lim i o s1) as L; rewrite Hx in L; cbn [res_all] in L;
        destruct L as (L1 & L2 & _)
      | Hx : ROk tt s' = exec_op nf ?i ?o ?s1 |- _ =>
        pose proof (exec_op_lim i o s1) as L; rewrite <- Hx in L; cbn [res_all] in L;
        destruct L as (L1 & L2 & _)
      end;
      cbn [set_meter set_code meter insn_limit] in L1, L2;
      repeat match goal with Hx : (_ <=? _)%Z = false |- _ => apply Z.leb_gt in Hx end;
      (split; [ lia | congruence ]).
  Qed.

  Lemma stack_bound_gen : forall s r s' S,
    stack_limit s = Some S ->
    fetch_and_run nf s = r -> res_state r = Some s' ->
    length (ds s') <= Nat.max (length (ds s)) (Z.to_nat S) /\ stack_limit s' = Some S.
  Proof.
    intros s r s' S HL H Hr.
    pose proof (far_spec_holds nf s) as FS. rewrite H in FS. clear H.
    assert (G : forall i o s1, stack_limit s1 = Some S -> ds s1 = ds s ->
                exec_op nf i o s1 = r ->
                length (ds s') <= Nat.max (length (ds s)) (Z.to_nat S) /\ stack_limit s' = Some S).
    { intros i o s1 HL1 Hds Hx. pose proof (exec_op_lim i o s1) as L. rewrite Hx in L.
      destruct r; cbn [res_state] in Hr; try discriminate; injection Hr as ->;
        cbn [res_all] in L; destruct L as (_ & _ & _ & L4 & _ & _ & _ & L8);
        specialize (L8 S HL1); rewrite Hds in L8; split; congruence. }
    inversion FS; subst; cbn [res_state] in Hr; try discriminate;
      try (injection Hr as <-; split; [ apply Nat.le_max_l | exact HL ]);
      try (eapply G; [ | | reflexivity ]; [ exact HL | reflexivity ]).
  Qed.

  Lemma heap_fixed_gen : forall s r s',
    fetch_and_run nf s = r -> res_state r = Some s' ->
    length (heap s') = length (heap s) /\ heap_limit s' = heap_limit s.
  Proof.
    intros s r s' H Hr.
    pose proof (far_spec_holds nf s) as FS. rewrite H in FS. clear H.
    assert (G : forall i o s1, length (heap s1) = length (heap s) -> heap_limit s1 = heap_limit s ->
                exec_op nf i o s1 = r ->
                length (heap s') = length (heap s) /\ heap_limit s' = heap_limit s).
    { intros i o s1 H1 H2 Hx. pose proof (exec_op_lim i o s1) as L. rewrite Hx in L.
      destruct r; cbn [res_state] in Hr; try discriminate; injection Hr as ->;
        cbn [res_all] in L; destruct L as (_ & _ & L3 & _ & L5 & _); split; congruence. }
    inversion FS; subst; cbn [res_state] in Hr; try discriminate;
      try (injection Hr as <-; split; reflexivity);
      try (eapply G; [ | | reflexivity ]; reflexivity).
  Qed.
End WithTable.

(* ---------- the statements of C14 ---------- *)
Theorem meter_bound : forall fo s s' N,
  insn_limit s = Some N -> (meter s <= N)%Z ->
  fetch_and_run (native_fn fo) s = ROk tt s' ->
  (meter s < meter s' <= N)%Z /\ insn_limit s' = Some N.
Proof. intro fo. apply meter_bound_gen. apply native_wl. Qed.

Theorem stack_bound : forall fo s r s' S,
  stack_limit s = Some S ->
  fetch_and_run (native_fn fo) s = r -> res_state r = Some s' ->
  length (ds s') <= Nat.max (length (ds s)) (Z.to_nat S) /\ stack_limit s' = Some S.
Proof. intro fo. apply stack_bound_gen. apply native_wl. Qed.

Theorem heap_fixed_at_run_time : forall fo s r s',
  fetch_and_run (native_fn fo) s = r -> res_state r = Some s' ->
  length (heap s') = length (heap s) /\ heap_limit s' = heap_limit s.
Proof. intro fo. apply heap_fixed_gen. apply native_wl. Qed.

Lemma steps_meter : forall fo n s sn N,
  insn_limit s = Some N -> (meter s <= N)%Z ->
  steps (native_fn fo) n s = Some sn ->
  (meter s + Z.of_nat n <= meter sn <= N)%Z /\ insn_limit sn = Some N.
Proof.
  intros fo n. induction n as [|n IH]; intros s sn N HL Hle H.
  - cbn [steps] in H. injection H as <-. split; [ lia | exact HL ].
  - cbn [steps] in H. destruct (fetch_and_run (native_fn fo) s) as [[] s1| | |] eqn:E; try discriminate.
    destruct (meter_bound fo s s1 N HL Hle E) as [Hm HL1].
    destruct (IH s1 sn N HL1 (proj2 Hm) H) as [Hm2 HL2].
    split; [ lia | exact HL2 ].
Qed.

Theorem at_most_N_steps : forall fo n s sn N,
  insn_limit s = Some N -> meter s = 0%Z -> (0 <= N)%Z ->
  steps (native_fn fo) n s = Some sn -> (Z.of_nat n <= N)%Z.
Proof.
  intros fo n s sn N HL Hm HN H.
  destruct (steps_meter fo n s sn N HL ltac:(lia) H) as [Hb _]. lia.
Qed.
