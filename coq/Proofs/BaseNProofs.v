(* BaseNProofs.v: the text encodings of Model/BaseN.v round-trip for every byte
   string of every length, and text outside the alphabet decodes to None (C18). *)
From Xeh Require Import Model.Prelude Model.BaseN Proofs.BaseNKernel.
From Coq Require Import ZifyBool ZifyNat ZifyN.
Local Ltac Zify.zify_post_hook ::= Z.div_mod_to_equations.
Local Open Scope N_scope.

#[local] Arguments N.add : simpl never.
#[local] Arguments N.sub : simpl never.
#[local] Arguments N.mul : simpl never.
#[local] Arguments N.div : simpl never.
#[local] Arguments N.modulo : simpl never.
#[local] Arguments N.eqb : simpl never.
#[local] Arguments N.ltb : simpl never.
#[local] Arguments N.leb : simpl never.
#[local] Arguments N.land : simpl never.
#[local] Arguments N.lor : simpl never.
#[local] Arguments N.shiftl : simpl never.
#[local] Arguments N.shiftr : simpl never.
#[local] Arguments N.pow : simpl never.
#[local] Arguments N.of_nat : simpl never.
#[local] Arguments Nat.div : simpl never.
#[local] Arguments Nat.modulo : simpl never.

Definition bytes_lt (d : list N) : Prop := Forall (fun x => x < 256) d.

(* ---------- generic list facts ---------- *)
Lemma split_groups {A} (k : nat) : (0 < k)%nat -> forall d : list A,
  exists gs rest, d = concat gs ++ rest /\ Forall (fun g => length g = k) gs /\ (length rest < k)%nat.
Proof.
  intros Hk d. remember (length d) as n eqn:En. revert d En.
  induction n as [n IH] using lt_wf_ind. intros d En.
  destruct (Nat.lt_ge_cases (length d) k) as [L|L].
  - exists [], d. repeat split; [constructor | assumption].
  - destruct (IH (length (skipn k d))) with (d := skipn k d) as (gs & rest & E & F & R).
    + rewrite skipn_length. lia.
    + reflexivity.
    + exists (firstn k d :: gs), rest. repeat split.
      * cbn [concat]. rewrite <- app_assoc, <- E. symmetry. apply firstn_skipn.
      * constructor; [|assumption]. rewrite firstn_length. lia.
      * assumption.
Qed.

Lemma Forall_concat {A} (P : A -> Prop) gs : Forall P (concat gs) -> Forall (Forall P) gs.
Proof.
  induction gs as [|g gs IH]; cbn [concat]; intros H; constructor.
  - apply Forall_app in H. apply H.
  - apply IH. apply Forall_app in H. apply H.
Qed.

Lemma length_concat_groups {A} k (gs : list (list A)) :
  Forall (fun g => length g = k) gs -> length (concat gs) = (k * length gs)%nat.
Proof.
  induction 1 as [|g gs Hg _ IH]; cbn [concat length]; [lia|].
  rewrite app_length, IH, Hg. lia.
Qed.

Lemma map_opt_app {A B} (f : A -> option B) l1 l2 v1 v2 :
  map_opt f l1 = Some v1 -> map_opt f l2 = Some v2 -> map_opt f (l1 ++ l2) = Some (v1 ++ v2).
Proof.
  revert v1. induction l1 as [|x l1 IH]; intros v1 H1 H2; cbn [map_opt app] in *.
  - injection H1 as <-. assumption.
  - destruct (f x) as [y|]; [|discriminate].
    destruct (map_opt f l1) as [ys|] eqn:E; [|discriminate].
    injection H1 as <-. rewrite (IH ys eq_refl H2). reflexivity.
Qed.

Lemma map_opt_map {A B} (f : A -> option B) (g : B -> A) (P : B -> Prop) l :
  (forall v, P v -> f (g v) = Some v) -> Forall P l -> map_opt f (map g l) = Some l.
Proof.
  intros Hf. induction 1 as [|v l Hv _ IH]; cbn [map map_opt]; [reflexivity|].
  rewrite (Hf v Hv), IH. reflexivity.
Qed.

(* a character the symbol decoder rejects makes the whole text undecodable *)
Lemma map_opt_none {A B} (f : A -> option B) l c : In c l -> f c = None -> map_opt f l = None.
Proof.
  induction l as [|x l IH]; intros Hin Hc; [contradiction|]. cbn [map_opt].
  destruct Hin as [->|Hin].
  - rewrite Hc. reflexivity.
  - rewrite (IH Hin Hc). destruct (f x); reflexivity.
Qed.

Lemma map_opt_length {A B} (f : A -> option B) l v : map_opt f l = Some v -> length v = length l.
Proof.
  revert v. induction l as [|x l IH]; intros v H; cbn [map_opt] in H.
  - injection H as <-. reflexivity.
  - destruct (f x); [|discriminate]. destruct (map_opt f l) eqn:E; [|discriminate].
    injection H as <-. cbn [length]. f_equal. apply IH. reflexivity.
Qed.

(* trailing padding characters *)
Lemma count_trailing_eq_spec : forall p k l,
  (p <= k)%nat -> (k = p \/ match l with [] => True | c :: _ => c <> 61 end) ->
  count_trailing_eq k (repeat 61 p ++ l) = p.
Proof.
  induction p as [|p IH]; intros k l Hk Hl.
  - cbn [repeat app]. destruct k as [|k]; [reflexivity|]. cbn [count_trailing_eq].
    destruct l as [|c r]; [reflexivity|].
    destruct Hl as [Hl|Hl]; [discriminate|].
    destruct (N.eqb_spec c 61); [contradiction|reflexivity].
  - destruct k as [|k]; [lia|]. cbn [repeat app count_trailing_eq].
    change (61 =? 61) with true. cbv iota. f_equal. apply IH; [lia|].
    destruct Hl as [Hl|Hl]; [left; lia|right; assumption].
Qed.

Lemma rev_repeat {A} (x : A) n : rev (repeat x n) = repeat x n.
Proof.
  induction n as [|n IH]; [reflexivity|]. cbn [repeat rev]. rewrite IH.
  clear IH. induction n as [|n IH]; [reflexivity|]. cbn [repeat app]. rewrite IH. reflexivity.
Qed.

(* ================= base64 ================= *)
Definition b64_grp (g : list N) : list N := b64_idx3 (nth 0 g 0) (nth 1 g 0) (nth 2 g 0).
Definition b64_tail_vals (t : list N) : list N :=
  match t with [b0; b1] => b64_idx2 b0 b1 | [b0] => b64_idx1 b0 | _ => [] end.
Definition b64_tail_pad (t : list N) : nat :=
  match t with [_; _] => 1%nat | [_] => 2%nat | _ => 0%nat end.
Definition b64_vals (gs : list (list N)) (t : list N) : list N := flat_map b64_grp gs ++ b64_tail_vals t.

Lemma b64_enc_groups : forall gs t fuel,
  Forall (fun g => length g = 3%nat) gs -> (length (concat gs ++ t) < fuel)%nat ->
  b64_enc_chunks fuel (concat gs ++ t)
  = map (nthN b64_alphabet) (flat_map b64_grp gs) ++ b64_enc_chunks (fuel - length gs) t.
Proof.
  induction gs as [|g gs IH]; intros t fuel HF Hfuel.
  - cbn [concat flat_map map app length]. rewrite Nat.sub_0_r. reflexivity.
  - inversion HF as [|? ? Hg HF']; subst.
    destruct g as [|b0 [|b1 [|b2 [|? ?]]]]; try discriminate.
    cbn [concat app length] in *. destruct fuel as [|fuel]; [lia|].
    cbn [b64_enc_chunks flat_map]. rewrite map_app. rewrite <- !app_assoc.
    rewrite IH by (assumption || lia).
    cbn [Nat.sub]. reflexivity.
Qed.

Lemma b64_enc_tail t fuel : (length t < 3)%nat -> (0 < fuel)%nat ->
  b64_enc_chunks fuel t = map (nthN b64_alphabet) (b64_tail_vals t) ++ repeat 61 (b64_tail_pad t).
Proof.
  intros Ht Hf. destruct fuel as [|fuel]; [lia|].
  destruct t as [|b0 [|b1 [|b2 ?]]]; cbn [length] in Ht; try lia; reflexivity.
Qed.

Lemma b64_encode_groups gs t :
  Forall (fun g => length g = 3%nat) gs -> (length t < 3)%nat ->
  b64_encode (concat gs ++ t)
  = map (nthN b64_alphabet) (b64_vals gs t) ++ repeat 61 (b64_tail_pad t).
Proof.
  intros HF Ht. unfold b64_encode, b64_vals.
  rewrite b64_enc_groups by (assumption || lia).
  rewrite b64_enc_tail.
  - rewrite map_app, <- app_assoc. reflexivity.
  - assumption.
  - rewrite app_length, (length_concat_groups 3) by assumption. lia.
Qed.

Lemma b64_grp_lt g : length g = 3%nat -> bytes_lt g -> Forall (fun v => v < 64) (b64_grp g).
Proof.
  intros Hl Hb. destruct g as [|b0 [|b1 [|b2 [|? ?]]]]; try discriminate.
  inversion Hb as [|? ? H0 Hb1]; subst. inversion Hb1 as [|? ? H1 Hb2]; subst.
  inversion Hb2 as [|? ? H2 _]; subst. apply b64_idx3_lt; assumption.
Qed.

Lemma b64_flat_lt gs : Forall (fun g => length g = 3%nat) gs -> Forall bytes_lt gs ->
  Forall (fun v => v < 64) (flat_map b64_grp gs).
Proof.
  induction 1 as [|g gs Hg _ IH]; intros Hb; cbn [flat_map]; [constructor|].
  inversion Hb; subst. apply Forall_app. split; [apply b64_grp_lt; assumption|apply IH; assumption].
Qed.

Lemma b64_tail_lt t : bytes_lt t -> Forall (fun v => v < 64) (b64_tail_vals t).
Proof.
  intros Hb. destruct t as [|b0 [|b1 [|b2 ?]]]; cbn [b64_tail_vals].
  - constructor.
  - inversion Hb; subst. apply b64_idx1_lt; assumption.
  - inversion Hb as [|? ? H0 Hb1]; subst. inversion Hb1; subst. apply b64_idx2_lt; assumption.
  - constructor.
Qed.

Lemma b64_grp_length g : length (b64_grp g) = 4%nat.
Proof. reflexivity. Qed.

Lemma b64_flat_length gs : length (flat_map b64_grp gs) = (4 * length gs)%nat.
Proof.
  induction gs as [|g gs IH]; [reflexivity|]. cbn [flat_map length].
  rewrite app_length, IH, b64_grp_length. lia.
Qed.

Lemma b64_dec_groups : forall gs tv fuel,
  Forall (fun g => length g = 3%nat) gs -> Forall bytes_lt gs ->
  (length (flat_map b64_grp gs ++ tv) < fuel)%nat ->
  b64_dec_quads fuel (flat_map b64_grp gs ++ tv) = concat gs ++ b64_dec_quads (fuel - length gs) tv.
Proof.
  induction gs as [|g gs IH]; intros tv fuel HF HB Hfuel.
  - cbn [concat flat_map app length]. rewrite Nat.sub_0_r. reflexivity.
  - inversion HF as [|? ? Hg HF']; subst. inversion HB as [|? ? Hb HB']; subst.
    destruct g as [|b0 [|b1 [|b2 [|? ?]]]]; try discriminate.
    inversion Hb as [|? ? H0 Hb1]; subst. inversion Hb1 as [|? ? H1 Hb2]; subst.
    inversion Hb2 as [|? ? H2 _]; subst.
    cbn [flat_map] in *. rewrite <- app_assoc in *.
    rewrite app_length, b64_grp_length in Hfuel.
    destruct fuel as [|fuel]; [lia|].
    pose proof (b64_kernel3 b0 b1 b2 H0 H1 H2) as K.
    unfold b64_grp at 1. cbn [nth]. unfold b64_idx3 in *. cbv beta iota in K.
    unfold b64_quad in K. injection K as K0 K1 K2.
    cbn [app b64_dec_quads]. rewrite K0, K1, K2. rewrite IH by (assumption || lia).
    cbn [concat app length Nat.sub]. reflexivity.
Qed.

Lemma last_app_ne {A} (l1 l2 : list A) d : l2 <> [] -> last (l1 ++ l2) d = last l2 d.
Proof.
  intros H. induction l1 as [|x l1 IH]; [reflexivity|]. cbn [app].
  remember (l1 ++ l2) as m eqn:E. destruct m as [|y m].
  - destruct l1; cbn in E; [subst; contradiction | discriminate].
  - exact IH.
Qed.

Theorem b64_round : forall d, bytes_lt d -> b64_decode (b64_encode d) = Some d.
Proof.
  intros d Hd.
  destruct (split_groups 3 ltac:(lia) d) as (gs & t & -> & HF & Ht).
  apply Forall_app in Hd. destruct Hd as [Hgs Hbt]. apply Forall_concat in Hgs.
  rewrite b64_encode_groups by assumption.
  pose proof (b64_flat_lt gs HF Hgs) as Lg. pose proof (b64_tail_lt t Hbt) as Lt.
  assert (Lv : Forall (fun v => v < 64) (b64_vals gs t)) by (apply Forall_app; split; assumption).
  set (V := b64_vals gs t) in *. set (p := b64_tail_pad t).
  assert (Hsym : map_opt b64_sym (map (nthN b64_alphabet) V) = Some V).
  { apply map_opt_map with (P := fun v => v < 64); [|assumption].
    intros v Hv. apply b64_sym_alpha. assumption. }
  assert (HlenV : length V = (4 * length gs + length (b64_tail_vals t))%nat).
  { unfold V, b64_vals. rewrite app_length, b64_flat_length. reflexivity. }
  unfold b64_decode. cbv zeta.
  (* the padding count *)
  assert (Hpad : count_trailing_eq (Nat.min 2 (length (map (nthN b64_alphabet) V ++ repeat 61 p)))
                   (rev (map (nthN b64_alphabet) V ++ repeat 61 p)) = p).
  { rewrite rev_app_distr, rev_repeat. rewrite app_length, map_length, repeat_length.
    apply count_trailing_eq_spec.
    - subst p. destruct t as [|b0 [|b1 [|b2 ?]]]; cbn [b64_tail_pad b64_tail_vals length] in *; lia.
    - destruct (Nat.eq_dec (Nat.min 2 (length V + p)) p) as [E|E]; [left; assumption|right].
      destruct (rev (map (nthN b64_alphabet) V)) as [|c r] eqn:Er; [trivial|].
      assert (Hin : In c (map (nthN b64_alphabet) V)).
      { apply in_rev. rewrite Er. left. reflexivity. }
      apply in_map_iff in Hin. destruct Hin as (v & <- & Hv).
      rewrite Forall_forall in Lv. apply b64_sym_alpha. apply Lv. assumption. }
  rewrite Hpad. rewrite app_length, map_length, repeat_length.
  replace (length V + p - p)%nat with (length (map (nthN b64_alphabet) V) + 0)%nat
    by (rewrite map_length; lia).
  rewrite firstn_app_2. cbn [firstn]. rewrite app_nil_r. rewrite Hsym.
  assert (Hdq : b64_dec_quads (S (length V)) V
                = concat gs ++ b64_dec_quads (S (length V) - length gs) (b64_tail_vals t)).
  { unfold V, b64_vals. apply b64_dec_groups; try assumption. lia. }
  rewrite Hdq. clear Hdq.
  (* the tail and the canonicity checks *)
  destruct t as [|b0 [|b1 [|b2 ?]]]; cbn [length] in Ht; try lia.
  - (* no tail *)
    subst p. cbn [b64_tail_pad b64_tail_vals length] in *.
    replace ((length V + 0) mod 4)%nat with 0%nat by lia.
    replace (length V mod 4)%nat with 0%nat by lia.
    cbn [Nat.eqb negb andb]. rewrite Nat.add_0_r in HlenV.
    replace (S (length V) - length gs)%nat with (S (length V - length gs)) by lia.
    cbn [b64_dec_quads]. reflexivity.
  - (* one byte *)
    inversion Hbt as [|? ? H0 _]; subst.
    pose proof (b64_kernel1 b0 H0) as K. subst p.
    cbn [b64_tail_pad b64_tail_vals length] in *.
    change (length (b64_idx1 b0)) with 2%nat in HlenV.
    replace ((length V + 2) mod 4)%nat with 0%nat by lia.
    replace (length V mod 4)%nat with 2%nat by lia.
    cbn [Nat.eqb negb andb].
    unfold V, b64_vals. cbn [b64_tail_vals].
    rewrite last_app_ne by discriminate.
    unfold b64_idx1 in *. cbv beta iota in K. destruct K as [K1 K2].
    cbn [last]. rewrite K2. cbn [negb].
    replace (S (length (flat_map b64_grp gs ++ [N.shiftr b0 2; N.shiftl (N.land b0 3) 4])) - length gs)%nat
      with (S (length (flat_map b64_grp gs ++ [N.shiftr b0 2; N.shiftl (N.land b0 3) 4]) - length gs))
      by (rewrite app_length, b64_flat_length; cbn [length]; lia).
    cbn [b64_dec_quads]. rewrite K1. reflexivity.
  - (* two bytes *)
    inversion Hbt as [|? ? H0 Hb1]; subst. inversion Hb1 as [|? ? H1 _]; subst.
    pose proof (b64_kernel2 b0 b1 H0 H1) as K. subst p.
    cbn [b64_tail_pad b64_tail_vals length] in *.
    change (length (b64_idx2 b0 b1)) with 3%nat in HlenV.
    replace ((length V + 1) mod 4)%nat with 0%nat by lia.
    replace (length V mod 4)%nat with 3%nat by lia.
    cbn [Nat.eqb negb andb].
    unfold V, b64_vals. cbn [b64_tail_vals].
    rewrite last_app_ne by discriminate.
    unfold b64_idx2 in *. cbv beta iota in K. destruct K as [K1 K2].
    cbn [last]. rewrite K2. cbn [negb].
    match goal with |- context [b64_dec_quads (S (length ?l) - ?n)%nat] =>
      replace (S (length l) - n)%nat with (S (length l - n))
        by (rewrite app_length, b64_flat_length; cbn [length]; lia) end.
    cbn [b64_dec_quads]. rewrite K1. reflexivity.
Qed.

(* text outside the base64 alphabet (and '=') is rejected *)
Lemma count_trailing_eq_firstn : forall k l,
  (count_trailing_eq k l <= length l)%nat /\
  firstn (count_trailing_eq k l) l = repeat 61 (count_trailing_eq k l).
Proof.
  induction k as [|k IH]; intros l; [cbn [count_trailing_eq]; split; [lia|reflexivity]|].
  destruct l as [|c r]; [cbn [count_trailing_eq]; split; [cbn; lia|reflexivity]|].
  cbn [count_trailing_eq]. destruct (N.eqb_spec c 61) as [->|Hne].
  - destruct (IH r) as [H1 H2]. cbn [length firstn repeat]. split; [lia|]. rewrite H2. reflexivity.
  - split; [cbn [length]; lia|reflexivity].
Qed.

Lemma strip_padding_in data k c :
  In c data -> c <> 61 ->
  In c (firstn (length data - count_trailing_eq k (rev data)) data).
Proof.
  intros Hin Hc. set (p := count_trailing_eq k (rev data)).
  destruct (count_trailing_eq_firstn k (rev data)) as [Hp Hrep]. fold p in Hp, Hrep.
  rewrite rev_length in Hp.
  rewrite <- (firstn_skipn (length data - p) data) in Hin.
  apply in_app_or in Hin. destruct Hin as [Hin|Hin]; [assumption|exfalso].
  assert (E : skipn (length data - p) data = repeat 61 p).
  { rewrite <- (rev_involutive data) at 2. rewrite skipn_rev.
    rewrite rev_length. replace (length data - (length data - p))%nat with p by lia.
    rewrite Hrep. apply rev_repeat. }
  rewrite E in Hin. apply repeat_spec in Hin. contradiction.
Qed.

Theorem b64_invalid : forall data c,
  In c data -> ~ In c b64_alphabet -> c <> 61 -> b64_decode data = None.
Proof.
  intros data c Hin Hal Hc. unfold b64_decode. cbv zeta.
  rewrite (map_opt_none b64_sym _ c); [reflexivity| |].
  - apply strip_padding_in; assumption.
  - destruct (b64_sym c) as [v|] eqn:E; [|reflexivity].
    exfalso. apply Hal. apply (b64_sym_some c v E).
Qed.

(* ================= base32 ================= *)
Definition b32_grp (g : list N) : list N :=
  b32_idx (nth 0 g 0) (nth 1 g 0) (nth 2 g 0) (nth 3 g 0) (nth 4 g 0).
Definition b32_tv (t : list N) : list N := match t with [] => [] | _ => b32_grp t end.
Definition b32_kept (r : nat) : nat :=
  match r with 0 => 0 | 1 => 2 | 2 => 4 | 3 => 5 | _ => 7 end%nat.
Definition b32_ne (r : nat) : nat :=
  match r with 0 => 0 | 1 => 6 | 2 => 4 | 3 => 3 | _ => 1 end%nat.

Lemma b32_grp_length g : length (b32_grp g) = 8%nat.
Proof. reflexivity. Qed.

Lemma b32_flat_length gs : length (flat_map b32_grp gs) = (8 * length gs)%nat.
Proof.
  induction gs as [|g gs IH]; [reflexivity|]. cbn [flat_map length].
  rewrite app_length, IH, b32_grp_length. lia.
Qed.

Lemma b32_enc_chunks_nil al fuel : b32_enc_chunks al fuel [] = [].
Proof. destruct fuel; reflexivity. Qed.

Lemma b32_enc_chunks_cons al f d : d <> [] ->
  b32_enc_chunks al (S f) d = map (nthN al) (b32_grp (firstn 5 d)) ++ b32_enc_chunks al f (skipn 5 d).
Proof. intros H. destruct d; [contradiction|reflexivity]. Qed.

Lemma b32_enc_groups al : forall gs t fuel,
  Forall (fun g => length g = 5%nat) gs -> (length gs < fuel)%nat ->
  b32_enc_chunks al fuel (concat gs ++ t)
  = map (nthN al) (flat_map b32_grp gs) ++ b32_enc_chunks al (fuel - length gs) t.
Proof.
  induction gs as [|g gs IH]; intros t fuel HF Hfuel.
  - cbn [concat flat_map map app length]. rewrite Nat.sub_0_r. reflexivity.
  - inversion HF as [|? ? Hg HF']; subst.
    cbn [length] in Hfuel. destruct fuel as [|fuel]; [lia|].
    cbn [concat flat_map]. rewrite <- app_assoc.
    rewrite b32_enc_chunks_cons.
    2:{ destruct g; [discriminate|discriminate]. }
    replace 5%nat with (length g + 0)%nat at 1 2 by lia.
    rewrite firstn_app_2, skipn_app, skipn_all2 by lia.
    replace (length g + 0 - length g)%nat with 0%nat by lia.
    cbn [firstn skipn app]. rewrite app_nil_r.
    rewrite IH by (assumption || lia).
    rewrite map_app, <- app_assoc. cbn [length Nat.sub]. reflexivity.
Qed.

Lemma b32_enc_tail al t fuel : (length t < 5)%nat -> (0 < fuel)%nat ->
  b32_enc_chunks al fuel t = map (nthN al) (b32_tv t).
Proof.
  intros Ht Hf. destruct fuel as [|fuel]; [lia|].
  destruct t as [|b0 t']; [reflexivity|].
  rewrite b32_enc_chunks_cons by discriminate.
  rewrite skipn_all2 by lia. rewrite b32_enc_chunks_nil, app_nil_r.
  rewrite firstn_all2 by lia. reflexivity.
Qed.

Lemma b32_tv_length t : length (b32_tv t) = match t with [] => 0%nat | _ => 8%nat end.
Proof. destruct t; reflexivity. Qed.

Lemma b32_encode_shape a gs t :
  Forall (fun g => length g = 5%nat) gs -> (length t < 5)%nat ->
  b32_encode a (concat gs ++ t)
  = map (nthN (b32_al a)) (flat_map b32_grp gs ++ firstn (b32_kept (length t)) (b32_tv t))
    ++ match a with Rfc4648 => repeat 61 (b32_ne (length t)) | Crockford => [] end.
Proof.
  intros HF Ht.
  assert (Hret : b32_encode a (concat gs ++ t) =
          (let ret := map (nthN (b32_al a)) (flat_map b32_grp gs ++ b32_tv t) in
           let len := (5 * length gs + length t)%nat in
           if (len mod 5 =? 0)%nat then ret
           else let num_extra := (8 - (len mod 5 * 8 + 4) / 5)%nat in
                let keep := firstn (length ret - num_extra) ret in
                if match a with Rfc4648 => true | Crockford => false end then keep ++ repeat 61 num_extra else keep)).
  { assert (Hl : length (concat gs ++ t) = (5 * length gs + length t)%nat).
    { rewrite app_length, (length_concat_groups 5) by assumption. reflexivity. }
    assert (He : forall al, b32_enc_chunks al (S (length (concat gs ++ t))) (concat gs ++ t)
                 = map (nthN al) (flat_map b32_grp gs ++ b32_tv t)).
    { intros al0. rewrite b32_enc_groups by (assumption || lia).
      rewrite b32_enc_tail by (assumption || lia). rewrite map_app. reflexivity. }
    unfold b32_encode. destruct a; cbv beta iota zeta; cbn [b32_al]; rewrite He, Hl; reflexivity. }
  rewrite Hret. clear Hret. cbv zeta.
  rewrite map_length, app_length, b32_flat_length, b32_tv_length.
  destruct t as [|b0 [|b1 [|b2 [|b3 [|b4 ?]]]]]; cbn [length] in Ht |- *; try lia.
  - replace ((5 * length gs + 0) mod 5)%nat with 0%nat by lia. cbn [Nat.eqb b32_kept b32_ne firstn repeat].
    destruct a; rewrite ?app_nil_r; reflexivity.
  - replace ((5 * length gs + 1) mod 5)%nat with 1%nat by lia. cbn [Nat.eqb b32_kept b32_ne].
    change ((8 - (1 * 8 + 4) / 5))%nat with 6%nat.
    rewrite map_app, firstn_app, map_length, b32_flat_length.
    rewrite firstn_all2 by (rewrite map_length, b32_flat_length; lia).
    replace (8 * length gs + 8 - 6 - 8 * length gs)%nat with 2%nat by lia.
    rewrite firstn_map, <- map_app. destruct a; rewrite ?app_nil_r; reflexivity.
  - replace ((5 * length gs + 2) mod 5)%nat with 2%nat by lia. cbn [Nat.eqb b32_kept b32_ne].
    change ((8 - (2 * 8 + 4) / 5))%nat with 4%nat.
    rewrite map_app, firstn_app, map_length, b32_flat_length.
    rewrite firstn_all2 by (rewrite map_length, b32_flat_length; lia).
    replace (8 * length gs + 8 - 4 - 8 * length gs)%nat with 4%nat by lia.
    rewrite firstn_map, <- map_app. destruct a; rewrite ?app_nil_r; reflexivity.
  - replace ((5 * length gs + 3) mod 5)%nat with 3%nat by lia. cbn [Nat.eqb b32_kept b32_ne].
    change ((8 - (3 * 8 + 4) / 5))%nat with 3%nat.
    rewrite map_app, firstn_app, map_length, b32_flat_length.
    rewrite firstn_all2 by (rewrite map_length, b32_flat_length; lia).
    replace (8 * length gs + 8 - 3 - 8 * length gs)%nat with 5%nat by lia.
    rewrite firstn_map, <- map_app. destruct a; rewrite ?app_nil_r; reflexivity.
  - replace ((5 * length gs + 4) mod 5)%nat with 4%nat by lia. cbn [Nat.eqb b32_kept b32_ne].
    change ((8 - (4 * 8 + 4) / 5))%nat with 1%nat.
    rewrite map_app, firstn_app, map_length, b32_flat_length.
    rewrite firstn_all2 by (rewrite map_length, b32_flat_length; lia).
    replace (8 * length gs + 8 - 1 - 8 * length gs)%nat with 7%nat by lia.
    rewrite firstn_map, <- map_app. destruct a; rewrite ?app_nil_r; reflexivity.
Qed.

Lemma b32_dec_chunks_nil fuel : b32_dec_chunks fuel [] = [].
Proof. destruct fuel; reflexivity. Qed.

Lemma b32_dec_chunks_cons f v : v <> [] ->
  b32_dec_chunks (S f) v = b32_dec_chunk (firstn 8 v) ++ b32_dec_chunks f (skipn 8 v).
Proof. intros H. destruct v; [contradiction|reflexivity]. Qed.

Lemma nth_bytes_lt g i : bytes_lt g -> nth i g 0 < 256.
Proof.
  intros H. destruct (Nat.lt_ge_cases i (length g)) as [L|L].
  - unfold bytes_lt in H. rewrite Forall_forall in H. apply H. apply nth_In. assumption.
  - rewrite nth_overflow by assumption. lia.
Qed.

Lemma b32_grp_lt g : bytes_lt g -> Forall (fun v => v < 32) (b32_grp g).
Proof. intros H. apply b32_idx_lt; apply nth_bytes_lt; assumption. Qed.

Lemma b32_flat_lt gs : Forall bytes_lt gs -> Forall (fun v => v < 32) (flat_map b32_grp gs).
Proof.
  induction 1 as [|g gs Hg _ IH]; cbn [flat_map]; [constructor|].
  apply Forall_app. split; [apply b32_grp_lt; assumption|assumption].
Qed.

Lemma b32_grp_kernel g : length g = 5%nat -> bytes_lt g -> b32_dec_chunk (b32_grp g) = g.
Proof.
  intros Hl Hb. destruct g as [|b0 [|b1 [|b2 [|b3 [|b4 [|? ?]]]]]]; try discriminate.
  unfold b32_grp. cbn [nth].
  apply b32_kernel; [apply (nth_bytes_lt _ 0 Hb)|apply (nth_bytes_lt _ 1 Hb)|apply (nth_bytes_lt _ 2 Hb)
                     |apply (nth_bytes_lt _ 3 Hb)|apply (nth_bytes_lt _ 4 Hb)].
Qed.

Lemma b32_dec_groups : forall gs W fuel,
  Forall (fun g => length g = 5%nat) gs -> Forall bytes_lt gs -> (length gs < fuel)%nat ->
  b32_dec_chunks fuel (flat_map b32_grp gs ++ W) = concat gs ++ b32_dec_chunks (fuel - length gs) W.
Proof.
  induction gs as [|g gs IH]; intros W fuel HF HB Hfuel.
  - cbn [concat flat_map app length]. rewrite Nat.sub_0_r. reflexivity.
  - inversion HF as [|? ? Hg HF']; subst. inversion HB as [|? ? Hb HB']; subst.
    cbn [length] in Hfuel. destruct fuel as [|fuel]; [lia|].
    cbn [flat_map concat]. rewrite <- !app_assoc.
    rewrite b32_dec_chunks_cons.
    2:{ intro C. apply (f_equal (@length N)) in C. rewrite app_length, b32_grp_length in C. discriminate. }
    change (firstn 8 (b32_grp g ++ flat_map b32_grp gs ++ W)) with (b32_grp g).
    change (skipn 8 (b32_grp g ++ flat_map b32_grp gs ++ W)) with (flat_map b32_grp gs ++ W).
    rewrite b32_grp_kernel by assumption.
    rewrite IH by (assumption || lia). cbn [length Nat.sub]. reflexivity.
Qed.

Lemma b32_tail_dec t W fuel :
  (0 < length t < 5)%nat -> bytes_lt t ->
  (W = b32_grp t \/ W = firstn (b32_kept (length t)) (b32_grp t)) -> (0 < fuel)%nat ->
  firstn (length t) (b32_dec_chunks fuel W) = t.
Proof.
  intros Ht Hb HW Hf. destruct fuel as [|fuel]; [lia|].
  assert (Z0 : (0 : N) < 256) by lia.
  destruct t as [|b0 [|b1 [|b2 [|b3 [|b4 ?]]]]]; cbn [length] in Ht; try lia;
    unfold b32_grp in HW; cbn [nth length b32_kept] in HW |- *.
  - pose proof (nth_bytes_lt _ 0 Hb) as H0. cbn [nth] in H0.
    assert (E : b32_dec_chunks (S fuel) W = b32_dec_chunk (b32_idx b0 0 0 0 0)).
    { destruct HW as [-> | ->]; rewrite b32_dec_chunks_cons by discriminate;
        cbn [skipn firstn b32_idx]; rewrite b32_dec_chunks_nil, app_nil_r; reflexivity. }
    rewrite E, b32_kernel by assumption. reflexivity.
  - pose proof (nth_bytes_lt _ 0 Hb) as H0. pose proof (nth_bytes_lt _ 1 Hb) as H1. cbn [nth] in H0, H1.
    assert (E : b32_dec_chunks (S fuel) W = b32_dec_chunk (b32_idx b0 b1 0 0 0)).
    { destruct HW as [-> | ->]; rewrite b32_dec_chunks_cons by discriminate;
        cbn [skipn firstn b32_idx]; rewrite b32_dec_chunks_nil, app_nil_r; reflexivity. }
    rewrite E, b32_kernel by assumption. reflexivity.
  - pose proof (nth_bytes_lt _ 0 Hb) as H0. pose proof (nth_bytes_lt _ 1 Hb) as H1.
    pose proof (nth_bytes_lt _ 2 Hb) as H2. cbn [nth] in H0, H1, H2.
    assert (E : b32_dec_chunks (S fuel) W = b32_dec_chunk (b32_idx b0 b1 b2 0 0)).
    { destruct HW as [-> | ->]; rewrite b32_dec_chunks_cons by discriminate;
        cbn [skipn firstn b32_idx]; rewrite b32_dec_chunks_nil, app_nil_r; reflexivity. }
    rewrite E, b32_kernel by assumption. reflexivity.
  - pose proof (nth_bytes_lt _ 0 Hb) as H0. pose proof (nth_bytes_lt _ 1 Hb) as H1.
    pose proof (nth_bytes_lt _ 2 Hb) as H2. pose proof (nth_bytes_lt _ 3 Hb) as H3. cbn [nth] in H0, H1, H2, H3.
    assert (E : b32_dec_chunks (S fuel) W = b32_dec_chunk (b32_idx b0 b1 b2 b3 0)).
    { destruct HW as [-> | ->]; rewrite b32_dec_chunks_cons by discriminate;
        cbn [skipn firstn b32_idx]; rewrite b32_dec_chunks_nil, app_nil_r; reflexivity. }
    rewrite E, b32_kernel by assumption. reflexivity.
Qed.

(* the padded tail of the RFC 4648 encoder decodes to the symbol values of a full group *)
Lemma b32_tail_pad t : (0 < length t < 5)%nat ->
  firstn (b32_kept (length t)) (b32_grp t) ++ repeat 0 (b32_ne (length t)) = b32_grp t.
Proof.
  intros Ht. destruct t as [|b0 [|b1 [|b2 [|b3 [|b4 ?]]]]]; cbn [length] in Ht; try lia; reflexivity.
Qed.

Lemma map_opt_repeat {A B} (f : A -> option B) c v n : f c = Some v -> map_opt f (repeat c n) = Some (repeat v n).
Proof. intros H. induction n as [|n IH]; [reflexivity|]. cbn [repeat map_opt]. rewrite H, IH. reflexivity. Qed.

Lemma in_firstn {A} (x : A) n l : In x (firstn n l) -> In x l.
Proof. intros H. rewrite <- (firstn_skipn n l). apply in_or_app. left. assumption. Qed.

Theorem b32_round : forall a d, bytes_lt d -> b32_decode a (b32_encode a d) = Some d.
Proof.
  intros a d Hd.
  destruct (split_groups 5 ltac:(lia) d) as (gs & t & -> & HF & Ht).
  apply Forall_app in Hd. destruct Hd as [Hgs Hbt]. apply Forall_concat in Hgs.
  rewrite b32_encode_shape by assumption.
  set (W := firstn (b32_kept (length t)) (b32_tv t)).
  set (pe := match a with Rfc4648 => b32_ne (length t) | Crockford => 0%nat end).
  replace (match a with Rfc4648 => repeat 61 (b32_ne (length t)) | Crockford => [] end)
    with (repeat 61 pe) by (subst pe; destruct a; reflexivity).
  set (V := flat_map b32_grp gs ++ W).
  assert (LW : Forall (fun v => v < 32) W).
  { subst W. apply Forall_forall. intros x Hx. apply in_firstn in Hx.
    destruct t; [contradiction|]. cbn [b32_tv] in Hx.
    pose proof (b32_grp_lt _ Hbt) as L. rewrite Forall_forall in L. apply L. assumption. }
  assert (LV : Forall (fun v => v < 32) V).
  { apply Forall_app. split; [apply b32_flat_lt; assumption|assumption]. }
  assert (HlenW : length W = b32_kept (length t)).
  { subst W. destruct t as [|b0 [|b1 [|b2 [|b3 [|b4 ?]]]]]; cbn [length] in Ht |- *; try lia; reflexivity. }
  assert (HlenV : length V = (8 * length gs + b32_kept (length t))%nat).
  { unfold V. rewrite app_length, b32_flat_length, HlenW. reflexivity. }
  assert (Hpe : pe = 0%nat \/ (a = Rfc4648 /\ (0 < length t)%nat /\ pe = b32_ne (length t))).
  { subst pe. destruct a; [|left; reflexivity].
    destruct t; [left; reflexivity|right]. cbn [length]. repeat split. lia. }
  set (data := map (nthN (b32_al a)) V ++ repeat 61 pe).
  assert (Hlen : length data = (length V + pe)%nat).
  { unfold data. rewrite app_length, map_length, repeat_length. reflexivity. }
  unfold b32_decode.
  (* ASCII check *)
  assert (Hascii : forallb (fun c => c <? 128) data = true).
  { apply forallb_forall. intros c Hc. apply N.ltb_lt. unfold data in Hc.
    apply in_app_or in Hc. destruct Hc as [Hc|Hc].
    - apply in_map_iff in Hc. destruct Hc as (v & <- & Hv).
      rewrite Forall_forall in LV. apply (b32_sym_alpha a v (LV v Hv)).
    - apply repeat_spec in Hc. subst c. lia. }
  rewrite Hascii. cbn [negb]. cbv zeta.
  (* padding count *)
  assert (Hpad : count_trailing_eq (Nat.min 6 (length data)) (rev data) = pe).
  { unfold data at 2. rewrite rev_app_distr, rev_repeat. rewrite Hlen.
    apply count_trailing_eq_spec.
    - destruct Hpe as [->|(_ & Hpos & ->)]; [lia|]. rewrite HlenV.
      destruct t as [|b0 [|b1 [|b2 [|b3 [|b4 ?]]]]]; cbn [length b32_ne b32_kept] in *; lia.
    - right. destruct (rev (map (nthN (b32_al a)) V)) as [|c r] eqn:Er; [trivial|].
      assert (Hin : In c (map (nthN (b32_al a)) V)).
      { apply in_rev. rewrite Er. left. reflexivity. }
      apply in_map_iff in Hin. destruct Hin as (v & <- & Hv).
      rewrite Forall_forall in LV. apply (b32_sym_alpha a v (LV v Hv)). }
  rewrite Hpad, Hlen. fold (b32_inv a).
  (* symbol values *)
  assert (Hsym : map_opt (b32_sym (b32_inv a)) data = Some (V ++ repeat 0 pe)).
  { unfold data. apply map_opt_app.
    - apply map_opt_map with (P := fun v => v < 32); [|assumption].
      intros v Hv. apply b32_sym_alpha. assumption.
    - destruct Hpe as [->|(-> & _ & _)]; [reflexivity|].
      apply map_opt_repeat. reflexivity. }
  rewrite Hsym.
  replace (length V + pe - pe)%nat with (length V) by lia.
  assert (Hout : (length V * 5 / 8 = 5 * length gs + length t)%nat).
  { rewrite HlenV. destruct t as [|b0 [|b1 [|b2 [|b3 [|b4 ?]]]]]; cbn [length b32_kept] in *; lia. }
  rewrite Hout. f_equal.
  unfold V. rewrite <- app_assoc.
  rewrite b32_dec_groups; try assumption.
  2:{ rewrite !app_length, b32_flat_length. lia. }
  rewrite firstn_app, (length_concat_groups 5) by assumption.
  rewrite firstn_all2 by (rewrite (length_concat_groups 5) by assumption; lia).
  f_equal. replace (5 * length gs + length t - 5 * length gs)%nat with (length t) by lia.
  destruct (Nat.eq_dec (length t) 0) as [E0|E0].
  - destruct t; [|discriminate]. reflexivity.
  - apply b32_tail_dec; try assumption; try lia.
    + subst W. destruct Hpe as [->|(_ & _ & ->)].
      * right. cbn [repeat]. rewrite app_nil_r. destruct t; [contradiction|]. reflexivity.
      * left. destruct t as [|b0 t']; [contradiction|]. cbn [b32_tv].
        apply b32_tail_pad. cbn [length] in *. lia.
    + rewrite !app_length, b32_flat_length. lia.
Qed.

(* text outside the alphabet (either case, the padding character for RFC 4648, the
   Crockford aliases I L O) is rejected *)
Theorem b32_invalid : forall a data c,
  In c data -> ~ b32_accepts a c -> b32_decode a data = None.
Proof.
  intros a data c Hin Hna. unfold b32_decode.
  destruct (negb (forallb (fun c0 => c0 <? 128) data)); [reflexivity|]. cbv zeta.
  fold (b32_inv a).
  rewrite (map_opt_none (b32_sym (b32_inv a)) _ c); [reflexivity|assumption|].
  destruct (b32_sym (b32_inv a) c) as [v|] eqn:E; [|reflexivity].
  exfalso. apply Hna. apply (b32_sym_some a c v E).
Qed.

(* ================= z85 ================= *)
Definition z85_gnum (g : list N) : N := be32 (nth 0 g 0) (nth 1 g 0) (nth 2 g 0) (nth 3 g 0).
Definition z85_genc (g : list N) : list N := z85_enc_num (z85_gnum g).

Lemma z85_genc_length g : length (z85_genc g) = 5%nat.
Proof. reflexivity. Qed.

Lemma z85_flat_length gs : length (flat_map z85_genc gs) = (5 * length gs)%nat.
Proof.
  induction gs as [|g gs IH]; [reflexivity|]. cbn [flat_map length].
  rewrite app_length, IH, z85_genc_length. lia.
Qed.

Lemma z85_enc_groups : forall gs t fuel,
  Forall (fun g => length g = 4%nat) gs -> (length gs < fuel)%nat ->
  z85_enc_chunks fuel (concat gs ++ t) = flat_map z85_genc gs ++ z85_enc_chunks (fuel - length gs) t.
Proof.
  induction gs as [|g gs IH]; intros t fuel HF Hfuel.
  - cbn [concat flat_map app length]. rewrite Nat.sub_0_r. reflexivity.
  - inversion HF as [|? ? Hg HF']; subst.
    destruct g as [|b0 [|b1 [|b2 [|b3 [|? ?]]]]]; try discriminate.
    cbn [length] in Hfuel. destruct fuel as [|fuel]; [lia|].
    cbn [concat app z85_enc_chunks flat_map]. rewrite <- app_assoc.
    rewrite IH by (assumption || lia). cbn [length Nat.sub]. reflexivity.
Qed.

Lemma z85_gnum_lt g : bytes_lt g -> z85_gnum g < 4294967296.
Proof. intros H. apply be32_lt; apply nth_bytes_lt; assumption. Qed.

Lemma z85_dec_chunks_cons f d : d <> [] ->
  z85_dec_chunks (S f) d =
  match z85_decode_chunk (firstn 5 d), z85_dec_chunks f (skipn 5 d) with
  | Some a, Some b => Some (a ++ b)
  | _, _ => None
  end.
Proof. intros H. destruct d; [contradiction|reflexivity]. Qed.

Lemma z85_dec_chunks_nil f : z85_dec_chunks f [] = Some [].
Proof. destruct f; reflexivity. Qed.

Lemma z85_dec_groups : forall gs fuel,
  Forall (fun g => length g = 4%nat) gs -> Forall bytes_lt gs -> (length gs < fuel)%nat ->
  z85_dec_chunks fuel (flat_map z85_genc gs) = Some (concat gs).
Proof.
  induction gs as [|g gs IH]; intros fuel HF HB Hfuel.
  - apply z85_dec_chunks_nil.
  - inversion HF as [|? ? Hg HF']; subst. inversion HB as [|? ? Hb HB']; subst.
    cbn [length] in Hfuel. destruct fuel as [|fuel]; [lia|].
    cbn [flat_map concat].
    rewrite z85_dec_chunks_cons.
    2:{ intro C. apply (f_equal (@length N)) in C. rewrite app_length, z85_genc_length in C. discriminate. }
    change (firstn 5 (z85_genc g ++ flat_map z85_genc gs)) with (z85_genc g).
    change (skipn 5 (z85_genc g ++ flat_map z85_genc gs)) with (flat_map z85_genc gs).
    unfold z85_genc at 1. rewrite z85_group_kernel by (apply z85_gnum_lt; assumption).
    rewrite IH by (assumption || lia).
    f_equal. f_equal.
    destruct g as [|b0 [|b1 [|b2 [|b3 [|? ?]]]]]; try discriminate.
    unfold z85_gnum. cbn [nth].
    apply be_bytes32_be32; [apply (nth_bytes_lt _ 0 Hb)|apply (nth_bytes_lt _ 1 Hb)
                            |apply (nth_bytes_lt _ 2 Hb)|apply (nth_bytes_lt _ 3 Hb)].
Qed.

(* the '#'-prefixed tail *)
Definition z85_tail_text (t : list N) : list N :=
  let diff := (4 - length t)%nat in
  let padded := repeat 0 diff ++ t in
  repeat 35 diff ++ skipn diff (z85_enc_num (be32 (nth 0 padded 0) (nth 1 padded 0) (nth 2 padded 0) (nth 3 padded 0))).

Lemma z85_enc_tail t fuel : (0 < length t < 4)%nat -> (0 < fuel)%nat ->
  z85_enc_chunks fuel t = z85_tail_text t.
Proof.
  intros Ht Hf. destruct fuel as [|fuel]; [lia|].
  destruct t as [|b0 [|b1 [|b2 [|b3 ?]]]]; cbn [length] in Ht; try lia; reflexivity.
Qed.

Lemma z85_enc_nil fuel : z85_enc_chunks fuel [] = [].
Proof. destruct fuel; reflexivity. Qed.

Lemma z85_tail_kernel t : (0 < length t < 4)%nat -> bytes_lt t ->
  z85_decode_tail (z85_tail_text t) = Some t /\ length (z85_tail_text t) = 5%nat /\
  nth 0 (z85_tail_text t) 0 = 35.
Proof.
  intros Ht Hb.
  destruct t as [|b0 [|b1 [|b2 [|b3 ?]]]]; cbn [length] in Ht; try lia.
  - (* one byte *)
    pose proof (nth_bytes_lt _ 0 Hb) as H0. cbn [nth] in H0.
    unfold z85_tail_text. cbn [length Nat.sub repeat app nth].
    assert (En : be32 0 0 0 b0 = b0) by (unfold be32; lia). rewrite En.
    rewrite z85_enc_num_digits. unfold z85_digits. cbn [map skipn].
    split; [|split; reflexivity].
    unfold z85_decode_tail. cbn [count_lead_hash]. change (35 =? 35) with true. cbv iota.
    assert (D1 : (b0 / 85) mod 85 < 85) by (apply N.mod_lt; discriminate).
    assert (D0 : b0 mod 85 < 85) by (apply N.mod_lt; discriminate).
    assert (Hh : nthN z85_letters ((b0 / 85) mod 85) =? 35 = false).
    { apply N.eqb_neq. intro C. apply z85_letter in C; [|assumption]. lia. }
    rewrite Hh. cbn [skipn].
    pose proof (z85_chunk_num_letters [(b0 / 85) mod 85; b0 mod 85] 0
                  ltac:(repeat constructor; assumption)) as Hc.
    cbn [map] in Hc. rewrite Hc. clear Hc.
    unfold z85_horner. cbn [fold_left].
    assert (Ev : (0 * 85 + (b0 / 85) mod 85) * 85 + b0 mod 85 = b0) by lia. rewrite Ev.
    replace (4294967295 <? b0) with false by lia.
    change (256 ^ (4 - N.of_nat 3) - 1) with 255. replace (255 <? b0) with false by lia.
    unfold be_bytes32. cbn [skipn]. f_equal. f_equal. lia.
  - (* two bytes *)
    pose proof (nth_bytes_lt _ 0 Hb) as H0. pose proof (nth_bytes_lt _ 1 Hb) as H1. cbn [nth] in H0, H1.
    unfold z85_tail_text. cbn [length Nat.sub repeat app nth].
    set (n := be32 0 0 b0 b1).
    assert (En : n = b0 * 256 + b1) by (unfold n, be32; lia).
    rewrite z85_enc_num_digits. unfold z85_digits. cbn [map skipn].
    split; [|split; reflexivity].
    unfold z85_decode_tail. cbn [count_lead_hash]. change (35 =? 35) with true. cbv iota.
    assert (Hh : nthN z85_letters ((n / 7225) mod 85) =? 35 = false).
    { apply N.eqb_neq. intro C. apply z85_letter in C; [|apply N.mod_lt; discriminate]. lia. }
    rewrite Hh. cbn [skipn].
    pose proof (z85_chunk_num_letters [(n / 7225) mod 85; (n / 85) mod 85; n mod 85] 0
                  ltac:(repeat constructor; apply N.mod_lt; discriminate)) as Hc.
    cbn [map] in Hc. rewrite Hc. clear Hc.
    unfold z85_horner. cbn [fold_left].
    assert (Ev : ((0 * 85 + (n / 7225) mod 85) * 85 + (n / 85) mod 85) * 85 + n mod 85 = n).
    { change 7225 with (85 * 85). rewrite <- N.div_div by discriminate. lia. }
    rewrite Ev.
    replace (4294967295 <? n) with false by lia.
    change (256 ^ (4 - N.of_nat 2) - 1) with 65535. replace (65535 <? n) with false by lia.
    unfold be_bytes32. cbn [skipn]. f_equal. f_equal; [lia|]. f_equal. lia.
  - (* three bytes *)
    pose proof (nth_bytes_lt _ 0 Hb) as H0. pose proof (nth_bytes_lt _ 1 Hb) as H1.
    pose proof (nth_bytes_lt _ 2 Hb) as H2. cbn [nth] in H0, H1, H2.
    unfold z85_tail_text. cbn [length Nat.sub repeat app nth].
    set (n := be32 0 b0 b1 b2).
    assert (En : n = (b0 * 256 + b1) * 256 + b2) by (unfold n, be32; lia).
    rewrite z85_enc_num_digits. unfold z85_digits. cbn [map skipn].
    split; [|split; reflexivity].
    unfold z85_decode_tail. cbn [count_lead_hash]. change (35 =? 35) with true. cbv iota.
    assert (Hh : nthN z85_letters ((n / 614125) mod 85) =? 35 = false).
    { apply N.eqb_neq. intro C. apply z85_letter in C; [|apply N.mod_lt; discriminate]. lia. }
    rewrite Hh. cbn [skipn].
    pose proof (z85_chunk_num_letters [(n / 614125) mod 85; (n / 7225) mod 85; (n / 85) mod 85; n mod 85] 0
                  ltac:(repeat constructor; apply N.mod_lt; discriminate)) as Hc.
    cbn [map] in Hc. rewrite Hc. clear Hc.
    unfold z85_horner. cbn [fold_left].
    assert (Ev : (((0 * 85 + (n / 614125) mod 85) * 85 + (n / 7225) mod 85) * 85 + (n / 85) mod 85) * 85 + n mod 85 = n).
    { change 614125 with (85 * (85 * 85)). change 7225 with (85 * 85).
      rewrite <- !N.div_div by discriminate. lia. }
    rewrite Ev.
    replace (4294967295 <? n) with false by lia.
    change (256 ^ (4 - N.of_nat 1) - 1) with 16777215. replace (16777215 <? n) with false by lia.
    unfold be_bytes32. cbn [skipn].
    change 65536 with (256 * 256). rewrite <- !N.div_div by discriminate.
    f_equal. f_equal; [lia|]. f_equal; [lia|]. f_equal. lia.
Qed.

Theorem z85_crate_round : forall d, bytes_lt d -> z85_crate_decode (z85_encode d) = Some d.
Proof.
  intros d Hd.
  destruct (split_groups 4 ltac:(lia) d) as (gs & t & -> & HF & Ht).
  apply Forall_app in Hd. destruct Hd as [Hgs Hbt]. apply Forall_concat in Hgs.
  unfold z85_encode.
  rewrite z85_enc_groups by (assumption || (rewrite app_length, (length_concat_groups 4) by assumption; lia)).
  set (X := flat_map z85_genc gs).
  assert (HlenX : length X = (5 * length gs)%nat) by apply z85_flat_length.
  assert (HdecX : forall fuel, (length gs < fuel)%nat -> z85_dec_chunks fuel X = Some (concat gs)).
  { intros fuel Hf. apply z85_dec_groups; assumption. }
  destruct (Nat.eq_dec (length t) 0) as [E0|E0].
  - (* no tail *)
    destruct t; [|discriminate]. rewrite z85_enc_nil, !app_nil_r.
    unfold z85_crate_decode. cbv zeta. rewrite HlenX.
    destruct (Nat.eq_dec (length gs) 0) as [G0|G0].
    { assert (Egs : gs = []) by (destruct gs; [reflexivity|discriminate]).
      subst X. rewrite Egs. reflexivity. }
    assert (Hpos : (0 < length gs)%nat) by lia.
    replace (5 * length gs =? 0)%nat with false by lia.
    replace ((5 * length gs) mod 5 =? 0)%nat with true by lia. cbn [negb].
    assert (Hne : gs <> []) by (intro C; rewrite C in G0; apply G0; reflexivity).
    destruct (exists_last Hne) as (gs' & gl & Egl).
    assert (Hnt : nth (5 * length gs - 5) X 0 =? 35 = false).
    { apply N.eqb_neq. unfold X. rewrite Egl, flat_map_app. cbn [flat_map]. rewrite app_nil_r.
      rewrite app_length. cbn [length].
      replace (5 * (length gs' + 1) - 5)%nat with (length (flat_map z85_genc gs')) by (rewrite z85_flat_length; lia).
      rewrite app_nth2, Nat.sub_diag by lia.
      apply z85_group_first. apply z85_gnum_lt.
      rewrite Egl in Hgs. apply Forall_app in Hgs. destruct Hgs as [_ Hl]. inversion Hl; assumption. }
    rewrite Hnt. rewrite <- HlenX, firstn_all. rewrite HdecX by lia. reflexivity.
  - (* a tail of one to three bytes *)
    rewrite z85_enc_tail.
    2:{ lia. }
    2:{ rewrite app_length, (length_concat_groups 4) by assumption. lia. }
    destruct (z85_tail_kernel t ltac:(lia) Hbt) as (Kd & Kl & Kh).
    set (T := z85_tail_text t) in *.
    unfold z85_crate_decode. cbv zeta. rewrite app_length, HlenX, Kl.
    replace (5 * length gs + 5 =? 0)%nat with false by lia.
    replace ((5 * length gs + 5) mod 5 =? 0)%nat with true by lia. cbn [negb].
    replace (5 * length gs + 5 - 5)%nat with (length X + 0)%nat by lia.
    rewrite app_nth2_plus, Kh. change (35 =? 35) with true. cbv iota.
    rewrite firstn_app_2, skipn_app. cbn [firstn]. rewrite app_nil_r.
    rewrite skipn_all2 by lia. replace (length X + 0 - length X)%nat with 0%nat by lia.
    cbn [skipn app]. rewrite HdecX by lia. rewrite Kd. reflexivity.
Qed.

(* text with a character outside the 85 letters is rejected *)
Lemma z85_dec_chunks_in : forall fuel d out c,
  (length d < fuel)%nat -> z85_dec_chunks fuel d = Some out -> In c d -> In c z85_letters.
Proof.
  induction fuel as [|fuel IH]; intros d out c Hf H Hin; [lia|].
  destruct d as [|x d']; [contradiction|].
  rewrite z85_dec_chunks_cons in H by discriminate.
  set (d := x :: d') in *.
  destruct (z85_decode_chunk (firstn 5 d)) as [a|] eqn:E1; [|discriminate].
  destruct (z85_dec_chunks fuel (skipn 5 d)) as [b|] eqn:E2; [|discriminate].
  rewrite <- (firstn_skipn 5 d) in Hin. apply in_app_or in Hin. destruct Hin as [Hin|Hin].
  - unfold z85_decode_chunk in E1.
    destruct (z85_chunk_num (firstn 5 d) 0) as [n|] eqn:E3; [|discriminate].
    eapply z85_chunk_num_in; eassumption.
  - eapply (IH (skipn 5 d)); try eassumption.
    rewrite skipn_length. unfold d in *. cbn [length] in *. lia.
Qed.

Lemma count_lead_hash_skipn : forall l c, In c l -> In c (skipn (count_lead_hash l) l) \/ c = 35.
Proof.
  induction l as [|x l IH]; intros c Hin; [contradiction|].
  cbn [count_lead_hash]. destruct (N.eqb_spec x 35) as [->|Hne].
  - destruct Hin as [<-|Hin]; [right; reflexivity|]. cbn [skipn]. apply IH. assumption.
  - left. assumption.
Qed.

Theorem z85_crate_invalid : forall data c,
  In c data -> ~ In c z85_letters -> z85_crate_decode data = None.
Proof.
  intros data c Hin Hna. destruct (z85_crate_decode data) as [out|] eqn:E; [exfalso|reflexivity].
  apply Hna. clear Hna. unfold z85_crate_decode in E. cbv zeta in E.
  destruct (length data =? 0)%nat eqn:E0.
  { apply Nat.eqb_eq in E0. destruct data; [contradiction|discriminate]. }
  destruct (negb (length data mod 5 =? 0)%nat); [discriminate|].
  set (chunked := if nth (length data - 5) data 0 =? 35 then (length data - 5)%nat else length data) in *.
  destruct (z85_dec_chunks (S (length data)) (firstn chunked data)) as [o1|] eqn:E1; [|discriminate].
  rewrite <- (firstn_skipn chunked data) in Hin. apply in_app_or in Hin. destruct Hin as [Hin|Hin].
  - eapply z85_dec_chunks_in; [|eassumption|assumption]. rewrite firstn_length. lia.
  - destruct (nth (length data - 5) data 0 =? 35) eqn:Eh.
    + destruct (z85_decode_tail (skipn chunked data)) as [tl|] eqn:E2; [|discriminate].
      unfold z85_decode_tail in E2. cbv zeta in E2.
      destruct (z85_chunk_num (skipn (count_lead_hash (skipn chunked data)) (skipn chunked data)) 0) as [n|] eqn:E3;
        [|discriminate].
      destruct (count_lead_hash_skipn _ _ Hin) as [Hc| ->].
      * eapply z85_chunk_num_in; eassumption.
      * vm_compute. tauto.
    + subst chunked. rewrite skipn_all in Hin. contradiction.
Qed.

(* ================= the symbols are the base-2^k / base-85 digits ================= *)
(* one whole group of each encoding, and the encoders are homomorphic over whole groups;
   together with the tails above this pins the encoders to the standard alphabets *)
Definition be24 (b0 b1 b2 : N) : N := (b0 * 256 + b1) * 256 + b2.
Definition be40 (b0 b1 b2 b3 b4 : N) : N := (((b0 * 256 + b1) * 256 + b2) * 256 + b3) * 256 + b4.

Theorem b64_group_digits b0 b1 b2 : b0 < 256 -> b1 < 256 -> b2 < 256 ->
  let n := be24 b0 b1 b2 in
  b64_encode [b0; b1; b2]
  = map (nthN b64_alphabet) [ n / 262144; (n / 4096) mod 64; (n / 64) mod 64; n mod 64 ].
Proof.
  intros H0 H1 H2 n. change (b64_encode [b0; b1; b2]) with (map (nthN b64_alphabet) (b64_idx3 b0 b1 b2)).
  f_equal. unfold b64_idx3. rewrite b64_e0, b64_e1, b64_e2, b64_e3 by assumption.
  unfold n, be24. f_equal; [lia|]. f_equal; [lia|]. f_equal; [lia|]. f_equal. lia.
Qed.

Theorem b32_group_digits a b0 b1 b2 b3 b4 :
  b0 < 256 -> b1 < 256 -> b2 < 256 -> b3 < 256 -> b4 < 256 ->
  let n := be40 b0 b1 b2 b3 b4 in
  b32_encode a [b0; b1; b2; b3; b4]
  = map (nthN (b32_al a))
        [ n / 34359738368; (n / 1073741824) mod 32; (n / 33554432) mod 32; (n / 1048576) mod 32;
          (n / 32768) mod 32; (n / 1024) mod 32; (n / 32) mod 32; n mod 32 ].
Proof.
  intros H0 H1 H2 H3 H4 n.
  assert (E : b32_encode a [b0; b1; b2; b3; b4] = map (nthN (b32_al a)) (b32_idx b0 b1 b2 b3 b4))
    by (destruct a; reflexivity).
  rewrite E. f_equal. unfold b32_idx.
  rewrite b32_e0, b32_e1, b32_e2, b32_e3, b32_e4, b32_e5, b32_e6, b32_e7 by assumption.
  unfold n, be40.
  f_equal; [lia|]. f_equal; [lia|]. f_equal; [lia|]. f_equal; [lia|].
  f_equal; [lia|]. f_equal; [lia|]. f_equal; [lia|]. f_equal. lia.
Qed.

(* ---- the guard of zero85> (repair of D39) ---- *)
Lemma ends_hash5_app5 X a b c e f :
  ends_hash5 (X ++ [a; b; c; e; f]) = true -> a = 35 /\ b = 35 /\ c = 35 /\ e = 35 /\ f = 35.
Proof.
  unfold ends_hash5. rewrite rev_app_distr. cbn [rev app].
  intros H. repeat (apply andb_prop in H; destruct H as [H ?]).
  repeat match goal with Hx : (_ =? _) = true |- _ => apply N.eqb_eq in Hx end.
  subst. repeat split.
Qed.

Lemma z85_encode_not_hash5 d : bytes_lt d -> ends_hash5 (z85_encode d) = false.
Proof.
  intros Hd.
  destruct (split_groups 4 ltac:(lia) d) as (gs & t & -> & HF & Ht).
  apply Forall_app in Hd. destruct Hd as [Hgs Hbt]. apply Forall_concat in Hgs.
  unfold z85_encode.
  rewrite z85_enc_groups by (assumption || (rewrite app_length, (length_concat_groups 4) by assumption; lia)).
  destruct (ends_hash5 _) eqn:E; [exfalso|reflexivity].
  destruct (Nat.eq_dec (length t) 0) as [E0|E0].
  - destruct t; [|discriminate]. rewrite z85_enc_nil, app_nil_r in E.
    destruct (Nat.eq_dec (length gs) 0) as [G0|G0].
    { assert (Egs : gs = []) by (destruct gs; [reflexivity|discriminate]). rewrite Egs in E. discriminate. }
    assert (Hne : gs <> []) by (intro C; rewrite C in G0; apply G0; reflexivity).
    destruct (exists_last Hne) as (gs' & gl & Egl).
    rewrite Egl, flat_map_app in E. cbn [flat_map] in E. rewrite app_nil_r in E.
    unfold z85_genc at 2 in E. unfold z85_enc_num in E.
    apply ends_hash5_app5 in E. destruct E as (Ea & _).
    assert (Hl : bytes_lt gl).
    { rewrite Egl in Hgs. apply Forall_app in Hgs. destruct Hgs as [_ Hl]. inversion Hl; assumption. }
    apply (z85_group_first (z85_gnum gl) (z85_gnum_lt gl Hl)). exact Ea.
  - rewrite z85_enc_tail in E.
    2:{ lia. }
    2:{ rewrite app_length, (length_concat_groups 4) by assumption. lia. }
    destruct (z85_tail_kernel t ltac:(lia) Hbt) as (Kd & Kl & Kh).
    destruct (z85_tail_text t) as [|a [|b [|c [|e [|f [|? ?]]]]]]; try discriminate.
    apply ends_hash5_app5 in E. destruct E as (-> & -> & -> & -> & ->).
    vm_compute in Kd. injection Kd as <-. cbn [length] in E0. lia.
Qed.

Theorem z85_round : forall d, bytes_lt d -> z85_decode (z85_encode d) = Some d.
Proof.
  intros d Hd. unfold z85_decode. rewrite z85_encode_not_hash5 by assumption. apply z85_crate_round. assumption.
Qed.

Theorem z85_invalid : forall data c,
  In c data -> ~ In c z85_letters -> z85_decode data = None.
Proof.
  intros data c Hin Hna. unfold z85_decode. destruct (ends_hash5 data); [reflexivity|].
  apply (z85_crate_invalid data c); assumption.
Qed.

(* the guard covers exactly the texts on which the crate's `4 - diff` underflows: after it, the tail group
   of a text the crate treats as having a tail starts with at most four padding marks *)
Theorem z85_guard_excludes_underflow : forall X a b c e f,
  ends_hash5 (X ++ [a; b; c; e; f]) = false -> (count_lead_hash [a; b; c; e; f] <= 4)%nat.
Proof.
  intros X a b c e f H. cbn [count_lead_hash].
  destruct (N.eqb_spec a 35) as [->|]; [|lia]. destruct (N.eqb_spec b 35) as [->|]; [|lia].
  destruct (N.eqb_spec c 35) as [->|]; [|lia]. destruct (N.eqb_spec e 35) as [->|]; [|lia].
  destruct (N.eqb_spec f 35) as [->|]; [|lia].
  exfalso. unfold ends_hash5 in H. rewrite rev_app_distr in H. cbn [rev app] in H. discriminate.
Qed.
Theorem z85_guard_is_needed : ends_hash5 [35; 35; 35; 35; 35]%N = true /\ count_lead_hash [35; 35; 35; 35; 35]%N = 5%nat.
Proof. split; reflexivity. Qed.

Theorem z85_group_digits b0 b1 b2 b3 :
  let n := be32 b0 b1 b2 b3 in
  z85_encode [b0; b1; b2; b3]
  = map (nthN z85_letters)
        [ (n / 52200625) mod 85; (n / 614125) mod 85; (n / 7225) mod 85; (n / 85) mod 85; n mod 85 ].
Proof. reflexivity. Qed.

(* whole groups are encoded independently of what follows *)
Theorem b64_encode_app g d : length g = 3%nat -> b64_encode (g ++ d) = b64_encode g ++ b64_encode d.
Proof.
  intros Hg.
  destruct (split_groups 3 ltac:(lia) d) as (gs & t & -> & HF & Ht).
  replace (g ++ concat gs ++ t) with (concat (g :: gs) ++ t) by (cbn [concat]; rewrite app_assoc; reflexivity).
  rewrite (b64_encode_groups (g :: gs) t) by (first [assumption | constructor; assumption]).
  rewrite (b64_encode_groups gs t) by assumption.
  replace g with (concat [g] ++ []) at 2 by (cbn [concat]; rewrite !app_nil_r; reflexivity).
  rewrite (b64_encode_groups [g] []) by (first [constructor; [assumption|constructor] | cbn; lia]).
  unfold b64_vals. cbn [flat_map b64_tail_vals b64_tail_pad repeat]. rewrite !app_nil_r.
  rewrite !map_app, <- !app_assoc. reflexivity.
Qed.

Lemma z85_enc_fuel t f1 f2 : (length t < 4)%nat -> (0 < f1)%nat -> (0 < f2)%nat ->
  z85_enc_chunks f1 t = z85_enc_chunks f2 t.
Proof.
  intros Ht H1 H2. destruct (Nat.eq_dec (length t) 0) as [E0|E0].
  - destruct t; [|discriminate]. rewrite !z85_enc_nil. reflexivity.
  - rewrite !z85_enc_tail by lia. reflexivity.
Qed.

Theorem z85_encode_app g d : length g = 4%nat -> z85_encode (g ++ d) = z85_encode g ++ z85_encode d.
Proof.
  intros Hg.
  destruct (split_groups 4 ltac:(lia) d) as (gs & t & -> & HF & Ht).
  assert (HF1 : Forall (fun g0 : list N => length g0 = 4%nat) (g :: gs)) by (constructor; assumption).
  assert (Eg : z85_encode g = z85_genc g).
  { destruct g as [|b0 [|b1 [|b2 [|b3 [|? ?]]]]]; try discriminate. reflexivity. }
  rewrite Eg. unfold z85_encode.
  replace (g ++ concat gs ++ t) with (concat (g :: gs) ++ t) by (cbn [concat]; rewrite app_assoc; reflexivity).
  rewrite !z85_enc_groups; try assumption;
    try (rewrite app_length, (length_concat_groups 4) by assumption; cbn [length]; lia).
  cbn [flat_map]. rewrite <- app_assoc. f_equal. f_equal.
  apply z85_enc_fuel; try assumption;
    rewrite app_length, (length_concat_groups 4) by assumption; cbn [length]; lia.
Qed.

Theorem b32_encode_app a g d : length g = 5%nat -> b32_encode a (g ++ d) = b32_encode a g ++ b32_encode a d.
Proof.
  intros Hg.
  destruct (split_groups 5 ltac:(lia) d) as (gs & t & -> & HF & Ht).
  replace (g ++ concat gs ++ t) with (concat (g :: gs) ++ t) by (cbn [concat]; rewrite app_assoc; reflexivity).
  rewrite (b32_encode_shape a (g :: gs) t) by (first [assumption | constructor; assumption]).
  rewrite (b32_encode_shape a gs t) by assumption.
  replace g with (concat [g] ++ []) at 2 by (cbn [concat]; rewrite !app_nil_r; reflexivity).
  rewrite (b32_encode_shape a [g] []) by (first [constructor; [assumption|constructor] | cbn; lia]).
  cbn [flat_map length b32_kept b32_tv firstn b32_ne repeat]. rewrite !app_nil_r.
  rewrite !map_app, <- !app_assoc. f_equal.
  destruct a; cbn [app]; reflexivity.
Qed.
