(* UnwindWitness.v (C10 / C15): machine-checked witnesses showing that the hypotheses of the
   restoration theorem and of "eval = compile ;; run" cannot be dropped. *)
From Xeh Require Import Model.Prelude Model.Bits Model.Codec Model.Cell Model.Lexer Model.Fmt
                        Model.Vm Model.Words Model.Build Model.Boot.
From Xeh Require Import Proofs.VmFrame Proofs.VmLimits Proofs.UnwindLists Proofs.UnwindFrame
                        Proofs.UnwindInv Proofs.UnwindBuild Proofs.UnwindMain Proofs.UnwindSimMain.
Local Notation length := List.length.
Local Open Scope string_scope.

Definition wit_zf (a b : Z) : Z := 0%Z.
Definition wit_fo : fops := fops_with wit_zf wit_zf wit_zf wit_zf wit_zf wit_zf wit_zf.
Definition wit_pr : string -> option Z := fun _ => None.
Definition wit_rf : nat := 1000.
Definition wit_fuel : nat := 1000.
Definition wit_eval (src : string) (s : state) : res unit := eval wit_fo wit_pr wit_rf wit_fuel src s.
Definition wit_state {A} (r : res A) : state := match r with ROk _ s => s | RErr _ _ s => s | _ => boot end.
Definition wit_opened (src : string) (s : state) : state :=
  wit_state ((context_open MEval ;; intern_source src) s).
Definition wit_built (src : string) (s : state) : res unit :=
  build1 wit_fo wit_pr wit_rf wit_fuel (length (nested (wit_opened src s))) (wit_opened src s).
Definition wit_unwound (src : string) (s : state) : state :=
  build_unwind (length (nested s)) (length (input s)) (length (ds s)) (length (heap s))
               (wit_state (wit_built src s)).

Definition wf_b (s : state) : bool :=
  match input s with [] => true | _ => false end &&
  (length (dbg s) =? length (code s))%nat && forallb (fun op => negb (is_resolve op)) (code s).

Lemma wf_b_sound s : wf_b s = true -> build_wf s.
Proof.
  unfold wf_b, build_wf. intros H. apply andb_true_iff in H. destruct H as [H H3].
  apply andb_true_iff in H. destruct H as [H1 H2]. repeat split.
  - destruct (input s); [reflexivity|discriminate].
  - apply Nat.eqb_eq. exact H2.
  - rewrite forallb_forall in H3. apply Forall_forall. intros op Hop. specialize (H3 op Hop).
    destruct (is_resolve op); [discriminate|reflexivity].
Qed.

(* F1: a user-defined immediate word *)
Definition f1_s : state := wit_state (wit_eval ": foo immediate drop ; 7 8" boot).
Definition f1_src : string := "foo bar".

Theorem user_immediate_refuted :
  build_wf f1_s /\
  (context_open MEval ;; intern_source f1_src) f1_s = ROk tt (wit_opened f1_src f1_s) /\
  wit_built f1_src f1_s = RErr EUnknown None (wit_state (wit_built f1_src f1_s)) /\
  calls_bad wit_fo wit_pr wit_rf (length (dict f1_s)) wit_fuel
            (length (nested (wit_opened f1_src f1_s))) (wit_opened f1_src f1_s) = true /\
  eval wit_fo wit_pr wit_rf wit_fuel f1_src f1_s = RErr EUnknown None (wit_unwound f1_src f1_s) /\
  ds f1_s = [CInt 8; CInt 7] /\ ds (wit_unwound f1_src f1_s) = [CInt 7].
Proof.
  split; [apply wf_b_sound; vm_compute; reflexivity|].
  vm_compute. repeat split; reflexivity.
Qed.

(* F2: const overwrites an older constant *)
Definition f2_s : state := wit_state (wit_eval "#( 1 const X #)" boot).
Definition f2_src : string := "#( 5 const X #) junk".

Theorem const_refuted :
  build_wf f2_s /\
  (context_open MEval ;; intern_source f2_src) f2_s = ROk tt (wit_opened f2_src f2_s) /\
  wit_built f2_src f2_s = RErr EUnknown None (wit_state (wit_built f2_src f2_s)) /\
  calls_bad wit_fo wit_pr wit_rf (length (dict f2_s)) wit_fuel
            (length (nested (wit_opened f2_src f2_s))) (wit_opened f2_src f2_s) = true /\
  eval wit_fo wit_pr wit_rf wit_fuel f2_src f2_s = RErr EUnknown None (wit_unwound f2_src f2_s) /\
  dict_entry f2_s "X" = Some (DConst (CInt 1)) /\
  dict_entry (wit_unwound f2_src f2_s) "X" = Some (DConst (CInt 5)).
Proof.
  split; [apply wf_b_sound; vm_compute; reflexivity|].
  vm_compute. repeat split; reflexivity.
Qed.

(* F3: an unresolved late stub *)
Definition f3_s : state := wit_state (wit_eval "late foo : bar foo ;" boot).
Definition f3_src : string := ": foo 2 ; #( bar #) junk".
Definition f3_probe : string := "7 drop : foo 1 ; bar".

Theorem late_stub_refuted :
  input f3_s = [] /\ length (dbg f3_s) = length (code f3_s) /\
  nth_error (code f3_s) 1 = Some (OResolve "foo") /\
  (context_open MEval ;; intern_source f3_src) f3_s = ROk tt (wit_opened f3_src f3_s) /\
  wit_built f3_src f3_s = RErr EUnknown None (wit_state (wit_built f3_src f3_s)) /\
  calls_bad wit_fo wit_pr wit_rf (length (dict f3_s)) wit_fuel
            (length (nested (wit_opened f3_src f3_s))) (wit_opened f3_src f3_s) = false /\
  eval wit_fo wit_pr wit_rf wit_fuel f3_src f3_s = RErr EUnknown None (wit_unwound f3_src f3_s) /\
  nth_error (code (wit_unwound f3_src f3_s)) 1 = Some (OCall 7) /\
  length (code (wit_unwound f3_src f3_s)) = 6 /\
  (exists s', wit_eval f3_probe f3_s = ROk tt s' /\ ds s' = [CInt 1]) /\
  (exists s', wit_eval f3_probe (wit_unwound f3_src f3_s) = RErr EUnderflow None s').
Proof.
  do 9 (split; [vm_compute; reflexivity|]). split.
  - exists (wit_state (wit_eval f3_probe f3_s)). vm_compute. split; reflexivity.
  - exists (wit_state (wit_eval f3_probe (wit_unwound f3_src f3_s))). vm_compute. reflexivity.
Qed.

(* C15: a user-defined immediate word separates eval from compile ;; run *)
Definition f4_s : state := wit_state (wit_eval ": foo immediate drop ; 7" boot).

Theorem evalrun_user_immediate_refuted :
  idle_top f4_s /\
  calls_bad wit_fo wit_pr wit_rf 0 wit_fuel (length (nested (wit_opened "foo" f4_s))) (wit_opened "foo" f4_s) = true /\
  (exists s', eval wit_fo wit_pr wit_rf wit_fuel "foo" f4_s = ROk tt s' /\ ds s' = []) /\
  (exists s', (compile wit_fo wit_pr wit_rf wit_fuel "foo" ;; run_m wit_fo wit_rf) f4_s = RErr EUnderflow None s' /\
              ds s' = [CInt 7]).
Proof.
  split; [unfold idle_top; vm_compute; repeat split; reflexivity|].
  split; [vm_compute; reflexivity|]. split.
  - exists (wit_state (eval wit_fo wit_pr wit_rf wit_fuel "foo" f4_s)). vm_compute. split; reflexivity.
  - exists (wit_state ((compile wit_fo wit_pr wit_rf wit_fuel "foo" ;; run_m wit_fo wit_rf) f4_s)).
    vm_compute. split; reflexivity.
Qed.
