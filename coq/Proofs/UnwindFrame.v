(* UnwindFrame.v (C10): what running code can NOT do.  [frame_rel s s']: a program built
   from the logging primitives (every native word, every instruction, hence [run]) keeps the
   dictionary, the debug map, the flow stack, the nested contexts, the input, the sources and
   the limits; keeps every mark and the mode of the current context (only its ip moves);
   keeps the length of the heap, and the heap itself in meta mode; keeps the part of each of
   the four stacks that lies below the mark of the current context; and changes the code only
   by resolving [OResolve] cells. *)
From Xeh Require Import Model.Prelude Model.Bits Model.Codec Model.Cell Model.Lexer Model.Fmt
                        Model.Vm Model.Words Model.Build.
From Xeh Require Import Proofs.VmFrame Proofs.VmLimits Proofs.UnwindLists.
Local Notation length := List.length.

#[local] Arguments Z.add : simpl never.
#[local] Arguments Z.sub : simpl never.
#[local] Arguments Z.mul : simpl never.
#[local] Arguments Z.ltb : simpl never.
#[local] Arguments Z.leb : simpl never.
#[local] Arguments Z.eqb : simpl never.
#[local] Arguments Z.of_nat : simpl never.
#[local] Arguments Z.to_nat : simpl never.

Definition is_resolve (op : opcode) : bool := match op with OResolve _ => true | _ => false end.

(* the code keeps its length and every cell that is not an unresolved [late] stub *)
Definition code_keep (c c' : list opcode) : Prop :=
  length c' = length c /\
  forall i op, nth_error c i = Some op -> is_resolve op = false -> nth_error c' i = Some op.

Definition below {A} (mark : nat) (l l' : list A) : Prop :=
  forall h, suffix_of h l -> length h <= mark -> suffix_of h l'.

Definition frame_rel (s s' : state) : Prop :=
  dict s' = dict s /\ dbg s' = dbg s /\ flows s' = flows s /\ nested s' = nested s /\
  input s' = input s /\ sources s' = sources s /\ last_tok s' = last_tok s /\
  insn_limit s' = insn_limit s /\ heap_limit s' = heap_limit s /\ stack_limit s' = stack_limit s /\
  cx s' = set_ctx_ip (cx s) (cip (cx s')) /\
  length (heap s') = length (heap s) /\
  (cmode (cx s) = MMeta -> heap s' = heap s) /\
  below (ds_len (cx s)) (ds s) (ds s') /\
  below (rs_len (cx s)) (rs s) (rs s') /\
  below (ls_len (cx s)) (loops s) (loops s') /\
  below (ss_ptr (cx s)) (special s) (special s') /\
  code_keep (code s) (code s') /\
  (rlog s' = None <-> rlog s = None).

Lemma code_keep_refl c : code_keep c c.
Proof. split; [reflexivity|]. intros i op H _. exact H. Qed.

Lemma code_keep_trans a b c : code_keep a b -> code_keep b c -> code_keep a c.
Proof.
  intros [A1 A2] [B1 B2]. split; [congruence|].
  intros i op H Hr. apply B2; [|exact Hr]. apply A2; assumption.
Qed.

Lemma below_refl {A} n (l : list A) : below n l l.
Proof. intros h H _. exact H. Qed.

Lemma set_ctx_ip_self c : set_ctx_ip c (cip c) = c.
Proof. destruct c; reflexivity. Qed.

Lemma frame_rel_refl s : frame_rel s s.
Proof.
  unfold frame_rel. rewrite set_ctx_ip_self.
  repeat split; try reflexivity; try apply below_refl; try (intros i op H _; exact H); auto.
Qed.

Lemma frame_rel_trans a b c : frame_rel a b -> frame_rel b c -> frame_rel a c.
Proof.
  unfold frame_rel.
  intros (A1 & A2 & A3 & A4 & A5 & A6 & A7 & A8 & A9 & A10 & A11 & A12 & A13 & A14 & A15 & A16 & A17 & A18 & A19)
         (B1 & B2 & B3 & B4 & B5 & B6 & B7 & B8 & B9 & B10 & B11 & B12 & B13 & B14 & B15 & B16 & B17 & B18 & B19).
  assert (Em : cmode (cx b) = cmode (cx a)) by (rewrite A11; reflexivity).
  assert (E1 : ds_len (cx b) = ds_len (cx a)) by (rewrite A11; reflexivity).
  assert (E2 : rs_len (cx b) = rs_len (cx a)) by (rewrite A11; reflexivity).
  assert (E3 : ls_len (cx b) = ls_len (cx a)) by (rewrite A11; reflexivity).
  assert (E4 : ss_ptr (cx b) = ss_ptr (cx a)) by (rewrite A11; reflexivity).
  repeat split; try congruence.
  - rewrite B11, A11. reflexivity.
  - intros H. rewrite B13 by congruence. apply A13. exact H.
  - intros h H1 H2. apply B14; [apply A14; assumption|lia].
  - intros h H1 H2. apply B15; [apply A15; assumption|lia].
  - intros h H1 H2. apply B16; [apply A16; assumption|lia].
  - intros h H1 H2. apply B17; [apply A17; assumption|lia].
  - destruct A18, B18. congruence.
  - intros i op H Hr. apply B18; [|exact Hr]. apply A18; assumption.
  - intros H. apply A19, B19, H.
  - intros H. apply B19, A19, H.
Qed.

(* ---------- the primitives ---------- *)
Ltac nat_norm :=
  repeat match goal with
         | H : (_ <? _)%nat = true |- _ => apply Nat.ltb_lt in H
         | H : (_ <? _)%nat = false |- _ => apply Nat.ltb_ge in H
         | H : (_ <=? _)%nat = true |- _ => apply Nat.leb_le in H
         | H : (_ <=? _)%nat = false |- _ => apply Nat.leb_gt in H
         end.

Ltac suf_solve H :=
  nat_norm; cbn [length] in *;
  repeat (apply suffix_tail in H; [|cbn [length]; lia]);
  repeat apply suffix_cons; exact H.

Ltac frame_fin :=
  cbv [res_all]; try exact I;
  cbv [frame_rel below code_keep set_ctx_ip
       dict heap code dbg sources input ds rs flows loops special cx nested meter insn_limit
       heap_limit stack_limit rlog out last_tok stopping
       ds_len cs_len rs_len fs_len ls_len ss_ptr di_len cip cmode];
  repeat match goal with |- _ /\ _ => split end;
  try reflexivity;
  try (rewrite ?list_set_length; reflexivity);
  try (intros; assumption);
  try (intros ?Hm; subst; discriminate);
  try (split; intro; discriminate);
  try tauto;
  try (let h := fresh "h" in let Hs := fresh "Hs" in let Hl := fresh "Hl" in
       intros h Hs Hl; suf_solve Hs).

Ltac frame_prim :=
  let s := fresh "s" in
  intro s; destruct_state s;
  match goal with c : ctx |- _ => destruct c end;
  cbv [push_data pop_data top_data swap_data rot_data over_data push_return pop_return top_frame
       push_loop pop_loop loop_next loop_set_items push_special pop_special get_var set_var
       init_local set_ip next_ip print modify ret fail unsup panic
       add_rstep limit_reached data_depth ip set_ip_raw
       set_ds set_rs set_loops set_special set_heap set_cx set_rlog set_out set_stopping
       dict heap code dbg sources input ds rs flows loops special cx nested meter insn_limit
       heap_limit stack_limit rlog out last_tok stopping
       ds_len cs_len rs_len fs_len ls_len ss_ptr di_len cip cmode];
  break_matches;
  frame_fin.

Definition P_frame {A} (m : M A) : Prop := forall s, res_all (frame_rel s) (m s).

Lemma wl_frame : forall A (m : M A), wl m -> P_frame m.
Proof.
  induction 1; try (frame_prim; fail).
  - intro s. unfold bind. specialize (IHwl s).
    destruct (m s) as [a s1 | k p s1 | |]; cbn [res_all] in *; auto.
    specialize (H1 a s1). destruct (f a s1); cbn [res_all] in *; auto;
      eapply frame_rel_trans; eauto.
  - intro s. unfold bind, get. apply H0.
Qed.

(* ---------- one instruction, and run ---------- *)
Lemma code_keep_resolve c i name op :
  nth_error c i = Some (OResolve name) -> code_keep c (list_set c i op).
Proof.
  intros H. split; [apply list_set_length|].
  intros j op' Hj Hr. destruct (Nat.eq_dec j i) as [->|Hne].
  - rewrite H in Hj. injection Hj as <-. discriminate.
  - revert i j H Hj Hne. induction c as [|x c IH]; intros i j H Hj Hne; [destruct j; discriminate|].
    destruct i as [|i]; destruct j as [|j]; cbn [list_set nth_error] in *; try congruence.
    eapply IH; eauto.
Qed.

Section WithTable.
  Variable nf : natives.
  Hypothesis Hnf : forall w f, nf w = Some f -> wl f.

  Lemma exec_op_frame : forall i o s, res_all (frame_rel s) (exec_op nf i o s).
  Proof. intros. apply wl_frame. apply wl_exec_op. exact Hnf. Qed.

  (* a state that differs from [s] in the meter and in one resolved code cell *)
  Lemma frame_rel_from s0 s s' :
    dict s0 = dict s -> dbg s0 = dbg s -> flows s0 = flows s -> nested s0 = nested s ->
    input s0 = input s -> sources s0 = sources s -> last_tok s0 = last_tok s ->
    insn_limit s0 = insn_limit s -> heap_limit s0 = heap_limit s -> stack_limit s0 = stack_limit s ->
    cx s0 = cx s -> heap s0 = heap s -> ds s0 = ds s -> rs s0 = rs s -> loops s0 = loops s ->
    special s0 = special s -> code_keep (code s) (code s0) -> rlog s0 = rlog s ->
    frame_rel s0 s' -> frame_rel s s'.
  Proof.
    intros E1 E2 E3 E4 E5 E6 E7 E8 E9 E10 E11 E12 E13 E14 E15 E16 CK E17 H.
    unfold frame_rel in *.
    rewrite E1, E2, E3, E4, E5, E6, E7, E8, E9, E10, E11, E12, E13, E14, E15, E16, E17 in H.
    destruct H as (A1 & A2 & A3 & A4 & A5 & A6 & A7 & A8 & A9 & A10 & A11 & A12 & A13 & A14 & A15 & A16 & A17 & A18 & A19).
    repeat split; try assumption; try (destruct A18; destruct CK; congruence).
    - intros i op Hi Hr. apply A18; [|exact Hr]. apply CK; assumption.
    - apply A19.
    - apply A19.
  Qed.

  Lemma far_frame : forall s, res_all (frame_rel s) (fetch_and_run nf s).
  Proof.
    intros s. pose proof (far_spec_holds nf s) as FS.
    assert (CK : forall e, code_keep (code s) (code s) /\
                 (forall name, nth_error (code s) (ip s) = Some (OResolve name) ->
                               code_keep (code s) (list_set (code s) (ip s) e))).
    { intros e. split; [apply code_keep_refl|]. intros name Hn. eapply code_keep_resolve; exact Hn. }
    inversion FS; cbn [res_all]; try exact I; try apply frame_rel_refl;
      lazymatch goal with
      | |- context [exec_op nf ?i ?o ?s1] =>
        pose proof (exec_op_frame i o s1) as X; destruct (exec_op nf i o s1);
        cbn [res_all] in *; auto;
        (eapply frame_rel_from; [..|exact X]; try reflexivity;
         cbn [set_code set_meter code];
         first [apply code_keep_refl | eapply (proj2 (CK _)); eassumption])
      | |- _ =>
        eapply frame_rel_from; [..|apply frame_rel_refl]; try reflexivity;
        cbn [set_code set_meter code];
        first [apply code_keep_refl | eapply (proj2 (CK _)); eassumption]
      end.
  Qed.

  Lemma run_frame : forall fuel s,
    match run nf fuel s with Some r => res_all (frame_rel s) r | None => True end.
  Proof.
    induction fuel as [|f IH]; intros s; cbn [run]; [exact I|].
    destruct (is_running s); [|apply frame_rel_refl].
    pose proof (far_frame s) as H.
    destruct (fetch_and_run nf s) as [u s1|k p s1| |]; cbn [res_all] in *; auto.
    specialize (IH s1). destruct (run nf f s1) as [r|]; [|exact I].
    destruct r; cbn [res_all] in *; auto; eapply frame_rel_trans; eauto.
  Qed.
End WithTable.

Theorem run_frame_native : forall fo fuel s,
  match run (native_fn fo) fuel s with Some r => res_all (frame_rel s) r | None => True end.
Proof. intros fo. apply run_frame. apply native_wl. Qed.

(* a prefix without unresolved stubs survives *)
Lemma nth_error_firstn_lt {A} : forall n (l : list A) i, i < n -> nth_error (firstn n l) i = nth_error l i.
Proof.
  induction n as [|n IH]; intros l i H; [lia|].
  destruct l as [|x l]; [destruct i; reflexivity|].
  destruct i as [|i]; cbn [firstn nth_error]; [reflexivity|]. apply IH. lia.
Qed.

Lemma code_keep_prefix p c c' :
  Forall (fun op => is_resolve op = false) p -> prefix_of p c -> code_keep c c' -> prefix_of p c'.
Proof.
  intros Hp Hc [HL HK]. exists (skipn (length p) c').
  rewrite <- (firstn_skipn (length p) c') at 1. f_equal.
  pose proof (prefix_length _ _ Hc) as Hlen.
  apply nth_error_ext_len.
  - rewrite firstn_length. lia.
  - intros i x Hi.
    assert (Hlt : i < length p) by (apply nth_error_Some; congruence).
    rewrite nth_error_firstn_lt by exact Hlt.
    apply HK.
    + rewrite (prefix_nth _ _ _ Hc Hlt). exact Hi.
    + rewrite Forall_forall in Hp. apply Hp. eapply nth_error_In. exact Hi.
Qed.

(* a prefix kept up to the resolution of [late] stubs *)
Definition kprefix (p l : list opcode) : Prop := exists c' e, l = c' ++ e /\ code_keep p c'.

Lemma kprefix_refl p : kprefix p p.
Proof. exists p, []. split; [rewrite app_nil_r; reflexivity|apply code_keep_refl]. Qed.

Lemma kprefix_length p l : kprefix p l -> length p <= length l.
Proof. intros (c' & e & -> & [HL _]). rewrite app_length. lia. Qed.

Lemma kprefix_app p l x : kprefix p l -> kprefix p (l ++ x).
Proof. intros (c' & e & -> & H). exists c', (e ++ x). split; [rewrite app_assoc; reflexivity|exact H]. Qed.

Lemma kprefix_list_set p l i v : kprefix p l -> length p <= i -> kprefix p (list_set l i v).
Proof.
  intros (c' & e & -> & H) Hi. destruct H as [HL HK].
  rewrite list_set_app_r by lia. exists c', (list_set e (i - length c') v). split; [reflexivity|split; assumption].
Qed.

Lemma kprefix_firstn p l n : kprefix p l -> length p <= n -> kprefix p (firstn n l).
Proof.
  intros (c' & e & -> & H) Hn. destruct H as [HL HK].
  rewrite firstn_app, firstn_all2 by lia. exists c', (firstn (n - length c') e). split; [reflexivity|split; assumption].
Qed.

Lemma kprefix_firstn_keep p l : kprefix p l -> code_keep p (firstn (length p) l).
Proof.
  intros (c' & e & -> & H). destruct H as [HL HK].
  rewrite <- HL. rewrite firstn_app, Nat.sub_diag, firstn_all. cbn [firstn]. rewrite app_nil_r.
  split; assumption.
Qed.

Lemma code_keep_kprefix p c c2 : kprefix p c -> code_keep c c2 -> kprefix p c2.
Proof.
  intros (c' & e & -> & [HL HK]) [HL2 HK2]. rewrite app_length in HL2.
  exists (firstn (length c') c2), (skipn (length c') c2). split; [symmetry; apply firstn_skipn|].
  split.
  - rewrite firstn_length. lia.
  - intros i op Hi Hr.
    assert (Hlt : i < length c') by (rewrite HL; apply nth_error_Some; congruence).
    rewrite nth_error_firstn_lt by exact Hlt.
    apply HK2; [|exact Hr]. rewrite nth_error_app1 by exact Hlt. apply HK; assumption.
Qed.

Lemma code_keep_eq p c : Forall (fun op => is_resolve op = false) p -> code_keep p c -> c = p.
Proof.
  intros Hp [HL HK]. apply nth_error_ext_len; [exact HL|].
  intros i x Hi. apply HK; [exact Hi|]. rewrite Forall_forall in Hp. apply Hp. eapply nth_error_In. exact Hi.
Qed.

Lemma kprefix_prefix p l : Forall (fun op => is_resolve op = false) p -> kprefix p l -> prefix_of p l.
Proof. intros Hp (c' & e & -> & H). rewrite (code_keep_eq p c' Hp H). exists e. reflexivity. Qed.
