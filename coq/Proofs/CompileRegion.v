(* CompileRegion.v: a machine-side invariant: the code of begin ... repeat whose body has no
   `break` of its own is a closed region: every jump of the layout stays inside it, so the
   machine, once inside, is inside whenever the return stack is back at the depth it had on
   entry - it never falls through to the cell behind the loop. (Calls leave the region and
   come back; recursive activations may be anywhere, at a greater depth.) *)
From Xeh Require Import Model.Prelude Model.Bits Model.Codec Model.Cell Model.Lexer Model.Fmt
                        Model.Vm Model.Words Model.Struct
                        Proofs.VmFrame Proofs.VmStep Proofs.CompileSim Proofs.CompileLayout Proofs.CompileStep
                        Proofs.CompileEval.
Local Notation length := List.length.

#[local] Arguments Z.add : simpl never.
#[local] Arguments Z.sub : simpl never.
#[local] Arguments Z.mul : simpl never.
#[local] Arguments Z.ltb : simpl never.
#[local] Arguments Z.leb : simpl never.
#[local] Arguments Z.eqb : simpl never.
#[local] Arguments Z.of_nat : simpl never.
#[local] Arguments Z.to_nat : simpl never.

Definition in_rng (lo hi p : nat) : Prop := lo <= p <= hi.

(* where the instruction [op] at [p] can continue (for a call: where it returns to) *)
Definition next_ok (lo hi p : nat) (op : opcode) : Prop :=
  match op with
  | ORet => False
  | OResolve _ => False
  | OJump rel => in_rng lo hi (jump_target p rel)
  | OBreak rel => in_rng lo hi (jump_target p rel)
  | OJumpIf rel | OJumpIfNot rel | ODo rel | OLoop rel | OCaseOf rel =>
    in_rng lo hi (S p) /\ in_rng lo hi (jump_target p rel)
  | _ => in_rng lo hi (S p)
  end.

Definition all_ok (lo hi org : nat) (L : list opcode) : Prop :=
  forall i op, nth_error L i = Some op -> next_ok lo hi (org + i) op.

Lemma all_ok_nil : forall lo hi org, all_ok lo hi org [].
Proof. intros lo hi org i op H. destruct i; discriminate. Qed.

Lemma all_ok_cons : forall lo hi org x L,
  next_ok lo hi org x -> all_ok lo hi (S org) L -> all_ok lo hi org (x :: L).
Proof.
  intros lo hi org x L H0 H1 i op Hi. destruct i as [|i].
  - cbn in Hi. injection Hi as <-. rewrite Nat.add_0_r. exact H0.
  - rewrite Nat.add_succ_r. apply (H1 i op Hi).
Qed.

Lemma all_ok_app : forall lo hi org a b,
  all_ok lo hi org a -> all_ok lo hi (org + length a) b -> all_ok lo hi org (a ++ b).
Proof.
  intros lo hi org a b Ha Hb i op Hi. destruct (Nat.lt_ge_cases i (length a)) as [Hlt|Hge].
  - rewrite nth_error_app1 in Hi by exact Hlt. apply Ha. exact Hi.
  - rewrite nth_error_app2 in Hi by exact Hge. specialize (Hb _ _ Hi).
    replace (org + i) with (org + length a + (i - length a)) by lia. exact Hb.
Qed.

Lemma all_ok_one : forall lo hi org x, next_ok lo hi org x -> all_ok lo hi org [x].
Proof. intros. apply all_ok_cons; [assumption|apply all_ok_nil]. Qed.

Definition bc_fine (lo hi : nat) (bc : brk_ctx) : Prop :=
  match bc with
  | BNone => True
  | BJump t => in_rng lo hi t
  | BLoop t => in_rng lo hi t
  end.

Section Closed.
  Variable faddr : nat -> nat.

  Definition Pc (x : stmt) : Prop :=
    forall org bc lo hi, lo <= org -> org + size_stmt x <= hi -> (nb_s x \/ bc_fine lo hi bc) ->
                         all_ok lo hi org (lay_stmt faddr x org bc).
  Definition Qc (l : list stmt) : Prop :=
    forall org bc lo hi, lo <= org -> org + size_block l <= hi -> (nb_b l \/ bc_fine lo hi bc) ->
                         all_ok lo hi org (lay_block faddr l org bc).
  Definition Rc (arms : list arm) : Prop :=
    forall d bc endp o lo hi, Qc d -> lo <= o -> o + size_arms arms + size_block d <= hi ->
                              in_rng lo hi endp ->
                              ((nb_a arms /\ nb_b d) \/ bc_fine lo hi bc) ->
                              all_ok lo hi o (lay_arms faddr bc endp arms d o).

  Ltac one_cell :=
    let org := fresh "org" in let bc := fresh "bc" in let lo := fresh "lo" in let hi := fresh "hi" in
    intros ? ? org bc lo hi ? ? ?; cbn [lay_stmt size_stmt] in *; apply all_ok_one; cbn [next_ok]; unfold in_rng; lia.

  Lemma closed_all : forall x, Pc x.
  Proof.
    apply (stmt_ind2 Pc Qc Rc).
    - intros org bc lo hi _ _ _. apply all_ok_nil.
    - intros x r Hx Hr org bc lo hi H1 H2 H3. cbn [lay_block size_block] in *.
      apply all_ok_app.
      + apply Hx; [lia|lia|]. destruct H3 as [H3|H3]; [left; inversion H3; assumption|right; assumption].
      + rewrite lay_stmt_length. apply Hr; [lia|lia|].
        destruct H3 as [H3|H3]; [left; inversion H3; assumption|right; assumption].
    - intros d bc endp o lo hi Hd H1 H2 H3 H4. cbn [lay_arms size_arms] in *.
      apply Hd; [lia|lia|]. destruct H4 as [[_ H4]|H4]; [left|right]; assumption.
    - intros pre p body r Hpre Hbody Hr d bc endp o lo hi Hd H1 H2 H3 H4.
      cbn [lay_arms size_arms] in *. cbv zeta.
      assert (Bpre : nb_b pre \/ bc_fine lo hi bc)
        by (destruct H4 as [[H4 _]|H4]; [left; inversion H4; assumption|right; assumption]).
      assert (Bbody : nb_b body \/ bc_fine lo hi bc)
        by (destruct H4 as [[H4 _]|H4]; [left; inversion H4; assumption|right; assumption]).
      assert (Br : (nb_a r /\ nb_b d) \/ bc_fine lo hi bc)
        by (destruct H4 as [[H4 H5]|H4]; [left; split; [inversion H4; assumption|assumption]|right; assumption]).
      apply all_ok_app; [apply Hpre; [lia|lia|exact Bpre]|]. rewrite lay_block_length.
      apply all_ok_app.
      + apply all_ok_cons.
        * cbn [next_ok]. rewrite jt_fwd. unfold in_rng. lia.
        * apply Hbody; [lia|lia|exact Bbody].
      + cbn [length]. rewrite lay_block_length. apply all_ok_cons.
        * cbn [next_ok]. replace (o + size_block pre + S (size_block body)) with (S (o + size_block pre) + size_block body) by lia.
          rewrite jt_rel. exact H3.
        * replace (S (o + size_block pre + S (size_block body))) with (S (S (o + size_block pre) + size_block body)) by lia.
          apply Hr; [exact Hd|lia|lia|exact H3|exact Br].
    - intros c p org bc lo hi H1 H2 H3. cbn [lay_stmt]. apply all_ok_one.
      change (size_stmt (SLit c p)) with 1 in H2.
      destruct c; cbn [load_value_opcode next_ok]; try (unfold in_rng; lia).
      destruct (in_i64 z); cbn [next_ok]; unfold in_rng; lia.
    - one_cell.
    - one_cell.
    - one_cell.
    - one_cell.
    - one_cell.
    - one_cell.
    - intros p t Ht org bc lo hi H1 H2 H3. rewrite lay_SIf. rewrite size_SIf in H2.
      apply all_ok_cons.
      + cbn [next_ok]. rewrite jt_fwd. unfold in_rng. lia.
      + apply Ht; [lia|lia|]. destruct H3 as [H3|H3]; [left; inversion H3; assumption|right; assumption].
    - intros p t e Ht He org bc lo hi H1 H2 H3. rewrite lay_SIfE. rewrite size_SIfE in H2.
      apply all_ok_app.
      + apply all_ok_cons.
        * cbn [next_ok]. rewrite jt_fwd. unfold in_rng. lia.
        * apply Ht; [lia|lia|]. destruct H3 as [H3|H3]; [left; inversion H3; assumption|right; assumption].
      + cbn [length]. rewrite lay_block_length. apply all_ok_cons.
        * cbn [next_ok]. rewrite jt_fwd. unfold in_rng. lia.
        * replace (S (org + S (size_block t))) with (org + 2 + size_block t) by lia.
          apply He; [lia|lia|]. destruct H3 as [H3|H3]; [left; inversion H3; assumption|right; assumption].
    - intros arms d Ha Hd org bc lo hi H1 H2 H3. rewrite lay_SCase. rewrite size_SCase in *.
      apply Ha; [exact Hd|lia|lia|unfold in_rng; lia|].
      destruct H3 as [H3|H3]; [left; inversion H3; split; assumption|right; assumption].
    - intros b p Hb org bc lo hi H1 H2 H3. rewrite lay_SUntil. rewrite size_SUntil in H2.
      apply all_ok_app.
      + apply Hb; [lia|lia|right; exact Logic.I].
      + rewrite lay_block_length. apply all_ok_one. cbn [next_ok]. rewrite jt_back by lia. unfold in_rng. lia.
    - intros b Hb org bc lo hi H1 H2 H3. rewrite lay_SRepeat. rewrite size_SRepeat in H2.
      apply all_ok_app.
      + apply Hb; [lia|lia|right; cbn [bc_fine]; unfold in_rng; lia].
      + rewrite lay_block_length. apply all_ok_one. cbn [next_ok]. rewrite jt_back by lia. unfold in_rng. lia.
    - intros c p b Hc Hb org bc lo hi H1 H2 H3. rewrite lay_SWhile. cbv zeta. rewrite size_SWhile in H2.
      apply all_ok_app; [apply Hc; [lia|lia|right; cbn [bc_fine]; unfold in_rng; lia]|].
      rewrite lay_block_length. apply all_ok_app.
      + apply all_ok_cons.
        * cbn [next_ok]. rewrite jt_fwd. unfold in_rng. lia.
        * replace (S (org + size_block c)) with (org + size_block c + 1) by lia.
          apply Hb; [lia|lia|right; cbn [bc_fine]; unfold in_rng; lia].
      + cbn [length]. rewrite lay_block_length. apply all_ok_one. cbn [next_ok].
        rewrite jt_back by lia. unfold in_rng. lia.
    - intros p b pl Hb org bc lo hi H1 H2 H3. rewrite lay_SDo. rewrite size_SDo in H2.
      apply all_ok_app.
      + apply all_ok_cons.
        * cbn [next_ok]. rewrite jt_fwd. unfold in_rng. lia.
        * apply Hb; [lia|lia|right; cbn [bc_fine]; unfold in_rng; lia].
      + cbn [length]. rewrite lay_block_length. apply all_ok_one. cbn [next_ok].
        rewrite jt_back by lia. unfold in_rng. lia.
    - intros org bc lo hi H1 H2 H3. rewrite lay_SBreak. apply all_ok_one.
      change (size_stmt SBreak) with 1 in H2.
      destruct H3 as [H3|H3]; [inversion H3|].
      destruct bc; cbn [brk_op next_ok bc_fine] in *.
      + unfold in_rng. lia.
      + rewrite jt_rel. exact H3.
      + rewrite jt_rel. exact H3.
    - intros g org bc lo hi _ _ _. cbn [lay_stmt]. apply all_ok_nil.
  Qed.

  Lemma closed_block : forall l, Qc l.
  Proof.
    induction l as [|x r IH]; intros org bc lo hi H1 H2 H3.
    - apply all_ok_nil.
    - cbn [lay_block size_block] in *. apply all_ok_app.
      + apply closed_all; [lia|lia|]. destruct H3 as [H3|H3]; [left; inversion H3; assumption|right; assumption].
      + rewrite lay_stmt_length. apply IH; [lia|lia|].
        destruct H3 as [H3|H3]; [left; inversion H3; assumption|right; assumption].
  Qed.

  (* the code of a break-free begin ... repeat, cells org .. org + |b|, is closed *)
  Lemma repeat_closed : forall b org bc, nb_b b ->
    all_ok org (org + size_block b) org (lay_stmt faddr (SRepeat b) org bc).
  Proof.
    intros b org bc N. rewrite lay_SRepeat. apply all_ok_app.
    - apply closed_block; [lia|lia|left; exact N].
    - rewrite lay_block_length. apply all_ok_one. cbn [next_ok]. rewrite jt_back by lia. unfold in_rng. lia.
  Qed.
End Closed.

(* ---------- what one instruction does to ip, the return stack and the code ---------- *)
Definition succ (op : opcode) (p q : nat) : Prop :=
  match op with
  | OJump rel => q = jump_target p rel
  | OBreak rel => q = jump_target p rel
  | OJumpIf rel | OJumpIfNot rel | ODo rel | OLoop rel | OCaseOf rel => q = S p \/ q = jump_target p rel
  | _ => q = S p
  end.

Definition eff (op : opcode) (p : nat) (s1 s' : state) : Prop :=
  code s' = code s1 /\ rlog s' = None /\
  match op with
  | OCall a => rs s' = mkframe a (S p) [] :: rs s1 /\ ip s' = a
  | ORet => exists f, rs s1 = f :: rs s' /\ ip s' = return_to f
  | OResolve _ => False
  | _ => map fkey (rs s') = map fkey (rs s1) /\ succ op p (ip s')
  end.

Section Machine.
  Variable nf : natives.
  Hypothesis nf_par : forall w f, nf w = Some f -> par f.

  Lemma par_self : forall A (m : M A) s a s', par m -> rlog s = None -> m s = ROk a s' -> keep s s'.
  Proof.
    intros A m s a s' Hp Hl E. specialize (Hp s s (sim_refl s) Hl). rewrite E in Hp. cbn [rrel] in Hp. tauto.
  Qed.

  Lemma bind_par_inv : forall A (m : M A) (K : A -> M unit) s1 s',
    par m -> rlog s1 = None -> bind m K s1 = ROk tt s' ->
    exists a s2, keep s1 s2 /\ rlog s2 = None /\ K a s2 = ROk tt s'.
  Proof.
    intros A m K s1 s' Hp Hl H. unfold bind in H. destruct (m s1) as [a s2|? ? ?| |] eqn:E; try discriminate.
    exists a, s2. pose proof (par_self _ m s1 a s2 Hp Hl E) as Kp.
    split; [exact Kp|]. split; [eapply keep_rlog; eauto|exact H].
  Qed.

  (* the part of [eff] common to the instructions that neither call nor return *)
  Definition stay (s1 s' : state) (q : nat) : Prop :=
    code s' = code s1 /\ rlog s' = None /\ map fkey (rs s') = map fkey (rs s1) /\ ip s' = q.

  Lemma fin_set_ip : forall s1 s2 s' n, keep s1 s2 -> rlog s2 = None -> set_ip n s2 = ROk tt s' -> stay s1 s' n.
  Proof.
    intros s1 s2 s' n (K1&K2&K3&K4&K5&K6) Hl H. rewrite set_ip_off in H by exact Hl. injection H as <-.
    split; [exact K3|]. split; [exact Hl|]. split; [exact K6|reflexivity].
  Qed.

  Lemma fin_next_ip : forall s1 s2 s', keep s1 s2 -> rlog s2 = None -> next_ip s2 = ROk tt s' -> stay s1 s' (S (ip s1)).
  Proof.
    intros s1 s2 s' (K1&K2&K3&K4&K5&K6) Hl H. rewrite next_ip_off in H by exact Hl. injection H as <-.
    split; [exact K3|]. split; [exact Hl|]. split; [exact K6|]. rewrite <- K1. reflexivity.
  Qed.

  Lemma par_m_cond : forall c, par (m_cond c).
  Proof. intro c. par_solve. Qed.

  Ltac bpi H Hl :=
    let a := fresh "a" in let s2 := fresh "s2" in let K := fresh "K" in let Hl2 := fresh "Hl" in
    apply bind_par_inv in H; [destruct H as (a & s2 & K & Hl2 & H)| |exact Hl].

  Lemma exec_eff : forall p op s1 s',
    rlog s1 = None -> ip s1 = p -> exec_op nf p op s1 = ROk tt s' -> eff op p s1 s'.
  Proof.
    intros p op s1 s' Hl Hip H.
    assert (ST : forall q, stay s1 s' q -> code s' = code s1 /\ rlog s' = None /\
                                           (map fkey (rs s') = map fkey (rs s1) /\ ip s' = q)).
    { intros q (A1&A2&A3&A4). auto. }
    destruct op; cbn [exec_op] in H; unfold eff; cbn [succ].
    - (* ONop *) pose proof (fin_next_ip s1 s1 s' (keep_refl s1) Hl H) as S1. rewrite Hip in S1.
      destruct S1 as (A1&A2&A3&A4). auto.
    - (* OCall *) unfold bind, push_return in H. rewrite add_rstep_off in H by exact Hl.
      rewrite set_ip_off in H by exact Hl. injection H as <-. repeat split; exact Hl.
    - discriminate.
    - (* ONative *) destruct (nf w) as [f|] eqn:E; [|discriminate].
      apply bind_par_inv in H; [|eapply nf_par; exact E|exact Hl].
      destruct H as (a & s2 & K & Hl2 & H).
      pose proof (fin_next_ip s1 s2 s' K Hl2 H) as S1. rewrite Hip in S1. destruct S1 as (A1&A2&A3&A4). auto.
    - (* ORet *) unfold bind, pop_return in H. destruct (rs s1) as [|f r] eqn:Er; [discriminate|].
      destruct (rs_len (cx s1) <? length (f :: r)); [|discriminate].
      rewrite add_rstep_off in H by exact Hl. rewrite set_ip_off in H by exact Hl. injection H as <-.
      split; [reflexivity|]. split; [exact Hl|]. exists f. split; reflexivity.
    - (* OJumpIf *) apply bind_par_inv in H; [|apply par_pop_data|exact Hl].
      destruct H as (a & s2 & K & Hl2 & H).
      apply bind_par_inv in H; [|apply par_m_cond|exact Hl2].
      destruct H as (b & s3 & K3 & Hl3 & H). pose proof (keep_trans _ _ _ K K3) as K13.
      destruct b.
      + destruct (fin_set_ip s1 s3 s' _ K13 Hl3 H) as (A1&A2&A3&A4). auto.
      + pose proof (fin_next_ip s1 s3 s' K13 Hl3 H) as S1. rewrite Hip in S1. destruct S1 as (A1&A2&A3&A4). auto.
    - (* OJumpIfNot *) apply bind_par_inv in H; [|apply par_pop_data|exact Hl].
      destruct H as (a & s2 & K & Hl2 & H).
      apply bind_par_inv in H; [|apply par_m_cond|exact Hl2].
      destruct H as (b & s3 & K3 & Hl3 & H). pose proof (keep_trans _ _ _ K K3) as K13.
      destruct b; cbn [negb] in H.
      + pose proof (fin_next_ip s1 s3 s' K13 Hl3 H) as S1. rewrite Hip in S1. destruct S1 as (A1&A2&A3&A4). auto.
      + destruct (fin_set_ip s1 s3 s' _ K13 Hl3 H) as (A1&A2&A3&A4). auto.
    - (* OJump *) destruct (fin_set_ip s1 s1 s' _ (keep_refl s1) Hl H) as (A1&A2&A3&A4). auto.
    - (* ODo *) apply bind_par_inv in H; [|apply par_do_init|exact Hl].
      destruct H as (l & s2 & K & Hl2 & H).
      destruct (l_end l <=? l_start l)%Z.
      + destruct (fin_set_ip s1 s2 s' _ K Hl2 H) as (A1&A2&A3&A4). auto.
      + apply bind_par_inv in H; [|apply par_push_loop|exact Hl2].
        destruct H as (u & s3 & K3 & Hl3 & H). pose proof (keep_trans _ _ _ K K3) as K13.
        pose proof (fin_next_ip s1 s3 s' K13 Hl3 H) as S1. rewrite Hip in S1. destruct S1 as (A1&A2&A3&A4). auto.
    - (* OBreak *) apply bind_par_inv in H; [|apply par_pop_loop|exact Hl].
      destruct H as (l & s2 & K & Hl2 & H).
      destruct (fin_set_ip s1 s2 s' _ K Hl2 H) as (A1&A2&A3&A4). auto.
    - (* OLoop *) apply bind_par_inv in H; [|apply par_loop_next|exact Hl].
      destruct H as (more & s2 & K & Hl2 & H). destruct more.
      + destruct (fin_set_ip s1 s2 s' _ K Hl2 H) as (A1&A2&A3&A4). auto.
      + apply bind_par_inv in H; [|apply par_pop_loop|exact Hl2].
        destruct H as (u & s3 & K3 & Hl3 & H). pose proof (keep_trans _ _ _ K K3) as K13.
        pose proof (fin_next_ip s1 s3 s' K13 Hl3 H) as S1. rewrite Hip in S1. destruct S1 as (A1&A2&A3&A4). auto.
    - (* OCaseOf *) apply bind_par_inv in H; [|apply par_pop_data|exact Hl].
      destruct H as (a & s2 & K & Hl2 & H).
      apply bind_par_inv in H; [|apply par_top_data|exact Hl2].
      destruct H as (b & s3 & K3 & Hl3 & H). pose proof (keep_trans _ _ _ K K3) as K13.
      destruct (cell_eqb a b).
      + apply bind_par_inv in H; [|apply par_pop_data|exact Hl3].
        destruct H as (u & s4 & K4 & Hl4 & H). pose proof (keep_trans _ _ _ K13 K4) as K14.
        pose proof (fin_next_ip s1 s4 s' K14 Hl4 H) as S1. rewrite Hip in S1. destruct S1 as (A1&A2&A3&A4). auto.
      + destruct (fin_set_ip s1 s3 s' _ K13 Hl3 H) as (A1&A2&A3&A4). auto.
    - (* OLoad *) change (exec_op nf p (OLoad a) s1 = ROk tt s') in H. rewrite exec_load in H.
      apply bind_par_inv in H; [|apply par_load|exact Hl].
      destruct H as (a0 & s2 & K & Hl2 & H).
      pose proof (fin_next_ip s1 s2 s' K Hl2 H) as S1. rewrite Hip in S1. destruct S1 as (A1&A2&A3&A4). auto.
    - (* OLoadNil *) apply bind_par_inv in H; [|apply par_push_data|exact Hl].
      destruct H as (a0 & s2 & K & Hl2 & H).
      pose proof (fin_next_ip s1 s2 s' K Hl2 H) as S1. rewrite Hip in S1. destruct S1 as (A1&A2&A3&A4). auto.
    - apply bind_par_inv in H; [|apply par_push_data|exact Hl].
      destruct H as (a0 & s2 & K & Hl2 & H).
      pose proof (fin_next_ip s1 s2 s' K Hl2 H) as S1. rewrite Hip in S1. destruct S1 as (A1&A2&A3&A4). auto.
    - apply bind_par_inv in H; [|apply par_push_data|exact Hl].
      destruct H as (a0 & s2 & K & Hl2 & H).
      pose proof (fin_next_ip s1 s2 s' K Hl2 H) as S1. rewrite Hip in S1. destruct S1 as (A1&A2&A3&A4). auto.
    - apply bind_par_inv in H; [|apply par_push_data|exact Hl].
      destruct H as (a0 & s2 & K & Hl2 & H).
      pose proof (fin_next_ip s1 s2 s' K Hl2 H) as S1. rewrite Hip in S1. destruct S1 as (A1&A2&A3&A4). auto.
    - apply bind_par_inv in H; [|apply par_push_data|exact Hl].
      destruct H as (a0 & s2 & K & Hl2 & H).
      pose proof (fin_next_ip s1 s2 s' K Hl2 H) as S1. rewrite Hip in S1. destruct S1 as (A1&A2&A3&A4). auto.
    - (* OStore *) change (exec_op nf p (OStore a) s1 = ROk tt s') in H. rewrite exec_store in H.
      apply bind_par_inv in H; [|apply par_store|exact Hl].
      destruct H as (a0 & s2 & K & Hl2 & H).
      pose proof (fin_next_ip s1 s2 s' K Hl2 H) as S1. rewrite Hip in S1. destruct S1 as (A1&A2&A3&A4). auto.
    - (* OInitLocal *) change (exec_op nf p (OInitLocal i) s1 = ROk tt s') in H. rewrite exec_initlocal in H.
      apply bind_par_inv in H; [|apply par_initlocal|exact Hl].
      destruct H as (a0 & s2 & K & Hl2 & H).
      pose proof (fin_next_ip s1 s2 s' K Hl2 H) as S1. rewrite Hip in S1. destruct S1 as (A1&A2&A3&A4). auto.
    - (* OLoadLocal *) change (exec_op nf p (OLoadLocal i) s1 = ROk tt s') in H. rewrite exec_loadlocal in H.
      apply bind_par_inv in H; [|apply par_m_loadlocal|exact Hl].
      destruct H as (a0 & s2 & K & Hl2 & H).
      pose proof (fin_next_ip s1 s2 s' K Hl2 H) as S1. rewrite Hip in S1. destruct S1 as (A1&A2&A3&A4). auto.
  Qed.
End Machine.

(* the return address at the bottom of a stack of frames *)
Fixpoint bot (l : list frame) : option nat :=
  match l with
  | [] => None
  | f :: r => match r with [] => Some (return_to f) | _ => bot r end
  end.

Lemma bot_none : forall l, bot l = None -> l = [].
Proof.
  induction l as [|f r IH]; intro H; [reflexivity|]. cbn [bot] in H.
  destruct r; [discriminate|]. specialize (IH H). discriminate.
Qed.

Lemma bot_cons_ne : forall f r, r <> [] -> bot (f :: r) = bot r.
Proof. intros f r H. destruct r; [contradiction|reflexivity]. Qed.

Lemma bot_keys : forall a b, map fkey a = map fkey b -> bot a = bot b.
Proof.
  induction a as [|f ra IH]; intros b H; destruct b as [|g rb]; try discriminate; [reflexivity|].
  cbn [map] in H. injection H as H1 H2 H3.
  destruct ra as [|f2 ra], rb as [|g2 rb]; try discriminate.
  - cbn [bot]. congruence.
  - change (bot (f2 :: ra) = bot (g2 :: rb)). apply IH. exact H3.
Qed.

Lemma succ_in : forall lo hi op p q, next_ok lo hi p op -> succ op p q -> in_rng lo hi q.
Proof.
  intros lo hi op p q Hn Hs. destruct op; cbn [next_ok succ] in *; try contradiction; subst; try assumption;
    destruct Hn as [Hn1 Hn2]; destruct Hs as [->| ->]; assumption.
Qed.

Section Invariant.
  Variable nf : natives.
  Hypothesis nf_par : forall w f, nf w = Some f -> par f.
  Variables (lo hi org d0 : nat) (L : list opcode).
  Hypothesis HL : all_ok lo hi org L.
  Hypothesis Hcover : forall p, in_rng lo hi p -> org <= p /\ exists op, nth_error L (p - org) = Some op.

  Lemma fetch_eff : forall s s', rlog s = None -> fetch_and_run nf s = ROk tt s' ->
    exists op s1,
      ((code s1 = code s /\ nth_error (code s) (ip s) = Some op) \/
       (exists name, nth_error (code s) (ip s) = Some (OResolve name) /\
                     code s1 = list_set (code s) (ip s) op)) /\
      rs s1 = rs s /\ eff op (ip s) s1 s'.
  Proof.
    intros s s' Hl H. pose proof (far_spec_holds nf s) as FS. rewrite H in FS.
    inversion FS as [| |op Hm Hn Hr Hx| | |name e Hm Hn Hd Hm2 Hx].
    - exists op, (set_meter s (meter s + 1)%Z). split; [left; split; [reflexivity|exact Hn]|].
      split; [reflexivity|]. apply (exec_eff nf nf_par); [exact Hl|reflexivity|exact Hx].
    - exists (resolve_op e),
             (set_meter (set_code (set_meter s (meter s + 1)%Z) (list_set (code s) (ip s) (resolve_op e)))
                        (meter s + 1 + 1)%Z).
      split; [right; exists name; split; [exact Hn|reflexivity]|].
      split; [reflexivity|]. apply (exec_eff nf nf_par); [exact Hl|reflexivity|exact Hx].
  Qed.

  Definition Inv (s : state) : Prop :=
    rlog s = None /\ code_at (code s) org L /\
    exists new old, rs s = new ++ old /\ length old = d0 /\
      match bot new with
      | None => in_rng lo hi (ip s)
      | Some r => in_rng lo hi r
      end.

  Lemma region_op : forall s p, code_at (code s) org L -> in_rng lo hi p ->
    exists op, nth_error (code s) p = Some op /\ next_ok lo hi p op.
  Proof.
    intros s p Hc Hp. destruct (Hcover p Hp) as (Hge & op & Hop). exists op.
    replace p with (org + (p - org)) by lia. split; [apply Hc; exact Hop|apply HL; exact Hop].
  Qed.

  Lemma inv_step : forall s s', Inv s -> fetch_and_run nf s = ROk tt s' -> Inv s'.
  Proof.
    intros s s' (Hl & Hc & new & old & Hrs & Hlen & Hb) H.
    destruct (fetch_eff s s' Hl H) as (op & s1 & Hcode & Hrs1 & (E1 & E2 & E3)).
    rewrite Hrs1 in E3.
    split; [exact E2|]. split.
    - (* the region is intact *)
      rewrite E1. destruct Hcode as [[-> _]|(name & Hn & ->)]; [exact Hc|].
      intros i opL Hi. pose proof (Hc i opL Hi) as Hci.
      destruct (Nat.eq_dec (ip s) (org + i)) as [E|E].
      + rewrite <- E in Hci. rewrite Hn in Hci. injection Hci as <-.
        pose proof (HL i _ Hi) as F. exact (match F with end).
      + rewrite nth_list_set_other by exact E. exact Hci.
    - destruct (bot new) as [r|] eqn:Eb.
      + (* a deeper activation *)
        assert (Hne : new <> []) by (intro E; subst new; discriminate).
        destruct op; try (
          destruct E3 as [Em Es]; rewrite Hrs, map_app in Em;
          apply map_eq_app in Em; destruct Em as (n' & o' & Hs' & Hn' & Ho');
          exists n', o'; split; [exact Hs'|]; split;
          [ apply (f_equal (@length _)) in Ho'; rewrite !map_length in Ho'; congruence
          | rewrite (bot_keys _ _ Hn'), Eb; exact Hb ]).
        * destruct E3 as [Er Ei]. exists (mkframe a (S (ip s)) [] :: new), old.
          split; [rewrite Er, Hrs; reflexivity|]. split; [exact Hlen|].
          rewrite bot_cons_ne by exact Hne. rewrite Eb. exact Hb.
        * contradiction.
        * destruct E3 as (f & Er & Ei). destruct new as [|f1 new1]; [contradiction|].
          rewrite Hrs in Er. cbn [app] in Er. injection Er as <- Er.
          exists new1, old. split; [symmetry; exact Er|]. split; [exact Hlen|].
          cbn [bot] in Eb. destruct new1 as [|f2 new1].
          -- injection Eb as <-. cbn [bot]. rewrite Ei. exact Hb.
          -- change (bot (f2 :: new1) = Some r) in Eb. rewrite Eb. exact Hb.
      + (* the activation that entered the region *)
        apply bot_none in Eb. subst new. cbn [app] in Hrs.
        destruct (region_op s (ip s) Hc Hb) as (opL & HopL & Hnext).
        assert (Hop : op = opL).
        { destruct Hcode as [[_ Hn]|(name & Hn & _)]; [congruence|].
          rewrite Hn in HopL. injection HopL as <-. contradiction. }
        subst opL.
        destruct op; try (
          destruct E3 as [Em Es]; exists [], (rs s'); split; [reflexivity|]; split;
          [ apply (f_equal (@length _)) in Em; rewrite !map_length in Em; congruence
          | cbn [bot]; eapply succ_in; [exact Hnext|exact Es] ]).
        * destruct E3 as [Er Ei]. exists [mkframe a (S (ip s)) []], old.
          split; [rewrite Er, Hrs; reflexivity|]. split; [exact Hlen|]. cbn [bot return_to]. exact Hnext.
        * contradiction.
        * contradiction.
  Qed.

  Lemma inv_steps : forall n s sn, Inv s -> steps nf n s = Some sn -> Inv sn.
  Proof.
    induction n as [|n IH]; intros s sn HI H; cbn [steps] in H.
    - injection H as <-. exact HI.
    - destruct (fetch_and_run nf s) as [[] s1| | |] eqn:E; try discriminate.
      eapply IH; [eapply inv_step; eauto|exact H].
  Qed.

  Lemma inv_depth : forall s, Inv s -> length (rs s) = d0 -> in_rng lo hi (ip s).
  Proof.
    intros s (_ & _ & new & old & Hrs & Hlen & Hb) Hd. rewrite Hrs, app_length in Hd.
    destruct new; [exact Hb|cbn [length] in Hd; lia].
  Qed.
End Invariant.

(* begin ... repeat without a break of its own: the machine never reaches the cell behind it
   in the activation that entered the loop *)
Theorem repeat_never_exits : forall nf faddr b org bc s,
  (forall w f, nf w = Some f -> par f) ->
  nb_b b ->
  code_at (code s) org (lay_stmt faddr (SRepeat b) org bc) ->
  rlog s = None -> org <= ip s <= org + size_block b ->
  forall n sn, steps nf n s = Some sn -> length (rs sn) = length (rs s) ->
               org <= ip sn <= org + size_block b.
Proof.
  intros nf faddr b org bc s Hnf N C Hl Hip n sn Hn Hd.
  pose proof (repeat_closed faddr b org bc N) as HL.
  assert (Hcover : forall p, in_rng org (org + size_block b) p ->
                             org <= p /\ exists op, nth_error (lay_stmt faddr (SRepeat b) org bc) (p - org) = Some op).
  { intros p [Hp1 Hp2]. split; [exact Hp1|].
    destruct (nth_error (lay_stmt faddr (SRepeat b) org bc) (p - org)) as [op|] eqn:E; [eauto|].
    apply nth_error_None in E. rewrite lay_stmt_length, size_SRepeat in E. lia. }
  assert (HI : Inv org (org + size_block b) org (length (rs s)) (lay_stmt faddr (SRepeat b) org bc) s).
  { split; [exact Hl|]. split; [exact C|]. exists [], (rs s). split; [reflexivity|]. split; [reflexivity|exact Hip]. }
  pose proof (inv_steps nf Hnf _ _ _ _ _ HL Hcover n s sn HI Hn) as HIn.
  eapply inv_depth; eassumption.
Qed.
