(* CompileBwdFwd.v: the forward simulation once more, construct by construct, for the
   strengthened predicate [okq] (CompileBwdStep.v): every intermediate machine state is inside
   the region of the tree, an evaluator that runs out of fuel corresponds to a machine that
   makes many steps inside, and an evaluator that answers [SUnsup] to a machine that gets stuck.
   Part 1: blocks, one-cell statements, calls, if / if-else, begin-until, begin-repeat,
   begin-while-repeat.  The proofs follow CompileFwd.v step by step. *)
From Xeh Require Import Model.Prelude Model.Bits Model.Codec Model.Cell Model.Lexer Model.Fmt
                        Model.Vm Model.Words Model.Struct
                        Proofs.VmFrame Proofs.CompileSim Proofs.CompileLayout Proofs.CompileStep
                        Proofs.CompileEval Proofs.CompileFwd Proofs.CompileBwdStep.
Local Notation length := List.length.

#[local] Arguments Z.add : simpl never.
#[local] Arguments Z.sub : simpl never.
#[local] Arguments Z.mul : simpl never.
#[local] Arguments Z.ltb : simpl never.
#[local] Arguments Z.leb : simpl never.
#[local] Arguments Z.eqb : simpl never.
#[local] Arguments Z.of_nat : simpl never.
#[local] Arguments Z.to_nat : simpl never.

(* region goals: the state is in the activation that entered the region, at a known address *)
Ltac reg_here := apply inreg_here; [congruence || assumption || reflexivity | lia].
(* a sub-tree's region is inside the tree's region *)
Ltac reg_sub := intros ? ?; eapply inreg_sub; [| | |eassumption]; [congruence || reflexivity|lia|lia].

Section FwdQ.
  Variable fo : fops.
  Variable funs : list (nat * list stmt).
  Variable faddr : nat -> nat.
  Variable c : list opcode.
  Variable W : nat.
  Notation nf := (native_fn fo).

  Definition Qb_at (f : nat) (b : list stmt) : Prop :=
    forall org bc t s,
      wf_b b -> cl_b funs b -> brk_ok bc b -> code_at c org (lay_block faddr b org bc) ->
      mach c s -> ip s = org -> sim t s ->
      okq nf c W (inreg (rskeys s) org (org + size_block b)) s (org + size_block b) bc
          (f - wt_block b) (sblock fo funs f b t).
  Definition Qs_at (f : nat) (x : stmt) : Prop :=
    forall org bc t s,
      wf_s x -> cl_s funs x -> brk_ok_s bc x -> code_at c org (lay_stmt faddr x org bc) ->
      mach c s -> ip s = org -> sim t s ->
      okq nf c W (inreg (rskeys s) org (org + size_stmt x)) s (org + size_stmt x) bc
          (f - wt_stmt x) (sstmt fo funs f x t).
  Definition Qb (f : nat) : Prop := forall b, Qb_at f b.
  Definition Qs (f : nat) : Prop := forall x, Qs_at f x.

  Hypothesis placed : funs_placed funs faddr c.
  Hypothesis closed : funs_closed funs.
  Hypothesis W_pos : 1 <= W.
  Hypothesis W_body : forall g body, fun_body funs g = Some body -> wt_block body <= W.

  Ltac ok_shift := (eapply okq_endp; cycle 1).

  (* ---------- blocks ---------- *)
  Lemma blockq_step : forall f, Qs f -> Qb f -> Qb (S f).
  Proof.
    intros f HS HB b org bc t s Wf Cl B C M Hip Hsim.
    destruct b as [|x r].
    - rewrite sblock_nil. cbn [size_block]. rewrite Nat.add_0_r, <- Hip. apply okq_done_here; assumption.
    - rewrite sblock_cons. cbn [lay_block size_block wt_block] in *.
      apply code_at_app in C. destruct C as [Cx Cr]. rewrite lay_stmt_length in Cr.
      inversion Wf as [|x' r' Wx Wr]; subst x' r'. inversion Cl as [|x' r' Clx Clr]; subst x' r'.
      assert (Bx : brk_ok_s bc x) by (intro E; specialize (B E); inversion B; assumption).
      assert (Br : brk_ok bc r) by (intro E; specialize (B E); inversion B; assumption).
      pose proof (HS x org bc t s Wx Clx Bx Cx M Hip Hsim) as H.
      eapply okq_mono with (R' := inreg (rskeys s) org (org + (size_stmt x + size_block r))) in H; [|reg_sub].
      eapply okq_weaken with (B := S f - (1 + wt_stmt x + wt_block r)) in H; [|lia].
      destruct (sstmt fo funs f x t) as [t1|t1|k pl p t1| |]; try exact H.
      cbn [okq] in H. destruct H as (s1 & R & M1 & I1 & S1 & K1).
      eapply okq_reach; [exact R|exact K1|].
      rewrite Nat.add_assoc.
      eapply okq_weaken; [|eapply okq_mono; [|apply (HB r (org + size_stmt x) bc t1 s1); assumption]].
      + lia.
      + reg_sub.
  Qed.

  (* ---------- one-cell statements ---------- *)
  Lemma caseq_Lit : forall f c0 p, Qs_at (S f) (SLit c0 p).
  Proof.
    intros f c0 p org bc t s Wf Cl B C M Hip Hsim. rewrite sstmt_Lit.
    cbn [lay_stmt] in C. apply code_at_one in C. subst org.
    change (size_stmt (SLit c0 p)) with 1.
    eapply simple_stmtq; [apply par_push_data|exact Hsim|exact M|reg_here|exact C|apply load_value_not_resolve|].
    intro. apply exec_load_value.
  Qed.

  Lemma caseq_Prim : forall f w p, Qs_at (S f) (SPrim w p).
  Proof.
    intros f w p org bc t s Wf Cl B C M Hip Hsim. rewrite sstmt_Prim.
    cbn [lay_stmt] in C. apply code_at_one in C. subst org.
    change (size_stmt (SPrim w p)) with 1.
    destruct (native_fn fo w) as [m|] eqn:E.
    - eapply simple_stmtq; [eapply native_par; exact E|exact Hsim|exact M|reg_here|exact C|discriminate|].
      intro. cbn [exec_op]. rewrite E. reflexivity.
    - (* not a native word: the machine answers "unsupported" too *)
      cbn [okq]. exists s. split; [apply treach_refl|]. split; [reg_here|].
      split; [eapply running_at; eauto|]. right.
      destruct M as [Mc Ml Mi].
      rewrite (fetch_plain nf s (ONative w) Mi) by (rewrite ?Mc; assumption || discriminate).
      cbn [exec_op]. rewrite E. reflexivity.
  Qed.

  Lemma caseq_Get : forall f a p, Qs_at (S f) (SGet a p).
  Proof.
    intros f a p org bc t s Wf Cl B C M Hip Hsim. rewrite sstmt_Get.
    cbn [lay_stmt] in C. apply code_at_one in C. subst org.
    change (size_stmt (SGet a p)) with 1.
    eapply simple_stmtq; [apply par_load|exact Hsim|exact M|reg_here|exact C|discriminate|].
    intro. apply exec_load.
  Qed.

  Lemma caseq_Set : forall f a p, Qs_at (S f) (SSet a p).
  Proof.
    intros f a p org bc t s Wf Cl B C M Hip Hsim. rewrite sstmt_Set.
    cbn [lay_stmt] in C. apply code_at_one in C. subst org.
    change (size_stmt (SSet a p)) with 1.
    eapply simple_stmtq; [apply par_store|exact Hsim|exact M|reg_here|exact C|discriminate|].
    intro. apply exec_store.
  Qed.

  Lemma caseq_LocSet : forall f i p, Qs_at (S f) (SLocSet i p).
  Proof.
    intros f i p org bc t s Wf Cl B C M Hip Hsim. rewrite sstmt_LocSet.
    cbn [lay_stmt] in C. apply code_at_one in C. subst org.
    change (size_stmt (SLocSet i p)) with 1.
    eapply simple_stmtq; [apply par_initlocal|exact Hsim|exact M|reg_here|exact C|discriminate|].
    intro. apply exec_initlocal.
  Qed.

  Lemma caseq_LocGet : forall f i p, Qs_at (S f) (SLocGet i p).
  Proof.
    intros f i p org bc t s Wf Cl B C M Hip Hsim. rewrite sstmt_LocGet.
    cbn [lay_stmt] in C. apply code_at_one in C. subst org.
    change (size_stmt (SLocGet i p)) with 1.
    eapply simple_stmtq; [apply par_m_loadlocal|exact Hsim|exact M|reg_here|exact C|discriminate|].
    intro. apply exec_loadlocal.
  Qed.

  Lemma caseq_Def : forall f g, Qs_at (S f) (SDef g).
  Proof.
    intros f g org bc t s Wf Cl B C M Hip Hsim. rewrite sstmt_Def.
    change (size_stmt (SDef g)) with 0. rewrite Nat.add_0_r, <- Hip. apply okq_done_here; assumption.
  Qed.

  Lemma caseq_Break : forall f, Qs_at (S f) SBreak.
  Proof.
    intros f org bc t s Wf Cl B C M Hip Hsim. rewrite sstmt_Break.
    rewrite lay_SBreak in C. apply code_at_one in C. subst org.
    change (size_stmt SBreak) with 1.
    cbn [okq]. exists s. split; [apply treach_refl|]. split; [reg_here|]. split; [exact M|]. split; [exact C|].
    split; [|split; [exact Hsim|reflexivity]].
    intro E. specialize (B E). inversion B.
  Qed.

  (* ---------- calls ---------- *)
  Lemma caseq_Call : forall f g p, Qb f -> Qs_at (S f) (SCall g p).
  Proof.
    intros f g p HB org bc t s Wf Cl B C M Hip Hsim. rewrite sstmt_Call.
    assert (Hg : fun_body funs g <> None) by (inversion Cl; assumption).
    destruct (fun_body funs g) as [body|] eqn:Eg; [|contradiction Hg; reflexivity].
    destruct (placed g body Eg) as (Cg & Wg & Ng).
    pose proof (W_body g body Eg) as HWb.
    cbn [lay_stmt] in C. apply code_at_one in C. subst org.
    change (size_stmt (SCall g p)) with 1. change (wt_stmt (SCall g p)) with 1.
    set (R := inreg (rskeys s) (ip s) (ip s + 1)).
    assert (HRs : R s) by (unfold R; reg_here).
    destruct (call_to nf c s t (faddr g) M Hsim C) as (t1 & s1 & Ep & F & M1 & I1 & S1 & K1).
    unfold run_m at 1. rewrite Ep.
    apply code_at_app in Cg. destruct Cg as [Cb Cr]. rewrite lay_block_length in Cr. apply code_at_one in Cr.
    pose proof (HB body (faddr g) BNone t1 s1 Wg (closed g body Eg) (fun _ => Ng) Cb M1 I1 S1) as H.
    eapply okq_mono with (R' := R) in H;
      [|intros x Hx; rewrite K1 in Hx; unfold R; eapply inreg_deeper; exact Hx].
    destruct (sblock fo funs f body t1) as [t2|t2|k pl p' t2| |].
    - cbn [okq] in H. destruct H as (s2 & R2 & M2 & I2 & S2 & K2).
      rewrite <- I2 in Cr. rewrite K1 in K2.
      assert (HR2 : R s2) by (unfold R; eapply inreg_deeper_here; exact K2).
      pose proof (ret_to nf c s2 t2 _ _ _ M2 S2 Cr K2) as H3.
      unfold run_m. destruct (pop_return t2) as [fr t3|k pl t3| |]; cbn [okq]; try contradiction.
      + destruct H3 as (s3 & F3 & M3 & I3 & S3 & K3). exists s3.
        split; [eapply treach_step; [exact HRs|exact F|eapply treach_trans; [exact R2|eapply treach_one; [exact HR2|exact F3]]]|].
        split; [exact M3|]. split; [lia|]. split; [exact S3|exact K3].
      + destruct H3 as (s3 & F3 & S3). exists s2, s3.
        split; [eapply treach_step; [exact HRs|exact F|exact R2]|]. auto.
    - cbn [okq] in H. destruct H as (s2 & _ & _ & _ & _ & Hne & _). contradiction Hne. reflexivity.
    - cbn [okq] in H |- *. destruct H as (sN & s' & RN & HRN & MN & FN & SN). exists sN, s'.
      split; [eapply treach_step; [exact HRs|exact F|exact RN]|]. auto.
    - cbn [okq] in H |- *. intros N HN. destruct N as [|N]; [apply stays_0|].
      eapply stays_step; [exact HRs|exact F|]. apply H. rewrite Nat.mul_succ_r in HN. lia.
    - cbn [okq] in H |- *. destruct H as (sN & RN & HRN & St). exists sN.
      split; [eapply treach_step; [exact HRs|exact F|exact RN]|]. auto.
  Qed.

  (* ---------- if ... then ---------- *)
  Lemma caseq_If : forall f p t0, Qb f -> Qs_at (S f) (SIf p t0).
  Proof.
    intros f p t0 HB org bc t s Wf Cl B C M Hip Hsim. rewrite sstmt_If.
    rewrite lay_SIf in C. apply code_at_cons in C. destruct C as [C0 C1].
    rewrite size_SIf, wt_SIf. inversion Wf; subst. inversion Cl; subst.
    assert (Bt : brk_ok bc t0) by (intro E; specialize (B E); inversion B; assumption).
    eapply step_run_mq; [apply par_m_test|exact Hsim|exact M|reg_here|exact C0|discriminate|intro; apply exec_jumpifnot|].
    intros b t1 s1 Em S1 A1 F. destruct b; cbn [negb] in F.
    - destruct (cont_next c s s1 t1 A1 S1) as (s2 & E2 & M2 & I2 & S2 & K2). rewrite E2 in F.
      eapply okq_step; [reg_here|exact F|exact K2| |].
      + ok_shift. { eapply okq_mono; [|apply (HB t0 (S (ip s)) bc t1 s2); assumption]. reg_sub. } lia.
      + lia.
    - destruct (cont_goto c s s1 t1 (jump_target (ip s) (Z.of_nat (1 + size_block t0))) A1 S1)
        as (s2 & E2 & M2 & I2 & S2 & K2). rewrite E2 in F.
      eapply okq_step0; [reg_here|exact F|exact K2|].
      ok_shift. { apply okq_done_here; eassumption. } rewrite I2, jt_fwd. lia.
  Qed.

  (* ---------- if ... else ... then ---------- *)
  Lemma caseq_IfE : forall f p t0 e0, Qb f -> Qs_at (S f) (SIfE p t0 e0).
  Proof.
    intros f p t0 e0 HB org bc t s Wf Cl B C M Hip Hsim. rewrite sstmt_IfE.
    rewrite lay_SIfE in C. apply code_at_app in C. destruct C as [C0 C2].
    apply code_at_cons in C0. destruct C0 as [C0 C1].
    cbn [length] in C2. rewrite lay_block_length in C2.
    apply code_at_cons in C2. destruct C2 as [C2 C3].
    rewrite size_SIfE, wt_SIfE. inversion Wf; subst. inversion Cl; subst.
    assert (Bt : brk_ok bc t0) by (intro E; specialize (B E); inversion B; assumption).
    assert (Be : brk_ok bc e0) by (intro E; specialize (B E); inversion B; assumption).
    eapply step_run_mq; [apply par_m_test|exact Hsim|exact M|reg_here|exact C0|discriminate|intro; apply exec_jumpifnot|].
    intros b t1 s1 Em S1 A1 F. destruct b; cbn [negb] in F.
    - destruct (cont_next c s s1 t1 A1 S1) as (s2 & E2 & M2 & I2 & S2 & K2). rewrite E2 in F.
      eapply okq_step; [reg_here|exact F|exact K2| |].
      + eapply okq_then_jump with (e := ip s + S (size_block t0)); [|exact C2|rewrite jt_fwd; lia|].
        * ok_shift. { eapply okq_mono; [|apply (HB t0 (S (ip s)) bc t1 s2); assumption]. reg_sub. } lia.
        * intros s3 I3 K3. reg_here.
      + lia.
    - destruct (cont_goto c s s1 t1 (jump_target (ip s) (Z.of_nat (2 + size_block t0))) A1 S1)
        as (s2 & E2 & M2 & I2 & S2 & K2). rewrite E2 in F.
      eapply okq_step; [reg_here|exact F|exact K2| |].
      + rewrite jt_fwd in I2.
        replace (S (ip s + S (size_block t0))) with (ip s + 2 + size_block t0) in C3 by lia.
        ok_shift. { eapply okq_mono; [|apply (HB e0 (ip s + 2 + size_block t0) bc t1 s2); try assumption; lia]. reg_sub. } lia.
      + lia.
  Qed.

  (* ---------- begin ... until ---------- *)
  Lemma caseq_Until : forall f b0 p, Qb f -> Qs f -> Qs_at (S f) (SUntil b0 p).
  Proof.
    intros f b0 p HB HS org bc t s Wf Cl B C M Hip Hsim. rewrite sstmt_Until.
    pose proof C as Call.
    rewrite lay_SUntil in C. apply code_at_app in C. destruct C as [C0 C1].
    rewrite lay_block_length in C1. apply code_at_one in C1.
    rewrite size_SUntil, wt_SUntil. inversion Wf; subst. inversion Cl; subst.
    pose proof (HB b0 (ip s) BNone t s ltac:(assumption) ltac:(assumption) ltac:(intro; assumption) C0 M eq_refl Hsim) as H.
    eapply okq_mono with (R' := inreg (rskeys s) (ip s) (ip s + (size_block b0 + 1))) in H; [|reg_sub].
    eapply okq_weaken with (B := S f - (1 + wt_block b0)) in H; [|lia].
    destruct (sblock fo funs f b0 t) as [t1|t1|k pl p' t1| |]; try exact H.
    - cbn [okq] in H. destruct H as (s1 & R1 & M1 & I1 & S1 & K1).
      eapply okq_reach; [exact R1|exact K1|].
      rewrite <- I1 in C1.
      eapply step_run_mq; [apply par_m_test|exact S1|exact M1|reg_here|exact C1|discriminate|intro; apply exec_jumpifnot|].
      intros b t2 s2 Em S2 A2 F. destruct b; cbn [negb] in F.
      + destruct (cont_next c s1 s2 t2 A2 S2) as (s3 & E3 & M3 & I3 & S3 & K3). rewrite E3 in F.
        eapply okq_step0; [reg_here|exact F|exact K3|].
        ok_shift. { apply okq_done_here; eassumption. } lia.
      + destruct (cont_goto c s1 s2 t2 (jump_target (ip s1) (- Z.of_nat (size_block b0))%Z) A2 S2)
          as (s3 & E3 & M3 & I3 & S3 & K3). rewrite E3 in F.
        eapply okq_step; [reg_here|exact F|exact K3| |].
        * rewrite jt_back in I3 by lia.
          ok_shift. { eapply okq_mono; [|apply (HS (SUntil b0 p) (ip s) bc t2 s3); try assumption; lia].
                      rewrite size_SUntil. reg_sub. }
          rewrite size_SUntil. reflexivity.
        * rewrite wt_SUntil. lia.
    - cbn [okq] in H. destruct H as (s2 & _ & _ & _ & _ & Hne & _). contradiction Hne. reflexivity.
  Qed.

  (* ---------- begin ... repeat ---------- *)
  Lemma caseq_Repeat : forall f b0, Qb f -> Qs f -> Qs_at (S f) (SRepeat b0).
  Proof.
    intros f b0 HB HS org bc t s Wf Cl B C M Hip Hsim. rewrite sstmt_Repeat.
    pose proof C as Call.
    rewrite lay_SRepeat in C. apply code_at_app in C. destruct C as [C0 C1].
    rewrite lay_block_length in C1. apply code_at_one in C1.
    rewrite size_SRepeat, wt_SRepeat. inversion Wf; subst. inversion Cl; subst.
    pose proof (HB b0 (ip s) (BJump (ip s + size_block b0 + 1)) t s ltac:(assumption) ltac:(assumption)
                   ltac:(intro; discriminate) C0 M eq_refl Hsim) as H.
    eapply okq_mono with (R' := inreg (rskeys s) (ip s) (ip s + (size_block b0 + 1))) in H; [|reg_sub].
    eapply okq_weaken with (B := S f - (1 + wt_block b0)) in H; [|lia].
    destruct (sblock fo funs f b0 t) as [t1|t1|k pl p' t1| |]; try exact H.
    - cbn [okq] in H. destruct H as (s1 & R1 & M1 & I1 & S1 & K1).
      eapply okq_reach; [exact R1|exact K1|].
      rewrite <- I1 in C1.
      destruct (jump_to nf c s1 t1 _ M1 S1 C1) as (s2 & F & M2 & I2 & S2 & K2).
      eapply okq_step; [reg_here|exact F|exact K2| |].
      + rewrite jt_back in I2 by lia.
        ok_shift. { eapply okq_mono; [|apply (HS (SRepeat b0) (ip s) bc t1 s2); try assumption; lia].
                    rewrite size_SRepeat. reg_sub. }
        rewrite size_SRepeat. reflexivity.
      + rewrite wt_SRepeat. lia.
    - cbn [okq] in H. destruct H as (s1 & R1 & HR1 & M1 & C2 & _ & S1 & K1). cbn [brk_op] in C2.
      eapply okq_reach; [exact R1|exact K1|].
      destruct (jump_to nf c s1 t1 _ M1 S1 C2) as (s2 & F & M2 & I2 & S2 & K2).
      eapply okq_step0; [exact HR1|exact F|exact K2|].
      rewrite jt_rel in I2.
      ok_shift. { apply okq_done_here; eassumption. } lia.
  Qed.

  (* ---------- begin ... while ... repeat ---------- *)
  Lemma caseq_While : forall f c0 p b0, Qb f -> Qs f -> Qs_at (S f) (SWhile c0 p b0).
  Proof.
    intros f c0 p b0 HB HS org bc t s Wf Cl B C M Hip Hsim. rewrite sstmt_While.
    pose proof C as Call.
    rewrite lay_SWhile in C. cbv zeta in C.
    apply code_at_app in C. destruct C as [C0 C1]. rewrite lay_block_length in C1.
    apply code_at_app in C1. destruct C1 as [C1 C3]. cbn [length] in C3. rewrite lay_block_length in C3.
    apply code_at_cons in C1. destruct C1 as [C1 C2]. apply code_at_one in C3.
    rewrite size_SWhile, wt_SWhile. inversion Wf; subst. inversion Cl; subst.
    set (endp := ip s + size_block c0 + 1 + size_block b0 + 1) in *.
    set (R := inreg (rskeys s) (ip s) (ip s + (size_block c0 + 1 + size_block b0 + 1))).
    pose proof (HB c0 (ip s) (BJump endp) t s ltac:(assumption) ltac:(assumption)
                   ltac:(intro; discriminate) C0 M eq_refl Hsim) as H.
    eapply okq_mono with (R' := R) in H; [|unfold R; reg_sub].
    eapply okq_weaken with (B := S f - (1 + wt_block c0 + wt_block b0)) in H; [|lia].
    destruct (sblock fo funs f c0 t) as [t1|t1|k pl p' t1| |]; try exact H.
    - cbn [okq] in H. destruct H as (s1 & R1 & M1 & I1 & S1 & K1).
      eapply okq_reach; [exact R1|exact K1|].
      rewrite <- I1 in C1.
      eapply step_run_mq; [apply par_m_test|exact S1|exact M1|unfold R; reg_here|exact C1|discriminate|intro; apply exec_jumpifnot|].
      intros go t2 s2 Em S2 A2 F. destruct go; cbn [negb] in F.
      + destruct (cont_next c s1 s2 t2 A2 S2) as (s3 & E3 & M3 & I3 & S3 & K3). rewrite E3 in F.
        eapply okq_step0; [unfold R; reg_here|exact F|exact K3|].
        replace (S (ip s + size_block c0)) with (ip s + size_block c0 + 1) in C2 by lia.
        pose proof (HB b0 (ip s + size_block c0 + 1) (BJump endp) t2 s3 ltac:(assumption) ltac:(assumption)
                       ltac:(intro; discriminate) C2 M3 ltac:(lia) S3) as Hb2.
        eapply okq_mono with (R' := R) in Hb2; [|unfold R; reg_sub].
        eapply okq_weaken with (B := S f - (1 + wt_block c0 + wt_block b0)) in Hb2; [|lia].
        destruct (sblock fo funs f b0 t2) as [t3|t3|k pl p' t3| |]; try exact Hb2.
        * cbn [okq] in Hb2. destruct Hb2 as (s4 & R4 & M4 & I4 & S4 & K4).
          eapply okq_reach; [exact R4|exact K4|].
          replace (ip s + size_block c0 + S (size_block b0)) with (ip s4) in C3 by lia.
          destruct (jump_to nf c s4 t3 _ M4 S4 C3) as (s5 & F5 & M5 & I5 & S5 & K5).
          eapply okq_step; [unfold R; reg_here|exact F5|exact K5| |].
          -- rewrite jt_back in I5 by lia.
             ok_shift. { eapply okq_mono; [|apply (HS (SWhile c0 p b0) (ip s) bc t3 s5); try assumption; lia].
                         rewrite size_SWhile. unfold R. reg_sub. }
             rewrite size_SWhile. reflexivity.
          -- rewrite wt_SWhile. lia.
        * cbn [okq] in Hb2. destruct Hb2 as (s4 & R4 & HR4 & M4 & C4 & _ & S4 & K4). cbn [brk_op] in C4.
          eapply okq_reach; [exact R4|exact K4|].
          destruct (jump_to nf c s4 t3 _ M4 S4 C4) as (s5 & F5 & M5 & I5 & S5 & K5).
          eapply okq_step0; [exact HR4|exact F5|exact K5|].
          rewrite jt_rel in I5.
          ok_shift. { apply okq_done_here; eassumption. } rewrite I5. unfold endp. lia.
      + destruct (cont_goto c s1 s2 t2 (jump_target (ip s1) (Z.of_nat (size_block b0 + 2))) A2 S2)
          as (s3 & E3 & M3 & I3 & S3 & K3). rewrite E3 in F.
        eapply okq_step0; [unfold R; reg_here|exact F|exact K3|].
        rewrite jt_fwd in I3.
        ok_shift. { apply okq_done_here; eassumption. } unfold endp. lia.
    - cbn [okq] in H. destruct H as (s1 & R1 & HR1 & M1 & C4 & _ & S1 & K1). cbn [brk_op] in C4.
      eapply okq_reach; [exact R1|exact K1|].
      destruct (jump_to nf c s1 t1 _ M1 S1 C4) as (s2 & F & M2 & I2 & S2 & K2).
      eapply okq_step0; [exact HR1|exact F|exact K2|].
      rewrite jt_rel in I2.
      ok_shift. { apply okq_done_here; eassumption. } rewrite I2. unfold endp. lia.
  Qed.
End FwdQ.
