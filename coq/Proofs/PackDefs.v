(* PackDefs.v: the vocabulary of the C07 statements: typed fields, what packing a field
   produces, how it is handed to >bitstr, how it is read back, and which value is expected.
   Definitions only. *)
From Xeh Require Import Model.Prelude Model.Bits Model.Codec Model.Cell Model.Lexer Model.Fmt
                        Model.Vm Model.Words.
From Xeh Require Import Proofs.CodecBasic Proofs.VmStep Proofs.CursorDefs.
Local Notation length := List.length.

Inductive field :=
| FInt (w : nat) (signed : bool) (o : order) (v : Z)   (* v w int! / uint!, any v *)
| FF32 (o : order) (v : Z)                              (* a real (binary64 pattern) packed as 32 bits *)
| FF64 (o : order) (v : Z)                              (* a real packed as 64 bits *)
| FBits (b : cbs)                                       (* a raw bit-string *)
| FStr (t : string)                                     (* a string: its UTF-8 bytes *)
| FBytes (l : list N).                                  (* a vector of byte values *)

Section Pack.
  Variable fo : fops.

  (* the bit-string a field packs to *)
  Definition pack_field (f : field) : cbs :=
    match f with
    | FInt w _ o v => from_int v w o
    | FF32 o v => from_fbits 4 o (f_to_f32 fo v)
    | FF64 o v => from_fbits 8 o v
    | FBits b => b
    | FStr t => from_bytes (bytes_of_string t)
    | FBytes l => from_bytes l
    end.

  Definition width (f : field) : nat :=
    match f with
    | FInt w _ _ _ => w
    | FF32 _ _ => 32
    | FF64 _ _ => 64
    | FBits b => clen b
    | FStr t => 8 * length (bytes_of_string t)
    | FBytes l => 8 * length l
    end.

  Definition field_bits (f : field) : list bool := abs (pack_field f).
  Definition fields_bits (fs : list field) : list bool := flat_map field_bits fs.
  Definition total_width (fs : list field) : nat := fold_right (fun f a => width f + a) 0 fs.

  (* side conditions on the data a field carries *)
  Definition field_ok (f : field) : Prop :=
    match f with
    | FBits b => wf b
    | FBytes l => Forall (fun x => (x < 256)%N) l
    | _ => True
    end.

  (* the fields the reading words can take back: uint up to 127 bits, int up to 128 *)
  Definition field_rd_ok (f : field) : Prop :=
    field_ok f /\
    match f with
    | FInt w false _ _ => 1 <= w <= 127
    | FInt w true _ _ => 1 <= w <= 128
    | _ => True
    end.

  (* concatenation of packed fields, as >bitstr and emit do it *)
  Definition pack (fs : list field) : cbs :=
    fold_left (fun acc f => Bits.append false acc (pack_field f)) fs (mkcbs 0 0 []).

  (* the cell a field contributes to the vector given to >bitstr *)
  Definition field_item (f : field) : cell :=
    match f with
    | FStr t => CStr t
    | FBytes l => CVec (map (fun x => CInt (Z.of_N x)) l)
    | _ => CBits (pack_field f)
    end.

  (* the value on the stack that the packing word consumes, and the packing word *)
  Definition pack_word (f : field) : M unit :=
    match f with
    | FInt w _ o _ => pack_int (Z.of_nat w) o
    | FF32 o _ => pack_float fo 32 o
    | FF64 o _ => pack_float fo 64 o
    | _ => ret tt
    end.
  Definition field_arg (f : field) : cell :=
    match f with
    | FInt _ _ _ v => CInt v
    | FF32 _ v | FF64 _ v => CReal v
    | _ => field_item f
    end.

  (* the matching read word *)
  Definition read_field (f : field) : M unit :=
    match f with
    | FInt w false o _ => read_unsigned (Z.of_nat w) o
    | FInt w true o _ => read_signed (Z.of_nat w) o
    | FF32 o _ => read_float fo 32 o
    | FF64 o _ => read_float fo 64 o
    | f => read_bits (Z.of_nat (width f))
    end.

  Fixpoint read_fields (fs : list field) : M unit :=
    match fs with
    | [] => ret tt
    | f :: r => read_field f ;; read_fields r
    end.

  (* what reading the field back yields: the original value reduced to the field's width *)
  Definition field_value (f : field) (c : cell) : Prop :=
    match f with
    | FInt w false _ v => value c = CInt (v mod 2 ^ Z.of_nat w)
    | FInt w true _ v => value c = CInt (sext w (v mod 2 ^ Z.of_nat w))
    | FF32 _ v => value c = CReal (f_of_f32 fo (f_to_f32 fo v mod 2 ^ 32))
    | FF64 _ v => value c = CReal (v mod 2 ^ 64)
    | f => exists b, c = CBits b /\ wf b /\ abs b = field_bits f
    end.
End Pack.

(* ---------- output interception ---------- *)
Definition h_output (h : list cell) : option cbs :=
  match nth_error h R_OUTPUT with
  | Some c => match value c with CBits b => Some b | _ => None end
  | None => None
  end.
Definition h_outlen (h : list cell) : option Z :=
  match nth_error h R_OUTLEN with
  | Some c => match value c with CInt z => Some z | _ => None end
  | None => None
  end.

(* interception is on: `output` holds a well-formed bit-string [ob], `output-length` [n] *)
Definition emitting (s : state) (ob : cbs) (n : Z) : Prop :=
  notmeta s /\ 6 <= length (heap s) /\ ds_len (cx s) <= length (ds s) /\
  h_output (heap s) = Some ob /\ wf ob /\ h_outlen (heap s) = Some n /\ (0 <= n)%Z.

(* emit each chunk in turn *)
Fixpoint emit_all (cs : list cbs) : M unit :=
  match cs with
  | [] => ret tt
  | c :: r => push_data (CBits c) ;; w_emit ;; emit_all r
  end.

(* ---------- building a record with the construction words ----------
   the XEH source  [ v1 w1 int!  v2 w2 uint!  x f64!  "str"  [ 1 2 3 ] ... ] >bitstr :
   %vec-begin, then per field its value (and width) and packing word, %vec-end, >bitstr *)
Section Build.
  Variable fo : fops.
  Fixpoint push_fields (fs : list field) : M unit :=
    match fs with
    | [] => ret tt
    | f :: r => push_data (field_arg fo f) ;; pack_word fo f ;; push_fields r
    end.
  Definition build (fs : list field) : M unit :=
    w_vec_begin ;; push_fields fs ;; w_vec_end ;; w_into_bitstr.
End Build.

(* ---------- the same at the level of source text ----------
   the order is chosen with `big` / `little`, widths are literals:
     big v w int!     little x 64 float!     "str"     [ 1 2 3 ]
   and read back with     big w int     little 64 float     n bits *)
Definition big_flag (o : order) : bool := match o with Big => true | Little => false end.

Section Surface.
  Variable fo : fops.

  Definition pack_src (f : field) : M unit :=
    match f with
    | FInt w _ o v =>
      w_set_order (big_flag o) ;; push_data (CInt v) ;; push_data (cnat w) ;;
      with_size (fun n => with_order (pack_int n))
    | FF32 o v =>
      w_set_order (big_flag o) ;; push_data (CReal v) ;; push_data (cnat 32) ;;
      with_size (fun n => with_order (pack_float fo n))
    | FF64 o v =>
      w_set_order (big_flag o) ;; push_data (CReal v) ;; push_data (cnat 64) ;;
      with_size (fun n => with_order (pack_float fo n))
    | f => push_data (field_item fo f)
    end.

  Fixpoint push_fields_src (fs : list field) : M unit :=
    match fs with
    | [] => ret tt
    | f :: r => pack_src f ;; push_fields_src r
    end.

  Definition build_src (fs : list field) : M unit :=
    w_vec_begin ;; push_fields_src fs ;; w_vec_end ;; w_into_bitstr.

  Definition read_src (f : field) : M unit :=
    match f with
    | FInt w false o _ =>
      w_set_order (big_flag o) ;; push_data (cnat w) ;; with_size (fun n => with_order (read_unsigned n))
    | FInt w true o _ =>
      w_set_order (big_flag o) ;; push_data (cnat w) ;; with_size (fun n => with_order (read_signed n))
    | FF32 o _ =>
      w_set_order (big_flag o) ;; push_data (cnat 32) ;; with_size (fun n => with_order (read_float fo n))
    | FF64 o _ =>
      w_set_order (big_flag o) ;; push_data (cnat 64) ;; with_size (fun n => with_order (read_float fo n))
    | f => push_data (cnat (width f)) ;; with_size read_bits
    end.

  Fixpoint read_fields_src (fs : list field) : M unit :=
    match fs with
    | [] => ret tt
    | f :: r => read_src f ;; read_fields_src r
    end.

  Definition parse_back_src (fs : list field) : M unit :=
    w_open_bitstr ;; read_fields_src fs ;; w_remain.
End Surface.
