(* CompileProg.v: the simulation theorems in their final form: blocks and statements, whole
   programs ([lay_top] / [layout_program]: definitions inline behind a jump), and what
   [run] returns. *)
From Xeh Require Import Model.Prelude Model.Bits Model.Codec Model.Cell Model.Lexer Model.Fmt
                        Model.Vm Model.Words Model.Struct
                        Proofs.VmFrame Proofs.VmDrive Proofs.CompileSim Proofs.CompileLayout Proofs.CompileStep
                        Proofs.CompileEval Proofs.CompileFwd Proofs.CompileFwd2.
Local Notation length := List.length.

#[local] Arguments Z.add : simpl never.
#[local] Arguments Z.sub : simpl never.
#[local] Arguments Z.mul : simpl never.
#[local] Arguments Z.ltb : simpl never.
#[local] Arguments Z.leb : simpl never.
#[local] Arguments Z.eqb : simpl never.
#[local] Arguments Z.of_nat : simpl never.
#[local] Arguments Z.to_nat : simpl never.

(* the result of the evaluator against the machine, spelled out *)
Definition agrees (nf : natives) (s : state) (endp : nat) (bc : brk_ctx) (r : sres) : Prop :=
  match r with
  | SDone t' =>
    exists n s', steps nf n s = Some s' /\ ip s' = endp /\ sim t' s' /\
                 code s' = code s /\ rlog s' = None /\ insn_limit s' = None /\ rskeys s' = rskeys s
  | SBroke t' =>
    exists n s', steps nf n s = Some s' /\
                 nth_error (code s) (ip s') = Some (brk_op (ip s') bc) /\ bc <> BNone /\ sim t' s' /\
                 code s' = code s /\ rlog s' = None /\ insn_limit s' = None /\ rskeys s' = rskeys s
  | SFail k pl _ t' =>
    exists n sN s', steps nf n s = Some sN /\ insn_limit sN = None /\
                    fetch_and_run nf sN = RErr k pl s' /\ sim t' s'
  | SOut => True
  | SUnsup => True
  end.

Lemma ok_agrees : forall nf s endp bc r, ok nf (code s) s endp bc r -> agrees nf s endp bc r.
Proof.
  intros nf s endp bc r H. destruct r as [t'|t'|k pl p t'| |]; cbn [ok agrees] in *; auto.
  - destruct H as (s' & [n R] & [M1 M2 M3] & I & Hs & K). exists n, s'. repeat (split; [assumption|]). assumption.
  - destruct H as (s' & [n R] & [M1 M2 M3] & B & Hne & Hs & K). exists n, s'. repeat (split; [assumption|]). assumption.
  - destruct H as (sN & s' & [n R] & [M1 M2 M3] & F & Hs). exists n, sN, s'. auto.
Qed.

Section Final.
  Variable fo : fops.
  Variable funs : list (nat * list stmt).
  Notation nf := (native_fn fo).

  (* ---------- blocks and statements ---------- *)
  Theorem fwd_block : forall faddr fuel b org bc t s,
    funs_placed funs faddr (code s) -> wf_b b -> brk_ok bc b ->
    firstn (size_block b) (skipn org (code s)) = lay_block faddr b org bc ->
    rlog s = None -> insn_limit s = None -> ip s = org -> sim t s ->
    agrees nf s (org + size_block b) bc (sblock fo funs fuel b t).
  Proof.
    intros faddr fuel b org bc t s P W B C Hl Hi Hip Hs.
    apply ok_agrees. apply (proj1 (fwd_all fo funs faddr (code s) P fuel)); try assumption.
    - apply code_at_slice. rewrite lay_block_length. exact C.
    - split; auto.
  Qed.

  Theorem fwd_stmt : forall faddr fuel x org bc t s,
    funs_placed funs faddr (code s) -> wf_s x -> brk_ok_s bc x ->
    firstn (size_stmt x) (skipn org (code s)) = lay_stmt faddr x org bc ->
    rlog s = None -> insn_limit s = None -> ip s = org -> sim t s ->
    agrees nf s (org + size_stmt x) bc (sstmt fo funs fuel x t).
  Proof.
    intros faddr fuel x org bc t s P W B C Hl Hi Hip Hs.
    apply ok_agrees. apply (proj2 (fwd_all fo funs faddr (code s) P fuel)); try assumption.
    - apply code_at_slice. rewrite lay_stmt_length. exact C.
    - split; auto.
  Qed.

  (* the loops catch `break`: they never hand it on *)
  Lemma do_iter_no_broke : forall f b pl k t t', do_iter fo funs f b pl k t <> SBroke t'.
  Proof.
    intros f b pl. induction k as [|k IH]; intros t t'; cbn [do_iter]; [discriminate|].
    destruct (sblock fo funs f b t) as [t1|t1|? ? ? ?| |]; try discriminate.
    - unfold run_m. destruct (loop_next t1) as [more t2|? ? ?| |]; try discriminate.
      destruct more; [apply IH|]. destruct (pop_loop t2); discriminate.
    - unfold run_m. destruct (pop_loop t1); discriminate.
  Qed.

  Lemma loops_no_broke : forall fuel x t t',
    (exists p b pl, x = SDo p b pl) \/ (exists b, x = SRepeat b) \/ (exists c p b, x = SWhile c p b) ->
    sstmt fo funs fuel x t <> SBroke t'.
  Proof.
    induction fuel as [|f IH]; intros x t t' Hx; [discriminate|].
    destruct Hx as [(p & b & pl & ->)|[(b & ->)|(c0 & p & b & ->)]].
    - rewrite sstmt_Do. unfold run_m at 1. destruct (do_init t) as [l t1|? ? ?| |]; try discriminate.
      destruct (l_end l <=? l_start l)%Z; [discriminate|].
      unfold run_m. destruct (push_loop l t1) as [u t2|? ? ?| |]; try discriminate.
      apply do_iter_no_broke.
    - rewrite sstmt_Repeat. destruct (sblock fo funs f b t) as [t1|t1|? ? ? ?| |]; try discriminate.
      apply IH. right. left. eauto.
    - rewrite sstmt_While. destruct (sblock fo funs f c0 t) as [t1|t1|? ? ? ?| |]; try discriminate.
      unfold run_m. destruct (m_test t1) as [go t2|? ? ?| |]; try discriminate.
      destruct go; [|discriminate].
      destruct (sblock fo funs f b t2) as [t3|t3|? ? ? ?| |]; try discriminate.
      apply IH. right. right. eauto.
  Qed.

  (* ---------- whole programs ---------- *)
  Fixpoint size_top (l : list stmt) : nat :=
    match l with
    | [] => 0
    | SDef g :: r => size_block (body_of funs g) + 2 + size_top r
    | x :: r => size_stmt x + size_top r
    end.

  Lemma lay_top_other : forall faddr x r org, (forall g, x <> SDef g) ->
    lay_top funs faddr (x :: r) org = lay_stmt faddr x org BNone ++ lay_top funs faddr r (org + size_stmt x).
  Proof. intros faddr x r org H. destruct x; try reflexivity. exfalso. eapply H. reflexivity. Qed.

  Lemma size_top_other : forall x r, (forall g, x <> SDef g) -> size_top (x :: r) = size_stmt x + size_top r.
  Proof. intros x r H. destruct x; try reflexivity. exfalso. eapply H. reflexivity. Qed.

  Lemma def_addrs_other : forall x r org, (forall g, x <> SDef g) ->
    def_addrs funs (x :: r) org = def_addrs funs r (org + size_stmt x).
  Proof. intros x r org H. destruct x; try reflexivity. exfalso. eapply H. reflexivity. Qed.

  Lemma is_def_dec : forall x, (exists g, x = SDef g) \/ (forall g, x <> SDef g).
  Proof. intro x. destruct x; try (right; intros; discriminate). left. eauto. Qed.

  Lemma lay_top_length : forall faddr l org, length (lay_top funs faddr l org) = size_top l.
  Proof.
    intros faddr. induction l as [|x r IH]; intro org; [reflexivity|].
    destruct (is_def_dec x) as [[g ->]|Hx].
    - cbn [lay_top size_top]. cbv zeta. rewrite app_length. cbn [length].
      rewrite lay_block_length, IH. lia.
    - rewrite lay_top_other, size_top_other by exact Hx. rewrite app_length, lay_stmt_length, IH. reflexivity.
  Qed.

  (* where the layout puts a function is where [def_addrs] says *)
  Lemma placed_in_top : forall faddr c l org g,
    code_at c org (lay_top funs faddr l org) -> In (SDef g) l ->
    let a := addr_lookup (def_addrs funs l org) g in
    code_at c a (lay_block faddr (body_of funs g) a BNone ++ [ORet]).
  Proof.
    intros faddr c. induction l as [|x r IH]; intros org g C Hin; [contradiction|].
    destruct (is_def_dec x) as [[g' ->]|Hx].
    - cbn [lay_top def_addrs addr_lookup] in *. cbv zeta in C.
      apply code_at_app in C. destruct C as [C0 C1]. cbn [length] in C1. rewrite lay_block_length in C1.
      apply code_at_cons in C0. destruct C0 as [_ C0].
      apply code_at_cons in C1. destruct C1 as [C1 C2].
      destruct (Nat.eqb_spec g' g) as [->|Hne].
      + apply code_at_app. split; [exact C0|]. rewrite lay_block_length. apply code_at_one.
        replace (S org + size_block (body_of funs g)) with (org + S (size_block (body_of funs g))) by lia. exact C1.
      + destruct Hin as [E|Hin]; [congruence|].
        apply IH; [|exact Hin].
        replace (S (org + S (size_block (body_of funs g')))) with (org + size_block (body_of funs g') + 2) in C2 by lia.
        exact C2.
    - destruct Hin as [E|Hin]; [exfalso; eapply Hx; eauto|].
      rewrite def_addrs_other by exact Hx. rewrite lay_top_other in C by exact Hx.
      apply code_at_app in C. destruct C as [_ C]. rewrite lay_stmt_length in C.
      apply IH; assumption.
  Qed.

  (* a well-formed program: no pending break at top level or in a function body, begin-until
     bodies free of breaks, and every function is defined by a top-level `:` *)
  Definition prog_wf (l : list stmt) : Prop :=
    wf_b l /\ nb_b l /\
    Forall (fun gb => In (SDef (fst gb)) l /\ wf_b (snd gb) /\ nb_b (snd gb)) funs.

  Lemma fun_body_in : forall (fs : list (nat * list stmt)) g body,
    fun_body fs g = Some body -> In (g, body) fs.
  Proof.
    induction fs as [|[k b] r IH]; intros g body H; cbn [fun_body] in H; [discriminate|].
    destruct (Nat.eqb_spec k g) as [->|Hne].
    - injection H as <-. left. reflexivity.
    - right. apply IH. exact H.
  Qed.

  Lemma prog_placed : forall l org c,
    prog_wf l -> code_at c org (lay_top funs (addr_lookup (def_addrs funs l org)) l org) ->
    funs_placed funs (addr_lookup (def_addrs funs l org)) c.
  Proof.
    intros l org c (Wl & Nl & Hf) C g body Hg.
    pose proof (fun_body_in _ _ _ Hg) as Hin.
    rewrite Forall_forall in Hf. destruct (Hf _ Hin) as (Hd & Wb & Nb). cbn [fst snd] in *.
    split; [|split; assumption].
    pose proof (placed_in_top _ c l org g C Hd) as H. cbv zeta in H.
    unfold body_of in H. rewrite Hg in H. exact H.
  Qed.

  Lemma top_ok : forall faddr c, funs_placed funs faddr c ->
    forall l f org t s,
      wf_b l -> nb_b l -> code_at c org (lay_top funs faddr l org) ->
      mach c s -> ip s = org -> sim t s ->
      ok nf c s (org + size_top l) BNone (sblock fo funs f l t).
  Proof.
    intros faddr c P. induction l as [|x r IH]; intros f org t s W N C M Hip Hs.
    - destruct f; [exact Logic.I|]. rewrite sblock_nil. cbn [size_top]. rewrite Nat.add_0_r, <- Hip.
      apply ok_done_here; assumption.
    - destruct f as [|f]; [exact Logic.I|]. rewrite sblock_cons.
      inversion W as [|x' r' Wx Wr]; subst x' r'. inversion N as [|x' r' Nx Nr]; subst x' r'.
      destruct (is_def_dec x) as [[g ->]|Hx].
      + destruct f as [|f]; [exact Logic.I|]. rewrite sstmt_Def.
        cbn [lay_top size_top] in *. cbv zeta in C.
        apply code_at_app in C. destruct C as [C0 C1]. cbn [length] in C1. rewrite lay_block_length in C1.
        apply code_at_cons in C0. destruct C0 as [C0 _].
        apply code_at_cons in C1. destruct C1 as [_ C2].
        rewrite <- Hip in C0.
        destruct (jump_to nf c s t _ M Hs C0) as (s1 & F & M1 & I1 & S1 & K1).
        eapply ok_step; [exact F|exact K1|]. rewrite jt_fwd in I1.
        eapply ok_endp; cycle 1.
        { apply (IH (S f) (org + size_block (body_of funs g) + 2) t s1); try assumption.
          - replace (S (org + S (size_block (body_of funs g)))) with (org + size_block (body_of funs g) + 2) in C2 by lia.
            exact C2.
          - lia. }
        lia.
      + rewrite lay_top_other in C by exact Hx. rewrite size_top_other by exact Hx.
        apply code_at_app in C. destruct C as [Cx Cr]. rewrite lay_stmt_length in Cr.
        pose proof (proj2 (fwd_all fo funs faddr c P f) x org BNone t s Wx (fun _ => Nx) Cx M Hip Hs) as H.
        destruct (sstmt fo funs f x t) as [t1|t1|k pl p t1| |]; try exact H.
        cbn [ok] in H. destruct H as (s1 & R & M1 & I1 & S1 & K1).
        eapply ok_reach; [exact R|exact K1|].
        rewrite Nat.add_assoc. apply IH; assumption.
  Qed.

  Theorem fwd_program : forall l org prog fuel t s,
    layout_program funs l org = Some prog -> prog_wf l ->
    firstn (length prog) (skipn org (code s)) = prog ->
    rlog s = None -> insn_limit s = None -> ip s = org -> sim t s ->
    agrees nf s (org + length prog) BNone (sblock fo funs fuel l t).
  Proof.
    intros l org prog fuel t s HL HW C Hl Hi Hip Hs.
    unfold layout_program in HL. destruct (well_placed funs l); [|discriminate]. injection HL as <-.
    apply code_at_slice in C.
    apply ok_agrees. rewrite lay_top_length.
    eapply top_ok; try eassumption.
    - apply (prog_placed l org); assumption.
    - apply HW.
    - apply HW.
    - split; auto.
  Qed.

  (* ---------- what [run] returns ---------- *)
  Lemma step_err_running : forall s k pl s',
    insn_limit s = None -> fetch_and_run nf s = RErr k pl s' -> is_running s = true.
  Proof.
    intros s k pl s' Hi H. unfold fetch_and_run, meter_increase in H. rewrite Hi in H.
    change (code (set_meter s (meter s + 1)%Z)) with (code s) in H.
    unfold is_running. apply Nat.ltb_lt. apply nth_error_Some.
    destruct (nth_error (code s) (ip s)); [discriminate|discriminate H].
  Qed.

  Lemma run_steps_err : forall n s sN k pl s' fuel,
    steps nf n s = Some sN -> is_running sN = true -> fetch_and_run nf sN = RErr k pl s' -> n < fuel ->
    run nf fuel s = Some (RErr k pl s').
  Proof.
    intros n s sN k pl s' fuel Hn Hr He Hlt.
    rewrite (run_is_stepping nf n s sN fuel Hn Hlt). rewrite Hr.
    destruct (fuel - n) as [|m] eqn:E; [lia|]. cbn [run]. rewrite Hr, He. reflexivity.
  Qed.

  (* the program is the tail of the code vector: the machine stops behind it *)
  Definition run_agrees (s : state) (r : sres) : Prop :=
    match r with
    | SDone t' =>
      exists N s', (forall k, N < k -> run nf k s = Some (ROk tt s')) /\ sim t' s'
    | SFail kd pl _ t' =>
      exists N s', (forall k, N < k -> run nf k s = Some (RErr kd pl s')) /\ sim t' s'
    | _ => True
    end.

  Theorem fwd_program_run : forall l org prog fuel t s,
    layout_program funs l org = Some prog -> prog_wf l ->
    skipn org (code s) = prog ->
    rlog s = None -> insn_limit s = None -> ip s = org -> sim t s ->
    run_agrees s (sblock fo funs fuel l t).
  Proof.
    intros l org prog fuel t s HL HW C Hl Hi Hip Hs.
    assert (C' : firstn (length prog) (skipn org (code s)) = prog) by (rewrite C; apply firstn_all).
    pose proof (fwd_program l org prog fuel t s HL HW C' Hl Hi Hip Hs) as H.
    destruct (sblock fo funs fuel l t) as [t'|t'|kd pl p t'| |]; cbn [agrees run_agrees] in *; auto.
    - destruct H as (n & s' & Hn & I' & S' & Cs & _).
      exists n, s'. split; [|exact S']. intros k Hk.
      rewrite (run_is_stepping nf n s s' k Hn Hk).
      assert (Hr : is_running s' = false).
      { unfold is_running. apply Nat.ltb_ge. rewrite Cs, I'. rewrite <- C. rewrite skipn_length. lia. }
      rewrite Hr. reflexivity.
    - destruct H as (n & sN & s' & Hn & HiN & F & S').
      exists n, s'. split; [|exact S']. intros k Hk.
      eapply run_steps_err; eauto. eapply step_err_running; eauto.
  Qed.
End Final.
