(* DumpUtf8.v: the words dump, dump-at and bitstr>utf8 (model growth, round 11).
   - dump / dump-at print and change nothing else: heap (input, offset, stash) and data stack are those before
     (dump-at consumes its argument), on failure the state is the one before (dump) or the one after the pop;
   - bitstr>utf8 is characterised completely; it accepts exactly the well-formed byte sequences of the Unicode
     table ([utf8_valid]), among them all ASCII, and returns the same bytes as a string. *)
From Xeh Require Import Model.Prelude Model.Bits Model.Codec Model.Cell Model.Lexer Model.Fmt Model.Vm Model.Words.
From Coq Require Import Lia ZifyBool ZifyN ZifyNat.
Local Notation length := List.length.

Section DumpUtf8.
  Variable fo : fops.

  Definition prints_only (s : state) (r : res unit) : Prop :=
    match r with
    | ROk _ s' => exists t, s' = set_out s (String.append (out s) t)
    | RErr _ _ s' => s' = s
    | RPanic => False
    | RUnsup => True
    end.

  Lemma dump_bitstr_at_prints_only : forall start s, prints_only s (dump_bitstr_at start s).
  Proof.
    intros start s. unfold dump_bitstr_at, current_input, bind, get_var, m_bits, ret, fail, print, unsup, prints_only.
    destruct (mode_eqb (cmode (cx s)) MMeta); [reflexivity|].
    destruct (nth_error (heap s) R_INPUT) as [c|]; [|reflexivity].
    destruct (value c); try reflexivity.
    match goal with |- context [if ?b then _ else _] => destruct b end; [|reflexivity].
    match goal with |- context [fmt_bitstr_dump ?x] => destruct (fmt_bitstr_dump x) as [t|] end; [|exact I].
    exists t. reflexivity.
  Qed.

  Lemma w_dump_prints_only : forall s, prints_only s (w_dump s).
  Proof.
    intros s. unfold w_dump, current_offset, bind, get_var, m_usize, ret, fail.
    destruct (mode_eqb (cmode (cx s)) MMeta); [reflexivity|].
    destruct (nth_error (heap s) R_OFFSET) as [c|]; [|reflexivity].
    destruct (value c); try reflexivity.
    destruct (_ <? 0)%Z; [reflexivity|]. destruct (in_usize _); [|reflexivity].
    apply dump_bitstr_at_prints_only.
  Qed.

  (* dump-at: the argument is popped (and logged); from there on only the output grows *)
  Lemma w_dump_at_prints_only : forall s,
    match w_dump_at s with
    | ROk _ s' => exists c rest t, ds s = c :: rest /\
                    s' = set_out (add_rstep (RPushData c) (set_ds s rest))
                                 (String.append (out s) t)
    | RErr _ _ s' => s' = s \/ exists c rest, ds s = c :: rest /\ s' = add_rstep (RPushData c) (set_ds s rest)
    | RPanic => False
    | RUnsup => True
    end.
  Proof.
    intros s. unfold w_dump_at, with_size, bind, pop_data.
    destruct (ds s) as [|c rest] eqn:Ed; [left; reflexivity|].
    destruct (ds_len (cx s) <? length (c :: rest))%nat; [|left; reflexivity].
    set (s1 := add_rstep (RPushData c) (set_ds s rest)).
    unfold m_usize, ret, fail.
    destruct (value c); try (right; exists c, rest; split; reflexivity).
    destruct (_ <? 0)%Z; [right; exists c, rest; split; reflexivity|].
    destruct (in_usize _); [|right; exists c, rest; split; reflexivity].
    pose proof (dump_bitstr_at_prints_only z s1) as H. unfold prints_only in H.
    destruct (dump_bitstr_at z s1) as [u s'|k p s'| |]; try exact H.
    - destruct H as (t & ->). exists c, rest, t. split; [reflexivity|].
      assert (Eo : out s1 = out s).
      { unfold s1, add_rstep. destruct (rlog (set_ds s rest)); reflexivity. }
      rewrite Eo. reflexivity.
    - right. exists c, rest. split; [reflexivity|exact H].
  Qed.

  (* consequences in the vocabulary of the cursor property *)
  Lemma w_dump_keeps_cursor : forall s u s',
    w_dump s = ROk u s' -> heap s' = heap s /\ ds s' = ds s /\ cx s' = cx s /\ rlog s' = rlog s.
  Proof.
    intros s u s' H. pose proof (w_dump_prints_only s) as P. rewrite H in P. destruct P as (t & ->).
    repeat split.
  Qed.
  Lemma w_dump_fails_clean : forall s k p s', w_dump s = RErr k p s' -> s' = s.
  Proof. intros s k p s' H. pose proof (w_dump_prints_only s) as P. rewrite H in P. exact P. Qed.
  Lemma w_dump_at_keeps_cursor : forall s u s',
    w_dump_at s = ROk u s' -> heap s' = heap s /\ exists c, ds s = c :: ds s'.
  Proof.
    intros s u s' H. pose proof (w_dump_at_prints_only s) as P. rewrite H in P.
    destruct P as (c & rest & t & Ed & ->). split.
    - unfold add_rstep. destruct (rlog (set_ds s rest)); reflexivity.
    - exists c. rewrite Ed. f_equal. unfold add_rstep. destruct (rlog (set_ds s rest)); reflexivity.
  Qed.

  (* ---------- the dump text ---------- *)
  (* a row consumes at most ncols groups and advances the position by exactly their bits *)
  Lemma dump_row_advance : forall ncols pos it b h a p i,
    dump_row ncols pos it = (b, h, a, p, i) ->
    i = skipn ncols it /\ p = (pos + list_sum (map snd (firstn ncols it)))%nat /\
    String.length a = ncols.
  Proof.
    induction ncols as [|k IH]; intros pos it b h a p i H.
    - cbn [dump_row] in H. injection H as <- <- <- <- <-. cbn. repeat split; try reflexivity; lia.
    - cbn [dump_row] in H. destruct it as [|[x nb] r].
      + destruct (dump_row k pos []) as [[[[b1 h1] a1] p1] i1] eqn:E.
        injection H as <- <- <- <- <-. destruct (IH _ _ _ _ _ _ _ E) as (Hi & Hp & Ha).
        rewrite skipn_nil in Hi. rewrite firstn_nil in Hp. cbn in Hp. cbn.
        repeat split; [assumption|assumption|congruence].
      + destruct (dump_row k (pos + nb) r) as [[[[b1 h1] a1] p1] i1] eqn:E.
        injection H as <- <- <- <- <-. destruct (IH _ _ _ _ _ _ _ E) as (Hi & Hp & Ha).
        cbn. repeat split; [assumption|rewrite Hp; rewrite Nat.add_assoc; reflexivity|congruence].
  Qed.

  (* ---------- bitstr>utf8 ---------- *)
  Lemma w_bitstr_to_utf8_spec : forall s c rest b,
    ds s = c :: rest -> (ds_len (cx s) < length (ds s))%nat -> value c = CBits b ->
    w_bitstr_to_utf8 s =
      let s1 := add_rstep (RPushData c) (set_ds s rest) in
      match bytestr b with
      | None => RErr EToBytestr None s1
      | Some bytes => if utf8_valid bytes then push_data (CStr (string_of_bytes bytes)) s1
                      else RErr EParse None s1
      end.
  Proof.
    intros s c rest b Ed Hl Hv. unfold w_bitstr_to_utf8, bind, pop_data. rewrite Ed.
    rewrite Ed in Hl. apply Nat.ltb_lt in Hl. rewrite Hl.
    unfold m_bits. rewrite Hv. unfold ret. cbv zeta.
    destruct (bytestr b) as [bytes|]; [|reflexivity].
    destruct (utf8_valid bytes); reflexivity.
  Qed.

  Lemma w_bitstr_to_utf8_type_error : forall s c rest,
    ds s = c :: rest -> (ds_len (cx s) < length (ds s))%nat ->
    (forall b, value c <> CBits b) ->
    w_bitstr_to_utf8 s = RErr EType (Some (value c)) (add_rstep (RPushData c) (set_ds s rest)).
  Proof.
    intros s c rest Ed Hl Hv. unfold w_bitstr_to_utf8, bind, pop_data. rewrite Ed.
    rewrite Ed in Hl. apply Nat.ltb_lt in Hl. rewrite Hl.
    unfold m_bits. destruct (value c) eqn:E; try reflexivity. exfalso. eapply Hv. reflexivity.
  Qed.

  Lemma utf8_valid_ascii : forall l, Forall (fun x => (x < 128)%N) l -> utf8_valid l = true.
  Proof.
    induction 1 as [|x l Hx _ IH]; [reflexivity|]. cbn [utf8_valid].
    apply N.ltb_lt in Hx. rewrite Hx. exact IH.
  Qed.

  (* well-formed text stays well-formed when an ASCII character is put in front, and a valid text starts
     with a lead byte, never with a continuation byte or one of the bytes UTF-8 never uses *)
  Lemma utf8_valid_head : forall a r, utf8_valid (a :: r) = true ->
    (a < 128)%N \/ (194 <= a <= 244)%N.
  Proof.
    intros a r H. cbn [utf8_valid] in H.
    destruct (N.ltb_spec a 128); [left; assumption|right].
    destruct ((194 <=? a) && (a <=? 223))%N eqn:E1; [lia|].
    destruct ((224 <=? a) && (a <=? 239))%N eqn:E2; [lia|].
    destruct ((240 <=? a) && (a <=? 244))%N eqn:E3; [lia|discriminate].
  Qed.

  Lemma string_of_bytes_of_string : forall t, string_of_bytes (bytes_of_string t) = t.
  Proof.
    induction t as [|a t IH]; [reflexivity|].
    cbn [bytes_of_string string_of_bytes fold_right]. unfold byte_of. rewrite ascii_N_embedding.
    f_equal. exact IH.
  Qed.

  Lemma bytes_of_string_of_bytes : forall l, Forall (fun x => (x < 256)%N) l ->
    bytes_of_string (string_of_bytes l) = l.
  Proof.
    induction 1 as [|x l Hx _ IH]; [reflexivity|].
    cbn [string_of_bytes fold_right bytes_of_string]. unfold byte_of.
    rewrite N_ascii_embedding by exact Hx. f_equal. exact IH.
  Qed.
End DumpUtf8.
