(* CollWords.v: word-level statements of C12 for the collection words: what each word does
   to the data stack on well-typed inputs, which inputs fail with which error, and that a
   failing word only pops. *)
From Xeh Require Import Model.Prelude Model.Bits Model.Codec Model.Cell Model.Lexer Model.Fmt
                        Model.Vm Model.Words Proofs.BitsProofs Proofs.CellProofs Proofs.CollProofs
                        Proofs.CollVec.
From Coq Require Import Sorting.Sorted Sorting.Permutation ZifyBool ZifyNat ZifyN.
Local Notation length := List.length.

#[local] Arguments Z.add : simpl never.
#[local] Arguments Z.sub : simpl never.
#[local] Arguments Z.mul : simpl never.
#[local] Arguments Z.ltb : simpl never.
#[local] Arguments Z.leb : simpl never.
#[local] Arguments Z.eqb : simpl never.
#[local] Arguments Z.of_nat : simpl never.
#[local] Arguments Z.to_nat : simpl never.

(* ------------------------------------------------------------------ *)
(* 0. vocabulary                                                       *)
(* ------------------------------------------------------------------ *)

(* only the data stack and the reverse log differ *)
Definition only_ds (s s' : state) : Prop := exists l, s' = set_rlog (set_ds s (ds s')) l.
Definition has_args (n : nat) (s : state) : Prop := (ds_len (cx s) + n <= length (ds s))%nat.
Definition room (s : state) (rest : list cell) : Prop :=
  limit_reached (stack_limit s) (length rest) = false.

(* the states the two stack primitives produce *)
Definition popd (c : cell) (r : list cell) (s : state) : state := add_rstep (RPushData c) (set_ds s r).
Definition pushd (c : cell) (s : state) : state := set_ds (add_rstep RPopData s) (c :: ds s).

Lemma only_ds_refl : forall s, only_ds s s.
Proof. intro s. exists (rlog s). destruct s; reflexivity. Qed.

Lemma only_ds_trans : forall a b c, only_ds a b -> only_ds b c -> only_ds a c.
Proof.
  intros a b c [l1 H1] [l2 H2]. exists l2. rewrite H2. rewrite H1 at 1.
  destruct a; reflexivity.
Qed.

Lemma only_ds_set_ds : forall s s' d, only_ds s s' -> only_ds s (set_ds s' d).
Proof.
  intros s s' d [l H]. exists l. rewrite H. destruct s; reflexivity.
Qed.

Lemma only_ds_add_rstep : forall s s' r, only_ds s s' -> only_ds s (add_rstep r s').
Proof.
  intros s s' r [l H]. unfold add_rstep. destruct (rlog s') as [lg|]; [| exists l; exact H].
  exists (Some (r :: lg)). rewrite H. destruct s; reflexivity.
Qed.

Lemma only_ds_popd : forall s s' c r, only_ds s s' -> only_ds s (popd c r s').
Proof. intros. unfold popd. apply only_ds_add_rstep, only_ds_set_ds. assumption. Qed.

Lemma only_ds_pushd : forall s s' c, only_ds s s' -> only_ds s (pushd c s').
Proof. intros. unfold pushd. apply only_ds_set_ds, only_ds_add_rstep. assumption. Qed.

(* what only_ds preserves *)
Lemma only_ds_cx : forall s s', only_ds s s' -> cx s' = cx s.
Proof. intros s s' [l H]. rewrite H. reflexivity. Qed.
Lemma only_ds_stack_limit : forall s s', only_ds s s' -> stack_limit s' = stack_limit s.
Proof. intros s s' [l H]. rewrite H. reflexivity. Qed.
Lemma only_ds_loops : forall s s', only_ds s s' -> loops s' = loops s.
Proof. intros s s' [l H]. rewrite H. reflexivity. Qed.
Lemma only_ds_special : forall s s', only_ds s s' -> special s' = special s.
Proof. intros s s' [l H]. rewrite H. reflexivity. Qed.
Lemma only_ds_rs : forall s s', only_ds s s' -> rs s' = rs s.
Proof. intros s s' [l H]. rewrite H. reflexivity. Qed.
Lemma only_ds_heap : forall s s', only_ds s s' -> heap s' = heap s.
Proof. intros s s' [l H]. rewrite H. reflexivity. Qed.
Lemma only_ds_code : forall s s', only_ds s s' -> code s' = code s.
Proof. intros s s' [l H]. rewrite H. reflexivity. Qed.
Lemma only_ds_dict : forall s s', only_ds s s' -> dict s' = dict s.
Proof. intros s s' [l H]. rewrite H. reflexivity. Qed.
Lemma only_ds_out : forall s s', only_ds s s' -> out s' = out s.
Proof. intros s s' [l H]. rewrite H. reflexivity. Qed.
Lemma only_ds_meter : forall s s', only_ds s s' -> meter s' = meter s.
Proof. intros s s' [l H]. rewrite H. reflexivity. Qed.

(* projections of the primitive states *)
Lemma ds_add_rstep : forall r s, ds (add_rstep r s) = ds s.
Proof. intros. unfold add_rstep. destruct (rlog s); reflexivity. Qed.
Lemma cx_add_rstep : forall r s, cx (add_rstep r s) = cx s.
Proof. intros. unfold add_rstep. destruct (rlog s); reflexivity. Qed.
Lemma stack_limit_add_rstep : forall r s, stack_limit (add_rstep r s) = stack_limit s.
Proof. intros. unfold add_rstep. destruct (rlog s); reflexivity. Qed.
Lemma loops_add_rstep : forall r s, loops (add_rstep r s) = loops s.
Proof. intros. unfold add_rstep. destruct (rlog s); reflexivity. Qed.
Lemma special_add_rstep : forall r s, special (add_rstep r s) = special s.
Proof. intros. unfold add_rstep. destruct (rlog s); reflexivity. Qed.

Lemma ds_popd : forall c r s, ds (popd c r s) = r.
Proof. intros. unfold popd. rewrite ds_add_rstep. reflexivity. Qed.
Lemma cx_popd : forall c r s, cx (popd c r s) = cx s.
Proof. intros. unfold popd. rewrite cx_add_rstep. reflexivity. Qed.
Lemma stack_limit_popd : forall c r s, stack_limit (popd c r s) = stack_limit s.
Proof. intros. unfold popd. rewrite stack_limit_add_rstep. reflexivity. Qed.
Lemma loops_popd : forall c r s, loops (popd c r s) = loops s.
Proof. intros. unfold popd. rewrite loops_add_rstep. reflexivity. Qed.

Lemma ds_pushd : forall c s, ds (pushd c s) = c :: ds s.
Proof. reflexivity. Qed.
Lemma cx_pushd : forall c s, cx (pushd c s) = cx s.
Proof. intros. unfold pushd. cbn [cx set_ds]. apply cx_add_rstep. Qed.
Lemma stack_limit_pushd : forall c s, stack_limit (pushd c s) = stack_limit s.
Proof. intros. unfold pushd. cbn [stack_limit set_ds]. apply stack_limit_add_rstep. Qed.
Lemma loops_pushd : forall c s, loops (pushd c s) = loops s.
Proof. intros. unfold pushd. cbn [loops set_ds]. apply loops_add_rstep. Qed.

Lemma has_args_le : forall n m s, (m <= n)%nat -> has_args n s -> has_args m s.
Proof. unfold has_args. intros. lia. Qed.

Lemma limit_reached_mono : forall lim n m, (m <= n)%nat ->
  limit_reached lim n = false -> limit_reached lim m = false.
Proof. intros lim n m H. unfold limit_reached. destruct lim; auto. lia. Qed.

Lemma room_none : forall s rest, stack_limit s = None -> room s rest.
Proof. intros s rest H. unfold room. rewrite H. reflexivity. Qed.

(* ------------------------------------------------------------------ *)
(* 1. the primitives                                                   *)
(* ------------------------------------------------------------------ *)
Lemma pop_data_eq : forall s c r, ds s = c :: r -> has_args 1 s ->
  pop_data s = ROk c (popd c r s).
Proof.
  intros s c r Hd Ha. unfold pop_data, has_args in *. rewrite Hd in *.
  destruct (Nat.ltb_spec (ds_len (cx s)) (length (c :: r))); [reflexivity | lia].
Qed.

Lemma pop_data_underflow : forall s, ~ has_args 1 s -> pop_data s = RErr EUnderflow None s.
Proof.
  intros s Ha. unfold pop_data, has_args in *. destruct (ds s) as [| c r]; [reflexivity|].
  destruct (Nat.ltb_spec (ds_len (cx s)) (length (c :: r))); [lia | reflexivity].
Qed.

(* the complete description of pop_data *)
Theorem pop_data_ok : forall s c r, ds s = c :: r -> has_args 1 s ->
  exists s1, pop_data s = ROk c s1 /\ s1 = add_rstep (RPushData c) (set_ds s r) /\
             ds s1 = r /\ only_ds s s1 /\ cx s1 = cx s /\ stack_limit s1 = stack_limit s /\
             loops s1 = loops s.
Proof.
  intros s c r Hd Ha. exists (popd c r s). split; [apply pop_data_eq; assumption|].
  split; [reflexivity|]. split; [apply ds_popd|]. split; [apply only_ds_popd, only_ds_refl|].
  split; [apply cx_popd|]. split; [apply stack_limit_popd | apply loops_popd].
Qed.

(* one pop in a word that still needs n more arguments *)
Lemma pop_step : forall s c r n, ds s = c :: r -> has_args (S n) s ->
  pop_data s = ROk c (popd c r s) /\ ds (popd c r s) = r /\ has_args n (popd c r s) /\
  only_ds s (popd c r s).
Proof.
  intros s c r n Hd Ha. split; [| split; [| split]].
  - apply pop_data_eq; [assumption|]. eapply has_args_le; [|exact Ha]. lia.
  - apply ds_popd.
  - unfold has_args in *. rewrite cx_popd, ds_popd. rewrite Hd in Ha. cbn [length] in Ha. lia.
  - apply only_ds_popd, only_ds_refl.
Qed.

Lemma top_data_eq : forall s c r, ds s = c :: r -> has_args 1 s -> top_data s = ROk c s.
Proof.
  intros s c r Hd Ha. unfold top_data, has_args in *. rewrite Hd in *.
  destruct (Nat.ltb_spec (ds_len (cx s)) (length (c :: r))); [reflexivity | lia].
Qed.

Lemma top_data_underflow : forall s, ~ has_args 1 s -> top_data s = RErr EUnderflow None s.
Proof.
  intros s Ha. unfold top_data, has_args in *. destruct (ds s) as [| c r]; [reflexivity|].
  destruct (Nat.ltb_spec (ds_len (cx s)) (length (c :: r))); [lia | reflexivity].
Qed.

Lemma push_data_eq : forall c s, room s (ds s) -> push_data c s = ROk tt (pushd c s).
Proof. intros c s H. unfold push_data, room in *. rewrite H. reflexivity. Qed.

Lemma push_data_limit : forall c s, limit_reached (stack_limit s) (length (ds s)) = true ->
  push_data c s = RErr ELimit None s.
Proof. intros c s H. unfold push_data. rewrite H. reflexivity. Qed.

Theorem push_data_ok : forall c s, room s (ds s) ->
  exists s1, push_data c s = ROk tt s1 /\ ds s1 = c :: ds s /\ only_ds s s1.
Proof.
  intros c s H. exists (pushd c s). split; [apply push_data_eq; assumption|].
  split; [reflexivity | apply only_ds_pushd, only_ds_refl].
Qed.

(* the push that ends a word: the stack is [rest] after the pops *)
Lemma push_final : forall s0 s rest c, ds s = rest -> only_ds s0 s -> room s0 rest ->
  exists s', push_data c s = ROk tt s' /\ ds s' = c :: rest /\ only_ds s0 s'.
Proof.
  intros s0 s rest c Hd Ho Hr. exists (pushd c s). split; [| split].
  - apply push_data_eq. unfold room in *. rewrite (only_ds_stack_limit _ _ Ho), Hd. assumption.
  - rewrite ds_pushd, Hd. reflexivity.
  - apply only_ds_pushd. assumption.
Qed.

(* pop_n *)
Lemma pop_n_ok : forall items s rest, ds s = (items ++ rest)%list -> has_args (length items) s ->
  exists s', pop_n (length items) s = ROk tt s' /\ ds s' = rest /\ only_ds s s'.
Proof.
  induction items as [| x items IH]; intros s rest Hd Ha.
  - exists s. cbn [pop_n length]. split; [reflexivity|]. split; [assumption | apply only_ds_refl].
  - cbn [length pop_n]. unfold bind.
    destruct (pop_step s x (items ++ rest)%list (length items) Hd Ha) as (E & Hd1 & Ha1 & Ho1).
    rewrite E. destruct (IH _ rest Hd1 Ha1) as (s' & E' & Hd' & Ho').
    exists s'. split; [assumption|]. split; [assumption|]. eapply only_ds_trans; eassumption.
Qed.

Lemma pop_n_underflow : forall n s, ~ has_args 1 s -> pop_n (S n) s = RErr EUnderflow None s.
Proof. intros n s H. cbn [pop_n]. unfold bind. rewrite pop_data_underflow by assumption. reflexivity. Qed.

(* push_all pushes left to right: the last element ends on top *)
Lemma push_all_ok : forall l s,
  (forall n, (n < length l)%nat -> limit_reached (stack_limit s) (length (ds s) + n) = false) ->
  exists s', push_all l s = ROk tt s' /\ ds s' = (rev l ++ ds s)%list /\ only_ds s s'.
Proof.
  induction l as [| x l IH]; intros s H.
  - exists s. split; [reflexivity|]. split; [reflexivity | apply only_ds_refl].
  - cbn [push_all]. unfold bind. rewrite push_data_eq.
    2:{ unfold room. specialize (H 0%nat). rewrite Nat.add_0_r in H. apply H. cbn [length]. lia. }
    destruct (IH (pushd x s)) as (s' & E & Hd & Ho).
    { intros n Hn. rewrite stack_limit_pushd, ds_pushd. cbn [length].
      replace (S (length (ds s)) + n)%nat with (length (ds s) + S n)%nat by lia.
      apply H. cbn [length]. lia. }
    exists s'. split; [assumption|]. split.
    + rewrite Hd, ds_pushd. cbn [rev]. rewrite <- app_assoc. reflexivity.
    + eapply only_ds_trans; [| exact Ho]. apply only_ds_pushd, only_ds_refl.
Qed.

(* ------------------------------------------------------------------ *)
(* 2. tactics                                                          *)
(* ------------------------------------------------------------------ *)
(* pop one cell: Hd : ds s = c :: r, Ha : has_args (S n) s *)
Ltac pop_with Hd Ha E Hd' Ha' :=
  let Ho := fresh "Ho" in
  destruct (pop_step _ _ _ _ Hd Ha) as (E & Hd' & Ha' & Ho); rewrite E; clear E Ho; cbv beta iota.

(* only_ds s (popd .. (popd .. s)) *)
Ltac ods := repeat (first [apply only_ds_popd | apply only_ds_pushd]); apply only_ds_refl.

(* the final push of a successful word *)
Ltac fin_push Hd Hr := eapply push_final; [exact Hd | ods | exact Hr].

(* a failing word: exhibit the state *)
Ltac fin_err Hd := eexists; split; [reflexivity | split; [exact Hd | ods]].

Lemma two64_pos : (0 < two64)%Z.
Proof. reflexivity. Qed.

(* ------------------------------------------------------------------ *)
(* 3. insert / remove / get / nth                                      *)
(* ------------------------------------------------------------------ *)
Theorem w_insert_ok : forall s key val c rest m,
  ds s = key :: val :: c :: rest -> has_args 3 s -> value c = CMap m -> room s rest ->
  exists s', w_insert s = ROk tt s' /\ ds s' = CMap (assoc_insert m key val) :: rest /\ only_ds s s'.
Proof.
  intros s key val c rest m Hd Ha Hc Hr. unfold w_insert, bind.
  pop_with Hd Ha E1 Hd1 Ha1. pop_with Hd1 Ha1 E2 Hd2 Ha2. pop_with Hd2 Ha2 E3 Hd3 Ha3.
  rewrite Hc. fin_push Hd3 Hr.
Qed.

Theorem w_insert_err_type : forall s key val c rest,
  ds s = key :: val :: c :: rest -> has_args 3 s -> (forall m, value c <> CMap m) ->
  exists s', w_insert s = RErr EType (Some (value c)) s' /\ ds s' = rest /\ only_ds s s'.
Proof.
  intros s key val c rest Hd Ha Hc. unfold w_insert, bind.
  pop_with Hd Ha E1 Hd1 Ha1. pop_with Hd1 Ha1 E2 Hd2 Ha2. pop_with Hd2 Ha2 E3 Hd3 Ha3.
  destruct (value c) eqn:Ev; try (fin_err Hd3). exfalso. eapply Hc. reflexivity.
Qed.

Theorem w_insert_underflow : forall s, ~ has_args 1 s -> w_insert s = RErr EUnderflow None s.
Proof. intros s H. unfold w_insert, bind. rewrite pop_data_underflow by assumption. reflexivity. Qed.

(* fewer than three arguments: the word fails after popping what there is *)
Theorem w_insert_underflow_2 : forall s key r, ds s = key :: r -> has_args 1 s -> ~ has_args 2 s ->
  exists s', w_insert s = RErr EUnderflow None s' /\ ds s' = r /\ only_ds s s'.
Proof.
  intros s key r Hd Ha Hn. unfold w_insert, bind.
  pop_with Hd Ha E1 Hd1 Ha1. rewrite pop_data_underflow.
  - fin_err Hd1.
  - unfold has_args in *. rewrite cx_popd, ds_popd. rewrite Hd in Hn. cbn [length] in Hn. lia.
Qed.

Theorem w_remove_ok : forall s key c rest m,
  ds s = key :: c :: rest -> has_args 2 s -> value c = CMap m -> room s rest ->
  exists s', w_remove s = ROk tt s' /\ ds s' = CMap (assoc_remove m key) :: rest /\ only_ds s s'.
Proof.
  intros s key c rest m Hd Ha Hc Hr. unfold w_remove, bind.
  pop_with Hd Ha E1 Hd1 Ha1. pop_with Hd1 Ha1 E2 Hd2 Ha2.
  rewrite Hc. fin_push Hd2 Hr.
Qed.

Theorem w_remove_err_type : forall s key c rest,
  ds s = key :: c :: rest -> has_args 2 s -> (forall m, value c <> CMap m) ->
  exists s', w_remove s = RErr EType (Some (value c)) s' /\ ds s' = rest /\ only_ds s s'.
Proof.
  intros s key c rest Hd Ha Hc. unfold w_remove, bind.
  pop_with Hd Ha E1 Hd1 Ha1. pop_with Hd1 Ha1 E2 Hd2 Ha2.
  destruct (value c) eqn:Ev; try (fin_err Hd2). exfalso. eapply Hc. reflexivity.
Qed.

Theorem w_remove_underflow : forall s, ~ has_args 1 s -> w_remove s = RErr EUnderflow None s.
Proof. intros s H. unfold w_remove, bind. rewrite pop_data_underflow by assumption. reflexivity. Qed.

Theorem w_get_map_ok : forall s key c rest m,
  ds s = key :: c :: rest -> has_args 2 s -> value c = CMap m -> room s rest ->
  exists s', w_get s = ROk tt s' /\
             ds s' = (match assoc_find m key with Some x => x | None => CNil end) :: rest /\
             only_ds s s'.
Proof.
  intros s key c rest m Hd Ha Hc Hr. unfold w_get, bind.
  pop_with Hd Ha E1 Hd1 Ha1. pop_with Hd1 Ha1 E2 Hd2 Ha2.
  rewrite Hc. fin_push Hd2 Hr.
Qed.

Theorem w_get_vec_ok : forall s key c rest v i,
  ds s = key :: c :: rest -> has_args 2 s -> value c = CVec v -> value key = CInt i ->
  in_usize i = true -> (i < Z.of_nat (length v))%Z -> room s rest ->
  exists x s', nth_error v (Z.to_nat i) = Some x /\
               w_get s = ROk tt s' /\ ds s' = x :: rest /\ only_ds s s'.
Proof.
  intros s key c rest v i Hd Ha Hc Hk Hi Hlt Hr. unfold w_get, bind.
  pop_with Hd Ha E1 Hd1 Ha1. pop_with Hd1 Ha1 E2 Hd2 Ha2.
  rewrite Hc. unfold m_usize. rewrite Hk, Hi.
  assert (H0 : (0 <= i)%Z) by (unfold in_usize in Hi; lia).
  destruct (Z.ltb_spec i 0); [lia|]. unfold ret. cbv beta iota.
  destruct (Z.leb_spec (Z.of_nat (length v)) i); [lia|].
  destruct (nth_error v (Z.to_nat i)) as [x|] eqn:En.
  - exists x. destruct (push_final s _ rest x Hd2) as (s' & P1 & P2 & P3); [ods | exact Hr |].
    exists s'. auto.
  - apply nth_error_None in En. lia.
Qed.

Theorem w_get_err_type : forall s key c rest,
  ds s = key :: c :: rest -> has_args 2 s ->
  (forall v, value c <> CVec v) -> (forall m, value c <> CMap m) ->
  exists s', w_get s = RErr EType (Some (value c)) s' /\ ds s' = rest /\ only_ds s s'.
Proof.
  intros s key c rest Hd Ha Hv Hm. unfold w_get, bind.
  pop_with Hd Ha E1 Hd1 Ha1. pop_with Hd1 Ha1 E2 Hd2 Ha2.
  destruct (value c) eqn:Ev; try (fin_err Hd2); exfalso; [eapply Hv | eapply Hm]; reflexivity.
Qed.

Theorem w_get_vec_err_bounds : forall s key c rest v i,
  ds s = key :: c :: rest -> has_args 2 s -> value c = CVec v -> value key = CInt i ->
  in_usize i = true -> (Z.of_nat (length v) <= i)%Z ->
  exists s', w_get s = RErr EBounds None s' /\ ds s' = rest /\ only_ds s s'.
Proof.
  intros s key c rest v i Hd Ha Hc Hk Hi Hge. unfold w_get, bind.
  pop_with Hd Ha E1 Hd1 Ha1. pop_with Hd1 Ha1 E2 Hd2 Ha2.
  rewrite Hc. unfold m_usize. rewrite Hk, Hi.
  assert (H0 : (0 <= i)%Z) by (unfold in_usize in Hi; lia).
  destruct (Z.ltb_spec i 0); [lia|]. unfold ret. cbv beta iota.
  destruct (Z.leb_spec (Z.of_nat (length v)) i); [|lia]. fin_err Hd2.
Qed.

(* a negative index is a type error that reports the key *)
Theorem w_get_vec_err_index : forall s key c rest v i,
  ds s = key :: c :: rest -> has_args 2 s -> value c = CVec v -> value key = CInt i -> (i < 0)%Z ->
  exists s', w_get s = RErr EType (Some key) s' /\ ds s' = rest /\ only_ds s s'.
Proof.
  intros s key c rest v i Hd Ha Hc Hk Hneg. unfold w_get, bind.
  pop_with Hd Ha E1 Hd1 Ha1. pop_with Hd1 Ha1 E2 Hd2 Ha2.
  rewrite Hc. unfold m_usize. rewrite Hk.
  destruct (Z.ltb_spec i 0); [|lia]. fin_err Hd2.
Qed.

Theorem w_get_vec_err_overflow : forall s key c rest v i,
  ds s = key :: c :: rest -> has_args 2 s -> value c = CVec v -> value key = CInt i -> (two64 <= i)%Z ->
  exists s', w_get s = RErr EOverflow None s' /\ ds s' = rest /\ only_ds s s'.
Proof.
  intros s key c rest v i Hd Ha Hc Hk Hbig. unfold w_get, bind.
  pop_with Hd Ha E1 Hd1 Ha1. pop_with Hd1 Ha1 E2 Hd2 Ha2.
  rewrite Hc. unfold m_usize. rewrite Hk. pose proof two64_pos.
  destruct (Z.ltb_spec i 0); [lia|].
  assert (Hi : in_usize i = false) by (unfold in_usize; lia). rewrite Hi. fin_err Hd2.
Qed.

Theorem w_get_vec_err_keytype : forall s key c rest v,
  ds s = key :: c :: rest -> has_args 2 s -> value c = CVec v -> (forall i, value key <> CInt i) ->
  exists s', w_get s = RErr EType (Some (value key)) s' /\ ds s' = rest /\ only_ds s s'.
Proof.
  intros s key c rest v Hd Ha Hc Hk. unfold w_get, bind.
  pop_with Hd Ha E1 Hd1 Ha1. pop_with Hd1 Ha1 E2 Hd2 Ha2.
  rewrite Hc. unfold m_usize.
  destruct (value key) eqn:Ev; try (fin_err Hd2). exfalso. eapply Hk. reflexivity.
Qed.

Theorem w_get_underflow : forall s, ~ has_args 1 s -> w_get s = RErr EUnderflow None s.
Proof. intros s H. unfold w_get, bind. rewrite pop_data_underflow by assumption. reflexivity. Qed.

(* nth: the index is popped and checked BEFORE the vector is popped *)
Theorem w_nth_ok : forall s i c rest v z n x,
  ds s = i :: c :: rest -> has_args 2 s -> value i = CInt z -> in_isize z = true ->
  value c = CVec v -> vec_index (length v) z = Some n -> nth_error v n = Some x -> room s rest ->
  exists s', w_nth s = ROk tt s' /\ ds s' = x :: rest /\ only_ds s s'.
Proof.
  intros s i c rest v z n x Hd Ha Hi Hz Hc Hn Hx Hr. unfold w_nth, bind.
  pop_with Hd Ha E1 Hd1 Ha1. unfold m_isize. rewrite Hi, Hz. unfold ret. cbv beta iota.
  pop_with Hd1 Ha1 E2 Hd2 Ha2. unfold m_vec. rewrite Hc. unfold ret. cbv beta iota.
  rewrite vector_get_spec, Hn, Hx. fin_push Hd2 Hr.
Qed.

(* the element always exists when the index is in range *)
Corollary w_nth_ok' : forall s i c rest v z n,
  ds s = i :: c :: rest -> has_args 2 s -> value i = CInt z -> in_isize z = true ->
  value c = CVec v -> vec_index (length v) z = Some n -> room s rest ->
  exists x s', nth_error v n = Some x /\ w_nth s = ROk tt s' /\ ds s' = x :: rest /\ only_ds s s'.
Proof.
  intros s i c rest v z n Hd Ha Hi Hz Hc Hn Hr.
  destruct (vec_index_nth v z n Hn) as [x Hx]. exists x.
  destruct (w_nth_ok s i c rest v z n x) as (s' & H); auto. exists s'. tauto.
Qed.

Theorem w_nth_err_bounds : forall s i c rest v z,
  ds s = i :: c :: rest -> has_args 2 s -> value i = CInt z -> in_isize z = true ->
  value c = CVec v -> vec_index (length v) z = None ->
  exists s', w_nth s = RErr EBounds None s' /\ ds s' = rest /\ only_ds s s'.
Proof.
  intros s i c rest v z Hd Ha Hi Hz Hc Hn. unfold w_nth, bind.
  pop_with Hd Ha E1 Hd1 Ha1. unfold m_isize. rewrite Hi, Hz. unfold ret. cbv beta iota.
  pop_with Hd1 Ha1 E2 Hd2 Ha2. unfold m_vec. rewrite Hc. unfold ret. cbv beta iota.
  rewrite vector_get_spec, Hn. fin_err Hd2.
Qed.

Theorem w_nth_err_overflow : forall s i r z,
  ds s = i :: r -> has_args 1 s -> value i = CInt z -> in_isize z = false ->
  exists s', w_nth s = RErr EOverflow None s' /\ ds s' = r /\ only_ds s s'.
Proof.
  intros s i r z Hd Ha Hi Hz. unfold w_nth, bind.
  pop_with Hd Ha E1 Hd1 Ha1. unfold m_isize. rewrite Hi, Hz. fin_err Hd1.
Qed.

Theorem w_nth_err_index_type : forall s i r,
  ds s = i :: r -> has_args 1 s -> (forall z, value i <> CInt z) ->
  exists s', w_nth s = RErr EType (Some (value i)) s' /\ ds s' = r /\ only_ds s s'.
Proof.
  intros s i r Hd Ha Hi. unfold w_nth, bind.
  pop_with Hd Ha E1 Hd1 Ha1. unfold m_isize.
  destruct (value i) eqn:Ev; try (fin_err Hd1). exfalso. eapply Hi. reflexivity.
Qed.

Theorem w_nth_err_type : forall s i c rest z,
  ds s = i :: c :: rest -> has_args 2 s -> value i = CInt z -> in_isize z = true ->
  (forall v, value c <> CVec v) ->
  exists s', w_nth s = RErr EType (Some (value c)) s' /\ ds s' = rest /\ only_ds s s'.
Proof.
  intros s i c rest z Hd Ha Hi Hz Hc. unfold w_nth, bind.
  pop_with Hd Ha E1 Hd1 Ha1. unfold m_isize. rewrite Hi, Hz. unfold ret. cbv beta iota.
  pop_with Hd1 Ha1 E2 Hd2 Ha2. unfold m_vec.
  destruct (value c) eqn:Ev; try (fin_err Hd2). exfalso. eapply Hc. reflexivity.
Qed.

Theorem w_nth_underflow : forall s, ~ has_args 1 s -> w_nth s = RErr EUnderflow None s.
Proof. intros s H. unfold w_nth, bind. rewrite pop_data_underflow by assumption. reflexivity. Qed.

(* ------------------------------------------------------------------ *)
(* 4. push / reverse / length / sort / slice                           *)
(* ------------------------------------------------------------------ *)
Theorem w_push_ok : forall s c x rest v,
  ds s = c :: x :: rest -> has_args 2 s -> value c = CVec v -> room s rest ->
  exists s', w_push s = ROk tt s' /\ ds s' = CVec (v ++ [x]) :: rest /\ only_ds s s'.
Proof.
  intros s c x rest v Hd Ha Hc Hr. unfold w_push, bind.
  pop_with Hd Ha E1 Hd1 Ha1. unfold m_vec. rewrite Hc. unfold ret. cbv beta iota.
  pop_with Hd1 Ha1 E2 Hd2 Ha2. fin_push Hd2 Hr.
Qed.

Theorem w_push_err_type : forall s c r,
  ds s = c :: r -> has_args 1 s -> (forall v, value c <> CVec v) ->
  exists s', w_push s = RErr EType (Some (value c)) s' /\ ds s' = r /\ only_ds s s'.
Proof.
  intros s c r Hd Ha Hc. unfold w_push, bind.
  pop_with Hd Ha E1 Hd1 Ha1. unfold m_vec.
  destruct (value c) eqn:Ev; try (fin_err Hd1). exfalso. eapply Hc. reflexivity.
Qed.

Theorem w_push_underflow : forall s, ~ has_args 1 s -> w_push s = RErr EUnderflow None s.
Proof. intros s H. unfold w_push, bind. rewrite pop_data_underflow by assumption. reflexivity. Qed.

Theorem w_reverse_ok : forall s c rest v,
  ds s = c :: rest -> has_args 1 s -> value c = CVec v -> room s rest ->
  exists s', w_reverse s = ROk tt s' /\ ds s' = CVec (rev v) :: rest /\ only_ds s s'.
Proof.
  intros s c rest v Hd Ha Hc Hr. unfold w_reverse, bind.
  pop_with Hd Ha E1 Hd1 Ha1. unfold m_vec. rewrite Hc. unfold ret. cbv beta iota.
  fin_push Hd1 Hr.
Qed.

Theorem w_reverse_err_type : forall s c r,
  ds s = c :: r -> has_args 1 s -> (forall v, value c <> CVec v) ->
  exists s', w_reverse s = RErr EType (Some (value c)) s' /\ ds s' = r /\ only_ds s s'.
Proof.
  intros s c r Hd Ha Hc. unfold w_reverse, bind.
  pop_with Hd Ha E1 Hd1 Ha1. unfold m_vec.
  destruct (value c) eqn:Ev; try (fin_err Hd1). exfalso. eapply Hc. reflexivity.
Qed.

Theorem w_reverse_underflow : forall s, ~ has_args 1 s -> w_reverse s = RErr EUnderflow None s.
Proof. intros s H. unfold w_reverse, bind. rewrite pop_data_underflow by assumption. reflexivity. Qed.

Theorem w_sort_ok : forall s c rest v,
  ds s = c :: rest -> has_args 1 s -> value c = CVec v -> room s rest ->
  exists s', w_sort s = ROk tt s' /\ ds s' = CVec (sort_cells v) :: rest /\ only_ds s s'.
Proof.
  intros s c rest v Hd Ha Hc Hr. unfold w_sort, bind.
  pop_with Hd Ha E1 Hd1 Ha1. unfold m_vec. rewrite Hc. unfold ret. cbv beta iota.
  fin_push Hd1 Hr.
Qed.

Theorem w_sort_err_type : forall s c r,
  ds s = c :: r -> has_args 1 s -> (forall v, value c <> CVec v) ->
  exists s', w_sort s = RErr EType (Some (value c)) s' /\ ds s' = r /\ only_ds s s'.
Proof.
  intros s c r Hd Ha Hc. unfold w_sort, bind.
  pop_with Hd Ha E1 Hd1 Ha1. unfold m_vec.
  destruct (value c) eqn:Ev; try (fin_err Hd1). exfalso. eapply Hc. reflexivity.
Qed.

Theorem w_sort_underflow : forall s, ~ has_args 1 s -> w_sort s = RErr EUnderflow None s.
Proof. intros s H. unfold w_sort, bind. rewrite pop_data_underflow by assumption. reflexivity. Qed.

(* length of a vector, a string (in BYTES, as str::len) or a bit string *)
Definition coll_length (c : cell) : option nat :=
  match value c with
  | CVec l => Some (length l)
  | CStr t => Some (String.length t)
  | CBits b => Some (clen b)
  | _ => None
  end.

Theorem w_length_ok : forall s c rest n,
  ds s = c :: rest -> has_args 1 s -> coll_length c = Some n -> room s rest ->
  exists s', w_length s = ROk tt s' /\ ds s' = CInt (Z.of_nat n) :: rest /\ only_ds s s'.
Proof.
  intros s c rest n Hd Ha Hc Hr. unfold w_length, bind.
  pop_with Hd Ha E1 Hd1 Ha1. unfold coll_length in Hc.
  destruct (value c); try discriminate Hc; injection Hc as <-; unfold cnat; fin_push Hd1 Hr.
Qed.

Corollary w_length_vec_ok : forall s c rest v,
  ds s = c :: rest -> has_args 1 s -> value c = CVec v -> room s rest ->
  exists s', w_length s = ROk tt s' /\ ds s' = CInt (Z.of_nat (length v)) :: rest /\ only_ds s s'.
Proof.
  intros s c rest v Hd Ha Hc Hr. apply (w_length_ok s c rest _ Hd Ha); [| exact Hr]. unfold coll_length. rewrite Hc. reflexivity.
Qed.

Corollary w_length_str_ok : forall s c rest t,
  ds s = c :: rest -> has_args 1 s -> value c = CStr t -> room s rest ->
  exists s', w_length s = ROk tt s' /\ ds s' = CInt (Z.of_nat (String.length t)) :: rest /\ only_ds s s'.
Proof.
  intros s c rest t Hd Ha Hc Hr. apply (w_length_ok s c rest _ Hd Ha); [| exact Hr]. unfold coll_length. rewrite Hc. reflexivity.
Qed.

Corollary w_length_bits_ok : forall s c rest b,
  ds s = c :: rest -> has_args 1 s -> value c = CBits b -> room s rest ->
  exists s', w_length s = ROk tt s' /\ ds s' = CInt (Z.of_nat (clen b)) :: rest /\ only_ds s s'.
Proof.
  intros s c rest b Hd Ha Hc Hr. apply (w_length_ok s c rest _ Hd Ha); [| exact Hr]. unfold coll_length. rewrite Hc. reflexivity.
Qed.

(* in particular a map has no length *)
Theorem w_length_err_type : forall s c r,
  ds s = c :: r -> has_args 1 s -> coll_length c = None ->
  exists s', w_length s = RErr EType (Some (value c)) s' /\ ds s' = r /\ only_ds s s'.
Proof.
  intros s c r Hd Ha Hc. unfold w_length, bind.
  pop_with Hd Ha E1 Hd1 Ha1. unfold coll_length in Hc.
  destruct (value c) eqn:Ev; try discriminate Hc; fin_err Hd1.
Qed.

Theorem w_length_underflow : forall s, ~ has_args 1 s -> w_length s = RErr EUnderflow None s.
Proof. intros s H. unfold w_length, bind. rewrite pop_data_underflow by assumption. reflexivity. Qed.

Theorem w_slice_ok : forall s e b c rest v st en,
  ds s = e :: b :: c :: rest -> has_args 3 s ->
  value e = CInt en -> in_isize en = true -> value b = CInt st -> in_isize st = true ->
  value c = CVec v -> room s rest ->
  exists s', w_slice s = ROk tt s' /\ ds s' = CVec (slice_list v st en) :: rest /\ only_ds s s'.
Proof.
  intros s e b c rest v st en Hd Ha He Hen Hb Hst Hc Hr. unfold w_slice, bind.
  pop_with Hd Ha E1 Hd1 Ha1. unfold m_isize at 1. rewrite He, Hen. unfold ret at 1. cbv beta iota.
  pop_with Hd1 Ha1 E2 Hd2 Ha2. unfold m_isize. rewrite Hb, Hst. unfold ret. cbv beta iota.
  pop_with Hd2 Ha2 E3 Hd3 Ha3. rewrite Hc. fin_push Hd3 Hr.
Qed.

Theorem w_slice_str_ok : forall s e b c rest t st en,
  ds s = e :: b :: c :: rest -> has_args 3 s ->
  value e = CInt en -> in_isize en = true -> value b = CInt st -> in_isize st = true ->
  value c = CStr t -> room s rest ->
  exists s', w_slice s = ROk tt s' /\
             ds s' = CStr (str_concat (slice_list (str_chars t) st en)) :: rest /\ only_ds s s'.
Proof.
  intros s e b c rest t st en Hd Ha He Hen Hb Hst Hc Hr. unfold w_slice, bind.
  pop_with Hd Ha E1 Hd1 Ha1. unfold m_isize at 1. rewrite He, Hen. unfold ret at 1. cbv beta iota.
  pop_with Hd1 Ha1 E2 Hd2 Ha2. unfold m_isize. rewrite Hb, Hst. unfold ret. cbv beta iota.
  pop_with Hd2 Ha2 E3 Hd3 Ha3. rewrite Hc. fin_push Hd3 Hr.
Qed.

(* slice reports the whole cell (tags included), not its value *)
Theorem w_slice_err_type : forall s e b c rest st en,
  ds s = e :: b :: c :: rest -> has_args 3 s ->
  value e = CInt en -> in_isize en = true -> value b = CInt st -> in_isize st = true ->
  (forall v, value c <> CVec v) -> (forall t, value c <> CStr t) ->
  exists s', w_slice s = RErr EType (Some c) s' /\ ds s' = rest /\ only_ds s s'.
Proof.
  intros s e b c rest st en Hd Ha He Hen Hb Hst Hv Ht. unfold w_slice, bind.
  pop_with Hd Ha E1 Hd1 Ha1. unfold m_isize at 1. rewrite He, Hen. unfold ret at 1. cbv beta iota.
  pop_with Hd1 Ha1 E2 Hd2 Ha2. unfold m_isize. rewrite Hb, Hst. unfold ret. cbv beta iota.
  pop_with Hd2 Ha2 E3 Hd3 Ha3.
  destruct (value c) eqn:Ev; try (fin_err Hd3); exfalso; [eapply Ht | eapply Hv]; reflexivity.
Qed.

Theorem w_slice_err_overflow : forall s e r en,
  ds s = e :: r -> has_args 1 s -> value e = CInt en -> in_isize en = false ->
  exists s', w_slice s = RErr EOverflow None s' /\ ds s' = r /\ only_ds s s'.
Proof.
  intros s e r en Hd Ha He Hen. unfold w_slice, bind.
  pop_with Hd Ha E1 Hd1 Ha1. unfold m_isize at 1. rewrite He, Hen. fin_err Hd1.
Qed.

Theorem w_slice_underflow : forall s, ~ has_args 1 s -> w_slice s = RErr EUnderflow None s.
Proof. intros s H. unfold w_slice, bind. rewrite pop_data_underflow by assumption. reflexivity. Qed.

(* ------------------------------------------------------------------ *)
(* 5. collect / unbox                                                  *)
(* ------------------------------------------------------------------ *)
Lemma firstn_length_app : forall {A} (l r : list A), firstn (length l) (l ++ r) = l.
Proof.
  intros A l r. rewrite firstn_app, Nat.sub_diag, firstn_all. cbn [firstn]. apply app_nil_r.
Qed.

(* the cells above the mark [length rest], oldest first *)
Lemma vec_collect_ok : forall s items rest,
  ds s = (items ++ rest)%list -> has_args (length items) s ->
  exists s', vec_collect_till_ptr (length rest) s = ROk (rev items) s' /\ ds s' = rest /\ only_ds s s'.
Proof.
  intros s items rest Hd Ha. unfold vec_collect_till_ptr, bind, get. cbv beta iota zeta.
  rewrite Hd, app_length.
  destruct (Nat.ltb_spec (length items + length rest) (length rest)); [lia|].
  replace (length items + length rest - length rest)%nat with (length items) by lia.
  rewrite firstn_length_app.
  destruct (pop_n_ok items s rest Hd Ha) as (s' & E & Hd' & Ho'). rewrite E. unfold ret.
  exists s'. auto.
Qed.

Lemma vec_collect_err_flow : forall s ptr, (length (ds s) < ptr)%nat ->
  vec_collect_till_ptr ptr s = RErr EFlow None s.
Proof.
  intros s ptr H. unfold vec_collect_till_ptr, bind, get. cbv beta iota zeta.
  destruct (Nat.ltb_spec (length (ds s)) ptr); [reflexivity | lia].
Qed.

Theorem w_unbox_ok : forall s c rest v,
  ds s = c :: rest -> has_args 1 s -> value c = CVec v ->
  (forall n, (n < length v)%nat -> limit_reached (stack_limit s) (length rest + n) = false) ->
  exists s', w_unbox s = ROk tt s' /\ ds s' = (rev v ++ rest)%list /\ only_ds s s'.
Proof.
  intros s c rest v Hd Ha Hc Hr. unfold w_unbox, bind.
  pop_with Hd Ha E1 Hd1 Ha1. unfold m_vec. rewrite Hc. unfold ret. cbv beta iota.
  destruct (push_all_ok v (popd c rest s)) as (s' & E & Hd' & Ho').
  { intros n Hn. rewrite stack_limit_popd, Hd1. auto. }
  exists s'. rewrite Hd1 in Hd'. split; [exact E|]. split; [exact Hd'|].
  eapply only_ds_trans; [| exact Ho']. ods.
Qed.

Corollary w_unbox_ok_nolimit : forall s c rest v,
  ds s = c :: rest -> has_args 1 s -> value c = CVec v -> stack_limit s = None ->
  exists s', w_unbox s = ROk tt s' /\ ds s' = (rev v ++ rest)%list /\ only_ds s s'.
Proof.
  intros s c rest v Hd Ha Hc Hl. apply (w_unbox_ok s c rest v Hd Ha Hc).
  intros n _. rewrite Hl. reflexivity.
Qed.

Theorem w_unbox_err_type : forall s c r,
  ds s = c :: r -> has_args 1 s -> (forall v, value c <> CVec v) ->
  exists s', w_unbox s = RErr EType (Some (value c)) s' /\ ds s' = r /\ only_ds s s'.
Proof.
  intros s c r Hd Ha Hc. unfold w_unbox, bind.
  pop_with Hd Ha E1 Hd1 Ha1. unfold m_vec.
  destruct (value c) eqn:Ev; try (fin_err Hd1). exfalso. eapply Hc. reflexivity.
Qed.

Theorem w_unbox_underflow : forall s, ~ has_args 1 s -> w_unbox s = RErr EUnderflow None s.
Proof. intros s H. unfold w_unbox, bind. rewrite pop_data_underflow by assumption. reflexivity. Qed.

(* has_args (S (length items)) s  is  ds_len (cx s) + 1 + length items <= length (ds s) *)
Theorem w_collect_ok : forall s c items rest,
  ds s = c :: (items ++ rest)%list -> value c = CInt (Z.of_nat (length items)) ->
  in_usize (Z.of_nat (length items)) = true -> has_args (S (length items)) s -> room s rest ->
  exists s', w_collect s = ROk tt s' /\ ds s' = CVec (rev items) :: rest /\ only_ds s s'.
Proof.
  intros s c items rest Hd Hc Hu Ha Hr. unfold w_collect, bind.
  pop_with Hd Ha E1 Hd1 Ha1. unfold m_usize. rewrite Hc, Hu.
  destruct (Z.ltb_spec (Z.of_nat (length items)) 0); [lia|].
  unfold ret at 1. unfold get. cbv beta iota.
  destruct (Z.ltb_spec (Z.of_nat (data_depth (popd c (items ++ rest)%list s))) (Z.of_nat (length items))) as [L | L].
  { unfold data_depth, has_args in *. lia. }
  clear L. rewrite Nat2Z.id.
  replace (length (ds (popd c (items ++ rest)%list s)) - length items)%nat with (length rest)
    by (rewrite Hd1, app_length; lia).
  destruct (vec_collect_ok _ items rest Hd1 Ha1) as (s2 & E & Hd2 & Ho2). rewrite E. cbv beta iota.
  eapply push_final; [exact Hd2 | | exact Hr].
  eapply only_ds_trans; [| exact Ho2]. ods.
Qed.

Theorem w_collect_err_underflow : forall s c r n,
  ds s = c :: r -> has_args 1 s -> value c = CInt n -> in_usize n = true ->
  (Z.of_nat (length r - ds_len (cx s)) < n)%Z ->
  exists s', w_collect s = RErr EUnderflow None s' /\ ds s' = r /\ only_ds s s'.
Proof.
  intros s c r n Hd Ha Hc Hu Hlt. unfold w_collect, bind.
  pop_with Hd Ha E1 Hd1 Ha1. unfold m_usize. rewrite Hc, Hu.
  assert (H0 : (0 <= n)%Z) by (unfold in_usize in Hu; lia).
  destruct (Z.ltb_spec n 0); [lia|].
  unfold ret at 1. unfold get. cbv beta iota.
  unfold data_depth. rewrite cx_popd, Hd1.
  destruct (Z.ltb_spec (Z.of_nat (length r - ds_len (cx s))) n); [|lia]. fin_err Hd1.
Qed.

Theorem w_collect_err_type : forall s c r,
  ds s = c :: r -> has_args 1 s -> (forall n, value c <> CInt n) ->
  exists s', w_collect s = RErr EType (Some (value c)) s' /\ ds s' = r /\ only_ds s s'.
Proof.
  intros s c r Hd Ha Hc. unfold w_collect, bind.
  pop_with Hd Ha E1 Hd1 Ha1. unfold m_usize.
  destruct (value c) eqn:Ev; try (fin_err Hd1). exfalso. eapply Hc. reflexivity.
Qed.

Theorem w_collect_err_negative : forall s c r n,
  ds s = c :: r -> has_args 1 s -> value c = CInt n -> (n < 0)%Z ->
  exists s', w_collect s = RErr EType (Some c) s' /\ ds s' = r /\ only_ds s s'.
Proof.
  intros s c r n Hd Ha Hc Hn. unfold w_collect, bind.
  pop_with Hd Ha E1 Hd1 Ha1. unfold m_usize. rewrite Hc.
  destruct (Z.ltb_spec n 0); [|lia]. fin_err Hd1.
Qed.

Theorem w_collect_underflow : forall s, ~ has_args 1 s -> w_collect s = RErr EUnderflow None s.
Proof. intros s H. unfold w_collect, bind. rewrite pop_data_underflow by assumption. reflexivity. Qed.

(* collect then unbox gives the cells back *)
Theorem collect_unbox : forall s c items rest,
  ds s = c :: (items ++ rest)%list -> value c = CInt (Z.of_nat (length items)) ->
  in_usize (Z.of_nat (length items)) = true -> has_args (S (length items)) s -> room s rest ->
  (forall n, (n < length items)%nat -> limit_reached (stack_limit s) (length rest + n) = false) ->
  exists s', (w_collect ;; w_unbox) s = ROk tt s' /\ ds s' = (items ++ rest)%list /\ only_ds s s'.
Proof.
  intros s c items rest Hd Hc Hu Ha Hr Hl. unfold bind at 1.
  destruct (w_collect_ok s c items rest Hd Hc Hu Ha Hr) as (s1 & E1 & Hd1 & Ho1). rewrite E1.
  destruct (w_unbox_ok s1 (CVec (rev items)) rest (rev items) Hd1) as (s2 & E2 & Hd2 & Ho2).
  - unfold has_args in *. rewrite (only_ds_cx _ _ Ho1), Hd1. rewrite Hd in Ha.
    cbn [length] in *. rewrite app_length in Ha. lia.
  - reflexivity.
  - intros n Hn. rewrite rev_length in Hn. rewrite (only_ds_stack_limit _ _ Ho1). auto.
  - exists s2. rewrite rev_involutive in Hd2. split; [exact E2|]. split; [exact Hd2|].
    eapply only_ds_trans; eassumption.
Qed.

(* unbox, push the count, collect: the vector is rebuilt (tags of the vector cell are lost) *)
Theorem unbox_collect : forall s c rest v,
  ds s = c :: rest -> has_args 1 s -> value c = CVec v -> in_usize (Z.of_nat (length v)) = true ->
  (forall n, (n <= length v)%nat -> limit_reached (stack_limit s) (length rest + n) = false) ->
  exists s', (w_unbox ;; push_data (cnat (length v)) ;; w_collect) s = ROk tt s' /\
             ds s' = CVec v :: rest /\ only_ds s s'.
Proof.
  intros s c rest v Hd Ha Hc Hu Hl. unfold bind at 1.
  destruct (w_unbox_ok s c rest v Hd Ha Hc) as (s1 & E1 & Hd1 & Ho1).
  { intros n Hn. apply Hl. lia. }
  rewrite E1. unfold bind at 1.
  assert (Hroom : room s1 (ds s1)).
  { unfold room. rewrite (only_ds_stack_limit _ _ Ho1), Hd1, app_length, rev_length.
    rewrite Nat.add_comm. apply Hl. lia. }
  rewrite (push_data_eq _ _ Hroom).
  destruct (w_collect_ok (pushd (cnat (length v)) s1) (cnat (length v)) (rev v) rest) as (s2 & E2 & Hd2 & Ho2).
  - rewrite ds_pushd, Hd1. reflexivity.
  - rewrite rev_length. reflexivity.
  - rewrite rev_length. exact Hu.
  - unfold has_args in *. rewrite cx_pushd, ds_pushd, (only_ds_cx _ _ Ho1), Hd1.
    rewrite Hd in Ha. cbn [length] in *. rewrite app_length, rev_length. lia.
  - unfold room. rewrite stack_limit_pushd, (only_ds_stack_limit _ _ Ho1).
    specialize (Hl 0%nat). rewrite Nat.add_0_r in Hl. apply Hl. lia.
  - exists s2. rewrite rev_involutive in Hd2. split; [exact E2|]. split; [exact Hd2|].
    eapply only_ds_trans; [exact Ho1|]. eapply only_ds_trans; [| exact Ho2].
    apply only_ds_pushd, only_ds_refl.
Qed.

(* ------------------------------------------------------------------ *)
(* 6. iteration: %foreach-init and the loop counters I J K             *)
(* ------------------------------------------------------------------ *)
Definition coll_size (c : cell) : option nat :=
  match value c with
  | CMap m => Some (length m)
  | CVec v => Some (length v)
  | _ => None
  end.

(* a non-empty collection stays; its size and the start index 0 are pushed *)
Theorem w_foreach_init_ok : forall s c rest n,
  ds s = c :: rest -> has_args 1 s -> coll_size c = Some (S n) ->
  limit_reached (stack_limit s) (S (length (ds s))) = false ->
  exists s', w_foreach_init s = ROk tt s' /\
             ds s' = CInt 0 :: CInt (Z.of_nat (S n)) :: c :: rest /\ only_ds s s'.
Proof.
  intros s c rest n Hd Ha Hc Hl. unfold w_foreach_init. unfold bind at 1.
  rewrite (top_data_eq _ _ _ Hd Ha). unfold coll_size in Hc.
  assert (R1 : room s (ds s)) by (eapply limit_reached_mono; [| exact Hl]; lia).
  assert (R2 : forall x, room (pushd x s) (ds (pushd x s))).
  { intro x. unfold room. rewrite stack_limit_pushd, ds_pushd. exact Hl. }
  destruct (value c) as [| | | | | v | m | | | |]; try discriminate Hc; injection Hc as Hc; rewrite Hc;
    cbn [Nat.eqb]; unfold bind, ret; rewrite (push_data_eq _ _ R1), (push_data_eq _ _ (R2 _));
    (eexists; split; [reflexivity|]; split; [rewrite !ds_pushd, Hd; reflexivity | ods]).
Qed.

(* an empty collection is dropped first *)
Theorem w_foreach_init_empty : forall s c rest,
  ds s = c :: rest -> has_args 1 s -> coll_size c = Some 0%nat ->
  limit_reached (stack_limit s) (S (length rest)) = false ->
  exists s', w_foreach_init s = ROk tt s' /\ ds s' = CInt 0 :: CInt 0 :: rest /\ only_ds s s'.
Proof.
  intros s c rest Hd Ha Hc Hl. unfold w_foreach_init. unfold bind at 1.
  rewrite (top_data_eq _ _ _ Hd Ha). unfold coll_size in Hc.
  assert (R1 : room (popd c rest s) (ds (popd c rest s))).
  { unfold room. rewrite stack_limit_popd, ds_popd. eapply limit_reached_mono; [| exact Hl]. lia. }
  assert (R2 : forall x, room (pushd x (popd c rest s)) (ds (pushd x (popd c rest s)))).
  { intro x. unfold room. rewrite stack_limit_pushd, ds_pushd, stack_limit_popd, ds_popd. exact Hl. }
  destruct (value c) as [| | | | | v | m | | | |]; try discriminate Hc; injection Hc as Hc; rewrite Hc;
    cbn [Nat.eqb]; unfold w_drop, bind, ret; rewrite (pop_data_eq _ _ _ Hd Ha);
    rewrite (push_data_eq _ _ R1), (push_data_eq _ _ (R2 _));
    (eexists; split; [reflexivity|]; split; [rewrite !ds_pushd, ds_popd; reflexivity | ods]).
Qed.

(* anything else is a type error and nothing is popped *)
Theorem w_foreach_init_err_type : forall s c rest,
  ds s = c :: rest -> has_args 1 s -> coll_size c = None ->
  w_foreach_init s = RErr EType (Some (value c)) s.
Proof.
  intros s c rest Hd Ha Hc. unfold w_foreach_init. unfold bind at 1.
  rewrite (top_data_eq _ _ _ Hd Ha). unfold coll_size in Hc.
  destruct (value c); try discriminate Hc; reflexivity.
Qed.

Theorem w_foreach_init_underflow : forall s, ~ has_args 1 s -> w_foreach_init s = RErr EUnderflow None s.
Proof. intros s H. unfold w_foreach_init, bind. rewrite top_data_underflow by assumption. reflexivity. Qed.

(* the counter of the n-th innermost loop *)
Theorem w_counter_map_ok : forall n s l m i k v,
  nth_error (active_loops s) n = Some l -> value (l_items l) = CMap m ->
  l_start l = Z.of_nat i -> nth_error m i = Some (k, v) ->
  limit_reached (stack_limit s) (S (length (ds s))) = false ->
  exists s', w_counter n s = ROk tt s' /\ ds s' = v :: k :: ds s /\ only_ds s s'.
Proof.
  intros n s l m i k v Hl Hm Hs Hn Hlim. unfold w_counter. unfold bind at 1. unfold get.
  rewrite Hl. cbv zeta. rewrite Hm, Hs.
  assert (Hi : (i < length m)%nat) by (apply nth_error_Some; congruence).
  destruct (Z.ltb_spec (Z.of_nat i) 0); [lia|].
  destruct (Z.leb_spec (Z.of_nat (length m)) (Z.of_nat i)); [lia|]. cbn [orb].
  rewrite Nat2Z.id, Hn. unfold bind.
  assert (R1 : room s (ds s)) by (eapply limit_reached_mono; [| exact Hlim]; lia).
  assert (R2 : room (pushd k s) (ds (pushd k s))).
  { unfold room. rewrite stack_limit_pushd, ds_pushd. exact Hlim. }
  rewrite (push_data_eq _ _ R1), (push_data_eq _ _ R2).
  eexists; split; [reflexivity|]; split; [reflexivity | ods].
Qed.

Theorem w_counter_vec_ok : forall n s l v i x,
  nth_error (active_loops s) n = Some l -> value (l_items l) = CVec v ->
  l_start l = Z.of_nat i -> nth_error v i = Some x -> room s (ds s) ->
  exists s', w_counter n s = ROk tt s' /\ ds s' = x :: ds s /\ only_ds s s'.
Proof.
  intros n s l v i x Hl Hv Hs Hn R1. unfold w_counter. unfold bind at 1. unfold get.
  rewrite Hl. cbv zeta. rewrite Hv, Hs.
  assert (Hi : (i < length v)%nat) by (apply nth_error_Some; congruence).
  destruct (Z.ltb_spec (Z.of_nat i) 0); [lia|].
  destruct (Z.leb_spec (Z.of_nat (length v)) (Z.of_nat i)); [lia|]. cbn [orb].
  rewrite Nat2Z.id, Hn. rewrite (push_data_eq _ _ R1).
  eexists; split; [reflexivity|]; split; [reflexivity | ods].
Qed.

(* a counted (do) loop: the index itself *)
Theorem w_counter_nil_ok : forall n s l,
  nth_error (active_loops s) n = Some l -> value (l_items l) = CNil -> room s (ds s) ->
  exists s', w_counter n s = ROk tt s' /\ ds s' = CInt (l_start l) :: ds s /\ only_ds s s'.
Proof.
  intros n s l Hl Hv R1. unfold w_counter. unfold bind at 1. unfold get.
  rewrite Hl. cbv zeta. rewrite Hv. rewrite (push_data_eq _ _ R1).
  eexists; split; [reflexivity|]; split; [reflexivity | ods].
Qed.

Theorem w_counter_no_loop : forall n s,
  nth_error (active_loops s) n = None -> w_counter n s = RErr ELoopUnderflow None s.
Proof. intros n s H. unfold w_counter, bind, get. rewrite H. reflexivity. Qed.

(* the index of a foreach loop past the end of its collection: an internal error *)
Theorem w_counter_err_internal : forall n s l m,
  nth_error (active_loops s) n = Some l -> value (l_items l) = CMap m ->
  (l_start l < 0 \/ Z.of_nat (length m) <= l_start l)%Z ->
  w_counter n s = RErr EInternal None s.
Proof.
  intros n s l m Hl Hm Hr. unfold w_counter, bind, get. rewrite Hl. cbv zeta. rewrite Hm.
  destruct (Z.ltb_spec (l_start l) 0); [reflexivity|].
  destruct (Z.leb_spec (Z.of_nat (length m)) (l_start l)); [reflexivity | lia].
Qed.

(* ------------------------------------------------------------------ *)
(* 7. literals: %vec-end and %map-end                                  *)
(* ------------------------------------------------------------------ *)
(* the state after the mark has been taken from the special stack *)
Definition pops (p : nat) (sp : list nat) (s : state) : state :=
  add_rstep (RPushSpecial p) (set_special s sp).

Lemma pop_special_eq : forall s p sp, special s = p :: sp -> (ss_ptr (cx s) < length (special s))%nat ->
  pop_special s = ROk (Some p) (pops p sp s).
Proof.
  intros s p sp Hs Hl. unfold pop_special. rewrite Hs in *.
  destruct (Nat.ltb_spec (ss_ptr (cx s)) (length (p :: sp))); [reflexivity | lia].
Qed.

Lemma pop_special_none : forall s, (length (special s) <= ss_ptr (cx s))%nat -> pop_special s = ROk None s.
Proof.
  intros s Hl. unfold pop_special. destruct (special s) as [| p sp]; [reflexivity|].
  destruct (Nat.ltb_spec (ss_ptr (cx s)) (length (p :: sp))); [lia | reflexivity].
Qed.

Lemma ds_pops : forall p sp s, ds (pops p sp s) = ds s.
Proof. intros. unfold pops. rewrite ds_add_rstep. reflexivity. Qed.
Lemma cx_pops : forall p sp s, cx (pops p sp s) = cx s.
Proof. intros. unfold pops. rewrite cx_add_rstep. reflexivity. Qed.
Lemma special_pops : forall p sp s, special (pops p sp s) = sp.
Proof. intros. unfold pops. rewrite special_add_rstep. reflexivity. Qed.
Lemma only_ds_pops : forall p sp s, only_ds (set_special s sp) (pops p sp s).
Proof. intros. unfold pops. apply only_ds_add_rstep, only_ds_refl. Qed.

Theorem w_vec_end_ok : forall s items rest sp,
  special s = length rest :: sp -> (ss_ptr (cx s) < length (special s))%nat ->
  ds s = (items ++ rest)%list -> has_args (length items) s -> room s rest ->
  exists s', w_vec_end s = ROk tt s' /\ ds s' = CVec (rev items) :: rest /\ special s' = sp /\
             only_ds (set_special s sp) s'.
Proof.
  intros s items rest sp Hs Hl Hd Ha Hr. unfold w_vec_end. unfold bind at 1.
  rewrite (pop_special_eq _ _ _ Hs Hl). unfold bind.
  destruct (vec_collect_ok (pops (length rest) sp s) items rest) as (s1 & E & Hd1 & Ho1).
  { rewrite ds_pops. exact Hd. }
  { unfold has_args in *. rewrite cx_pops, ds_pops. exact Ha. }
  rewrite E.
  destruct (push_final (set_special s sp) s1 rest (CVec (rev items)) Hd1) as (s' & P1 & P2 & P3).
  { eapply only_ds_trans; [apply only_ds_pops | exact Ho1]. }
  { exact Hr. }
  exists s'. split; [exact P1|]. split; [exact P2|]. split; [| exact P3].
  rewrite (only_ds_special _ _ P3). reflexivity.
Qed.

Theorem w_vec_end_err_flow : forall s, (length (special s) <= ss_ptr (cx s))%nat ->
  w_vec_end s = RErr EFlow None s.
Proof. intros s H. unfold w_vec_end, bind. rewrite pop_special_none by assumption. reflexivity. Qed.

Lemma map_collect_ok : forall s items rest,
  ds s = (items ++ rest)%list -> has_args (length items) s -> Nat.modulo (length items) 2 = 0%nat ->
  exists s', map_collect_till_ptr (length rest) s = ROk (pairs_insert (rev items) []) s' /\
             ds s' = rest /\ only_ds s s'.
Proof.
  intros s items rest Hd Ha He. unfold map_collect_till_ptr, bind, get. cbv beta iota zeta.
  rewrite Hd, app_length.
  destruct (Nat.ltb_spec (length items + length rest) (length rest)); [lia|].
  replace (length items + length rest - length rest)%nat with (length items) by lia.
  rewrite He. cbn [Nat.eqb negb].
  rewrite firstn_length_app.
  destruct (pop_n_ok items s rest Hd Ha) as (s' & E & Hd' & Ho'). rewrite E. unfold ret.
  exists s'. auto.
Qed.

(* { v1 k1 v2 k2 ... }: the cells above the mark, oldest first, folded by pairs_insert
   (see pairs_insert_find / pairs_insert_sorted in CollProofs.v: the last binding wins) *)
Theorem w_map_end_ok : forall s items rest sp,
  special s = length rest :: sp -> (ss_ptr (cx s) < length (special s))%nat ->
  ds s = (items ++ rest)%list -> has_args (length items) s ->
  Nat.modulo (length items) 2 = 0%nat -> room s rest ->
  exists s', w_map_end s = ROk tt s' /\ ds s' = CMap (pairs_insert (rev items) []) :: rest /\
             special s' = sp /\ only_ds (set_special s sp) s'.
Proof.
  intros s items rest sp Hs Hl Hd Ha He Hr. unfold w_map_end. unfold bind at 1.
  rewrite (pop_special_eq _ _ _ Hs Hl). unfold bind.
  destruct (map_collect_ok (pops (length rest) sp s) items rest) as (s1 & E & Hd1 & Ho1).
  { rewrite ds_pops. exact Hd. }
  { unfold has_args in *. rewrite cx_pops, ds_pops. exact Ha. }
  { exact He. }
  rewrite E.
  destruct (push_final (set_special s sp) s1 rest (CMap (pairs_insert (rev items) [])) Hd1)
    as (s' & P1 & P2 & P3).
  { eapply only_ds_trans; [apply only_ds_pops | exact Ho1]. }
  { exact Hr. }
  exists s'. split; [exact P1|]. split; [exact P2|]. split; [| exact P3].
  rewrite (only_ds_special _ _ P3). reflexivity.
Qed.

(* an odd number of cells: a flow error; the mark is consumed, no cell is popped *)
Theorem w_map_end_err_odd : forall s items rest sp,
  special s = length rest :: sp -> (ss_ptr (cx s) < length (special s))%nat ->
  ds s = (items ++ rest)%list -> Nat.modulo (length items) 2 <> 0%nat ->
  w_map_end s = RErr EFlow None (pops (length rest) sp s).
Proof.
  intros s items rest sp Hs Hl Hd Ho. unfold w_map_end. unfold bind at 1.
  rewrite (pop_special_eq _ _ _ Hs Hl). unfold map_collect_till_ptr, bind, get. cbv beta iota zeta.
  rewrite ds_pops, Hd, app_length.
  destruct (Nat.ltb_spec (length items + length rest) (length rest)); [lia|].
  replace (length items + length rest - length rest)%nat with (length items) by lia.
  destruct (Nat.eqb_spec (Nat.modulo (length items) 2) 0); [contradiction|]. reflexivity.
Qed.

Theorem w_map_end_err_flow : forall s, (length (special s) <= ss_ptr (cx s))%nat ->
  w_map_end s = RErr EFlow None s.
Proof. intros s H. unfold w_map_end, bind. rewrite pop_special_none by assumption. reflexivity. Qed.

(* ------------------------------------------------------------------ *)
(* concat / join on a vector of strings                                *)
(* ------------------------------------------------------------------ *)
Theorem w_concat_strings_ok : forall s c rest ts,
  ds s = c :: rest -> has_args 1 s -> value c = CVec (map CStr ts) -> room s rest ->
  exists s', w_concat s = ROk tt s' /\ ds s' = CStr (String.concat EmptyString ts) :: rest /\ only_ds s s'.
Proof.
  intros s c rest ts Hd Ha Hc Hr. unfold w_concat, bind.
  pop_with Hd Ha E1 Hd1 Ha1. unfold m_vec. rewrite Hc. unfold ret at 1. cbv beta iota.
  unfold join_str_vec. rewrite (join_cells_strings 39 None ts). unfold ret. cbv beta iota.
  cbn [sep_of]. fin_push Hd1 Hr.
Qed.

Theorem w_join_strings_ok : forall s sp c rest sep ts,
  ds s = sp :: c :: rest -> has_args 2 s -> value sp = CStr sep -> value c = CVec (map CStr ts) -> room s rest ->
  exists s', w_join s = ROk tt s' /\ ds s' = CStr (String.concat sep ts) :: rest /\ only_ds s s'.
Proof.
  intros s sp c rest sep ts Hd Ha Hs Hc Hr. unfold w_join, bind.
  pop_with Hd Ha E1 Hd1 Ha1. unfold m_str. rewrite Hs. unfold ret at 1. cbv beta iota.
  pop_with Hd1 Ha1 E2 Hd2 Ha2. unfold m_vec. rewrite Hc. unfold ret at 1. cbv beta iota.
  unfold join_str_vec. rewrite (join_cells_strings 39 (Some sep) ts). unfold ret. cbv beta iota.
  cbn [sep_of]. fin_push Hd2 Hr.
Qed.
