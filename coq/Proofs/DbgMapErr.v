(* DbgMapErr.v (C17, 4 and the source-level form of 3).

   Build time: the token recorded by [get_token] is the token just read (a token of its source,
   with the word's own text); an unknown word fails in the state [get_token] left, so the
   location reported is the word itself; a lexical error is located at the offending token;
   whatever the failure, the last token is a token of a source, and [build_unwind] keeps it.

   Run time, source level: when [eval] builds the whole text and the code it built then
   fails, the state [eval] leaves has ip at the failing instruction and the debug map has an
   entry there. *)
From Xeh Require Import Model.Prelude Model.Bits Model.Codec Model.Cell Model.Lexer Model.Fmt
                        Model.Vm Model.Words Model.Build Model.Boot.
From Xeh Require Import Proofs.LexLoc Proofs.LexBasic Proofs.LexNext Proofs.LexAll.
From Xeh Require Import Proofs.VmFrame Proofs.VmLimits Proofs.DbgMapVm Proofs.DbgMapGen
                        Proofs.DbgMapAlign Proofs.DbgMapRun Proofs.DbgMapProv Proofs.DbgMapProvApi
                        Proofs.DbgMapMulti.

#[local] Arguments Z.add : simpl never.
#[local] Arguments Z.sub : simpl never.
#[local] Arguments Z.mul : simpl never.
#[local] Arguments Z.ltb : simpl never.
#[local] Arguments Z.leb : simpl never.
#[local] Arguments Z.eqb : simpl never.
#[local] Arguments Z.of_nat : simpl never.
#[local] Arguments Z.to_nat : simpl never.

(* the last token is a word token with text w, at its true place in its source *)
Definition last_is_word (s : state) (w : string) : Prop :=
  exists n a b src, last_tok s = Some (n, a, b) /\ nth_error (sources s) n = Some src /\
                    In (TWord w, a, b) (lex_string src) /\ w = substring_of src a b.

Lemma last_is_word_of s w : last_is s (TWord w) -> last_is_word s w.
Proof.
  intros (n & a & b & H1 & H2 & H3). exists n, a, b, (src_of s n).
  split; [exact H1|]. split; [unfold src_of; apply nth_error_nth'; exact H2|].
  split; [exact H3|]. eapply word_text_substring. exact H3.
Qed.

Section BuildErr.
  Variable fo : fops.
  Variable pr : string -> option Z.
  Variable rf : nat.

  (* reading a word records it *)
  Theorem get_token_word : forall s w s1, P0 s -> get_token pr s = ROk (BWord w) s1 ->
    last_is_word s1 w /\ P1 s1.
  Proof.
    intros s w s1 Hs H. pose proof (get_token_prov pr s Hs) as T. rewrite H in T. cbn [tok_post] in T.
    destruct T as [T1 T2]. split; [apply last_is_word_of; exact T2|exact T1].
  Qed.

  Lemma build_word_unknown : forall fuel name s, dict_entry s name = None ->
    build_word fo pr rf fuel name s = RErr EUnknown None s.
  Proof. intros fuel name s H. unfold build_word, bind, get. rewrite H. reflexivity. Qed.

  (* the pre-token step of build1 (meta blocks run what has been compiled so far) *)
  Definition pre_token (s : state) : M unit :=
    if mode_eqb (cmode (cx s)) MMeta && negb (has_pending_flow s) then run_m fo rf else ret tt.

  (* an unknown word: build1 fails in the state get_token left; the last token is the word *)
  Theorem build1_unknown_word : forall f d s s0 w s1,
    P0 s ->
    pre_token s s = ROk tt s0 ->
    get_token pr s0 = ROk (BWord w) s1 ->
    match top_function_flow s1 with
    | Some (_, _, ls) => rposition ls w 0 None = None
    | None => True
    end ->
    dict_entry s1 w = None ->
    build1 fo pr rf (S f) d s = RErr EUnknown None s1 /\ last_is_word s1 w.
  Proof.
    intros f d s s0 w s1 Hs Hpre Htok Hloc Hd. split.
    - cbn [build1]. unfold bind at 1, get. fold (pre_token s). unfold bind at 1. rewrite Hpre.
      unfold bind at 1. rewrite Htok. unfold bind at 1, get.
      destruct (top_function_flow s1) as [[[fa fb] ls]|].
      + rewrite Hloc. unfold bind at 1. rewrite build_word_unknown by exact Hd. reflexivity.
      + unfold bind at 1. rewrite build_word_unknown by exact Hd. reflexivity.
    - assert (H0 : P0 s0).
      { revert Hpre. unfold pre_token. destruct (_ && _).
        - intros Hr. pose proof (gq_run_m fo rf PE P0 P0_vm P0_PE s Hs) as X. rewrite Hr in X. exact X.
        - intros Hr. injection Hr as <-. exact Hs. }
      exact (proj1 (get_token_word s0 w s1 H0 Htok)).
  Qed.

  (* a meta block whose code fails: the failure happens in the pre-token step of build1, which
     returns the state of the failing run - ip at the failing instruction, entry present *)
  Theorem build1_meta_run_error : forall f d s k p s',
    al s -> pre_token s s = RErr k p s' ->
    build1 fo pr rf (S f) d s = RErr k p s' /\ cmode (cx s) = MMeta /\
    exists n s1,
      steps (native_fn fo) n s = Some s1 /\ is_running s1 = true /\
      fetch_and_run (native_fn fo) s1 = RErr k p s' /\
      ip s' = ip s1 /\ dbg s' = dbg s /\ sources s' = sources s /\
      exists t, nth_error (dbg s') (ip s') = Some t /\ nth_error (dbg s) (ip s1) = Some t.
  Proof.
    intros f d s k p s' Ha Hpre. split.
    - cbn [build1]. unfold bind at 1, get. fold (pre_token s). unfold bind at 1. rewrite Hpre. reflexivity.
    - unfold pre_token in Hpre.
      destruct (mode_eqb (cmode (cx s)) MMeta) eqn:Em; cbn [andb] in Hpre; [|discriminate].
      split; [destruct (cmode (cx s)); try discriminate; reflexivity|].
      destruct (negb (has_pending_flow s)); [|discriminate].
      unfold run_m in Hpre. destruct (run (nf fo) rf s) as [r|] eqn:Er; [|discriminate]. subst r.
      destruct (run_err_location fo rf _ _ _ _ Er) as (n & s1 & H1 & H2 & H3 & H4 & H5 & H6 & _ & H8).
      exists n, s1. repeat (split; [assumption|]). apply H8. exact Ha.
  Qed.

  (* "! name" with an unknown name: the last token is the name *)
  Theorem setvar_unknown : forall s name s1, P0 s ->
    next_name pr s = ROk name s1 -> dict_entry s1 name = None ->
    i_setvar pr s = RErr EUnknown None s1 /\ last_is_word s1 name.
  Proof.
    intros s name s1 Hs Hn Hd. split.
    - unfold i_setvar. unfold bind at 1. rewrite Hn. unfold bind at 1, get. rewrite Hd. reflexivity.
    - unfold next_name in Hn. cbv zeta in Hn.
      destruct (get_token pr s) as [t s2|k p s2| |] eqn:Et; try discriminate.
      destruct t as [|w|c]; try discriminate. injection Hn as E1 E2. subst w s2.
      exact (proj1 (get_token_word s name s1 Hs Et)).
  Qed.

  (* a lexical error: the last token is the offending token *)
  Theorem get_token_error : forall s k p s1, P0 s -> get_token pr s = RErr k p s1 ->
    k = EParse /\ PE s1 /\
    ((exists e x y, last_is s1 (TErr e x y)) \/ (exists txt, last_is s1 (TReal txt) /\ pr txt = None)).
  Proof.
    intros s k p s1 Hs H. pose proof (get_token_prov pr s Hs) as T. rewrite H in T. cbn [tok_post] in T.
    tauto.
  Qed.

  Lemma P0_start_state : forall src m s, m <> MMeta -> PT s -> P0 (start_state src m s).
  Proof.
    intros src m s Hm [He Hin]. unfold start_state.
    match goal with |- P0 (set_input (set_sources ?so _) _) =>
      assert (Ho : PE so);
      [ eapply PE_ctx; [..|exact He]; try reflexivity;
        destruct He as (_ & _ & _ & [Hr|Hr]); [left; exact Hr|right];
        apply nometa_open with (m := m); [exact Hm|reflexivity|exact Hr]
      | assert (Hio : inputs_ok so) by (unfold inputs_ok; cbn [set_nested set_cx input]; rewrite Hin; constructor);
        split; [apply (intern_state_PE src so Ho)|apply (intern_state_inputs src so Hio)] ]
    end.
  Qed.

  (* whatever fails during the build of a source: the state eval / compile leave has the last
     token recorded at the failure (unwinding keeps it), and it is a token of a source *)
  Theorem build_error_last_tok : forall fuel src m s k p s2, m <> MMeta -> PT s ->
    build1 fo pr rf fuel (length (nested (start_state src m s))) (start_state src m s) = RErr k p s2 ->
    exists s', build_from_source fo pr rf fuel src m s = RErr k p s' /\
               last_tok s' = last_tok s2 /\ sources s' = sources s2 /\ PT s' /\ PE s2.
  Proof.
    intros fuel src m s k p s2 Hm Hs Hb.
    pose proof (PT_build_from_source fo pr rf fuel src m s Hm Hs) as HT.
    revert HT. unfold build_from_source. cbv zeta. rewrite start_state_eq. rewrite Hb.
    cbn [res_all]. intros HT. eexists. split; [reflexivity|].
    assert (H2 : PE s2).
    { pose proof (P0_start_state src m s Hm Hs) as H1.
      pose proof (prov_build1 fo pr rf fuel (length (nested (start_state src m s))) _ H1) as X. rewrite Hb in X. exact X. }
    destruct (PE_build_unwind (length (nested s)) (length (input s)) (length (ds s)) (length (heap s)) s2 H2)
      as (_ & _ & X3 & X4).
    split; [exact X3|]. split; [exact X4|]. split; [exact HT|exact H2].
  Qed.
End BuildErr.

(* ---------- run-time errors at source level ---------- *)
Section EvalRun.
  Variable fo : fops.
  Variable pr : string -> option Z.
  Variable rf : nat.

  Lemma build1_ok_depth : forall fuel d s u s', build1 fo pr rf fuel d s = ROk u s' -> length (nested s') = d.
  Proof.
    induction fuel as [|f IH]; intros d s u s' H; cbn [build1] in H; [discriminate|].
    apply bind_ok in H. destruct H as (s0 & s0' & H0 & H). injection H0 as <- <-.
    apply bind_ok in H. destruct H as (u1 & s1 & _ & H).
    apply bind_ok in H. destruct H as (t & s2 & Ht & H).
    destruct t as [|name|v].
    - apply bind_ok in H. destruct H as (s3 & s3' & H3 & H). injection H3 as E3 E3'. subst s3 s3'.
      destruct (length (nested s2) =? d)%nat eqn:Ed; cbn [negb] in H; [|discriminate].
      destruct (has_pending_flow s2); [discriminate|].
      injection H as H. subst s'. apply Nat.eqb_eq. exact Ed.
    - apply bind_ok in H. destruct H as (s3 & s3' & H3 & H). injection H3 as E3 E3'. subst s3 s3'.
      destruct (top_function_flow s2) as [[[fa fb] ls]|].
      + destruct (rposition ls name 0 None);
          apply bind_ok in H; destruct H as (u4 & s4 & _ & H); eapply IH; exact H.
      + apply bind_ok in H; destruct H as (u4 & s4 & _ & H); eapply IH; exact H.
    - apply bind_ok in H; destruct H as (u4 & s4 & _ & H); eapply IH; exact H.
  Qed.

  (* closing an eval context whose code fails *)
  Lemma context_close_eval_err : forall s prev rest k p s',
    nested s = prev :: rest -> cmode (cx s) = MEval -> cmode prev = MEval ->
    context_close fo rf s = RErr k p s' ->
    exists n s1,
      steps (native_fn fo) n (set_nested s rest) = Some s1 /\ is_running s1 = true /\
      (exists s2, fetch_and_run (native_fn fo) s1 = RErr k p s2) /\
      ip s' = ip s1 /\ dbg s' = dbg s /\ sources s' = sources s /\ nested s' = rest /\
      (al s -> exists t, nth_error (dbg s') (ip s') = Some t /\ nth_error (dbg s) (ip s1) = Some t).
  Proof.
    intros s prev rest k p s' En Em Ep H. unfold context_close in H. rewrite En in H. cbv zeta in H.
    change (cmode (cx (set_nested s rest))) with (cmode (cx s)) in H. rewrite Em, Ep in H.
    cbn [mode_eqb] in H. unfold run_m in H.
    destruct (run (nf fo) rf (set_nested s rest)) as [r|] eqn:Er; [|discriminate].
    destruct r as [u s1|k1 p1 s1| |]; try discriminate. injection H as <- <- <-.
    destruct (run_err_location fo rf _ _ _ _ Er) as (n & s3 & H1 & H2 & H3 & H4 & H5 & H6 & H7 & H8).
    exists n, s3. split; [exact H1|]. split; [exact H2|]. split; [eexists; exact H3|].
    split; [exact H4|]. split; [exact H5|]. split; [exact H6|].
    split; [cbn [set_cx nested]; pose proof (steps_vmrel _ (native_wl fo) _ _ _ H1) as V1;
            pose proof (far_vmrel (native_fn fo) (native_wl fo) s3) as V2; rewrite H3 in V2; cbn [res_all] in V2;
            destruct (vmrel_keeps _ _ V1) as (_ & _ & _ & _ & _ & K6 & _);
            destruct (vmrel_keeps _ _ V2) as (_ & _ & _ & _ & _ & K6' & _); rewrite K6', K6; reflexivity|].
    intros Ha. apply H8. exact Ha.
  Qed.

  (* the whole text was built, then its code failed *)
  Theorem eval_runtime_error : forall fuel src s s2 k p s',
    al s -> cmode (cx s) = MEval ->
    build1 fo pr rf fuel (length (nested (start_state src MEval s))) (start_state src MEval s) = ROk tt s2 ->
    eval fo pr rf fuel src s = RErr k p s' ->
    exists n s3,
      steps (native_fn fo) n (set_nested s2 (tl (nested s2))) = Some s3 /\ is_running s3 = true /\
      (exists s4, fetch_and_run (native_fn fo) s3 = RErr k p s4) /\
      ip s' = ip s3 /\ dbg s' = dbg s2 /\ sources s' = sources s2 /\
      (exists t, nth_error (dbg s') (ip s') = Some t /\ nth_error (dbg s2) (ip s3) = Some t) /\
      firstn (length (dbg s)) (dbg s') = dbg s.
  Proof.
    intros fuel src s s2 k p s' Ha Hm Hb He.
    unfold eval, build_from_source in He. cbv zeta in He. rewrite start_state_eq, Hb in He.
    pose proof (K_start src MEval s ltac:(discriminate) Ha) as K1.
    pose proof (K_build1 fo pr rf _ _ _ _ _ _ fuel (length (nested (start_state src MEval s))) _ K1) as K2. rewrite Hb in K2.
    pose proof (build1_ok_depth _ _ _ _ _ Hb) as Hd.
    change (length (nested (start_state src MEval s))) with (S (length (nested s))) in Hd.
    destruct (K_closed_shape _ _ _ _ _ _ _ K2 Hd) as [C1 C2].
    destruct (nested s2) as [|prev rest] eqn:En; [discriminate|].
    cbn [map] in C2. apply (f_equal (@hd _ (0, MEval))) in C2. cbn [hd] in C2.
    assert (Ep : cmode prev = MEval).
    { apply (f_equal snd) in C2. cbn [cshape snd] in C2. congruence. }
    assert (Ha2 : al s2) by exact (proj1 (proj1 K2)).
    destruct (context_close_eval_err s2 prev rest k p s' En C1 Ep He)
      as (n & s3 & H1 & H2 & H3 & H4 & H5 & H6 & _ & H8).
    exists n, s3. cbn [tl]. split; [exact H1|]. split; [exact H2|]. split; [exact H3|].
    split; [exact H4|]. split; [exact H5|]. split; [exact H6|]. split; [apply H8; exact Ha2|].
    rewrite H5. exact (proj1 (proj2 (proj1 K2))).
  Qed.
End EvalRun.
