(* CompileBwdParse.v: every program the parser of Struct.v returns is closed: every call, at
   top level and in the function bodies, names a function that has a body (a name is bound to
   a function only by `:`, and the body is recorded when `;` closes the definition; inside
   the definition the function may call itself).  So the converse theorems hold for every
   source, not just for trees that happen to satisfy [prog_closed]. *)
From Xeh Require Import Model.Prelude Model.Bits Model.Codec Model.Cell Model.Lexer Model.Fmt
                        Model.Vm Model.Words Model.Struct
                        Proofs.CompileLayout Proofs.CompileProg Proofs.CompileParse Proofs.CompileParse2
                        Proofs.CompileBwdStep Proofs.CompileBwdProg.
Local Notation length := List.length.

Definition below (n : nat) : nat -> Prop := fun g => g < n.

Lemma cg_b_Forall : forall G l, Forall (cg_s G) l -> cg_b G l.
Proof. induction 1; constructor; assumption. Qed.
Lemma Forall_cg_b : forall G l, cg_b G l -> Forall (cg_s G) l.
Proof. induction l as [|x r IH]; intro H; [constructor|]. inversion H; subst. constructor; auto. Qed.

Definition arm_cg (G : nat -> Prop) (a : arm) : Prop := cg_b G (fst (fst a)) /\ cg_b G (snd a).
Lemma cg_a_Forall : forall G l, Forall (arm_cg G) l -> cg_a G l.
Proof. induction 1 as [|[[pre p] body] r [H1 H2] _ IH]; constructor; assumption. Qed.

Lemma below_mono : forall n n' l, n <= n' -> Forall (cg_s (below n)) l -> Forall (cg_s (below n')) l.
Proof.
  intros n n' l Hle H. eapply Forall_impl; [|exact H]. intros x Hx. eapply cg_s_mono; [|exact Hx].
  unfold below. intros g Hg. lia.
Qed.

Lemma below_mono_b : forall n n' l, n <= n' -> Forall (cg_s (below n)) l -> cg_b (below n') l.
Proof. intros. apply cg_b_Forall. eapply below_mono; eauto. Qed.

Lemma arm_mono : forall n n' l, n <= n' -> Forall (arm_cg (below n)) l -> Forall (arm_cg (below n')) l.
Proof.
  intros n n' l Hle H. eapply Forall_impl; [|exact H]. intros [[pre p] body] [H1 H2].
  split; cbn [fst snd] in *; (eapply cg_b_mono; [|eassumption]); unfold below; intros g Hg; lia.
Qed.

(* ---------- what the parser maintains ---------- *)
Definition envC (e : penv) : Prop :=
  (forall w g, lookup (names e) w = Some (BFun g) -> g < nfun e) /\
  (forall g, g < nfun e -> fun_body (funs e) g <> None \/ (plocals e <> None /\ S g = nfun e)) /\
  Forall (fun gb => Forall (cg_s (below (nfun e))) (snd gb)) (funs e).

Definition cstep (e e' : penv) : Prop :=
  nfun e <= nfun e' /\
  (plocals e = None -> plocals e' = None) /\
  (plocals e <> None -> nfun e' = nfun e /\ plocals e' <> None).

Lemma cstep_refl : forall e, cstep e e.
Proof. intro e. split; [lia|]. split; auto. Qed.

Lemma cstep_trans : forall a b c, cstep a b -> cstep b c -> cstep a c.
Proof.
  intros a b c (A1 & A2 & A3) (B1 & B2 & B3). split; [lia|]. split; [auto|].
  intro H. destruct (A3 H) as [E1 P1]. destruct (B3 P1) as [E2 P2]. split; [congruence|exact P2].
Qed.

Definition cres (e : penv) (acc : list stmt) (r : pres) : Prop :=
  match r with
  | POk body term tp rest e' brk' =>
    exists news, body = rev acc ++ news /\ Forall (cg_s (below (nfun e'))) news /\ cstep e e' /\ envC e'
  | _ => True
  end.

Lemma c_push : forall e e1 acc x r,
  cres e1 (x :: acc) r -> cg_s (below (nfun e1)) x -> cstep e e1 -> cres e acc r.
Proof.
  intros e e1 acc x r H Hx Hs. destruct r as [body term tp rest e' brk'| |]; cbn [cres] in *; auto.
  destruct H as (news & Hb & Hn & Hs' & He). exists (x :: news).
  split; [rewrite Hb; cbn [rev]; rewrite <- app_assoc; reflexivity|].
  split; [|split; [eapply cstep_trans; eassumption|exact He]].
  constructor; [|exact Hn]. eapply cg_s_mono; [|exact Hx]. unfold below. intros g Hg. destruct Hs' as [Hle _]. lia.
Qed.

Lemma c_here : forall e acc brk w p rest, envC e -> cres e acc (POk (rev acc) w p rest e brk).
Proof.
  intros e acc brk w p rest He. exists []. split; [rewrite app_nil_r; reflexivity|].
  split; [constructor|]. split; [apply cstep_refl|exact He].
Qed.

Section ParseC.
  Variable fo : fops.
  Variable pr : string -> option Z.

  Definition CSpec (f : nat) : Prop :=
    forall toks e terms acc brk, envC e -> cres e acc (pseq fo pr f toks e terms acc brk).

  Lemma inner_c : forall f toks e0 terms0 tb term tp r1 e1 b1,
    CSpec f -> envC e0 ->
    pseq fo pr f toks e0 terms0 [] false = POk tb term tp r1 e1 b1 ->
    Forall (cg_s (below (nfun e1))) tb /\ cstep e0 e1 /\ envC e1.
  Proof.
    intros f toks e0 terms0 tb term tp r1 e1 b1 IH He E.
    pose proof (IH toks e0 terms0 [] false He) as H. rewrite E in H. cbn [cres] in H.
    destruct H as (news & Hb & Hn & Hs & He1). cbn [rev app] in Hb. subst tb. auto.
  Qed.

  Lemma parms_c : forall f e terms acc, CSpec f ->
    forall k toks e' got brk',
      Forall (arm_cg (below (nfun e'))) got -> cstep e e' -> envC e' ->
      cres e acc (parms fo pr f e terms acc k toks e' got brk').
  Proof.
    intros f e terms acc IH. induction k as [|k IHk]; intros toks e' got brk' Hg Hs He; [exact I|].
    cbn [parms].
    destruct (pseq fo pr f toks e' ["of"%string; "endcase"%string] [] false) as [pre term pof r1 e1 b1|?|] eqn:E1;
      [|exact I|exact I].
    destruct (inner_c _ _ _ _ _ _ _ _ _ _ IH He E1) as (N1 & S1 & C1).
    apply m2_of_endcase; [intros _| intros _ |exact I].
    - destruct (pseq fo pr f r1 e1 ["endof"%string] [] false) as [body term2 tp2 r2 e2 b2|?|] eqn:E2;
        [|exact I|exact I].
      destruct (inner_c _ _ _ _ _ _ _ _ _ _ IH C1 E2) as (N2 & S2 & C2).
      apply m1_endof; [intros _|exact I].
      pose proof (proj1 S1) as L1. pose proof (proj1 S2) as L2.
      apply IHk.
      + apply Forall_app. split; [eapply arm_mono; [|exact Hg]; lia|]. constructor; [|constructor].
        split; cbn [fst snd]; [eapply below_mono_b; [|exact N1]; lia|apply cg_b_Forall; exact N2].
      + eapply cstep_trans; [exact Hs|]. eapply cstep_trans; eassumption.
      + exact C2.
    - eapply c_push.
      + apply IH. exact C1.
      + cbn [nfun leave]. constructor; [apply cg_a_Forall; eapply arm_mono; [|exact Hg]; apply S1|apply cg_b_Forall; exact N1].
      + change (cstep e e1). eapply cstep_trans; eassumption.
  Qed.

  Ltac simple_c IH He :=
    eapply c_push; [ apply IH; exact He | constructor | apply cstep_refl ].

  Lemma envC_var : forall e name a,
    envC e ->
    envC (mkpenv ((name, BVar a) :: names e) (funs e) (nfun e) (S a) (plocals e) (loopdepth e) (nest e)).
  Proof.
    intros e name a (P1 & P2 & P3). split; [|split; [exact P2|exact P3]].
    intros w g H. cbn [names lookup] in H. destruct (String.eqb name w); [discriminate|]. eapply P1; eauto.
  Qed.

  Lemma envC_locals : forall e ls, envC e -> plocals e <> None -> envC (set_locals e (Some ls)).
  Proof.
    intros e ls (P1 & P2 & P3) Hp. split; [exact P1|]. split; [|exact P3].
    intros g Hg. destruct (P2 g Hg) as [H|[_ H]]; [left; exact H|right; split; [cbn; discriminate|exact H]].
  Qed.

  Lemma cspec_step : forall f, CSpec f -> CSpec (S f).
  Proof.
    intros f IH toks e terms acc brk He. cbn [pseq].
    destruct toks as [|[[t a] b] rest]; [apply c_here; exact He|].
    destruct t as [|w| | |c|txt|pe es ee].
    - apply c_here. exact He.
    - destruct (match plocals e with Some ls => rpos ls w 0 None | None => None end) as [i|];
        [simple_c IH He|].
      destruct (lookup (names e) w) as [[x|g|c]|] eqn:El; [simple_c IH He| |simple_c IH He|].
      { (* a call *) eapply c_push; [apply IH; exact He| |apply cstep_refl].
        constructor. unfold below. destruct He as (P1 & _). eapply P1; eauto. }
      destruct (mem terms w); [apply c_here; exact He|].
      destruct (w =? "if")%string.
      { destruct (pseq fo pr f rest (enter e false) ["else"%string; "then"%string] [] false)
          as [tb term tp r1 e1 b1|?|] eqn:E1; [|exact I|exact I].
        destruct (inner_c _ _ _ _ _ _ _ _ _ _ IH (He : envC (enter e false)) E1) as (N1 & S1 & C1).
        apply m2_else_then; [intros _|intros _|exact I].
        - destruct (pseq fo pr f r1 e1 ["then"%string] [] false) as [eb term2 tp2 r2 e2 b2|?|] eqn:E2;
            [|exact I|exact I].
          destruct (inner_c _ _ _ _ _ _ _ _ _ _ IH C1 E2) as (N2 & S2 & C2).
          apply m1_then; [intros _|exact I].
          eapply c_push.
          + apply IH. exact C2.
          + cbn [nfun leave]. constructor; [eapply below_mono_b; [|exact N1]; apply S2|apply cg_b_Forall; exact N2].
          + change (cstep e e2). eapply cstep_trans; eassumption.
        - eapply c_push.
          + apply IH. exact C1.
          + cbn [nfun leave]. constructor. apply cg_b_Forall. exact N1.
          + exact S1. }
      destruct (w =? "case")%string.
      { change (cres e acc (parms fo pr f e terms acc (S f) rest (enter e false) [] brk)).
        apply parms_c; try assumption.
        - constructor.
        - exact (cstep_refl e). }
      destruct (w =? "begin")%string.
      { destruct (pseq fo pr f rest (enter e true) ["until"%string; "repeat"%string; "while"%string] [] false)
          as [body term tp r1 e1 b1|?|] eqn:E1; [|exact I|exact I].
        destruct (inner_c _ _ _ _ _ _ _ _ _ _ IH (He : envC (enter e true)) E1) as (N1 & S1 & C1).
        apply m3_until_repeat_while; [intros _|intros _|intros _|exact I].
        - destruct b1; [exact I|].
          eapply c_push; [apply IH; exact C1| |exact S1].
          cbn [nfun leave]. constructor. apply cg_b_Forall. exact N1.
        - eapply c_push; [apply IH; exact C1| |exact S1].
          cbn [nfun leave]. constructor. apply cg_b_Forall. exact N1.
        - destruct b1; [exact I|].
          destruct (pseq fo pr f r1 e1 ["repeat"%string] [] false) as [body2 term2 tp2 r2 e2 b2|?|] eqn:E2;
            [|exact I|exact I].
          destruct (inner_c _ _ _ _ _ _ _ _ _ _ IH C1 E2) as (N2 & S2 & C2).
          apply m1_repeat; [intros _|exact I].
          eapply c_push.
          + apply IH. exact C2.
          + cbn [nfun leave]. constructor; [eapply below_mono_b; [|exact N1]; apply S2|apply cg_b_Forall; exact N2].
          + change (cstep e e2). eapply cstep_trans; eassumption. }
      destruct (w =? "do")%string.
      { destruct (pseq fo pr f rest (enter e true) ["loop"%string] [] false)
          as [body term tp r1 e1 b1|?|] eqn:E1; [|exact I|exact I].
        destruct (inner_c _ _ _ _ _ _ _ _ _ _ IH (He : envC (enter e true)) E1) as (N1 & S1 & C1).
        apply m1_loop; [intros _|exact I].
        eapply c_push; [apply IH; exact C1| |exact S1].
        cbn [nfun leave]. constructor. apply cg_b_Forall. exact N1. }
      destruct (w =? "break")%string.
      { destruct (0 <? loopdepth e); [|exact I]. simple_c IH He. }
      destruct (w =? ":")%string.
      { (* definition *)
        destruct (plocals e) eqn:Epl; [exact I|].
        destruct (skipb rest) as [|[[[]] ?] r0]; try exact I.
        match goal with |- context [pseq fo pr f r0 ?e0 _ [] false] => set (e0' := e0) end.
        assert (He0 : envC e0').
        { destruct He as (P1 & P2 & P3). unfold e0'. split; [|split].
          - intros w0 g H. cbn [names lookup nfun] in *. destruct (String.eqb s w0).
            + injection H as <-. lia.
            + specialize (P1 _ _ H). lia.
          - intros g Hg. cbn [nfun funs plocals] in *.
            destruct (Nat.eq_dec g (nfun e)) as [->|Hne].
            + right. split; [discriminate|reflexivity].
            + destruct (P2 g ltac:(lia)) as [H|[H _]]; [left; exact H|].
              exfalso. apply H. exact Epl.
          - cbn [nfun funs]. eapply Forall_impl; [|exact P3]. intros gb Hgb. eapply below_mono; [|exact Hgb]. lia. }
        destruct (pseq fo pr f r0 e0' [";"%string] [] false) as [body term tp r1 e1 b1|?|] eqn:E1;
          [|exact I|exact I].
        destruct (inner_c _ _ _ _ _ _ _ _ _ _ IH He0 E1) as (N1 & S1 & C1).
        apply m1_semi; [intros _|exact I].
        destruct b1; [exact I|].
        destruct S1 as (L1 & _ & S13). destruct (S13 ltac:(unfold e0'; cbn; discriminate)) as [En1 Pl1].
        unfold e0' in En1. cbn [nfun] in En1.
        eapply c_push.
        + apply IH.
          (* the environment after `;` *)
          destruct C1 as (P1 & P2 & P3). split; [|split].
          * exact P1.
          * intros g Hg. cbn [nfun funs plocals fun_body] in *. left.
            destruct (Nat.eqb_spec (nfun e) g) as [_|Hne]; [discriminate|].
            destruct (P2 g Hg) as [H|[_ H]]; [exact H|lia].
          * cbn [nfun funs]. constructor; [exact N1|exact P3].
        + constructor.
        + split; [cbn [nfun]; lia|]. split; [intros _; reflexivity|]. intro H. contradiction. }
      destruct (w =? "local")%string.
      { destruct (skipb rest) as [|[[[]] ?] r0]; try exact I.
        destruct (plocals e) eqn:Epl; [|exact I].
        eapply c_push.
        + apply IH. apply envC_locals; [exact He|congruence].
        + constructor.
        + split; [cbn; lia|]. split; [intro H; congruence|]. intros _. split; [reflexivity|cbn; discriminate]. }
      destruct (w =? "var")%string.
      { destruct (skipb rest) as [|[[[]] ?] r0]; try exact I.
        destruct (0 <? nest e); [exact I|].
        eapply c_push.
        + apply IH. apply envC_var. exact He.
        + constructor.
        + split; [cbn; lia|]. split; [intro H; exact H|]. intro H. split; [reflexivity|exact H]. }
      destruct (w =? "!")%string.
      { destruct (skipb rest) as [|[[[]] ?] r0]; try exact I.
        destruct (lookup (names e) s) as [[x|g|c]|]; try exact I.
        - simple_c IH He.
        - destruct (is_native fo s || mem keywords s || mem other_immediates s); exact I. }
      destruct (w =? "nil")%string; [simple_c IH He|].
      destruct (w =? "true")%string; [simple_c IH He|].
      destruct (w =? "false")%string; [simple_c IH He|].
      destruct (mem keywords w); [exact I|].
      destruct (mem other_immediates w); [exact I|].
      destruct (is_native fo w); [simple_c IH He|exact I].
    - apply IH. exact He.
    - apply IH. exact He.
    - simple_c IH He.
    - destruct (pr txt); [simple_c IH He|exact I].
    - exact I.
  Qed.

  Theorem cspec_all : forall f, CSpec f.
  Proof.
    induction f as [|f IH]; [intros toks e terms acc brk _; exact I|apply cspec_step; exact IH].
  Qed.

  (* at top level every function that was ever bound has a body *)
  Lemma envC_closed : forall e l, envC e -> plocals e = None ->
    Forall (cg_s (below (nfun e))) l -> cl_b (funs e) l.
  Proof.
    intros e l (P1 & P2 & P3) Hp H. apply cg_b_Forall. eapply Forall_impl; [|exact H].
    intros x Hx. eapply cg_s_mono; [|exact Hx]. unfold below, has_body. intros g Hg.
    destruct (P2 g Hg) as [Hd|[Hd _]]; [exact Hd|contradiction].
  Qed.

  Theorem parse_prog_closed : forall src heap0 l funs n,
    parse_source fo pr src heap0 = Some (l, funs, n) -> prog_closed funs l.
  Proof.
    intros src heap0 l funs n H. unfold parse_source in H.
    set (toks := lex_string src) in *. set (e0 := mkpenv [] [] 0 heap0 None 0 0) in *.
    assert (He0 : envC e0).
    { split; [|split].
      - intros w g Hl. discriminate.
      - intros g Hg. cbn in Hg. lia.
      - constructor. }
    pose proof (cspec_all (S (S (length toks))) toks e0 [] [] false He0) as G.
    destruct (pseq fo pr (S (S (length toks))) toks e0 [] [] false) as [body term tp rest e brk'| |]; try discriminate.
    destruct term; [|discriminate]. injection H as -> <- <-.
    cbn [cres] in G. destruct G as (news & Hb & Hn & (_ & Hp & _) & He). cbn [rev app] in Hb. subst news.
    specialize (Hp eq_refl).
    split.
    - apply envC_closed; assumption.
    - intros g b Hg. apply envC_closed; [exact He|exact Hp|].
      destruct He as (_ & _ & P3). rewrite Forall_forall in P3.
      apply (P3 (g, b)). eapply fun_body_in. exact Hg.
  Qed.
End ParseC.
