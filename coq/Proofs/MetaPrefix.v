(* MetaPrefix.v (C11): what is below the code mark and the dictionary mark of a meta context
   stays what it was.

   Inside a meta context with code mark cs and dictionary mark di
     - the code below cs changes only where a late-bound call (OResolve) is resolved in
       place by the machine ([rpatch]);
     - the dictionary below di changes only where `const` overwrites the value of an existing
       constant ([cpatch]);
     - the debug map below cs does not change;
   because every pending control structure of the context points at or above the marks
   ([UP], an invariant), and everything else appends.  The frame [F2 cs di] packages this
   with [sealed]; it holds for every builder program except the three context words. *)
From Xeh Require Import Model.Prelude Model.Bits Model.Codec Model.Cell Model.Lexer Model.Fmt
                        Model.Vm Model.Words Model.Build.
From Xeh Require Import Proofs.VmFrame Proofs.VmLimits Proofs.NoPanic Proofs.NoPanicBuild Proofs.NoPanicFlow
                        Proofs.MetaBase Proofs.MetaPurge Proofs.MetaBuild.
Local Notation length := List.length.
Local Open Scope list_scope.
Local Open Scope string_scope.

(* ---------- lists ---------- *)
Lemma firstn_app_le {A} n (l r : list A) : n <= length l -> firstn n (l ++ r) = firstn n l.
Proof.
  intros H. rewrite firstn_app. replace (n - length l) with 0 by lia.
  cbn [firstn]. apply app_nil_r.
Qed.

Lemma firstn_list_set_ge {A} : forall n (l : list A) i v, n <= i -> firstn n (list_set l i v) = firstn n l.
Proof.
  induction n as [|n IH]; intros l i v H; [reflexivity|].
  destruct l as [|x l]; [reflexivity|]. destruct i as [|i]; [lia|].
  cbn [list_set firstn]. f_equal. apply IH. lia.
Qed.

Lemma nth_error_firstn_ge {A} n (l : list A) i : n <= i -> nth_error (firstn n l) i = None.
Proof. intros H. apply nth_error_None. rewrite firstn_length. lia. Qed.

Lemma nth_error_ext' {A} : forall (l l' : list A), (forall i, nth_error l i = nth_error l' i) -> l = l'.
Proof.
  induction l as [|x l IH]; intros [|y l'] H; try reflexivity;
    try (specialize (H 0); discriminate H).
  pose proof (H 0) as H0. cbn [nth_error] in H0. injection H0 as ->. f_equal.
  apply IH. intros i. exact (H (S i)).
Qed.

(* ---------- the two ways the prefixes may change ---------- *)
Definition rpatch (c c' : list opcode) : Prop :=
  length c' = length c /\
  forall i, nth_error c' i = nth_error c i \/ exists name, nth_error c i = Some (OResolve name).

Definition cpatch (d d' : list dentry) : Prop :=
  length d' = length d /\
  forall i, nth_error d' i = nth_error d i \/
            exists e e', nth_error d i = Some e /\ nth_error d' i = Some e' /\
                         dname e' = dname e /\ is_dconst e = true /\ is_dconst e' = true.

Lemma rpatch_refl c : rpatch c c.
Proof. split; [reflexivity|]. intros i. left. reflexivity. Qed.

Lemma rpatch_trans a b c : rpatch a b -> rpatch b c -> rpatch a c.
Proof.
  intros [L1 H1] [L2 H2]. split; [congruence|]. intros i.
  destruct (H2 i) as [E2|(n & E2)]; destruct (H1 i) as [E1|(m & E1)].
  - left. congruence.
  - right. exists m. exact E1.
  - right. exists n. congruence.
  - right. exists m. exact E1.
Qed.

Lemma cpatch_refl d : cpatch d d.
Proof. split; [reflexivity|]. intros i. left. reflexivity. Qed.

Lemma cpatch_trans a b c : cpatch a b -> cpatch b c -> cpatch a c.
Proof.
  intros [L1 H1] [L2 H2]. split; [congruence|]. intros i.
  destruct (H2 i) as [E2|(e2 & e2' & A2 & B2 & N2 & C2 & D2)];
    destruct (H1 i) as [E1|(e1 & e1' & A1 & B1 & N1 & C1 & D1)].
  - left. congruence.
  - right. exists e1, e1'. repeat split; try assumption. congruence.
  - right. exists e2, e2'. repeat split; try assumption. congruence.
  - right. exists e1, e2'. rewrite B1 in A2. injection A2 as <-.
    repeat split; try assumption. congruence.
Qed.

(* without late-bound calls the code is literally unchanged *)
Definition no_resolve (c : list opcode) : Prop := forall i name, nth_error c i <> Some (OResolve name).

Lemma rpatch_no_resolve c c' : no_resolve c -> rpatch c c' -> c' = c.
Proof.
  intros N [L H]. apply nth_error_ext'. intros i.
  destruct (H i) as [E|(name & E)]; [exact E|]. exfalso. exact (N i name E).
Qed.

Lemma rpatch_set c cs ip op name :
  nth_error c ip = Some (OResolve name) -> rpatch (firstn cs c) (firstn cs (list_set c ip op)).
Proof.
  intros E. split; [rewrite !firstn_length, list_set_length; reflexivity|]. intros i.
  destruct (Nat.lt_ge_cases i cs) as [Hi|Hi].
  - rewrite !nth_error_firstn_lt by exact Hi.
    destruct (Nat.eq_dec ip i) as [->|Hne].
    + right. exists name. exact E.
    + left. apply nth_error_list_set_neq. exact Hne.
  - left. rewrite !nth_error_firstn_ge by exact Hi. reflexivity.
Qed.

Lemma cpatch_set d di pos e v :
  nth_error d pos = Some e -> is_dconst e = true ->
  cpatch (firstn di d) (firstn di (list_set d pos (mkdent (dname e) (DConst v)))).
Proof.
  intros E C. split; [rewrite !firstn_length, list_set_length; reflexivity|]. intros i.
  destruct (Nat.lt_ge_cases i di) as [Hi|Hi].
  - rewrite !nth_error_firstn_lt by exact Hi.
    destruct (Nat.eq_dec pos i) as [->|Hne].
    + right. exists e, (mkdent (dname e) (DConst v)). repeat split; try assumption.
      apply nth_error_list_set_eq. apply nth_error_Some. rewrite E. discriminate.
    + left. apply nth_error_list_set_neq. exact Hne.
  - left. rewrite !nth_error_firstn_ge by exact Hi. reflexivity.
Qed.

(* ---------- pending structures point at or above the marks ---------- *)
Definition fok (cs di : nat) (f : flow) : Prop :=
  match f with
  | FIf o | FElse o | FWhile o | FBreak o | FCaseOf o | FCaseEndOf o => cs <= o
  | FFun d st _ => cs <= st /\ di <= d
  | FDo o _ => cs <= o
  | _ => True
  end.

Definition UP (cs di : nat) (s : state) : Prop := Forall (fok cs di) (pending s).

Lemma pending_eq s s' : flows s' = flows s -> fs_len (cx s') = fs_len (cx s) -> pending s' = pending s.
Proof. unfold pending. intros -> ->. reflexivity. Qed.

Lemma pending_app s a : fs_len (cx s) <= length (flows s) ->
  firstn (length (a ++ lastn (fs_len (cx s)) (flows s)) - fs_len (cx s)) (a ++ lastn (fs_len (cx s)) (flows s)) = a.
Proof.
  intros H. rewrite app_length, lastn_length.
  replace (length a + Nat.min (fs_len (cx s)) (length (flows s)) - fs_len (cx s)) with (length a) by lia.
  rewrite firstn_app_le by lia. apply firstn_all.
Qed.

(* ---------- the frame ---------- *)
Definition Pre2 (cs di : nat) (s : state) : Prop :=
  mpre s /\ cs_len (cx s) = cs /\ di_len (cx s) = di /\ cs <= length (code s) /\ di <= length (dict s) /\
  cd_inv s /\ UP cs di s.

Definition R2 (cs di : nat) (s s' : state) : Prop :=
  sealed s s' /\ rpatch (firstn cs (code s)) (firstn cs (code s')) /\
  cpatch (firstn di (dict s)) (firstn di (dict s')) /\ firstn cs (dbg s') = firstn cs (dbg s) /\
  cs <= length (code s') /\ di <= length (dict s') /\ cd_inv s' /\ UP cs di s'.

Lemma R2_refl cs di s : Pre2 cs di s -> R2 cs di s s.
Proof.
  intros ([Hm W] & E1 & E2 & L1 & L2 & Hcd & Hup).
  repeat split; try assumption; try reflexivity; try apply sealed_refl; try assumption;
    try (intros i; left; reflexivity).
Qed.

Lemma R2_trans cs di a b c : R2 cs di a b -> R2 cs di b c -> R2 cs di a c.
Proof.
  intros (A1 & A2 & A3 & A4 & A5 & A6 & A7 & A8) (B1 & B2 & B3 & B4 & B5 & B6 & B7 & B8).
  split; [eapply sealed_trans; eassumption|]. split; [eapply rpatch_trans; eassumption|].
  split; [eapply cpatch_trans; eassumption|]. split; [congruence|]. repeat split; assumption.
Qed.

Lemma R2_keep cs di a b : Pre2 cs di a -> R2 cs di a b -> Pre2 cs di b.
Proof.
  intros (Hm & E1 & E2 & L1 & L2 & Hcd & Hup) (A1 & A2 & A3 & A4 & A5 & A6 & A7 & A8).
  pose proof A1 as (_ & _ & Em & _). destruct (cmarks_fields _ _ Em) as (_ & F2 & _ & _ & _ & _ & F7 & _).
  split; [eapply sealed_mpre; eassumption|]. repeat split; try assumption; congruence.
Qed.

Definition F2 (cs di : nat) : frame :=
  mkFrame (Pre2 cs di) (R2 cs di) (R2_refl cs di) (R2_trans cs di) (R2_keep cs di).

(* building the relation from its parts *)
Lemma R2_intro cs di s s' :
  Pre2 cs di s -> sealed s s' -> flows s' = flows s ->
  rpatch (firstn cs (code s)) (firstn cs (code s')) -> length (code s) <= length (code s') ->
  cpatch (firstn di (dict s)) (firstn di (dict s')) -> length (dict s) <= length (dict s') ->
  firstn cs (dbg s') = firstn cs (dbg s) -> cd_inv s' -> R2 cs di s s'.
Proof.
  intros (Hm & E1 & E2 & L1 & L2 & Hcd & Hup) S Ef Rc Lc Rd Ld Ed Hcd'.
  repeat split; try assumption; try apply S; try apply Rc; try apply Rd; try lia.
  unfold UP. rewrite (pending_eq s s'); [exact Hup|exact Ef|].
  destruct S as (_ & _ & Em & _). destruct (cmarks_fields _ _ Em) as (_ & _ & _ & F4 & _). exact F4.
Qed.

(* nothing but the sealed fields changed *)
Lemma R2_core cs di s s' : Pre2 cs di s -> sealed s s' -> core s' = core s -> R2 cs di s s'.
Proof.
  intros P S C. destruct (core_fields _ _ C) as (C1 & C2 & C3 & C4 & C5).
  unfold core in C. injection C as _ Cd _ _ _ _.
  apply R2_intro; try assumption; rewrite ?C1, ?C2, ?Cd; try apply rpatch_refl; try apply cpatch_refl;
    try reflexivity; try lia.
  destruct P as (_ & _ & _ & _ & _ & Hcd & _). unfold cd_inv in *. rewrite C1, Cd. exact Hcd.
Qed.

Lemma fpp_core cs di A (m : M A) : fp SF m -> corep m -> fp (F2 cs di) m.
Proof.
  intros Hs Hc s P. cbn [F2 fr_pre fr_rel] in *. specialize (Hs s (proj1 P)). cbn [SF fr_rel] in Hs.
  destruct (Hc s) as [_ C].
  destruct (m s); cbn [res_all] in *; auto; apply R2_core; assumption.
Qed.

(* ---------- machine code ---------- *)
Lemma wl_core : forall A (m : M A), wl m ->
  forall s, res_all (fun s' => code s' = code s /\ dict s' = dict s /\ dbg s' = dbg s /\ flows s' = flows s) (m s).
Proof.
  intros A m Hw s. pose proof (wl_lim A m Hw s) as H1. pose proof (wl_dbg A m Hw s) as H2.
  pose proof (wl_fn A m Hw s) as H3.
  destruct (m s); cbn [res_all] in *; auto;
    destruct H1 as (_ & _ & _ & _ & _ & Hc & Hd & _); destruct H3 as (F1 & _); repeat split; assumption.
Qed.

Lemma R2_same cs di s s' :
  Pre2 cs di s -> sealed s s' -> code s' = code s -> dict s' = dict s -> dbg s' = dbg s ->
  flows s' = flows s -> R2 cs di s s'.
Proof.
  intros P S C D G Fl.
  apply R2_intro; try assumption; rewrite ?C, ?D, ?G; try apply rpatch_refl; try apply cpatch_refl;
    try reflexivity; try lia.
  destruct P as (_ & _ & _ & _ & _ & Hcd & _). unfold cd_inv in *. rewrite C, G. exact Hcd.
Qed.

Lemma fpp_wl cs di A (m : M A) : wl m -> fp (F2 cs di) m.
Proof.
  intros Hw s P. cbn [F2 fr_pre fr_rel] in *.
  pose proof (wl_sealed A m Hw s (proj1 P)) as Hs. cbn [SF fr_rel] in Hs.
  pose proof (wl_core A m Hw s) as Hc.
  destruct (m s); cbn [res_all] in *; auto; destruct Hc as (C & D & G & Fl); apply R2_same; assumption.
Qed.

Section Machine2.
  Variable fo : fops.
  Variable cs di : nat.

  Lemma far_R2 : fp (F2 cs di) (fetch_and_run (native_fn fo)).
  Proof.
    intros s P. cbn [F2 fr_pre fr_rel] in *. pose proof (far_spec_holds (native_fn fo) s) as FS.
    assert (X : forall i o s1, R2 cs di s s1 -> res_all (R2 cs di s) (exec_op (native_fn fo) i o s1)).
    { intros i o s1 H1.
      pose proof (fpp_wl cs di _ _ (wl_exec_op _ (native_wl fo) i o) s1 (R2_keep _ _ _ _ P H1)) as H.
      cbn [F2 fr_rel] in H.
      destruct (exec_op (native_fn fo) i o s1); cbn [res_all] in *; auto; eapply R2_trans; eauto. }
    assert (W : wfm s) by apply P.
    assert (M0 : forall z, R2 cs di s (set_meter s z)).
    { intros z. apply R2_same; try exact P; try reflexivity. apply sealed_score; [exact W|reflexivity]. }
    assert (M1 : forall z op name, nth_error (code s) (ip s) = Some (OResolve name) ->
                 R2 cs di s (set_meter (set_code (set_meter s z) (list_set (code s) (ip s) op)) (z + 1)%Z)).
    { intros z op name E. apply R2_intro; try exact P; try reflexivity.
      - apply sealed_score; [exact W|reflexivity].
      - cbn [set_meter set_code code]. eapply rpatch_set. exact E.
      - cbn [set_meter set_code code]. rewrite list_set_length. lia.
      - apply cpatch_refl.
      - destruct P as (_ & _ & _ & _ & _ & Hcd & _). unfold cd_inv in *.
        cbn [set_meter set_code code dbg]. rewrite list_set_length. exact Hcd. }
    inversion FS as [ | | op Hm Hn Hr Hx | name Hm Hn Hd Hx | name e Hm Hn Hd Hm2 Hx | name e Hm Hn Hd Hm2 Hx ];
      cbn [res_all]; try exact I.
    - apply R2_refl. exact P.
    - apply X. apply M0.
    - apply M0.
    - pose proof (M1 (meter s + 1)%Z (resolve_op e) name Hn) as H.
      eapply R2_trans; [exact H|]. apply R2_same; try reflexivity.
      + eapply R2_keep; [exact P|exact H].
      + apply sealed_score; [|reflexivity]. eapply sealed_wfm. apply H.
    - apply X. apply (M1 (meter s + 1)%Z (resolve_op e) name Hn).
  Qed.

  Lemma run_R2 : forall fuel s, Pre2 cs di s ->
    match run (native_fn fo) fuel s with Some r => res_all (R2 cs di s) r | None => True end.
  Proof.
    induction fuel as [|f IH]; intros s P; cbn [run]; [exact I|].
    destruct (is_running s); [|apply R2_refl; exact P].
    pose proof (far_R2 s P) as H. cbn [F2 fr_rel] in H.
    destruct (fetch_and_run (native_fn fo) s) as [u s1|k p s1| |]; cbn [res_all] in *; auto.
    specialize (IH s1 (R2_keep _ _ _ _ P H)).
    destruct (run (native_fn fo) f s1) as [r|]; [|exact I].
    destruct r; cbn [res_all] in *; auto; eapply R2_trans; eauto.
  Qed.

  Lemma fpp_run_m rf : fp (F2 cs di) (run_m fo rf).
  Proof.
    intros s P. unfold run_m, nf. pose proof (run_R2 rf s P) as H.
    destruct (run (native_fn fo) rf s); [exact H|exact I].
  Qed.
End Machine2.
