(* MetaNIWords.v (C11): [comm] (MetaNI.v) for every native word except `.s`, for the opcodes
   and for one machine step. *)
From Xeh Require Import Model.Prelude Model.Bits Model.Codec Model.Cell Model.Lexer Model.Fmt
                        Model.Vm Model.Words Model.Build.
From Xeh Require Import Proofs.VmFrame Proofs.VmLimits Proofs.NoPanic Proofs.NoPanicBuild Proofs.NoPanicFlow
                        Proofs.MetaBase Proofs.MetaNI.
Local Notation length := List.length.
Local Open Scope string_scope.
Local Open Scope list_scope.

#[local] Arguments Z.add : simpl never.
#[local] Arguments Z.sub : simpl never.
#[local] Arguments Z.mul : simpl never.
#[local] Arguments Z.ltb : simpl never.
#[local] Arguments Z.leb : simpl never.
#[local] Arguments Z.eqb : simpl never.
#[local] Arguments Z.of_nat : simpl never.
#[local] Arguments Z.to_nat : simpl never.

Ltac cm_prim :=
  lazymatch goal with
  | |- comm _ (ret _) => apply comm_ret
  | |- comm _ (fail _ _) => apply comm_fail
  | |- comm _ unsup => apply comm_unsup
  | |- comm _ panic => apply comm_panic
  | |- comm _ (modify (fun s => set_stopping s _)) => apply comm_set_stopping
  | |- comm _ (push_data _) => apply comm_push_data
  | |- comm _ pop_data => apply comm_pop_data
  | |- comm _ top_data => apply comm_top_data
  | |- comm _ swap_data => apply comm_swap_data
  | |- comm _ rot_data => apply comm_rot_data
  | |- comm _ over_data => apply comm_over_data
  | |- comm _ (push_return _) => apply comm_push_return
  | |- comm _ pop_return => apply comm_pop_return
  | |- comm _ top_frame => apply comm_top_frame
  | |- comm _ (push_loop _) => apply comm_push_loop
  | |- comm _ pop_loop => apply comm_pop_loop
  | |- comm _ loop_next => apply comm_loop_next
  | |- comm _ (loop_set_items _) => apply comm_loop_set_items
  | |- comm _ (push_special _) => apply comm_push_special
  | |- comm _ pop_special => apply comm_pop_special
  | |- comm _ (get_var _) => apply comm_get_var
  | |- comm _ (set_var _ _) => apply comm_set_var
  | |- comm _ (init_local _ _) => apply comm_init_local
  | |- comm _ (set_ip _) => apply comm_set_ip
  | |- comm _ next_ip => apply comm_next_ip
  | |- comm _ (print _) => apply comm_print
  end.

Create HintDb cmdb.

Ltac cm_step :=
  cbv beta zeta;
  first
    [ cm_prim
    | solve [ auto 2 with cmdb nocore ]
    | lazymatch goal with
      | |- comm _ (bind get _) =>
        apply comm_get_bind;
        [ intros ? ?; cbv beta;
          first [ reflexivity
                | rewrite ?sw_length, ?depth_sw by assumption; reflexivity ]
        | intro ]
      | |- comm _ (bind _ _) => apply comm_bind; [ | intro ]
      | |- comm _ (match ?x with _ => _ end) => destruct x
      | |- comm _ ?m => let h := head_of m in unfold h
      end ].

Ltac cm_solve := repeat cm_step.

Section Words.
  Variable h' : list cell.

  Lemma comm_pop_n : forall k, comm h' (pop_n k).
  Proof. induction k; cbn [pop_n]; cm_solve. Qed.

  Lemma comm_push_all : forall l, comm h' (push_all l).
  Proof. induction l; cbn [push_all]; cm_solve. Qed.

  (* popping more cells than are visible fails *)
  Lemma pop_n_under : forall k s, wfd h' s -> length (ds s) - length h' < k ->
    forall a s', pop_n k s <> ROk a s'.
  Proof.
    induction k as [|k IH]; intros s W Hk a s' E; [lia|].
    cbn [pop_n] in E. unfold bind in E.
    destruct (comm_pop_data h' s W) as [_ W1].
    unfold pop_data in *. destruct W as [Wn Wl].
    destruct (ds s) as [|c r] eqn:Ed; [discriminate|].
    destruct (ds_len (cx s) <? length (c :: r))%nat eqn:El; [|discriminate].
    cbn [res_all] in W1. apply Nat.ltb_lt in El.
    eapply (IH _ W1); [|exact E].
    rewrite ds_add_rstep. cbn [set_ds ds]. cbn [length] in *. lia.
  Qed.

  Lemma comm_collect_aux A (k : nat) (f : state -> A) :
    (forall s, wfd h' s -> k <= length (ds s) - length h' -> f (sw h' s) = f s) ->
    forall s, wfd h' s ->
      (pop_n k ;; ret (f (sw h' s))) (sw h' s) = res_map (sw h') ((pop_n k ;; ret (f s)) s) /\
      res_all (wfd h') ((pop_n k ;; ret (f s)) s).
  Proof.
    intros Hf s W. destruct (le_lt_dec k (length (ds s) - length h')) as [Hk|Hk].
    - rewrite (Hf s W Hk).
      exact (comm_bind h' _ _ _ _ (comm_pop_n k) (fun _ => comm_ret h' _ (f s)) s W).
    - destruct (comm_pop_n k s W) as [E1 W1]. unfold bind. rewrite E1.
      pose proof (pop_n_under k s W Hk) as N.
      destruct (pop_n k s) as [a s1|? ? s1| |]; cbn [res_map res_all] in *;
        try (split; [reflexivity|assumption]).
      exfalso. eapply N. reflexivity.
  Qed.

  Lemma firstn_sw s k : wfd h' s -> k <= length (ds s) - length h' ->
    firstn k (ds (sw h' s)) = firstn k (ds s).
  Proof.
    intros W Hk. destruct (wfd_split h' s W) as (v & h & E & H).
    rewrite (sw_eq h' s v h E H). cbn [set_ds ds]. rewrite E.
    assert (Hv : k <= length v) by (rewrite E, app_length, H in Hk; lia).
    rewrite !firstn_app. replace (k - length v) with 0 by lia. cbn [firstn]. reflexivity.
  Qed.

  Lemma comm_vec_collect ptr : comm h' (vec_collect_till_ptr ptr).
  Proof.
    intros s W. unfold vec_collect_till_ptr. unfold bind at 1 3 5. unfold get. cbv zeta.
    rewrite (sw_length h' s W).
    destruct (length (ds s) <? ptr)%nat; [split; [reflexivity|exact W]|].
    apply (comm_collect_aux _ (length (ds s) - ptr)
             (fun t => rev (firstn (length (ds s) - ptr) (ds t)))); [|exact W].
    intros t Wt Hk. rewrite (firstn_sw t _ Wt Hk). reflexivity.
  Qed.

  Lemma comm_map_collect ptr : comm h' (map_collect_till_ptr ptr).
  Proof.
    intros s W. unfold map_collect_till_ptr. unfold bind at 1 3 5. unfold get. cbv zeta.
    rewrite (sw_length h' s W).
    destruct (length (ds s) <? ptr)%nat; [split; [reflexivity|exact W]|].
    destruct (negb _); [split; [reflexivity|exact W]|].
    apply (comm_collect_aux _ (length (ds s) - ptr)
             (fun t => pairs_insert (rev (firstn (length (ds s) - ptr) (ds t))) [])); [|exact W].
    intros t Wt Hk. rewrite (firstn_sw t _ Wt Hk). reflexivity.
  Qed.
End Words.

#[export] Hint Resolve comm_pop_n comm_push_all comm_vec_collect comm_map_collect : cmdb.

Section Table.
  Variable h' : list cell.

  Lemma comm_word_table : forall fo,
    Forall (fun nw => fst nw <> ".s" -> comm h' (snd nw)) (word_table fo).
  Proof.
    intro fo. unfold word_table.
    repeat (apply Forall_cons;
            [ cbn [fst snd]; intros Hne;
              first [ exfalso; apply Hne; reflexivity | cm_solve ] | ]).
    apply Forall_nil.
  Qed.

  Lemma table_find_Forall_ne : forall (P : M unit -> Prop) t name w,
    Forall (fun nw => fst nw <> ".s" -> P (snd nw)) t -> table_find t name = Some w -> name <> ".s" -> P w.
  Proof.
    induction t as [|[x m] r IH]; intros name w HF H Hne; cbn [table_find] in H; [discriminate|].
    inversion HF; subst. destruct (String.eqb x name) eqn:E.
    - injection H as <-. apply String.eqb_eq in E. subst x. cbn [fst snd] in *. auto.
    - eapply IH; eauto.
  Qed.

  Lemma comm_sized_word : forall fo name w, sized_word fo name = Some w -> comm h' w.
  Proof.
    intros fo name w H. unfold sized_word in H. cbv beta zeta in H.
    repeat match type of H with
           | context [if ?b then _ else _] =>
             destruct b; cbv beta iota in H;
             [ injection H as <-; cm_solve | ]
           end.
    discriminate.
  Qed.

  (* every native word but `.s` *)
  Theorem native_comm : forall fo w f, native_fn fo w = Some f -> w <> ".s" -> comm h' f.
  Proof.
    intros fo w f H Hne. unfold native_fn in H.
    destruct (table_find (word_table fo) w) eqn:E.
    - injection H as <-.
      eapply table_find_Forall_ne with (P := fun m => comm h' m); [apply comm_word_table|exact E|exact Hne].
    - eapply comm_sized_word; eauto.
  Qed.

  Lemma comm_exec_op : forall (nf : natives),
    (forall w f, nf w = Some f -> w <> ".s" -> comm h' f) ->
    forall ip0 op, op <> ONative ".s" -> comm h' (exec_op nf ip0 op).
  Proof.
    intros nf Hnf ip0 op Hop. destruct op; cbn [exec_op]; try (cm_solve; fail).
    destruct (nf w) eqn:E; cm_solve. eapply Hnf; [exact E|]. intros ->. apply Hop. reflexivity.
  Qed.
End Table.

(* ---------- one machine step ---------- *)
Lemma far_plain_eq nf s op :
  nth_error (code s) (ip s) = Some op -> (forall n, op <> OResolve n) ->
  fetch_and_run nf s =
  if mlim s (meter s) then RErr ELimit None s
  else exec_op nf (ip s) op (set_meter s (meter s + 1)%Z).
Proof.
  intros En Hr. unfold fetch_and_run. rewrite meter_increase_eq.
  destruct (mlim s (meter s)); [reflexivity|].
  change (code (set_meter s (meter s + 1)%Z)) with (code s). rewrite En.
  destruct op; try reflexivity. exfalso. eapply Hr. reflexivity.
Qed.

Lemma far_resolve_eq nf s name :
  nth_error (code s) (ip s) = Some (OResolve name) ->
  fetch_and_run nf s =
  if mlim s (meter s) then RErr ELimit None s
  else match dict_entry s name with
       | None => RErr EUnknown None (set_meter s (meter s + 1)%Z)
       | Some e =>
         let s2 := set_code (set_meter s (meter s + 1)%Z) (list_set (code s) (ip s) (resolve_op e)) in
         if mlim s (meter s + 1)%Z then RErr ELimit None s2
         else exec_op nf (ip s) (resolve_op e) (set_meter s2 (meter s + 1 + 1)%Z)
       end.
Proof.
  intros En. unfold fetch_and_run. rewrite meter_increase_eq.
  destruct (mlim s (meter s)); [reflexivity|].
  change (code (set_meter s (meter s + 1)%Z)) with (code s). rewrite En.
  change (dict_entry (set_meter s (meter s + 1)%Z) name) with (dict_entry s name).
  destruct (dict_entry s name) as [e|]; [|reflexivity].
  rewrite meter_increase_eq. cbv zeta.
  change (mlim (set_code (set_meter s (meter s + 1)%Z) (list_set (code s) (ip s) (resolve_op e)))
               (meter (set_code (set_meter s (meter s + 1)%Z) (list_set (code s) (ip s) (resolve_op e)))))
    with (mlim s (meter s + 1)%Z).
  destruct (mlim s (meter s + 1)%Z); reflexivity.
Qed.

Lemma far_none_eq nf s :
  nth_error (code s) (ip s) = None ->
  fetch_and_run nf s = if mlim s (meter s) then RErr ELimit None s else RPanic.
Proof.
  intros En. unfold fetch_and_run. rewrite meter_increase_eq.
  destruct (mlim s (meter s)); [reflexivity|].
  change (code (set_meter s (meter s + 1)%Z)) with (code s). rewrite En. reflexivity.
Qed.

Section Step.
  Variable h' : list cell.
  Variable fo : fops.

  (* the next instruction is a call of `.s` (possibly through a late-bound name) *)
  Definition shows_stack (s : state) : Prop :=
    nth_error (code s) (ip s) = Some (ONative ".s") \/
    exists name e, nth_error (code s) (ip s) = Some (OResolve name) /\
                   dict_entry s name = Some e /\ resolve_op e = ONative ".s".

  Lemma wfd_same s t : ds t = ds s -> cx t = cx s -> wfd h' s -> wfd h' t.
  Proof. unfold wfd. intros -> ->. auto. Qed.

  Theorem far_comm s : wfd h' s -> ~ shows_stack s ->
    fetch_and_run (native_fn fo) (sw h' s) = res_map (sw h') (fetch_and_run (native_fn fo) s) /\
    res_all (wfd h') (fetch_and_run (native_fn fo) s).
  Proof.
    intros W Hns.
    assert (Hx : forall op t, op <> ONative ".s" -> wfd h' t ->
              exec_op (native_fn fo) (ip s) op (sw h' t) = res_map (sw h') (exec_op (native_fn fo) (ip s) op t) /\
              res_all (wfd h') (exec_op (native_fn fo) (ip s) op t)).
    { intros op t Hop Wt. apply comm_exec_op; [|exact Hop|exact Wt].
      intros w f Hf Hw. eapply native_comm; eassumption. }
    destruct (nth_error (code s) (ip s)) as [op|] eqn:En.
    - assert (En' : nth_error (code (sw h' s)) (ip (sw h' s)) = Some op) by exact En.
      destruct (match op with OResolve _ => true | _ => false end) eqn:Er.
      + destruct op; try discriminate Er.
        rewrite (far_resolve_eq _ (sw h' s) name En'), (far_resolve_eq _ s name En).
        change (mlim (sw h' s) (meter (sw h' s))) with (mlim s (meter s)).
        destruct (mlim s (meter s)); [split; [reflexivity|exact W]|].
        change (dict_entry (sw h' s) name) with (dict_entry s name).
        destruct (dict_entry s name) as [e|] eqn:Ed; [|split; [reflexivity|exact W]].
        cbv zeta. change (mlim (sw h' s) (meter (sw h' s) + 1)%Z) with (mlim s (meter s + 1)%Z).
        destruct (mlim s (meter s + 1)%Z); [split; [reflexivity|exact W]|].
        refine (Hx (resolve_op e)
                  (set_meter (set_code (set_meter s (meter s + 1)%Z) (list_set (code s) (ip s) (resolve_op e)))
                             (meter s + 1 + 1)%Z) _ _).
        * intros C. apply Hns. right. exists name, e. repeat split; assumption.
        * eapply wfd_same; [| |exact W]; reflexivity.
      + assert (Hr : forall n0, op <> OResolve n0) by (intros n0 ->; discriminate Er).
        rewrite (far_plain_eq _ (sw h' s) op En' Hr), (far_plain_eq _ s op En Hr).
        change (mlim (sw h' s) (meter (sw h' s))) with (mlim s (meter s)).
        destruct (mlim s (meter s)); [split; [reflexivity|exact W]|].
        refine (Hx op (set_meter s (meter s + 1)%Z) _ _).
        * intros ->. apply Hns. left. exact En.
        * eapply wfd_same; [| |exact W]; reflexivity.
    - assert (En' : nth_error (code (sw h' s)) (ip (sw h' s)) = None) by exact En.
      rewrite (far_none_eq _ (sw h' s) En'), (far_none_eq _ s En).
      change (mlim (sw h' s) (meter (sw h' s))) with (mlim s (meter s)).
      destruct (mlim s (meter s)); split; try reflexivity; try exact W; exact I.
  Qed.

  (* `.s` itself: what it prints contains the hidden cells *)
  Lemma display_stack_out s txt : format_all (ds s) = Some txt ->
    w_display_stack s = ROk tt (set_out s (String.append (out s) txt)).
  Proof. intros E. unfold w_display_stack, bind, get. rewrite E. reflexivity. Qed.
End Step.

(* ---------- whole runs on code without `.s` and without late-bound calls ---------- *)
Definition quiet_code (c : list opcode) : Prop :=
  forall i, nth_error c i <> Some (ONative ".s") /\ forall name, nth_error c i <> Some (OResolve name).

Section Run.
  Variable h' : list cell.
  Variable fo : fops.

  Lemma quiet_not_shows s : quiet_code (code s) -> ~ shows_stack s.
  Proof.
    intros Q [E|(name & e & E & _)]; destruct (Q (ip s)) as [Q1 Q2]; [exact (Q1 E)|exact (Q2 name E)].
  Qed.

  Lemma far_quiet_code s : quiet_code (code s) ->
    res_all (fun s' => code s' = code s) (fetch_and_run (native_fn fo) s).
  Proof.
    intros Q. pose proof (far_spec_holds (native_fn fo) s) as FS.
    inversion FS as [ | | op Hm Hn Hr Hx | name Hm Hn Hd Hx | name e Hm Hn Hd Hm2 Hx | name e Hm Hn Hd Hm2 Hx ];
      cbn [res_all]; try exact I; try reflexivity;
      try (exfalso; exact (proj2 (Q (ip s)) name Hn)).
    pose proof (wl_lim _ _ (wl_exec_op _ (native_wl fo) (ip s) op) (set_meter s (meter s + 1)%Z)) as H.
    destruct (exec_op (native_fn fo) (ip s) op (set_meter s (meter s + 1)%Z)); cbn [res_all] in *; auto;
      destruct H as (_ & _ & _ & _ & _ & Hc & _); exact Hc.
  Qed.

  Theorem run_comm : forall fuel s, wfd h' s -> quiet_code (code s) ->
    run (native_fn fo) fuel (sw h' s) =
    match run (native_fn fo) fuel s with Some r => Some (res_map (sw h') r) | None => None end.
  Proof.
    induction fuel as [|f IH]; intros s W Q; cbn [run]; [reflexivity|].
    change (is_running (sw h' s)) with (is_running s).
    destruct (is_running s); [|reflexivity].
    destruct (far_comm h' fo s W (quiet_not_shows s Q)) as [E W1]. rewrite E.
    pose proof (far_quiet_code s Q) as C1.
    destruct (fetch_and_run (native_fn fo) s) as [u s1|k p s1| |]; cbn [res_map res_all] in *; try reflexivity.
    apply IH; [exact W1|rewrite C1; exact Q].
  Qed.
End Run.
