(* C17 - every error points at the token that caused it.
   (a) the line/column computation (C17_token_location_line_col, Proofs/LexLoc.v);
   (b) the debug map (Proofs/DbgMap*.v): 1 alignment with the code in every reachable state,
       2 provenance of every entry (a token of the named source, the token current at the
       emission), 3 a run-time error leaves ip at the failing cell, 4 a build-time error leaves
       the token being processed as the last token, 5 later sources never touch the entries or
       the texts of earlier ones. *)
From Xeh Require Import Model.Prelude Model.Bits Model.Cell Model.Lexer Proofs.LexProofs.
From Xeh Require Import Model.Vm Model.Words Model.Build Model.Boot.
From Xeh Require Import Proofs.VmLimits Proofs.DbgMapVm Proofs.DbgMapAlign Proofs.DbgMapRun Proofs.DbgMapStmts.
From Xeh Require Import Proofs.DbgMapProv Proofs.DbgMapProvApi Proofs.DbgMapMulti Proofs.DbgMapErr Proofs.DbgMapStmts2.

Theorem C17_token_location_line_col : forall s p, valid_utf8 s = true -> s <> EmptyString -> p <= String.length s ->
  token_location s p = (spec_line s p, spec_col s p, spec_line_start s p, spec_line_end s p).
Proof. exact token_location_spec_weak. Qed.
Check C17_token_location_line_col : forall s p, valid_utf8 s = true -> s <> EmptyString -> p <= String.length s ->
  token_location s p = (spec_line s p, spec_col s p, spec_line_start s p, spec_line_end s p).

(* ====================================================================================== *)
(* (b) the debug map.  [dbg s] holds one token reference (source index, byte start, byte end)
   per bytecode cell of [code s]; the location of a run-time error is read from
   [nth_error (dbg s) (ip s)], that of a build-time error from [last_tok s]. *)

(* ---------- 1. alignment ---------- *)
Definition aligned (s : state) : Prop := List.length (dbg s) = List.length (code s).

(* the states an embedding program can reach from boot through eval, compile, next, run,
   rnext, setting limits and switching recording: every property that holds of boot and is
   kept by every API call (in the state a result or an error leaves behind) holds of s *)
Definition reachable (fo : fops) (pr : string -> option Z) (s : state) : Prop :=
  forall P : state -> Prop,
    P boot ->
    (forall s rf bf src s', P s -> res_state (eval fo pr rf bf src s) = Some s' -> P s') ->
    (forall s rf bf src s', P s -> res_state (compile fo pr rf bf src s) = Some s' -> P s') ->
    (forall s s', P s -> res_state (next (native_fn fo) s) = Some s' -> P s') ->
    (forall s fuel r s', P s -> run (native_fn fo) fuel s = Some r -> res_state r = Some s' -> P s') ->
    (forall s s', P s -> res_state (rnext s) = Some s' -> P s') ->
    (forall s i h k, P s -> P (set_limits s i h k)) ->
    (forall s l, P s -> P (set_rlog s l)) ->
    P s.

(* the same closure as an inductive predicate (Proofs/DbgMapAlign.v) *)
Theorem C17_reachable_is_inductive_closure :
  forall fo pr s, reachable fo pr s <-> reach fo pr s.
Proof. exact api_reach_iff. Qed.
Check C17_reachable_is_inductive_closure :
  forall fo pr s, reachable fo pr s <-> reach fo pr s.

(* under alignment an emission appends ONE cell to the code and ONE entry, the current
   token, to the debug map *)
Theorem C17_align_code_emit :
  forall op s, aligned s ->
  code_emit op s =
  ROk tt (set_code (set_dbg s (dbg s ++ [match last_tok s with Some t => t | None => (0, 0, 0) end]))
                   (code s ++ [op])).
Proof. exact code_emit_al. Qed.
Check C17_align_code_emit :
  forall op s, aligned s ->
  code_emit op s =
  ROk tt (set_code (set_dbg s (dbg s ++ [match last_tok s with Some t => t | None => (0, 0, 0) end]))
                   (code s ++ [op])).

(* backpatching replaces the instruction and leaves the debug entry of the cell (the token
   that emitted the placeholder) alone *)
Theorem C17_align_backpatch :
  forall pos op s,
  match backpatch pos op s with
  | ROk _ s' => dbg s' = dbg s /\ code s' = list_set (code s) pos op /\
                List.length (code s') = List.length (code s) /\ sources s' = sources s /\
                last_tok s' = last_tok s
  | RErr _ _ _ => False
  | _ => True
  end.
Proof. exact backpatch_keeps. Qed.
Check C17_align_backpatch :
  forall pos op s,
  match backpatch pos op s with
  | ROk _ s' => dbg s' = dbg s /\ code s' = list_set (code s) pos op /\
                List.length (code s') = List.length (code s) /\ sources s' = sources s /\
                last_tok s' = last_tok s
  | RErr _ _ _ => False
  | _ => True
  end.

Theorem C17_align_backpatch_jump :
  forall pos offs s,
  res_all (fun s' => dbg s' = dbg s /\ List.length (code s') = List.length (code s) /\
                     sources s' = sources s /\ last_tok s' = last_tok s)
          (backpatch_jump pos offs s).
Proof. exact backpatch_jump_keeps. Qed.
Check C17_align_backpatch_jump :
  forall pos offs s,
  res_all (fun s' => dbg s' = dbg s /\ List.length (code s') = List.length (code s) /\
                     sources s' = sources s /\ last_tok s' = last_tok s)
          (backpatch_jump pos offs s).

(* every immediate word of the dictionary (control flow, definitions, locals, variables,
   meta blocks, let patterns, format words), for any fuel *)
Theorem C17_align_immediate_words :
  forall fo pr rf fuel name w, immediate_fn fo pr rf fuel name = Some w ->
  forall s, aligned s -> res_all aligned (w s).
Proof. exact al_immediate_fn_res. Qed.
Check C17_align_immediate_words :
  forall fo pr rf fuel name w, immediate_fn fo pr rf fuel name = Some w ->
  forall s, aligned s -> res_all aligned (w s).

Theorem C17_align_build_word :
  forall fo pr rf fuel name s, aligned s -> res_all aligned (build_word fo pr rf fuel name s).
Proof. exact al_build_word_res. Qed.
Check C17_align_build_word :
  forall fo pr rf fuel name s, aligned s -> res_all aligned (build_word fo pr rf fuel name s).

Theorem C17_align_build1 :
  forall fo pr rf fuel depth s, aligned s -> res_all aligned (build1 fo pr rf fuel depth s).
Proof. exact al_build1_res. Qed.
Check C17_align_build1 :
  forall fo pr rf fuel depth s, aligned s -> res_all aligned (build1 fo pr rf fuel depth s).

(* opening / closing a context (the meta-block close truncates code and debug map at the same
   mark and re-emits the results through code_emit), interning a source, unwinding a failed build *)
Theorem C17_align_contexts :
  forall fo rf s, aligned s ->
  (forall m, res_all aligned (context_open m s)) /\
  res_all aligned (context_close fo rf s) /\
  (forall src, res_all aligned (intern_source src s)) /\
  (forall depth inputs dsl heapl, aligned (build_unwind depth inputs dsl heapl s)).
Proof. exact al_contexts_res. Qed.
Check C17_align_contexts :
  forall fo rf s, aligned s ->
  (forall m, res_all aligned (context_open m s)) /\
  res_all aligned (context_close fo rf s) /\
  (forall src, res_all aligned (intern_source src s)) /\
  (forall depth inputs dsl heapl, aligned (build_unwind depth inputs dsl heapl s)).

(* whole sources, ALL texts, in the state a success or a failure leaves *)
Theorem C17_align_eval_compile :
  forall fo pr rf fuel src s, aligned s ->
  res_all aligned (eval fo pr rf fuel src s) /\ res_all aligned (compile fo pr rf fuel src s).
Proof. exact al_eval_compile_res. Qed.
Check C17_align_eval_compile :
  forall fo pr rf fuel src s, aligned s ->
  res_all aligned (eval fo pr rf fuel src s) /\ res_all aligned (compile fo pr rf fuel src s).

(* machine steps *)
Theorem C17_align_machine :
  forall fo s, aligned s ->
  res_all aligned (fetch_and_run (native_fn fo) s) /\
  res_all aligned (next (native_fn fo) s) /\
  (forall fuel, match run (native_fn fo) fuel s with Some r => res_all aligned r | None => True end) /\
  res_all aligned (rnext s).
Proof. exact al_machine_res. Qed.
Check C17_align_machine :
  forall fo s, aligned s ->
  res_all aligned (fetch_and_run (native_fn fo) s) /\
  res_all aligned (next (native_fn fo) s) /\
  (forall fuel, match run (native_fn fo) fuel s with Some r => res_all aligned r | None => True end) /\
  res_all aligned (rnext s).

(* in fact the machine never writes the debug map, the sources or the last token, and keeps the
   length of the code (its only write to the code is the in-place patch of a late-bound cell) *)
Theorem C17_machine_keeps_debug_map :
  forall fo s,
  let keeps s' := dbg s' = dbg s /\ sources s' = sources s /\
                  List.length (code s') = List.length (code s) /\ last_tok s' = last_tok s in
  res_all keeps (fetch_and_run (native_fn fo) s) /\
  res_all keeps (next (native_fn fo) s) /\
  (forall fuel, match run (native_fn fo) fuel s with Some r => res_all keeps r | None => True end) /\
  res_all keeps (rnext s).
Proof. exact machine_keeps_map. Qed.
Check C17_machine_keeps_debug_map :
  forall fo s,
  let keeps s' := dbg s' = dbg s /\ sources s' = sources s /\
                  List.length (code s') = List.length (code s) /\ last_tok s' = last_tok s in
  res_all keeps (fetch_and_run (native_fn fo) s) /\
  res_all keeps (next (native_fn fo) s) /\
  (forall fuel, match run (native_fn fo) fuel s with Some r => res_all keeps r | None => True end) /\
  res_all keeps (rnext s).

(* hence in every reachable state *)
Theorem C17_align_reachable :
  forall fo pr s, reachable fo pr s -> aligned s.
Proof. exact api_al. Qed.
Check C17_align_reachable :
  forall fo pr s, reachable fo pr s -> aligned s.

(* ---------- 3. a run-time error points at the failing cell ---------- *)
(* a failing instruction step leaves ip at the failing instruction (no opcode and no native
   word moves ip before failing: natives never touch the current context, and exec_op moves
   ip only as its last action, which cannot fail), and keeps the debug map and the sources *)
Theorem C17_runtime_error_keeps_ip :
  forall fo s k p s',
  fetch_and_run (native_fn fo) s = RErr k p s' ->
  ip s' = ip s /\ dbg s' = dbg s /\ sources s' = sources s /\
  List.length (code s') = List.length (code s).
Proof. exact far_err_location. Qed.
Check C17_runtime_error_keeps_ip :
  forall fo s k p s',
  fetch_and_run (native_fn fo) s = RErr k p s' ->
  ip s' = ip s /\ dbg s' = dbg s /\ sources s' = sources s /\
  List.length (code s') = List.length (code s).

(* what failed: the instruction limit, an unknown late-bound word, or the execution of the
   instruction stored at ip (for a late-bound cell: of the instruction it resolves to) *)
Theorem C17_runtime_error_cases :
  forall fo s k p s',
  fetch_and_run (native_fn fo) s = RErr k p s' ->
  (k = ELimit /\ p = None) \/
  (exists name, nth_error (code s) (ip s) = Some (OResolve name) /\ dict_entry s name = None /\ k = EUnknown) \/
  (exists op s1, (nth_error (code s) (ip s) = Some op \/
                  exists name e, nth_error (code s) (ip s) = Some (OResolve name) /\
                                 dict_entry s name = Some e /\ op = resolve_op e) /\
                 ip s1 = ip s /\ exec_op (native_fn fo) (ip s) op s1 = RErr k p s').
Proof. exact far_err_cases. Qed.
Check C17_runtime_error_cases :
  forall fo s k p s',
  fetch_and_run (native_fn fo) s = RErr k p s' ->
  (k = ELimit /\ p = None) \/
  (exists name, nth_error (code s) (ip s) = Some (OResolve name) /\ dict_entry s name = None /\ k = EUnknown) \/
  (exists op s1, (nth_error (code s) (ip s) = Some op \/
                  exists name e, nth_error (code s) (ip s) = Some (OResolve name) /\
                                 dict_entry s name = Some e /\ op = resolve_op e) /\
                 ip s1 = ip s /\ exec_op (native_fn fo) (ip s) op s1 = RErr k p s').

(* a failing run (any number of calls, loops, returns before the failure): the state it leaves
   has ip at the instruction whose step failed, inside the code, and - under alignment - the
   debug map has an entry there, the one the build recorded for that cell *)
Theorem C17_run_error_location :
  forall fo fuel s k p s',
  run (native_fn fo) fuel s = Some (RErr k p s') ->
  exists n s1,
    steps (native_fn fo) n s = Some s1 /\ is_running s1 = true /\
    fetch_and_run (native_fn fo) s1 = RErr k p s' /\
    ip s' = ip s1 /\ dbg s' = dbg s /\ sources s' = sources s /\
    ip s' < List.length (code s') /\
    (aligned s -> exists t, nth_error (dbg s') (ip s') = Some t /\ nth_error (dbg s) (ip s1) = Some t).
Proof. exact run_err_location. Qed.
Check C17_run_error_location :
  forall fo fuel s k p s',
  run (native_fn fo) fuel s = Some (RErr k p s') ->
  exists n s1,
    steps (native_fn fo) n s = Some s1 /\ is_running s1 = true /\
    fetch_and_run (native_fn fo) s1 = RErr k p s' /\
    ip s' = ip s1 /\ dbg s' = dbg s /\ sources s' = sources s /\
    ip s' < List.length (code s') /\
    (aligned s -> exists t, nth_error (dbg s') (ip s') = Some t /\ nth_error (dbg s) (ip s1) = Some t).

(* ---------- non-vacuity ---------- *)
Definition ex_z2 (a b : Z) : Z := 0%Z.
Definition ex_fo : fops := fops_with ex_z2 ex_z2 ex_z2 ex_z2 ex_z2 ex_z2 ex_z2.
Definition ex_pr (s : string) : option Z := None.
Definition ex_state {A} (r : res A) : state := match r with ROk _ s => s | RErr _ _ s => s | _ => boot end.
Definition ex_src : string := ": f 1 0 / ; f"%string.
Definition ex_compiled : state := ex_state (compile ex_fo ex_pr 100 100 ex_src boot).

Example C17_reachable_nonvacuous : reachable ex_fo ex_pr boot /\ reachable ex_fo ex_pr ex_compiled.
Proof.
  split.
  - intros P H0 _ _ _ _ _ _ _. exact H0.
  - intros P H0 _ H2 _ _ _ _ _. eapply (H2 boot 100 100 ex_src); [exact H0|]. vm_compute. reflexivity.
Qed.

(* the division inside the called definition fails: ip is inside the body of f, the debug
   entry there is the span of "/", and the location scan gives line 0, column 8 *)
Example C17_run_error_nonvacuous :
  code ex_compiled = [OJump 5; OLoadI64 1; OLoadI64 0; ONative "/"; ORet; OCall 1] /\
  dbg ex_compiled = [(0, 2, 3); (0, 4, 5); (0, 6, 7); (0, 8, 9); (0, 10, 11); (0, 12, 13)] /\
  exists s', run (native_fn ex_fo) 100 ex_compiled = Some (RErr EDivZero None s') /\
             ip s' = 3 /\ nth_error (code s') (ip s') = Some (ONative "/") /\
             nth_error (dbg s') (ip s') = Some (0, 8, 9) /\
             nth_error (sources s') 0 = Some ex_src /\
             substring_of ex_src 8 9 = "/"%string /\
             token_location ex_src 8 = (0, 8, 0, 13).
Proof. vm_compute. split; [reflexivity|]. split; [reflexivity|]. eexists. repeat split. Qed.

(* ====================================================================================== *)
(* ---------- 2. provenance of the debug entries ---------- *)
(* Definitions (Proofs/DbgMapProv.v):
     nonws t               t is not a whitespace / comment token
     is_token_span src a b := exists t, In (t, a, b) (lex_string src) /\ nonws t = true
     tok_ok s (n, a, b)    := n < length (sources s) /\ is_token_span (nth n (sources s) "") a b
     dbg_ok s              := Forall (tok_ok s) (dbg s)
     last_ok s             := the last token, if any, is tok_ok
     inputs_ok s           := every pending input lexer reads a source of s and is "live": all the
                              tokens it will still produce are tokens of lex_string of that source
     tok_ready s           := a token has been read, or no meta context is open
     PE s := aligned s /\ dbg_ok s /\ last_ok s /\ tok_ready s     (left by a failure)
     P0 s := PE s /\ inputs_ok s                                  (between two tokens of build1)
     P1 s := P0 s /\ last_tok s <> None                           (while a token is compiled)
     PT s := PE s /\ input s = []                                 (between API calls) *)

(* the token read by get_token is recorded as the last token and is a token of its source:
   a word token for a word, a literal token for a literal (a real literal: the TReal token whose
   text parses), the offending token for a lexical error; at the end of all input, nothing is
   pending *)
Theorem C17_provenance_token_read :
  forall pr s, P0 s ->
  match get_token pr s with
  | ROk BEnd s' => P0 s' /\ input s' = [] /\ (last_tok s <> None -> last_tok s' <> None)
  | ROk (BWord w) s' => P1 s' /\ last_is s' (TWord w)
  | ROk (BLit c) s' =>
    P1 s' /\ (last_is s' (TLit c) \/
              exists txt r, last_is s' (TReal txt) /\ pr txt = Some r /\ c = CReal r)
  | RErr k _ s' =>
    PE s' /\ k = EParse /\
    ((exists e x y, last_is s' (TErr e x y)) \/ (exists txt, last_is s' (TReal txt) /\ pr txt = None))
  | _ => True
  end.
Proof. exact get_token_prov. Qed.
Check C17_provenance_token_read :
  forall pr s, P0 s ->
  match get_token pr s with
  | ROk BEnd s' => P0 s' /\ input s' = [] /\ (last_tok s <> None -> last_tok s' <> None)
  | ROk (BWord w) s' => P1 s' /\ last_is s' (TWord w)
  | ROk (BLit c) s' =>
    P1 s' /\ (last_is s' (TLit c) \/
              exists txt r, last_is s' (TReal txt) /\ pr txt = Some r /\ c = CReal r)
  | RErr k _ s' =>
    PE s' /\ k = EParse /\
    ((exists e x y, last_is s' (TErr e x y)) \/ (exists txt, last_is s' (TReal txt) /\ pr txt = None))
  | _ => True
  end.

(* an emission appends exactly the current token, which is a token of a source: for a literal
   the literal's token, for a word call the word's token, for an immediate control word the
   control word's token (or the last token that word read itself, e.g. the name after ":") *)
Theorem C17_provenance_emit :
  forall op s, P1 s ->
  exists t s', last_tok s = Some t /\ code_emit op s = ROk tt s' /\
               dbg s' = dbg s ++ [t] /\ code s' = code s ++ [op] /\ tok_ok s' t /\ P1 s' .
Proof. exact prov_emit_entry. Qed.
Check C17_provenance_emit :
  forall op s, P1 s ->
  exists t s', last_tok s = Some t /\ code_emit op s = ROk tt s' /\
               dbg s' = dbg s ++ [t] /\ code s' = code s ++ [op] /\ tok_ok s' t /\ P1 s' .

Theorem C17_provenance_immediate_words :
  forall fo pr rf fuel name w, immediate_fn fo pr rf fuel name = Some w ->
  forall s, P1 s -> match w s with ROk _ s' => P1 s' | RErr _ _ s' => PE s' | _ => True end.
Proof. exact prov_immediate_fn. Qed.
Check C17_provenance_immediate_words :
  forall fo pr rf fuel name w, immediate_fn fo pr rf fuel name = Some w ->
  forall s, P1 s -> match w s with ROk _ s' => P1 s' | RErr _ _ s' => PE s' | _ => True end.

Theorem C17_provenance_build_word :
  forall fo pr rf fuel name s, P1 s ->
  match build_word fo pr rf fuel name s with ROk _ s' => P1 s' | RErr _ _ s' => PE s' | _ => True end.
Proof. exact prov_build_word. Qed.
Check C17_provenance_build_word :
  forall fo pr rf fuel name s, P1 s ->
  match build_word fo pr rf fuel name s with ROk _ s' => P1 s' | RErr _ _ s' => PE s' | _ => True end.

Theorem C17_provenance_build1 :
  forall fo pr rf fuel depth s, P0 s ->
  match build1 fo pr rf fuel depth s with ROk _ s' => P0 s' | RErr _ _ s' => PE s' | _ => True end.
Proof. exact prov_build1. Qed.
Check C17_provenance_build1 :
  forall fo pr rf fuel depth s, P0 s ->
  match build1 fo pr rf fuel depth s with ROk _ s' => P0 s' | RErr _ _ s' => PE s' | _ => True end.

Theorem C17_provenance_contexts :
  forall fo rf s, P1 s ->
  (forall m, match context_open m s with ROk _ s' => P1 s' | RErr _ _ s' => PE s' | _ => True end) /\
  match context_close fo rf s with ROk _ s' => P1 s' | RErr _ _ s' => PE s' | _ => True end /\
  (forall t, match intern_source t s with ROk _ s' => P1 s' | RErr _ _ s' => PE s' | _ => True end).
Proof. exact prov_contexts_res. Qed.
Check C17_provenance_contexts :
  forall fo rf s, P1 s ->
  (forall m, match context_open m s with ROk _ s' => P1 s' | RErr _ _ s' => PE s' | _ => True end) /\
  match context_close fo rf s with ROk _ s' => P1 s' | RErr _ _ s' => PE s' | _ => True end /\
  (forall t, match intern_source t s with ROk _ s' => P1 s' | RErr _ _ s' => PE s' | _ => True end).

(* unwinding a failed build keeps the invariant, the last token and the sources, and drops the
   unread input *)
Theorem C17_provenance_build_unwind :
  forall depth inputs dsl heapl s, PE s ->
  PE (build_unwind depth inputs dsl heapl s) /\
  (inputs = 0 -> input (build_unwind depth inputs dsl heapl s) = []) /\
  last_tok (build_unwind depth inputs dsl heapl s) = last_tok s /\
  sources (build_unwind depth inputs dsl heapl s) = sources s.
Proof. exact prov_unwind_res. Qed.
Check C17_provenance_build_unwind :
  forall depth inputs dsl heapl s, PE s ->
  PE (build_unwind depth inputs dsl heapl s) /\
  (inputs = 0 -> input (build_unwind depth inputs dsl heapl s) = []) /\
  last_tok (build_unwind depth inputs dsl heapl s) = last_tok s /\
  sources (build_unwind depth inputs dsl heapl s) = sources s.

Theorem C17_provenance_eval_compile :
  forall fo pr rf fuel src s, PT s ->
  res_all PT (eval fo pr rf fuel src s) /\ res_all PT (compile fo pr rf fuel src s).
Proof. exact prov_eval_compile_res. Qed.
Check C17_provenance_eval_compile :
  forall fo pr rf fuel src s, PT s ->
  res_all PT (eval fo pr rf fuel src s) /\ res_all PT (compile fo pr rf fuel src s).

Theorem C17_provenance_machine :
  forall fo s, PT s ->
  res_all PT (fetch_and_run (native_fn fo) s) /\
  res_all PT (next (native_fn fo) s) /\
  (forall fuel, match run (native_fn fo) fuel s with Some r => res_all PT r | None => True end) /\
  res_all PT (rnext s).
Proof. exact prov_machine_res. Qed.
Check C17_provenance_machine :
  forall fo s, PT s ->
  res_all PT (fetch_and_run (native_fn fo) s) /\
  res_all PT (next (native_fn fo) s) /\
  (forall fuel, match run (native_fn fo) fuel s with Some r => res_all PT r | None => True end) /\
  res_all PT (rnext s).

Theorem C17_provenance_boot :
  PT boot.
Proof. exact PT_boot. Qed.
Check C17_provenance_boot :
  PT boot.

(* in every reachable state: every debug entry (and the last token) names an existing source
   and is the span of a token the lexer produces for that text; for valid UTF-8 the span lies
   inside the text *)
Definition located (s : state) (t : tokref) : Prop :=
  let '(n, a, b) := t in
  exists src, nth_error (sources s) n = Some src /\
              (exists tk, In (tk, a, b) (lex_string src) /\ nonws tk = true) /\
              (valid_utf8 src = true -> a <= b /\ b <= String.length src).

Theorem C17_provenance_reachable :
  forall fo pr s, reachable fo pr s ->
  (forall i t, nth_error (dbg s) i = Some t -> located s t) /\
  (forall t, last_tok s = Some t -> located s t) /\
  input s = [].
Proof. exact api_prov. Qed.
Check C17_provenance_reachable :
  forall fo pr s, reachable fo pr s ->
  (forall i t, nth_error (dbg s) i = Some t -> located s t) /\
  (forall t, last_tok s = Some t -> located s t) /\
  input s = [].

(* ... so the location computed from an entry (run-time errors) or from the last token
   (build-time errors) is the true line / column / line span of a real token of the named
   source (line/column computation: C17_token_location_line_col) *)
Theorem C17_location_of_entry_is_true_position :
  forall fo pr s i n a b src,
  reachable fo pr s -> nth_error (dbg s) i = Some (n, a, b) -> nth_error (sources s) n = Some src ->
  (exists tk, In (tk, a, b) (lex_string src) /\ nonws tk = true) /\
  (valid_utf8 src = true ->
   a <= b /\ b <= String.length src /\
   (src <> EmptyString ->
    token_location src a = (spec_line src a, spec_col src a, spec_line_start src a, spec_line_end src a))).
Proof. exact api_location. Qed.
Check C17_location_of_entry_is_true_position :
  forall fo pr s i n a b src,
  reachable fo pr s -> nth_error (dbg s) i = Some (n, a, b) -> nth_error (sources s) n = Some src ->
  (exists tk, In (tk, a, b) (lex_string src) /\ nonws tk = true) /\
  (valid_utf8 src = true ->
   a <= b /\ b <= String.length src /\
   (src <> EmptyString ->
    token_location src a = (spec_line src a, spec_col src a, spec_line_start src a, spec_line_end src a))).

Theorem C17_location_of_last_token_is_true_position :
  forall fo pr s n a b src,
  reachable fo pr s -> last_tok s = Some (n, a, b) -> nth_error (sources s) n = Some src ->
  (exists tk, In (tk, a, b) (lex_string src) /\ nonws tk = true) /\
  (valid_utf8 src = true ->
   a <= b /\ b <= String.length src /\
   (src <> EmptyString ->
    token_location src a = (spec_line src a, spec_col src a, spec_line_start src a, spec_line_end src a))).
Proof. exact api_location_last. Qed.
Check C17_location_of_last_token_is_true_position :
  forall fo pr s n a b src,
  reachable fo pr s -> last_tok s = Some (n, a, b) -> nth_error (sources s) n = Some src ->
  (exists tk, In (tk, a, b) (lex_string src) /\ nonws tk = true) /\
  (valid_utf8 src = true ->
   a <= b /\ b <= String.length src /\
   (src <> EmptyString ->
    token_location src a = (spec_line src a, spec_col src a, spec_line_start src a, spec_line_end src a))).

(* ---------- 5. several sources ---------- *)
(* building a source (success or failure, eval or compile, meta blocks and unwinding included)
   keeps the debug entries of everything built before as a prefix, and appends its text (and
   the texts it injects) to the sources *)
Theorem C17_multi_source_prefix :
  forall fo pr rf fuel src s, aligned s ->
  let keeps s' :=
      firstn (List.length (dbg s)) (dbg s') = dbg s /\ List.length (dbg s) <= List.length (dbg s') /\
      (exists ext, sources s' = sources s ++ src :: ext) /\ aligned s' in
  res_all keeps (eval fo pr rf fuel src s) /\ res_all keeps (compile fo pr rf fuel src s).
Proof. exact multi_eval_compile_res. Qed.
Check C17_multi_source_prefix :
  forall fo pr rf fuel src s, aligned s ->
  let keeps s' :=
      firstn (List.length (dbg s)) (dbg s') = dbg s /\ List.length (dbg s) <= List.length (dbg s') /\
      (exists ext, sources s' = sources s ++ src :: ext) /\ aligned s' in
  res_all keeps (eval fo pr rf fuel src s) /\ res_all keeps (compile fo pr rf fuel src s).

Theorem C17_multi_source_entries :
  forall s src s',
  (firstn (List.length (dbg s)) (dbg s') = dbg s /\ List.length (dbg s) <= List.length (dbg s') /\
   (exists ext, sources s' = sources s ++ src :: ext) /\ aligned s') ->
  (forall i t, nth_error (dbg s) i = Some t -> nth_error (dbg s') i = Some t) /\
  (forall n txt, nth_error (sources s) n = Some txt -> nth_error (sources s') n = Some txt) /\
  nth_error (sources s') (List.length (sources s)) = Some src.
Proof. exact keeps_earlier_entries. Qed.
Check C17_multi_source_entries :
  forall s src s',
  (firstn (List.length (dbg s)) (dbg s') = dbg s /\ List.length (dbg s) <= List.length (dbg s') /\
   (exists ext, sources s' = sources s ++ src :: ext) /\ aligned s') ->
  (forall i t, nth_error (dbg s) i = Some t -> nth_error (dbg s') i = Some t) /\
  (forall n txt, nth_error (sources s) n = Some txt -> nth_error (sources s') n = Some txt) /\
  nth_error (sources s') (List.length (sources s)) = Some src.

Theorem C17_intern_source_appends :
  forall t s,
  intern_source t s = ROk tt (set_input (set_sources s (sources s ++ [t]))
                                        (mkinlex (List.length (sources s)) (lex_new t) :: input s)).
Proof. exact intern_source_appends. Qed.
Check C17_intern_source_appends :
  forall t s,
  intern_source t s = ROk tt (set_input (set_sources s (sources s ++ [t]))
                                        (mkinlex (List.length (sources s)) (lex_new t) :: input s)).

(* ---------- 4. build-time errors ---------- *)
(* the last token is a word token with text w at its true place *)
Definition last_token_is_word (s : state) (w : string) : Prop :=
  exists n a b src, last_tok s = Some (n, a, b) /\ nth_error (sources s) n = Some src /\
                    In (TWord w, a, b) (lex_string src) /\ w = substring_of src a b.

Theorem C17_build_word_token_recorded :
  forall pr s w s1, P0 s -> get_token pr s = ROk (BWord w) s1 ->
  last_token_is_word s1 w /\ P1 s1.
Proof. exact get_token_word. Qed.
Check C17_build_word_token_recorded :
  forall pr s w s1, P0 s -> get_token pr s = ROk (BWord w) s1 ->
  last_token_is_word s1 w /\ P1 s1.

(* an unknown word: build1 fails with the state get_token left, whose last token is the word
   itself (the pre-token step is the run of a meta block's code compiled so far) *)
Theorem C17_build_unknown_word :
  forall fo pr rf f d s s0 w s1,
  P0 s ->
  (if mode_eqb (cmode (cx s)) MMeta && negb (has_pending_flow s) then run_m fo rf else ret tt) s = ROk tt s0 ->
  get_token pr s0 = ROk (BWord w) s1 ->
  match top_function_flow s1 with
  | Some (_, _, ls) => rposition ls w 0 None = None
  | None => True
  end ->
  dict_entry s1 w = None ->
  build1 fo pr rf (S f) d s = RErr EUnknown None s1 /\ last_token_is_word s1 w.
Proof. exact build1_unknown_word. Qed.
Check C17_build_unknown_word :
  forall fo pr rf f d s s0 w s1,
  P0 s ->
  (if mode_eqb (cmode (cx s)) MMeta && negb (has_pending_flow s) then run_m fo rf else ret tt) s = ROk tt s0 ->
  get_token pr s0 = ROk (BWord w) s1 ->
  match top_function_flow s1 with
  | Some (_, _, ls) => rposition ls w 0 None = None
  | None => True
  end ->
  dict_entry s1 w = None ->
  build1 fo pr rf (S f) d s = RErr EUnknown None s1 /\ last_token_is_word s1 w.

Theorem C17_build_setvar_unknown :
  forall pr s name s1, P0 s ->
  next_name pr s = ROk name s1 -> dict_entry s1 name = None ->
  i_setvar pr s = RErr EUnknown None s1 /\ last_token_is_word s1 name.
Proof. exact setvar_unknown. Qed.
Check C17_build_setvar_unknown :
  forall pr s name s1, P0 s ->
  next_name pr s = ROk name s1 -> dict_entry s1 name = None ->
  i_setvar pr s = RErr EUnknown None s1 /\ last_token_is_word s1 name.

Theorem C17_build_lexical_error :
  forall pr s k p s1, P0 s -> get_token pr s = RErr k p s1 ->
  k = EParse /\ PE s1 /\
  ((exists e x y, last_is s1 (TErr e x y)) \/ (exists txt, last_is s1 (TReal txt) /\ pr txt = None)).
Proof. exact get_token_error. Qed.
Check C17_build_lexical_error :
  forall pr s k p s1, P0 s -> get_token pr s = RErr k p s1 ->
  k = EParse /\ PE s1 /\
  ((exists e x y, last_is s1 (TErr e x y)) \/ (exists txt, last_is s1 (TReal txt) /\ pr txt = None)).

(* whatever fails while a source is built: eval / compile return that error, in a state whose
   last token is the one recorded at the failure (unwinding keeps it and the sources) *)
Theorem C17_build_error_last_token :
  forall fo pr rf fuel src m s k p s2, m <> MMeta -> PT s ->
  build1 fo pr rf fuel (List.length (nested (start_state src m s))) (start_state src m s) = RErr k p s2 ->
  exists s', build_from_source fo pr rf fuel src m s = RErr k p s' /\
             last_tok s' = last_tok s2 /\ sources s' = sources s2 /\ PT s' /\ PE s2.
Proof. exact build_error_last_tok. Qed.
Check C17_build_error_last_token :
  forall fo pr rf fuel src m s k p s2, m <> MMeta -> PT s ->
  build1 fo pr rf fuel (List.length (nested (start_state src m s))) (start_state src m s) = RErr k p s2 ->
  exists s', build_from_source fo pr rf fuel src m s = RErr k p s' /\
             last_tok s' = last_tok s2 /\ sources s' = sources s2 /\ PT s' /\ PE s2.

(* ---------- 3, at source level ---------- *)
(* eval built the whole text (build1 succeeded, leaving s2) and then its code failed: the state
   eval leaves has ip at the failing instruction (reached by successful steps, possibly inside
   called definitions and loops), and the debug map - that of s2 - has an entry there *)
Theorem C17_eval_runtime_error :
  forall fo pr rf fuel src s s2 k p s',
  aligned s -> cmode (cx s) = MEval ->
  build1 fo pr rf fuel (List.length (nested (start_state src MEval s))) (start_state src MEval s) = ROk tt s2 ->
  eval fo pr rf fuel src s = RErr k p s' ->
  exists n s3,
    steps (native_fn fo) n (set_nested s2 (tl (nested s2))) = Some s3 /\ is_running s3 = true /\
    (exists s4, fetch_and_run (native_fn fo) s3 = RErr k p s4) /\
    ip s' = ip s3 /\ dbg s' = dbg s2 /\ sources s' = sources s2 /\
    (exists t, nth_error (dbg s') (ip s') = Some t /\ nth_error (dbg s2) (ip s3) = Some t) /\
    firstn (List.length (dbg s)) (dbg s') = dbg s.
Proof. exact eval_runtime_error. Qed.
Check C17_eval_runtime_error :
  forall fo pr rf fuel src s s2 k p s',
  aligned s -> cmode (cx s) = MEval ->
  build1 fo pr rf fuel (List.length (nested (start_state src MEval s))) (start_state src MEval s) = ROk tt s2 ->
  eval fo pr rf fuel src s = RErr k p s' ->
  exists n s3,
    steps (native_fn fo) n (set_nested s2 (tl (nested s2))) = Some s3 /\ is_running s3 = true /\
    (exists s4, fetch_and_run (native_fn fo) s3 = RErr k p s4) /\
    ip s' = ip s3 /\ dbg s' = dbg s2 /\ sources s' = sources s2 /\
    (exists t, nth_error (dbg s') (ip s') = Some t /\ nth_error (dbg s2) (ip s3) = Some t) /\
    firstn (List.length (dbg s)) (dbg s') = dbg s.

(* ---------- non-vacuity, continued ---------- *)
(* the hypotheses P0 / PT are met: boot, and the start of any build from a PT state *)
Example C17_invariants_nonvacuous :
  PT boot /\ P0 (start_state "1 foo 2"%string MEval boot) /\ PT ex_compiled.
Proof.
  split; [exact PT_boot|]. split; [apply P0_start_state; [discriminate|exact PT_boot]|].
  pose proof (PT_compile ex_fo ex_pr 100 100 ex_src boot PT_boot) as H.
  unfold ex_compiled. destruct (compile ex_fo ex_pr 100 100 ex_src boot); try exact H; exact PT_boot.
Qed.

(* an unknown word: the error state names the word itself, line 0 column 2; the rejected
   source left no debug entries *)
Example C17_unknown_word_nonvacuous :
  exists s', eval ex_fo ex_pr 100 100 "1 foo 2"%string boot = RErr EUnknown None s' /\
             last_tok s' = Some (0, 2, 5) /\ nth_error (sources s') 0 = Some "1 foo 2"%string /\
             substring_of "1 foo 2"%string 2 5 = "foo"%string /\
             token_location "1 foo 2"%string 2 = (0, 2, 0, 7) /\ dbg s' = [] /\ code s' = [].
Proof. vm_compute. eexists. repeat split. Qed.

(* eval of a text whose code fails after the build: the premises of C17_eval_runtime_error *)
Example C17_eval_runtime_error_nonvacuous :
  aligned boot /\ cmode (cx boot) = MEval /\
  (exists s2, build1 ex_fo ex_pr 100 100 (List.length (nested (start_state ex_src MEval boot)))
                     (start_state ex_src MEval boot) = ROk tt s2) /\
  exists s', eval ex_fo ex_pr 100 100 ex_src boot = RErr EDivZero None s' /\
             nth_error (dbg s') (ip s') = Some (0, 8, 9).
Proof.
  split; [reflexivity|]. split; [reflexivity|]. split; vm_compute; eexists; repeat split.
Qed.

(* a second source, rejected: the entries of the first are untouched, its text is appended *)
Example C17_multi_source_nonvacuous :
  exists s', eval ex_fo ex_pr 100 100 "7 bar"%string ex_compiled = RErr EUnknown None s' /\
             dbg s' = dbg ex_compiled /\ sources s' = [ex_src; "7 bar"%string] /\
             last_tok s' = Some (1, 2, 5).
Proof. vm_compute. eexists. repeat split. Qed.

(* a word compiled inside a definition is located at its own token even when the failing call
   comes from a later source: the second source calls f, the error entry belongs to source 0 *)
Example C17_error_in_earlier_source_nonvacuous :
  let s1 := ex_state (compile ex_fo ex_pr 100 100 ": g 1 0 / ;"%string boot) in
  exists s', eval ex_fo ex_pr 100 100 "g"%string s1 = RErr EDivZero None s' /\
             nth_error (dbg s') (ip s') = Some (0, 8, 9) /\
             sources s' = [": g 1 0 / ;"%string; "g"%string].
Proof. vm_compute. eexists. repeat split. Qed.

(* the state in which a token is compiled (hypothesis P1): after the first token of a source *)
Example C17_P1_nonvacuous :
  exists s1, get_token ex_pr (start_state "1 foo 2"%string MEval boot) = ROk (BLit (CInt 1)) s1 /\ P1 s1 /\
             last_tok s1 = Some (0, 0, 1).
Proof.
  pose proof (get_token_prov ex_pr (start_state "1 foo 2"%string MEval boot)
                (P0_start_state "1 foo 2"%string MEval boot ltac:(discriminate) PT_boot)) as H.
  destruct (get_token ex_pr (start_state "1 foo 2"%string MEval boot)) as [t s1|k p s1| |] eqn:E;
    vm_compute in E; try discriminate.
  injection E as <- E. exists s1. split; [reflexivity|]. split; [exact (proj1 H)|].
  rewrite <- E. reflexivity.
Qed.

(* ---------- which token a cell gets (2, continued) ---------- *)
(* a literal compiles to one cell tagged with the literal's own token *)
Theorem C17_literal_cell_token :
  forall pr s v s1, P0 s -> get_token pr s = ROk (BLit v) s1 ->
  exists t s2, last_tok s1 = Some t /\ tok_ok s1 t /\
               code_emit_value v s1 = ROk tt s2 /\
               dbg s2 = dbg s1 ++ [t] /\ code s2 = code s1 ++ [load_value_opcode v] /\
               (last_is s1 (TLit v) \/
                exists txt r, last_is s1 (TReal txt) /\ pr txt = Some r /\ v = CReal r).
Proof. exact literal_cell. Qed.
Check C17_literal_cell_token :
  forall pr s v s1, P0 s -> get_token pr s = ROk (BLit v) s1 ->
  exists t s2, last_tok s1 = Some t /\ tok_ok s1 t /\
               code_emit_value v s1 = ROk tt s2 /\
               dbg s2 = dbg s1 ++ [t] /\ code s2 = code s1 ++ [load_value_opcode v] /\
               (last_is s1 (TLit v) \/
                exists txt r, last_is s1 (TReal txt) /\ pr txt = Some r /\ v = CReal r).

(* a word that is not immediate compiles to one cell tagged with the word's own token *)
Theorem C17_word_cell_token :
  forall fo pr rf fuel s w s1 e, P0 s -> get_token pr s = ROk (BWord w) s1 ->
  dict_entry s1 w = Some e -> (forall f len, e <> DFun true f len) ->
  build_word fo pr rf fuel w s1 = code_emit (resolve_op e) s1 /\
  exists t s2, last_tok s1 = Some t /\ code_emit (resolve_op e) s1 = ROk tt s2 /\
               dbg s2 = dbg s1 ++ [t] /\ code s2 = code s1 ++ [resolve_op e] /\
               last_token_is_word s1 w.
Proof. exact word_cell. Qed.
Check C17_word_cell_token :
  forall fo pr rf fuel s w s1 e, P0 s -> get_token pr s = ROk (BWord w) s1 ->
  dict_entry s1 w = Some e -> (forall f len, e <> DFun true f len) ->
  build_word fo pr rf fuel w s1 = code_emit (resolve_op e) s1 /\
  exists t s2, last_tok s1 = Some t /\ code_emit (resolve_op e) s1 = ROk tt s2 /\
               dbg s2 = dbg s1 ++ [t] /\ code s2 = code s1 ++ [resolve_op e] /\
               last_token_is_word s1 w.

(* the machine's only write to the code: a late-bound cell is replaced, in place, by the
   instruction it resolves to (the debug entry of the cell stays) *)
Theorem C17_machine_code_change :
  forall fo s,
  res_all (fun s' => code s' = code s \/
                     exists name e, nth_error (code s) (ip s) = Some (OResolve name) /\
                                    dict_entry s name = Some e /\
                                    code s' = list_set (code s) (ip s) (resolve_op e))
          (fetch_and_run (native_fn fo) s).
Proof. exact far_code_change. Qed.
Check C17_machine_code_change :
  forall fo s,
  res_all (fun s' => code s' = code s \/
                     exists name e, nth_error (code s) (ip s) = Some (OResolve name) /\
                                    dict_entry s name = Some e /\
                                    code s' = list_set (code s) (ip s) (resolve_op e))
          (fetch_and_run (native_fn fo) s).


(* ---------- run-time errors inside meta blocks ---------- *)
(* the code of a meta block runs between two tokens of build1; when it fails, build1 returns
   the state of the failing run: ip at the failing instruction (possibly inside a definition
   called from the block), and the debug map has the entry of that cell *)
Theorem C17_meta_run_error_location :
  forall fo pr rf f d s k p s',
  aligned s ->
  (if mode_eqb (cmode (cx s)) MMeta && negb (has_pending_flow s) then run_m fo rf else ret tt) s = RErr k p s' ->
  build1 fo pr rf (S f) d s = RErr k p s' /\ cmode (cx s) = MMeta /\
  exists n s1,
    steps (native_fn fo) n s = Some s1 /\ is_running s1 = true /\
    fetch_and_run (native_fn fo) s1 = RErr k p s' /\
    ip s' = ip s1 /\ dbg s' = dbg s /\ sources s' = sources s /\
    exists t, nth_error (dbg s') (ip s') = Some t /\ nth_error (dbg s) (ip s1) = Some t.
Proof. exact build1_meta_run_error. Qed.
Check C17_meta_run_error_location :
  forall fo pr rf f d s k p s',
  aligned s ->
  (if mode_eqb (cmode (cx s)) MMeta && negb (has_pending_flow s) then run_m fo rf else ret tt) s = RErr k p s' ->
  build1 fo pr rf (S f) d s = RErr k p s' /\ cmode (cx s) = MMeta /\
  exists n s1,
    steps (native_fn fo) n s = Some s1 /\ is_running s1 = true /\
    fetch_and_run (native_fn fo) s1 = RErr k p s' /\
    ip s' = ip s1 /\ dbg s' = dbg s /\ sources s' = sources s /\
    exists t, nth_error (dbg s') (ip s') = Some t /\ nth_error (dbg s) (ip s1) = Some t.

(* MODEL LIMIT (finding): eval / compile return the UNWOUND state, in which the debug entries
   of the rejected source are gone; the model state has no field holding the location computed
   at the moment of the failure (the implementation's last_error), so for a run-time failure
   inside a meta block the failing token cannot be read off the state eval returns - there the
   last token is the token compiled last (here the call "f"), not the failing "/" *)
Example C17_meta_error_location_not_in_final_state :
  exists s', eval ex_fo ex_pr 100 100 "#( : f 1 0 / ; f #)"%string boot = RErr EDivZero None s' /\
             dbg s' = [] /\ nth_error (dbg s') (ip s') = None /\
             last_tok s' = Some (0, 15, 16) /\
             substring_of "#( : f 1 0 / ; f #)"%string 15 16 = "f"%string /\
             substring_of "#( : f 1 0 / ; f #)"%string 11 12 = "/"%string.
Proof. vm_compute. eexists. repeat split. Qed.
