(* C17 - every error points at the token that caused it.  (a) the line/column computation is
   proved in Props/C16.v (C17_token_location); the debug-map theorems are added with Proofs/BuildProofs.v *)
From Xeh Require Import Model.Prelude Model.Bits Model.Cell Model.Lexer Proofs.LexProofs.

Theorem C17_token_location_line_col : forall s p, valid_utf8 s = true -> s <> EmptyString -> p <= String.length s ->
  token_location s p = (spec_line s p, spec_col s p, spec_line_start s p, spec_line_end s p).
Proof. exact token_location_spec_weak. Qed.
Check C17_token_location_line_col : forall s p, valid_utf8 s = true -> s <> EmptyString -> p <= String.length s ->
  token_location s p = (spec_line s p, spec_col s p, spec_line_start s p, spec_line_end s p).
