(* C12 - placeholder until Proofs/CollProofs.v is merged *)
From Xeh Require Import Model.Prelude Model.Bits Model.Cell.

Theorem C12_insert_empty : forall k v, assoc_find (assoc_insert [] k v) k = match cell_cmp k k with Eq => Some v | _ => None end.
Proof. intros k v. unfold assoc_find, assoc_insert. cbn. destruct (cell_cmp k k); reflexivity. Qed.
Check C12_insert_empty : forall k v, assoc_find (assoc_insert [] k v) k = match cell_cmp k k with Eq => Some v | _ => None end.
