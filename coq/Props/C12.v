(* C12 - Maps, vectors and strings obey collection laws under the language's equality.

   Vocabulary (defined in Proofs/CellProofs.v, Proofs/CollProofs.v, Proofs/CollVec.v, Proofs/CollWords.v):
     tagwf c      no tag wrapper directly wraps a tag wrapper, at any depth of c
     NoNaN c      no NaN real and no opaque CAny value anywhere in c (tag maps excepted)
     cell_ok c    every map inside c (tag maps included) is strictly sorted by cell_cmp with
                  NoNaN keys, every bit-string is wf, and c is tagwf          (cell_ok_tagwf)
     map_ok m     := cell_ok (CMap m);   keys_sorted m, keys_tagwf m: the two facts the map laws need
     refines m l  := forall ok NaN-free k, assoc_find m k = al_find l k  (l: association list, equal? keys)
     pairs_of l   the (key, value) pairs of a map literal's item list  v1 k1 v2 k2 ...
     vec_index    the index a relative (possibly negative) position denotes
     only_ds s s' only the data stack and the reverse log differ; has_args n s; room s rest *)
From Xeh Require Import Model.Prelude Model.Bits Model.Codec Model.Cell Model.Lexer Model.Fmt
                        Model.Vm Model.Words Proofs.BitsProofs Proofs.CellProofs Proofs.CollProofs
                        Proofs.CollVec Proofs.CollWords.
From Coq Require Import Sorting.Sorted Sorting.Permutation.
Local Notation length := List.length.

(* ================================================================== *)
(* (1) the order and the equality                                      *)
(* ================================================================== *)
Theorem C12_ok_tagwf :
  forall c, cell_ok c -> tagwf c.
Proof. exact (@cell_ok_tagwf). Qed.
Check C12_ok_tagwf :
  forall c, cell_ok c -> tagwf c.

(* cell_cmp is a total preorder on tagwf (hence on ok) cells *)
Theorem C12_cmp_refl :
  forall a, tagwf a -> cell_cmp a a = Eq.
Proof. exact (@cmp_refl). Qed.
Check C12_cmp_refl :
  forall a, tagwf a -> cell_cmp a a = Eq.

Theorem C12_cmp_antisym :
  forall a b, tagwf a -> tagwf b -> cell_cmp a b = CompOpp (cell_cmp b a).
Proof. exact (@cmp_antisym). Qed.
Check C12_cmp_antisym :
  forall a b, tagwf a -> tagwf b -> cell_cmp a b = CompOpp (cell_cmp b a).

Theorem C12_cmp_trans :
  forall a b c r, tagwf a -> tagwf b -> tagwf c ->
    cell_cmp a b = r -> cell_cmp b c = r -> cell_cmp a c = r.
Proof. exact (@cmp_trans). Qed.
Check C12_cmp_trans :
  forall a b c r, tagwf a -> tagwf b -> tagwf c ->
    cell_cmp a b = r -> cell_cmp b c = r -> cell_cmp a c = r.

Theorem C12_cmp_lt_trans :
  forall a b c, tagwf a -> tagwf b -> tagwf c ->
    cell_cmp a b = Lt -> cell_cmp b c = Lt -> cell_cmp a c = Lt.
Proof. exact (@cmp_lt_trans). Qed.
Check C12_cmp_lt_trans :
  forall a b c, tagwf a -> tagwf b -> tagwf c ->
    cell_cmp a b = Lt -> cell_cmp b c = Lt -> cell_cmp a c = Lt.

(* cells that compare Eq are interchangeable *)
Theorem C12_cmp_eq_cong :
  forall a b c, tagwf a -> tagwf b -> tagwf c ->
    cell_cmp a b = Eq -> cell_cmp a c = cell_cmp b c.
Proof. exact (@cmp_eq_cong). Qed.
Check C12_cmp_eq_cong :
  forall a b c, tagwf a -> tagwf b -> tagwf c ->
    cell_cmp a b = Eq -> cell_cmp a c = cell_cmp b c.

(* keys are the same precisely when equal? says so *)
Theorem C12_cmp_eq :
  forall a b, cell_ok a -> cell_ok b -> NoNaN a -> NoNaN b ->
    (cell_cmp a b = Eq <-> cell_eqb a b = true).
Proof. exact (@cmp_eq). Qed.
Check C12_cmp_eq :
  forall a b, cell_ok a -> cell_ok b -> NoNaN a -> NoNaN b ->
    (cell_cmp a b = Eq <-> cell_eqb a b = true).

(* equal? is an equivalence on ok NaN-free cells *)
Theorem C12_eqb_refl :
  forall a, cell_ok a -> NoNaN a -> cell_eqb a a = true.
Proof. exact (@eqb_refl). Qed.
Check C12_eqb_refl :
  forall a, cell_ok a -> NoNaN a -> cell_eqb a a = true.

Theorem C12_eqb_sym :
  forall a b, cell_ok a -> cell_ok b -> NoNaN a -> NoNaN b ->
    cell_eqb a b = cell_eqb b a.
Proof. exact (@eqb_sym). Qed.
Check C12_eqb_sym :
  forall a b, cell_ok a -> cell_ok b -> NoNaN a -> NoNaN b ->
    cell_eqb a b = cell_eqb b a.

Theorem C12_eqb_trans :
  forall a b c, cell_ok a -> cell_ok b -> cell_ok c -> NoNaN a -> NoNaN b -> NoNaN c ->
    cell_eqb a b = true -> cell_eqb b c = true -> cell_eqb a c = true.
Proof. exact (@eqb_trans). Qed.
Check C12_eqb_trans :
  forall a b c, cell_ok a -> cell_ok b -> cell_ok c -> NoNaN a -> NoNaN b -> NoNaN c ->
    cell_eqb a b = true -> cell_eqb b c = true -> cell_eqb a c = true.

(* keys of different types never collide: the type rank decides *)
Theorem C12_cmp_rank :
  forall a b, tagwf a -> tagwf b ->
    rank (value a) <> rank (value b) -> cell_cmp a b = Nat.compare (rank (value a)) (rank (value b)).
Proof. exact (@cmp_rank). Qed.
Check C12_cmp_rank :
  forall a b, tagwf a -> tagwf b ->
    rank (value a) <> rank (value b) -> cell_cmp a b = Nat.compare (rank (value a)) (rank (value b)).

Theorem C12_cmp_rank_neq :
  forall a b, tagwf a -> tagwf b ->
    rank (value a) <> rank (value b) -> cell_cmp a b <> Eq.
Proof. exact (@cmp_rank_neq). Qed.
Check C12_cmp_rank_neq :
  forall a b, tagwf a -> tagwf b ->
    rank (value a) <> rank (value b) -> cell_cmp a b <> Eq.

Theorem C12_eqb_rank :
  forall a b, tagwf a -> tagwf b ->
    rank (value a) <> rank (value b) -> cell_eqb a b = false.
Proof. exact (@eqb_rank). Qed.
Check C12_eqb_rank :
  forall a b, tagwf a -> tagwf b ->
    rank (value a) <> rank (value b) -> cell_eqb a b = false.

(* tags are ignored at every level (scmp a b := cell_cmp (strip a) (strip b)) *)
Theorem C12_cmp_strip :
  forall a b, tagwf a -> tagwf b -> cell_cmp a b = scmp a b.
Proof. exact (@cmp_strip). Qed.
Check C12_cmp_strip :
  forall a b, tagwf a -> tagwf b -> cell_cmp a b = scmp a b.

(* the hypotheses are needed: NaN and opaque values are not equal to themselves although they
   compare Eq, and a doubly wrapped value breaks antisymmetry *)
Example C12_nan_not_equal :
  f64_is_nan nan_bits = true /\
  cell_cmp (CReal nan_bits) (CReal nan_bits) = Eq /\ cell_eqb (CReal nan_bits) (CReal nan_bits) = false.
Proof. exact nan_not_equal. Qed.
Example C12_any_not_equal : cell_cmp CAny CAny = Eq /\ cell_eqb CAny CAny = false.
Proof. exact any_not_equal. Qed.
Example C12_nested_tags_break_order :
  let b := CTag [] (CTag [] (CInt 1)) in
  cell_cmp (CInt 1) b = Lt /\ cell_cmp b (CInt 1) = Eq /\ cell_eqb (CInt 1) b = false /\ cell_eqb b (CInt 1) = true.
Proof. exact nested_tags_break_order. Qed.

(* ================================================================== *)
(* (2) maps refine an association list                                 *)
(* ================================================================== *)
(* get (insert m k v) k' = if equal? k k' then v else get m k' *)
Theorem C12_find_insert :
  forall m k v k',
    map_ok m -> cell_ok k -> NoNaN k -> cell_ok k' -> NoNaN k' ->
    assoc_find (assoc_insert m k v) k' = if cell_eqb k k' then Some v else assoc_find m k'.
Proof. exact (@find_insert). Qed.
Check C12_find_insert :
  forall m k v k',
    map_ok m -> cell_ok k -> NoNaN k -> cell_ok k' -> NoNaN k' ->
    assoc_find (assoc_insert m k v) k' = if cell_eqb k k' then Some v else assoc_find m k'.

Theorem C12_find_remove :
  forall m k k',
    map_ok m -> cell_ok k -> NoNaN k -> cell_ok k' -> NoNaN k' ->
    assoc_find (assoc_remove m k) k' = if cell_eqb k k' then None else assoc_find m k'.
Proof. exact (@find_remove). Qed.
Check C12_find_remove :
  forall m k k',
    map_ok m -> cell_ok k -> NoNaN k -> cell_ok k' -> NoNaN k' ->
    assoc_find (assoc_remove m k) k' = if cell_eqb k k' then None else assoc_find m k'.

(* the same laws for ALL tagwf keys (NaN included), with the order deciding sameness *)
Theorem C12_find_insert_cmp :
  forall m k v k', keys_tagwf m -> tagwf k -> tagwf k' ->
    assoc_find (assoc_insert m k v) k' =
    if cmp_is_eq (cell_cmp k k') then Some v else assoc_find m k'.
Proof. exact (@find_insert_cmp). Qed.
Check C12_find_insert_cmp :
  forall m k v k', keys_tagwf m -> tagwf k -> tagwf k' ->
    assoc_find (assoc_insert m k v) k' =
    if cmp_is_eq (cell_cmp k k') then Some v else assoc_find m k'.

Theorem C12_find_remove_cmp :
  forall m k k', keys_tagwf m -> keys_sorted m -> tagwf k -> tagwf k' ->
    assoc_find (assoc_remove m k) k' =
    if cmp_is_eq (cell_cmp k k') then None else assoc_find m k'.
Proof. exact (@find_remove_cmp). Qed.
Check C12_find_remove_cmp :
  forall m k k', keys_tagwf m -> keys_sorted m -> tagwf k -> tagwf k' ->
    assoc_find (assoc_remove m k) k' =
    if cmp_is_eq (cell_cmp k k') then None else assoc_find m k'.

(* insert / remove keep the map well formed (sorted, no duplicate keys) *)
Theorem C12_insert_ok :
  forall m k v, map_ok m -> cell_ok k -> NoNaN k -> cell_ok v -> map_ok (assoc_insert m k v).
Proof. exact (@insert_ok). Qed.
Check C12_insert_ok :
  forall m k v, map_ok m -> cell_ok k -> NoNaN k -> cell_ok v -> map_ok (assoc_insert m k v).

Theorem C12_remove_ok :
  forall m k, map_ok m -> cell_ok k -> map_ok (assoc_remove m k).
Proof. exact (@remove_ok). Qed.
Check C12_remove_ok :
  forall m k, map_ok m -> cell_ok k -> map_ok (assoc_remove m k).

Theorem C12_insert_sorted :
  forall m k v, keys_tagwf m -> tagwf k -> keys_sorted m -> keys_sorted (assoc_insert m k v).
Proof. exact (@insert_sorted). Qed.
Check C12_insert_sorted :
  forall m k v, keys_tagwf m -> tagwf k -> keys_sorted m -> keys_sorted (assoc_insert m k v).

Theorem C12_remove_sorted :
  forall m k, keys_tagwf m -> tagwf k -> keys_sorted m -> keys_sorted (assoc_remove m k).
Proof. exact (@remove_sorted). Qed.
Check C12_remove_sorted :
  forall m k, keys_tagwf m -> tagwf k -> keys_sorted m -> keys_sorted (assoc_remove m k).

(* size: a new key grows the map by one, an existing key keeps the size *)
Theorem C12_insert_length :
  forall m k v, keys_tagwf m -> keys_sorted m -> tagwf k ->
    length (assoc_insert m k v) =
    match assoc_find m k with Some _ => length m | None => S (length m) end.
Proof. exact (@insert_length). Qed.
Check C12_insert_length :
  forall m k v, keys_tagwf m -> keys_sorted m -> tagwf k ->
    length (assoc_insert m k v) =
    match assoc_find m k with Some _ => length m | None => S (length m) end.

Theorem C12_remove_length :
  forall m k, keys_tagwf m -> keys_sorted m -> tagwf k ->
    length (assoc_remove m k) =
    match assoc_find m k with Some _ => pred (length m) | None => length m end.
Proof. exact (@remove_length). Qed.
Check C12_remove_length :
  forall m k, keys_tagwf m -> keys_sorted m -> tagwf k ->
    length (assoc_remove m k) =
    match assoc_find m k with Some _ => pred (length m) | None => length m end.

(* a map literal is the fold of the inserts of its pairs ... *)
Theorem C12_pairs_insert_fold :
  forall l m,
    pairs_insert l m = fold_left (fun m kv => assoc_insert m (fst kv) (snd kv)) (pairs_of l) m.
Proof. exact (@pairs_insert_fold). Qed.
Check C12_pairs_insert_fold :
  forall l m,
    pairs_insert l m = fold_left (fun m kv => assoc_insert m (fst kv) (snd kv)) (pairs_of l) m.

(* ... so the LAST binding of a key wins *)
Theorem C12_pairs_insert_find :
  forall l m k, keys_tagwf (pairs_of l) -> keys_tagwf m -> tagwf k ->
    assoc_find (pairs_insert l m) k =
    match find (fun kv => cmp_is_eq (cell_cmp (fst kv) k)) (rev (pairs_of l)) with
    | Some kv => Some (snd kv)
    | None => assoc_find m k
    end.
Proof. exact (@pairs_insert_find). Qed.
Check C12_pairs_insert_find :
  forall l m k, keys_tagwf (pairs_of l) -> keys_tagwf m -> tagwf k ->
    assoc_find (pairs_insert l m) k =
    match find (fun kv => cmp_is_eq (cell_cmp (fst kv) k)) (rev (pairs_of l)) with
    | Some kv => Some (snd kv)
    | None => assoc_find m k
    end.

Theorem C12_pairs_insert_find_eqb :
  forall l k,
    Forall (fun kv => cell_ok (fst kv) /\ NoNaN (fst kv)) (pairs_of l) -> cell_ok k -> NoNaN k ->
    assoc_find (pairs_insert l []) k =
    option_map snd (find (fun kv => cell_eqb (fst kv) k) (rev (pairs_of l))).
Proof. exact (@pairs_insert_find_eqb). Qed.
Check C12_pairs_insert_find_eqb :
  forall l k,
    Forall (fun kv => cell_ok (fst kv) /\ NoNaN (fst kv)) (pairs_of l) -> cell_ok k -> NoNaN k ->
    assoc_find (pairs_insert l []) k =
    option_map snd (find (fun kv => cell_eqb (fst kv) k) (rev (pairs_of l))).

Theorem C12_pairs_insert_ok :
  forall l m,
    Forall (fun kv => cell_ok (fst kv) /\ NoNaN (fst kv) /\ cell_ok (snd kv)) (pairs_of l) ->
    map_ok m -> map_ok (pairs_insert l m).
Proof. exact (@pairs_insert_ok). Qed.
Check C12_pairs_insert_ok :
  forall l m,
    Forall (fun kv => cell_ok (fst kv) /\ NoNaN (fst kv) /\ cell_ok (snd kv)) (pairs_of l) ->
    map_ok m -> map_ok (pairs_insert l m).

(* refinement: the map operations simulate an association list with equal? keys
   (al_find / al_insert / al_remove: newest binding first, looked up with cell_eqb) *)
Theorem C12_refines_nil :
  refines [] [].
Proof. exact (@refines_nil). Qed.
Check C12_refines_nil :
  refines [] [].

Theorem C12_refines_insert :
  forall m l k v, map_ok m -> cell_ok k -> NoNaN k ->
    refines m l -> refines (assoc_insert m k v) (al_insert l k v).
Proof. exact (@refines_insert). Qed.
Check C12_refines_insert :
  forall m l k v, map_ok m -> cell_ok k -> NoNaN k ->
    refines m l -> refines (assoc_insert m k v) (al_insert l k v).

Theorem C12_refines_remove :
  forall m l k, map_ok m -> al_ok l -> cell_ok k -> NoNaN k ->
    refines m l -> refines (assoc_remove m k) (al_remove l k).
Proof. exact (@refines_remove). Qed.
Check C12_refines_remove :
  forall m l k, map_ok m -> al_ok l -> cell_ok k -> NoNaN k ->
    refines m l -> refines (assoc_remove m k) (al_remove l k).

Theorem C12_refines_literal :
  forall l,
    Forall (fun kv => cell_ok (fst kv) /\ NoNaN (fst kv)) (pairs_of l) ->
    refines (pairs_insert l []) (rev (pairs_of l)).
Proof. exact (@refines_literal). Qed.
Check C12_refines_literal :
  forall l,
    Forall (fun kv => cell_ok (fst kv) /\ NoNaN (fst kv)) (pairs_of l) ->
    refines (pairs_insert l []) (rev (pairs_of l)).

Theorem C12_al_ok_insert :
  forall l k v, al_ok l -> cell_ok k -> NoNaN k -> al_ok (al_insert l k v).
Proof. exact (@al_ok_insert). Qed.
Check C12_al_ok_insert :
  forall l k v, al_ok l -> cell_ok k -> NoNaN k -> al_ok (al_insert l k v).

Theorem C12_al_ok_remove :
  forall l k, al_ok l -> al_ok (al_remove l k).
Proof. exact (@al_ok_remove). Qed.
Check C12_al_ok_remove :
  forall l k, al_ok l -> al_ok (al_remove l k).

(* iteration order = the list: it enumerates exactly the bindings, each key once *)
Theorem C12_find_in :
  forall m k v, assoc_find m k = Some v -> exists k', In (k', v) m /\ cell_cmp k' k = Eq.
Proof. exact (@find_in). Qed.
Check C12_find_in :
  forall m k v, assoc_find m k = Some v -> exists k', In (k', v) m /\ cell_cmp k' k = Eq.

Theorem C12_in_find :
  forall m k0 v k, keys_tagwf m -> keys_sorted m -> tagwf k ->
    In (k0, v) m -> cell_cmp k0 k = Eq -> assoc_find m k = Some v.
Proof. exact (@in_find). Qed.
Check C12_in_find :
  forall m k0 v k, keys_tagwf m -> keys_sorted m -> tagwf k ->
    In (k0, v) m -> cell_cmp k0 k = Eq -> assoc_find m k = Some v.

Theorem C12_keys_once :
  forall m i j p q, keys_tagwf m -> keys_sorted m ->
    nth_error m i = Some p -> nth_error m j = Some q -> cell_cmp (fst p) (fst q) = Eq -> i = j.
Proof. exact (@keys_once). Qed.
Check C12_keys_once :
  forall m i j p q, keys_tagwf m -> keys_sorted m ->
    nth_error m i = Some p -> nth_error m j = Some q -> cell_cmp (fst p) (fst q) = Eq -> i = j.

(* ================================================================== *)
(* (3) vectors and strings                                             *)
(* ================================================================== *)
(* nth: index i or len+i, for EVERY integer *)
Theorem C12_relative_index_spec :
  forall (len : nat) (i : Z),
    relative_index len i =
    if (0 <=? i)%Z && (i <? Z.of_nat len)%Z then Some (Z.to_nat i)
    else if (- Z.of_nat len <=? i)%Z && (i <? 0)%Z then Some (Z.to_nat (Z.of_nat len + i))
    else None.
Proof. exact (@relative_index_spec). Qed.
Check C12_relative_index_spec :
  forall (len : nat) (i : Z),
    relative_index len i =
    if (0 <=? i)%Z && (i <? Z.of_nat len)%Z then Some (Z.to_nat i)
    else if (- Z.of_nat len <=? i)%Z && (i <? 0)%Z then Some (Z.to_nat (Z.of_nat len + i))
    else None.

Theorem C12_vector_get_spec :
  forall v i s,
    vector_get v i s =
    match vec_index (length v) i with
    | Some n => match nth_error v n with Some c => ROk c s | None => RErr EBounds None s end
    | None => RErr EBounds None s
    end.
Proof. exact (@vector_get_spec). Qed.
Check C12_vector_get_spec :
  forall v i s,
    vector_get v i s =
    match vec_index (length v) i with
    | Some n => match nth_error v n with Some c => ROk c s | None => RErr EBounds None s end
    | None => RErr EBounds None s
    end.

Theorem C12_vec_index_nth :
  forall {A} (v : list A) i n,
    vec_index (length v) i = Some n -> exists c, nth_error v n = Some c.
Proof. exact (@vec_index_nth). Qed.
Check (@C12_vec_index_nth) :
  forall {A} (v : list A) i n,
    vec_index (length v) i = Some n -> exists c, nth_error v n = Some c.

(* slice: clamping, for every pair of integers *)
Theorem C12_slicing_index_spec :
  forall (i : Z) (len : nat),
    Z.of_nat (slicing_index i len) =
    if (i <? 0)%Z then Z.max 0 (Z.of_nat len + i) else Z.min i (Z.of_nat len).
Proof. exact (@slicing_index_spec). Qed.
Check C12_slicing_index_spec :
  forall (i : Z) (len : nat),
    Z.of_nat (slicing_index i len) =
    if (i <? 0)%Z then Z.max 0 (Z.of_nat len + i) else Z.min i (Z.of_nat len).

Theorem C12_slice_list_spec :
  forall A (l : list A) st en,
    slice_list l st en =
    let a := slicing_index st (length l) in
    let b := slicing_index en (length l) in
    firstn (b - a) (skipn a l).
Proof. exact (@slice_list_spec). Qed.
Check C12_slice_list_spec :
  forall A (l : list A) st en,
    slice_list l st en =
    let a := slicing_index st (length l) in
    let b := slicing_index en (length l) in
    firstn (b - a) (skipn a l).

Theorem C12_slice_list_length :
  forall A (l : list A) st en,
    length (slice_list l st en) =
    (slicing_index en (length l) - slicing_index st (length l))%nat.
Proof. exact (@slice_list_length). Qed.
Check C12_slice_list_length :
  forall A (l : list A) st en,
    length (slice_list l st en) =
    (slicing_index en (length l) - slicing_index st (length l))%nat.

Theorem C12_slice_list_full :
  forall A (l : list A), slice_list l 0 (Z.of_nat (length l)) = l.
Proof. exact (@slice_list_full). Qed.
Check C12_slice_list_full :
  forall A (l : list A), slice_list l 0 (Z.of_nat (length l)) = l.

Theorem C12_slice_list_empty_idx :
  forall A (l : list A) st en,
    (slicing_index en (length l) <= slicing_index st (length l))%nat -> slice_list l st en = [].
Proof. exact (@slice_list_empty_idx). Qed.
Check C12_slice_list_empty_idx :
  forall A (l : list A) st en,
    (slicing_index en (length l) <= slicing_index st (length l))%nat -> slice_list l st en = [].

(* sort: an ascending, stable permutation *)
Theorem C12_sort_cells_perm :
  forall l, Permutation (sort_cells l) l.
Proof. exact (@sort_cells_perm). Qed.
Check C12_sort_cells_perm :
  forall l, Permutation (sort_cells l) l.

Theorem C12_sort_cells_sorted :
  forall l, Forall tagwf l ->
    StronglySorted (fun a b => cell_cmp a b <> Gt) (sort_cells l).
Proof. exact (@sort_cells_sorted). Qed.
Check C12_sort_cells_sorted :
  forall l, Forall tagwf l ->
    StronglySorted (fun a b => cell_cmp a b <> Gt) (sort_cells l).

Theorem C12_sort_cells_stable :
  forall l k, Forall tagwf l -> tagwf k ->
    filter (fun y => cmp_is_eq (cell_cmp y k)) (sort_cells l) =
    filter (fun y => cmp_is_eq (cell_cmp y k)) l.
Proof. exact (@sort_cells_stable). Qed.
Check C12_sort_cells_stable :
  forall l k, Forall tagwf l -> tagwf k ->
    filter (fun y => cmp_is_eq (cell_cmp y k)) (sort_cells l) =
    filter (fun y => cmp_is_eq (cell_cmp y k)) l.

Theorem C12_sort_cells_length :
  forall l, length (sort_cells l) = length l.
Proof. exact (@sort_cells_length). Qed.
Check C12_sort_cells_length :
  forall l, length (sort_cells l) = length l.

Theorem C12_sort_cells_idem :
  forall l, Forall tagwf l -> sort_cells (sort_cells l) = sort_cells l.
Proof. exact (@sort_cells_idem). Qed.
Check C12_sort_cells_idem :
  forall l, Forall tagwf l -> sort_cells (sort_cells l) = sort_cells l.

(* concat / join of a vector of strings is String.concat with the separator *)
Theorem C12_join_cells_strings :
  forall f sep ts,
    join_cells (S f) sep (map CStr ts) = Some (String.concat (sep_of sep) ts).
Proof. exact (@join_cells_strings). Qed.
Check C12_join_cells_strings :
  forall f sep ts,
    join_cells (S f) sep (map CStr ts) = Some (String.concat (sep_of sep) ts).

(* ================================================================== *)
(* (4) the words compute exactly these functions                       *)
(* ================================================================== *)
(* get *)
Theorem C12_w_get_map_ok :
  forall s key c rest m,
    ds s = key :: c :: rest -> has_args 2 s -> value c = CMap m -> room s rest ->
    exists s', w_get s = ROk tt s' /\
               ds s' = (match assoc_find m key with Some x => x | None => CNil end) :: rest /\
               only_ds s s'.
Proof. exact (@w_get_map_ok). Qed.
Check C12_w_get_map_ok :
  forall s key c rest m,
    ds s = key :: c :: rest -> has_args 2 s -> value c = CMap m -> room s rest ->
    exists s', w_get s = ROk tt s' /\
               ds s' = (match assoc_find m key with Some x => x | None => CNil end) :: rest /\
               only_ds s s'.

Theorem C12_w_get_vec_ok :
  forall s key c rest v i,
    ds s = key :: c :: rest -> has_args 2 s -> value c = CVec v -> value key = CInt i ->
    in_usize i = true -> (i < Z.of_nat (length v))%Z -> room s rest ->
    exists x s', nth_error v (Z.to_nat i) = Some x /\
                 w_get s = ROk tt s' /\ ds s' = x :: rest /\ only_ds s s'.
Proof. exact (@w_get_vec_ok). Qed.
Check C12_w_get_vec_ok :
  forall s key c rest v i,
    ds s = key :: c :: rest -> has_args 2 s -> value c = CVec v -> value key = CInt i ->
    in_usize i = true -> (i < Z.of_nat (length v))%Z -> room s rest ->
    exists x s', nth_error v (Z.to_nat i) = Some x /\
                 w_get s = ROk tt s' /\ ds s' = x :: rest /\ only_ds s s'.

Theorem C12_w_get_err_type :
  forall s key c rest,
    ds s = key :: c :: rest -> has_args 2 s ->
    (forall v, value c <> CVec v) -> (forall m, value c <> CMap m) ->
    exists s', w_get s = RErr EType (Some (value c)) s' /\ ds s' = rest /\ only_ds s s'.
Proof. exact (@w_get_err_type). Qed.
Check C12_w_get_err_type :
  forall s key c rest,
    ds s = key :: c :: rest -> has_args 2 s ->
    (forall v, value c <> CVec v) -> (forall m, value c <> CMap m) ->
    exists s', w_get s = RErr EType (Some (value c)) s' /\ ds s' = rest /\ only_ds s s'.

Theorem C12_w_get_vec_err_bounds :
  forall s key c rest v i,
    ds s = key :: c :: rest -> has_args 2 s -> value c = CVec v -> value key = CInt i ->
    in_usize i = true -> (Z.of_nat (length v) <= i)%Z ->
    exists s', w_get s = RErr EBounds None s' /\ ds s' = rest /\ only_ds s s'.
Proof. exact (@w_get_vec_err_bounds). Qed.
Check C12_w_get_vec_err_bounds :
  forall s key c rest v i,
    ds s = key :: c :: rest -> has_args 2 s -> value c = CVec v -> value key = CInt i ->
    in_usize i = true -> (Z.of_nat (length v) <= i)%Z ->
    exists s', w_get s = RErr EBounds None s' /\ ds s' = rest /\ only_ds s s'.

Theorem C12_w_get_vec_err_index :
  forall s key c rest v i,
    ds s = key :: c :: rest -> has_args 2 s -> value c = CVec v -> value key = CInt i -> (i < 0)%Z ->
    exists s', w_get s = RErr EType (Some key) s' /\ ds s' = rest /\ only_ds s s'.
Proof. exact (@w_get_vec_err_index). Qed.
Check C12_w_get_vec_err_index :
  forall s key c rest v i,
    ds s = key :: c :: rest -> has_args 2 s -> value c = CVec v -> value key = CInt i -> (i < 0)%Z ->
    exists s', w_get s = RErr EType (Some key) s' /\ ds s' = rest /\ only_ds s s'.

Theorem C12_w_get_vec_err_overflow :
  forall s key c rest v i,
    ds s = key :: c :: rest -> has_args 2 s -> value c = CVec v -> value key = CInt i -> (two64 <= i)%Z ->
    exists s', w_get s = RErr EOverflow None s' /\ ds s' = rest /\ only_ds s s'.
Proof. exact (@w_get_vec_err_overflow). Qed.
Check C12_w_get_vec_err_overflow :
  forall s key c rest v i,
    ds s = key :: c :: rest -> has_args 2 s -> value c = CVec v -> value key = CInt i -> (two64 <= i)%Z ->
    exists s', w_get s = RErr EOverflow None s' /\ ds s' = rest /\ only_ds s s'.

Theorem C12_w_get_vec_err_keytype :
  forall s key c rest v,
    ds s = key :: c :: rest -> has_args 2 s -> value c = CVec v -> (forall i, value key <> CInt i) ->
    exists s', w_get s = RErr EType (Some (value key)) s' /\ ds s' = rest /\ only_ds s s'.
Proof. exact (@w_get_vec_err_keytype). Qed.
Check C12_w_get_vec_err_keytype :
  forall s key c rest v,
    ds s = key :: c :: rest -> has_args 2 s -> value c = CVec v -> (forall i, value key <> CInt i) ->
    exists s', w_get s = RErr EType (Some (value key)) s' /\ ds s' = rest /\ only_ds s s'.

Theorem C12_w_get_underflow :
  forall s, ~ has_args 1 s -> w_get s = RErr EUnderflow None s.
Proof. exact (@w_get_underflow). Qed.
Check C12_w_get_underflow :
  forall s, ~ has_args 1 s -> w_get s = RErr EUnderflow None s.

(* insert *)
Theorem C12_w_insert_ok :
  forall s key val c rest m,
    ds s = key :: val :: c :: rest -> has_args 3 s -> value c = CMap m -> room s rest ->
    exists s', w_insert s = ROk tt s' /\ ds s' = CMap (assoc_insert m key val) :: rest /\ only_ds s s'.
Proof. exact (@w_insert_ok). Qed.
Check C12_w_insert_ok :
  forall s key val c rest m,
    ds s = key :: val :: c :: rest -> has_args 3 s -> value c = CMap m -> room s rest ->
    exists s', w_insert s = ROk tt s' /\ ds s' = CMap (assoc_insert m key val) :: rest /\ only_ds s s'.

Theorem C12_w_insert_err_type :
  forall s key val c rest,
    ds s = key :: val :: c :: rest -> has_args 3 s -> (forall m, value c <> CMap m) ->
    exists s', w_insert s = RErr EType (Some (value c)) s' /\ ds s' = rest /\ only_ds s s'.
Proof. exact (@w_insert_err_type). Qed.
Check C12_w_insert_err_type :
  forall s key val c rest,
    ds s = key :: val :: c :: rest -> has_args 3 s -> (forall m, value c <> CMap m) ->
    exists s', w_insert s = RErr EType (Some (value c)) s' /\ ds s' = rest /\ only_ds s s'.

Theorem C12_w_insert_underflow :
  forall s, ~ has_args 1 s -> w_insert s = RErr EUnderflow None s.
Proof. exact (@w_insert_underflow). Qed.
Check C12_w_insert_underflow :
  forall s, ~ has_args 1 s -> w_insert s = RErr EUnderflow None s.

(* remove *)
Theorem C12_w_remove_ok :
  forall s key c rest m,
    ds s = key :: c :: rest -> has_args 2 s -> value c = CMap m -> room s rest ->
    exists s', w_remove s = ROk tt s' /\ ds s' = CMap (assoc_remove m key) :: rest /\ only_ds s s'.
Proof. exact (@w_remove_ok). Qed.
Check C12_w_remove_ok :
  forall s key c rest m,
    ds s = key :: c :: rest -> has_args 2 s -> value c = CMap m -> room s rest ->
    exists s', w_remove s = ROk tt s' /\ ds s' = CMap (assoc_remove m key) :: rest /\ only_ds s s'.

Theorem C12_w_remove_err_type :
  forall s key c rest,
    ds s = key :: c :: rest -> has_args 2 s -> (forall m, value c <> CMap m) ->
    exists s', w_remove s = RErr EType (Some (value c)) s' /\ ds s' = rest /\ only_ds s s'.
Proof. exact (@w_remove_err_type). Qed.
Check C12_w_remove_err_type :
  forall s key c rest,
    ds s = key :: c :: rest -> has_args 2 s -> (forall m, value c <> CMap m) ->
    exists s', w_remove s = RErr EType (Some (value c)) s' /\ ds s' = rest /\ only_ds s s'.

Theorem C12_w_remove_underflow :
  forall s, ~ has_args 1 s -> w_remove s = RErr EUnderflow None s.
Proof. exact (@w_remove_underflow). Qed.
Check C12_w_remove_underflow :
  forall s, ~ has_args 1 s -> w_remove s = RErr EUnderflow None s.

(* nth *)
Theorem C12_w_nth_ok :
  forall s i c rest v z n x,
    ds s = i :: c :: rest -> has_args 2 s -> value i = CInt z -> in_isize z = true ->
    value c = CVec v -> vec_index (length v) z = Some n -> nth_error v n = Some x -> room s rest ->
    exists s', w_nth s = ROk tt s' /\ ds s' = x :: rest /\ only_ds s s'.
Proof. exact (@w_nth_ok). Qed.
Check C12_w_nth_ok :
  forall s i c rest v z n x,
    ds s = i :: c :: rest -> has_args 2 s -> value i = CInt z -> in_isize z = true ->
    value c = CVec v -> vec_index (length v) z = Some n -> nth_error v n = Some x -> room s rest ->
    exists s', w_nth s = ROk tt s' /\ ds s' = x :: rest /\ only_ds s s'.

Theorem C12_w_nth_err_bounds :
  forall s i c rest v z,
    ds s = i :: c :: rest -> has_args 2 s -> value i = CInt z -> in_isize z = true ->
    value c = CVec v -> vec_index (length v) z = None ->
    exists s', w_nth s = RErr EBounds None s' /\ ds s' = rest /\ only_ds s s'.
Proof. exact (@w_nth_err_bounds). Qed.
Check C12_w_nth_err_bounds :
  forall s i c rest v z,
    ds s = i :: c :: rest -> has_args 2 s -> value i = CInt z -> in_isize z = true ->
    value c = CVec v -> vec_index (length v) z = None ->
    exists s', w_nth s = RErr EBounds None s' /\ ds s' = rest /\ only_ds s s'.

Theorem C12_w_nth_err_overflow :
  forall s i r z,
    ds s = i :: r -> has_args 1 s -> value i = CInt z -> in_isize z = false ->
    exists s', w_nth s = RErr EOverflow None s' /\ ds s' = r /\ only_ds s s'.
Proof. exact (@w_nth_err_overflow). Qed.
Check C12_w_nth_err_overflow :
  forall s i r z,
    ds s = i :: r -> has_args 1 s -> value i = CInt z -> in_isize z = false ->
    exists s', w_nth s = RErr EOverflow None s' /\ ds s' = r /\ only_ds s s'.

Theorem C12_w_nth_err_index_type :
  forall s i r,
    ds s = i :: r -> has_args 1 s -> (forall z, value i <> CInt z) ->
    exists s', w_nth s = RErr EType (Some (value i)) s' /\ ds s' = r /\ only_ds s s'.
Proof. exact (@w_nth_err_index_type). Qed.
Check C12_w_nth_err_index_type :
  forall s i r,
    ds s = i :: r -> has_args 1 s -> (forall z, value i <> CInt z) ->
    exists s', w_nth s = RErr EType (Some (value i)) s' /\ ds s' = r /\ only_ds s s'.

Theorem C12_w_nth_err_type :
  forall s i c rest z,
    ds s = i :: c :: rest -> has_args 2 s -> value i = CInt z -> in_isize z = true ->
    (forall v, value c <> CVec v) ->
    exists s', w_nth s = RErr EType (Some (value c)) s' /\ ds s' = rest /\ only_ds s s'.
Proof. exact (@w_nth_err_type). Qed.
Check C12_w_nth_err_type :
  forall s i c rest z,
    ds s = i :: c :: rest -> has_args 2 s -> value i = CInt z -> in_isize z = true ->
    (forall v, value c <> CVec v) ->
    exists s', w_nth s = RErr EType (Some (value c)) s' /\ ds s' = rest /\ only_ds s s'.

Theorem C12_w_nth_underflow :
  forall s, ~ has_args 1 s -> w_nth s = RErr EUnderflow None s.
Proof. exact (@w_nth_underflow). Qed.
Check C12_w_nth_underflow :
  forall s, ~ has_args 1 s -> w_nth s = RErr EUnderflow None s.

(* push, reverse, length, sort, slice *)
Theorem C12_w_push_ok :
  forall s c x rest v,
    ds s = c :: x :: rest -> has_args 2 s -> value c = CVec v -> room s rest ->
    exists s', w_push s = ROk tt s' /\ ds s' = CVec (v ++ [x]) :: rest /\ only_ds s s'.
Proof. exact (@w_push_ok). Qed.
Check C12_w_push_ok :
  forall s c x rest v,
    ds s = c :: x :: rest -> has_args 2 s -> value c = CVec v -> room s rest ->
    exists s', w_push s = ROk tt s' /\ ds s' = CVec (v ++ [x]) :: rest /\ only_ds s s'.

Theorem C12_w_reverse_ok :
  forall s c rest v,
    ds s = c :: rest -> has_args 1 s -> value c = CVec v -> room s rest ->
    exists s', w_reverse s = ROk tt s' /\ ds s' = CVec (rev v) :: rest /\ only_ds s s'.
Proof. exact (@w_reverse_ok). Qed.
Check C12_w_reverse_ok :
  forall s c rest v,
    ds s = c :: rest -> has_args 1 s -> value c = CVec v -> room s rest ->
    exists s', w_reverse s = ROk tt s' /\ ds s' = CVec (rev v) :: rest /\ only_ds s s'.

Theorem C12_w_length_ok :
  forall s c rest n,
    ds s = c :: rest -> has_args 1 s -> coll_length c = Some n -> room s rest ->
    exists s', w_length s = ROk tt s' /\ ds s' = CInt (Z.of_nat n) :: rest /\ only_ds s s'.
Proof. exact (@w_length_ok). Qed.
Check C12_w_length_ok :
  forall s c rest n,
    ds s = c :: rest -> has_args 1 s -> coll_length c = Some n -> room s rest ->
    exists s', w_length s = ROk tt s' /\ ds s' = CInt (Z.of_nat n) :: rest /\ only_ds s s'.

Theorem C12_w_sort_ok :
  forall s c rest v,
    ds s = c :: rest -> has_args 1 s -> value c = CVec v -> room s rest ->
    exists s', w_sort s = ROk tt s' /\ ds s' = CVec (sort_cells v) :: rest /\ only_ds s s'.
Proof. exact (@w_sort_ok). Qed.
Check C12_w_sort_ok :
  forall s c rest v,
    ds s = c :: rest -> has_args 1 s -> value c = CVec v -> room s rest ->
    exists s', w_sort s = ROk tt s' /\ ds s' = CVec (sort_cells v) :: rest /\ only_ds s s'.

Theorem C12_w_slice_ok :
  forall s e b c rest v st en,
    ds s = e :: b :: c :: rest -> has_args 3 s ->
    value e = CInt en -> in_isize en = true -> value b = CInt st -> in_isize st = true ->
    value c = CVec v -> room s rest ->
    exists s', w_slice s = ROk tt s' /\ ds s' = CVec (slice_list v st en) :: rest /\ only_ds s s'.
Proof. exact (@w_slice_ok). Qed.
Check C12_w_slice_ok :
  forall s e b c rest v st en,
    ds s = e :: b :: c :: rest -> has_args 3 s ->
    value e = CInt en -> in_isize en = true -> value b = CInt st -> in_isize st = true ->
    value c = CVec v -> room s rest ->
    exists s', w_slice s = ROk tt s' /\ ds s' = CVec (slice_list v st en) :: rest /\ only_ds s s'.

Theorem C12_w_slice_str_ok :
  forall s e b c rest t st en,
    ds s = e :: b :: c :: rest -> has_args 3 s ->
    value e = CInt en -> in_isize en = true -> value b = CInt st -> in_isize st = true ->
    value c = CStr t -> room s rest ->
    exists s', w_slice s = ROk tt s' /\
               ds s' = CStr (str_concat (slice_list (str_chars t) st en)) :: rest /\ only_ds s s'.
Proof. exact (@w_slice_str_ok). Qed.
Check C12_w_slice_str_ok :
  forall s e b c rest t st en,
    ds s = e :: b :: c :: rest -> has_args 3 s ->
    value e = CInt en -> in_isize en = true -> value b = CInt st -> in_isize st = true ->
    value c = CStr t -> room s rest ->
    exists s', w_slice s = ROk tt s' /\
               ds s' = CStr (str_concat (slice_list (str_chars t) st en)) :: rest /\ only_ds s s'.

(* concat / join *)
Theorem C12_w_concat_strings_ok :
  forall s c rest ts,
    ds s = c :: rest -> has_args 1 s -> value c = CVec (map CStr ts) -> room s rest ->
    exists s', w_concat s = ROk tt s' /\ ds s' = CStr (String.concat EmptyString ts) :: rest /\ only_ds s s'.
Proof. exact (@w_concat_strings_ok). Qed.
Check C12_w_concat_strings_ok :
  forall s c rest ts,
    ds s = c :: rest -> has_args 1 s -> value c = CVec (map CStr ts) -> room s rest ->
    exists s', w_concat s = ROk tt s' /\ ds s' = CStr (String.concat EmptyString ts) :: rest /\ only_ds s s'.

Theorem C12_w_join_strings_ok :
  forall s sp c rest sep ts,
    ds s = sp :: c :: rest -> has_args 2 s -> value sp = CStr sep -> value c = CVec (map CStr ts) -> room s rest ->
    exists s', w_join s = ROk tt s' /\ ds s' = CStr (String.concat sep ts) :: rest /\ only_ds s s'.
Proof. exact (@w_join_strings_ok). Qed.
Check C12_w_join_strings_ok :
  forall s sp c rest sep ts,
    ds s = sp :: c :: rest -> has_args 2 s -> value sp = CStr sep -> value c = CVec (map CStr ts) -> room s rest ->
    exists s', w_join s = ROk tt s' /\ ds s' = CStr (String.concat sep ts) :: rest /\ only_ds s s'.

(* collect / unbox are inverse *)
Theorem C12_w_collect_ok :
  forall s c items rest,
    ds s = c :: (items ++ rest)%list -> value c = CInt (Z.of_nat (length items)) ->
    in_usize (Z.of_nat (length items)) = true -> has_args (S (length items)) s -> room s rest ->
    exists s', w_collect s = ROk tt s' /\ ds s' = CVec (rev items) :: rest /\ only_ds s s'.
Proof. exact (@w_collect_ok). Qed.
Check C12_w_collect_ok :
  forall s c items rest,
    ds s = c :: (items ++ rest)%list -> value c = CInt (Z.of_nat (length items)) ->
    in_usize (Z.of_nat (length items)) = true -> has_args (S (length items)) s -> room s rest ->
    exists s', w_collect s = ROk tt s' /\ ds s' = CVec (rev items) :: rest /\ only_ds s s'.

Theorem C12_w_unbox_ok :
  forall s c rest v,
    ds s = c :: rest -> has_args 1 s -> value c = CVec v ->
    (forall n, (n < length v)%nat -> limit_reached (stack_limit s) (length rest + n) = false) ->
    exists s', w_unbox s = ROk tt s' /\ ds s' = (rev v ++ rest)%list /\ only_ds s s'.
Proof. exact (@w_unbox_ok). Qed.
Check C12_w_unbox_ok :
  forall s c rest v,
    ds s = c :: rest -> has_args 1 s -> value c = CVec v ->
    (forall n, (n < length v)%nat -> limit_reached (stack_limit s) (length rest + n) = false) ->
    exists s', w_unbox s = ROk tt s' /\ ds s' = (rev v ++ rest)%list /\ only_ds s s'.

Theorem C12_collect_unbox :
  forall s c items rest,
    ds s = c :: (items ++ rest)%list -> value c = CInt (Z.of_nat (length items)) ->
    in_usize (Z.of_nat (length items)) = true -> has_args (S (length items)) s -> room s rest ->
    (forall n, (n < length items)%nat -> limit_reached (stack_limit s) (length rest + n) = false) ->
    exists s', (w_collect ;; w_unbox) s = ROk tt s' /\ ds s' = (items ++ rest)%list /\ only_ds s s'.
Proof. exact (@collect_unbox). Qed.
Check C12_collect_unbox :
  forall s c items rest,
    ds s = c :: (items ++ rest)%list -> value c = CInt (Z.of_nat (length items)) ->
    in_usize (Z.of_nat (length items)) = true -> has_args (S (length items)) s -> room s rest ->
    (forall n, (n < length items)%nat -> limit_reached (stack_limit s) (length rest + n) = false) ->
    exists s', (w_collect ;; w_unbox) s = ROk tt s' /\ ds s' = (items ++ rest)%list /\ only_ds s s'.

Theorem C12_unbox_collect :
  forall s c rest v,
    ds s = c :: rest -> has_args 1 s -> value c = CVec v -> in_usize (Z.of_nat (length v)) = true ->
    (forall n, (n <= length v)%nat -> limit_reached (stack_limit s) (length rest + n) = false) ->
    exists s', (w_unbox ;; push_data (cnat (length v)) ;; w_collect) s = ROk tt s' /\
               ds s' = CVec v :: rest /\ only_ds s s'.
Proof. exact (@unbox_collect). Qed.
Check C12_unbox_collect :
  forall s c rest v,
    ds s = c :: rest -> has_args 1 s -> value c = CVec v -> in_usize (Z.of_nat (length v)) = true ->
    (forall n, (n <= length v)%nat -> limit_reached (stack_limit s) (length rest + n) = false) ->
    exists s', (w_unbox ;; push_data (cnat (length v)) ;; w_collect) s = ROk tt s' /\
               ds s' = CVec v :: rest /\ only_ds s s'.

(* literals *)
Theorem C12_w_map_end_ok :
  forall s items rest sp,
    special s = length rest :: sp -> (ss_ptr (cx s) < length (special s))%nat ->
    ds s = (items ++ rest)%list -> has_args (length items) s ->
    Nat.modulo (length items) 2 = 0%nat -> room s rest ->
    exists s', w_map_end s = ROk tt s' /\ ds s' = CMap (pairs_insert (rev items) []) :: rest /\
               special s' = sp /\ only_ds (set_special s sp) s'.
Proof. exact (@w_map_end_ok). Qed.
Check C12_w_map_end_ok :
  forall s items rest sp,
    special s = length rest :: sp -> (ss_ptr (cx s) < length (special s))%nat ->
    ds s = (items ++ rest)%list -> has_args (length items) s ->
    Nat.modulo (length items) 2 = 0%nat -> room s rest ->
    exists s', w_map_end s = ROk tt s' /\ ds s' = CMap (pairs_insert (rev items) []) :: rest /\
               special s' = sp /\ only_ds (set_special s sp) s'.

Theorem C12_w_vec_end_ok :
  forall s items rest sp,
    special s = length rest :: sp -> (ss_ptr (cx s) < length (special s))%nat ->
    ds s = (items ++ rest)%list -> has_args (length items) s -> room s rest ->
    exists s', w_vec_end s = ROk tt s' /\ ds s' = CVec (rev items) :: rest /\ special s' = sp /\
               only_ds (set_special s sp) s'.
Proof. exact (@w_vec_end_ok). Qed.
Check C12_w_vec_end_ok :
  forall s items rest sp,
    special s = length rest :: sp -> (ss_ptr (cx s) < length (special s))%nat ->
    ds s = (items ++ rest)%list -> has_args (length items) s -> room s rest ->
    exists s', w_vec_end s = ROk tt s' /\ ds s' = CVec (rev items) :: rest /\ special s' = sp /\
               only_ds (set_special s sp) s'.

(* foreach: the loop counter words push the i-th binding / element *)
Theorem C12_w_foreach_init_ok :
  forall s c rest n,
    ds s = c :: rest -> has_args 1 s -> coll_size c = Some (S n) ->
    limit_reached (stack_limit s) (S (length (ds s))) = false ->
    exists s', w_foreach_init s = ROk tt s' /\
               ds s' = CInt 0 :: CInt (Z.of_nat (S n)) :: c :: rest /\ only_ds s s'.
Proof. exact (@w_foreach_init_ok). Qed.
Check C12_w_foreach_init_ok :
  forall s c rest n,
    ds s = c :: rest -> has_args 1 s -> coll_size c = Some (S n) ->
    limit_reached (stack_limit s) (S (length (ds s))) = false ->
    exists s', w_foreach_init s = ROk tt s' /\
               ds s' = CInt 0 :: CInt (Z.of_nat (S n)) :: c :: rest /\ only_ds s s'.

Theorem C12_w_foreach_init_empty :
  forall s c rest,
    ds s = c :: rest -> has_args 1 s -> coll_size c = Some 0%nat ->
    limit_reached (stack_limit s) (S (length rest)) = false ->
    exists s', w_foreach_init s = ROk tt s' /\ ds s' = CInt 0 :: CInt 0 :: rest /\ only_ds s s'.
Proof. exact (@w_foreach_init_empty). Qed.
Check C12_w_foreach_init_empty :
  forall s c rest,
    ds s = c :: rest -> has_args 1 s -> coll_size c = Some 0%nat ->
    limit_reached (stack_limit s) (S (length rest)) = false ->
    exists s', w_foreach_init s = ROk tt s' /\ ds s' = CInt 0 :: CInt 0 :: rest /\ only_ds s s'.

Theorem C12_w_counter_map_ok :
  forall n s l m i k v,
    nth_error (active_loops s) n = Some l -> value (l_items l) = CMap m ->
    l_start l = Z.of_nat i -> nth_error m i = Some (k, v) ->
    limit_reached (stack_limit s) (S (length (ds s))) = false ->
    exists s', w_counter n s = ROk tt s' /\ ds s' = v :: k :: ds s /\ only_ds s s'.
Proof. exact (@w_counter_map_ok). Qed.
Check C12_w_counter_map_ok :
  forall n s l m i k v,
    nth_error (active_loops s) n = Some l -> value (l_items l) = CMap m ->
    l_start l = Z.of_nat i -> nth_error m i = Some (k, v) ->
    limit_reached (stack_limit s) (S (length (ds s))) = false ->
    exists s', w_counter n s = ROk tt s' /\ ds s' = v :: k :: ds s /\ only_ds s s'.

Theorem C12_w_counter_vec_ok :
  forall n s l v i x,
    nth_error (active_loops s) n = Some l -> value (l_items l) = CVec v ->
    l_start l = Z.of_nat i -> nth_error v i = Some x -> room s (ds s) ->
    exists s', w_counter n s = ROk tt s' /\ ds s' = x :: ds s /\ only_ds s s'.
Proof. exact (@w_counter_vec_ok). Qed.
Check C12_w_counter_vec_ok :
  forall n s l v i x,
    nth_error (active_loops s) n = Some l -> value (l_items l) = CVec v ->
    l_start l = Z.of_nat i -> nth_error v i = Some x -> room s (ds s) ->
    exists s', w_counter n s = ROk tt s' /\ ds s' = x :: ds s /\ only_ds s s'.

(* collections are values: these words change nothing but the data stack (and the log);
   whatever is still referenced from a variable, a loop or deeper in the stack is untouched *)
Theorem C12_only_ds_heap :
  forall s s', only_ds s s' -> heap s' = heap s.
Proof. exact (@only_ds_heap). Qed.
Check C12_only_ds_heap :
  forall s s', only_ds s s' -> heap s' = heap s.

Theorem C12_only_ds_loops :
  forall s s', only_ds s s' -> loops s' = loops s.
Proof. exact (@only_ds_loops). Qed.
Check C12_only_ds_loops :
  forall s s', only_ds s s' -> loops s' = loops s.

Theorem C12_only_ds_rs :
  forall s s', only_ds s s' -> rs s' = rs s.
Proof. exact (@only_ds_rs). Qed.
Check C12_only_ds_rs :
  forall s s', only_ds s s' -> rs s' = rs s.

(* ================================================================== *)
(* non-vacuity                                                         *)
(* ================================================================== *)
Definition ex_map : list (cell * cell) :=
  assoc_insert (assoc_insert (assoc_insert (assoc_insert [] (CInt 1) (CStr "a")) (CStr "1") (CInt 2))
                             (CTag [(CStr "t", CNil)] (CInt 1)) (CStr "b"))
               (CVec [CFlag true; CReal 0]) (CMap [(CNil, CNil)]).

(* a map with keys of four types: the tagged 1 replaced the binding of 1, "1" did not collide *)
Example C12_map_nonvacuous :
  map_ok ex_map /\ length ex_map = 3 /\
  assoc_find ex_map (CInt 1) = Some (CStr "b") /\ assoc_find ex_map (CStr "1") = Some (CInt 2) /\
  assoc_find ex_map (CVec [CFlag true; CReal (2 ^ 63)]) = Some (CMap [(CNil, CNil)]) /\
  assoc_find (assoc_remove ex_map (CInt 1)) (CInt 1) = None.
Proof.
  split; [| vm_compute; repeat split; reflexivity].
  unfold ex_map.
  apply insert_ok; [apply insert_ok; [apply insert_ok; [apply insert_ok |..] |..] |..]; ok_tac.
Qed.

Example C12_vec_nonvacuous :
  relative_index 3 (-1) = Some 2 /\ relative_index 3 (-4) = None /\ relative_index 3 3 = None /\
  slice_list [CInt 1; CInt 2; CInt 3] (-2) 100 = [CInt 2; CInt 3] /\
  slice_list [CInt 1; CInt 2; CInt 3] 2 1 = [] /\
  sort_cells [CStr "b"; CInt 2; CTag [] (CInt 1); CNil; CInt 1] = [CNil; CTag [] (CInt 1); CInt 1; CInt 2; CStr "b"].
Proof. vm_compute. repeat split; reflexivity. Qed.

(* Not covered here: concat / join on vectors that are not flat vectors of strings (nested vectors,
   elements rendered by the printer); the character model of strings behind `slice` on a string is
   the model's str_chars / str_concat (C12_w_slice_str_ok), no further law about it is stated;
   type errors of the SECOND index argument of slice.  Everything else asked for in C12 is a theorem above. *)
