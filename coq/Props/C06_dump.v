(* C06 (continuation) - the inspection words `dump` and `dump-at` of the parsing cursor.
   They belong to the cursor vocabulary (they read `input` and `offset`) and were outside the model until round 11.
   What C06 needs of them: they print and change nothing else - input, offset, stash (the heap) and the data stack
   are those before (`dump-at` consumes its one argument), and a failing `dump` leaves the state as it was.
   [prints_only s r]: r is a normal return in the state s with text appended to the captured output, or an error in
   exactly s; never a panic. *)
From Xeh Require Import Model.Prelude Model.Bits Model.Codec Model.Cell Model.Lexer Model.Fmt Model.Vm Model.Words.
From Xeh Require Import Proofs.DumpUtf8 Proofs.DumpFuel.
Local Notation length := List.length.

Theorem C06_dump_prints_only : forall s, prints_only s (w_dump s).
Proof. exact w_dump_prints_only. Qed.
Check C06_dump_prints_only : forall s, prints_only s (w_dump s).

Theorem C06_dump_keeps_cursor : forall s u s',
  w_dump s = ROk u s' -> heap s' = heap s /\ ds s' = ds s /\ cx s' = cx s /\ rlog s' = rlog s.
Proof. exact w_dump_keeps_cursor. Qed.
Check C06_dump_keeps_cursor : forall s u s',
  w_dump s = ROk u s' -> heap s' = heap s /\ ds s' = ds s /\ cx s' = cx s /\ rlog s' = rlog s.

Theorem C06_dump_fails_clean : forall s k p s', w_dump s = RErr k p s' -> s' = s.
Proof. exact w_dump_fails_clean. Qed.
Check C06_dump_fails_clean : forall s k p s', w_dump s = RErr k p s' -> s' = s.

Theorem C06_dump_at_prints_only : forall s,
  match w_dump_at s with
  | ROk _ s' => exists c rest t, ds s = c :: rest /\
                  s' = set_out (add_rstep (RPushData c) (set_ds s rest)) (String.append (out s) t)
  | RErr _ _ s' => s' = s \/ exists c rest, ds s = c :: rest /\ s' = add_rstep (RPushData c) (set_ds s rest)
  | RPanic => False
  | RUnsup => True
  end.
Proof. exact w_dump_at_prints_only. Qed.
Check C06_dump_at_prints_only : forall s,
  match w_dump_at s with
  | ROk _ s' => exists c rest t, ds s = c :: rest /\
                  s' = set_out (add_rstep (RPushData c) (set_ds s rest)) (String.append (out s) t)
  | RErr _ _ s' => s' = s \/ exists c rest, ds s = c :: rest /\ s' = add_rstep (RPushData c) (set_ds s rest)
  | RPanic => False
  | RUnsup => True
  end.

Theorem C06_dump_at_keeps_cursor : forall s u s',
  w_dump_at s = ROk u s' -> heap s' = heap s /\ exists c, ds s = c :: ds s'.
Proof. exact w_dump_at_keeps_cursor. Qed.
Check C06_dump_at_keeps_cursor : forall s u s',
  w_dump_at s = ROk u s' -> heap s' = heap s /\ exists c, ds s = c :: ds s'.

(* a row of the dump consumes at most [ncols] groups of the iterator, advances the printed position by exactly
   their bits and has exactly [ncols] characters in its text column *)
Theorem C06_dump_row_advance : forall ncols pos it b h a p i,
  dump_row ncols pos it = (b, h, a, p, i) ->
  i = skipn ncols it /\ p = (pos + list_sum (map snd (firstn ncols it)))%nat /\ String.length a = ncols.
Proof. exact dump_row_advance. Qed.
Check C06_dump_row_advance : forall ncols pos it b h a p i,
  dump_row ncols pos it = (b, h, a, p, i) ->
  i = skipn ncols it /\ p = (pos + list_sum (map snd (firstn ncols it)))%nat /\ String.length a = ncols.

(* the words are the interpreter's *)
Theorem C06_dump_words : forall fo,
  native_fn fo "dump"%string = Some w_dump /\ native_fn fo "dump-at"%string = Some w_dump_at.
Proof. intro fo. split; reflexivity. Qed.
Check C06_dump_words : forall fo,
  native_fn fo "dump"%string = Some w_dump /\ native_fn fo "dump-at"%string = Some w_dump_at.

(* non-vacuity: six bytes of input, cursor at bit 3: one line, position "00000,3", six whole groups and the rest *)
Example C06_dump_example :
  fmt_bitstr_dump (mkcbs 3 48 [65; 226; 130; 172; 66; 255]%N)
  = Some ("00000,3: 0f 14 15 62 17 1f      ...b..  " ++ String (Ascii.ascii_of_N 10) "")%string.
Proof. vm_compute. reflexivity. Qed.

(* ---------- the line loop always ends: for a well-formed input `dump` / `dump-at` never leave the model ---------- *)
Theorem C06_dump_text_total : forall c, wf c -> fmt_bitstr_dump c <> None.
Proof. exact fmt_bitstr_dump_total. Qed.
Check C06_dump_text_total : forall c, wf c -> fmt_bitstr_dump c <> None.

Theorem C06_dump_in_model : forall s, input_wf s -> w_dump s <> RUnsup.
Proof. exact w_dump_in_model. Qed.
Check C06_dump_in_model : forall s, input_wf s -> w_dump s <> RUnsup.

Theorem C06_dump_at_in_model : forall s, input_wf s -> w_dump_at s <> RUnsup.
Proof. exact w_dump_at_in_model. Qed.
Check C06_dump_at_in_model : forall s, input_wf s -> w_dump_at s <> RUnsup.

(* every 8-bit group of a well-formed value has at least one bit and together they have exactly its bits *)
Theorem C06_iter8_groups : forall c, wf c ->
  Forall (fun g => 0 < snd g) (iter8 c) /\ list_sum (map snd (iter8 c)) = clen c.
Proof. exact iter8_groups. Qed.
Check C06_iter8_groups : forall c, wf c ->
  Forall (fun g => 0 < snd g) (iter8 c) /\ list_sum (map snd (iter8 c)) = clen c.
