(* C13 - Tags never change what a value does.

   Vocabulary (Proofs/CellProofs.v, TagProofs.v, TagSim.v, TagWords.v, TagFresh.v):
     strip c            c with every tag wrapper removed, at every depth
     tagwf c            no tag wrapper directly wraps a tag wrapper (with_tags never builds one)
     strip_state s      s with every cell of the data stack, heap, loop collections, locals and
                        reverse log stripped;  tagwf_state s: the cells s holds are tagwf
     res_strip r        the result r with its final state and its error payload stripped
     tag_reader w       w is one of the words that READ tags: tags get-tag %fmt-base %fmt-prefix
                        %fmt-tags %fmt-upcase print println .s concat join str>number close-bitstr
     tag_maker w        w builds a tag wrapper: with-tags insert-tag remove-tag %tagmap-end %fmt-*
                        open-bitstr float int uint (and the uN/iN/fN reading words)
     tg T c             every tag wrapper inside c (tag maps included) belongs to the set T *)
From Xeh Require Import Model.Prelude Model.Bits Model.Codec Model.Cell Model.Lexer Model.Fmt
                        Model.Vm Model.Words Proofs.BitsProofs Proofs.CellProofs Proofs.CollProofs
                        Proofs.TagProofs Proofs.TagSim Proofs.TagWords Proofs.TagFresh Proofs.TagClose.
Local Notation length := List.length.

(* ================================================================== *)
(* strip; tags never influence equality, order or the typed accessors  *)
(* ================================================================== *)
Theorem C13_strip_idem :
  forall c, strip (strip c) = strip c.
Proof. exact (@strip_idem). Qed.
Check C13_strip_idem :
  forall c, strip (strip c) = strip c.

(* equal? and the order see stripped values only *)
Theorem C13_eqb_strip :
  forall a b, tagwf a -> tagwf b -> cell_eqb a b = cell_eqb (strip a) (strip b).
Proof. exact (@eqb_strip_both). Qed.
Check C13_eqb_strip :
  forall a b, tagwf a -> tagwf b -> cell_eqb a b = cell_eqb (strip a) (strip b).

Theorem C13_cmp_strip :
  forall a b, tagwf a -> tagwf b -> cell_cmp a b = cell_cmp (strip a) (strip b).
Proof. exact (@cmp_strip_both). Qed.
Check C13_cmp_strip :
  forall a b, tagwf a -> tagwf b -> cell_cmp a b = cell_cmp (strip a) (strip b).

(* with-tags attaches a map and leaves the value alone *)
Theorem C13_value_with_tags :
  forall c t, value (with_tags c t) = value c.
Proof. exact (@value_with_tags). Qed.
Check C13_value_with_tags :
  forall c t, value (with_tags c t) = value c.

Theorem C13_tags_of_with_tags :
  forall c t, tags_of (with_tags c t) = Some t.
Proof. exact (@tags_of_with_tags). Qed.
Check C13_tags_of_with_tags :
  forall c t, tags_of (with_tags c t) = Some t.

Theorem C13_strip_with_tags :
  forall c t, strip (with_tags c t) = strip c.
Proof. exact (@strip_with_tags). Qed.
Check C13_strip_with_tags :
  forall c t, strip (with_tags c t) = strip c.

Theorem C13_eqb_with_tags :
  forall a b t, tagwf a -> tagwf b -> cell_eqb (with_tags a t) b = cell_eqb a b.
Proof. exact (@eqb_with_tags). Qed.
Check C13_eqb_with_tags :
  forall a b t, tagwf a -> tagwf b -> cell_eqb (with_tags a t) b = cell_eqb a b.

Theorem C13_cmp_with_tags :
  forall a b t, tagwf a -> tagwf b -> cell_cmp (with_tags a t) b = cell_cmp a b.
Proof. exact (@cmp_with_tags). Qed.
Check C13_cmp_with_tags :
  forall a b t, tagwf a -> tagwf b -> cell_cmp (with_tags a t) b = cell_cmp a b.

(* every typed accessor looks through the wrapper (exactly, or up to the reported payload) *)
Theorem C13_m_xint_with_tags :
  forall c t, m_xint (with_tags c t) = m_xint c.
Proof. exact (@m_xint_with_tags). Qed.
Check C13_m_xint_with_tags :
  forall c t, m_xint (with_tags c t) = m_xint c.

Theorem C13_m_real_with_tags :
  forall c t, m_real (with_tags c t) = m_real c.
Proof. exact (@m_real_with_tags). Qed.
Check C13_m_real_with_tags :
  forall c t, m_real (with_tags c t) = m_real c.

Theorem C13_m_vec_with_tags :
  forall c t, m_vec (with_tags c t) = m_vec c.
Proof. exact (@m_vec_with_tags). Qed.
Check C13_m_vec_with_tags :
  forall c t, m_vec (with_tags c t) = m_vec c.

Theorem C13_m_map_with_tags :
  forall c t, m_map (with_tags c t) = m_map c.
Proof. exact (@m_map_with_tags). Qed.
Check C13_m_map_with_tags :
  forall c t, m_map (with_tags c t) = m_map c.

Theorem C13_m_str_with_tags :
  forall c t, m_str (with_tags c t) = m_str c.
Proof. exact (@m_str_with_tags). Qed.
Check C13_m_str_with_tags :
  forall c t, m_str (with_tags c t) = m_str c.

Theorem C13_m_bits_with_tags :
  forall c t, m_bits (with_tags c t) = m_bits c.
Proof. exact (@m_bits_with_tags). Qed.
Check C13_m_bits_with_tags :
  forall c t, m_bits (with_tags c t) = m_bits c.

Theorem C13_m_isize_with_tags :
  forall c t, m_isize (with_tags c t) = m_isize c.
Proof. exact (@m_isize_with_tags). Qed.
Check C13_m_isize_with_tags :
  forall c t, m_isize (with_tags c t) = m_isize c.

Theorem C13_m_bool_with_tags :
  forall c t s, payload_strip (m_bool (with_tags c t) s) = payload_strip (m_bool c s).
Proof. exact (@m_bool_with_tags). Qed.
Check C13_m_bool_with_tags :
  forall c t s, payload_strip (m_bool (with_tags c t) s) = payload_strip (m_bool c s).

Theorem C13_m_cond_with_tags :
  forall c t s, payload_strip (m_cond (with_tags c t) s) = payload_strip (m_cond c s).
Proof. exact (@m_cond_with_tags). Qed.
Check C13_m_cond_with_tags :
  forall c t s, payload_strip (m_cond (with_tags c t) s) = payload_strip (m_cond c s).

Theorem C13_m_usize_with_tags :
  forall c t s, payload_strip (m_usize (with_tags c t) s) = payload_strip (m_usize c s).
Proof. exact (@m_usize_with_tags). Qed.
Check C13_m_usize_with_tags :
  forall c t s, payload_strip (m_usize (with_tags c t) s) = payload_strip (m_usize c s).

(* the accessors depend on [value c] only *)
Theorem C13_m_xint_value : forall a b, value a = value b -> m_xint a = m_xint b.
Proof. exact m_xint_value. Qed.
Check C13_m_xint_value : forall a b, value a = value b -> m_xint a = m_xint b.
Theorem C13_to_xint_value : forall a b, value a = value b -> to_xint a = to_xint b.
Proof. exact to_xint_value. Qed.
Check C13_to_xint_value : forall a b, value a = value b -> to_xint a = to_xint b.
Theorem C13_m_bool_value : forall a b, value a = value b -> strip a = strip b ->
  forall s, payload_strip (m_bool a s) = payload_strip (m_bool b s).
Proof. exact m_bool_value. Qed.
Check C13_m_bool_value : forall a b, value a = value b -> strip a = strip b ->
  forall s, payload_strip (m_bool a s) = payload_strip (m_bool b s).

(* tagwf is needed: a doubly wrapped value is seen differently from its stripped form *)
Example C13_nested_tags_differ :
  let b := CTag [] (CTag [] (CInt 1)) in
  cell_cmp (CInt 1) b = Lt /\ cell_cmp b (CInt 1) = Eq /\ cell_eqb (CInt 1) b = false /\ cell_eqb b (CInt 1) = true.
Proof. exact nested_tags_break_order. Qed.

(* ================================================================== *)
(* the tag words: a map attached to the value                          *)
(* ================================================================== *)
Theorem C13_value_insert_tag :
  forall c k v, value (insert_tag c k v) = value c.
Proof. exact (@value_insert_tag). Qed.
Check C13_value_insert_tag :
  forall c k v, value (insert_tag c k v) = value c.

Theorem C13_value_remove_tag :
  forall c k, value (remove_tag c k) = value c.
Proof. exact (@value_remove_tag). Qed.
Check C13_value_remove_tag :
  forall c k, value (remove_tag c k) = value c.

Theorem C13_strip_insert_tag :
  forall c k v, strip (insert_tag c k v) = strip c.
Proof. exact (@strip_insert_tag). Qed.
Check C13_strip_insert_tag :
  forall c k v, strip (insert_tag c k v) = strip c.

Theorem C13_strip_remove_tag :
  forall c k, strip (remove_tag c k) = strip c.
Proof. exact (@strip_remove_tag). Qed.
Check C13_strip_remove_tag :
  forall c k, strip (remove_tag c k) = strip c.

Theorem C13_eqb_insert_tag :
  forall c k v b, tagwf c -> tagwf b -> cell_eqb (insert_tag c k v) b = cell_eqb c b.
Proof. exact (@eqb_insert_tag). Qed.
Check C13_eqb_insert_tag :
  forall c k v b, tagwf c -> tagwf b -> cell_eqb (insert_tag c k v) b = cell_eqb c b.

Theorem C13_eqb_remove_tag :
  forall c k b, tagwf c -> tagwf b -> cell_eqb (remove_tag c k) b = cell_eqb c b.
Proof. exact (@eqb_remove_tag). Qed.
Check C13_eqb_remove_tag :
  forall c k b, tagwf c -> tagwf b -> cell_eqb (remove_tag c k) b = cell_eqb c b.

(* get-tag / insert-tag / remove-tag obey the map laws of C12 on the tag map *)
Theorem C13_get_tag_with_tags :
  forall c t k, get_tag (with_tags c t) k = assoc_find t k.
Proof. exact (@get_tag_with_tags). Qed.
Check C13_get_tag_with_tags :
  forall c t k, get_tag (with_tags c t) k = assoc_find t k.

Theorem C13_get_insert_tag :
  forall c k v k', cell_ok c -> cell_ok k -> NoNaN k -> cell_ok k' -> NoNaN k' ->
    get_tag (insert_tag c k v) k' = if cell_eqb k k' then Some v else get_tag c k'.
Proof. exact (@get_insert_tag). Qed.
Check C13_get_insert_tag :
  forall c k v k', cell_ok c -> cell_ok k -> NoNaN k -> cell_ok k' -> NoNaN k' ->
    get_tag (insert_tag c k v) k' = if cell_eqb k k' then Some v else get_tag c k'.

Theorem C13_get_insert_tag_cmp :
  forall c k v k', keys_tagwf (tags_or_empty c) -> tagwf k -> tagwf k' ->
    get_tag (insert_tag c k v) k' = if cmp_is_eq (cell_cmp k k') then Some v else get_tag c k'.
Proof. exact (@get_insert_tag_cmp). Qed.
Check C13_get_insert_tag_cmp :
  forall c k v k', keys_tagwf (tags_or_empty c) -> tagwf k -> tagwf k' ->
    get_tag (insert_tag c k v) k' = if cmp_is_eq (cell_cmp k k') then Some v else get_tag c k'.

Theorem C13_get_remove_tag :
  forall c k k', cell_ok c -> cell_ok k -> NoNaN k -> cell_ok k' -> NoNaN k' ->
    get_tag (remove_tag c k) k' = if cell_eqb k k' then None else get_tag c k'.
Proof. exact (@get_remove_tag). Qed.
Check C13_get_remove_tag :
  forall c k k', cell_ok c -> cell_ok k -> NoNaN k -> cell_ok k' -> NoNaN k' ->
    get_tag (remove_tag c k) k' = if cell_eqb k k' then None else get_tag c k'.

Theorem C13_insert_tag_size :
  forall c k v, cell_ok c -> cell_ok k ->
    length (tags_or_empty (insert_tag c k v)) =
    match get_tag c k with Some _ => length (tags_or_empty c) | None => S (length (tags_or_empty c)) end.
Proof. exact (@insert_tag_size). Qed.
Check C13_insert_tag_size :
  forall c k v, cell_ok c -> cell_ok k ->
    length (tags_or_empty (insert_tag c k v)) =
    match get_tag c k with Some _ => length (tags_or_empty c) | None => S (length (tags_or_empty c)) end.

(* the tag words keep values well formed *)
Theorem C13_with_tags_ok :
  forall c t, cell_ok c -> map_ok t -> cell_ok (with_tags c t).
Proof. exact (@with_tags_ok). Qed.
Check C13_with_tags_ok :
  forall c t, cell_ok c -> map_ok t -> cell_ok (with_tags c t).

Theorem C13_insert_tag_ok :
  forall c k v, cell_ok c -> cell_ok k -> NoNaN k -> cell_ok v -> cell_ok (insert_tag c k v).
Proof. exact (@insert_tag_ok). Qed.
Check C13_insert_tag_ok :
  forall c k v, cell_ok c -> cell_ok k -> NoNaN k -> cell_ok v -> cell_ok (insert_tag c k v).

Theorem C13_remove_tag_ok :
  forall c k, cell_ok c -> cell_ok k -> cell_ok (remove_tag c k).
Proof. exact (@remove_tag_ok). Qed.
Check C13_remove_tag_ok :
  forall c k, cell_ok c -> cell_ok k -> cell_ok (remove_tag c k).

(* ================================================================== *)
(* strip_commutes                                                      *)
(* ================================================================== *)
(* MAIN THEOREM.  For every native word (the table and the sized uN/iN/fN families) that does not read
   tags: stripping first or stripping afterwards gives the same result - same kind of result,
   same error kind, equal payload and final state after stripping.  This covers the tag WRITING
   words with-tags insert-tag remove-tag %tagmap-end as well. *)
Theorem C13_strip_commutes :
  forall fo w f s,
    native_fn fo w = Some f -> tag_reader w = false -> tagwf_state s ->
    res_strip (f s) = res_strip (f (strip_state s)).
Proof. exact (@strip_commutes). Qed.
Check C13_strip_commutes :
  forall fo w f s,
    native_fn fo w = Some f -> tag_reader w = false -> tagwf_state s ->
    res_strip (f s) = res_strip (f (strip_state s)).

(* ... for any two states that agree after stripping (arguments tagged differently at any depth) *)
Theorem C13_strip_commutes_rel :
  forall fo w f s1 s2,
    native_fn fo w = Some f -> tag_reader w = false ->
    tagwf_state s1 -> tagwf_state s2 -> strip_state s1 = strip_state s2 ->
    res_strip (f s1) = res_strip (f s2).
Proof. exact (@strip_commutes_rel). Qed.
Check C13_strip_commutes_rel :
  forall fo w f s1 s2,
    native_fn fo w = Some f -> tag_reader w = false ->
    tagwf_state s1 -> tagwf_state s2 -> strip_state s1 = strip_state s2 ->
    res_strip (f s1) = res_strip (f s2).

(* the simulation behind it *)
Theorem C13_native_sim :
  forall fo w f, native_fn fo w = Some f -> tag_reader w = false -> sim eq f f.
Proof. exact (@native_sim). Qed.
Check C13_native_sim :
  forall fo w f, native_fn fo w = Some f -> tag_reader w = false -> sim eq f f.

(* the hypothesis is an invariant of these words *)
Theorem C13_native_preserves_tagwf :
  forall fo w f s,
    native_fn fo w = Some f -> tag_reader w = false -> tagwf_state s ->
    match f s with
    | ROk _ s' => tagwf_state s'
    | RErr _ _ s' => tagwf_state s'
    | _ => True
    end.
Proof. exact (@native_preserves_tagwf). Qed.
Check C13_native_preserves_tagwf :
  forall fo w f s,
    native_fn fo w = Some f -> tag_reader w = false -> tagwf_state s ->
    match f s with
    | ROk _ s' => tagwf_state s'
    | RErr _ _ s' => tagwf_state s'
    | _ => True
    end.

(* the theorem is a Forall over the word table: a new word adds an obligation *)
Theorem C13_sim_word_table :
  forall fo,
    Forall (fun nw => tag_reader (fst nw) = true \/ simw (snd nw)) (word_table fo).
Proof. exact (@sim_word_table). Qed.
Check C13_sim_word_table :
  forall fo,
    Forall (fun nw => tag_reader (fst nw) = true \/ simw (snd nw)) (word_table fo).

(* the statement with the exclusion list of the design note (which does not name close-bitstr) *)
Definition C13_full : Prop :=
  forall fo w f s, native_fn fo w = Some f -> ~ In w design_excluded -> tagwf_state s ->
                   res_strip (f s) = res_strip (f (strip_state s)).
(* ... is FALSE in the model: close-bitstr restores the read offset from the "offset" tag that
   open-bitstr attached to the stashed input; with the heap stripped the offset is lost *)
Theorem C13_full_refuted : ~ C13_full.
Proof. exact strip_commutes_full_refuted. Qed.
Check C13_full_refuted : ~ C13_full.
Theorem C13_close_bitstr_refuted :
  exists s, tagwf_state s /\ res_strip (w_close_bitstr s) <> res_strip (w_close_bitstr (strip_state s)).
Proof. exact (@close_bitstr_not_commuting). Qed.
Check C13_close_bitstr_refuted :
  exists s, tagwf_state s /\ res_strip (w_close_bitstr s) <> res_strip (w_close_bitstr (strip_state s)).

Theorem C13_close_bitstr_witness :
  tagwf_state ex_close_state /\
    option_map (fun s => nth_error (heap s) R_OFFSET) (res_state (res_strip (w_close_bitstr ex_close_state)))
      = Some (Some (CInt 8)) /\
    option_map (fun s => nth_error (heap s) R_OFFSET) (res_state (res_strip (w_close_bitstr (strip_state ex_close_state))))
      = Some (Some (CInt 0)).
Proof. exact (@close_bitstr_reads_tags). Qed.
Check C13_close_bitstr_witness :
  tagwf_state ex_close_state /\
    option_map (fun s => nth_error (heap s) R_OFFSET) (res_state (res_strip (w_close_bitstr ex_close_state)))
      = Some (Some (CInt 8)) /\
    option_map (fun s => nth_error (heap s) R_OFFSET) (res_state (res_strip (w_close_bitstr (strip_state ex_close_state))))
      = Some (Some (CInt 0)).

(* ... and that tag is the only reason: strip everything but the stash slot and close-bitstr commutes too
   (tagwfT: no doubly wrapped tag anywhere, tag maps included) *)
Theorem C13_close_bitstr_keep_stash :
  forall s,
    tagwf_state s -> (forall st, nth_error (heap s) R_STASH = Some st -> tagwfT st) ->
    res_strip (w_close_bitstr s) = res_strip (w_close_bitstr (strip_state_keep_stash s)).
Proof. exact (@close_bitstr_commutes_keep_stash). Qed.
Check C13_close_bitstr_keep_stash :
  forall s,
    tagwf_state s -> (forall st, nth_error (heap s) R_STASH = Some st -> tagwfT st) ->
    res_strip (w_close_bitstr s) = res_strip (w_close_bitstr (strip_state_keep_stash s)).

Theorem C13_close_bitstr_same_stash :
  forall s1 s2,
    srel s1 s2 ->
    nth_error (heap s1) R_STASH = nth_error (heap s2) R_STASH ->
    (forall st, nth_error (heap s1) R_STASH = Some st -> tagwfT st) ->
    res_strip (w_close_bitstr s1) = res_strip (w_close_bitstr s2).
Proof. exact (@close_bitstr_same_stash). Qed.
Check C13_close_bitstr_same_stash :
  forall s1 s2,
    srel s1 s2 ->
    nth_error (heap s1) R_STASH = nth_error (heap s2) R_STASH ->
    (forall st, nth_error (heap s1) R_STASH = Some st -> tagwfT st) ->
    res_strip (w_close_bitstr s1) = res_strip (w_close_bitstr s2).

(* what is missing from C13_full is exactly close-bitstr *)
Theorem C13_full_partial :
  forall fo w f s,
    native_fn fo w = Some f -> ~ In w design_excluded -> w <> "close-bitstr"%string -> tagwf_state s ->
    res_strip (f s) = res_strip (f (strip_state s)).
Proof. exact (@strip_commutes_full_partial). Qed.
Check C13_full_partial :
  forall fo w f s,
    native_fn fo w = Some f -> ~ In w design_excluded -> w <> "close-bitstr"%string -> tagwf_state s ->
    res_strip (f s) = res_strip (f (strip_state s)).

(* the other excluded words do depend on tags *)
Theorem C13_tags_reads_tags :
  let s := ex_state [ex_tagged] [] in
    top_of (res_strip (w_tags s)) = Some (CMap [(CStr "k", CInt 7)]) /\
    top_of (res_strip (w_tags (strip_state s))) = Some CNil.
Proof. exact (@tags_reads_tags). Qed.
Check C13_tags_reads_tags :
  let s := ex_state [ex_tagged] [] in
    top_of (res_strip (w_tags s)) = Some (CMap [(CStr "k", CInt 7)]) /\
    top_of (res_strip (w_tags (strip_state s))) = Some CNil.

Theorem C13_get_tag_reads_tags :
  let s := ex_state [CStr "k"; ex_tagged] [] in
    top_of (res_strip (w_get_tag s)) = Some (CInt 7) /\
    top_of (res_strip (w_get_tag (strip_state s))) = Some CNil.
Proof. exact (@get_tag_reads_tags). Qed.
Check C13_get_tag_reads_tags :
  let s := ex_state [CStr "k"; ex_tagged] [] in
    top_of (res_strip (w_get_tag s)) = Some (CInt 7) /\
    top_of (res_strip (w_get_tag (strip_state s))) = Some CNil.

Theorem C13_print_reads_tags :
  let s := ex_state [CTag [(fmt_tag_name, CInt (16 + 256))] (CInt 255)] [] in
    option_map out (res_state (w_print s)) = Some "0xff"%string /\
    option_map out (res_state (w_print (strip_state s))) = Some "255"%string.
Proof. exact (@print_reads_tags). Qed.
Check C13_print_reads_tags :
  let s := ex_state [CTag [(fmt_tag_name, CInt (16 + 256))] (CInt 255)] [] in
    option_map out (res_state (w_print s)) = Some "0xff"%string /\
    option_map out (res_state (w_print (strip_state s))) = Some "255"%string.

(* ================================================================== *)
(* freshly computed results carry no tags                              *)
(* ================================================================== *)
(* for every table word that builds no tag wrapper and every set T: if all tag wrappers the machine
   holds are in T, so are all tag wrappers of the result state and of the error payload *)
Theorem C13_fresh_untagged :
  forall fo w f T s,
    table_find (word_table fo) w = Some f -> tag_maker w = false -> tg_state T s ->
    match f s with
    | ROk _ s' => tg_state T s'
    | RErr _ p s' => tgo T p /\ tg_state T s'
    | _ => True
    end.
Proof. exact (@fresh_untagged). Qed.
Check C13_fresh_untagged :
  forall fo w f T s,
    table_find (word_table fo) w = Some f -> tag_maker w = false -> tg_state T s ->
    match f s with
    | ROk _ s' => tg_state T s'
    | RErr _ p s' => tgo T p /\ tg_state T s'
    | _ => True
    end.

(* hence every tag wrapper of an output cell is (a component of) a cell the machine held before *)
Theorem C13_fresh_components :
  forall fo w f s,
    table_find (word_table fo) w = Some f -> tag_maker w = false ->
    match f s with
    | ROk _ s' => tg_state (came_from s) s'
    | RErr _ p s' => tgo (came_from s) p /\ tg_state (came_from s) s'
    | _ => True
    end.
Proof. exact (@fresh_components). Qed.
Check C13_fresh_components :
  forall fo w f s,
    table_find (word_table fo) w = Some f -> tag_maker w = false ->
    match f s with
    | ROk _ s' => tg_state (came_from s) s'
    | RErr _ p s' => tgo (came_from s) p /\ tg_state (came_from s) s'
    | _ => True
    end.

(* and a machine without tags computes results without tags *)
Theorem C13_fresh_no_tags :
  forall fo w f s,
    table_find (word_table fo) w = Some f -> tag_maker w = false -> no_tags_state s ->
    match f s with
    | ROk _ s' => no_tags_state s'
    | RErr _ p s' => tgo (fun _ => False) p /\ no_tags_state s'
    | _ => True
    end.
Proof. exact (@fresh_no_tags). Qed.
Check C13_fresh_no_tags :
  forall fo w f s,
    table_find (word_table fo) w = Some f -> tag_maker w = false -> no_tags_state s ->
    match f s with
    | ROk _ s' => no_tags_state s'
    | RErr _ p s' => tgo (fun _ => False) p /\ no_tags_state s'
    | _ => True
    end.

Theorem C13_no_tags_strip :
  forall c, no_tags c -> strip c = c.
Proof. exact (@no_tags_strip). Qed.
Check C13_no_tags_strip :
  forall c, no_tags c -> strip c = c.

Theorem C13_fresh_pack_words :
  forall fo T n o, invw T (pack_int n o) /\ invw T (pack_float fo n o).
Proof. exact (@fresh_pack_words). Qed.
Check C13_fresh_pack_words :
  forall fo T n o, invw T (pack_int n o) /\ invw T (pack_float fo n o).

Theorem C13_inv_word_table :
  forall fo,
    Forall (fun nw => tag_maker (fst nw) = true \/ forall T, invw T (snd nw)) (word_table fo).
Proof. exact (@inv_word_table). Qed.
Check C13_inv_word_table :
  forall fo,
    Forall (fun nw => tag_maker (fst nw) = true \/ forall T, invw T (snd nw)) (word_table fo).

Theorem C13_with_tags_makes_a_tag :
  let s := mkstate [] [] [] [] [] [] [CMap []; CInt 1] [] [] [] [] (mkctx 0 0 0 0 0 0 0 0 MEval) [] 0%Z
                     None None None None EmptyString None false in
    match w_with_tags s with ROk _ s' => ds s' = [CTag [] (CInt 1)] | _ => False end.
Proof. exact (@with_tags_makes_a_tag). Qed.
Check C13_with_tags_makes_a_tag :
  let s := mkstate [] [] [] [] [] [] [CMap []; CInt 1] [] [] [] [] (mkctx 0 0 0 0 0 0 0 0 MEval) [] 0%Z
                     None None None None EmptyString None false in
    match w_with_tags s with ROk _ s' => ds s' = [CTag [] (CInt 1)] | _ => False end.

(* ================================================================== *)
(* non-vacuity                                                         *)
(* ================================================================== *)
(* nth on arguments tagged at depth 0, 1 and 2 (one of them with the formatting tag) *)
Example C13_strip_commutes_nonvacuous : forall fo,
  tagwf_state ex_args_state /\ native_fn fo "nth"%string = Some w_nth /\ tag_reader "nth"%string = false /\
  top_of (w_nth ex_args_state) = Some (CVec [CTag ex_t (CStr "x")]) /\
  top_of (w_nth (strip_state ex_args_state)) = Some (CVec [CStr "x"]) /\
  res_strip (w_nth ex_args_state) = res_strip (w_nth (strip_state ex_args_state)).
Proof. exact strip_commutes_nonvacuous. Qed.

Example C13_tag_words_nonvacuous :
  let c := insert_tag (insert_tag (CInt 5) (CStr "a") (CInt 1)) (CReal 0) (CStr "z") in
  cell_ok c /\ value c = CInt 5 /\ strip c = CInt 5 /\
  get_tag c (CStr "a") = Some (CInt 1) /\ get_tag c (CReal (2 ^ 63)) = Some (CStr "z") /\
  get_tag (remove_tag c (CStr "a")) (CStr "a") = None /\ cell_eqb c (CInt 5) = true.
Proof.
  split; [| vm_compute; repeat split; reflexivity].
  apply insert_tag_ok; [apply insert_tag_ok |..]; ok_tac.
Qed.
