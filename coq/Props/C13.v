(* C13 - placeholder: theorems are added with Proofs/TagProofs.v *)
From Xeh Require Import Model.Prelude Model.Bits Model.Cell.

Theorem C13_value_with_tags : forall c t, value (with_tags c t) = value c.
Proof. intros c t. unfold with_tags. destruct c; reflexivity. Qed.
Check C13_value_with_tags : forall c t, value (with_tags c t) = value c.
