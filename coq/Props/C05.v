(* C05 - number <-> bits codecs are exact inverses and independent of alignment.
   Property theorems only. *)
From Xeh Require Import Model.Prelude Model.Bits Model.Codec Proofs.BitsBasic Proofs.CodecProofs.

(* the decoded number is a function of the bit sequence alone *)
Theorem C05_to_uint_spec : forall o c, wf c -> clen c <= 128 -> to_uint o c = spec_uint o (abs c).
Proof. exact to_uint_spec. Qed.
Check C05_to_uint_spec : forall o c, wf c -> clen c <= 128 -> to_uint o c = spec_uint o (abs c).

Theorem C05_to_int_spec : forall o c, wf c -> clen c <= 128 -> to_int o c = spec_int o (abs c).
Proof. exact to_int_spec. Qed.
Check C05_to_int_spec : forall o c, wf c -> clen c <= 128 -> to_int o c = spec_int o (abs c).

Theorem C05_alignment_independent : forall o c d, wf c -> wf d -> clen c <= 128 -> abs c = abs d ->
  to_uint o c = to_uint o d /\ to_int o c = to_int o d.
Proof. exact alignment_independent. Qed.
Check C05_alignment_independent : forall o c d, wf c -> wf d -> clen c <= 128 -> abs c = abs d ->
  to_uint o c = to_uint o d /\ to_int o c = to_int o d.

Theorem C05_from_int_wf : forall v w o, wf (from_int v w o) /\ clen (from_int v w o) = w.
Proof. exact from_int_wf. Qed.
Check C05_from_int_wf : forall v w o, wf (from_int v w o) /\ clen (from_int v w o) = w.

(* packing then unpacking: any representation d of the packed bits (any offset in
   any larger buffer) decodes to the value reduced to the width *)
Theorem C05_roundtrip_unsigned : forall o v w d, 1 <= w <= 128 -> wf d ->
  abs d = abs (from_int v w o) -> to_uint o d = (v mod 2 ^ Z.of_nat w)%Z.
Proof. exact roundtrip_unsigned. Qed.
Check C05_roundtrip_unsigned : forall o v w d, 1 <= w <= 128 -> wf d ->
  abs d = abs (from_int v w o) -> to_uint o d = (v mod 2 ^ Z.of_nat w)%Z.

Theorem C05_roundtrip_signed : forall o v w d, 1 <= w <= 128 -> wf d ->
  abs d = abs (from_int v w o) -> to_int o d = sext w (v mod 2 ^ Z.of_nat w)%Z.
Proof. exact roundtrip_signed. Qed.
Check C05_roundtrip_signed : forall o v w d, 1 <= w <= 128 -> wf d ->
  abs d = abs (from_int v w o) -> to_int o d = sext w (v mod 2 ^ Z.of_nat w)%Z.

(* byte-multiple widths are the standard byte layouts *)
Theorem C05_layout : forall o v k, k <= 16 ->
  to_bytes (from_int v (8 * k) o) =
  Some (match o with Big => be_layout k v | Little => le_layout k v end).
Proof. exact layout_spec. Qed.
Check C05_layout : forall o v k, k <= 16 ->
  to_bytes (from_int v (8 * k) o) =
  Some (match o with Big => be_layout k v | Little => le_layout k v end).

(* float patterns (k = 4 or 8 bytes) round-trip bit-exactly at any offset *)
Theorem C05_float_roundtrip : forall k o pat d, (0 <= pat < 2 ^ Z.of_nat (8 * k))%Z -> wf d ->
  abs d = abs (from_fbits k o pat) -> to_fbits k o d = pat.
Proof. exact float_roundtrip. Qed.
Check C05_float_roundtrip : forall k o pat d, (0 <= pat < 2 ^ Z.of_nat (8 * k))%Z -> wf d ->
  abs d = abs (from_fbits k o pat) -> to_fbits k o d = pat.

Example C05_nonvacuous :
  let d := mkcbs 4 20 [18; 52; 86]%N in
  wf d /\ abs d = abs (from_int 0x4523 16 Little) /\ to_uint Little d = 0x4523%Z.
Proof. cbv zeta. split; [repeat split; try (cbn; lia); repeat constructor | split; reflexivity]. Qed.
