(* C05 - number <-> bits codecs: property theorems only. *)
From Xeh Require Import Model.Prelude Model.Bits Model.Codec Proofs.BitsBasic.

Theorem C05_abs_length : forall c, length (abs c) = clen c.
Proof. exact abs_length. Qed.
Check C05_abs_length : forall c, length (abs c) = clen c.
