(* C14 (continuation) - reverse steps and the stack limit: recorded finding D41.
   Every bound of C14 is proved for forward execution (Props/C14.v, C14_run.v).  A reverse step is not covered and
   cannot be: the inverse of a pop pushes the popped item back without consulting the stack limit, so after the limit
   has been lowered `rnext` restores items above it.  Witness on the faithful model (and on the code: ./check C14
   prints the KNOWN-FINDING line for it): recording on, `1 2 3 drop drop`, stack limit 1, reverse steps. *)
From Xeh Require Import Model.Prelude Model.Bits Model.Cell Model.Lexer Model.Vm Model.Words Model.Build Model.Boot.
From Xeh Require Import Proofs.VmRev Proofs.VmLimitsRnext.
Local Notation length := List.length.

Theorem C14_rnext_respects_stack_limit_refuted :
  ~ (forall s s' S, stack_limit s = Some S -> rnext s = ROk tt s' ->
       (Z.of_nat (length (ds s')) <= Z.max S (Z.of_nat (length (ds s))))%Z).
Proof. exact rnext_respects_stack_limit_refuted. Qed.
Check C14_rnext_respects_stack_limit_refuted :
  ~ (forall s s' S, stack_limit s = Some S -> rnext s = ROk tt s' ->
       (Z.of_nat (length (ds s')) <= Z.max S (Z.of_nat (length (ds s))))%Z).

Theorem C14_rnext_witness :
  recording c14r_limited = true /\ length (ds c14r_limited) = 1 /\ stack_limit c14r_limited = Some 1%Z /\
  rnext c14r_limited = ROk tt c14r_back /\ length (ds c14r_back) = 2 /\
  option_map (fun s => length (ds s)) (rnexts 2 c14r_limited) = Some 3.
Proof. exact c14r_facts. Qed.
Check C14_rnext_witness :
  recording c14r_limited = true /\ length (ds c14r_limited) = 1 /\ stack_limit c14r_limited = Some 1%Z /\
  rnext c14r_limited = ROk tt c14r_back /\ length (ds c14r_back) = 2 /\
  option_map (fun s => length (ds s)) (rnexts 2 c14r_limited) = Some 3.
