(* C14 (continued) - resource limits along whole executions, what a limit failure leaves
   behind, independence of results from limits, recovery, build time, the meter.

   Vocabulary (all from Model/Vm.v unless said otherwise):
     set_limits (set_meter s mt) i h k   the machine [s] with meter reading [mt] and limits i h k
     res_map f r                         the result [r] with [f] applied to its state
     erase_lim s  (Proofs)               = set_limits (set_meter s 0) None None None
     push_only op / never_pushes op      (Proofs) classes of opcodes, spelled out below *)
From Xeh Require Import Model.Prelude Model.Bits Model.Cell Model.Lexer Model.Vm Model.Words Model.Build Model.Boot.
From Xeh Require Import Proofs.VmLimits Proofs.UnwindWitness Proofs.VmLimitsRunStep Proofs.VmLimitsRunFail
                        Proofs.VmLimitsRunRun Proofs.VmLimitsRunSummary.
Local Notation length := List.length.
Local Open Scope string_scope.

(* ---------- the vocabulary, spelled out ---------- *)
Theorem C14_erase_lim_means : forall s, erase_lim s = set_limits (set_meter s 0%Z) None None None.
Proof. reflexivity. Qed.
Check C14_erase_lim_means : forall s, erase_lim s = set_limits (set_meter s 0%Z) None None None.

(* two states with the same [erase_lim] agree on everything but the meter and the limits *)
Theorem C14_erase_lim_eq_means : forall a b, erase_lim a = erase_lim b ->
  dict a = dict b /\ heap a = heap b /\ code a = code b /\ ds a = ds b /\ rs a = rs b /\
  loops a = loops b /\ special a = special b /\ cx a = cx b /\ out a = out b /\ rlog a = rlog b /\
  flows a = flows b /\ nested a = nested b /\ stopping a = stopping b.
Proof. exact erase_lim_eq_fields. Qed.
Check C14_erase_lim_eq_means : forall a b, erase_lim a = erase_lim b ->
  dict a = dict b /\ heap a = heap b /\ code a = code b /\ ds a = ds b /\ rs a = rs b /\
  loops a = loops b /\ special a = special b /\ cx a = cx b /\ out a = out b /\ rlog a = rlog b /\
  flows a = flows b /\ nested a = nested b /\ stopping a = stopping b.

Theorem C14_push_only_means : forall op,
  push_only op = match op with
                 | OLoad _ | OLoadNil | OLoadI64 _ | OLoadF64 _ | OLoadStr _ | OLoadCell _ | OLoadLocal _ => true
                 | ONative w => String.eqb w "dup" || String.eqb w "depth"
                 | _ => false
                 end.
Proof. reflexivity. Qed.
Check C14_push_only_means : forall op,
  push_only op = match op with
                 | OLoad _ | OLoadNil | OLoadI64 _ | OLoadF64 _ | OLoadStr _ | OLoadCell _ | OLoadLocal _ => true
                 | ONative w => String.eqb w "dup" || String.eqb w "depth"
                 | _ => false
                 end.

Theorem C14_never_pushes_means : forall op,
  never_pushes op = match op with
                    | ONop | OCall _ | ORet | OJumpIf _ | OJumpIfNot _ | OJump _ | ODo _ | OBreak _
                    | OLoop _ | OCaseOf _ | OStore _ | OInitLocal _ => true
                    | _ => false
                    end.
Proof. reflexivity. Qed.
Check C14_never_pushes_means : forall op,
  never_pushes op = match op with
                    | ONop | OCall _ | ORet | OJumpIf _ | OJumpIfNot _ | OJump _ | ODo _ | OBreak _
                    | OLoop _ | OCaseOf _ | OStore _ | OInitLocal _ => true
                    | _ => false
                    end.

(* ================================================================================== *)
(* 2. WHAT AN OPERATION THAT FAILS WITH A LIMIT ERROR LEAVES BEHIND                    *)
(* ================================================================================== *)

(* Every limit failure of an instruction (any opcode, any native word) has one of three causes:
   (a) the instruction limit at the first fetch: the state is exactly unchanged;
   (b) the instruction limit at the second fetch of a [late] word: the cell has been resolved
       and the first fetch counted, nothing else;
   (c) a push refused by the stack limit inside the instruction: the state left is the one at
       the refused push (the stack is full in it), the meter advanced by one (two after a
       resolution). *)
Theorem C14_limit_failure_cause : forall fo s p s',
  fetch_and_run (native_fn fo) s = RErr ELimit p s' ->
  p = None /\
  ((exists N, insn_limit s = Some N /\ (N <= meter s)%Z /\ s' = s) \/
   (exists N name e,
      insn_limit s = Some N /\ (meter s + 1 = N)%Z /\
      nth_error (code s) (ip s) = Some (OResolve name) /\ dict_entry s name = Some e /\
      s' = set_code (set_meter s (meter s + 1)%Z) (list_set (code s) (ip s) (resolve_op e))) \/
   (exists S, stack_limit s = Some S /\ (S <= Z.of_nat (length (ds s')))%Z /\
              (forall N, insn_limit s = Some N -> (meter s < N)%Z) /\
              (meter s' = meter s + 1 \/ meter s' = meter s + 2)%Z)).
Proof. exact limit_failure_cause_x. Qed.
Check C14_limit_failure_cause : forall fo s p s',
  fetch_and_run (native_fn fo) s = RErr ELimit p s' ->
  p = None /\
  ((exists N, insn_limit s = Some N /\ (N <= meter s)%Z /\ s' = s) \/
   (exists N name e,
      insn_limit s = Some N /\ (meter s + 1 = N)%Z /\
      nth_error (code s) (ip s) = Some (OResolve name) /\ dict_entry s name = Some e /\
      s' = set_code (set_meter s (meter s + 1)%Z) (list_set (code s) (ip s) (resolve_op e))) \/
   (exists S, stack_limit s = Some S /\ (S <= Z.of_nat (length (ds s')))%Z /\
              (forall N, insn_limit s = Some N -> (meter s < N)%Z) /\
              (meter s' = meter s + 1 \/ meter s' = meter s + 2)%Z)).

(* The fields a failed instruction cannot have changed, for every opcode and every native word:
   everything except the data stack, the special stack (vector / map marks), the reverse log,
   the meter, and the resolution of [late] cells.  In particular the ip, the return and loop
   stacks, the heap, the output and the stopping flag are as before: in every native word the
   writes to heap / output / loop record come after the last push.  Of the data and special
   stacks the cells hidden below the marks of the current context are untouched, and recording
   is neither switched on nor off. *)
Theorem C14_limit_failure_frame : forall fo s p s',
  fetch_and_run (native_fn fo) s = RErr ELimit p s' ->
  dict s' = dict s /\ dbg s' = dbg s /\ sources s' = sources s /\ input s' = input s /\
  flows s' = flows s /\ nested s' = nested s /\ last_tok s' = last_tok s /\
  insn_limit s' = insn_limit s /\ heap_limit s' = heap_limit s /\ stack_limit s' = stack_limit s /\
  cx s' = cx s /\ rs s' = rs s /\ loops s' = loops s /\
  heap s' = heap s /\ out s' = out s /\ stopping s' = stopping s /\
  length (code s') = length (code s) /\
  (forall i op, nth_error (code s) i = Some op -> (forall n, op <> OResolve n) -> nth_error (code s') i = Some op) /\
  (meter s <= meter s' <= meter s + 2)%Z /\
  (forall h u, ds s = (u ++ h)%list -> length h <= ds_len (cx s) -> exists u', ds s' = (u' ++ h)%list) /\
  (forall h u, special s = (u ++ h)%list -> length h <= ss_ptr (cx s) -> exists u', special s' = (u' ++ h)%list) /\
  (rlog s' = None <-> rlog s = None).
Proof. exact limit_failure_frame_x. Qed.
Check C14_limit_failure_frame : forall fo s p s',
  fetch_and_run (native_fn fo) s = RErr ELimit p s' ->
  dict s' = dict s /\ dbg s' = dbg s /\ sources s' = sources s /\ input s' = input s /\
  flows s' = flows s /\ nested s' = nested s /\ last_tok s' = last_tok s /\
  insn_limit s' = insn_limit s /\ heap_limit s' = heap_limit s /\ stack_limit s' = stack_limit s /\
  cx s' = cx s /\ rs s' = rs s /\ loops s' = loops s /\
  heap s' = heap s /\ out s' = out s /\ stopping s' = stopping s /\
  length (code s') = length (code s) /\
  (forall i op, nth_error (code s) i = Some op -> (forall n, op <> OResolve n) -> nth_error (code s') i = Some op) /\
  (meter s <= meter s' <= meter s + 2)%Z /\
  (forall h u, ds s = (u ++ h)%list -> length h <= ds_len (cx s) -> exists u', ds s' = (u' ++ h)%list) /\
  (forall h u, special s = (u ++ h)%list -> length h <= ss_ptr (cx s) -> exists u', special s' = (u' ++ h)%list) /\
  (rlog s' = None <-> rlog s = None).

(* instructions that only push (literals, variable and local loads, dup, depth): the failed
   instruction leaves the state it found; only the meter has advanced when the stack limit
   (not the instruction limit) was the cause *)
Theorem C14_push_only_failure_unchanged : forall fo s op p s',
  fetch_and_run (native_fn fo) s = RErr ELimit p s' ->
  nth_error (code s) (ip s) = Some op -> push_only op = true ->
  s' = s \/ s' = set_meter s (meter s + 1)%Z.
Proof. exact push_only_failure_x. Qed.
Check C14_push_only_failure_unchanged : forall fo s op p s',
  fetch_and_run (native_fn fo) s = RErr ELimit p s' ->
  nth_error (code s) (ip s) = Some op -> push_only op = true ->
  s' = s \/ s' = set_meter s (meter s + 1)%Z.

(* instructions that never push (jumps, calls, returns, loops, stores): a limit failure can only
   be the instruction limit, and nothing has changed *)
Theorem C14_never_pushes_failure_unchanged : forall fo s op p s',
  fetch_and_run (native_fn fo) s = RErr ELimit p s' ->
  nth_error (code s) (ip s) = Some op -> never_pushes op = true ->
  s' = s /\ exists N, insn_limit s = Some N /\ (N <= meter s)%Z.
Proof. exact never_pushes_failure_x. Qed.
Check C14_never_pushes_failure_unchanged : forall fo s op p s',
  fetch_and_run (native_fn fo) s = RErr ELimit p s' ->
  nth_error (code s) (ip s) = Some op -> never_pushes op = true ->
  s' = s /\ exists N, insn_limit s = Some N /\ (N <= meter s)%Z.

(* FINDING.  "The operation that would exceed a limit ... leaves the machine state exactly as it
   was" is FALSE for the stack limit in general: a native word that has already popped operands,
   taken a vector mark off the special stack, or pushed part of its results when a push is
   refused, is not rolled back. *)
Theorem C14_failed_step_unchanged_refuted :
  ~ (forall fo s p s', fetch_and_run (native_fn fo) s = RErr ELimit p s' ->
       ds s' = ds s /\ special s' = special s).
Proof. exact failed_step_unchanged_refuted. Qed.
Check C14_failed_step_unchanged_refuted :
  ~ (forall fo s p s', fetch_and_run (native_fn fo) s = RErr ELimit p s' ->
       ds s' = ds s /\ special s' = special s).

Theorem C14_failed_step_operands_refuted :
  ~ (forall fo s p s', fetch_and_run (native_fn fo) s = RErr ELimit p s' -> ds s' = ds s).
Proof. exact failed_step_operands_refuted. Qed.
Check C14_failed_step_operands_refuted :
  ~ (forall fo s p s', fetch_and_run (native_fn fo) s = RErr ELimit p s' -> ds s' = ds s).

(* Replayable witnesses (boot state, evaluation of a source text, then [run] after lifting the
   limit).  [wit_eval src s] = eval with the test oracle; [lw_nf] = the native words.
   W1  stack limit 2; eval "1 2 [ ]"  -> limit error; the mark of "[" is gone from the special
       stack; lifting the limit and resuming gives a FLOW error, the unlimited machine gives
       the stack  [] 2 1. *)
Theorem C14_resume_vec_end_refuted :
  (exists s', w1_fail = RErr ELimit None s') /\
  lw_obs (wit_state w1_fail) = ([CInt 2; CInt 1], [], 3, true) /\
  steps lw_nf 3 w1_compiled = Some w1_before /\
  nth_error (code w1_before) (ip w1_before) = Some (ONative "%vec-end") /\
  insn_limit w1_before = None /\ stack_limit w1_before = Some 2%Z /\
  ds w1_before = [CInt 2; CInt 1] /\ special w1_before = [2] /\
  (exists s', fetch_and_run lw_nf w1_before = RErr ELimit None s' /\
              ds s' = [CInt 2; CInt 1] /\ special s' = []) /\
  lw_kind w1_resumed = Some EFlow /\
  (exists s', wit_eval "1 2 [ ]" boot = ROk tt s' /\ ds s' = [CVec []; CInt 2; CInt 1]).
Proof. exact vec_end_not_rolled_back. Qed.
Check C14_resume_vec_end_refuted :
  (exists s', w1_fail = RErr ELimit None s') /\
  lw_obs (wit_state w1_fail) = ([CInt 2; CInt 1], [], 3, true) /\
  steps lw_nf 3 w1_compiled = Some w1_before /\
  nth_error (code w1_before) (ip w1_before) = Some (ONative "%vec-end") /\
  insn_limit w1_before = None /\ stack_limit w1_before = Some 2%Z /\
  ds w1_before = [CInt 2; CInt 1] /\ special w1_before = [2] /\
  (exists s', fetch_and_run lw_nf w1_before = RErr ELimit None s' /\
              ds s' = [CInt 2; CInt 1] /\ special s' = []) /\
  lw_kind w1_resumed = Some EFlow /\
  (exists s', wit_eval "1 2 [ ]" boot = ROk tt s' /\ ds s' = [CVec []; CInt 2; CInt 1]).

Example C14_w1_definitions :
  w1_s0 = set_limits boot None None (Some 2%Z) /\ w1_fail = wit_eval "1 2 [ ]" w1_s0 /\
  w1_compiled = wit_state (compile wit_fo wit_pr wit_rf wit_fuel "1 2 [ ]" w1_s0) /\
  w1_resumed = run lw_nf 100 (set_limits (wit_state w1_fail) None None None).
Proof. repeat split; reflexivity. Qed.

(* W2  eval "1 2 3 4 5" without limit; stack limit 3 (below the depth, allowed by the
       property); eval "+" -> limit error with 4 and 5 popped; resumed without limit it adds
       2 and 3 (stack 5 1) where the unlimited machine has 9 3 2 1. *)
Theorem C14_resume_operands_refuted :
  ds w2_s0 = [CInt 5; CInt 4; CInt 3; CInt 2; CInt 1] /\
  (exists s', w2_fail = RErr ELimit None s') /\
  ds (wit_state w2_fail) = [CInt 3; CInt 2; CInt 1] /\
  lw_kind w2_resumed = None /\ ds (lw_state w2_resumed) = [CInt 5; CInt 1] /\
  (exists s', wit_eval "+" (set_limits w2_s0 None None None) = ROk tt s' /\
              ds s' = [CInt 9; CInt 3; CInt 2; CInt 1]).
Proof. exact operands_not_restored. Qed.
Check C14_resume_operands_refuted :
  ds w2_s0 = [CInt 5; CInt 4; CInt 3; CInt 2; CInt 1] /\
  (exists s', w2_fail = RErr ELimit None s') /\
  ds (wit_state w2_fail) = [CInt 3; CInt 2; CInt 1] /\
  lw_kind w2_resumed = None /\ ds (lw_state w2_resumed) = [CInt 5; CInt 1] /\
  (exists s', wit_eval "+" (set_limits w2_s0 None None None) = ROk tt s' /\
              ds s' = [CInt 9; CInt 3; CInt 2; CInt 1]).

Example C14_w2_definitions :
  w2_s0 = set_limits (wit_state (wit_eval "1 2 3 4 5" boot)) None None (Some 3%Z) /\
  w2_fail = wit_eval "+" w2_s0 /\
  w2_resumed = run lw_nf 100 (set_limits (wit_state w2_fail) None None None).
Proof. repeat split; reflexivity. Qed.

(* W3  eval "1 [ 7 8 9 ]" without limit; stack limit 3 (above the depth 2); eval "unbox" ->
       limit error with the vector gone and 7 8 pushed; resumed: type error. *)
Theorem C14_resume_unbox_refuted :
  ds w3_s0 = [CVec [CInt 7; CInt 8; CInt 9]; CInt 1] /\
  (exists s', w3_fail = RErr ELimit None s') /\
  ds (wit_state w3_fail) = [CInt 8; CInt 7; CInt 1] /\
  lw_kind w3_resumed = Some EType /\
  (exists s', wit_eval "unbox" (set_limits w3_s0 None None None) = ROk tt s' /\
              ds s' = [CInt 9; CInt 8; CInt 7; CInt 1]).
Proof. exact unbox_partial_push. Qed.
Check C14_resume_unbox_refuted :
  ds w3_s0 = [CVec [CInt 7; CInt 8; CInt 9]; CInt 1] /\
  (exists s', w3_fail = RErr ELimit None s') /\
  ds (wit_state w3_fail) = [CInt 8; CInt 7; CInt 1] /\
  lw_kind w3_resumed = Some EType /\
  (exists s', wit_eval "unbox" (set_limits w3_s0 None None None) = ROk tt s' /\
              ds s' = [CInt 9; CInt 8; CInt 7; CInt 1]).

Example C14_w3_definitions :
  w3_s0 = set_limits (wit_state (wit_eval "1 [ 7 8 9 ]" boot)) None None (Some 3%Z) /\
  w3_fail = wit_eval "unbox" w3_s0 /\
  w3_resumed = run lw_nf 100 (set_limits (wit_state w3_fail) None None None).
Proof. repeat split; reflexivity. Qed.

(* W4  stack limit 2; eval "[ 5 6 ] foreach loop" -> limit error inside %foreach-init with the
       length pushed and the start index refused; resumed: type error; unlimited: empty stack *)
Theorem C14_resume_foreach_refuted :
  (exists s', w4_fail = RErr ELimit None s') /\
  ds (wit_state w4_fail) = [CInt 2; CVec [CInt 5; CInt 6]] /\
  lw_kind w4_resumed = Some EType /\
  (exists s', wit_eval "[ 5 6 ] foreach loop" boot = ROk tt s' /\ ds s' = []).
Proof. exact foreach_init_partial_push. Qed.
Check C14_resume_foreach_refuted :
  (exists s', w4_fail = RErr ELimit None s') /\
  ds (wit_state w4_fail) = [CInt 2; CVec [CInt 5; CInt 6]] /\
  lw_kind w4_resumed = Some EType /\
  (exists s', wit_eval "[ 5 6 ] foreach loop" boot = ROk tt s' /\ ds s' = []).

Example C14_w4_definitions :
  w4_s0 = set_limits boot None None (Some 2%Z) /\ w4_fail = wit_eval "[ 5 6 ] foreach loop" w4_s0 /\
  w4_resumed = run lw_nf 100 (set_limits (wit_state w4_fail) None None None).
Proof. repeat split; reflexivity. Qed.

(* W5  [over] on a full stack while recording writes its reverse-log entry before the push is
       refused (the only difference it leaves; stepping back consumes the entry harmlessly) *)
Example C14_ex_over_logs_before_failing :
  (exists s', w5_fail = RErr ELimit None s') /\
  ds (wit_state w5_fail) = [CInt 2; CInt 1] /\ rlog (wit_state w5_fail) = Some [ROverData] /\
  (exists s', rnext (wit_state w5_fail) = ROk tt s' /\ ds s' = [CInt 2; CInt 1] /\ rlog s' = Some []).
Proof. exact over_logs_before_failing. Qed.

(* W6  the positive case: a literal on a full stack; resuming after lifting the limit works *)
Example C14_ex_literal_failure_resumes :
  (exists s', w6_fail = RErr ELimit None s') /\
  ds (wit_state w6_fail) = [CInt 2; CInt 1] /\
  lw_kind w6_resumed = None /\ ds (lw_state w6_resumed) = [CInt 3; CInt 2; CInt 1].
Proof. exact literal_failure_resumes. Qed.

(* ================================================================================== *)
(* 3. LIMITS NEVER CHANGE A RESULT; RECOVERY                                            *)
(* ================================================================================== *)

(* Limits only ever turn a result into a limit failure.  If an instruction does not fail with
   ELimit under the limits of [s], then under any meter reading [mt] and limits [i h k] that
   leave at least as much room (stack: k >= the old limit; instructions: i - mt >= old limit -
   old meter; the heap limit plays no role at run time) it returns the same value or the same
   error with the same payload, and the same state up to meter and limits. *)
Theorem C14_limits_only_fail_step : forall fo s r mt i h k,
  fetch_and_run (native_fn fo) s = r -> (forall p x, r <> RErr ELimit p x) ->
  (forall S', k = Some S' -> exists S, stack_limit s = Some S /\ (S <= S')%Z) ->
  (forall N', i = Some N' -> exists N, insn_limit s = Some N /\ (N - meter s <= N' - mt)%Z) ->
  fetch_and_run (native_fn fo) (set_limits (set_meter s mt) i h k) =
  res_map (fun x => set_limits (set_meter x (mt + (meter x - meter s))%Z) i h k) r.
Proof. exact limits_only_fail_step. Qed.
Check C14_limits_only_fail_step : forall fo s r mt i h k,
  fetch_and_run (native_fn fo) s = r -> (forall p x, r <> RErr ELimit p x) ->
  (forall S', k = Some S' -> exists S, stack_limit s = Some S /\ (S <= S')%Z) ->
  (forall N', i = Some N' -> exists N, insn_limit s = Some N /\ (N - meter s <= N' - mt)%Z) ->
  fetch_and_run (native_fn fo) (set_limits (set_meter s mt) i h k) =
  res_map (fun x => set_limits (set_meter x (mt + (meter x - meter s))%Z) i h k) r.

(* in particular: whatever does not fail with ELimit is what the unlimited machine does *)
Theorem C14_step_on_unlimited : forall fo s r,
  fetch_and_run (native_fn fo) s = r -> (forall p x, r <> RErr ELimit p x) ->
  fetch_and_run (native_fn fo) (set_limits s None None None) = res_map (fun x => set_limits x None None None) r.
Proof. exact step_on_unlimited. Qed.
Check C14_step_on_unlimited : forall fo s r,
  fetch_and_run (native_fn fo) s = r -> (forall p x, r <> RErr ELimit p x) ->
  fetch_and_run (native_fn fo) (set_limits s None None None) = res_map (fun x => set_limits x None None None) r.

(* after a failure that left the state unchanged (push-only instruction): retrying under any
   new meter / limits is executing the instruction from the state before the failure *)
Theorem C14_retry_after_push_only_failure : forall fo s op p s' mt i h k,
  fetch_and_run (native_fn fo) s = RErr ELimit p s' ->
  nth_error (code s) (ip s) = Some op -> push_only op = true ->
  fetch_and_run (native_fn fo) (set_limits (set_meter s' mt) i h k) =
  fetch_and_run (native_fn fo) (set_limits (set_meter s mt) i h k).
Proof. exact retry_after_push_only_failure. Qed.
Check C14_retry_after_push_only_failure : forall fo s op p s' mt i h k,
  fetch_and_run (native_fn fo) s = RErr ELimit p s' ->
  nth_error (code s) (ip s) = Some op -> push_only op = true ->
  fetch_and_run (native_fn fo) (set_limits (set_meter s' mt) i h k) =
  fetch_and_run (native_fn fo) (set_limits (set_meter s mt) i h k).

(* the same for executions of any length *)
Theorem C14_limits_only_fail_steps : forall fo n s sn mt i h k,
  steps (native_fn fo) n s = Some sn ->
  (forall S', k = Some S' -> exists S, stack_limit s = Some S /\ (S <= S')%Z) ->
  (forall N', i = Some N' -> exists N, insn_limit s = Some N /\ (N - meter s <= N' - mt)%Z) ->
  steps (native_fn fo) n (set_limits (set_meter s mt) i h k) =
  Some (set_limits (set_meter sn (mt + (meter sn - meter s))%Z) i h k).
Proof. exact limits_only_fail_steps. Qed.
Check C14_limits_only_fail_steps : forall fo n s sn mt i h k,
  steps (native_fn fo) n s = Some sn ->
  (forall S', k = Some S' -> exists S, stack_limit s = Some S /\ (S <= S')%Z) ->
  (forall N', i = Some N' -> exists N, insn_limit s = Some N /\ (N - meter s <= N' - mt)%Z) ->
  steps (native_fn fo) n (set_limits (set_meter s mt) i h k) =
  Some (set_limits (set_meter sn (mt + (meter sn - meter s))%Z) i h k).

Theorem C14_limits_only_fail_run : forall fo fuel s r mt i h k,
  run (native_fn fo) fuel s = Some r -> (forall p x, r <> RErr ELimit p x) ->
  (forall S', k = Some S' -> exists S, stack_limit s = Some S /\ (S <= S')%Z) ->
  (forall N', i = Some N' -> exists N, insn_limit s = Some N /\ (N - meter s <= N' - mt)%Z) ->
  run (native_fn fo) fuel (set_limits (set_meter s mt) i h k) =
  Some (res_map (fun x => set_limits (set_meter x (mt + (meter x - meter s))%Z) i h k) r).
Proof. exact limits_only_fail_run. Qed.
Check C14_limits_only_fail_run : forall fo fuel s r mt i h k,
  run (native_fn fo) fuel s = Some r -> (forall p x, r <> RErr ELimit p x) ->
  (forall S', k = Some S' -> exists S, stack_limit s = Some S /\ (S <= S')%Z) ->
  (forall N', i = Some N' -> exists N, insn_limit s = Some N /\ (N - meter s <= N' - mt)%Z) ->
  run (native_fn fo) fuel (set_limits (set_meter s mt) i h k) =
  Some (res_map (fun x => set_limits (set_meter x (mt + (meter x - meter s))%Z) i h k) r).

Theorem C14_run_on_unlimited : forall fo fuel s r,
  run (native_fn fo) fuel s = Some r -> (forall p x, r <> RErr ELimit p x) ->
  run (native_fn fo) fuel (set_limits s None None None) = Some (res_map (fun x => set_limits x None None None) r).
Proof. exact run_on_unlimited. Qed.
Check C14_run_on_unlimited : forall fo fuel s r,
  run (native_fn fo) fuel s = Some r -> (forall p x, r <> RErr ELimit p x) ->
  run (native_fn fo) fuel (set_limits s None None None) = Some (res_map (fun x => set_limits x None None None) r).

(* without limits there is no limit error *)
Theorem C14_unlimited_never_limit : forall fo fuel s r,
  insn_limit s = None -> stack_limit s = None -> run (native_fn fo) fuel s = Some r ->
  forall p x, r <> RErr ELimit p x.
Proof. exact unlimited_never_limit. Qed.
Check C14_unlimited_never_limit : forall fo fuel s r,
  insn_limit s = None -> stack_limit s = None -> run (native_fn fo) fuel s = Some r ->
  forall p x, r <> RErr ELimit p x.

(* RECOVERY.  Run n instructions, hit a limit at instruction n+1 that left the state unchanged
   (no stack limit is set, so the cause is the instruction limit; or the failing instruction is
   push-only; or the instruction limit is exhausted at that instruction), give the machine any
   new meter reading and limits, resume.  If the resumed run
   is not stopped by a limit again, its result - value or error, data stack, heap, output,
   loops, return stack, everything but meter and limits - is the one the machine without
   limits reaches from the initial state.
   NOT covered, and false (W1-W4 above): a stack-limit failure inside a word that pops or
   pushes several cells. *)
Theorem C14_recover_steps : forall fo n s0 sn p se,
  steps (native_fn fo) n s0 = Some sn ->
  fetch_and_run (native_fn fo) sn = RErr ELimit p se ->
  (stack_limit s0 = None \/
   (exists op, nth_error (code sn) (ip sn) = Some op /\ push_only op = true) \/
   (exists N, insn_limit sn = Some N /\ (N <= meter sn)%Z)) ->
  forall mt i h k fuel r,
    run (native_fn fo) fuel (set_limits (set_meter se mt) i h k) = Some r ->
    (forall q x, r <> RErr ELimit q x) ->
    exists sn' r', steps (native_fn fo) n (set_limits s0 None None None) = Some sn' /\
                   run (native_fn fo) fuel sn' = Some r' /\
                   res_map erase_lim r' = res_map erase_lim r.
Proof. exact recover_steps_x. Qed.
Check C14_recover_steps : forall fo n s0 sn p se,
  steps (native_fn fo) n s0 = Some sn ->
  fetch_and_run (native_fn fo) sn = RErr ELimit p se ->
  (stack_limit s0 = None \/
   (exists op, nth_error (code sn) (ip sn) = Some op /\ push_only op = true) \/
   (exists N, insn_limit sn = Some N /\ (N <= meter sn)%Z)) ->
  forall mt i h k fuel r,
    run (native_fn fo) fuel (set_limits (set_meter se mt) i h k) = Some r ->
    (forall q x, r <> RErr ELimit q x) ->
    exists sn' r', steps (native_fn fo) n (set_limits s0 None None None) = Some sn' /\
                   run (native_fn fo) fuel sn' = Some r' /\
                   res_map erase_lim r' = res_map erase_lim r.

(* the same from [run] to [run], for the instruction limit *)
Theorem C14_recover_insn_limit_run : forall fo fuel0 s0 p se,
  stack_limit s0 = None ->
  run (native_fn fo) fuel0 s0 = Some (RErr ELimit p se) ->
  forall mt i h fuel r,
    run (native_fn fo) fuel (set_limits (set_meter se mt) i h None) = Some r ->
    (forall q x, r <> RErr ELimit q x) ->
    exists r', run (native_fn fo) (fuel0 + fuel) (set_limits s0 None None None) = Some r' /\
               res_map erase_lim r' = res_map erase_lim r.
Proof. exact recover_run_insn_x. Qed.
Check C14_recover_insn_limit_run : forall fo fuel0 s0 p se,
  stack_limit s0 = None ->
  run (native_fn fo) fuel0 s0 = Some (RErr ELimit p se) ->
  forall mt i h fuel r,
    run (native_fn fo) fuel (set_limits (set_meter se mt) i h None) = Some r ->
    (forall q x, r <> RErr ELimit q x) ->
    exists r', run (native_fn fo) (fuel0 + fuel) (set_limits s0 None None None) = Some r' /\
               res_map erase_lim r' = res_map erase_lim r.

(* raising the limits is enough in the recoverable cases: with room for two fetches, and no stack
   limit or a push-only instruction below the stack limit, the instruction is not stopped by a
   limit (so by C14_step_on_unlimited it does what the unlimited machine does) *)
Theorem C14_raised_limits_no_failure : forall fo t p x,
  (forall N, insn_limit t = Some N -> (meter t + 2 <= N)%Z) ->
  (stack_limit t = None \/
   exists op S, nth_error (code t) (ip t) = Some op /\ push_only op = true /\
                stack_limit t = Some S /\ (Z.of_nat (length (ds t)) < S)%Z) ->
  fetch_and_run (native_fn fo) t <> RErr ELimit p x.
Proof. exact raised_limits_no_failure. Qed.
Check C14_raised_limits_no_failure : forall fo t p x,
  (forall N, insn_limit t = Some N -> (meter t + 2 <= N)%Z) ->
  (stack_limit t = None \/
   exists op S, nth_error (code t) (ip t) = Some op /\ push_only op = true /\
                stack_limit t = Some S /\ (Z.of_nat (length (ds t)) < S)%Z) ->
  fetch_and_run (native_fn fo) t <> RErr ELimit p x.

(* ================================================================================== *)
(* 1. BOUNDS ALONG EVERY EXECUTION                                                      *)
(* ================================================================================== *)
Theorem C14_steps_bounds : forall fo n s0 sn,
  steps (native_fn fo) n s0 = Some sn ->
  insn_limit sn = insn_limit s0 /\ heap_limit sn = heap_limit s0 /\ stack_limit sn = stack_limit s0 /\
  length (heap sn) = length (heap s0) /\
  (forall N, insn_limit s0 = Some N -> (meter s0 <= N)%Z -> (meter sn <= N)%Z) /\
  (forall S, stack_limit s0 = Some S -> length (ds sn) <= Nat.max (Z.to_nat S) (length (ds s0))).
Proof. exact steps_bounds_x. Qed.
Check C14_steps_bounds : forall fo n s0 sn,
  steps (native_fn fo) n s0 = Some sn ->
  insn_limit sn = insn_limit s0 /\ heap_limit sn = heap_limit s0 /\ stack_limit sn = stack_limit s0 /\
  length (heap sn) = length (heap s0) /\
  (forall N, insn_limit s0 = Some N -> (meter s0 <= N)%Z -> (meter sn <= N)%Z) /\
  (forall S, stack_limit s0 = Some S -> length (ds sn) <= Nat.max (Z.to_nat S) (length (ds s0))).

(* the final state of [run], whether it stopped normally or on any error *)
Theorem C14_run_bounds : forall fo fuel s0 r s',
  run (native_fn fo) fuel s0 = Some r -> res_state r = Some s' ->
  insn_limit s' = insn_limit s0 /\ heap_limit s' = heap_limit s0 /\ stack_limit s' = stack_limit s0 /\
  length (heap s') = length (heap s0) /\
  (forall N, insn_limit s0 = Some N -> (meter s0 <= N)%Z -> (meter s' <= N)%Z) /\
  (forall S, stack_limit s0 = Some S -> length (ds s') <= Nat.max (Z.to_nat S) (length (ds s0))).
Proof. exact run_bounds_x. Qed.
Check C14_run_bounds : forall fo fuel s0 r s',
  run (native_fn fo) fuel s0 = Some r -> res_state r = Some s' ->
  insn_limit s' = insn_limit s0 /\ heap_limit s' = heap_limit s0 /\ stack_limit s' = stack_limit s0 /\
  length (heap s') = length (heap s0) /\
  (forall N, insn_limit s0 = Some N -> (meter s0 <= N)%Z -> (meter s' <= N)%Z) /\
  (forall S, stack_limit s0 = Some S -> length (ds s') <= Nat.max (Z.to_nat S) (length (ds s0))).

(* [run] executes at most N instructions after the limit was set (meter 0) *)
Theorem C14_run_at_most_N : forall fo fuel s N,
  insn_limit s = Some N -> meter s = 0%Z -> (0 <= N)%Z ->
  (forall s', run (native_fn fo) fuel s = Some (ROk tt s') ->
     exists n, steps (native_fn fo) n s = Some s' /\ (Z.of_nat n <= N)%Z) /\
  (forall k p se, run (native_fn fo) fuel s = Some (RErr k p se) ->
     exists n sn, steps (native_fn fo) n s = Some sn /\ fetch_and_run (native_fn fo) sn = RErr k p se /\
                  (Z.of_nat n <= N)%Z).
Proof. exact run_at_most_N. Qed.
Check C14_run_at_most_N : forall fo fuel s N,
  insn_limit s = Some N -> meter s = 0%Z -> (0 <= N)%Z ->
  (forall s', run (native_fn fo) fuel s = Some (ROk tt s') ->
     exists n, steps (native_fn fo) n s = Some s' /\ (Z.of_nat n <= N)%Z) /\
  (forall k p se, run (native_fn fo) fuel s = Some (RErr k p se) ->
     exists n sn, steps (native_fn fo) n s = Some sn /\ fetch_and_run (native_fn fo) sn = RErr k p se /\
                  (Z.of_nat n <= N)%Z).

(* ================================================================================== *)
(* 5. WHAT THE METER COUNTS                                                             *)
(* ================================================================================== *)
(* The meter advances on every executed instruction whether or not an instruction limit is set
   (no hypothesis on [insn_limit]): by one, and by TWO for the instruction that resolves a
   [late] cell (the patched instruction is fetched, and metered, again).  So "every instruction
   is counted exactly once" holds for code without unresolved [late] cells, and a resolving
   instruction costs two units of the budget. *)
Theorem C14_meter_step : forall fo s s',
  fetch_and_run (native_fn fo) s = ROk tt s' ->
  meter s' = (meter s + (match nth_error (code s) (ip s) with Some (OResolve _) => 2 | _ => 1 end))%Z.
Proof. exact meter_step. Qed.
Check C14_meter_step : forall fo s s',
  fetch_and_run (native_fn fo) s = ROk tt s' ->
  meter s' = (meter s + (match nth_error (code s) (ip s) with Some (OResolve _) => 2 | _ => 1 end))%Z.

Theorem C14_meter_next : forall fo s s',
  next (native_fn fo) s = ROk tt s' ->
  meter s' = (meter s + (if is_running s
                         then match nth_error (code s) (ip s) with Some (OResolve _) => 2 | _ => 1 end
                         else 0))%Z.
Proof. exact meter_next. Qed.
Check C14_meter_next : forall fo s s',
  next (native_fn fo) s = ROk tt s' ->
  meter s' = (meter s + (if is_running s
                         then match nth_error (code s) (ip s) with Some (OResolve _) => 2 | _ => 1 end
                         else 0))%Z.

Theorem C14_meter_steps : forall fo n s sn,
  steps (native_fn fo) n s = Some sn ->
  (meter s + Z.of_nat n <= meter sn <= meter s + 2 * Z.of_nat n)%Z /\
  (Forall (fun op => forall name, op <> OResolve name) (code s) -> meter sn = (meter s + Z.of_nat n)%Z).
Proof. exact meter_steps. Qed.
Check C14_meter_steps : forall fo n s sn,
  steps (native_fn fo) n s = Some sn ->
  (meter s + Z.of_nat n <= meter sn <= meter s + 2 * Z.of_nat n)%Z /\
  (Forall (fun op => forall name, op <> OResolve name) (code s) -> meter sn = (meter s + Z.of_nat n)%Z).

Theorem C14_meter_run : forall fo fuel s s',
  run (native_fn fo) fuel s = Some (ROk tt s') ->
  exists n, n < fuel /\ steps (native_fn fo) n s = Some s' /\ is_running s' = false /\
    (meter s + Z.of_nat n <= meter s' <= meter s + 2 * Z.of_nat n)%Z /\
    (Forall (fun op => forall name, op <> OResolve name) (code s) -> meter s' = (meter s + Z.of_nat n)%Z).
Proof. exact meter_run. Qed.
Check C14_meter_run : forall fo fuel s s',
  run (native_fn fo) fuel s = Some (ROk tt s') ->
  exists n, n < fuel /\ steps (native_fn fo) n s = Some s' /\ is_running s' = false /\
    (meter s + Z.of_nat n <= meter s' <= meter s + 2 * Z.of_nat n)%Z /\
    (Forall (fun op => forall name, op <> OResolve name) (code s) -> meter s' = (meter s + Z.of_nat n)%Z).

(* "exactly once" fails for the resolving instruction (witness: late foo : bar foo ; : foo 5 ; bar,
   fifth instruction) *)
Theorem C14_meter_exactly_once_refuted :
  ~ (forall fo s s', fetch_and_run (native_fn fo) s = ROk tt s' -> meter s' = (meter s + 1)%Z).
Proof. exact meter_exactly_once_refuted. Qed.
Check C14_meter_exactly_once_refuted :
  ~ (forall fo s s', fetch_and_run (native_fn fo) s = ROk tt s' -> meter s' = (meter s + 1)%Z).

(* code run at build time (meta blocks, immediate words) is metered in the same way *)
Theorem C14_meter_run_m : forall fo rf s s',
  run_m fo rf s = ROk tt s' ->
  exists n, n < rf /\ steps (native_fn fo) n s = Some s' /\ is_running s' = false /\
    (meter s + Z.of_nat n <= meter s' <= meter s + 2 * Z.of_nat n)%Z /\
    (Forall (fun op => forall name, op <> OResolve name) (code s) -> meter s' = (meter s + Z.of_nat n)%Z).
Proof. exact meter_run_m. Qed.
Check C14_meter_run_m : forall fo rf s s',
  run_m fo rf s = ROk tt s' ->
  exists n, n < rf /\ steps (native_fn fo) n s = Some s' /\ is_running s' = false /\
    (meter s + Z.of_nat n <= meter s' <= meter s + 2 * Z.of_nat n)%Z /\
    (Forall (fun op => forall name, op <> OResolve name) (code s) -> meter s' = (meter s + Z.of_nat n)%Z).

(* ================================================================================== *)
(* 4. BUILD TIME                                                                        *)
(* ================================================================================== *)
(* For every source and every state: whatever the builder does (token reading, emission,
   control structures, definitions, [var] and [let] allocating variables, meta blocks and
   user-defined immediate words running code, the unwinding of a rejected source), in the state
   it returns - success or error -
   the limits are unchanged, the meter has not gone back and has not passed the instruction
   limit (code run at build time is metered by the same meter), the heap is within the heap
   limit or has not grown, the data stack is within the stack limit or has not grown. *)
Theorem C14_build1_bounds : forall fo pr rf fuel depth s r s',
  build1 fo pr rf fuel depth s = r -> res_state r = Some s' ->
  insn_limit s' = insn_limit s /\ heap_limit s' = heap_limit s /\ stack_limit s' = stack_limit s /\
  (meter s <= meter s')%Z /\
  (forall N, insn_limit s = Some N -> (meter s <= N)%Z -> (meter s' <= N)%Z) /\
  (forall H, heap_limit s = Some H -> length (heap s') <= Nat.max (Z.to_nat H) (length (heap s))) /\
  (forall S, stack_limit s = Some S -> length (ds s') <= Nat.max (Z.to_nat S) (length (ds s))).
Proof. exact build1_bounds_x. Qed.
Check C14_build1_bounds : forall fo pr rf fuel depth s r s',
  build1 fo pr rf fuel depth s = r -> res_state r = Some s' ->
  insn_limit s' = insn_limit s /\ heap_limit s' = heap_limit s /\ stack_limit s' = stack_limit s /\
  (meter s <= meter s')%Z /\
  (forall N, insn_limit s = Some N -> (meter s <= N)%Z -> (meter s' <= N)%Z) /\
  (forall H, heap_limit s = Some H -> length (heap s') <= Nat.max (Z.to_nat H) (length (heap s))) /\
  (forall S, stack_limit s = Some S -> length (ds s') <= Nat.max (Z.to_nat S) (length (ds s))).

Theorem C14_eval_bounds : forall fo pr rf fuel src s r s',
  eval fo pr rf fuel src s = r -> res_state r = Some s' ->
  insn_limit s' = insn_limit s /\ heap_limit s' = heap_limit s /\ stack_limit s' = stack_limit s /\
  (meter s <= meter s')%Z /\
  (forall N, insn_limit s = Some N -> (meter s <= N)%Z -> (meter s' <= N)%Z) /\
  (forall H, heap_limit s = Some H -> length (heap s') <= Nat.max (Z.to_nat H) (length (heap s))) /\
  (forall S, stack_limit s = Some S -> length (ds s') <= Nat.max (Z.to_nat S) (length (ds s))).
Proof. exact eval_bounds_x. Qed.
Check C14_eval_bounds : forall fo pr rf fuel src s r s',
  eval fo pr rf fuel src s = r -> res_state r = Some s' ->
  insn_limit s' = insn_limit s /\ heap_limit s' = heap_limit s /\ stack_limit s' = stack_limit s /\
  (meter s <= meter s')%Z /\
  (forall N, insn_limit s = Some N -> (meter s <= N)%Z -> (meter s' <= N)%Z) /\
  (forall H, heap_limit s = Some H -> length (heap s') <= Nat.max (Z.to_nat H) (length (heap s))) /\
  (forall S, stack_limit s = Some S -> length (ds s') <= Nat.max (Z.to_nat S) (length (ds s))).

Theorem C14_compile_bounds : forall fo pr rf fuel src s r s',
  compile fo pr rf fuel src s = r -> res_state r = Some s' ->
  insn_limit s' = insn_limit s /\ heap_limit s' = heap_limit s /\ stack_limit s' = stack_limit s /\
  (meter s <= meter s')%Z /\
  (forall N, insn_limit s = Some N -> (meter s <= N)%Z -> (meter s' <= N)%Z) /\
  (forall H, heap_limit s = Some H -> length (heap s') <= Nat.max (Z.to_nat H) (length (heap s))) /\
  (forall S, stack_limit s = Some S -> length (ds s') <= Nat.max (Z.to_nat S) (length (ds s))).
Proof. exact compile_bounds_x. Qed.
Check C14_compile_bounds : forall fo pr rf fuel src s r s',
  compile fo pr rf fuel src s = r -> res_state r = Some s' ->
  insn_limit s' = insn_limit s /\ heap_limit s' = heap_limit s /\ stack_limit s' = stack_limit s /\
  (meter s <= meter s')%Z /\
  (forall N, insn_limit s = Some N -> (meter s <= N)%Z -> (meter s' <= N)%Z) /\
  (forall H, heap_limit s = Some H -> length (heap s') <= Nat.max (Z.to_nat H) (length (heap s))) /\
  (forall S, stack_limit s = Some S -> length (ds s') <= Nat.max (Z.to_nat S) (length (ds s))).

(* Code run at build time ([run_m]: a meta block, a user-defined immediate word, the pending
   code before each token in a meta context).  The stack limit is on the ABSOLUTE size of the
   data stack: above k = ds_len (cx s) hidden cells the block sees a limit of S - k. *)
Theorem C14_run_m_bounds : forall fo rf s r s',
  run_m fo rf s = r -> res_state r = Some s' ->
  insn_limit s' = insn_limit s /\ heap_limit s' = heap_limit s /\ stack_limit s' = stack_limit s /\
  length (heap s') = length (heap s) /\ (meter s <= meter s')%Z /\
  (forall N, insn_limit s = Some N -> (meter s <= N)%Z -> (meter s' <= N)%Z) /\
  (forall S, stack_limit s = Some S -> length (ds s') <= Nat.max (Z.to_nat S) (length (ds s))) /\
  ds_len (cx s') = ds_len (cx s) /\
  (forall S, stack_limit s = Some S ->
     data_depth s' <= Nat.max (Z.to_nat S - ds_len (cx s)) (data_depth s)).
Proof. exact run_m_bounds_x. Qed.
Check C14_run_m_bounds : forall fo rf s r s',
  run_m fo rf s = r -> res_state r = Some s' ->
  insn_limit s' = insn_limit s /\ heap_limit s' = heap_limit s /\ stack_limit s' = stack_limit s /\
  length (heap s') = length (heap s) /\ (meter s <= meter s')%Z /\
  (forall N, insn_limit s = Some N -> (meter s <= N)%Z -> (meter s' <= N)%Z) /\
  (forall S, stack_limit s = Some S -> length (ds s') <= Nat.max (Z.to_nat S) (length (ds s))) /\
  ds_len (cx s') = ds_len (cx s) /\
  (forall S, stack_limit s = Some S ->
     data_depth s' <= Nat.max (Z.to_nat S - ds_len (cx s)) (data_depth s)).

(* a push succeeds exactly when the visible depth is below S - k *)
Theorem C14_push_visible_room : forall c s S,
  stack_limit s = Some S -> ds_len (cx s) <= length (ds s) ->
  (exists s', push_data c s = ROk tt s') <->
  (Z.of_nat (data_depth s) < S - Z.of_nat (ds_len (cx s)))%Z.
Proof. exact Proofs.VmLimitsRunBuild.push_visible_room. Qed.
Check C14_push_visible_room : forall c s S,
  stack_limit s = Some S -> ds_len (cx s) <= length (ds s) ->
  (exists s', push_data c s = ROk tt s') <->
  (Z.of_nat (data_depth s) < S - Z.of_nat (ds_len (cx s)))%Z.

(* ================================================================================== *)
(* NON-VACUITY: the hypotheses hold on concrete states built from [boot]                *)
(* ================================================================================== *)
Definition c14_compiled (src : string) (s : state) : state :=
  wit_state (compile wit_fo wit_pr wit_rf wit_fuel src s).
Definition c14_after (n : nat) (s : state) : state :=
  match steps lw_nf n s with Some x => x | None => boot end.
Definition c14_far (s : state) : res unit := fetch_and_run lw_nf s.

(* cause (a): the instruction limit at the first fetch; the state is returned unchanged *)
Definition c14_insn : state := set_limits (c14_compiled "1 2 3 + +" boot) (Some 3%Z) None None.
Example C14_ex_cause_insn :
  steps lw_nf 3 c14_insn = Some (c14_after 3 c14_insn) /\
  meter (c14_after 3 c14_insn) = 3%Z /\
  c14_far (c14_after 3 c14_insn) = RErr ELimit None (c14_after 3 c14_insn) /\
  lw_kind (run lw_nf 100 c14_insn) = Some ELimit /\
  ds (lw_state (run lw_nf 100 c14_insn)) = [CInt 3; CInt 2; CInt 1].
Proof. vm_compute. repeat split; reflexivity. Qed.

(* cause (b): the second fetch of a [late] word; the cell is resolved, the meter is N *)
Definition c14_late : state :=
  set_limits (c14_compiled "late foo : bar foo ; : foo 5 ; bar bar" boot) (Some 6%Z) None None.
Example C14_ex_cause_insn_resolve :
  steps lw_nf 5 c14_late = Some (c14_after 5 c14_late) /\
  meter (c14_after 5 c14_late) = 5%Z /\
  nth_error (code (c14_after 5 c14_late)) (ip (c14_after 5 c14_late)) = Some (OResolve "foo") /\
  dict_entry (c14_after 5 c14_late) "foo" = Some (DFun false (FInterp 7) (Some 2)) /\
  (exists s', c14_far (c14_after 5 c14_late) = RErr ELimit None s' /\ meter s' = 6%Z /\
              nth_error (code s') (ip s') = Some (OCall 7)).
Proof.
  do 4 (split; [vm_compute; reflexivity|]).
  eexists. split; [vm_compute; reflexivity|]. split; reflexivity.
Qed.

(* cause (c) is W1 (C14_resume_vec_end_refuted); a push-only instance: *)
Example C14_ex_push_only :
  let s := c14_after 2 (c14_compiled "1 2 3" w6_s0) in
  nth_error (code s) (ip s) = Some (OLoadI64 3) /\ push_only (OLoadI64 3) = true /\
  stack_limit s = Some 2%Z /\ insn_limit s = None /\
  c14_far s = RErr ELimit None (set_meter s (meter s + 1)%Z).
Proof. vm_compute. repeat split; reflexivity. Qed.

(* limits do not change results: hypotheses of C14_limits_only_fail_run on a real run *)
Definition c14_lim : state := set_limits (c14_compiled "1 2 + 4 *" boot) (Some 10%Z) (Some 9%Z) (Some 5%Z).
Example C14_ex_limits_only_fail :
  lw_kind (run lw_nf 100 c14_lim) = None /\ ds (lw_state (run lw_nf 100 c14_lim)) = [CInt 12] /\
  meter (lw_state (run lw_nf 100 c14_lim)) = 5%Z /\
  (exists S, stack_limit c14_lim = Some S /\ (S <= 7)%Z) /\
  (exists N, insn_limit c14_lim = Some N /\ (N - meter c14_lim <= 20 - 3)%Z) /\
  lw_kind (run lw_nf 100 (set_limits (set_meter c14_lim 3%Z) (Some 20%Z) None (Some 7%Z))) = None /\
  meter (lw_state (run lw_nf 100 (set_limits (set_meter c14_lim 3%Z) (Some 20%Z) None (Some 7%Z)))) = 8%Z.
Proof.
  do 3 (split; [vm_compute; reflexivity|]).
  split; [exists 5%Z; split; [reflexivity|lia]|].
  split; [exists 10%Z; split; [reflexivity|vm_compute; discriminate]|].
  split; vm_compute; reflexivity.
Qed.

(* recovery after the instruction limit: all hypotheses of C14_recover_insn_limit_run *)
Example C14_ex_recover_insn :
  let se := lw_state (run lw_nf 100 c14_insn) in
  stack_limit c14_insn = None /\
  run lw_nf 100 c14_insn = Some (RErr ELimit None se) /\
  lw_kind (run lw_nf 100 (set_limits (set_meter se 0%Z) (Some 100%Z) None None)) = None /\
  ds (lw_state (run lw_nf 100 (set_limits (set_meter se 0%Z) (Some 100%Z) None None))) = [CInt 6] /\
  ds (lw_state (run lw_nf 200 (set_limits c14_insn None None None))) = [CInt 6].
Proof. vm_compute. repeat split; reflexivity. Qed.

(* recovery after a stack-limit failure of a push-only instruction: hypotheses of C14_recover_steps *)
Example C14_ex_recover_push_only :
  let s0 := c14_compiled "1 2 3" w6_s0 in
  let sn := c14_after 2 s0 in
  steps lw_nf 2 s0 = Some sn /\
  (exists se, c14_far sn = RErr ELimit None se /\
     lw_kind (run lw_nf 100 (set_limits (set_meter se 7%Z) None None (Some 3%Z))) = None /\
     ds (lw_state (run lw_nf 100 (set_limits (set_meter se 7%Z) None None (Some 3%Z)))) = [CInt 3; CInt 2; CInt 1]) /\
  stack_limit s0 = Some 2%Z /\
  nth_error (code sn) (ip sn) = Some (OLoadI64 3) /\ push_only (OLoadI64 3) = true.
Proof.
  cbv zeta. split; [vm_compute; reflexivity|]. split.
  - eexists. split; [vm_compute; reflexivity|]. split; vm_compute; reflexivity.
  - vm_compute. repeat split; reflexivity.
Qed.

(* bounds along a run that is stopped by the stack limit *)
Example C14_ex_run_bounds :
  let s0 := set_limits (c14_compiled "1 2 3 4 5" boot) (Some 50%Z) None (Some 3%Z) in
  lw_kind (run lw_nf 100 s0) = Some ELimit /\
  length (ds (lw_state (run lw_nf 100 s0))) = 3 /\ meter (lw_state (run lw_nf 100 s0)) = 4%Z /\
  length (heap (lw_state (run lw_nf 100 s0))) = length (heap s0).
Proof. vm_compute. repeat split; reflexivity. Qed.

(* the meter: five instructions, five units; a resolving instruction costs two *)
Example C14_ex_meter :
  meter (lw_state (run lw_nf 100 (set_limits c14_lim None None None))) = 5%Z /\
  length (code c14_lim) = 5 /\
  (let s := c14_after 5 (set_limits c14_late None None None) in
   nth_error (code s) (ip s) = Some (OResolve "foo") /\
   meter (c14_after 6 (set_limits c14_late None None None)) = (meter s + 2)%Z).
Proof. vm_compute. repeat split; reflexivity. Qed.

(* build time: the heap limit stops [var]; the rejected source is unwound (heap back to 6) *)
Example C14_ex_build_heap :
  let s := set_limits boot None (Some 7%Z) None in
  length (heap s) = 6 /\
  (exists s', wit_eval "0 var x" s = ROk tt s' /\ length (heap s') = 7) /\
  (exists s', wit_eval "0 var x 0 var y" s = RErr ELimit None s' /\ length (heap s') = 6 /\
              length (dict s') = length (dict s)).
Proof.
  cbv zeta. split; [reflexivity|]. split.
  - eexists. split; [vm_compute; reflexivity|reflexivity].
  - eexists. split; [vm_compute; reflexivity|split; reflexivity].
Qed.

(* build time: a meta block opened above two cells under a stack limit of 4 may push two *)
Definition c14_78 : state := set_limits (wit_state (wit_eval "7 8" boot)) None None (Some 4%Z).
Example C14_ex_build_meta_stack :
  (exists s', wit_eval "#( 1 2 #) drop drop" c14_78 = ROk tt s' /\ ds s' = [CInt 8; CInt 7]) /\
  (exists s', wit_eval "#( 1 2 3 #)" c14_78 = RErr ELimit None s' /\ ds s' = [CInt 8; CInt 7]) /\
  (let s := wit_state (context_open MMeta c14_78) in
   ds_len (cx s) = 2 /\ data_depth s = 0 /\ stack_limit s = Some 4%Z /\
   exists s', push_data (CInt 1) s = ROk tt s').
Proof.
  split; [eexists; split; [vm_compute; reflexivity|reflexivity]|].
  split; [eexists; split; [vm_compute; reflexivity|reflexivity]|].
  cbv zeta. do 3 (split; [vm_compute; reflexivity|]).
  eexists. vm_compute. reflexivity.
Qed.

(* build time: code run in a meta block is metered and stopped by the instruction limit *)
Example C14_ex_build_meter :
  (exists s', wit_eval "#( 1 2 3 + + #)" (set_limits boot (Some 4%Z) None None) = RErr ELimit None s' /\
              meter s' = 4%Z) /\
  (exists s', wit_eval "#( 1 2 3 + + #)" (set_limits boot (Some 20%Z) None None) = ROk tt s' /\
              meter s' = 6%Z /\ ds s' = [CInt 6]).
Proof.
  split; eexists; (split; [vm_compute; reflexivity|]); repeat split; reflexivity.
Qed.
