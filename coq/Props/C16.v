(* C16 - the lexer is total, loses no text, and reads literals as written.
   [valid_utf8] (Proofs/LexLoc.v) is structural UTF-8 validity; every Rust &str satisfies it.  Three
   statements need it: on a byte string that ends inside a multi-byte character the model's
   positions over-count (machine-checked counterexamples: lex_reaches_end_refuted, word_text_refuted,
   token_location_spec_refuted in Proofs/LexProofs.v).
   C17(a) - token_location computes the true line, column and line text.  Property theorems only. *)
From Xeh Require Import Model.Prelude Model.Bits Model.Cell Model.Lexer Model.Fmt Proofs.BitsProofs Proofs.LexProofs.

(* totality: lexing never runs out of fuel - the token list is non-empty, its last element is
   the end of input or the first error, and no earlier element is *)
Theorem C16_lex_total : forall s, exists pre t a b,
  lex_string s = pre ++ [(t, a, b)] /\ is_final t = true /\
  Forall (fun x => is_final (fst (fst x)) = false) pre.
Proof. exact lex_total. Qed.
Check C16_lex_total : forall s, exists pre t a b,
  lex_string s = pre ++ [(t, a, b)] /\ is_final t = true /\
  Forall (fun x => is_final (fst (fst x)) = false) pre.

(* no text is lost: the spans are contiguous from 0 ... *)
Theorem C16_lex_tiles : forall s, tiles 0 (lex_string s).
Proof. exact lex_tiles. Qed.
Check C16_lex_tiles : forall s, tiles 0 (lex_string s).

(* ... and when lexing succeeds they end exactly at the end of the text *)
Theorem C16_lex_reaches_end : forall s pre a b, valid_utf8 s = true ->
  lex_string s = pre ++ [(TEnd, a, b)] -> a = String.length s /\ b = String.length s.
Proof. exact lex_reaches_end_weak. Qed.
Check C16_lex_reaches_end : forall s pre a b, valid_utf8 s = true ->
  lex_string s = pre ++ [(TEnd, a, b)] -> a = String.length s /\ b = String.length s.

(* every token before the last consumes at least one byte *)
Theorem C16_lex_progress : forall s t a b,
  In (t, a, b) (lex_string s) -> is_final t = false -> a < b.
Proof. exact lex_progress. Qed.
Check C16_lex_progress : forall s t a b,
  In (t, a, b) (lex_string s) -> is_final t = false -> a < b.

(* a word token is exactly the text of its span and contains no ASCII whitespace *)
Theorem C16_word_text : forall s w a b, valid_utf8 s = true ->
  In (TWord w, a, b) (lex_string s) -> w = substring_of s a b /\ no_ws w = true.
Proof. exact word_text_weak. Qed.
Check C16_word_text : forall s w a b, valid_utf8 s = true ->
  In (TWord w, a, b) (lex_string s) -> w = substring_of s a b /\ no_ws w = true.

(* integer conversion: sign, digits in the radix, exact value or rejection when out of range *)
Theorem C16_int_from_str_radix : forall (neg : bool) (radix : N) (ds : list N) (body : string),
  (2 <= radix <= 36)%N -> ds <> [] -> Forall (fun d => (d < radix)%N) ds ->
  body = fold_right (fun d acc => String (digit_char false d) acc) EmptyString ds ->
  let v := (if neg then - digits_value (Z.of_N radix) ds 0 else digits_value (Z.of_N radix) ds 0)%Z in
  int_from_str_radix ((if neg then "-" else "") ++ body) radix = if in_i128 v then Some v else None.
Proof. exact int_from_str_radix_spec. Qed.
Check C16_int_from_str_radix : forall (neg : bool) (radix : N) (ds : list N) (body : string),
  (2 <= radix <= 36)%N -> ds <> [] -> Forall (fun d => (d < radix)%N) ds ->
  body = fold_right (fun d acc => String (digit_char false d) acc) EmptyString ds ->
  let v := (if neg then - digits_value (Z.of_N radix) ds 0 else digits_value (Z.of_N radix) ds 0)%Z in
  int_from_str_radix ((if neg then "-" else "") ++ body) radix = if in_i128 v then Some v else None.

(* printing an integer (default format: decimal) and reading the text back yields the integer *)
Theorem C16_print_read_int : forall z, in_i128 z = true ->
  let txt := fmt_int fmt_default z in
  lex_string txt = [(TLit (CInt z), 0, String.length txt); (TEnd, String.length txt, String.length txt)].
Proof. exact print_read_int. Qed.
Check C16_print_read_int : forall z, in_i128 z = true ->
  let txt := fmt_int fmt_default z in
  lex_string txt = [(TLit (CInt z), 0, String.length txt); (TEnd, String.length txt, String.length txt)].

(* printing a bit-string and reading the text back yields the same bit sequence *)
Theorem C16_print_read_bitstr : forall b, wf b ->
  let txt := fmt_bitstr b in
  exists b', lex_string txt = [(TLit (CBits b'), 0, String.length txt); (TEnd, String.length txt, String.length txt)]
             /\ wf b' /\ abs b' = abs b.
Proof. exact print_read_bitstr. Qed.
Check C16_print_read_bitstr : forall b, wf b ->
  let txt := fmt_bitstr b in
  exists b', lex_string txt = [(TLit (CBits b'), 0, String.length txt); (TEnd, String.length txt, String.length txt)]
             /\ wf b' /\ abs b' = abs b.

(* recorded finding (D21): a negative integer printed in hexadecimal is its two's complement
   and does not read back *)
Theorem C16_known_hex_negative_refuted :
  exists z, in_i128 z = true /\
    let txt := fmt_int (fl_set_base fmt_default 16) z in
    forall n, lex_string txt <> [(TLit (CInt z), 0, n); (TEnd, n, n)].
Proof. exact hex_negative_refuted. Qed.
Check C16_known_hex_negative_refuted :
  exists z, in_i128 z = true /\
    let txt := fmt_int (fl_set_base fmt_default 16) z in
    forall n, lex_string txt <> [(TLit (CInt z), 0, n); (TEnd, n, n)].

(* C17(a): token_location, for any mix of LF / CRLF / CR, tabs and multi-byte characters *)
Theorem C17_token_location : forall s p, valid_utf8 s = true -> s <> EmptyString -> p <= String.length s ->
  token_location s p = (spec_line s p, spec_col s p, spec_line_start s p, spec_line_end s p).
Proof. exact token_location_spec_weak. Qed.
Check C17_token_location : forall s p, valid_utf8 s = true -> s <> EmptyString -> p <= String.length s ->
  token_location s p = (spec_line s p, spec_col s p, spec_line_start s p, spec_line_end s p).
