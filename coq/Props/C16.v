(* C16 - placeholder until the lexer proofs are merged. *)
From Xeh Require Import Model.Prelude Model.Bits Model.Cell Model.Lexer.

Theorem C16_lex_new_pos : forall s, lpos (lex_new s) = 0.
Proof. reflexivity. Qed.
Check C16_lex_new_pos : forall s, lpos (lex_new s) = 0.
