(* C13 (continued) - "tags never change what a value does", close-bitstr included.

   Props/C13.v proves the commutation of every native word with [strip_state] except for close-bitstr
   (C13_full_partial) and shows that close-bitstr does not commute with the plain [strip_state]
   (C13_full_refuted): it reads the "offset" tag that open-bitstr attached to the input it suspended
   in the heap cell R_STASH.  This file settles what kind of tag that is:

   * the stash cell is PRIVATE: no native word other than open-bitstr / close-bitstr writes it
     (C13_stash_private), and no dictionary entry names it (Boot: big? input offset output
     output-length are cells 0 1 2 4 5; the stash is cell 3);
   * the offset tag of every stash entry is the one open-bitstr wrote - a user's own "offset" tag on
     the input is overwritten (C13_offset_tag_overwritten, C13_stash_ok_invariant);
   so it is bookkeeping of the bit-string module, not a tag a program can alter, and the full
   statement holds for the stripping that removes every tag of the machine except those offsets:

   Vocabulary (Proofs/TagClose2.v, TagClose2Frame.v):
     tagwfT_state s      no doubly wrapped tag in any cell of s, tag maps included
     stash_vec s         the vector in the stash cell, as close-bitstr sees it
     off_of e            the offset a stash entry carries (its "offset" tag, 0 if it has none)
     stash_off_ok s      those offsets are tagwf;  stash_ok s: every entry HAS an offset tag
     strip_state_off s   s with every tag removed at every depth (data stack, heap, loops, locals,
                         log), except that each stash entry keeps the single tag "offset"
     offs_rel v1 v2      entry by entry, the offsets agree after stripping (and are tagwf)
     srelK s1 s2         s1, s2 equal after stripping, both tagwfT, stash offsets related *)
From Xeh Require Import Model.Prelude Model.Bits Model.Codec Model.Cell Model.Lexer Model.Fmt
                        Model.Vm Model.Words Proofs.BitsProofs Proofs.CellProofs Proofs.CollProofs
                        Proofs.TagProofs Proofs.TagSim Proofs.TagWords Proofs.TagFresh Proofs.TagClose
                        Proofs.TagClose2 Proofs.TagClose2Frame.
Local Notation length := List.length.

(* ================================================================== *)
(* THE FULL STATEMENT                                                   *)
(* ================================================================== *)
(* every native word outside the design's exclusion list - close-bitstr included - commutes with
   stripping every tag except the stash offsets *)
Theorem C13_full_close : forall fo w f s,
  native_fn fo w = Some f -> ~ In w design_excluded ->
  tagwf_state s -> stash_off_ok s ->
  res_strip (f s) = res_strip (f (strip_state_off s)).
Proof. exact strip_commutes_full_close. Qed.
Check C13_full_close : forall fo w f s,
  native_fn fo w = Some f -> ~ In w design_excluded ->
  tagwf_state s -> stash_off_ok s ->
  res_strip (f s) = res_strip (f (strip_state_off s)).

(* under the single invariant tagwfT_state *)
Theorem C13_full_close_T : forall fo w f s,
  native_fn fo w = Some f -> ~ In w design_excluded -> tagwfT_state s ->
  res_strip (f s) = res_strip (f (strip_state_off s)).
Proof. exact strip_commutes_full_close_T. Qed.
Check C13_full_close_T : forall fo w f s,
  native_fn fo w = Some f -> ~ In w design_excluded -> tagwfT_state s ->
  res_strip (f s) = res_strip (f (strip_state_off s)).

(* for any two states that agree after stripping and whose stash entries carry the same offsets *)
Theorem C13_full_close_rel : forall fo w f s1 s2,
  native_fn fo w = Some f -> ~ In w design_excluded ->
  srel s1 s2 ->
  (forall v1 v2, stash_vec s1 = Some v1 -> stash_vec s2 = Some v2 -> offs_rel v1 v2) ->
  res_strip (f s1) = res_strip (f s2).
Proof. exact strip_commutes_full_close_rel. Qed.
Check C13_full_close_rel : forall fo w f s1 s2,
  native_fn fo w = Some f -> ~ In w design_excluded ->
  srel s1 s2 ->
  (forall v1 v2, stash_vec s1 = Some v1 -> stash_vec s2 = Some v2 -> offs_rel v1 v2) ->
  res_strip (f s1) = res_strip (f s2).

(* close-bitstr alone *)
Theorem C13_close_bitstr_rel : forall s1 s2,
  srel s1 s2 ->
  (forall v1 v2, stash_vec s1 = Some v1 -> stash_vec s2 = Some v2 -> offs_rel v1 v2) ->
  rrel eq (w_close_bitstr s1) (w_close_bitstr s2).
Proof. exact close_bitstr_rel. Qed.
Check C13_close_bitstr_rel : forall s1 s2,
  srel s1 s2 ->
  (forall v1 v2, stash_vec s1 = Some v1 -> stash_vec s2 = Some v2 -> offs_rel v1 v2) ->
  rrel eq (w_close_bitstr s1) (w_close_bitstr s2).

(* ================================================================== *)
(* the hypotheses are invariants                                        *)
(* ================================================================== *)
(* EVERY native word (tag makers and tag readers included) keeps the machine free of doubly wrapped
   tags, tag maps included *)
Theorem C13_tagwfT_invariant : forall fo w f s,
  native_fn fo w = Some f -> tagwfT_state s ->
  match f s with
  | ROk _ s' => tagwfT_state s'
  | RErr _ p s' => tgo notagtag p /\ tagwfT_state s'
  | _ => True
  end.
Proof. exact native_preserves_tagwfT. Qed.
Check C13_tagwfT_invariant : forall fo w f s,
  native_fn fo w = Some f -> tagwfT_state s ->
  match f s with
  | ROk _ s' => tagwfT_state s'
  | RErr _ p s' => tgo notagtag p /\ tagwfT_state s'
  | _ => True
  end.

Theorem C13_tagwfT_tagwf : forall s, tagwfT_state s -> tagwf_state s.
Proof. exact tagwfT_state_tagwf. Qed.
Check C13_tagwfT_tagwf : forall s, tagwfT_state s -> tagwf_state s.

Theorem C13_tagwfT_stash_off_ok : forall s, tagwfT_state s -> stash_off_ok s.
Proof. exact tagwfT_stash_off_ok. Qed.
Check C13_tagwfT_stash_off_ok : forall s, tagwfT_state s -> stash_off_ok s.

(* close-bitstr keeps the machine tagwf (the missing case of C13_native_preserves_tagwf) *)
Theorem C13_close_bitstr_preserves_tagwf : forall s,
  tagwf_state s -> stash_off_ok s ->
  match w_close_bitstr s with
  | ROk _ s' => tagwf_state s'
  | RErr _ _ s' => tagwf_state s'
  | _ => True
  end.
Proof. exact close_bitstr_preserves_tagwf. Qed.
Check C13_close_bitstr_preserves_tagwf : forall s,
  tagwf_state s -> stash_off_ok s ->
  match w_close_bitstr s with
  | ROk _ s' => tagwf_state s'
  | RErr _ _ s' => tagwf_state s'
  | _ => True
  end.

(* ================================================================== *)
(* the stash is private and its offset tags are open-bitstr's           *)
(* ================================================================== *)
(* no native word other than open-bitstr / close-bitstr changes the stash cell, whether it
   succeeds or fails *)
Theorem C13_stash_private : forall fo w f s,
  native_fn fo w = Some f -> w <> "open-bitstr"%string -> w <> "close-bitstr"%string ->
  match f s with
  | ROk _ s' => nth_error (heap s') R_STASH = nth_error (heap s) R_STASH
  | RErr _ _ s' => nth_error (heap s') R_STASH = nth_error (heap s) R_STASH
  | _ => True
  end.
Proof. exact native_stash_private. Qed.
Check C13_stash_private : forall fo w f s,
  native_fn fo w = Some f -> w <> "open-bitstr"%string -> w <> "close-bitstr"%string ->
  match f s with
  | ROk _ s' => nth_error (heap s') R_STASH = nth_error (heap s) R_STASH
  | RErr _ _ s' => nth_error (heap s') R_STASH = nth_error (heap s) R_STASH
  | _ => True
  end.

(* open-bitstr appends the suspended input tagged with the current offset; a failure leaves the
   stash alone *)
Theorem C13_open_bitstr_stash : forall s,
  match w_open_bitstr s with
  | ROk _ s' => exists v x o, stash_vec s = Some v /\
                              nth_error (heap s) R_INPUT = Some x /\ nth_error (heap s) R_OFFSET = Some o /\
                              stash_vec s' = Some (v ++ [insert_tag x offset_lit o])
  | RErr _ _ s' => stash_vec s' = stash_vec s
  | _ => True
  end.
Proof. exact open_bitstr_stash. Qed.
Check C13_open_bitstr_stash : forall s,
  match w_open_bitstr s with
  | ROk _ s' => exists v x o, stash_vec s = Some v /\
                              nth_error (heap s) R_INPUT = Some x /\ nth_error (heap s) R_OFFSET = Some o /\
                              stash_vec s' = Some (v ++ [insert_tag x offset_lit o])
  | RErr _ _ s' => stash_vec s' = stash_vec s
  | _ => True
  end.

(* close-bitstr drops the last entry *)
Theorem C13_close_bitstr_stash : forall s,
  match w_close_bitstr s with
  | ROk _ s' => exists v e, stash_vec s = Some (v ++ [e]) /\ stash_vec s' = Some v
  | RErr _ _ s' => stash_vec s' = stash_vec s
  | _ => True
  end.
Proof. exact close_bitstr_stash. Qed.
Check C13_close_bitstr_stash : forall s,
  match w_close_bitstr s with
  | ROk _ s' => exists v e, stash_vec s = Some (v ++ [e]) /\ stash_vec s' = Some v
  | RErr _ _ s' => stash_vec s' = stash_vec s
  | _ => True
  end.

(* whatever tags the suspended input x carried - a tag "offset" of the user's included - the entry's
   offset tag is the offset open-bitstr saved *)
Theorem C13_offset_tag_overwritten : forall x o,
  tg notagtag x -> get_tag (insert_tag x offset_lit o) offset_lit = Some o.
Proof. exact get_offset_insert. Qed.
Check C13_offset_tag_overwritten : forall x o,
  tg notagtag x -> get_tag (insert_tag x offset_lit o) offset_lit = Some o.

(* every stash entry has an offset tag: an invariant of EVERY native word; so close-bitstr always
   restores a saved offset and never falls back to 0 *)
Theorem C13_stash_ok_invariant : forall fo w f s,
  native_fn fo w = Some f -> tagwfT_state s -> stash_ok s ->
  match f s with
  | ROk _ s' => stash_ok s'
  | RErr _ _ s' => stash_ok s'
  | _ => True
  end.
Proof. exact native_preserves_stash_ok. Qed.
Check C13_stash_ok_invariant : forall fo w f s,
  native_fn fo w = Some f -> tagwfT_state s -> stash_ok s ->
  match f s with
  | ROk _ s' => stash_ok s'
  | RErr _ _ s' => stash_ok s'
  | _ => True
  end.

Theorem C13_stash_ok_last : forall s v e,
  stash_ok s -> stash_vec s = Some (v ++ [e]) -> get_tag e offset_lit = Some (off_of e).
Proof. exact stash_ok_off_of. Qed.
Check C13_stash_ok_last : forall s v e,
  stash_ok s -> stash_vec s = Some (v ++ [e]) -> get_tag e offset_lit = Some (off_of e).

(* ================================================================== *)
(* the simulation composes                                              *)
(* ================================================================== *)
(* related states go to related results, for every native word outside the exclusion list *)
Theorem C13_native_simK : forall fo w f s1 s2,
  native_fn fo w = Some f -> ~ In w design_excluded ->
  srelK s1 s2 -> rrelK (f s1) (f s2).
Proof. exact native_simK. Qed.
Check C13_native_simK : forall fo w f s1 s2,
  native_fn fo w = Some f -> ~ In w design_excluded ->
  srelK s1 s2 -> rrelK (f s1) (f s2).

Theorem C13_srelK_strip_off : forall s, tagwfT_state s -> srelK s (strip_state_off s).
Proof. exact srelK_strip_off. Qed.
Check C13_srelK_strip_off : forall s, tagwfT_state s -> srelK s (strip_state_off s).

(* hence any SEQUENCE of such words (run_seq: one after the other, stopping at the first failure) -
   open-bitstr ... close-bitstr pairs, nested, with reads in between - commutes with the stripping *)
Theorem C13_full_close_seq : forall fo fs s,
  Forall (plain_native fo) fs -> tagwfT_state s ->
  res_strip (run_seq fs s) = res_strip (run_seq fs (strip_state_off s)).
Proof. exact run_seq_strip_commutes. Qed.
Check C13_full_close_seq : forall fo fs s,
  Forall (plain_native fo) fs -> tagwfT_state s ->
  res_strip (run_seq fs s) = res_strip (run_seq fs (strip_state_off s)).

(* ================================================================== *)
(* non-vacuity                                                         *)
(* ================================================================== *)
(* a machine whose `input` carries user tags, one of them named "offset" (99); current offset 8.
   open-bitstr stashes the input with offset 8 (the user's 99 is gone), close-bitstr restores 8 -
   from the state itself and from its strip_state_off form; the plain strip_state loses it *)
Example C13_close_nonvacuous : forall fo,
  tagwfT_state ex_oc_state /\ stash_ok ex_oc_state /\
  native_fn fo "open-bitstr"%string = Some w_open_bitstr /\
  native_fn fo "close-bitstr"%string = Some w_close_bitstr /\
  ~ In "close-bitstr"%string design_excluded /\ ~ In "open-bitstr"%string design_excluded /\
  nth_error (heap ex_oc_state) R_INPUT =
    Some (CTag [(CStr "offset", CInt 99); (CStr "zz", CInt 1)] ex_bits) /\
  heap_of (w_open_bitstr ex_oc_state) =
    Some [CInt 0; CBits (mkcbs 0 8 [7%N]); CInt 0;
          CVec [CTag [(CStr "offset", CInt 8); (CStr "zz", CInt 1)] ex_bits]; CNil; CInt 0] /\
  tagwfT_state ex_opened /\ stash_ok ex_opened /\
  nth_error (heap (strip_state_off ex_opened)) R_STASH = Some (CVec [CTag [(CStr "offset", CInt 8)] ex_bits]) /\
  option_map (fun h => nth_error h R_OFFSET) (heap_of (w_close_bitstr ex_opened)) = Some (Some (CInt 8)) /\
  option_map (fun h => nth_error h R_OFFSET) (heap_of (w_close_bitstr (strip_state_off ex_opened))) = Some (Some (CInt 8)) /\
  option_map (fun h => nth_error h R_OFFSET) (heap_of (w_close_bitstr (strip_state ex_opened))) = Some (Some (CInt 0)) /\
  res_strip (w_close_bitstr ex_opened) = res_strip (w_close_bitstr (strip_state_off ex_opened)).
Proof. exact close_nonvacuous. Qed.
