(* C09 - arithmetic, comparison and bitwise words follow exact integer / IEEE semantics.
   Word-level statements run the word on an ARBITRARY machine state whose data stack starts
   (above the mark of the current context) with the operands, and give the exact outcome:
   the result, and the whole state left behind - the data stack and the entries added to
   the reverse log when the machine is recording; nothing else changes.  [fo : fops] (the
   binary64 operations; Model/F64.v is the Flocq / IEEE-754 instance) is universally
   quantified: on reals the words are exactly the operations of [fo]. *)
From Xeh Require Import Model.Prelude Model.Bits Model.Cell Model.Vm Model.Words.
From Xeh Require Import Model.F64c.
From Xeh Require Import Proofs.WordRun Proofs.ArithNum Proofs.ArithProofs Proofs.ArithTypeErr Proofs.F64cProofs.
Local Notation length := List.length.
Local Open Scope Z_scope.

(* ---------- vocabulary of the statements ---------- *)
(* [new] (newest first) is put on top of the reverse log, if the machine is recording *)
Definition with_log (new : list rstep) (s : state) : state :=
  match rlog s with Some l => set_rlog s (Some (new ++ l)%list) | None => s end.
(* the operands: the topmost cells, above the mark of the current context ([a] below [b]) *)
Definition args2 (s : state) (a b : cell) (rest : list cell) : Prop :=
  ds s = b :: a :: rest /\ (ds_len (cx s) <= length rest)%nat.
Definition args1 (s : state) (a : cell) (rest : list cell) : Prop :=
  ds s = a :: rest /\ (ds_len (cx s) <= length rest)%nat.
(* the final push does not hit the stack limit *)
Definition room (s : state) (rest : list cell) : Prop :=
  limit_reached (stack_limit s) (length rest) = false.
(* success: the operands are replaced by [r]; failure: the operands are gone *)
Definition ok2 (s : state) (a b : cell) (rest : list cell) (r : cell) : res unit :=
  ROk tt (set_ds (with_log [RPopData; RPushData a; RPushData b] s) (r :: rest)).
Definition err2 (s : state) (a b : cell) (rest : list cell) (k : ekind) (p : option cell) : res unit :=
  RErr k p (set_ds (with_log [RPushData a; RPushData b] s) rest).
Definition ok1 (s : state) (a : cell) (rest : list cell) (r : cell) : res unit :=
  ROk tt (set_ds (with_log [RPopData; RPushData a] s) (r :: rest)).
Definition err1 (s : state) (a : cell) (rest : list cell) (k : ekind) (p : option cell) : res unit :=
  RErr k p (set_ds (with_log [RPushData a] s) rest).
Definition f64_pat (r : Z) : Prop := 0 <= r < 2 ^ 64.

(* reading the result states: apart from the reverse log, [set_ds (with_log l s) v] is [s] with
   the data stack [v]; every other field (heap, dictionary, code, return / loop / special stacks,
   context, limits, meter, output) is that of [s] *)
Theorem C09_frame : forall l s v,
  erase_log (set_ds (with_log l s) v) = set_ds (erase_log s) v /\
  rlog (set_ds (with_log l s) v) = match rlog s with Some old => Some (l ++ old)%list | None => None end.
Proof. exact result_frame. Qed.
Check C09_frame : forall l s v,
  erase_log (set_ds (with_log l s) v) = set_ds (erase_log s) v /\
  rlog (set_ds (with_log l s) v) = match rlog s with Some old => Some (l ++ old)%list | None => None end.

(* ================= exact integers ================= *)
(* wrap128: the identity on representable values, always representable, congruent mod 2^128 *)
Theorem C09_wrap128 : forall z,
  (in_i128 z = true -> wrap128 z = z) /\ in_i128 (wrap128 z) = true /\
  to_u128 (wrap128 z) = to_u128 z /\ wrap128 z = z - two128 * ((z + two127) / two128).
Proof. exact wrap128_facts. Qed.
Check C09_wrap128 : forall z,
  (in_i128 z = true -> wrap128 z = z) /\ in_i128 (wrap128 z) = true /\
  to_u128 (wrap128 z) = to_u128 z /\ wrap128 z = z - two128 * ((z + two127) / two128).

Theorem C09_add_int : forall fo s a b rest x y,
  args2 s a b rest -> room s rest -> value a = CInt x -> value b = CInt y ->
  w_add fo s = ok2 s a b rest (CInt (wrap128 (x + y))).
Proof. exact add_int. Qed.
Check C09_add_int : forall fo s a b rest x y,
  args2 s a b rest -> room s rest -> value a = CInt x -> value b = CInt y ->
  w_add fo s = ok2 s a b rest (CInt (wrap128 (x + y))).

Theorem C09_sub_int : forall fo s a b rest x y,
  args2 s a b rest -> room s rest -> value a = CInt x -> value b = CInt y ->
  w_sub fo s = ok2 s a b rest (CInt (wrap128 (x - y))).
Proof. exact sub_int. Qed.
Check C09_sub_int : forall fo s a b rest x y,
  args2 s a b rest -> room s rest -> value a = CInt x -> value b = CInt y ->
  w_sub fo s = ok2 s a b rest (CInt (wrap128 (x - y))).

Theorem C09_mul_int : forall fo s a b rest x y,
  args2 s a b rest -> room s rest -> value a = CInt x -> value b = CInt y ->
  w_mul fo s = ok2 s a b rest (CInt (wrap128 (x * y))).
Proof. exact mul_int. Qed.
Check C09_mul_int : forall fo s a b rest x y,
  args2 s a b rest -> room s rest -> value a = CInt x -> value b = CInt y ->
  w_mul fo s = ok2 s a b rest (CInt (wrap128 (x * y))).

(* / : truncating quotient when representable, overflow error otherwise, division error for 0 *)
Theorem C09_div_int : forall fo s a b rest x y,
  args2 s a b rest -> room s rest -> value a = CInt x -> value b = CInt y ->
  w_div fo s =
  if y =? 0 then err2 s a b rest EDivZero None
  else if in_i128 (Z.quot x y) then ok2 s a b rest (CInt (Z.quot x y))
       else err2 s a b rest EOverflow None.
Proof. exact div_int. Qed.
Check C09_div_int : forall fo s a b rest x y,
  args2 s a b rest -> room s rest -> value a = CInt x -> value b = CInt y ->
  w_div fo s =
  if y =? 0 then err2 s a b rest EDivZero None
  else if in_i128 (Z.quot x y) then ok2 s a b rest (CInt (Z.quot x y))
       else err2 s a b rest EOverflow None.

(* rem: remainder of the truncating division, division error for 0 *)
Theorem C09_rem_int : forall fo s a b rest x y,
  args2 s a b rest -> room s rest -> value a = CInt x -> value b = CInt y -> in_i128 x = true ->
  w_rem fo s =
  if y =? 0 then err2 s a b rest EDivZero None else ok2 s a b rest (CInt (Z.rem x y)).
Proof. exact rem_int. Qed.
Check C09_rem_int : forall fo s a b rest x y,
  args2 s a b rest -> room s rest -> value a = CInt x -> value b = CInt y -> in_i128 x = true ->
  w_rem fo s =
  if y =? 0 then err2 s a b rest EDivZero None else ok2 s a b rest (CInt (Z.rem x y)).

(* without the range assumption the remainder is wrapped, which is the identity in range *)
Theorem C09_rem_int_wrapped : forall fo s a b rest x y,
  args2 s a b rest -> room s rest -> value a = CInt x -> value b = CInt y ->
  w_rem fo s =
  if y =? 0 then err2 s a b rest EDivZero None else ok2 s a b rest (CInt (wrap128 (Z.rem x y))).
Proof. exact rem_int_wrapped. Qed.
Check C09_rem_int_wrapped : forall fo s a b rest x y,
  args2 s a b rest -> room s rest -> value a = CInt x -> value b = CInt y ->
  w_rem fo s =
  if y =? 0 then err2 s a b rest EDivZero None else ok2 s a b rest (CInt (wrap128 (Z.rem x y))).

Theorem C09_rem_wrap_id : forall x y, in_i128 x = true -> y <> 0 -> wrap128 (Z.rem x y) = Z.rem x y.
Proof. exact rem_wrap_id. Qed.
Check C09_rem_wrap_id : forall x y, in_i128 x = true -> y <> 0 -> wrap128 (Z.rem x y) = Z.rem x y.

Theorem C09_quot_rem_laws : forall x y, y <> 0 ->
  x = y * Z.quot x y + Z.rem x y /\ Z.abs (Z.rem x y) < Z.abs y /\
  (Z.rem x y <> 0 -> Z.sgn (Z.rem x y) = Z.sgn x).
Proof. exact rem_laws. Qed.
Check C09_quot_rem_laws : forall x y, y <> 0 ->
  x = y * Z.quot x y + Z.rem x y /\ Z.abs (Z.rem x y) < Z.abs y /\
  (Z.rem x y <> 0 -> Z.sgn (Z.rem x y) = Z.sgn x).

(* the only unrepresentable results of / neg abs on representable operands *)
Theorem C09_overflow_cases : forall x y,
  in_i128 x = true -> in_i128 y = true ->
  (y <> 0 -> (in_i128 (Z.quot x y) = false <-> x = i128_min /\ y = -1)) /\
  (in_i128 (- x) = false <-> x = i128_min) /\ (in_i128 (Z.abs x) = false <-> x = i128_min).
Proof. exact overflow_cases. Qed.
Check C09_overflow_cases : forall x y,
  in_i128 x = true -> in_i128 y = true ->
  (y <> 0 -> (in_i128 (Z.quot x y) = false <-> x = i128_min /\ y = -1)) /\
  (in_i128 (- x) = false <-> x = i128_min) /\ (in_i128 (Z.abs x) = false <-> x = i128_min).

Theorem C09_neg_int : forall s a rest x,
  args1 s a rest -> room s rest -> value a = CInt x ->
  w_neg s = if in_i128 (- x) then ok1 s a rest (CInt (- x)) else err1 s a rest EOverflow None.
Proof. exact neg_int. Qed.
Check C09_neg_int : forall s a rest x,
  args1 s a rest -> room s rest -> value a = CInt x ->
  w_neg s = if in_i128 (- x) then ok1 s a rest (CInt (- x)) else err1 s a rest EOverflow None.

Theorem C09_abs_int : forall s a rest x,
  args1 s a rest -> room s rest -> value a = CInt x ->
  w_abs s = if in_i128 (Z.abs x) then ok1 s a rest (CInt (Z.abs x)) else err1 s a rest EOverflow None.
Proof. exact abs_int. Qed.
Check C09_abs_int : forall s a rest x,
  args1 s a rest -> room s rest -> value a = CInt x ->
  w_abs s = if in_i128 (Z.abs x) then ok1 s a rest (CInt (Z.abs x)) else err1 s a rest EOverflow None.

Theorem C09_min_int : forall fo s a b rest x y,
  args2 s a b rest -> room s rest -> value a = CInt x -> value b = CInt y ->
  w_min fo s = ok2 s a b rest (CInt (Z.min x y)).
Proof. exact min_int. Qed.
Check C09_min_int : forall fo s a b rest x y,
  args2 s a b rest -> room s rest -> value a = CInt x -> value b = CInt y ->
  w_min fo s = ok2 s a b rest (CInt (Z.min x y)).

Theorem C09_max_int : forall fo s a b rest x y,
  args2 s a b rest -> room s rest -> value a = CInt x -> value b = CInt y ->
  w_max fo s = ok2 s a b rest (CInt (Z.max x y)).
Proof. exact max_int. Qed.
Check C09_max_int : forall fo s a b rest x y,
  args2 s a b rest -> room s rest -> value a = CInt x -> value b = CInt y ->
  w_max fo s = ok2 s a b rest (CInt (Z.max x y)).

(* the six comparisons: < <= > >= == <> are w_cmp is_lt .. is_ne *)
Theorem C09_cmp_int : forall f s a b rest x y,
  args2 s a b rest -> room s rest -> value a = CInt x -> value b = CInt y ->
  w_cmp f s = ok2 s a b rest (CFlag (f (x ?= y))).
Proof. exact cmp_int. Qed.
Check C09_cmp_int : forall f s a b rest x y,
  args2 s a b rest -> room s rest -> value a = CInt x -> value b = CInt y ->
  w_cmp f s = ok2 s a b rest (CFlag (f (x ?= y))).

Theorem C09_cmp_flags : forall x y,
  is_lt (x ?= y) = (x <? y) /\ is_le (x ?= y) = (x <=? y) /\
  is_gt (x ?= y) = (y <? x) /\ is_ge (x ?= y) = (y <=? x) /\
  is_eq (x ?= y) = (x =? y) /\ is_ne (x ?= y) = negb (x =? y).
Proof. exact cmp_flags. Qed.
Check C09_cmp_flags : forall x y,
  is_lt (x ?= y) = (x <? y) /\ is_le (x ?= y) = (x <=? y) /\
  is_gt (x ?= y) = (y <? x) /\ is_ge (x ?= y) = (y <=? x) /\
  is_eq (x ?= y) = (x =? y) /\ is_ne (x ?= y) = negb (x =? y).

(* band bor bxor *)
Theorem C09_bitwise_int : forall s a b rest x y,
  args2 s a b rest -> room s rest -> value a = CInt x -> value b = CInt y ->
  arith_int Z.land s = ok2 s a b rest (CInt (Z.land x y)) /\
  arith_int Z.lor s = ok2 s a b rest (CInt (Z.lor x y)) /\
  arith_int Z.lxor s = ok2 s a b rest (CInt (Z.lxor x y)).
Proof. exact bitwise_int. Qed.
Check C09_bitwise_int : forall s a b rest x y,
  args2 s a b rest -> room s rest -> value a = CInt x -> value b = CInt y ->
  arith_int Z.land s = ok2 s a b rest (CInt (Z.land x y)) /\
  arith_int Z.lor s = ok2 s a b rest (CInt (Z.lor x y)) /\
  arith_int Z.lxor s = ok2 s a b rest (CInt (Z.lxor x y)).

Theorem C09_bnot_int : forall s a rest x,
  args1 s a rest -> room s rest -> value a = CInt x ->
  w_bnot s = ok1 s a rest (CInt (Z.lnot x)).
Proof. exact bnot_int. Qed.
Check C09_bnot_int : forall s a rest x,
  args1 s a rest -> room s rest -> value a = CInt x ->
  w_bnot s = ok1 s a rest (CInt (Z.lnot x)).

(* Z.land etc. ARE the operations on the 128-bit two's complement representations *)
Theorem C09_bitwise_twos_complement : forall x y,
  to_u128 (Z.land x y) = Z.land (to_u128 x) (to_u128 y) /\
  to_u128 (Z.lor x y) = Z.lor (to_u128 x) (to_u128 y) /\
  to_u128 (Z.lxor x y) = Z.lxor (to_u128 x) (to_u128 y) /\
  to_u128 (Z.lnot x) = two128 - 1 - to_u128 x.
Proof. exact bitwise_u128. Qed.
Check C09_bitwise_twos_complement : forall x y,
  to_u128 (Z.land x y) = Z.land (to_u128 x) (to_u128 y) /\
  to_u128 (Z.lor x y) = Z.lor (to_u128 x) (to_u128 y) /\
  to_u128 (Z.lxor x y) = Z.lxor (to_u128 x) (to_u128 y) /\
  to_u128 (Z.lnot x) = two128 - 1 - to_u128 x.

(* bsl / bsr with a count 0..127: exact-or-wrapped product, floor division (arithmetic shift) *)
Theorem C09_bsl_int : forall s a b rest x n,
  args2 s a b rest -> room s rest -> value a = CInt x -> value b = CInt n -> 0 <= n < 128 ->
  arith_int shl128 s = ok2 s a b rest (CInt (wrap128 (x * 2 ^ n))).
Proof. exact bsl_int. Qed.
Check C09_bsl_int : forall s a b rest x n,
  args2 s a b rest -> room s rest -> value a = CInt x -> value b = CInt n -> 0 <= n < 128 ->
  arith_int shl128 s = ok2 s a b rest (CInt (wrap128 (x * 2 ^ n))).

Theorem C09_bsr_int : forall s a b rest x n,
  args2 s a b rest -> room s rest -> value a = CInt x -> value b = CInt n -> 0 <= n < 128 ->
  arith_int shr128 s = ok2 s a b rest (CInt (x / 2 ^ n)).
Proof. exact bsr_int. Qed.
Check C09_bsr_int : forall s a b rest x n,
  args2 s a b rest -> room s rest -> value a = CInt x -> value b = CInt n -> 0 <= n < 128 ->
  arith_int shr128 s = ok2 s a b rest (CInt (x / 2 ^ n)).

(* popcnt counts the one bits of the 128-bit representation *)
Theorem C09_popcnt_int : forall s a rest x,
  args1 s a rest -> room s rest -> value a = CInt x ->
  w_popcnt s = ok1 s a rest (CInt (popcount x)).
Proof. exact popcnt_int. Qed.
Check C09_popcnt_int : forall s a rest x,
  args1 s a rest -> room s rest -> value a = CInt x ->
  w_popcnt s = ok1 s a rest (CInt (popcount x)).

Theorem C09_popcount_spec : forall x,
  popcount x = Z.of_nat (length (filter (fun i => Z.testbit (to_u128 x) (Z.of_nat i)) (seq 0 128))).
Proof. exact popcount_spec. Qed.
Check C09_popcount_spec : forall x,
  popcount x = Z.of_nat (length (filter (fun i => Z.testbit (to_u128 x) (Z.of_nat i)) (seq 0 128))).

(* zero? positive? negative? *)
Theorem C09_sign_tests_int : forall s a rest x,
  args1 s a rest -> room s rest -> value a = CInt x ->
  w_sign_test (Z.eqb 0) f64_is_zero s = ok1 s a rest (CFlag (0 =? x)) /\
  w_sign_test (Z.ltb 0) f64_pos s = ok1 s a rest (CFlag (0 <? x)) /\
  w_sign_test (fun x => Z.ltb x 0) f64_negv s = ok1 s a rest (CFlag (x <? 0)).
Proof. exact sign_tests_int. Qed.
Check C09_sign_tests_int : forall s a rest x,
  args1 s a rest -> room s rest -> value a = CInt x ->
  w_sign_test (Z.eqb 0) f64_is_zero s = ok1 s a rest (CFlag (0 =? x)) /\
  w_sign_test (Z.ltb 0) f64_pos s = ok1 s a rest (CFlag (0 <? x)) /\
  w_sign_test (fun x => Z.ltb x 0) f64_negv s = ok1 s a rest (CFlag (x <? 0)).

(* every integer result is representable when the operands are *)
Theorem C09_results_in_range : forall x y n,
  in_i128 x = true -> in_i128 y = true -> 0 <= n < 128 ->
  in_i128 (wrap128 (x + y)) = true /\ in_i128 (wrap128 (x - y)) = true /\ in_i128 (wrap128 (x * y)) = true /\
  (y <> 0 -> in_i128 (Z.rem x y) = true) /\
  in_i128 (Z.min x y) = true /\ in_i128 (Z.max x y) = true /\
  in_i128 (Z.land x y) = true /\ in_i128 (Z.lor x y) = true /\ in_i128 (Z.lxor x y) = true /\
  in_i128 (Z.lnot x) = true /\ in_i128 (wrap128 (x * 2 ^ n)) = true /\ in_i128 (x / 2 ^ n) = true /\
  in_i128 (popcount x) = true.
Proof. exact results_in_range. Qed.
Check C09_results_in_range : forall x y n,
  in_i128 x = true -> in_i128 y = true -> 0 <= n < 128 ->
  in_i128 (wrap128 (x + y)) = true /\ in_i128 (wrap128 (x - y)) = true /\ in_i128 (wrap128 (x * y)) = true /\
  (y <> 0 -> in_i128 (Z.rem x y) = true) /\
  in_i128 (Z.min x y) = true /\ in_i128 (Z.max x y) = true /\
  in_i128 (Z.land x y) = true /\ in_i128 (Z.lor x y) = true /\ in_i128 (Z.lxor x y) = true /\
  in_i128 (Z.lnot x) = true /\ in_i128 (wrap128 (x * 2 ^ n)) = true /\ in_i128 (x / 2 ^ n) = true /\
  in_i128 (popcount x) = true.

(* ================= reals: the words are the operations of [fo] ================= *)
Theorem C09_add_real : forall fo s a b rest x y,
  args2 s a b rest -> room s rest -> value a = CReal x -> value b = CReal y ->
  w_add fo s = ok2 s a b rest (CReal (f_add fo x y)).
Proof. exact add_real. Qed.
Check C09_add_real : forall fo s a b rest x y,
  args2 s a b rest -> room s rest -> value a = CReal x -> value b = CReal y ->
  w_add fo s = ok2 s a b rest (CReal (f_add fo x y)).

Theorem C09_sub_real : forall fo s a b rest x y,
  args2 s a b rest -> room s rest -> value a = CReal x -> value b = CReal y ->
  w_sub fo s = ok2 s a b rest (CReal (f_sub fo x y)).
Proof. exact sub_real. Qed.
Check C09_sub_real : forall fo s a b rest x y,
  args2 s a b rest -> room s rest -> value a = CReal x -> value b = CReal y ->
  w_sub fo s = ok2 s a b rest (CReal (f_sub fo x y)).

Theorem C09_mul_real : forall fo s a b rest x y,
  args2 s a b rest -> room s rest -> value a = CReal x -> value b = CReal y ->
  w_mul fo s = ok2 s a b rest (CReal (f_mul fo x y)).
Proof. exact mul_real. Qed.
Check C09_mul_real : forall fo s a b rest x y,
  args2 s a b rest -> room s rest -> value a = CReal x -> value b = CReal y ->
  w_mul fo s = ok2 s a b rest (CReal (f_mul fo x y)).

(* real division: a zero divisor (either sign) is a division error *)
Theorem C09_div_real : forall fo s a b rest x y,
  args2 s a b rest -> room s rest -> value a = CReal x -> value b = CReal y ->
  w_div fo s = if f64_is_zero y then err2 s a b rest EDivZero None
               else ok2 s a b rest (CReal (f_div fo x y)).
Proof. exact div_real. Qed.
Check C09_div_real : forall fo s a b rest x y,
  args2 s a b rest -> room s rest -> value a = CReal x -> value b = CReal y ->
  w_div fo s = if f64_is_zero y then err2 s a b rest EDivZero None
               else ok2 s a b rest (CReal (f_div fo x y)).

Theorem C09_rem_real : forall fo s a b rest x y,
  args2 s a b rest -> room s rest -> value a = CReal x -> value b = CReal y ->
  w_rem fo s = ok2 s a b rest (CReal (f_rem fo x y)).
Proof. exact rem_real. Qed.
Check C09_rem_real : forall fo s a b rest x y,
  args2 s a b rest -> room s rest -> value a = CReal x -> value b = CReal y ->
  w_rem fo s = ok2 s a b rest (CReal (f_rem fo x y)).

Theorem C09_min_real : forall fo s a b rest x y,
  args2 s a b rest -> room s rest -> value a = CReal x -> value b = CReal y ->
  w_min fo s = ok2 s a b rest (CReal (f_min fo x y)).
Proof. exact min_real. Qed.
Check C09_min_real : forall fo s a b rest x y,
  args2 s a b rest -> room s rest -> value a = CReal x -> value b = CReal y ->
  w_min fo s = ok2 s a b rest (CReal (f_min fo x y)).

Theorem C09_max_real : forall fo s a b rest x y,
  args2 s a b rest -> room s rest -> value a = CReal x -> value b = CReal y ->
  w_max fo s = ok2 s a b rest (CReal (f_max fo x y)).
Proof. exact max_real. Qed.
Check C09_max_real : forall fo s a b rest x y,
  args2 s a b rest -> room s rest -> value a = CReal x -> value b = CReal y ->
  w_max fo s = ok2 s a b rest (CReal (f_max fo x y)).

(* neg / abs on a real flip / clear the sign bit of the pattern *)
Theorem C09_neg_real : forall s a rest r,
  args1 s a rest -> room s rest -> value a = CReal r ->
  w_neg s = ok1 s a rest (CReal (Z.lxor r (2 ^ 63))).
Proof. exact neg_real. Qed.
Check C09_neg_real : forall s a rest r,
  args1 s a rest -> room s rest -> value a = CReal r ->
  w_neg s = ok1 s a rest (CReal (Z.lxor r (2 ^ 63))).

Theorem C09_abs_real : forall s a rest r,
  args1 s a rest -> room s rest -> value a = CReal r ->
  w_abs s = ok1 s a rest (CReal (r mod 2 ^ 63)).
Proof. exact abs_real. Qed.
Check C09_abs_real : forall s a rest r,
  args1 s a rest -> room s rest -> value a = CReal r ->
  w_abs s = ok1 s a rest (CReal (r mod 2 ^ 63)).

Theorem C09_sign_bit : forall r, f64_pat r ->
  (f64_pat (Z.lxor r (2 ^ 63)) /\ f64_neg (Z.lxor r (2 ^ 63)) = negb (f64_neg r) /\
   (Z.lxor r (2 ^ 63)) mod 2 ^ 63 = r mod 2 ^ 63 /\ f64_key (Z.lxor r (2 ^ 63)) = - f64_key r) /\
  (f64_pat (r mod 2 ^ 63) /\ f64_neg (r mod 2 ^ 63) = false /\
   (r mod 2 ^ 63) mod 2 ^ 63 = r mod 2 ^ 63 /\ f64_key (r mod 2 ^ 63) = Z.abs (f64_key r)).
Proof. exact f64_sign_ops. Qed.
Check C09_sign_bit : forall r, f64_pat r ->
  (f64_pat (Z.lxor r (2 ^ 63)) /\ f64_neg (Z.lxor r (2 ^ 63)) = negb (f64_neg r) /\
   (Z.lxor r (2 ^ 63)) mod 2 ^ 63 = r mod 2 ^ 63 /\ f64_key (Z.lxor r (2 ^ 63)) = - f64_key r) /\
  (f64_pat (r mod 2 ^ 63) /\ f64_neg (r mod 2 ^ 63) = false /\
   (r mod 2 ^ 63) mod 2 ^ 63 = r mod 2 ^ 63 /\ f64_key (r mod 2 ^ 63) = Z.abs (f64_key r)).

(* comparisons of non-NaN reals follow the order of the magnitude key *)
Theorem C09_cmp_real : forall f s a b rest x y,
  args2 s a b rest -> room s rest -> value a = CReal x -> value b = CReal y ->
  f64_is_nan x = false -> f64_is_nan y = false ->
  w_cmp f s = ok2 s a b rest (CFlag (f (f64_key x ?= f64_key y))).
Proof. exact cmp_real. Qed.
Check C09_cmp_real : forall f s a b rest x y,
  args2 s a b rest -> room s rest -> value a = CReal x -> value b = CReal y ->
  f64_is_nan x = false -> f64_is_nan y = false ->
  w_cmp f s = ok2 s a b rest (CFlag (f (f64_key x ?= f64_key y))).

Theorem C09_sign_tests_real : forall s a rest r,
  args1 s a rest -> room s rest -> value a = CReal r ->
  w_sign_test (Z.eqb 0) f64_is_zero s = ok1 s a rest (CFlag (f64_is_zero r)) /\
  w_sign_test (Z.ltb 0) f64_pos s = ok1 s a rest (CFlag (negb (f64_is_nan r) && (0 <? f64_key r))) /\
  w_sign_test (fun x => Z.ltb x 0) f64_negv s = ok1 s a rest (CFlag (negb (f64_is_nan r) && (f64_key r <? 0))).
Proof. exact sign_tests_real. Qed.
Check C09_sign_tests_real : forall s a rest r,
  args1 s a rest -> room s rest -> value a = CReal r ->
  w_sign_test (Z.eqb 0) f64_is_zero s = ok1 s a rest (CFlag (f64_is_zero r)) /\
  w_sign_test (Z.ltb 0) f64_pos s = ok1 s a rest (CFlag (negb (f64_is_nan r) && (0 <? f64_key r))) /\
  w_sign_test (fun x => Z.ltb x 0) f64_negv s = ok1 s a rest (CFlag (negb (f64_is_nan r) && (f64_key r <? 0))).

(* ================= conversions ================= *)
Theorem C09_into_real_int : forall fo s a rest x,
  args1 s a rest -> room s rest -> value a = CInt x ->
  w_into_real fo s = ok1 s a rest (CReal (f_of_int fo x)).
Proof. exact into_real_int. Qed.
Check C09_into_real_int : forall fo s a rest x,
  args1 s a rest -> room s rest -> value a = CInt x ->
  w_into_real fo s = ok1 s a rest (CReal (f_of_int fo x)).

Theorem C09_into_real_real : forall fo s a rest r,
  args1 s a rest -> value a = CReal r -> w_into_real fo s = ROk tt s.
Proof. exact into_real_real. Qed.
Check C09_into_real_real : forall fo s a rest r,
  args1 s a rest -> value a = CReal r -> w_into_real fo s = ROk tt s.

Theorem C09_into_int_real : forall fo s a rest r,
  args1 s a rest -> room s rest -> value a = CReal r ->
  w_into_int fo s = ok1 s a rest (CInt (f_to_int fo r)).
Proof. exact into_int_real. Qed.
Check C09_into_int_real : forall fo s a rest r,
  args1 s a rest -> room s rest -> value a = CReal r ->
  w_into_int fo s = ok1 s a rest (CInt (f_to_int fo r)).

Theorem C09_into_int_int : forall fo s a rest x,
  args1 s a rest -> value a = CInt x -> w_into_int fo s = ROk tt s.
Proof. exact into_int_int. Qed.
Check C09_into_int_int : forall fo s a rest x,
  args1 s a rest -> value a = CInt x -> w_into_int fo s = ROk tt s.

Theorem C09_round_real : forall fo s a rest r,
  args1 s a rest -> room s rest -> value a = CReal r ->
  w_round fo s = ok1 s a rest (CReal (f_round fo r)).
Proof. exact round_real. Qed.
Check C09_round_real : forall fo s a rest r,
  args1 s a rest -> room s rest -> value a = CReal r ->
  w_round fo s = ok1 s a rest (CReal (f_round fo r)).

(* the integer-arithmetic conversions of Model/F64c.v (i128 <-> f64, f64::round, f32 <-> f64) *)
Theorem C09_f64_int_round_trip : forall z, Z.abs z < 2 ^ 53 -> f64_to_int (f64_of_int z) = z.
Proof. exact f64_int_round_trip. Qed.
Check C09_f64_int_round_trip : forall z, Z.abs z < 2 ^ 53 -> f64_to_int (f64_of_int z) = z.

Theorem C09_f64_of_int_monotone : forall z1 z2,
  in_i128 z1 = true -> in_i128 z2 = true -> z1 <= z2 ->
  f64_key (f64_of_int z1) <= f64_key (f64_of_int z2).
Proof. exact f64_of_int_monotone_i128. Qed.
Check C09_f64_of_int_monotone : forall z1 z2,
  in_i128 z1 = true -> in_i128 z2 = true -> z1 <= z2 ->
  f64_key (f64_of_int z1) <= f64_key (f64_of_int z2).

(* finite, and no significand bits below the binary point *)
Definition f64_integral (p : Z) : Prop :=
  f64_exp p <> 2047 /\ (f64_exp p < 1075 -> f64_mant p mod 2 ^ (- f64_ex p) = 0).

Theorem C09_f64_round_integral : forall p, f64_pat p -> f64_integral p -> f64_round p = p.
Proof. exact f64_round_integral. Qed.
Check C09_f64_round_integral : forall p, f64_pat p -> f64_integral p -> f64_round p = p.

Definition f32_pat (p : Z) : Prop := 0 <= p < 2 ^ 32.
Definition f32_is_nan (p : Z) : bool := ((p / 2 ^ 23) mod 256 =? 255) && negb (p mod 2 ^ 23 =? 0).

Theorem C09_f32_f64_round_trip : forall p,
  f32_pat p -> f32_is_nan p = false -> f64_to_f32 (f32_to_f64 p) = p.
Proof. exact f32_f64_round_trip. Qed.
Check C09_f32_f64_round_trip : forall p,
  f32_pat p -> f32_is_nan p = false -> f64_to_f32 (f32_to_f64 p) = p.

Theorem C09_f32_to_f64_injective : forall p q,
  f32_pat p -> f32_pat q -> f32_is_nan p = false -> f32_is_nan q = false ->
  f32_to_f64 p = f32_to_f64 q -> p = q.
Proof. exact f32_to_f64_injective. Qed.
Check C09_f32_to_f64_injective : forall p q,
  f32_pat p -> f32_pat q -> f32_is_nan p = false -> f32_is_nan q = false ->
  f32_to_f64 p = f32_to_f64 q -> p = q.

(* ================= type errors ================= *)
(* mixed int / real operands: a type error reporting the value of the LEFT operand *)
Definition mixed (a b : cell) : Prop :=
  (exists x y, value a = CInt x /\ value b = CReal y) \/ (exists x y, value a = CReal x /\ value b = CInt y).

Theorem C09_mixed_type_error : forall fo s a b rest,
  args2 s a b rest -> mixed a b ->
  let e := err2 s a b rest EType (Some (value a)) in
  w_add fo s = e /\ w_sub fo s = e /\ w_mul fo s = e /\ w_div fo s = e /\ w_rem fo s = e /\
  w_min fo s = e /\ w_max fo s = e /\ (forall f, w_cmp f s = e).
Proof. exact mixed_type_error. Qed.
Check C09_mixed_type_error : forall fo s a b rest,
  args2 s a b rest -> mixed a b ->
  let e := err2 s a b rest EType (Some (value a)) in
  w_add fo s = e /\ w_sub fo s = e /\ w_mul fo s = e /\ w_div fo s = e /\ w_rem fo s = e /\
  w_min fo s = e /\ w_max fo s = e /\ (forall f, w_cmp f s = e).

(* the bitwise words and shifts look at the right operand first *)
Theorem C09_bitwise_type_error : forall f s a b rest,
  args2 s a b rest ->
  ((forall y, value b <> CInt y) ->
   arith_int f s = RErr EType (Some (value b)) (set_ds (with_log [RPushData b] s) (a :: rest))) /\
  (forall y, value b = CInt y -> (forall x, value a <> CInt x) ->
   arith_int f s = err2 s a b rest EType (Some (value a))).
Proof. exact arith_int_type_error. Qed.
Check C09_bitwise_type_error : forall f s a b rest,
  args2 s a b rest ->
  ((forall y, value b <> CInt y) ->
   arith_int f s = RErr EType (Some (value b)) (set_ds (with_log [RPushData b] s) (a :: rest))) /\
  (forall y, value b = CInt y -> (forall x, value a <> CInt x) ->
   arith_int f s = err2 s a b rest EType (Some (value a))).

(* EVERY word of the property, looked up by name in the table of native words, on EVERY
   state: a type error's payload is one of the (at most n) operand cells above the mark of the
   current context, or the untagged value of one - never any other value *)
Definition operands (n : nat) (s : state) : list cell := firstn (Nat.min n (data_depth s)) (ds s).
Definition reports_operand (n : nat) (s : state) (r : res unit) : Prop :=
  forall p s', r = RErr EType (Some p) s' ->
  exists c, In c (operands n s) /\ (p = c \/ p = value c).
Definition c09_words : list (string * nat) :=
  [ ("+", 2); ("-", 2); ("*", 2); ("/", 2); ("rem", 2); ("neg", 1); ("abs", 1); ("min", 2); ("max", 2);
    ("<", 2); ("<=", 2); (">", 2); (">=", 2); ("==", 2); ("<>", 2);
    ("band", 2); ("bor", 2); ("bxor", 2); ("bnot", 1); ("popcnt", 1); ("bsl", 2); ("bsr", 2);
    (">int", 1); (">real", 1); ("round", 1); ("zero?", 1); ("positive?", 1); ("negative?", 1) ]%string%nat.

Theorem C09_type_error_payload : forall fo name n w s,
  In (name, n) c09_words -> native_fn fo name = Some w -> reports_operand n s (w s).
Proof. exact type_error_payload. Qed.
Check C09_type_error_payload : forall fo name n w s,
  In (name, n) c09_words -> native_fn fo name = Some w -> reports_operand n s (w s).

(* the names of the table are the programs the theorems above are about *)
Local Open Scope string_scope.
Example C09_table : forall fo,
  native_fn fo "+" = Some (w_add fo) /\ native_fn fo "-" = Some (w_sub fo) /\
  native_fn fo "*" = Some (w_mul fo) /\ native_fn fo "/" = Some (w_div fo) /\
  native_fn fo "rem" = Some (w_rem fo) /\ native_fn fo "neg" = Some w_neg /\
  native_fn fo "abs" = Some w_abs /\ native_fn fo "min" = Some (w_min fo) /\
  native_fn fo "max" = Some (w_max fo) /\
  native_fn fo "<" = Some (w_cmp is_lt) /\ native_fn fo "<=" = Some (w_cmp is_le) /\
  native_fn fo ">" = Some (w_cmp is_gt) /\ native_fn fo ">=" = Some (w_cmp is_ge) /\
  native_fn fo "==" = Some (w_cmp is_eq) /\ native_fn fo "<>" = Some (w_cmp is_ne) /\
  native_fn fo "band" = Some (arith_int Z.land) /\ native_fn fo "bor" = Some (arith_int Z.lor) /\
  native_fn fo "bxor" = Some (arith_int Z.lxor) /\ native_fn fo "bnot" = Some w_bnot /\
  native_fn fo "bsl" = Some (arith_int shl128) /\ native_fn fo "bsr" = Some (arith_int shr128) /\
  native_fn fo "popcnt" = Some w_popcnt /\
  native_fn fo ">int" = Some (w_into_int fo) /\ native_fn fo ">real" = Some (w_into_real fo) /\
  native_fn fo "round" = Some (w_round fo) /\
  native_fn fo "zero?" = Some (w_sign_test (Z.eqb 0) f64_is_zero) /\
  native_fn fo "positive?" = Some (w_sign_test (Z.ltb 0) f64_pos) /\
  native_fn fo "negative?" = Some (w_sign_test (fun x => Z.ltb x 0) f64_negv).
Proof. intro fo. repeat split. Qed.

(* the hypotheses are satisfiable: on a concrete recording machine with one cell below the
   operands, i128_max + 3 wraps, i128_min / -1 overflows, 7 rem 0 is a division error, and
   1 + 1.0 is a type error reporting the left operand *)
Definition st (stack : list cell) : state :=
  mkstate [] [] [] [] [] [] stack [] [] [] [] (mkctx 1 0 0 0 0 0 0 0 MEval) [] 0%Z None None (Some 10%Z)
          (Some []) "" None false.

Example C09_nonvacuous : forall fo,
  let bottom := CStr "below the mark" in
  args2 (st [CInt 3; CInt i128_max; bottom]) (CInt i128_max) (CInt 3) [bottom] /\
  room (st [CInt 3; CInt i128_max; bottom]) [bottom] /\
  w_add fo (st [CInt 3; CInt i128_max; bottom])
  = ROk tt (mkstate [] [] [] [] [] [] [CInt (i128_min + 2); bottom] [] [] [] []
                    (mkctx 1 0 0 0 0 0 0 0 MEval) [] 0%Z None None (Some 10%Z)
                    (Some [RPopData; RPushData (CInt i128_max); RPushData (CInt 3)]) "" None false) /\
  w_div fo (st [CInt (-1); CInt i128_min; bottom])
  = err2 (st [CInt (-1); CInt i128_min; bottom]) (CInt i128_min) (CInt (-1)) [bottom] EOverflow None /\
  w_rem fo (st [CInt 0; CInt 7; bottom])
  = err2 (st [CInt 0; CInt 7; bottom]) (CInt 7) (CInt 0) [bottom] EDivZero None /\
  w_add fo (st [CReal 4607182418800017408; CTag [] (CInt 1); bottom])
  = err2 (st [CReal 4607182418800017408; CTag [] (CInt 1); bottom]) (CTag [] (CInt 1))
         (CReal 4607182418800017408) [bottom] EType (Some (CInt 1)) /\
  w_add fo (st [CInt 1; bottom]) = RErr EUnderflow None
     (mkstate [] [] [] [] [] [] [bottom] [] [] [] []
              (mkctx 1 0 0 0 0 0 0 0 MEval) [] 0%Z None None (Some 10%Z)
              (Some [RPushData (CInt 1)]) "" None false).
Proof. intro fo. repeat split. cbn. apply le_n. Qed.
