(* C09 - placeholder until Proofs/ArithProofs.v is merged *)
From Xeh Require Import Model.Prelude.

Theorem C09_wrap128_id : forall z, in_i128 z = true -> wrap128 z = z.
Proof.
  intros z H. unfold in_i128, i128_min, i128_max in H. apply andb_prop in H. destruct H as [H1 H2].
  apply Z.leb_le in H1. apply Z.leb_le in H2. unfold wrap128, two128, two127 in *.
  assert (Hp : (2 ^ 128 = 2 * 2 ^ 127)%Z) by reflexivity.
  destruct (Z.ltb_spec (z mod 2 ^ 128) (2 ^ 127)) as [L | L].
  - destruct (Z_le_gt_dec 0 z) as [P | N].
    + rewrite Z.mod_small by lia. reflexivity.
    + exfalso. rewrite <- (Z.mod_add z 1 (2 ^ 128)) in L by lia. rewrite Z.mod_small in L by lia. lia.
  - destruct (Z_le_gt_dec 0 z) as [P | N].
    + exfalso. rewrite Z.mod_small in L by lia. lia.
    + rewrite <- (Z.mod_add z 1 (2 ^ 128)) by lia. rewrite Z.mod_small by lia. lia.
Qed.
Check C09_wrap128_id : forall z, in_i128 z = true -> wrap128 z = z.
