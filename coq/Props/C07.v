(* C07 - placeholder until Proofs/PackProofs.v is merged *)
From Xeh Require Import Model.Prelude Model.Bits Model.Codec Proofs.CodecProofs.

Theorem C07_from_int_width : forall v w o, clen (from_int v w o) = w.
Proof. intros v w o. exact (proj2 (from_int_wf v w o)). Qed.
Check C07_from_int_width : forall v w o, clen (from_int v w o) = w.
