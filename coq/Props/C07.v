(* C07 - Binary construction is the inverse of binary parsing.
   Property theorems only; every one is closed by [exact] of a lemma proved in Proofs/.

   Vocabulary (Proofs/PackDefs.v, Proofs/PackTable.v; cursor vocabulary as in Props/C06.v):
   - [field]: FInt w signed order v | FF32 order v | FF64 order v | FBits b | FStr t | FBytes l.
   - [pack_field fo f]: the bit-string the field packs to ([from_int], [from_fbits], the bytes);
     [width f] its width; [field_bits fo f] its bits; [fields_bits], [total_width] over lists;
     [pack fo fs]: the left fold of [Bits.append] over the packed fields (what >bitstr and emit do).
   - [field_ok]: a raw bit-string is well-formed, byte values are below 256;
     [field_rd_ok]: moreover widths 1..127 for unsigned and 1..128 for signed integers (the
     documented limits of uint / int).
   - [field_arg] / [pack_word]: the value put on the stack and the packing word (v w int! ...);
     [field_item]: the cell the field contributes to the vector handed to >bitstr;
     [build fo fs]: %vec-begin, every field's value and packing word, %vec-end, >bitstr.
   - [read_field]: the matching read word; [read_fields]: one after the other;
     [parse_back fo fs]: open-bitstr, [read_fields], remain.
   - [field_value fo f c]: what comes back: v mod 2^w, sext w (v mod 2^w), the real's pattern
     reduced to 64 bits (for 32 bits: through the binary32 conversions of [fo], which stays
     universally quantified), a well-formed bit-string with the field's bits.
   - [emitting s ob n]: interception is on: `output` holds the well-formed [ob], `output-length` [n].
   - [room s k]: the data-stack limit is not reached by [k] more cells. *)
From Xeh Require Import Model.Prelude Model.Bits Model.Codec Model.Cell Model.Lexer Model.Fmt
                        Model.Vm Model.Words Model.Boot.
From Xeh Require Import Proofs.BitsBasic Proofs.VmStep Proofs.CursorDefs Proofs.CursorProofs
                        Proofs.PackDefs Proofs.PackTable Proofs.PackProofs Proofs.PackBuild Proofs.PackSurface.
Local Notation length := List.length.

(* ---------- the words are the programs of the interpreter's table ---------- *)
Theorem C07_word_table : forall fo,
  Forall (fun nw => native_fn fo (fst nw) = Some (snd nw)) (pack_table fo).
Proof. exact pack_table_native. Qed.
Check C07_word_table : forall fo,
  Forall (fun nw => native_fn fo (fst nw) = Some (snd nw)) (pack_table fo).

(* ---------- the packing words ---------- *)
(* uNle! uNbe! iNle! iNbe! (explicit order); any width up to [pack_limit] = 2^20 bits *)
Theorem C07_pack_int : forall s n o, (n <= pack_limit)%Z ->
  behaves (pack_int n o s)
    (fun s' => exists c rest v, ds s = c :: rest /\ value c = CInt v /\
               ds s' = CBits (from_int v (Z.to_nat n) o) :: rest /\ heap s' = heap s /\ sim s s')
    (fun _ => fail_frame 1 s).
Proof. exact pack_int_word. Qed.
Check C07_pack_int : forall s n o, (n <= pack_limit)%Z ->
  behaves (pack_int n o s)
    (fun s' => exists c rest v, ds s = c :: rest /\ value c = CInt v /\
               ds s' = CBits (from_int v (Z.to_nat n) o) :: rest /\ heap s' = heap s /\ sim s s')
    (fun _ => fail_frame 1 s).

(* uN! iN!: the order of the big/little switch *)
Theorem C07_pack_int_cur : forall s, notmeta s -> 6 <= length (heap s) -> forall n,
  (n <= pack_limit)%Z ->
  behaves (with_order (pack_int n) s)
    (fun s' => exists o c rest v, h_order (heap s) = Some o /\
               ds s = c :: rest /\ value c = CInt v /\
               ds s' = CBits (from_int v (Z.to_nat n) o) :: rest /\ heap s' = heap s /\ sim s s')
    (fun _ => fail_frame 1 s).
Proof. exact pack_int_cur_word. Qed.
Check C07_pack_int_cur : forall s, notmeta s -> 6 <= length (heap s) -> forall n,
  (n <= pack_limit)%Z ->
  behaves (with_order (pack_int n) s)
    (fun s' => exists o c rest v, h_order (heap s) = Some o /\
               ds s = c :: rest /\ value c = CInt v /\
               ds s' = CBits (from_int v (Z.to_nat n) o) :: rest /\ heap s' = heap s /\ sim s s')
    (fun _ => fail_frame 1 s).

(* int! uint!: value and width on the stack.  [wp m s Q E U]: [m s] returns in a state
   satisfying [Q], or fails in a state satisfying [E], or is outside the model and [U] holds
   (here: a width beyond [pack_limit], an allocation failure in the implementation) *)
Theorem C07_int_store : forall s, notmeta s -> 6 <= length (heap s) ->
  wp (with_size (fun n => with_order (pack_int n))) s
     (fun _ s' => exists cn c rest n v o, ds s = cn :: c :: rest /\ is_usize cn n /\
                  (n <= pack_limit)%Z /\ value c = CInt v /\ h_order (heap s) = Some o /\
                  ds s' = CBits (from_int v (Z.to_nat n) o) :: rest /\
                  heap s' = heap s /\ sim s s')
     (fun _ _ s' => fail_frame 2 s s')
     (exists cn rest n, ds s = cn :: rest /\ is_usize cn n /\ (pack_limit < n)%Z).
Proof. exact int_store_word. Qed.
Check C07_int_store : forall s, notmeta s -> 6 <= length (heap s) ->
  wp (with_size (fun n => with_order (pack_int n))) s
     (fun _ s' => exists cn c rest n v o, ds s = cn :: c :: rest /\ is_usize cn n /\
                  (n <= pack_limit)%Z /\ value c = CInt v /\ h_order (heap s) = Some o /\
                  ds s' = CBits (from_int v (Z.to_nat n) o) :: rest /\
                  heap s' = heap s /\ sim s s')
     (fun _ _ s' => fail_frame 2 s s')
     (exists cn rest n, ds s = cn :: rest /\ is_usize cn n /\ (pack_limit < n)%Z).

(* fNle! fNbe!: 32 or 64 bits, anything else is the float-length error *)
Theorem C07_pack_float : forall fo s n o,
  behaves (pack_float fo n o s)
    (fun s' => exists c rest v, ds s = c :: rest /\ value c = CReal v /\
       ((n = 32%Z /\ ds s' = CBits (from_fbits 4 o (f_to_f32 fo v)) :: rest) \/
        (n = 64%Z /\ ds s' = CBits (from_fbits 8 o v) :: rest)) /\
       heap s' = heap s /\ sim s s')
    (fun _ => fail_frame 1 s).
Proof. exact pack_float_word. Qed.
Check C07_pack_float : forall fo s n o,
  behaves (pack_float fo n o s)
    (fun s' => exists c rest v, ds s = c :: rest /\ value c = CReal v /\
       ((n = 32%Z /\ ds s' = CBits (from_fbits 4 o (f_to_f32 fo v)) :: rest) \/
        (n = 64%Z /\ ds s' = CBits (from_fbits 8 o v) :: rest)) /\
       heap s' = heap s /\ sim s s')
    (fun _ => fail_frame 1 s).

(* float! *)
Theorem C07_float_store : forall fo s, notmeta s -> 6 <= length (heap s) ->
  wp (with_size (fun n => with_order (pack_float fo n))) s
     (fun _ s' => exists cn c rest n v o, ds s = cn :: c :: rest /\ is_usize cn n /\
                  value c = CReal v /\ h_order (heap s) = Some o /\
                  ((n = 32%Z /\ ds s' = CBits (from_fbits 4 o (f_to_f32 fo v)) :: rest) \/
                   (n = 64%Z /\ ds s' = CBits (from_fbits 8 o v) :: rest)) /\
                  heap s' = heap s /\ sim s s')
     (fun _ _ s' => fail_frame 2 s s') False.
Proof. exact float_store_word. Qed.
Check C07_float_store : forall fo s, notmeta s -> 6 <= length (heap s) ->
  wp (with_size (fun n => with_order (pack_float fo n))) s
     (fun _ s' => exists cn c rest n v o, ds s = cn :: c :: rest /\ is_usize cn n /\
                  value c = CReal v /\ h_order (heap s) = Some o /\
                  ((n = 32%Z /\ ds s' = CBits (from_fbits 4 o (f_to_f32 fo v)) :: rest) \/
                   (n = 64%Z /\ ds s' = CBits (from_fbits 8 o v) :: rest)) /\
                  heap s' = heap s /\ sim s s')
     (fun _ _ s' => fail_frame 2 s s') False.

(* ---------- widths and lengths ---------- *)
Theorem C07_field_width : forall fo f, field_ok f ->
  wf (pack_field fo f) /\ clen (pack_field fo f) = width f.
Proof. exact pack_field_wf. Qed.
Check C07_field_width : forall fo f, field_ok f ->
  wf (pack_field fo f) /\ clen (pack_field fo f) = width f.

(* pack_len: the concatenation has the fields' bits in order; its length is the sum of the widths *)
Theorem C07_pack_len : forall fo fs, Forall field_ok fs ->
  wf (pack fo fs) /\ abs (pack fo fs) = fields_bits fo fs /\ clen (pack fo fs) = total_width fs.
Proof. exact pack_spec. Qed.
Check C07_pack_len : forall fo fs, Forall field_ok fs ->
  wf (pack fo fs) /\ abs (pack fo fs) = fields_bits fo fs /\ clen (pack fo fs) = total_width fs.

(* >bitstr on the vector of the fields' items (packed bit-strings, strings, byte vectors) *)
Theorem C07_into_bitstr : forall fo s fs c rest,
  Forall field_ok fs ->
  ds s = c :: rest -> value c = CVec (map (field_item fo) fs) ->
  ds_len (cx s) < length (ds s) -> limit_reached (stack_limit s) (length rest) = false ->
  exists s' p, w_into_bitstr s = ROk tt s' /\
               ds s' = CBits p :: rest /\ heap s' = heap s /\ sim s s' /\
               wf p /\ abs p = fields_bits fo fs /\ clen p = total_width fs /\ cstart p = 0.
Proof. exact into_bitstr_fields. Qed.
Check C07_into_bitstr : forall fo s fs c rest,
  Forall field_ok fs ->
  ds s = c :: rest -> value c = CVec (map (field_item fo) fs) ->
  ds_len (cx s) < length (ds s) -> limit_reached (stack_limit s) (length rest) = false ->
  exists s' p, w_into_bitstr s = ROk tt s' /\
               ds s' = CBits p :: rest /\ heap s' = heap s /\ sim s s' /\
               wf p /\ abs p = fields_bits fo fs /\ clen p = total_width fs /\ cstart p = 0.

(* when every item is a packed bit-string, >bitstr is exactly [pack] *)
Theorem C07_into_bitstr_packed : forall fo s fs c rest,
  ds s = c :: rest -> value c = CVec (map (fun f => CBits (pack_field fo f)) fs) ->
  ds_len (cx s) < length (ds s) -> limit_reached (stack_limit s) (length rest) = false ->
  exists s', w_into_bitstr s = ROk tt s' /\
             ds s' = CBits (pack fo fs) :: rest /\ heap s' = heap s /\ sim s s'.
Proof. exact into_bitstr_packed. Qed.
Check C07_into_bitstr_packed : forall fo s fs c rest,
  ds s = c :: rest -> value c = CVec (map (fun f => CBits (pack_field fo f)) fs) ->
  ds_len (cx s) < length (ds s) -> limit_reached (stack_limit s) (length rest) = false ->
  exists s', w_into_bitstr s = ROk tt s' /\
             ds s' = CBits (pack fo fs) :: rest /\ heap s' = heap s /\ sim s s'.

(* the construction words produce it: [ v w int! ... "str" [ bytes ] ... ] >bitstr *)
Theorem C07_build : forall fo fs s,
  Forall field_ok fs -> Forall field_pk_ok fs ->
  ds_len (cx s) <= length (ds s) -> ss_ptr (cx s) <= length (special s) ->
  (forall j, j <= length fs -> limit_reached (stack_limit s) (length (ds s) + j) = false) ->
  exists s' p, build fo fs s = ROk tt s' /\
               ds s' = CBits p :: ds s /\ heap s' = heap s /\ sim s s' /\
               wf p /\ abs p = fields_bits fo fs /\ clen p = total_width fs /\ cstart p = 0.
Proof. exact build_ok. Qed.
Check C07_build : forall fo fs s,
  Forall field_ok fs -> Forall field_pk_ok fs ->
  ds_len (cx s) <= length (ds s) -> ss_ptr (cx s) <= length (special s) ->
  (forall j, j <= length fs -> limit_reached (stack_limit s) (length (ds s) + j) = false) ->
  exists s' p, build fo fs s = ROk tt s' /\
               ds s' = CBits p :: ds s /\ heap s' = heap s /\ sim s s' /\
               wf p /\ abs p = fields_bits fo fs /\ clen p = total_width fs /\ cstart p = 0.

(* ---------- parse_pack: from a cursor whose remaining bits start with the fields' bits -
   at whatever offset and alignment - the matching read words return the original values
   reduced to their widths, in order, and leave exactly the bits after the fields ---------- *)
Theorem C07_parse_pack : forall fo fs s inp off tail,
  cursor s inp off -> Forall field_rd_ok fs ->
  rest_of inp off = (fields_bits fo fs ++ tail)%list ->
  room s (length fs) ->
  exists s' vals, read_fields fo fs s = ROk tt s' /\
    ds s' = (rev vals ++ ds s)%list /\ Forall2 (field_value fo) fs vals /\
    cursor s' inp (off + Z.of_nat (total_width fs)) /\
    rest_of inp (off + Z.of_nat (total_width fs)) = tail /\
    sim s s' /\ h_stash (heap s') = h_stash (heap s) /\
    (forall a, a <> R_OFFSET -> nth_error (heap s') a = nth_error (heap s) a).
Proof. exact parse_fields. Qed.
Check C07_parse_pack : forall fo fs s inp off tail,
  cursor s inp off -> Forall field_rd_ok fs ->
  rest_of inp off = (fields_bits fo fs ++ tail)%list ->
  room s (length fs) ->
  exists s' vals, read_fields fo fs s = ROk tt s' /\
    ds s' = (rev vals ++ ds s)%list /\ Forall2 (field_value fo) fs vals /\
    cursor s' inp (off + Z.of_nat (total_width fs)) /\
    rest_of inp (off + Z.of_nat (total_width fs)) = tail /\
    sim s s' /\ h_stash (heap s') = h_stash (heap s) /\
    (forall a, a <> R_OFFSET -> nth_error (heap s') a = nth_error (heap s) a).

(* open-bitstr on any representation [p] of the fields' bits, read everything, remain = 0;
   the previous input and offset wait on the stash *)
Theorem C07_roundtrip : forall fo fs s inp0 off0 v c rest p,
  cursor s inp0 off0 -> h_stash (heap s) = Some v ->
  ds s = c :: rest -> value c = CBits p ->
  wf p -> (Z.of_nat (cend p) < two64)%Z -> abs p = fields_bits fo fs ->
  Forall field_rd_ok fs ->
  ds_len (cx s) < length (ds s) ->
  (forall j, j <= length fs -> limit_reached (stack_limit s) (length rest + j) = false) ->
  exists s' vals e,
    parse_back fo fs s = ROk tt s' /\
    ds s' = (CInt 0 :: rev vals ++ rest)%list /\ Forall2 (field_value fo) fs vals /\
    cursor s' p (Z.of_nat (cend p)) /\
    h_stash (heap s') = Some (v ++ [e])%list /\
    entry_input e = Some inp0 /\ entry_offset e = Some off0.
Proof. exact roundtrip. Qed.
Check C07_roundtrip : forall fo fs s inp0 off0 v c rest p,
  cursor s inp0 off0 -> h_stash (heap s) = Some v ->
  ds s = c :: rest -> value c = CBits p ->
  wf p -> (Z.of_nat (cend p) < two64)%Z -> abs p = fields_bits fo fs ->
  Forall field_rd_ok fs ->
  ds_len (cx s) < length (ds s) ->
  (forall j, j <= length fs -> limit_reached (stack_limit s) (length rest + j) = false) ->
  exists s' vals e,
    parse_back fo fs s = ROk tt s' /\
    ds s' = (CInt 0 :: rev vals ++ rest)%list /\ Forall2 (field_value fo) fs vals /\
    cursor s' p (Z.of_nat (cend p)) /\
    h_stash (heap s') = Some (v ++ [e])%list /\
    entry_input e = Some inp0 /\ entry_offset e = Some off0.

(* the whole chain: build with the construction words and >bitstr, open, read back, remain *)
Theorem C07_build_parse : forall fo fs s inp0 off0 v,
  cursor s inp0 off0 -> h_stash (heap s) = Some v ->
  Forall field_rd_ok fs -> (Z.of_nat (total_width fs) < two64)%Z ->
  ds_len (cx s) <= length (ds s) -> ss_ptr (cx s) <= length (special s) ->
  (forall j, j <= length fs -> limit_reached (stack_limit s) (length (ds s) + j) = false) ->
  exists s' vals e,
    (build fo fs ;; parse_back fo fs) s = ROk tt s' /\
    ds s' = (CInt 0 :: rev vals ++ ds s)%list /\ Forall2 (field_value fo) fs vals /\
    (exists p, cursor s' p (Z.of_nat (cend p)) /\ abs p = fields_bits fo fs /\
               clen p = total_width fs) /\
    h_stash (heap s') = Some (v ++ [e])%list /\
    entry_input e = Some inp0 /\ entry_offset e = Some off0.
Proof. exact build_parse. Qed.
Check C07_build_parse : forall fo fs s inp0 off0 v,
  cursor s inp0 off0 -> h_stash (heap s) = Some v ->
  Forall field_rd_ok fs -> (Z.of_nat (total_width fs) < two64)%Z ->
  ds_len (cx s) <= length (ds s) -> ss_ptr (cx s) <= length (special s) ->
  (forall j, j <= length fs -> limit_reached (stack_limit s) (length (ds s) + j) = false) ->
  exists s' vals e,
    (build fo fs ;; parse_back fo fs) s = ROk tt s' /\
    ds s' = (CInt 0 :: rev vals ++ ds s)%list /\ Forall2 (field_value fo) fs vals /\
    (exists p, cursor s' p (Z.of_nat (cend p)) /\ abs p = fields_bits fo fs /\
               clen p = total_width fs) /\
    h_stash (heap s') = Some (v ++ [e])%list /\
    entry_input e = Some inp0 /\ entry_offset e = Some off0.

(* ---------- the same at the level of source text: the order is switched with big / little
   between fields, widths are literals in front of int! uint! float! int uint float bits
   ([pack_src], [read_src], [build_src], [parse_back_src] in Proofs/PackDefs.v) ---------- *)
Theorem C07_parse_pack_src : forall fo fs s inp off tail,
  cursor s inp off -> Forall field_rd_ok fs ->
  rest_of inp off = (fields_bits fo fs ++ tail)%list ->
  ds_len (cx s) <= length (ds s) -> room s (length fs) ->
  exists s' vals, read_fields_src fo fs s = ROk tt s' /\
    ds s' = (rev vals ++ ds s)%list /\ Forall2 (field_value fo) fs vals /\
    cursor s' inp (off + Z.of_nat (total_width fs)) /\
    rest_of inp (off + Z.of_nat (total_width fs)) = tail /\
    sim s s' /\ h_stash (heap s') = h_stash (heap s).
Proof. exact parse_fields_src. Qed.
Check C07_parse_pack_src : forall fo fs s inp off tail,
  cursor s inp off -> Forall field_rd_ok fs ->
  rest_of inp off = (fields_bits fo fs ++ tail)%list ->
  ds_len (cx s) <= length (ds s) -> room s (length fs) ->
  exists s' vals, read_fields_src fo fs s = ROk tt s' /\
    ds s' = (rev vals ++ ds s)%list /\ Forall2 (field_value fo) fs vals /\
    cursor s' inp (off + Z.of_nat (total_width fs)) /\
    rest_of inp (off + Z.of_nat (total_width fs)) = tail /\
    sim s s' /\ h_stash (heap s') = h_stash (heap s).

Theorem C07_build_src : forall fo fs s,
  notmeta s -> 6 <= length (heap s) ->
  Forall field_ok fs -> Forall field_pk_ok fs ->
  ds_len (cx s) <= length (ds s) -> ss_ptr (cx s) <= length (special s) ->
  (forall j, j <= S (length fs) -> limit_reached (stack_limit s) (length (ds s) + j) = false) ->
  exists s' p, build_src fo fs s = ROk tt s' /\
               ds s' = CBits p :: ds s /\ hsame (heap s) (heap s') /\ sim s s' /\
               wf p /\ abs p = fields_bits fo fs /\ clen p = total_width fs /\ cstart p = 0.
Proof. exact build_src_ok. Qed.
Check C07_build_src : forall fo fs s,
  notmeta s -> 6 <= length (heap s) ->
  Forall field_ok fs -> Forall field_pk_ok fs ->
  ds_len (cx s) <= length (ds s) -> ss_ptr (cx s) <= length (special s) ->
  (forall j, j <= S (length fs) -> limit_reached (stack_limit s) (length (ds s) + j) = false) ->
  exists s' p, build_src fo fs s = ROk tt s' /\
               ds s' = CBits p :: ds s /\ hsame (heap s) (heap s') /\ sim s s' /\
               wf p /\ abs p = fields_bits fo fs /\ clen p = total_width fs /\ cstart p = 0.

Theorem C07_source_roundtrip : forall fo fs s inp0 off0 v,
  cursor s inp0 off0 -> h_stash (heap s) = Some v ->
  Forall field_rd_ok fs -> (Z.of_nat (total_width fs) < two64)%Z ->
  ds_len (cx s) <= length (ds s) -> ss_ptr (cx s) <= length (special s) ->
  (forall j, j <= S (length fs) -> limit_reached (stack_limit s) (length (ds s) + j) = false) ->
  exists s' vals e,
    (build_src fo fs ;; parse_back_src fo fs) s = ROk tt s' /\
    ds s' = (CInt 0 :: rev vals ++ ds s)%list /\ Forall2 (field_value fo) fs vals /\
    (exists p, cursor s' p (Z.of_nat (cend p)) /\ abs p = fields_bits fo fs /\
               clen p = total_width fs) /\
    h_stash (heap s') = Some (v ++ [e])%list /\
    entry_input e = Some inp0 /\ entry_offset e = Some off0.
Proof. exact source_roundtrip. Qed.
Check C07_source_roundtrip : forall fo fs s inp0 off0 v,
  cursor s inp0 off0 -> h_stash (heap s) = Some v ->
  Forall field_rd_ok fs -> (Z.of_nat (total_width fs) < two64)%Z ->
  ds_len (cx s) <= length (ds s) -> ss_ptr (cx s) <= length (special s) ->
  (forall j, j <= S (length fs) -> limit_reached (stack_limit s) (length (ds s) + j) = false) ->
  exists s' vals e,
    (build_src fo fs ;; parse_back_src fo fs) s = ROk tt s' /\
    ds s' = (CInt 0 :: rev vals ++ ds s)%list /\ Forall2 (field_value fo) fs vals /\
    (exists p, cursor s' p (Z.of_nat (cend p)) /\ abs p = fields_bits fo fs /\
               clen p = total_width fs) /\
    h_stash (heap s') = Some (v ++ [e])%list /\
    entry_input e = Some inp0 /\ entry_offset e = Some off0.

(* ---------- emit with interception on ---------- *)
Theorem C07_emit : forall s ob n c rest bs,
  emitting s ob n -> (n < two64)%Z ->
  ds s = c :: rest -> value c = CBits bs -> wf bs -> ds_len (cx s) < length (ds s) ->
  exists s', w_emit s = ROk tt s' /\ ds s' = rest /\ sim s s' /\
             heap s' = emit_heap (heap s) (n + Z.of_nat (clen bs)) (Bits.append false ob bs) /\
             emitting s' (Bits.append false ob bs) (n + Z.of_nat (clen bs)) /\
             abs (Bits.append false ob bs) = (abs ob ++ abs bs)%list.
Proof. exact emit_ok. Qed.
Check C07_emit : forall s ob n c rest bs,
  emitting s ob n -> (n < two64)%Z ->
  ds s = c :: rest -> value c = CBits bs -> wf bs -> ds_len (cx s) < length (ds s) ->
  exists s', w_emit s = ROk tt s' /\ ds s' = rest /\ sim s s' /\
             heap s' = emit_heap (heap s) (n + Z.of_nat (clen bs)) (Bits.append false ob bs) /\
             emitting s' (Bits.append false ob bs) (n + Z.of_nat (clen bs)) /\
             abs (Bits.append false ob bs) = (abs ob ++ abs bs)%list.

(* any chunks: output grows by their concatenation, output-length by its length *)
Theorem C07_emit_chunks : forall cs s ob n,
  emitting s ob n -> Forall wf cs -> (n + Z.of_nat (chunks_len cs) < two64)%Z ->
  limit_reached (stack_limit s) (length (ds s)) = false ->
  exists s' ob', emit_all cs s = ROk tt s' /\ ds s' = ds s /\ sim s s' /\
                 emitting s' ob' (n + Z.of_nat (chunks_len cs)) /\
                 abs ob' = (abs ob ++ chunks_bits cs)%list.
Proof. exact emit_chunks. Qed.
Check C07_emit_chunks : forall cs s ob n,
  emitting s ob n -> Forall wf cs -> (n + Z.of_nat (chunks_len cs) < two64)%Z ->
  limit_reached (stack_limit s) (length (ds s)) = false ->
  exists s' ob', emit_all cs s = ROk tt s' /\ ds s' = ds s /\ sim s s' /\
                 emitting s' ob' (n + Z.of_nat (chunks_len cs)) /\
                 abs ob' = (abs ob ++ chunks_bits cs)%list.

(* emit_split: every split [fss] of a field list across several emit calls, from an empty
   output: `output` denotes the packing of the whole list, `output-length` is its length *)
Theorem C07_emit_split : forall fo fss s ob,
  emitting s ob 0 -> abs ob = [] ->
  Forall (Forall field_ok) fss ->
  (Z.of_nat (total_width (List.concat fss)) < two64)%Z ->
  limit_reached (stack_limit s) (length (ds s)) = false ->
  exists s' ob', emit_all (map (pack fo) fss) s = ROk tt s' /\ ds s' = ds s /\
    h_output (heap s') = Some ob' /\ wf ob' /\
    abs ob' = abs (pack fo (List.concat fss)) /\
    h_outlen (heap s') = Some (Z.of_nat (clen ob')) /\
    clen ob' = total_width (List.concat fss).
Proof. exact emit_split. Qed.
Check C07_emit_split : forall fo fss s ob,
  emitting s ob 0 -> abs ob = [] ->
  Forall (Forall field_ok) fss ->
  (Z.of_nat (total_width (List.concat fss)) < two64)%Z ->
  limit_reached (stack_limit s) (length (ds s)) = false ->
  exists s' ob', emit_all (map (pack fo) fss) s = ROk tt s' /\ ds s' = ds s /\
    h_output (heap s') = Some ob' /\ wf ob' /\
    abs ob' = abs (pack fo (List.concat fss)) /\
    h_outlen (heap s') = Some (Z.of_nat (clen ob')) /\
    clen ob' = total_width (List.concat fss).

(* ---------- non-vacuity ---------- *)
(* a booted bit-string module (empty input, interception on), 42 on the stack *)
Definition ex_state (d : list cell) : state :=
  mkstate [] [CInt 0; CBits (mkcbs 0 0 []); CInt 0; CVec []; CBits (mkcbs 0 0 []); CInt 0]
          [] [] [] [] d [] [] [] [] ctx0 [] 0%Z None None None None EmptyString None false.

(* widths 3, 13, 64, 16, 16, 128, 127, 5: fields start at bit alignments 0, 3, 0, 0, 0, 0, 0, 7;
   orders switch between fields; values exceed their widths *)
Definition ex_fields : list field :=
  [FInt 3 false Big 13; FInt 13 true Little (-3); FF64 Big 4611686018427387904; FStr "hi";
   FBytes [1; 255]%N; FInt 128 true Big (-1); FInt 127 false Little (2 ^ 127 + 5);
   FBits (mkcbs 2 7 [255]%N)].

Definition obs (c : cell) : Z + list bool :=
  match value c with
  | CInt z => inl z
  | CReal z => inl z
  | CBits b => inr (abs b)
  | _ => inr []
  end.

(* what the parse leaves on the stack, top first *)
Definition ex_expected : list (Z + list bool) :=
  [inl 0%Z;                                               (* remain *)
   inr [true; true; true; true; true];                    (* the raw bits *)
   inl 5%Z;                                               (* (2^127 + 5) mod 2^127 *)
   inl (-1)%Z;                                            (* 128-bit signed *)
   inr [false; false; false; false; false; false; false; true;
        true; true; true; true; true; true; true; true];  (* bytes 1 255 *)
   inr [false; true; true; false; true; false; false; false;
        false; true; true; false; true; false; false; true];  (* "hi" *)
   inl 4611686018427387904%Z;                             (* the real's pattern *)
   inl (-3)%Z;                                            (* 13-bit signed, little endian *)
   inl 5%Z;                                               (* 13 mod 2^3 *)
   inl 42%Z].

Example C07_nonvacuous : forall fo,
  let s := ex_state [CInt 42] in
  cursor s (mkcbs 0 0 []) 0 /\ Forall field_rd_ok ex_fields /\ total_width ex_fields = 372 /\
  (* the construction and reading words with explicit order *)
  (exists s', (build fo ex_fields ;; parse_back fo ex_fields) s = ROk tt s' /\
              map obs (ds s') = ex_expected /\ h_offset (heap s') = Some 372%Z) /\
  (* source text: big / little switches and literal widths *)
  (exists s', (build_src fo ex_fields ;; parse_back_src fo ex_fields) s = ROk tt s' /\
              map obs (ds s') = ex_expected /\ h_offset (heap s') = Some 372%Z).
Proof.
  intro fo. cbv zeta. split; [|split; [|split; [reflexivity|]]].
  - split; [reflexivity|]. unfold hcursor. cbn [ex_state heap].
    split; [cbn; lia|]. split; [reflexivity|]. split; [reflexivity|]. split.
    + split; [cbn; lia|]. split; [cbn; lia|]. constructor.
    + split; [reflexivity|]. cbn. lia.
  - unfold ex_fields.
    repeat match goal with
           | |- Forall _ (_ :: _) => constructor
           | |- Forall _ [] => constructor
           end; split; cbn [field_ok]; try exact I; try lia.
    + constructor; [reflexivity|constructor; [reflexivity|constructor]].
    + split; [cbn; lia|]. split; [cbn; lia|]. constructor; [reflexivity|constructor].
  - split.
    + eexists. split; [vm_compute; reflexivity|]. split; reflexivity.
    + eexists. split; [vm_compute; reflexivity|]. split; reflexivity.
Qed.

(* a split of a field list across three emit calls (one of them empty) *)
Example C07_emit_nonvacuous : forall fo,
  let s := ex_state [CInt 42] in
  let fss := [[FInt 3 false Big 13; FInt 13 true Little (-3)]; []; [FStr "hi"; FInt 5 false Big 9]] in
  emitting s (mkcbs 0 0 []) 0 /\
  exists s', emit_all (map (pack fo) fss) s = ROk tt s' /\ ds s' = [CInt 42] /\
             h_output (heap s') = Some (pack fo (List.concat fss)) /\
             h_outlen (heap s') = Some 37%Z /\ total_width (List.concat fss) = 37.
Proof.
  intro fo. cbv zeta. split.
  - unfold emitting. split; [reflexivity|]. split; [cbn; lia|]. split; [cbn; lia|].
    split; [reflexivity|]. split; [|split; [reflexivity|lia]].
    split; [cbn; lia|]. split; [cbn; lia|]. constructor.
  - eexists. split; [vm_compute; reflexivity|]. repeat split.
Qed.
