(* C06 - placeholder until Proofs/CursorProofs.v is merged *)
From Xeh Require Import Model.Prelude Model.Bits Model.Cell Model.Vm Model.Words.

Theorem C06_slots_distinct : R_INPUT <> R_OFFSET /\ R_OFFSET <> R_STASH /\ R_INPUT <> R_STASH.
Proof. repeat split; discriminate. Qed.
Check C06_slots_distinct : R_INPUT <> R_OFFSET /\ R_OFFSET <> R_STASH /\ R_INPUT <> R_STASH.
