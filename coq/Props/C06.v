(* C06 - Parsing cursor: a read returns exactly the requested bits and advances that far.
   Property theorems only; every one is closed by [exact] of a lemma proved in Proofs/.

   Vocabulary (Proofs/CursorDefs.v, Proofs/CursorTable.v, Proofs/CursorSeq.v):
   - [cursor s inp off]: the machine [s] is not in meta mode, its heap has the six cells of the
     bit-string module, R_INPUT holds the well-formed bit-string [inp] (any alignment, any stale
     bits around the range; end below 2^64), R_OFFSET holds the absolute bit offset [off] with
     cstart inp <= off <= cend inp.
   - [slice_bits inp off n]: bits [off, off+n) of the input as a list of booleans;
     [sub inp off n] the same range as a value sharing the input's buffer.
   - [read_done s s' inp off n rest v]: 0 <= n, off + n <= cend inp, the data stack of [s'] is
     [v :: rest], the heap of [s'] is the heap of [s] with R_OFFSET := off + n (so input, stash,
     byte order, output cells are untouched), nothing else changed ([sim]: [s'] differs from
     [s] at most in data stack, heap and reverse log).
   - [bits_read] / [num_read] / [real_read]: [read_done] plus what the pushed value is: a
     well-formed bit-string denoting exactly [slice_bits inp off n] / an integer / a real,
     the numbers tagged with length and byte order; and [cursor s' inp (off + n)].
   - [fail_frame ar s s']: what EVERY failure leaves behind, whatever the error kind (read past
     the end, mismatch, bad argument, float length, the data-stack limit refusing the result):
     the heap is untouched (input, offset, stash, byte order, output), the data stack is the
     original minus at most [ar] popped arguments, nothing else changed.  (The reading words
     push their result first and advance afterwards; with the former order a push refused by
     the stack limit left the offset moved - that defect was found by this proof and repaired.)
   - [behaves r Q E]: the result [r] is a normal return in a state satisfying [Q] or an error of
     kind [k] in a state satisfying [E k]; never a panic, never outside the model.
   - [cur_inv s]: some cursor holds, R_STASH holds a vector of valid suspended cursors, every
     bit-string on the data stack is well-formed.
   - [cursor_table fo]: the parsing words by name; [plain_table fo] all of them except
     open-bitstr / close-bitstr. *)
From Xeh Require Import Model.Prelude Model.Bits Model.Codec Model.Cell Model.Lexer Model.Fmt
                        Model.Vm Model.Words Model.Boot.
From Xeh Require Import Proofs.BitsBasic Proofs.VmStep Proofs.CursorDefs Proofs.CursorProofs
                        Proofs.CursorWords Proofs.CursorTable Proofs.CursorInv Proofs.CursorSeq
                        Proofs.CursorProgress Proofs.CursorFrame.
Local Notation length := List.length.

(* ---------- the words are the programs of the interpreter's table ---------- *)
Theorem C06_word_table : forall fo,
  Forall (fun nw => native_fn fo (fst nw) = Some (snd nw)) (cursor_table fo).
Proof. exact cursor_table_native. Qed.
Check C06_word_table : forall fo,
  Forall (fun nw => native_fn fo (fst nw) = Some (snd nw)) (cursor_table fo).

(* what the slice is: a well-formed value denoting bits [off, off+n) of the input *)
Theorem C06_slice : forall inp off n,
  wf inp -> (Z.of_nat (cstart inp) <= off)%Z -> (0 <= n)%Z -> (off + n <= Z.of_nat (cend inp))%Z ->
  wf (sub inp off n) /\ abs (sub inp off n) = slice_bits inp off n /\
  clen (sub inp off n) = Z.to_nat n.
Proof. exact sub_spec. Qed.
Check C06_slice : forall inp off n,
  wf inp -> (Z.of_nat (cstart inp) <= off)%Z -> (0 <= n)%Z -> (off + n <= Z.of_nat (cend inp))%Z ->
  wf (sub inp off n) /\ abs (sub inp off n) = slice_bits inp off n /\
  clen (sub inp off n) = Z.to_nat n.

(* ---------- (a) (b): bits, bytes ---------- *)
Theorem C06_bits : forall s inp off, cursor s inp off ->
  behaves (with_size read_bits s)
    (fun s' => exists c rest n, ds s = c :: rest /\ is_usize c n /\ bits_read s s' inp off n rest)
    (fun _ => fail_frame 1 s).
Proof. exact bits_word. Qed.
Check C06_bits : forall s inp off, cursor s inp off ->
  behaves (with_size read_bits s)
    (fun s' => exists c rest n, ds s = c :: rest /\ is_usize c n /\ bits_read s s' inp off n rest)
    (fun _ => fail_frame 1 s).

Theorem C06_bytes : forall s inp off, cursor s inp off ->
  behaves (with_size (fun n => read_bits (n * 8)) s)
    (fun s' => exists c rest n, ds s = c :: rest /\ is_usize c n /\
                                bits_read s s' inp off (n * 8) rest)
    (fun _ => fail_frame 1 s).
Proof. exact bytes_word. Qed.
Check C06_bytes : forall s inp off, cursor s inp off ->
  behaves (with_size (fun n => read_bits (n * 8)) s)
    (fun s' => exists c rest n, ds s = c :: rest /\ is_usize c n /\
                                bits_read s s' inp off (n * 8) rest)
    (fun _ => fail_frame 1 s).

(* ---------- unsigned numbers: uNle uNbe (explicit order), uN (current order), uint ---------- *)
Theorem C06_unsigned : forall s inp off, cursor s inp off -> forall n o,
  behaves (read_unsigned n o s)
    (fun s' => (n <= 127)%Z /\
               num_read s s' inp off n (ds s) o (spec_uint o (slice_bits inp off n)))
    (fun _ => fail_frame 0 s).
Proof. exact unsigned_word. Qed.
Check C06_unsigned : forall s inp off, cursor s inp off -> forall n o,
  behaves (read_unsigned n o s)
    (fun s' => (n <= 127)%Z /\
               num_read s s' inp off n (ds s) o (spec_uint o (slice_bits inp off n)))
    (fun _ => fail_frame 0 s).

Theorem C06_unsigned_cur : forall s inp off, cursor s inp off -> forall n,
  behaves (with_order (read_unsigned n) s)
    (fun s' => exists o, h_order (heap s) = Some o /\ (n <= 127)%Z /\
               num_read s s' inp off n (ds s) o (spec_uint o (slice_bits inp off n)))
    (fun _ => fail_frame 0 s).
Proof. exact unsigned_cur_word. Qed.
Check C06_unsigned_cur : forall s inp off, cursor s inp off -> forall n,
  behaves (with_order (read_unsigned n) s)
    (fun s' => exists o, h_order (heap s) = Some o /\ (n <= 127)%Z /\
               num_read s s' inp off n (ds s) o (spec_uint o (slice_bits inp off n)))
    (fun _ => fail_frame 0 s).

Theorem C06_uint : forall s inp off, cursor s inp off ->
  behaves (with_size (fun n => with_order (read_unsigned n)) s)
    (fun s' => exists c rest n, ds s = c :: rest /\ is_usize c n /\
       exists o, h_order (heap s) = Some o /\ (n <= 127)%Z /\
                 num_read s s' inp off n rest o (spec_uint o (slice_bits inp off n)))
    (fun _ => fail_frame 1 s).
Proof. exact uint_word. Qed.
Check C06_uint : forall s inp off, cursor s inp off ->
  behaves (with_size (fun n => with_order (read_unsigned n)) s)
    (fun s' => exists c rest n, ds s = c :: rest /\ is_usize c n /\
       exists o, h_order (heap s) = Some o /\ (n <= 127)%Z /\
                 num_read s s' inp off n rest o (spec_uint o (slice_bits inp off n)))
    (fun _ => fail_frame 1 s).

(* ---------- signed numbers: iNle iNbe, iN, int ---------- *)
Theorem C06_signed : forall s inp off, cursor s inp off -> forall n o,
  behaves (read_signed n o s)
    (fun s' => (n <= 128)%Z /\
               num_read s s' inp off n (ds s) o (spec_int o (slice_bits inp off n)))
    (fun _ => fail_frame 0 s).
Proof. exact signed_word. Qed.
Check C06_signed : forall s inp off, cursor s inp off -> forall n o,
  behaves (read_signed n o s)
    (fun s' => (n <= 128)%Z /\
               num_read s s' inp off n (ds s) o (spec_int o (slice_bits inp off n)))
    (fun _ => fail_frame 0 s).

Theorem C06_signed_cur : forall s inp off, cursor s inp off -> forall n,
  behaves (with_order (read_signed n) s)
    (fun s' => exists o, h_order (heap s) = Some o /\ (n <= 128)%Z /\
               num_read s s' inp off n (ds s) o (spec_int o (slice_bits inp off n)))
    (fun _ => fail_frame 0 s).
Proof. exact signed_cur_word. Qed.
Check C06_signed_cur : forall s inp off, cursor s inp off -> forall n,
  behaves (with_order (read_signed n) s)
    (fun s' => exists o, h_order (heap s) = Some o /\ (n <= 128)%Z /\
               num_read s s' inp off n (ds s) o (spec_int o (slice_bits inp off n)))
    (fun _ => fail_frame 0 s).

Theorem C06_int : forall s inp off, cursor s inp off ->
  behaves (with_size (fun n => with_order (read_signed n)) s)
    (fun s' => exists c rest n, ds s = c :: rest /\ is_usize c n /\
       exists o, h_order (heap s) = Some o /\ (n <= 128)%Z /\
                 num_read s s' inp off n rest o (spec_int o (slice_bits inp off n)))
    (fun _ => fail_frame 1 s).
Proof. exact int_word. Qed.
Check C06_int : forall s inp off, cursor s inp off ->
  behaves (with_size (fun n => with_order (read_signed n)) s)
    (fun s' => exists c rest n, ds s = c :: rest /\ is_usize c n /\
       exists o, h_order (heap s) = Some o /\ (n <= 128)%Z /\
                 num_read s s' inp off n rest o (spec_int o (slice_bits inp off n)))
    (fun _ => fail_frame 1 s).

(* ---------- floats: fNle fNbe, fN, float.  The width must be 32 or 64 (otherwise the word
   fails with the float-length error and, like every failure, changes nothing); the pattern
   read is a function of the slice's bits alone ([fbits_of], = [spec_uint] by
   [C06_float_pattern]) ---------- *)
Theorem C06_float : forall s inp off, cursor s inp off -> forall fo n o,
  behaves (read_float fo n o s)
    (fun s' => exists pat, float_pat fo n o (slice_bits inp off n) pat /\
                           real_read s s' inp off n (ds s) o pat)
    (fun _ => fail_frame 0 s).
Proof. exact float_word. Qed.
Check C06_float : forall s inp off, cursor s inp off -> forall fo n o,
  behaves (read_float fo n o s)
    (fun s' => exists pat, float_pat fo n o (slice_bits inp off n) pat /\
                           real_read s s' inp off n (ds s) o pat)
    (fun _ => fail_frame 0 s).

Theorem C06_float_cur : forall s inp off, cursor s inp off -> forall fo n,
  behaves (with_order (read_float fo n) s)
    (fun s' => exists o, h_order (heap s) = Some o /\
               exists pat, float_pat fo n o (slice_bits inp off n) pat /\
                           real_read s s' inp off n (ds s) o pat)
    (fun _ => fail_frame 0 s).
Proof. exact float_cur_word. Qed.
Check C06_float_cur : forall s inp off, cursor s inp off -> forall fo n,
  behaves (with_order (read_float fo n) s)
    (fun s' => exists o, h_order (heap s) = Some o /\
               exists pat, float_pat fo n o (slice_bits inp off n) pat /\
                           real_read s s' inp off n (ds s) o pat)
    (fun _ => fail_frame 0 s).

Theorem C06_floatn : forall s inp off, cursor s inp off -> forall fo,
  behaves (with_size (fun n => with_order (read_float fo n)) s)
    (fun s' => exists c rest n, ds s = c :: rest /\ is_usize c n /\
       exists o, h_order (heap s) = Some o /\
       exists pat, float_pat fo n o (slice_bits inp off n) pat /\
                   real_read s s' inp off n rest o pat)
    (fun _ => fail_frame 1 s).
Proof. exact floatn_word. Qed.
Check C06_floatn : forall s inp off, cursor s inp off -> forall fo,
  behaves (with_size (fun n => with_order (read_float fo n)) s)
    (fun s' => exists c rest n, ds s = c :: rest /\ is_usize c n /\
       exists o, h_order (heap s) = Some o /\
       exists pat, float_pat fo n o (slice_bits inp off n) pat /\
                   real_read s s' inp off n rest o pat)
    (fun _ => fail_frame 1 s).

Theorem C06_float_pattern : forall k o l, length l = 8 * k -> fbits_of k o l = spec_uint o l.
Proof. exact fbits_of_spec. Qed.
Check C06_float_pattern : forall k o l, length l = 8 * k -> fbits_of k o l = spec_uint o l.

(* ---------- magic: the bits read are the pattern's bits; a mismatch is a failure ---------- *)
Theorem C06_magic : forall s inp off, cursor s inp off ->
  behaves (w_magic s)
    (fun s' => exists c rest pat, ds s = c :: rest /\ value c = CBits pat /\
       bits_read s s' inp off (Z.of_nat (clen pat)) rest /\
       eq_with (sub inp off (Z.of_nat (clen pat))) pat = true /\
       (wf pat -> slice_bits inp off (Z.of_nat (clen pat)) = abs pat))
    (fun _ => fail_frame 1 s).
Proof. exact magic_word'. Qed.
Check C06_magic : forall s inp off, cursor s inp off ->
  behaves (w_magic s)
    (fun s' => exists c rest pat, ds s = c :: rest /\ value c = CBits pat /\
       bits_read s s' inp off (Z.of_nat (clen pat)) rest /\
       eq_with (sub inp off (Z.of_nat (clen pat))) pat = true /\
       (wf pat -> slice_bits inp off (Z.of_nat (clen pat)) = abs pat))
    (fun _ => fail_frame 1 s).

(* ---------- nulbytestr / cstr: the number of bits consumed ([nul_bits]: up to and including
   the first zero byte) and the characters ([cstr_of]) are functions of the remaining bits ---------- *)
Theorem C06_nulbytestr : forall s inp off, cursor s inp off ->
  behaves (w_nulbytestr s)
    (fun s' => bits_read s s' inp off (Z.of_nat (nul_bits (rest_of inp off))) (ds s))
    (fun _ => fail_frame 0 s).
Proof. exact nulbytestr_word'. Qed.
Check C06_nulbytestr : forall s inp off, cursor s inp off ->
  behaves (w_nulbytestr s)
    (fun s' => bits_read s s' inp off (Z.of_nat (nul_bits (rest_of inp off))) (ds s))
    (fun _ => fail_frame 0 s).

Theorem C06_cstr : forall s inp off, cursor s inp off ->
  behaves (w_cstr s)
    (fun s' => let n := Z.of_nat (nul_bits (rest_of inp off)) in
               read_done s s' inp off n (ds s) (CStr (cstr_of (slice_bits inp off n))) /\
               cursor s' inp (off + n))
    (fun _ => fail_frame 0 s).
Proof. exact cstr_word'. Qed.
Check C06_cstr : forall s inp off, cursor s inp off ->
  behaves (w_cstr s)
    (fun s' => let n := Z.of_nat (nul_bits (rest_of inp off)) in
               read_done s s' inp off n (ds s) (CStr (cstr_of (slice_bits inp off n))) /\
               cursor s' inp (off + n))
    (fun _ => fail_frame 0 s).

(* ---------- when a read succeeds: inside the input, within the width limit, room on the stack ---------- *)
Theorem C06_read_bits_succeeds : forall s inp off, cursor s inp off ->
  limit_reached (stack_limit s) (length (ds s)) = false ->
  forall n, (0 <= n)%Z -> (off + n <= Z.of_nat (cend inp))%Z ->
  exists s', read_bits n s = ROk tt s'.
Proof. exact read_bits_succeeds. Qed.
Check C06_read_bits_succeeds : forall s inp off, cursor s inp off ->
  limit_reached (stack_limit s) (length (ds s)) = false ->
  forall n, (0 <= n)%Z -> (off + n <= Z.of_nat (cend inp))%Z ->
  exists s', read_bits n s = ROk tt s'.

Theorem C06_read_unsigned_succeeds : forall s inp off, cursor s inp off ->
  limit_reached (stack_limit s) (length (ds s)) = false ->
  forall n o, (0 <= n <= 127)%Z -> (off + n <= Z.of_nat (cend inp))%Z ->
  exists s', read_unsigned n o s = ROk tt s'.
Proof. exact read_unsigned_succeeds. Qed.
Check C06_read_unsigned_succeeds : forall s inp off, cursor s inp off ->
  limit_reached (stack_limit s) (length (ds s)) = false ->
  forall n o, (0 <= n <= 127)%Z -> (off + n <= Z.of_nat (cend inp))%Z ->
  exists s', read_unsigned n o s = ROk tt s'.

Theorem C06_read_signed_succeeds : forall s inp off, cursor s inp off ->
  limit_reached (stack_limit s) (length (ds s)) = false ->
  forall n o, (0 <= n <= 128)%Z -> (off + n <= Z.of_nat (cend inp))%Z ->
  exists s', read_signed n o s = ROk tt s'.
Proof. exact read_signed_succeeds. Qed.
Check C06_read_signed_succeeds : forall s inp off, cursor s inp off ->
  limit_reached (stack_limit s) (length (ds s)) = false ->
  forall n o, (0 <= n <= 128)%Z -> (off + n <= Z.of_nat (cend inp))%Z ->
  exists s', read_signed n o s = ROk tt s'.

Theorem C06_read_float_succeeds : forall s inp off, cursor s inp off ->
  limit_reached (stack_limit s) (length (ds s)) = false ->
  forall fo n o, n = 32%Z \/ n = 64%Z -> (off + n <= Z.of_nat (cend inp))%Z ->
  exists s', read_float fo n o s = ROk tt s'.
Proof. exact read_float_succeeds. Qed.
Check C06_read_float_succeeds : forall s inp off, cursor s inp off ->
  limit_reached (stack_limit s) (length (ds s)) = false ->
  forall fo n o, n = 32%Z \/ n = 64%Z -> (off + n <= Z.of_nat (cend inp))%Z ->
  exists s', read_float fo n o s = ROk tt s'.

(* ---------- (b): the named failures, exactly ---------- *)
(* a read past the end (or of a negative count): the read error; the state is untouched *)
Theorem C06_read_past_end : forall s inp off, cursor s inp off -> forall n,
  ~ ((0 <= n)%Z /\ (off + n <= Z.of_nat (cend inp))%Z) ->
  read_bits n s = RErr ERead None s /\
  (forall o, read_unsigned n o s = RErr ERead None s) /\
  (forall o, read_signed n o s = RErr ERead None s) /\
  (forall fo o, read_float fo n o s = RErr ERead None s).
Proof. exact read_past_end. Qed.
Check C06_read_past_end : forall s inp off, cursor s inp off -> forall n,
  ~ ((0 <= n)%Z /\ (off + n <= Z.of_nat (cend inp))%Z) ->
  read_bits n s = RErr ERead None s /\
  (forall o, read_unsigned n o s = RErr ERead None s) /\
  (forall o, read_signed n o s = RErr ERead None s) /\
  (forall fo o, read_float fo n o s = RErr ERead None s).

(* the documented width limits: uint beyond 127 bits, int beyond 128 bits *)
Theorem C06_read_too_wide : forall s inp off, cursor s inp off -> forall n o,
  (0 <= n)%Z -> (off + n <= Z.of_nat (cend inp))%Z ->
  ((127 < n)%Z -> read_unsigned n o s = RErr EOverflow None s) /\
  ((128 < n)%Z -> read_signed n o s = RErr EOverflow None s).
Proof. exact read_too_wide. Qed.
Check C06_read_too_wide : forall s inp off, cursor s inp off -> forall n o,
  (0 <= n)%Z -> (off + n <= Z.of_nat (cend inp))%Z ->
  ((127 < n)%Z -> read_unsigned n o s = RErr EOverflow None s) /\
  ((128 < n)%Z -> read_signed n o s = RErr EOverflow None s).

Theorem C06_float_bad_length : forall s inp off, cursor s inp off -> forall fo n o,
  (0 <= n)%Z -> (off + n <= Z.of_nat (cend inp))%Z -> n <> 32%Z -> n <> 64%Z ->
  read_float fo n o s = RErr EFloatLen None s.
Proof. exact float_bad_length. Qed.
Check C06_float_bad_length : forall s inp off, cursor s inp off -> forall fo n o,
  (0 <= n)%Z -> (off + n <= Z.of_nat (cend inp))%Z -> n <> 32%Z -> n <> 64%Z ->
  read_float fo n o s = RErr EFloatLen None s.

Theorem C06_seek_out_of_range : forall s inp off, cursor s inp off -> forall c rest n,
  ds s = c :: rest -> ds_len (cx s) < length (ds s) -> is_usize c n ->
  ~ (Z.of_nat (cstart inp) <= n <= Z.of_nat (cend inp))%Z ->
  exists s', w_seek s = RErr ESeek None s' /\ ds s' = rest /\ heap s' = heap s /\ sim s s'.
Proof. exact seek_out_of_range. Qed.
Check C06_seek_out_of_range : forall s inp off, cursor s inp off -> forall c rest n,
  ds s = c :: rest -> ds_len (cx s) < length (ds s) -> is_usize c n ->
  ~ (Z.of_nat (cstart inp) <= n <= Z.of_nat (cend inp))%Z ->
  exists s', w_seek s = RErr ESeek None s' /\ ds s' = rest /\ heap s' = heap s /\ sim s s'.

Theorem C06_magic_mismatch : forall s inp off, cursor s inp off -> forall c rest pat,
  ds s = c :: rest -> ds_len (cx s) < length (ds s) -> value c = CBits pat ->
  (off + Z.of_nat (clen pat) <= Z.of_nat (cend inp))%Z ->
  eq_with (sub inp off (Z.of_nat (clen pat))) pat = false ->
  exists s', w_magic s = RErr EMatch None s' /\ ds s' = rest /\ heap s' = heap s /\ sim s s'.
Proof. exact magic_mismatch. Qed.
Check C06_magic_mismatch : forall s inp off, cursor s inp off -> forall c rest pat,
  ds s = c :: rest -> ds_len (cx s) < length (ds s) -> value c = CBits pat ->
  (off + Z.of_nat (clen pat) <= Z.of_nat (cend inp))%Z ->
  eq_with (sub inp off (Z.of_nat (clen pat))) pat = false ->
  exists s', w_magic s = RErr EMatch None s' /\ ds s' = rest /\ heap s' = heap s /\ sim s s'.

(* ---------- (b) as the plain frame property, for every error kind ---------- *)
(* every parsing word except open-bitstr / close-bitstr, by name: after any failure the heap is
   the same heap - so input and offset are what they were - and at most one argument is gone *)
Theorem C06_fail_frame : forall fo,
  Forall (fun nw => forall s inp off k p s', cursor s inp off -> snd nw s = RErr k p s' ->
            heap s' = heap s /\ h_input (heap s') = Some inp /\ h_offset (heap s') = Some off /\
            cursor s' inp off /\ sim s s' /\
            exists args, ds s = (args ++ ds s')%list /\ length args <= 1)
         (plain_table fo).
Proof. exact plain_table_fail_keeps. Qed.
Check C06_fail_frame : forall fo,
  Forall (fun nw => forall s inp off k p s', cursor s inp off -> snd nw s = RErr k p s' ->
            heap s' = heap s /\ h_input (heap s') = Some inp /\ h_offset (heap s') = Some off /\
            cursor s' inp off /\ sim s s' /\
            exists args, ds s = (args ++ ds s')%list /\ length args <= 1)
         (plain_table fo).

(* all parsing words, open-bitstr / close-bitstr included, on the full invariant *)
Theorem C06_fail_frame_all : forall fo,
  Forall (fun nw => forall s k p s', cur_inv s -> snd nw s = RErr k p s' -> fail_frame 1 s s')
         (cursor_table fo).
Proof. exact cursor_table_frame. Qed.
Check C06_fail_frame_all : forall fo,
  Forall (fun nw => forall s k p s', cur_inv s -> snd nw s = RErr k p s' -> fail_frame 1 s s')
         (cursor_table fo).

(* the reading cores, for every width and order: nothing popped, heap untouched *)
Theorem C06_fail_keeps_state : forall s inp off k p s', cursor s inp off ->
  (forall n, read_bits n s = RErr k p s' -> fail_frame 0 s s') /\
  (forall n o, read_unsigned n o s = RErr k p s' -> fail_frame 0 s s') /\
  (forall n o, read_signed n o s = RErr k p s' -> fail_frame 0 s s') /\
  (forall fo n o, read_float fo n o s = RErr k p s' -> fail_frame 0 s s').
Proof. exact fail_keeps_offset. Qed.
Check C06_fail_keeps_state : forall s inp off k p s', cursor s inp off ->
  (forall n, read_bits n s = RErr k p s' -> fail_frame 0 s s') /\
  (forall n o, read_unsigned n o s = RErr k p s' -> fail_frame 0 s s') /\
  (forall n o, read_signed n o s = RErr k p s' -> fail_frame 0 s s') /\
  (forall fo n o, read_float fo n o s = RErr k p s' -> fail_frame 0 s s').

(* the statement that was refuted against the former model, now a theorem *)
Theorem C06_fail_keeps_offset : forall n o s inp off k p s', cursor s inp off ->
  read_unsigned n o s = RErr k p s' ->
  h_offset (heap s') = Some off /\ h_input (heap s') = Some inp.
Proof. exact fail_keeps_offset_unsigned. Qed.
Check C06_fail_keeps_offset : forall n o s inp off k p s', cursor s inp off ->
  read_unsigned n o s = RErr k p s' ->
  h_offset (heap s') = Some off /\ h_input (heap s') = Some inp.

(* the stack-limit case exactly: the result is refused and the state left behind IS the state
   before - nothing at all differs *)
Theorem C06_limit_refused : forall s inp off, cursor s inp off -> forall n,
  limit_reached (stack_limit s) (length (ds s)) = true ->
  (0 <= n)%Z -> (off + n <= Z.of_nat (cend inp))%Z ->
  read_bits n s = RErr ELimit None s /\
  ((n <= 127)%Z -> forall o, read_unsigned n o s = RErr ELimit None s) /\
  ((n <= 128)%Z -> forall o, read_signed n o s = RErr ELimit None s) /\
  (n = 32%Z \/ n = 64%Z -> forall fo o, read_float fo n o s = RErr ELimit None s).
Proof. exact limit_refused. Qed.
Check C06_limit_refused : forall s inp off, cursor s inp off -> forall n,
  limit_reached (stack_limit s) (length (ds s)) = true ->
  (0 <= n)%Z -> (off + n <= Z.of_nat (cend inp))%Z ->
  read_bits n s = RErr ELimit None s /\
  ((n <= 127)%Z -> forall o, read_unsigned n o s = RErr ELimit None s) /\
  ((n <= 128)%Z -> forall o, read_signed n o s = RErr ELimit None s) /\
  (n = 32%Z \/ n = 64%Z -> forall fo o, read_float fo n o s = RErr ELimit None s).

(* the former witness (stack of one cell at its limit 1, input |ab cd ef| sliced to [3, 19),
   offset 3): u8be is refused and the offset stays at 3 *)
Theorem C06_limit_keeps_offset_witness :
  read_unsigned 8 Big lim_state = RErr ELimit None lim_state /\
  h_offset (heap lim_state) = Some 3%Z.
Proof. exact limit_keeps_offset. Qed.
Check C06_limit_keeps_offset_witness :
  read_unsigned 8 Big lim_state = RErr ELimit None lim_state /\
  h_offset (heap lim_state) = Some 3%Z.

(* ---------- (c): seek, remain, find ---------- *)
Theorem C06_seek : forall s inp off, cursor s inp off ->
  behaves (w_seek s)
    (fun s' => exists c rest n, ds s = c :: rest /\ is_usize c n /\
       (Z.of_nat (cstart inp) <= n <= Z.of_nat (cend inp))%Z /\
       ds s' = rest /\ heap s' = list_set (heap s) R_OFFSET (cint n) /\ sim s s' /\
       cursor s' inp n)
    (fun _ => fail_frame 1 s).
Proof. exact seek_word'. Qed.
Check C06_seek : forall s inp off, cursor s inp off ->
  behaves (w_seek s)
    (fun s' => exists c rest n, ds s = c :: rest /\ is_usize c n /\
       (Z.of_nat (cstart inp) <= n <= Z.of_nat (cend inp))%Z /\
       ds s' = rest /\ heap s' = list_set (heap s) R_OFFSET (cint n) /\ sim s s' /\
       cursor s' inp n)
    (fun _ => fail_frame 1 s).

Theorem C06_remain : forall s inp off, cursor s inp off ->
  behaves (w_remain s)
    (fun s' => ds s' = cint (Z.of_nat (cend inp) - off) :: ds s /\ heap s' = heap s /\ sim s s')
    (fun _ => fail_frame 0 s).
Proof. exact remain_word'. Qed.
Check C06_remain : forall s inp off, cursor s inp off ->
  behaves (w_remain s)
    (fun s' => ds s' = cint (Z.of_nat (cend inp) - off) :: ds s /\ heap s' = heap s /\ sim s s')
    (fun _ => fail_frame 0 s).

Theorem C06_find : forall s inp off, cursor s inp off ->
  behaves (w_find s)
    (fun s' => exists c rest pat r, ds s = c :: rest /\ value c = CBits pat /\
       ds s' = r :: rest /\ heap s' = heap s /\ sim s s' /\
       (r = CNil \/ exists p, r = cint p /\ (off <= p <= Z.of_nat (cend inp))%Z))
    (fun _ => fail_frame 1 s).
Proof. exact find_word'. Qed.
Check C06_find : forall s inp off, cursor s inp off ->
  behaves (w_find s)
    (fun s' => exists c rest pat r, ds s = c :: rest /\ value c = CBits pat /\
       ds s' = r :: rest /\ heap s' = heap s /\ sim s s' /\
       (r = CNil \/ exists p, r = cint p /\ (off <= p <= Z.of_nat (cend inp))%Z))
    (fun _ => fail_frame 1 s).

(* ---------- (c): the invariant is kept by every parsing word, in every outcome ---------- *)
Theorem C06_invariant : forall fo,
  Forall (fun nw => forall s, cur_inv s -> behaves (snd nw s) cur_inv (fun _ => cur_inv))
         (cursor_table fo).
Proof. exact cursor_table_inv. Qed.
Check C06_invariant : forall fo,
  Forall (fun nw => forall s, cur_inv s -> behaves (snd nw s) cur_inv (fun _ => cur_inv))
         (cursor_table fo).

(* words other than open-bitstr / close-bitstr never change the input or the stash *)
Theorem C06_plain_words : forall fo,
  Forall (fun nw => forall s, cur_inv s ->
            behaves (snd nw s)
                    (fun s' => h_input (heap s') = h_input (heap s) /\ h_stash (heap s') = h_stash (heap s))
                    (fun _ s' => h_input (heap s') = h_input (heap s) /\ h_stash (heap s') = h_stash (heap s)))
         (plain_table fo).
Proof. exact plain_table_keeps. Qed.
Check C06_plain_words : forall fo,
  Forall (fun nw => forall s, cur_inv s ->
            behaves (snd nw s)
                    (fun s' => h_input (heap s') = h_input (heap s) /\ h_stash (heap s') = h_stash (heap s))
                    (fun _ s' => h_input (heap s') = h_input (heap s) /\ h_stash (heap s') = h_stash (heap s)))
         (plain_table fo).

(* any sequence of parsing words and literals, run the way the test harness runs it (after an
   error, go on from the state the failing word left): it never panics, never leaves the
   model, and the invariant holds at the end (hence after every prefix) *)
Theorem C06_sequence : forall fo l s, cur_inv s -> Forall cop_ok l ->
  exists t s', run_seq fo l s = Some (t, s') /\ cur_inv s'.
Proof. exact seq_inv. Qed.
Check C06_sequence : forall fo l s, cur_inv s -> Forall cop_ok l ->
  exists t s', run_seq fo l s = Some (t, s') /\ cur_inv s'.

(* ---------- (d): open pushes (input, offset) on the stash, close pops and restores ---------- *)
Theorem C06_open : forall s, cur_inv s ->
  behaves (w_open_bitstr s)
    (fun s' => exists inp off c rest b v e,
       cursor s inp off /\ h_stash (heap s) = Some v /\ ds s = c :: rest /\ value c = CBits b /\
       cur_inv s' /\ cursor s' b (Z.of_nat (cstart b)) /\ h_stash (heap s') = Some (v ++ [e]) /\
       entry_input e = Some inp /\ entry_offset e = Some off /\ ds s' = rest)
    (fun _ s' => cur_inv s' /\ h_input (heap s') = h_input (heap s) /\
                 h_stash (heap s') = h_stash (heap s)).
Proof. exact open_inv. Qed.
Check C06_open : forall s, cur_inv s ->
  behaves (w_open_bitstr s)
    (fun s' => exists inp off c rest b v e,
       cursor s inp off /\ h_stash (heap s) = Some v /\ ds s = c :: rest /\ value c = CBits b /\
       cur_inv s' /\ cursor s' b (Z.of_nat (cstart b)) /\ h_stash (heap s') = Some (v ++ [e]) /\
       entry_input e = Some inp /\ entry_offset e = Some off /\ ds s' = rest)
    (fun _ s' => cur_inv s' /\ h_input (heap s') = h_input (heap s) /\
                 h_stash (heap s') = h_stash (heap s)).

Theorem C06_close : forall s, cur_inv s ->
  behaves (w_close_bitstr s)
    (fun s' => exists v e b o,
       h_stash (heap s) = Some (v ++ [e]) /\ entry_input e = Some b /\ entry_offset e = Some o /\
       cur_inv s' /\ cursor s' b o /\ h_stash (heap s') = Some v /\ ds s' = ds s)
    (fun _ s' => h_stash (heap s) = Some [] /\
                 cur_inv s' /\ h_input (heap s') = h_input (heap s) /\
                 h_stash (heap s') = h_stash (heap s)).
Proof. exact close_inv. Qed.
Check C06_close : forall s, cur_inv s ->
  behaves (w_close_bitstr s)
    (fun s' => exists v e b o,
       h_stash (heap s) = Some (v ++ [e]) /\ entry_input e = Some b /\ entry_offset e = Some o /\
       cur_inv s' /\ cursor s' b o /\ h_stash (heap s') = Some v /\ ds s' = ds s)
    (fun _ s' => h_stash (heap s) = Some [] /\
                 cur_inv s' /\ h_input (heap s') = h_input (heap s) /\
                 h_stash (heap s') = h_stash (heap s)).

(* LIFO over sequences.  The trace [t] of [run_seq] records per executed step whether it was a
   successful open ([EvOpen]), a successful close ([EvClose]) or anything else ([EvPlain]:
   every other word, every literal, every failing word).  A balanced stretch leaves input and
   stash as they were; an open, a balanced stretch, a close restore input, offset and stash
   exactly. *)
Theorem C06_balanced : forall fo t, bal t -> forall l s s', cur_inv s -> Forall cop_ok l ->
  run_seq fo l s = Some (t, s') ->
  h_input (heap s') = h_input (heap s) /\ h_stash (heap s') = h_stash (heap s).
Proof. exact bal_keeps. Qed.
Check C06_balanced : forall fo t, bal t -> forall l s s', cur_inv s -> Forall cop_ok l ->
  run_seq fo l s = Some (t, s') ->
  h_input (heap s') = h_input (heap s) /\ h_stash (heap s') = h_stash (heap s).

Theorem C06_close_open : forall fo l s t s', cur_inv s -> Forall cop_ok l ->
  run_seq fo l s = Some (EvOpen :: t ++ [EvClose], s') -> bal t ->
  h_input (heap s') = h_input (heap s) /\ h_offset (heap s') = h_offset (heap s) /\
  h_stash (heap s') = h_stash (heap s).
Proof. exact close_open. Qed.
Check C06_close_open : forall fo l s t s', cur_inv s -> Forall cop_ok l ->
  run_seq fo l s = Some (EvOpen :: t ++ [EvClose], s') -> bal t ->
  h_input (heap s') = h_input (heap s) /\ h_offset (heap s') = h_offset (heap s) /\
  h_stash (heap s') = h_stash (heap s).

(* ---------- non-vacuity ---------- *)
(* the input is bits [3, 19) of |ab cd ef| (stale bits before and after), the offset 5 is in
   the middle of a byte, the byte order is big; 7 and 99 are on the stack *)
Definition ex_inp : cbs := mkcbs 3 19 [171; 205; 239]%N.
Definition ex_state (d : list cell) : state :=
  mkstate [] [CInt 1; CBits ex_inp; CInt 5; CVec []; CNil; CInt 0]
          [] [] [] [] d [] [] [] [] ctx0 [] 0%Z None None None None EmptyString None false.

Example C06_nonvacuous :
  let s := ex_state [CInt 7; CInt 99] in
  cursor s ex_inp 5 /\ cur_inv s /\
  (* `7 bits`: bits [5, 12) = 0111100, offset 12, 99 still below *)
  (exists s', with_size read_bits s = ROk tt s' /\
              ds s' = [CBits (mkcbs 5 12 [171; 205; 239]%N); CInt 99] /\
              abs (mkcbs 5 12 [171; 205; 239]%N) = [false; true; true; true; true; false; false] /\
              slice_bits ex_inp 5 7 = [false; true; true; true; true; false; false] /\
              h_offset (heap s') = Some 12%Z /\ h_input (heap s') = Some ex_inp) /\
  (* `7 uint` = 0b0111100 = 60 *)
  (exists s', with_size (fun n => with_order (read_unsigned n)) s = ROk tt s' /\
              map value (ds s') = [CInt 60; CInt 99] /\ h_offset (heap s') = Some 12%Z) /\
  (* `20 bits`: past the end; input and offset untouched, the argument popped *)
  (exists s', with_size read_bits (ex_state [CInt 20; CInt 99]) = RErr ERead None s' /\
              ds s' = [CInt 99] /\ heap s' = heap s) /\
  (* `2^64 bits` and `-1 bits`: argument errors, same frame *)
  (exists s', with_size read_bits (ex_state [CInt (2 ^ 64); CInt 99]) = RErr EOverflow None s' /\
              ds s' = [CInt 99] /\ heap s' = heap s).
Proof.
  cbv zeta. split; [|split; [|split; [|split; [|split]]]].
  - split; [reflexivity|]. unfold hcursor. cbn [ex_state heap].
    split; [cbn; lia|]. split; [reflexivity|]. split; [reflexivity|]. split.
    + split; [cbn; lia|]. split; [cbn; lia|]. repeat constructor.
    + split; [reflexivity|]. cbn. lia.
  - split; [|split].
    + exists ex_inp, 5%Z. split; [reflexivity|]. unfold hcursor. cbn [ex_state heap].
      split; [cbn; lia|]. split; [reflexivity|]. split; [reflexivity|]. split.
      * split; [cbn; lia|]. split; [cbn; lia|]. repeat constructor.
      * split; [reflexivity|]. cbn. lia.
    + exists []. split; [reflexivity|constructor].
    + constructor; [intros b Hb; discriminate|constructor; [intros b Hb; discriminate|constructor]].
  - eexists. split; [vm_compute; reflexivity|]. repeat split.
  - eexists. split; [vm_compute; reflexivity|]. repeat split.
  - eexists. split; [vm_compute; reflexivity|]. repeat split.
  - eexists. split; [vm_compute; reflexivity|]. repeat split.
Qed.

(* nested open/close with failing words in between: the harness run has a balanced trace and
   ends with the original input and offset *)
Example C06_lifo_nonvacuous : forall fo,
  let s := ex_state [] in
  let inner := CBits (mkcbs 4 12 [255; 15]%N) in
  exists s',
    run_seq fo [Lit inner; Word "open-bitstr"; Lit (CInt 3); Word "bits"; Lit (CInt 999); Word "bits";
                Lit inner; Word "open-bitstr"; Word "u8"; Word "close-bitstr";
                Word "remain"; Word "close-bitstr"]%string s
    = Some ([EvPlain; EvOpen; EvPlain; EvPlain; EvPlain; EvPlain;
             EvPlain; EvOpen; EvPlain; EvClose; EvPlain; EvClose], s') /\
    h_input (heap s') = Some ex_inp /\ h_offset (heap s') = Some 5%Z /\ h_stash (heap s') = Some [] /\
    map value (ds s') = [CInt 5; CInt 240; CBits (mkcbs 4 7 [255; 15]%N)].
Proof. intro fo. cbv zeta. eexists. split; [vm_compute; reflexivity|]. repeat split. Qed.
