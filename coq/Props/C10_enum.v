(* C10, continuation: `enum ... endenum`.

   The enum builder adds two situations to the ones the watch [calls_bad] (Proofs/UnwindMain.v,
   [bad_word] / [native_bad] of Proofs/UnwindBuild.v) reports, i.e. that the hypothesis
   [calls_bad ... = false] of C10_rejected_source_restores and its companions excludes:
   - [enum_close_bad]: `endenum` is met in a state in which the block it closes first returns to a
     context that is not a meta context (needed by C15: finding E3, Props/C15_enum.v);
   - [enum_field_bad]: a field word is met while the enum entry is not pending in a meta context
     (possible only when the enum was not opened by the same source).
   The statements of Props/C10.v are textually unchanged.

   NOT reported any more: `endenum` whose second close runs code that the enum's outer context
   still holds.  That was finding E2 / D37: a failing run inside context_close left the context
   stack popped, and the unwinding of the rejected source cut at the wrong marks.  After the
   repair (the popped context is put back) the restoration theorem covers such sources; the
   former counterexample is now an instance of it, below. *)
From Xeh Require Import Model.Prelude Model.Bits Model.Codec Model.Cell Model.Lexer Model.Fmt
                        Model.Vm Model.Words Model.Build Model.Boot.
From Xeh Require Import Proofs.VmLimits Proofs.NoPanicBuild Proofs.UnwindLists Proofs.UnwindFrame Proofs.UnwindInv
                        Proofs.UnwindBuild Proofs.UnwindMain Proofs.UnwindWitness
                        Proofs.MetaBase Proofs.MetaPurge Proofs.MetaBuild Proofs.MetaClose Proofs.MetaPrefix
                        Proofs.MetaBlock Proofs.MetaSeg Proofs.MetaInline Proofs.MetaFindings Proofs.EnumWitness.
Local Notation length := List.length.
Local Open Scope string_scope.
Local Open Scope list_scope.

(* the former witness of E2: rejected, and unwound completely *)
Theorem C10_enum_close_repaired :
  build_wf boot /\
  (context_open MEval ;; intern_source e2_src) boot = ROk tt (wit_opened e2_src boot) /\
  wit_built e2_src boot = RErr EDivZero None (wit_state (wit_built e2_src boot)) /\
  calls_bad wit_fo wit_pr wit_rf (length (dict boot)) wit_fuel
            (length (nested (wit_opened e2_src boot))) (wit_opened e2_src boot) = false /\
  eval wit_fo wit_pr wit_rf wit_fuel e2_src boot = RErr EDivZero None (wit_unwound e2_src boot) /\
  dict_entry (wit_unwound e2_src boot) "f" = None /\
  same_machine boot (wit_unwound e2_src boot).
Proof. exact enum_close_repaired. Qed.
Check C10_enum_close_repaired :
  build_wf boot /\
  (context_open MEval ;; intern_source e2_src) boot = ROk tt (wit_opened e2_src boot) /\
  wit_built e2_src boot = RErr EDivZero None (wit_state (wit_built e2_src boot)) /\
  calls_bad wit_fo wit_pr wit_rf (length (dict boot)) wit_fuel
            (length (nested (wit_opened e2_src boot))) (wit_opened e2_src boot) = false /\
  eval wit_fo wit_pr wit_rf wit_fuel e2_src boot = RErr EDivZero None (wit_unwound e2_src boot) /\
  dict_entry (wit_unwound e2_src boot) "f" = None /\
  same_machine boot (wit_unwound e2_src boot).
