(* C11 - placeholder: theorems are added with Proofs/BuildProofs.v *)
From Xeh Require Import Model.Prelude Model.Vm.

Theorem C11_next_stopped : forall nf s, is_running s = false -> next nf s = ROk tt s.
Proof. intros nf s H. unfold next. rewrite H. reflexivity. Qed.
Check C11_next_stopped : forall nf s, is_running s = false -> next nf s = ROk tt s.
