(* C11 - meta blocks `#( e #)` and the compiler front end (Model/Build.v).

   Property: a program containing a meta block behaves like the program with the block replaced
   by the literal value(s) it evaluates to; the block cannot see or change the surrounding data
   stack or any variable; after it closes only the constants it defined remain; compiling a
   source executes nothing outside its meta blocks.

   Vocabulary (definitions in Proofs/Meta*.v, imported below):
   - [is_meta s]: the current context of s is a meta context.  [wfm s]: every stack is at least
     as long as its mark in the current context.  [mpre s] = both.
   - [keeps n l l']: the last n cells of stack l (the part below mark n) are the last n of l'.
   - [sealed s s']: heap, context stack and all marks of the current context unchanged (only the
     instruction pointer may move) and every stack (data, return, loop, special, flow) keeps
     what is below its mark.
   - [opened s]: the state after `#(`.  [results s]: the cells above the data mark, top first.
     [close_state s1 prev]: the state after `#)`, computed from the state s1 the block's code ran
     to: code / debug map cut to the code mark, dictionary purged from the dictionary mark
     ([purge_all]), one load-literal instruction per result when [emit_flag s1 prev], context prev.
   - [rpatch c c']: c' is c except where a late-bound call OResolve was resolved in place.
     [cpatch d d']: d' is d except where `const` overwrote the value of an existing constant.
   - [Pre2 cs di s]: invariant of a state inside a meta context with code mark cs and dictionary
     mark di (marks reached, debug map covers the code, every pending control structure points at
     or above the marks).  [R2 cs di s s'] = [sealed] + code / debug map / dictionary below the
     marks unchanged up to [rpatch] / [cpatch] + the invariant again.
   - [tstep f s s']: build1 processes one token (runs pending code in meta mode, reads the token,
     acts on it) THAT IS NOT A WORD OF THE ENUM BUILDER ([enum_tok] = false: `enum`, `endenum` and
     the two field words `:` / `=` of an open enum perform two context operations at once -
     open+open, close+open, close+close - so the classification "same context / opens a block /
     closes the block" of a token step does not apply to them; witness C11_enum_step_not_classified
     in Props/C11_enum.v).  [enum_free fuel s]: no token that build1 reads from s on is such a
     word; it is the hypothesis under which a successful build is a chain of token steps.
     `enum ... endenum` as a whole is characterised in Props/C11_enum.v.  [anystep] = some f.  [bpath d s x]: x is reached from s by token steps that
     never go below context depth d.  [seg s x]: such a sequence with balanced nested blocks.
   - [Pre5 s] / [R5 s s']: the same for a context that is NOT a meta context, with no
     user-defined immediate word in the dictionary: data stack, context, context stack unchanged,
     heap extended by nil cells only.
   - [sw h' s]: s with the hidden part of the data stack (its last [length h'] cells) replaced
     by h'.  [comm h' m]: m (sw h' s) = res_map (sw h') (m s) whenever the mark is [length h'].

   FINDINGS (model behaviour, checked against the implementation, that contradicts the text):
   1. `.s` prints the whole data stack, including the part hidden from the block.
   2. A block nested directly in a block shares the enclosing block's data stack (the mark is
      inherited): it sees (`depth`) and can consume (`drop`) the values computed so far.
   3. A block inside a word definition inside a block compiles ALL values above the inherited
      mark into the definition - also those the enclosing block computed before the definition.
   4. (D18) A block nested in a block is not compiled in place unless a word is being defined:
      its values are pushed at once.  Inside a pending builder ( [ ] , if, do ... ) of the
      enclosing block they therefore arrive before the values around them: `#( [ 1 #( 2 #) 3 ] #)`
      is `[ 1 3 ] 2`.  Exact condition: [emit_flag] = enclosing context is not a meta context,
      or the top pending entry of the enclosing context is a definition.
   5. Several results are compiled last-result-first at top level but stay in order when the
      enclosing context is a meta context.
   6. The purge does not keep the definition order of the constants (swap_remove).
   Code and dictionary before the block can change in two benign ways ([rpatch], [cpatch]).
   NOT proved: the literal equation "eval = compile followed by run" (only: eval = quiet build
   phase, then run, C11_eval_phases); independence of the hidden stack is proved for
   native words, machine steps, runs and the immediate words of the builder separately, not
   for a whole token step in one statement. *)
From Xeh Require Import Model.Prelude Model.Bits Model.Codec Model.Cell Model.Lexer Model.Fmt
                        Model.Vm Model.Words Model.Build Model.Boot.
From Xeh Require Import Proofs.VmLimits Proofs.NoPanicBuild
                        Proofs.MetaBase Proofs.MetaPurge Proofs.MetaBuild Proofs.MetaClose Proofs.MetaPrefix
                        Proofs.MetaPrefixBuild Proofs.MetaPrefixWords Proofs.MetaBlock Proofs.MetaSeg
                        Proofs.MetaInline Proofs.MetaCompile Proofs.MetaCompile2 Proofs.MetaNI
                        Proofs.MetaNIWords Proofs.MetaNIBuild Proofs.MetaSummary Proofs.MetaFindings.
From Coq Require Import Permutation.
Local Notation length := List.length.
Local Open Scope string_scope.
Local Open Scope list_scope.

(* ================= 2. sealed variables ================= *)

(* in meta mode every read, store and allocation of a variable fails and changes nothing *)
Theorem C11_variables_sealed : forall s, is_meta s ->
  (forall a, get_var a s = RErr EConst None s) /\
  (forall a v, set_var a v s = RErr EConst None s) /\
  (forall v, alloc_heap v s = RErr EConst None s).
Proof. exact variables_sealed. Qed.
Check C11_variables_sealed : forall s, is_meta s ->
  (forall a, get_var a s = RErr EConst None s) /\
  (forall a v, set_var a v s = RErr EConst None s) /\
  (forall v, alloc_heap v s = RErr EConst None s).

(* ================= 1. + 2. the machine inside a meta context ================= *)

(* every native word: heap, contexts, marks unchanged, nothing below a mark touched *)
Theorem C11_native_word_sealed : forall fo w f, native_fn fo w = Some f ->
  forall s, mpre s -> res_all (sealed s) (f s).
Proof. exact native_word_sealed. Qed.
Check C11_native_word_sealed : forall fo w f, native_fn fo w = Some f ->
  forall s, mpre s -> res_all (sealed s) (f s).

Theorem C11_opcode_sealed : forall fo ip0 op s, mpre s ->
  res_all (sealed s) (exec_op (native_fn fo) ip0 op s).
Proof. exact opcode_sealed. Qed.
Check C11_opcode_sealed : forall fo ip0 op s, mpre s ->
  res_all (sealed s) (exec_op (native_fn fo) ip0 op s).

Theorem C11_machine_step_sealed : forall fo s, mpre s ->
  res_all (sealed s) (fetch_and_run (native_fn fo) s).
Proof. exact far_sealed. Qed.
Check C11_machine_step_sealed : forall fo s, mpre s ->
  res_all (sealed s) (fetch_and_run (native_fn fo) s).

Theorem C11_run_sealed : forall fo fuel s, mpre s ->
  match run (native_fn fo) fuel s with Some r => res_all (sealed s) r | None => True end.
Proof. exact run_sealed. Qed.
Check C11_run_sealed : forall fo fuel s, mpre s ->
  match run (native_fn fo) fuel s with Some r => res_all (sealed s) r | None => True end.

Theorem C11_steps_sealed : forall fo n s s', mpre s -> steps (native_fn fo) n s = Some s' -> sealed s s'.
Proof. exact steps_sealed. Qed.
Check C11_steps_sealed : forall fo n s s', mpre s -> steps (native_fn fo) n s = Some s' -> sealed s s'.

(* the builder: every immediate word of the table except the context words #( #) ~) and the four
   words of the enum builder ([ctx_word]), and user-defined immediate
   words (interpreted), and the run of pending code *)
Theorem C11_immediate_word_sealed : forall fo pr rf fuel name w,
  immediate_fn fo pr rf fuel name = Some w -> ctx_word name = false ->
  forall s, mpre s -> res_all (sealed s) (w s).
Proof. exact fps_immediate_fn. Qed.
Check C11_immediate_word_sealed : forall fo pr rf fuel name w,
  immediate_fn fo pr rf fuel name = Some w -> ctx_word name = false ->
  forall s, mpre s -> res_all (sealed s) (w s).

Theorem C11_user_immediate_sealed : forall fo pr rf fuel x s, mpre s ->
  res_all (sealed s) (run_immediate fo pr rf fuel (FInterp x) s).
Proof. exact fps_run_interp. Qed.
Check C11_user_immediate_sealed : forall fo pr rf fuel x s, mpre s ->
  res_all (sealed s) (run_immediate fo pr rf fuel (FInterp x) s).

(* the result of a machine step does not depend on the hidden cells - except through `.s` *)
Theorem C11_native_word_hidden_independent : forall h' fo w f,
  native_fn fo w = Some f -> w <> ".s" ->
  forall s, wfd h' s -> f (sw h' s) = res_map (sw h') (f s) /\ res_all (wfd h') (f s).
Proof. exact native_comm. Qed.
Check C11_native_word_hidden_independent : forall h' fo w f,
  native_fn fo w = Some f -> w <> ".s" ->
  forall s, wfd h' s -> f (sw h' s) = res_map (sw h') (f s) /\ res_all (wfd h') (f s).

Theorem C11_machine_step_hidden_independent : forall h' fo s, wfd h' s -> ~ shows_stack s ->
  fetch_and_run (native_fn fo) (sw h' s) = res_map (sw h') (fetch_and_run (native_fn fo) s) /\
  res_all (wfd h') (fetch_and_run (native_fn fo) s).
Proof. exact far_comm. Qed.
Check C11_machine_step_hidden_independent : forall h' fo s, wfd h' s -> ~ shows_stack s ->
  fetch_and_run (native_fn fo) (sw h' s) = res_map (sw h') (fetch_and_run (native_fn fo) s) /\
  res_all (wfd h') (fetch_and_run (native_fn fo) s).

(* whole runs of code that contains no call of `.s` and no late-bound call *)
Theorem C11_run_hidden_independent : forall h' fo fuel s, wfd h' s -> quiet_code (code s) ->
  run (native_fn fo) fuel (sw h' s) =
  match run (native_fn fo) fuel s with Some r => Some (res_map (sw h') r) | None => None end.
Proof. exact run_comm. Qed.
Check C11_run_hidden_independent : forall h' fo fuel s, wfd h' s -> quiet_code (code s) ->
  run (native_fn fo) fuel (sw h' s) =
  match run (native_fn fo) fuel s with Some r => Some (res_map (sw h') r) | None => None end.

(* the builder's own actions: every immediate word of the table except #( #) ~) *)
Theorem C11_immediate_word_hidden_independent : forall h' fo pr rf fuel name w,
  immediate_fn fo pr rf fuel name = Some w -> ctx_word name = false ->
  forall s, wfd h' s -> w (sw h' s) = res_map (sw h') (w s) /\ res_all (wfd h') (w s).
Proof. exact immediate_comm. Qed.
Check C11_immediate_word_hidden_independent : forall h' fo pr rf fuel name w,
  immediate_fn fo pr rf fuel name = Some w -> ctx_word name = false ->
  forall s, wfd h' s -> w (sw h' s) = res_map (sw h') (w s) /\ res_all (wfd h') (w s).

(* finding 1 *)
Theorem C11_hidden_stack_unobservable_refuted :
  (wfd [CInt 8] sm /\ w_display_stack (sw [CInt 8] sm) <> res_map (sw [CInt 8]) (w_display_stack sm)) /\
  out_of (ev "#( .s #)" s9) <> out_of (ev "#( .s #)" (set_ds s9 [CInt 8])).
Proof. exact hidden_stack_observable. Qed.
Check C11_hidden_stack_unobservable_refuted :
  (wfd [CInt 8] sm /\ w_display_stack (sw [CInt 8] sm) <> res_map (sw [CInt 8]) (w_display_stack sm)) /\
  out_of (ev "#( .s #)" s9) <> out_of (ev "#( .s #)" (set_ds s9 [CInt 8])).

(* ================= 3. opening and closing ================= *)

Theorem C11_open : forall s, context_open MMeta s = ROk tt (opened s).
Proof. exact context_open_meta. Qed.
Check C11_open : forall s, context_open MMeta s = ROk tt (opened s).

(* (b) the purge *)
Theorem C11_purge_dict : forall d di, di <= length d ->
  purge_dict (S (length d)) d di = firstn di d ++ purge_all (skipn di d) /\
  Forall (fun e => is_dconst e = true) (purge_all (skipn di d)) /\
  Permutation (purge_all (skipn di d)) (filter is_dconst (skipn di d)).
Proof. exact purge_dict_summary. Qed.
Check C11_purge_dict : forall d di, di <= length d ->
  purge_dict (S (length d)) d di = firstn di d ++ purge_all (skipn di d) /\
  Forall (fun e => is_dconst e = true) (purge_all (skipn di d)) /\
  Permutation (purge_all (skipn di d)) (filter is_dconst (skipn di d)).

Theorem C11_purge_keeps_order_when_constants_first : forall a b,
  Forall (fun e => is_dconst e = true) a -> Forall (fun e => is_dconst e = false) b ->
  purge_all (a ++ b) = a.
Proof. exact purge_all_tail. Qed.
Check C11_purge_keeps_order_when_constants_first : forall a b,
  Forall (fun e => is_dconst e = true) a -> Forall (fun e => is_dconst e = false) b ->
  purge_all (a ++ b) = a.

(* finding 6 *)
Theorem C11_purge_keeps_order_refuted :
  new_dict (ev "#( : w ; 1 const a 2 const b #)" boot) =
    Some [mkdent "b" (DConst (CInt 2)); mkdent "a" (DConst (CInt 1))] /\
  new_dict (ev "#( 1 const a 2 const b : w ; #)" boot) =
    Some [mkdent "a" (DConst (CInt 1)); mkdent "b" (DConst (CInt 2))].
Proof. exact purge_reorders. Qed.
Check C11_purge_keeps_order_refuted :
  new_dict (ev "#( : w ; 1 const a 2 const b #)" boot) =
    Some [mkdent "b" (DConst (CInt 2)); mkdent "a" (DConst (CInt 1))] /\
  new_dict (ev "#( 1 const a 2 const b : w ; #)" boot) =
    Some [mkdent "a" (DConst (CInt 1)); mkdent "b" (DConst (CInt 2))].

(* closing a meta context whose code ran to s1 *)
Theorem C11_close : forall fo rf s prev rest s1,
  nested s = prev :: rest -> is_meta s ->
  run_m fo rf (set_nested s rest) = ROk tt s1 -> closable s1 ->
  context_close fo rf s = ROk tt (close_state s1 prev).
Proof. exact context_close_meta. Qed.
Check C11_close : forall fo rf s prev rest s1,
  nested s = prev :: rest -> is_meta s ->
  run_m fo rf (set_nested s rest) = ROk tt s1 -> closable s1 ->
  context_close fo rf s = ROk tt (close_state s1 prev).

(* from the invariant at `#)`: every outcome of the close *)
Theorem C11_close_from_invariant : forall fo rf cs di s prev rest,
  Pre2 cs di s -> nested s = prev :: rest ->
  match run_m fo rf (set_nested s rest) with
  | ROk _ s1 => context_close fo rf s = ROk tt (close_state s1 prev) /\ R2 cs di (set_nested s rest) s1
  | RErr k p s1 => context_close fo rf s = RErr k p (set_nested s1 (prev :: rest))
  | RPanic => context_close fo rf s = RPanic
  | RUnsup => context_close fo rf s = RUnsup
  end.
Proof. exact close_from_pre. Qed.
Check C11_close_from_invariant : forall fo rf cs di s prev rest,
  Pre2 cs di s -> nested s = prev :: rest ->
  match run_m fo rf (set_nested s rest) with
  | ROk _ s1 => context_close fo rf s = ROk tt (close_state s1 prev) /\ R2 cs di (set_nested s rest) s1
  | RErr k p s1 => context_close fo rf s = RErr k p (set_nested s1 (prev :: rest))
  | RPanic => context_close fo rf s = RPanic
  | RUnsup => context_close fo rf s = RUnsup
  end.

(* every field of the closed state *)
Theorem C11_close_state : forall s1 prev,
  let c := cx s1 in
  let res := if emit_flag s1 prev then results s1 else [] in
  let t := close_state s1 prev in
  cx t = prev /\ nested t = nested s1 /\ heap t = heap s1 /\
  code t = firstn (cs_len c) (code s1) ++ map load_value_opcode res /\
  dbg t = firstn (cs_len c) (dbg s1) ++ repeat (loc_of s1) (length res) /\
  dict t = firstn (di_len c) (dict s1) ++ purge_all (skipn (di_len c) (dict s1)) /\
  ds t = (if emit_flag s1 prev then lastn (ds_len c) (ds s1) else ds s1) /\
  rlog t = log_pops res (rlog s1) /\
  rs t = rs s1 /\ flows t = flows s1 /\ loops t = loops s1 /\ special t = special s1 /\
  sources t = sources s1 /\ input t = input s1 /\ meter t = meter s1 /\
  insn_limit t = insn_limit s1 /\ heap_limit t = heap_limit s1 /\ stack_limit t = stack_limit s1 /\
  out t = out s1 /\ last_tok t = last_tok s1 /\ stopping t = stopping s1.
Proof. exact close_state_fields. Qed.
Check C11_close_state : forall s1 prev,
  let c := cx s1 in
  let res := if emit_flag s1 prev then results s1 else [] in
  let t := close_state s1 prev in
  cx t = prev /\ nested t = nested s1 /\ heap t = heap s1 /\
  code t = firstn (cs_len c) (code s1) ++ map load_value_opcode res /\
  dbg t = firstn (cs_len c) (dbg s1) ++ repeat (loc_of s1) (length res) /\
  dict t = firstn (di_len c) (dict s1) ++ purge_all (skipn (di_len c) (dict s1)) /\
  ds t = (if emit_flag s1 prev then lastn (ds_len c) (ds s1) else ds s1) /\
  rlog t = log_pops res (rlog s1) /\
  rs t = rs s1 /\ flows t = flows s1 /\ loops t = loops s1 /\ special t = special s1 /\
  sources t = sources s1 /\ input t = input s1 /\ meter t = meter s1 /\
  insn_limit t = insn_limit s1 /\ heap_limit t = heap_limit s1 /\ stack_limit t = stack_limit s1 /\
  out t = out s1 /\ last_tok t = last_tok s1 /\ stopping t = stopping s1.

(* ================= token steps ================= *)

(* a successful build is a chain of token steps ended by the end of the input *)
Theorem C11_build1_path : forall fo pr rf f d s s', enum_free fo pr rf f s -> build1 fo pr rf f d s = ROk tt s' ->
  exists x s1, bpath fo pr rf 0 s x /\ pre_run fo rf x = ROk tt s1 /\ get_token pr s1 = ROk BEnd s' /\
               depth s' = d /\ has_pending_flow s' = false.
Proof. exact build1_path. Qed.
Check C11_build1_path : forall fo pr rf f d s s', enum_free fo pr rf f s -> build1 fo pr rf f d s = ROk tt s' ->
  exists x s1, bpath fo pr rf 0 s x /\ pre_run fo rf x = ROk tt s1 /\ get_token pr s1 = ROk BEnd s' /\
               depth s' = d /\ has_pending_flow s' = false.

(* inside a meta context every token step keeps the frame of the context, or opens a nested
   block, or closes the context (#) or ~) ) *)
Theorem C11_token_step_in_meta : forall fo pr rf cs di f s s', Pre2 cs di s -> tstep fo pr rf f s s' ->
  R2 cs di s s' \/ (exists s2, R2 cs di s s2 /\ s' = opened s2) \/ closes fo rf cs di s s'.
Proof. exact tstep_cls. Qed.
Check C11_token_step_in_meta : forall fo pr rf cs di f s s', Pre2 cs di s -> tstep fo pr rf f s s' ->
  R2 cs di s s' \/ (exists s2, R2 cs di s s2 /\ s' = opened s2) \/ closes fo rf cs di s s'.

(* ================= 6. nesting ================= *)

(* token steps that never leave the depth they started at and end at it are balanced ... *)
Theorem C11_bracket_matching : forall fo pr rf cs di s x,
  Pre2 cs di s -> bpath fo pr rf (depth s) s x -> depth x = depth s -> seg fo pr rf s x.
Proof. exact bpath_seg. Qed.
Check C11_bracket_matching : forall fo pr rf cs di s x,
  Pre2 cs di s -> bpath fo pr rf (depth s) s x -> depth x = depth s -> seg fo pr rf s x.

(* ... and a balanced sequence, with blocks nested to any depth, keeps the frame of its context *)
Theorem C11_nested_blocks_keep_frame : forall fo pr rf s s', seg fo pr rf s s' ->
  forall cs di, Pre2 cs di s -> R2 cs di s s'.
Proof. exact seg_R2. Qed.
Check C11_nested_blocks_keep_frame : forall fo pr rf s s', seg fo pr rf s s' ->
  forall cs di, Pre2 cs di s -> R2 cs di s s'.

(* every state inside a block opened in t (at any depth below): meta mode, heap of t, stacks of t
   below the marks *)
Theorem C11_block_interior : forall fo pr rf t x,
  wfm t -> cd_inv t -> bpath fo pr rf (S (depth t)) (opened t) x ->
  is_meta x /\ heap x = heap t /\
  keeps (ds_len (open_ctx t)) (ds t) (ds x) /\ keeps (length (rs t)) (rs t) (rs x) /\
  keeps (length (loops t)) (loops t) (loops x) /\ keeps (length (special t)) (special t) (special x) /\
  keeps (length (flows t)) (flows t) (flows x).
Proof. exact block_interior. Qed.
Check C11_block_interior : forall fo pr rf t x,
  wfm t -> cd_inv t -> bpath fo pr rf (S (depth t)) (opened t) x ->
  is_meta x /\ heap x = heap t /\
  keeps (ds_len (open_ctx t)) (ds t) (ds x) /\ keeps (length (rs t)) (rs t) (rs x) /\
  keeps (length (loops t)) (loops t) (loops x) /\ keeps (length (special t)) (special t) (special x) /\
  keeps (length (flows t)) (flows t) (flows x).

(* ================= 3. the whole block, arbitrary contents ================= *)

(* opened in t (any mode, any depth); u any state reached inside; t' the first state outside *)
Theorem C11_block : forall fo pr rf t u t',
  wfm t -> cd_inv t ->
  bpath fo pr rf (S (depth t)) (opened t) u -> anystep fo pr rf u t' -> depth t' <= depth t ->
  exists w1 tc,
    (t' = tc \/ exists txt, t' = interned txt tc) /\ tc = close_state w1 (cx t) /\
    let n := ds_len (open_ctx t) in
    let res := if emit_flag w1 (cx t) then results w1 else [] in
    cx tc = cx t /\ nested tc = nested t /\ heap tc = heap t /\ flows tc = flows t /\
    (exists c', rpatch (code t) c' /\ code tc = c' ++ map load_value_opcode res) /\
    (exists d', cpatch (dict t) d' /\ dict tc = d' ++ purge_all (skipn (length (dict t)) (dict w1))) /\
    dbg tc = firstn (length (code t)) (dbg t) ++ repeat (loc_of w1) (length res) /\
    keeps n (ds t) (ds w1) /\
    ds tc = (if emit_flag w1 (cx t) then lastn n (ds t) else ds w1) /\
    keeps (length (rs t)) (rs t) (rs tc) /\ keeps (length (loops t)) (loops t) (loops tc) /\
    keeps (length (special t)) (special t) (special tc) /\
    emit_flag w1 (cx t) = negb (mode_eqb (cmode (cx t)) MMeta) || building_fun t (cx t).
Proof. exact block_full. Qed.
Check C11_block : forall fo pr rf t u t',
  wfm t -> cd_inv t ->
  bpath fo pr rf (S (depth t)) (opened t) u -> anystep fo pr rf u t' -> depth t' <= depth t ->
  exists w1 tc,
    (t' = tc \/ exists txt, t' = interned txt tc) /\ tc = close_state w1 (cx t) /\
    let n := ds_len (open_ctx t) in
    let res := if emit_flag w1 (cx t) then results w1 else [] in
    cx tc = cx t /\ nested tc = nested t /\ heap tc = heap t /\ flows tc = flows t /\
    (exists c', rpatch (code t) c' /\ code tc = c' ++ map load_value_opcode res) /\
    (exists d', cpatch (dict t) d' /\ dict tc = d' ++ purge_all (skipn (length (dict t)) (dict w1))) /\
    dbg tc = firstn (length (code t)) (dbg t) ++ repeat (loc_of w1) (length res) /\
    keeps n (ds t) (ds w1) /\
    ds tc = (if emit_flag w1 (cx t) then lastn n (ds t) else ds w1) /\
    keeps (length (rs t)) (rs t) (rs tc) /\ keeps (length (loops t)) (loops t) (loops tc) /\
    keeps (length (special t)) (special t) (special tc) /\
    emit_flag w1 (cx t) = negb (mode_eqb (cmode (cx t)) MMeta) || building_fun t (cx t).

(* seen from an enclosing meta context the whole block is one more step of that context *)
Theorem C11_block_in_meta : forall cs di t w1,
  Pre2 cs di t -> R2 (length (code t)) (length (dict t)) (inner t) w1 -> flows w1 = flows t ->
  R2 cs di t (close_state w1 (cx t)).
Proof. exact block_R2. Qed.
Check C11_block_in_meta : forall cs di t w1,
  Pre2 cs di t -> R2 (length (code t)) (length (dict t)) (inner t) w1 -> flows w1 = flows t ->
  R2 cs di t (close_state w1 (cx t)).

(* ================= 4. inlining ================= *)

(* the block was opened outside any meta context: the state after the block and the state after
   compiling the result values vs (top of stack first) as literals in t agree on code (up to
   resolved late-bound calls), heap, data stack, context, context stack, flow stack; the
   dictionary gained constants only; the other stacks only grew.  Not compared: debug map
   (token spans), sources / input / last token (the text consumed), meter, out, reverse log,
   limits, stopping flag. *)
Theorem C11_block_inline : forall fo pr rf t u t',
  wfm t -> cd_inv t -> cmode (cx t) <> MMeta ->
  bpath fo pr rf (S (depth t)) (opened t) u -> anystep fo pr rf u t' -> depth t' <= depth t ->
  exists vs ts tc,
    emit_values vs t = ROk tt ts /\
    (t' = tc \/ exists txt, t' = interned txt tc) /\
    rpatch (code ts) (code tc) /\ heap tc = heap ts /\ ds tc = ds ts /\
    cx tc = cx ts /\ nested tc = nested ts /\ flows tc = flows ts /\
    (exists d' k, cpatch (dict ts) d' /\ dict tc = d' ++ k /\ Forall (fun e => is_dconst e = true) k) /\
    (exists a, rs tc = a ++ rs ts) /\ (exists a, loops tc = a ++ loops ts) /\
    (exists a, special tc = a ++ special ts).
Proof. exact block_inline. Qed.
Check C11_block_inline : forall fo pr rf t u t',
  wfm t -> cd_inv t -> cmode (cx t) <> MMeta ->
  bpath fo pr rf (S (depth t)) (opened t) u -> anystep fo pr rf u t' -> depth t' <= depth t ->
  exists vs ts tc,
    emit_values vs t = ROk tt ts /\
    (t' = tc \/ exists txt, t' = interned txt tc) /\
    rpatch (code ts) (code tc) /\ heap tc = heap ts /\ ds tc = ds ts /\
    cx tc = cx ts /\ nested tc = nested ts /\ flows tc = flows ts /\
    (exists d' k, cpatch (dict ts) d' /\ dict tc = d' ++ k /\ Forall (fun e => is_dconst e = true) k) /\
    (exists a, rs tc = a ++ rs ts) /\ (exists a, loops tc = a ++ loops ts) /\
    (exists a, special tc = a ++ special ts).

(* no late-bound call in the code before the block: the code is exactly that of the literals *)
Theorem C11_block_inline_exact : forall fo pr rf t u t',
  wfm t -> cd_inv t -> cmode (cx t) <> MMeta -> no_resolve (code t) ->
  bpath fo pr rf (S (depth t)) (opened t) u -> anystep fo pr rf u t' -> depth t' <= depth t ->
  exists vs ts tc,
    emit_values vs t = ROk tt ts /\ (t' = tc \/ exists txt, t' = interned txt tc) /\
    code tc = code ts /\ heap tc = heap ts /\ ds tc = ds ts /\ cx tc = cx ts /\
    nested tc = nested ts /\ flows tc = flows ts.
Proof. exact block_inline_exact. Qed.
Check C11_block_inline_exact : forall fo pr rf t u t',
  wfm t -> cd_inv t -> cmode (cx t) <> MMeta -> no_resolve (code t) ->
  bpath fo pr rf (S (depth t)) (opened t) u -> anystep fo pr rf u t' -> depth t' <= depth t ->
  exists vs ts tc,
    emit_values vs t = ROk tt ts /\ (t' = tc \/ exists txt, t' = interned txt tc) /\
    code tc = code ts /\ heap tc = heap ts /\ ds tc = ds ts /\ cx tc = cx ts /\
    nested tc = nested ts /\ flows tc = flows ts.

(* findings 2 - 5: blocks nested in blocks are not the literals they evaluate to *)
Theorem C11_nested_block_isolated_refuted :
  ds_of (ev "#( depth #)" boot) = ds_of (ev "0" boot) /\
  ds_of (ev "#( 7 #( depth #) #)" boot) <> ds_of (ev "#( 7 0 #)" boot).
Proof. exact nested_block_sees_enclosing. Qed.
Check C11_nested_block_isolated_refuted :
  ds_of (ev "#( depth #)" boot) = ds_of (ev "0" boot) /\
  ds_of (ev "#( 7 #( depth #) #)" boot) <> ds_of (ev "#( 7 0 #)" boot).

Theorem C11_nested_block_in_definition_refuted :
  ds_of (ev "#( 1 #)" boot) = ds_of (ev "1" boot) /\
  ds_of (ev "#( 5 : f #( 1 #) ; f #)" boot) <> ds_of (ev "#( 5 : f 1 ; f #)" boot).
Proof. exact nested_block_in_definition. Qed.
Check C11_nested_block_in_definition_refuted :
  ds_of (ev "#( 1 #)" boot) = ds_of (ev "1" boot) /\
  ds_of (ev "#( 5 : f #( 1 #) ; f #)" boot) <> ds_of (ev "#( 5 : f 1 ; f #)" boot).

Theorem C11_nested_block_in_builder_refuted :
  ds_of (ev "#( 2 #)" boot) = ds_of (ev "2" boot) /\
  ds_of (ev "#( [ 1 #( 2 #) 3 ] #)" boot) = Some [CInt 2; CVec [CInt 1; CInt 3]] /\
  ds_of (ev "#( [ 1 2 3 ] #)" boot) = Some [CVec [CInt 1; CInt 2; CInt 3]].
Proof. exact nested_block_in_builder. Qed.
Check C11_nested_block_in_builder_refuted :
  ds_of (ev "#( 2 #)" boot) = ds_of (ev "2" boot) /\
  ds_of (ev "#( [ 1 #( 2 #) 3 ] #)" boot) = Some [CInt 2; CVec [CInt 1; CInt 3]] /\
  ds_of (ev "#( [ 1 2 3 ] #)" boot) = Some [CVec [CInt 1; CInt 2; CInt 3]].

Theorem C11_nested_block_order_refuted :
  ds_of (ev "#( 1 2 #)" boot) = ds_of (ev "2 1" boot) /\
  ds_of (ev "#( #( 1 2 #) #)" boot) <> ds_of (ev "#( 2 1 #)" boot) /\
  ds_of (ev "#( #( 1 2 #) #)" boot) = ds_of (ev "#( 1 2 #)" boot).
Proof. exact nested_block_order. Qed.
Check C11_nested_block_order_refuted :
  ds_of (ev "#( 1 2 #)" boot) = ds_of (ev "2 1" boot) /\
  ds_of (ev "#( #( 1 2 #) #)" boot) <> ds_of (ev "#( 2 1 #)" boot) /\
  ds_of (ev "#( #( 1 2 #) #)" boot) = ds_of (ev "#( 1 2 #)" boot).

(* ================= 5. compile executes nothing outside meta blocks ================= *)

(* a token step outside a meta context, no user-defined immediate word in the dictionary *)
Theorem C11_token_step_outside_meta : forall fo pr rf f s s', Pre5 s -> tstep fo pr rf f s s' ->
  R5 s s' \/ (exists s2, R5 s s2 /\ s' = opened s2) \/ imm_step fo pr rf s s'.
Proof. exact tstep_cls5. Qed.
Check C11_token_step_outside_meta : forall fo pr rf f s s', Pre5 s -> tstep fo pr rf f s s' ->
  R5 s s' \/ (exists s2, R5 s s2 /\ s' = opened s2) \/ imm_step fo pr rf s s'.

(* a whole meta block seen from the non-meta context it was opened in *)
Theorem C11_block_outside_meta : forall a w1, Pre5 a ->
  R2 (length (code a)) (length (dict a)) (inner a) w1 -> flows w1 = flows a ->
  R5 a (close_state w1 (cx a)).
Proof. exact block_R5. Qed.
Check C11_block_outside_meta : forall a w1, Pre5 a ->
  R2 (length (code a)) (length (dict a)) (inner a) w1 -> flows w1 = flows a ->
  R5 a (close_state w1 (cx a)).

(* compile: data stack unchanged, heap extended by nil cells only - unless the source uses the
   word `immediate` at its top level (outside meta blocks) *)
Theorem C11_compile_quiet : forall fo pr rf fuel src s s',
  wfm s -> cd_inv s -> no_user_imm (dict s) ->
  enum_free fo pr rf fuel (interned src (copened s)) ->
  compile fo pr rf fuel src s = ROk tt s' ->
  (ds s' = ds s /\ exists k, heap s' = heap s ++ repeat CNil k) \/
  (exists y z, bpath fo pr rf 0 (interned src (copened s)) y /\ depth y = S (depth s) /\
               imm_step fo pr rf y z).
Proof. exact compile_quiet. Qed.
Check C11_compile_quiet : forall fo pr rf fuel src s s',
  wfm s -> cd_inv s -> no_user_imm (dict s) ->
  enum_free fo pr rf fuel (interned src (copened s)) ->
  compile fo pr rf fuel src s = ROk tt s' ->
  (ds s' = ds s /\ exists k, heap s' = heap s ++ repeat CNil k) \/
  (exists y z, bpath fo pr rf 0 (interned src (copened s)) y /\ depth y = S (depth s) /\
               imm_step fo pr rf y z).

(* the build phase of eval or compile (any non-meta mode m) executes nothing outside meta blocks *)
Theorem C11_build_quiet : forall fo pr rf m fuel src s s2,
  m <> MMeta -> wfm s -> cd_inv s -> no_user_imm (dict s) ->
  enum_free fo pr rf fuel (interned src (mopened m s)) ->
  build1 fo pr rf fuel (S (depth s)) (interned src (mopened m s)) = ROk tt s2 ->
  R5 (interned src (mopened m s)) s2 \/
  (exists y z, bpath fo pr rf 0 (interned src (mopened m s)) y /\ depth y = S (depth s) /\
               imm_step fo pr rf y z).
Proof. exact build_quiet. Qed.
Check C11_build_quiet : forall fo pr rf m fuel src s s2,
  m <> MMeta -> wfm s -> cd_inv s -> no_user_imm (dict s) ->
  enum_free fo pr rf fuel (interned src (mopened m s)) ->
  build1 fo pr rf fuel (S (depth s)) (interned src (mopened m s)) = ROk tt s2 ->
  R5 (interned src (mopened m s)) s2 \/
  (exists y z, bpath fo pr rf 0 (interned src (mopened m s)) y /\ depth y = S (depth s) /\
               imm_step fo pr rf y z).

(* eval = the same quiet build phase, then the run of the compiled code, then the old context
   with the instruction pointer moved.  (The literal equation with compile ;; run is not proved.) *)
Theorem C11_eval_phases : forall fo pr rf fuel src s s',
  wfm s -> cd_inv s -> no_user_imm (dict s) ->
  enum_free fo pr rf fuel (interned src (mopened MEval s)) ->
  eval fo pr rf fuel src s = ROk tt s' ->
  (exists s2 s3,
     build1 fo pr rf fuel (S (depth s)) (interned src (mopened MEval s)) = ROk tt s2 /\
     R5 (interned src (mopened MEval s)) s2 /\
     run_m fo rf (set_nested s2 (nested s)) = ROk tt s3 /\
     s' = set_cx s3 (if mode_eqb (cmode (cx s)) MEval then set_ctx_ip (cx s) (ip s3) else cx s)) \/
  (exists y z, bpath fo pr rf 0 (interned src (mopened MEval s)) y /\ depth y = S (depth s) /\
               imm_step fo pr rf y z).
Proof. exact eval_phases. Qed.
Check C11_eval_phases : forall fo pr rf fuel src s s',
  wfm s -> cd_inv s -> no_user_imm (dict s) ->
  enum_free fo pr rf fuel (interned src (mopened MEval s)) ->
  eval fo pr rf fuel src s = ROk tt s' ->
  (exists s2 s3,
     build1 fo pr rf fuel (S (depth s)) (interned src (mopened MEval s)) = ROk tt s2 /\
     R5 (interned src (mopened MEval s)) s2 /\
     run_m fo rf (set_nested s2 (nested s)) = ROk tt s3 /\
     s' = set_cx s3 (if mode_eqb (cmode (cx s)) MEval then set_ctx_ip (cx s) (ip s3) else cx s)) \/
  (exists y z, bpath fo pr rf 0 (interned src (mopened MEval s)) y /\ depth y = S (depth s) /\
               imm_step fo pr rf y z).

(* ================= non-vacuity ================= *)

Example C11_boot_hypotheses : wfm boot /\ cd_inv boot /\ no_user_imm (dict boot) /\ mpre (opened boot).
Proof. exact (conj boot_wfm (conj boot_cd (conj boot_no_user_imm opened_boot_mpre))). Qed.

Example C11_block_is_literal :
  ds_of (ev "5 #( 1 2 + #) +" boot) = Some [CInt 8] /\ ds_of (ev "5 3 +" boot) = Some [CInt 8].
Proof. vm_compute. split; reflexivity. Qed.

Example C11_block_defines_word_and_const :
  new_dict (ev "#( : sq dup * ; 3 sq const nine 4 #) nine" boot) = Some [mkdent "nine" (DConst (CInt 9))] /\
  ds_of (ev "#( : sq dup * ; 3 sq const nine 4 #) nine" boot) = Some [CInt 9; CInt 4].
Proof. vm_compute. split; reflexivity. Qed.

Example C11_block_cannot_use_variables :
  (exists s, ev "var x #( x #)" boot = RErr EConst None s) /\
  (exists s, ev "var x #( 1 ! x #)" boot = RErr EConst None s) /\
  (exists s, ev "#( var y #)" boot = RErr EConst None s).
Proof. exact ex_block_var_fails. Qed.

Example C11_block_cannot_pop_outer_stack :
  ds s9 = [CInt 9] /\ (exists s, ev "#( drop #)" s9 = RErr EUnderflow None s /\ ds s = [CInt 9]) /\
  ds_of (ev "#( depth #)" s9) = Some [CInt 0; CInt 9].
Proof. exact ex_block_sealed_stack. Qed.

(* the hypotheses of C11_block / C11_block_inline on the block of "#( 1 2 + #) 7" with 9 on the
   outer stack: the block compiles to one literal, the outer stack is untouched *)
Example C11_block_nonvacuous :
  wfm ta /\ cd_inv ta /\ cmode (cx ta) <> MMeta /\ o1 = opened ta /\
  bpath fo0 pr0 1000 (S (depth ta)) (opened ta) o4 /\ anystep fo0 pr0 1000 o4 o5 /\ depth o5 <= depth ta /\
  ds o5 = [CInt 9] /\ skipn (length (code ta)) (code o5) = [OLoadI64 3].
Proof. exact ex_block_path. Qed.

Example C11_compile_quiet_nonvacuous :
  match cp "var x 1 ! x #( 2 3 * #) x +" s9 with
  | ROk _ s => ds s = ds s9 /\ heap s = heap s9 ++ [CNil]
  | _ => False
  end.
Proof. vm_compute. split; reflexivity. Qed.

Example C11_s9_hypotheses : wfm s9 /\ cd_inv s9 /\ no_user_imm (dict s9) /\ ds s9 = [CInt 9].
Proof. exact s9_wfm. Qed.

(* rpatch / cpatch are needed: both ways of changing what is below the marks occur *)
Example C11_prefix_changes_occur :
  new_dict (ev "#( 1 const a #) #( 2 const a 3 const b #)" boot) =
    Some [mkdent "a" (DConst (CInt 2)); mkdent "b" (DConst (CInt 3))] /\
  match ev "late g : h g ; : g 5 ; #( h #)" boot with
  | ROk _ s => ds s = [CInt 5] /\ nth_error (code s) 1 = Some (OCall 7)
  | _ => False
  end.
Proof. exact prefix_changes_occur. Qed.

Example C11_hidden_independent_nonvacuous : forall f, native_fn fo0 "depth" = Some f ->
  f (sw [CInt 8] sm) = res_map (sw [CInt 8]) (f sm).
Proof. exact depth_word_comm. Qed.

(* the invariants used as hypotheses hold right after `#(` on the boot state / on the boot state *)
Example C11_Pre2_nonvacuous : Pre2 (length (code boot)) (length (dict boot)) (opened boot).
Proof. exact (Pre2_opened boot boot_wfm boot_cd). Qed.

Example C11_Pre5_nonvacuous : Pre5 boot.
Proof. exact boot_Pre5. Qed.
