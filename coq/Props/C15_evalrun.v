(* C15 (eval / compile+run) - evaluating a source is compiling it and then running.

   For every source, every fuel and every idle top-level state (no nested context, the outer
   context evaluates, the machine stopped exactly at the end of the code, nothing pending above
   the marks of the outer context) [eval src] and [compile src ;; run] give the SAME result:
   same value, same error kind and payload, same final state (all fields) - whether the
   source is rejected at build time, fails at run time, or succeeds.
   Hypothesis on the source: while it is built no user-defined immediate word is invoked
   ([calls_bad] with mark 0 reports exactly that).  It is needed: such a word runs at build
   time in the context opened for the source, and that context hides the data stack in
   compile mode but not in eval mode (C15_user_immediate_refuted). *)
From Xeh Require Import Model.Prelude Model.Bits Model.Cell Model.Lexer Model.Vm Model.Words Model.Build Model.Boot.
From Xeh Require Import Proofs.VmLimits Proofs.UnwindMain Proofs.UnwindSimMain Proofs.UnwindWitness.

Theorem C15_eval_is_compile_run : forall fo pr rf fuel src s s1,
  (nested s = [] /\ cmode (cx s) = MEval /\ ip s = length (code s) /\
   rs_len (cx s) = length (rs s) /\ ls_len (cx s) = length (loops s) /\
   ss_ptr (cx s) = length (special s)) ->
  (context_open MEval ;; intern_source src) s = ROk tt s1 ->
  calls_bad fo pr rf 0 fuel (length (nested s1)) s1 = false ->
  eval fo pr rf fuel src s = (compile fo pr rf fuel src ;; run_m fo rf) s.
Proof. exact eval_is_compile_run. Qed.
Check C15_eval_is_compile_run : forall fo pr rf fuel src s s1,
  (nested s = [] /\ cmode (cx s) = MEval /\ ip s = length (code s) /\
   rs_len (cx s) = length (rs s) /\ ls_len (cx s) = length (loops s) /\
   ss_ptr (cx s) = length (special s)) ->
  (context_open MEval ;; intern_source src) s = ROk tt s1 ->
  calls_bad fo pr rf 0 fuel (length (nested s1)) s1 = false ->
  eval fo pr rf fuel src s = (compile fo pr rf fuel src ;; run_m fo rf) s.

(* ---------- non-vacuity ---------- *)
Local Open Scope string_scope.
Definition c15_zf (a b : Z) : Z := 0%Z.
Definition c15_fo : fops := fops_with c15_zf c15_zf c15_zf c15_zf c15_zf c15_zf c15_zf.
Definition c15_pr : string -> option Z := fun _ => None.
Definition c15_eval (src : string) (s : state) : res unit := eval c15_fo c15_pr 1000 1000 src s.
Definition c15_compile_run (src : string) (s : state) : res unit :=
  (compile c15_fo c15_pr 1000 1000 src ;; run_m c15_fo 1000) s.
Definition c15_state (r : res unit) : state := match r with ROk _ s => s | RErr _ _ s => s | _ => boot end.
Definition c15_err (r : res unit) : option ekind := match r with RErr k _ _ => Some k | _ => None end.
Definition c15_idle_b (s : state) : bool :=
  match nested s with [] => true | _ => false end && mode_eqb (cmode (cx s)) MEval &&
  (ip s =? length (code s))%nat && (rs_len (cx s) =? length (rs s))%nat &&
  (ls_len (cx s) =? length (loops s))%nat && (ss_ptr (cx s) =? length (special s))%nat.
Definition c15_watch (src : string) (s : state) : bool :=
  let s1 := c15_state ((context_open MEval ;; intern_source src) s) in
  calls_bad c15_fo c15_pr 1000 0 1000 (length (nested s1)) s1.

(* the boot state and the state after a successful line are idle top-level states *)
Definition c15_s0 : state := c15_state (c15_eval "7 8 : sq dup * ; var v" boot).
Example C15_ex_idle : c15_idle_b boot = true /\ c15_idle_b c15_s0 = true.
Proof. vm_compute. split; reflexivity. Qed.

(* the hypothesis on the source holds for programs with definitions, loops, meta blocks;
   the three outcomes (success, rejected at build time, failure at run time) all occur *)
Example C15_ex_watch :
  c15_watch "3 sq : cube dup sq * ; #( 2 cube #) 0 do I loop [ 1 2 ] v" c15_s0 = false /\
  c15_err (c15_eval "3 sq : cube dup sq * ; #( 2 cube #) 0 do I loop [ 1 2 ] v" c15_s0) = None /\
  c15_watch "1 if 2 foo" c15_s0 = false /\ c15_err (c15_eval "1 if 2 foo" c15_s0) = Some EUnknown /\
  c15_watch ": f 1 0 / ; f" c15_s0 = false /\ c15_err (c15_eval ": f 1 0 / ; f" c15_s0) = Some EDivZero.
Proof. vm_compute. repeat split; reflexivity. Qed.

(* a user-defined immediate word: eval lets it drop a value of the caller at build time,
   compile refuses (stack underflow) - the two submission styles differ
   (witness: Proofs/UnwindWitness.v) *)
Theorem C15_user_immediate_refuted :
  idle_top f4_s /\
  calls_bad wit_fo wit_pr wit_rf 0 wit_fuel (length (nested (wit_opened "foo" f4_s))) (wit_opened "foo" f4_s) = true /\
  (exists s', eval wit_fo wit_pr wit_rf wit_fuel "foo" f4_s = ROk tt s' /\ ds s' = []) /\
  (exists s', (compile wit_fo wit_pr wit_rf wit_fuel "foo" ;; run_m wit_fo wit_rf) f4_s = RErr EUnderflow None s' /\
              ds s' = [CInt 7]).
Proof. exact evalrun_user_immediate_refuted. Qed.
Check C15_user_immediate_refuted :
  idle_top f4_s /\
  calls_bad wit_fo wit_pr wit_rf 0 wit_fuel (length (nested (wit_opened "foo" f4_s))) (wit_opened "foo" f4_s) = true /\
  (exists s', eval wit_fo wit_pr wit_rf wit_fuel "foo" f4_s = ROk tt s' /\ ds s' = []) /\
  (exists s', (compile wit_fo wit_pr wit_rf wit_fuel "foo" ;; run_m wit_fo wit_rf) f4_s = RErr EUnderflow None s' /\
              ds s' = [CInt 7]).
