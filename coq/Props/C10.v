(* C10 - a source rejected while it is read or compiled leaves no trace.

   [build_from_source fuel src m] (= eval for m = MEval, compile for m = MCompile) opens a
   context, interns the text, runs the token loop [build1] and closes the context (for eval:
   runs the new code).  A failure of the token loop - bad literal, unknown word, unbalanced
   structure, error inside a meta block - is "rejected at build time"; [build_unwind] is then
   applied (C10_error_phases: the only other way to fail is inside the closing run).
   All theorems quantify over ALL sources, fuels, modes and states.

   1  C10_rejected_source_restores   the machine after the rejection is the machine before it
      C10_reachable_state_restores    the same for every API-reachable state, up to resolved late stubs
      C10_wf_again / C10_wf_reachable  the state hypotheses hold again / in every API-reachable state
   2  C10_no_leftover_code / _run     nothing of the rejected source can run
   3  C10_later_sources_equivalent    every later source / run behaves as if the rejected source
      C10_equivalence_is_kept         had never been submitted (C10_equivalent_means: what that says)
   4  C10_eval_runs_own_code          a later line starts at its own first instruction, whatever
      C10_runtime_failure_shape       an earlier line left; shape of the state after a run-time failure

   Hypotheses on the state in which the source is submitted ([build_wf]):
     - input s = []  and  length (dbg s) = length (code s): true in every state reachable
       through the API (C10_wf_reachable);
     - no unresolved [late] stub in the code of s: needed, C10_late_stub_refuted (finding F3).
   Hypothesis on the rejected source, [calls_bad ... = false], a boolean replay of the token
   loop (Proofs/UnwindMain.v): while the source was built no user-defined immediate word was
   invoked (needed: C10_user_immediate_refuted, F1) and [const] did not name a constant that
   existed before (needed: C10_const_refuted, F2).
   Side condition of 3: no instruction limit is set, or the meter did not move.

   NOT restored by the unwinding (and not claimed): the list of source texts (the rejected text
   stays interned, later buffers get the next index - so the source index recorded in the debug
   map and in the last-token record of later code differs), the instruction meter, the captured
   output, the reverse log, the last-token record, the about-to-stop flag.  Theorem 3 shows
   that nothing else can be influenced by them. *)
From Xeh Require Import Model.Prelude Model.Bits Model.Cell Model.Lexer Model.Vm Model.Words Model.Build Model.Boot.
From Xeh Require Import Proofs.VmLimits Proofs.NoPanicBuild Proofs.UnwindLists Proofs.UnwindFrame Proofs.UnwindInv
                        Proofs.UnwindBuild Proofs.UnwindMain Proofs.UnwindAfter Proofs.UnwindAuxVm Proofs.UnwindFollow
                        Proofs.UnwindWf Proofs.UnwindWitness.

Theorem C10_next_stopped : forall nf s, is_running s = false -> next nf s = ROk tt s.
Proof. intros nf s H. unfold next. rewrite H. reflexivity. Qed.
Check C10_next_stopped : forall nf s, is_running s = false -> next nf s = ROk tt s.

(* 1. MAIN: the machine is exactly what it was *)
Theorem C10_rejected_source_restores : forall fo pr rf fuel src m s s1 k p s2,
  (m = MEval \/ m = MCompile) ->
  (input s = [] /\ length (dbg s) = length (code s) /\
   Forall (fun op => is_resolve op = false) (code s)) ->
  (context_open m ;; intern_source src) s = ROk tt s1 ->
  build1 fo pr rf fuel (length (nested s1)) s1 = RErr k p s2 ->
  calls_bad fo pr rf (length (dict s)) fuel (length (nested s1)) s1 = false ->
  exists s', build_from_source fo pr rf fuel src m s = RErr k p s' /\
    (input s' = input s /\ nested s' = nested s /\ cx s' = cx s /\ code s' = code s /\
     dbg s' = dbg s /\ flows s' = flows s /\ dict s' = dict s /\ rs s' = rs s /\
     loops s' = loops s /\ special s' = special s /\ heap s' = heap s /\ ds s' = ds s /\
     insn_limit s' = insn_limit s /\ heap_limit s' = heap_limit s /\ stack_limit s' = stack_limit s).
Proof. exact rejected_source_restores. Qed.
Check C10_rejected_source_restores : forall fo pr rf fuel src m s s1 k p s2,
  (m = MEval \/ m = MCompile) ->
  (input s = [] /\ length (dbg s) = length (code s) /\
   Forall (fun op => is_resolve op = false) (code s)) ->
  (context_open m ;; intern_source src) s = ROk tt s1 ->
  build1 fo pr rf fuel (length (nested s1)) s1 = RErr k p s2 ->
  calls_bad fo pr rf (length (dict s)) fuel (length (nested s1)) s1 = false ->
  exists s', build_from_source fo pr rf fuel src m s = RErr k p s' /\
    (input s' = input s /\ nested s' = nested s /\ cx s' = cx s /\ code s' = code s /\
     dbg s' = dbg s /\ flows s' = flows s /\ dict s' = dict s /\ rs s' = rs s /\
     loops s' = loops s /\ special s' = special s /\ heap s' = heap s /\ ds s' = ds s /\
     insn_limit s' = insn_limit s /\ heap_limit s' = heap_limit s /\ stack_limit s' = stack_limit s).

(* the two phases in which a submission can fail: the theorem above covers the first *)
Theorem C10_error_phases : forall fo pr rf fuel src m s k p s',
  build_from_source fo pr rf fuel src m s = RErr k p s' ->
  exists s1, (context_open m ;; intern_source src) s = ROk tt s1 /\
    ((exists s2, build1 fo pr rf fuel (length (nested s1)) s1 = RErr k p s2 /\
                 s' = build_unwind (length (nested s)) (length (input s)) (length (ds s)) (length (heap s)) s2) \/
     (exists s2, build1 fo pr rf fuel (length (nested s1)) s1 = ROk tt s2 /\
                 context_close fo rf s2 = RErr k p s')).
Proof. exact build_error_phases. Qed.
Check C10_error_phases : forall fo pr rf fuel src m s k p s',
  build_from_source fo pr rf fuel src m s = RErr k p s' ->
  exists s1, (context_open m ;; intern_source src) s = ROk tt s1 /\
    ((exists s2, build1 fo pr rf fuel (length (nested s1)) s1 = RErr k p s2 /\
                 s' = build_unwind (length (nested s)) (length (input s)) (length (ds s)) (length (heap s)) s2) \/
     (exists s2, build1 fo pr rf fuel (length (nested s1)) s1 = ROk tt s2 /\
                 context_close fo rf s2 = RErr k p s')).

(* the state hypotheses hold again afterwards, so the theorem applies to the next rejection *)
Theorem C10_wf_again : forall s s', same_machine s s' -> build_wf s -> build_wf s'.
Proof. exact same_machine_wf. Qed.
Check C10_wf_again : forall s s', same_machine s s' -> build_wf s -> build_wf s'.

(* the first two state hypotheses hold in EVERY state reachable through the API (eval, compile,
   next, run, rnext, set_limits, switching the recording) from the boot state: they do not
   restrict the history.  (The third one - no unresolved [late] stub - does: see
   C10_late_stub_refuted.) *)
Theorem C10_wf_reachable : forall fo pr s, api_reach fo pr s ->
  length (dbg s) = length (code s) /\ input s = [].
Proof. exact api_wf. Qed.
Check C10_wf_reachable : forall fo pr s, api_reach fo pr s ->
  length (dbg s) = length (code s) /\ input s = [].

(* 1'. the same for EVERY state reachable through the API, with no hypothesis on the state: all
   components are restored exactly, except that the code may differ in cells that held an
   unresolved [late] stub (which build-time execution resolved): same length, every other
   cell unchanged *)
Theorem C10_reachable_state_restores : forall fo pr s, api_reach fo pr s ->
  forall rf fuel src m s1 k p s2,
  (m = MEval \/ m = MCompile) ->
  (context_open m ;; intern_source src) s = ROk tt s1 ->
  build1 fo pr rf fuel (length (nested s1)) s1 = RErr k p s2 ->
  calls_bad fo pr rf (length (dict s)) fuel (length (nested s1)) s1 = false ->
  exists s', build_from_source fo pr rf fuel src m s = RErr k p s' /\
    (input s' = input s /\ nested s' = nested s /\ cx s' = cx s /\
     (length (code s') = length (code s) /\
      forall i op, nth_error (code s) i = Some op -> is_resolve op = false -> nth_error (code s') i = Some op) /\
     dbg s' = dbg s /\ flows s' = flows s /\ dict s' = dict s /\ rs s' = rs s /\
     loops s' = loops s /\ special s' = special s /\ heap s' = heap s /\ ds s' = ds s /\
     insn_limit s' = insn_limit s /\ heap_limit s' = heap_limit s /\ stack_limit s' = stack_limit s).
Proof. exact reachable_rejected_source_restores. Qed.
Check C10_reachable_state_restores : forall fo pr s, api_reach fo pr s ->
  forall rf fuel src m s1 k p s2,
  (m = MEval \/ m = MCompile) ->
  (context_open m ;; intern_source src) s = ROk tt s1 ->
  build1 fo pr rf fuel (length (nested s1)) s1 = RErr k p s2 ->
  calls_bad fo pr rf (length (dict s)) fuel (length (nested s1)) s1 = false ->
  exists s', build_from_source fo pr rf fuel src m s = RErr k p s' /\
    (input s' = input s /\ nested s' = nested s /\ cx s' = cx s /\
     (length (code s') = length (code s) /\
      forall i op, nth_error (code s) i = Some op -> is_resolve op = false -> nth_error (code s') i = Some op) /\
     dbg s' = dbg s /\ flows s' = flows s /\ dict s' = dict s /\ rs s' = rs s /\
     loops s' = loops s /\ special s' = special s /\ heap s' = heap s /\ ds s' = ds s /\
     insn_limit s' = insn_limit s /\ heap_limit s' = heap_limit s /\ stack_limit s' = stack_limit s).

(* 2. nothing of the rejected source is left to run: same code, same ip; if the machine was
   stopped, stepping and running do nothing *)
Theorem C10_no_leftover_code : forall s s', same_machine s s' ->
  is_running s' = is_running s /\ ip s' = ip s /\ code s' = code s.
Proof. exact same_machine_running. Qed.
Check C10_no_leftover_code : forall s s', same_machine s s' ->
  is_running s' = is_running s /\ ip s' = ip s /\ code s' = code s.

Theorem C10_no_leftover_run : forall s s' nf, same_machine s s' -> is_running s = false ->
  next nf s' = ROk tt s' /\ forall fuel, run nf (S fuel) s' = Some (ROk tt s').
Proof. exact same_machine_idle. Qed.
Check C10_no_leftover_run : forall s s' nf, same_machine s s' -> is_running s = false ->
  next nf s' = ROk tt s' /\ forall fuel, run nf (S fuel) s' = Some (ROk tt s').

(* 4. whatever an earlier line left behind (a run-time failure leaves the ip at the failing
   instruction), an evaluated source runs from ITS OWN first instruction: the run performed by
   eval starts at ip = length (code s), the old code is an untouched prefix, and the result of
   eval is the result of that run with the outer context put back *)
Theorem C10_eval_runs_own_code : forall fo pr rf s, build_wf s ->
  forall fuel src s1 s2,
  (context_open MEval ;; intern_source src) s = ROk tt s1 ->
  build1 fo pr rf fuel (length (nested s1)) s1 = ROk tt s2 ->
  calls_bad fo pr rf (length (dict s)) fuel (length (nested s1)) s1 = false ->
  let s0 := set_nested s2 (nested s) in
  ip s0 = length (code s) /\ firstn (length (code s)) (code s0) = code s /\
  eval fo pr rf fuel src s =
    match run_m fo rf s0 with
    | ROk _ s3 => ROk tt (set_cx s3 (if mode_eqb (cmode (cx s)) MEval then set_ctx_ip (cx s) (ip s3) else cx s))
    | RErr k p s3 => RErr k p (set_cx s3 (if mode_eqb (cmode (cx s)) MEval then set_ctx_ip (cx s) (ip s3) else cx s))
    | RPanic => RPanic
    | RUnsup => RUnsup
    end.
Proof. exact eval_runs_own_code_E. Qed.
Check C10_eval_runs_own_code : forall fo pr rf s, build_wf s ->
  forall fuel src s1 s2,
  (context_open MEval ;; intern_source src) s = ROk tt s1 ->
  build1 fo pr rf fuel (length (nested s1)) s1 = ROk tt s2 ->
  calls_bad fo pr rf (length (dict s)) fuel (length (nested s1)) s1 = false ->
  let s0 := set_nested s2 (nested s) in
  ip s0 = length (code s) /\ firstn (length (code s)) (code s0) = code s /\
  eval fo pr rf fuel src s =
    match run_m fo rf s0 with
    | ROk _ s3 => ROk tt (set_cx s3 (if mode_eqb (cmode (cx s)) MEval then set_ctx_ip (cx s) (ip s3) else cx s))
    | RErr k p s3 => RErr k p (set_cx s3 (if mode_eqb (cmode (cx s)) MEval then set_ctx_ip (cx s) (ip s3) else cx s))
    | RPanic => RPanic
    | RUnsup => RUnsup
    end.

(* 4a. a source that fails at RUN time leaves nesting, input, flow stack and the outer context
   (up to its ip) as they were; code and dictionary have only grown *)
Theorem C10_runtime_failure_shape : forall fo pr rf s, build_wf s ->
  forall fuel src s1 s2 k p s3,
  (context_open MEval ;; intern_source src) s = ROk tt s1 ->
  build1 fo pr rf fuel (length (nested s1)) s1 = ROk tt s2 ->
  calls_bad fo pr rf (length (dict s)) fuel (length (nested s1)) s1 = false ->
  run_m fo rf (set_nested s2 (nested s)) = RErr k p s3 ->
  exists s', eval fo pr rf fuel src s = RErr k p s' /\
    nested s' = nested s /\ input s' = [] /\ flows s' = flows s /\
    cx s' = (if mode_eqb (cmode (cx s)) MEval then set_ctx_ip (cx s) (ip s3) else cx s) /\
    prefix_of (code s) (code s') /\ prefix_of (dict s) (dict s') /\
    length (dbg s') = length (code s').
Proof. exact eval_runtime_failure_shape_E. Qed.
Check C10_runtime_failure_shape : forall fo pr rf s, build_wf s ->
  forall fuel src s1 s2 k p s3,
  (context_open MEval ;; intern_source src) s = ROk tt s1 ->
  build1 fo pr rf fuel (length (nested s1)) s1 = ROk tt s2 ->
  calls_bad fo pr rf (length (dict s)) fuel (length (nested s1)) s1 = false ->
  run_m fo rf (set_nested s2 (nested s)) = RErr k p s3 ->
  exists s', eval fo pr rf fuel src s = RErr k p s' /\
    nested s' = nested s /\ input s' = [] /\ flows s' = flows s /\
    cx s' = (if mode_eqb (cmode (cx s)) MEval then set_ctx_ip (cx s) (ip s3) else cx s) /\
    prefix_of (code s) (code s') /\ prefix_of (dict s) (dict s') /\
    length (dbg s') = length (code s').

(* 3. FOLLOW-UP: after the rejection every later source (any text, any mode, any fuel) and
   every later run gives the same value / the same error kind and payload from the state
   left behind as from the state before, and the two resulting states are again equivalent.
   [ares] / [oares] compare two results: same constructor, same value or error, states related
   by [arel]; [arel s s'] (C10_equivalent_means) is equality of every component of the machine,
   of the length of the debug map and of the lexer positions of pending input.  The only
   side condition: no instruction limit is set, or the meter did not move (the meter is not
   restored, so with a limit the later source has a smaller budget). *)
Theorem C10_later_sources_equivalent : forall fo pr rf fuel src m s s1 k p s2,
  (m = MEval \/ m = MCompile) ->
  build_wf s ->
  (context_open m ;; intern_source src) s = ROk tt s1 ->
  build1 fo pr rf fuel (length (nested s1)) s1 = RErr k p s2 ->
  calls_bad fo pr rf (length (dict s)) fuel (length (nested s1)) s1 = false ->
  exists s', build_from_source fo pr rf fuel src m s = RErr k p s' /\ same_machine s s' /\
    (rlog s' = None <-> rlog s = None) /\
    ((insn_limit s = None \/ meter s' = meter s) ->
     (forall fuel2 src2 m2,
        ares (build_from_source fo pr rf fuel2 src2 m2 s) (build_from_source fo pr rf fuel2 src2 m2 s')) /\
     (forall fuel2, oares (run (native_fn fo) fuel2 s) (run (native_fn fo) fuel2 s'))).
Proof. exact rejected_source_then_later. Qed.
Check C10_later_sources_equivalent : forall fo pr rf fuel src m s s1 k p s2,
  (m = MEval \/ m = MCompile) ->
  build_wf s ->
  (context_open m ;; intern_source src) s = ROk tt s1 ->
  build1 fo pr rf fuel (length (nested s1)) s1 = RErr k p s2 ->
  calls_bad fo pr rf (length (dict s)) fuel (length (nested s1)) s1 = false ->
  exists s', build_from_source fo pr rf fuel src m s = RErr k p s' /\ same_machine s s' /\
    (rlog s' = None <-> rlog s = None) /\
    ((insn_limit s = None \/ meter s' = meter s) ->
     (forall fuel2 src2 m2,
        ares (build_from_source fo pr rf fuel2 src2 m2 s) (build_from_source fo pr rf fuel2 src2 m2 s')) /\
     (forall fuel2, oares (run (native_fn fo) fuel2 s) (run (native_fn fo) fuel2 s'))).

(* the equivalence is a congruence for every later submission, so it extends to any number
   of follow-up sources *)
Theorem C10_equivalence_is_kept : forall fo pr rf s s',
  arel s s' -> forall fuel src m,
  ares (build_from_source fo pr rf fuel src m s) (build_from_source fo pr rf fuel src m s').
Proof. exact later_source_equiv. Qed.
Check C10_equivalence_is_kept : forall fo pr rf s s',
  arel s s' -> forall fuel src m,
  ares (build_from_source fo pr rf fuel src m s) (build_from_source fo pr rf fuel src m s').

Theorem C10_equivalent_means : forall s s', arel s s' ->
  dict s' = dict s /\ heap s' = heap s /\ code s' = code s /\ ds s' = ds s /\ rs s' = rs s /\
  flows s' = flows s /\ loops s' = loops s /\ special s' = special s /\ cx s' = cx s /\
  nested s' = nested s /\ insn_limit s' = insn_limit s /\ heap_limit s' = heap_limit s /\
  stack_limit s' = stack_limit s /\ length (dbg s') = length (dbg s) /\
  Forall2 (fun a b => in_lex a = in_lex b) (input s) (input s') /\
  (insn_limit s = None \/ meter s' = meter s) /\ (rlog s' = None <-> rlog s = None).
Proof. exact arel_machine. Qed.
Check C10_equivalent_means : forall s s', arel s s' ->
  dict s' = dict s /\ heap s' = heap s /\ code s' = code s /\ ds s' = ds s /\ rs s' = rs s /\
  flows s' = flows s /\ loops s' = loops s /\ special s' = special s /\ cx s' = cx s /\
  nested s' = nested s /\ insn_limit s' = insn_limit s /\ heap_limit s' = heap_limit s /\
  stack_limit s' = stack_limit s /\ length (dbg s') = length (dbg s) /\
  Forall2 (fun a b => in_lex a = in_lex b) (input s) (input s') /\
  (insn_limit s = None \/ meter s' = meter s) /\ (rlog s' = None <-> rlog s = None).

(* ---------- non-vacuity and the three refutations ---------- *)
Local Open Scope string_scope.
Definition c10_zf (a b : Z) : Z := 0%Z.
Definition c10_fo : fops := fops_with c10_zf c10_zf c10_zf c10_zf c10_zf c10_zf c10_zf.
Definition c10_pr : string -> option Z := fun _ => None.
Definition c10_eval (src : string) (s : state) : res unit := eval c10_fo c10_pr 1000 1000 src s.
Definition c10_state (r : res unit) : state := match r with ROk _ s => s | RErr _ _ s => s | _ => boot end.
Definition c10_err (r : res unit) : option ekind := match r with RErr k _ _ => Some k | _ => None end.
Definition c10_opened (src : string) (s : state) : state :=
  c10_state ((context_open MEval ;; intern_source src) s).
Definition c10_watch (src : string) (s : state) : bool :=
  calls_bad c10_fo c10_pr 1000 (length (dict s)) 1000 (length (nested (c10_opened src s))) (c10_opened src s).
Definition c10_wf_b (s : state) : bool :=
  match input s with [] => true | _ => false end &&
  (length (dbg s) =? length (code s))%nat && forallb (fun op => negb (is_resolve op)) (code s).
(* the comparable part of [same_machine] (cells, opcodes and dictionary entries contain
   functions-free data but no decidable equality is defined on them in the model; lengths and
   the data stack rendered through the model's own cell equality are enough for a witness) *)
Definition c10_obs (s : state) :=
  (length (input s), nested s, cx s, length (code s), length (dbg s), flows s, length (dict s),
   length (rs s), length (loops s), special s, length (heap s), length (ds s)).

(* a state with history: two values on the stack, a definition, a variable *)
Definition c10_s0 : state := c10_state (c10_eval "7 8 : sq dup * ; var v 3 ! v" boot).

Example C10_ex_wf : c10_wf_b boot = true /\ c10_wf_b c10_s0 = true.
Proof. vm_compute. split; reflexivity. Qed.

(* an unknown word after an open [if], a definition and a meta block with an open vector:
   rejected at build time, the watch is silent, everything observable is back *)
Example C10_ex_rejected :
  let src := "true if : f 2 ; 9 #( 1 2 [ 3 #) foo then" in
  c10_err (c10_eval src c10_s0) = Some EFlow /\
  c10_watch src c10_s0 = false /\
  c10_obs (c10_state (c10_eval src c10_s0)) = c10_obs c10_s0.
Proof. vm_compute. repeat split; reflexivity. Qed.

Example C10_ex_rejected_unknown :
  let src := "9 var w : f 2 ; true if #( 1 2 + #) foo then" in
  c10_err (c10_eval src c10_s0) = Some EUnknown /\
  c10_watch src c10_s0 = false /\
  c10_obs (c10_state (c10_eval src c10_s0)) = c10_obs c10_s0.
Proof. vm_compute. repeat split; reflexivity. Qed.

(* all hypotheses of C10_rejected_source_restores / C10_later_sources_equivalent hold together
   for this state and this source (so the theorems are not vacuous) *)
Example C10_ex_hypotheses :
  let s := wit_state (wit_eval "7 8 : sq dup * ; var v 3 ! v" boot) in
  let src := "9 var w : f 2 ; true if #( 1 2 + #) foo then" in
  build_wf s /\
  (context_open MEval ;; intern_source src) s = ROk tt (wit_opened src s) /\
  wit_built src s = RErr EUnknown None (wit_state (wit_built src s)) /\
  calls_bad wit_fo wit_pr wit_rf (length (dict s)) wit_fuel
            (length (nested (wit_opened src s))) (wit_opened src s) = false /\
  insn_limit s = None.
Proof. split; [apply wf_b_sound; vm_compute; reflexivity|]. vm_compute. repeat split; reflexivity. Qed.

(* the follow-up: a probe evaluated after the rejected source gives the stack it gives without it *)
Example C10_ex_followup :
  let src := "9 var w : f 2 ; true if #( 1 2 + #) foo then" in
  let probe := ": g sq 1 + ; v g 5 var w w" in
  c10_err (c10_eval probe (c10_state (c10_eval src c10_s0))) = None /\
  ds (c10_state (c10_eval probe (c10_state (c10_eval src c10_s0)))) = ds (c10_state (c10_eval probe c10_s0)) /\
  ds (c10_state (c10_eval probe c10_s0)) = [CInt 5; CInt 10; CInt 7].
Proof. vm_compute. repeat split; reflexivity. Qed.

(* a source failing at run time: eval reports the error, the next line starts at its own code *)
Example C10_ex_runtime_failure :
  let s1 := c10_state (c10_eval "1 0 / 55" c10_s0) in
  c10_err (c10_eval "1 0 / 55" c10_s0) = Some EDivZero /\
  is_running s1 = true /\ nested s1 = [] /\
  c10_err (c10_eval "66" s1) = None /\ ds (c10_state (c10_eval "66" s1)) = [CInt 66; CInt 7].
Proof. vm_compute. repeat split; reflexivity. Qed.

(* ---------- the hypotheses cannot be dropped (witnesses: Proofs/UnwindWitness.v) ---------- *)
(* F1: a user-defined immediate word runs in the outer context while the source is built; the
   value it drops is not given back by the unwinding: all hypotheses but [calls_bad = false]
   hold, the source is rejected at build time, and the data stack has lost its top *)
Theorem C10_user_immediate_refuted :
  build_wf f1_s /\
  (context_open MEval ;; intern_source f1_src) f1_s = ROk tt (wit_opened f1_src f1_s) /\
  wit_built f1_src f1_s = RErr EUnknown None (wit_state (wit_built f1_src f1_s)) /\
  calls_bad wit_fo wit_pr wit_rf (length (dict f1_s)) wit_fuel
            (length (nested (wit_opened f1_src f1_s))) (wit_opened f1_src f1_s) = true /\
  eval wit_fo wit_pr wit_rf wit_fuel f1_src f1_s = RErr EUnknown None (wit_unwound f1_src f1_s) /\
  ds f1_s = [CInt 8; CInt 7] /\ ds (wit_unwound f1_src f1_s) = [CInt 7].
Proof. exact user_immediate_refuted. Qed.
Check C10_user_immediate_refuted :
  build_wf f1_s /\
  (context_open MEval ;; intern_source f1_src) f1_s = ROk tt (wit_opened f1_src f1_s) /\
  wit_built f1_src f1_s = RErr EUnknown None (wit_state (wit_built f1_src f1_s)) /\
  calls_bad wit_fo wit_pr wit_rf (length (dict f1_s)) wit_fuel
            (length (nested (wit_opened f1_src f1_s))) (wit_opened f1_src f1_s) = true /\
  eval wit_fo wit_pr wit_rf wit_fuel f1_src f1_s = RErr EUnknown None (wit_unwound f1_src f1_s) /\
  ds f1_s = [CInt 8; CInt 7] /\ ds (wit_unwound f1_src f1_s) = [CInt 7].

(* F2: [const] overwrites an existing constant in place; the rejected source's value stays *)
Theorem C10_const_refuted :
  build_wf f2_s /\
  (context_open MEval ;; intern_source f2_src) f2_s = ROk tt (wit_opened f2_src f2_s) /\
  wit_built f2_src f2_s = RErr EUnknown None (wit_state (wit_built f2_src f2_s)) /\
  calls_bad wit_fo wit_pr wit_rf (length (dict f2_s)) wit_fuel
            (length (nested (wit_opened f2_src f2_s))) (wit_opened f2_src f2_s) = true /\
  eval wit_fo wit_pr wit_rf wit_fuel f2_src f2_s = RErr EUnknown None (wit_unwound f2_src f2_s) /\
  dict_entry f2_s "X" = Some (DConst (CInt 1)) /\
  dict_entry (wit_unwound f2_src f2_s) "X" = Some (DConst (CInt 5)).
Proof. exact const_refuted. Qed.
Check C10_const_refuted :
  build_wf f2_s /\
  (context_open MEval ;; intern_source f2_src) f2_s = ROk tt (wit_opened f2_src f2_s) /\
  wit_built f2_src f2_s = RErr EUnknown None (wit_state (wit_built f2_src f2_s)) /\
  calls_bad wit_fo wit_pr wit_rf (length (dict f2_s)) wit_fuel
            (length (nested (wit_opened f2_src f2_s))) (wit_opened f2_src f2_s) = true /\
  eval wit_fo wit_pr wit_rf wit_fuel f2_src f2_s = RErr EUnknown None (wit_unwound f2_src f2_s) /\
  dict_entry f2_s "X" = Some (DConst (CInt 1)) /\
  dict_entry (wit_unwound f2_src f2_s) "X" = Some (DConst (CInt 5)).

(* F3: an unresolved [late] stub below the mark is resolved by build-time execution to a
   definition of the rejected source and keeps pointing into the truncated code: every
   hypothesis but "no unresolved stub" holds, the code cell is changed, and a later source that
   leaves 1 from the state before fails with a stack underflow from the state after *)
Theorem C10_late_stub_refuted :
  input f3_s = [] /\ length (dbg f3_s) = length (code f3_s) /\
  nth_error (code f3_s) 1 = Some (OResolve "foo") /\
  (context_open MEval ;; intern_source f3_src) f3_s = ROk tt (wit_opened f3_src f3_s) /\
  wit_built f3_src f3_s = RErr EUnknown None (wit_state (wit_built f3_src f3_s)) /\
  calls_bad wit_fo wit_pr wit_rf (length (dict f3_s)) wit_fuel
            (length (nested (wit_opened f3_src f3_s))) (wit_opened f3_src f3_s) = false /\
  eval wit_fo wit_pr wit_rf wit_fuel f3_src f3_s = RErr EUnknown None (wit_unwound f3_src f3_s) /\
  nth_error (code (wit_unwound f3_src f3_s)) 1 = Some (OCall 7) /\
  length (code (wit_unwound f3_src f3_s)) = 6 /\
  (exists s', wit_eval f3_probe f3_s = ROk tt s' /\ ds s' = [CInt 1]) /\
  (exists s', wit_eval f3_probe (wit_unwound f3_src f3_s) = RErr EUnderflow None s').
Proof. exact late_stub_refuted. Qed.
Check C10_late_stub_refuted :
  input f3_s = [] /\ length (dbg f3_s) = length (code f3_s) /\
  nth_error (code f3_s) 1 = Some (OResolve "foo") /\
  (context_open MEval ;; intern_source f3_src) f3_s = ROk tt (wit_opened f3_src f3_s) /\
  wit_built f3_src f3_s = RErr EUnknown None (wit_state (wit_built f3_src f3_s)) /\
  calls_bad wit_fo wit_pr wit_rf (length (dict f3_s)) wit_fuel
            (length (nested (wit_opened f3_src f3_s))) (wit_opened f3_src f3_s) = false /\
  eval wit_fo wit_pr wit_rf wit_fuel f3_src f3_s = RErr EUnknown None (wit_unwound f3_src f3_s) /\
  nth_error (code (wit_unwound f3_src f3_s)) 1 = Some (OCall 7) /\
  length (code (wit_unwound f3_src f3_s)) = 6 /\
  (exists s', wit_eval f3_probe f3_s = ROk tt s' /\ ds s' = [CInt 1]) /\
  (exists s', wit_eval f3_probe (wit_unwound f3_src f3_s) = RErr EUnderflow None s').
