(* C01 - placeholder until Proofs/StructProofs.v is merged *)
From Xeh Require Import Model.Prelude Model.Vm Model.Struct.

Theorem C01_empty_block : forall fo funs f s, sblock fo funs (S f) [] s = SDone s.
Proof. reflexivity. Qed.
Check C01_empty_block : forall fo funs f s, sblock fo funs (S f) [] s = SDone s.
