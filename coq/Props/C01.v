(* C01 - the compiled bytecode does what a direct structural evaluation of the source does.
   Property theorems only; every one is closed by [exact] of a lemma proved in Proofs/Compile*.v.

   The bytecode in question is the jump-resolved layout of Struct.v ([lay_block] / [lay_top] /
   [layout_program]); every verification run compares it cell by cell with what the real
   compiler emits, so a theorem about the layout is a theorem about the compiler's output.

   What is proved (forward simulation, by induction on the evaluator's fuel): started at the
   first cell of the layout of a tree, in a state related to the evaluator's state, the machine
     - reaches the cell behind the layout with a related state when the evaluator returns
       [SDone] (for a whole program at the end of the code vector: [run] returns that state);
     - stands AT the `break` instruction of the enclosing loop, with a related state, when the
       evaluator returns [SBroke] (do / begin-repeat / begin-while-repeat catch it: they
       never return [SBroke], and the theorem for them has no such case);
     - fails: after some steps the next instruction returns the same kind of error with the
       same payload, leaving a related state, when the evaluator returns [SFail].  The token
       position [p] of [SFail] is NOT compared: it needs the debug map, which the layout does
       not produce.
     - [SOut] (evaluator out of fuel) and [SUnsup] (outside the model): no claim.
   Because [steps] / [run] are functions, this also fixes what [run] can return
   ([C01_run_converse]).

   Vocabulary (Proofs/CompileSim.v, CompileLayout.v, CompileStep.v, CompileProg.v):
   - [sim t s]: the evaluator's state [t] and the machine's state [s] agree on EVERY component
     (data stack, heap = variables, output, loop stack, special stack, dictionary, code,
     limits, flags, the marks of the context, the LOCALS of every return-stack frame) except
     the instruction pointer, the instruction meter and the fn_addr / return_to fields of the
     return-stack frames (the evaluator pushes [mkframe 0 0 []] for a call).
   - [rskeys s]: the (fn_addr, return_to) pairs of the machine's return stack.
   - [code_at c org l]: the code vector [c] contains the list [l] at address [org].
   - [funs_placed funs faddr c]: every function body of [funs] is laid out in [c] at its
     address [faddr g], followed by Ret, is well formed and has no pending break.
   - [wf_b] / [wf_s]: the body of every begin ... until is free of pending breaks; [nb_b]:
     no `break` that belongs to a loop outside of the tree; [brk_ok bc b]: with no enclosing
     loop ([bc = BNone]) the tree has no pending break.  [prog_wf funs l]: top level and
     function bodies are [wf_b] and [nb_b], every function is defined by a top-level `:`.
     These are the conditions under which the compiler accepts a tree; EVERY tree returned by
     the parser whose layout exists satisfies them ([C01_parsed_program_well_formed]), so the
     source-level theorems have no such hypothesis.
   - [agrees nf s endp bc r] / [run_agrees fo s r]: spelled out by [C01_agrees_is] /
     [C01_run_agrees_is].

   Hypotheses that restrict the theorems: recording is off ([rlog s = None]: the machine logs
   SetIp entries the evaluator has no counterpart for) and there is no instruction limit
   ([insn_limit s = None]: the evaluator does not count instructions).  Stack and heap limits
   are NOT restricted: both sides hit them at the same point with the same error. *)
From Xeh Require Import Model.Prelude Model.Bits Model.Cell Model.Lexer Model.Vm Model.Words Model.Struct Model.Boot.
From Xeh Require Import Proofs.CompileSim Proofs.CompileLayout Proofs.CompileStep Proofs.CompileEval
                        Proofs.CompileFwd Proofs.CompileFwd2 Proofs.CompileProg Proofs.CompileLoop
                        Proofs.CompileRegion Proofs.CompileParse3 Proofs.CompileMain.
Local Notation length := List.length.

(* ---------- the relation ---------- *)
Theorem C01_sim_is : forall t s,
  sim t s <->
  set_rs (set_meter (set_ip_raw t 0) 0%Z) (map (fun f => mkframe 0 0 (locals f)) (rs t)) =
  set_rs (set_meter (set_ip_raw s 0) 0%Z) (map (fun f => mkframe 0 0 (locals f)) (rs s)).
Proof. exact sim_is. Qed.
Check C01_sim_is : forall t s,
  sim t s <->
  set_rs (set_meter (set_ip_raw t 0) 0%Z) (map (fun f => mkframe 0 0 (locals f)) (rs t)) =
  set_rs (set_meter (set_ip_raw s 0) 0%Z) (map (fun f => mkframe 0 0 (locals f)) (rs s)).

Theorem C01_sim_observables : forall t s, sim t s ->
  ds t = ds s /\ heap t = heap s /\ out t = out s /\ loops t = loops s /\ special t = special s /\
  map locals (rs t) = map locals (rs s) /\ code t = code s /\ dict t = dict s /\
  stack_limit t = stack_limit s /\ heap_limit t = heap_limit s /\ stopping t = stopping s.
Proof. exact sim_observables. Qed.
Check C01_sim_observables : forall t s, sim t s ->
  ds t = ds s /\ heap t = heap s /\ out t = out s /\ loops t = loops s /\ special t = special s /\
  map locals (rs t) = map locals (rs s) /\ code t = code s /\ dict t = dict s /\
  stack_limit t = stack_limit s /\ heap_limit t = heap_limit s /\ stopping t = stopping s.

(* the evaluator may simply start from the machine's own state *)
Theorem C01_sim_start : forall s, sim s s.
Proof. exact sim_start. Qed.
Check C01_sim_start : forall s, sim s s.

(* every native word runs the same way on both sides: none of them reads or changes the
   instruction pointer, the meter or the addresses on the return stack *)
Theorem C01_natives_respect_sim : forall fo w m t s,
  native_fn fo w = Some m -> sim t s -> rlog s = None ->
  match m t, m s with
  | ROk _ t', ROk _ s' =>
    sim t' s' /\ ip s' = ip s /\ meter s' = meter s /\ code s' = code s /\ rskeys s' = rskeys s
  | RErr k p t', RErr k' p' s' => k = k' /\ p = p' /\ sim t' s'
  | RPanic, RPanic => True
  | RUnsup, RUnsup => True
  | _, _ => False
  end.
Proof. exact native_respects_sim. Qed.
Check C01_natives_respect_sim : forall fo w m t s,
  native_fn fo w = Some m -> sim t s -> rlog s = None ->
  match m t, m s with
  | ROk _ t', ROk _ s' =>
    sim t' s' /\ ip s' = ip s /\ meter s' = meter s /\ code s' = code s /\ rskeys s' = rskeys s
  | RErr k p t', RErr k' p' s' => k = k' /\ p = p' /\ sim t' s'
  | RPanic, RPanic => True
  | RUnsup, RUnsup => True
  | _, _ => False
  end.

(* ---------- vocabulary, spelled out ---------- *)
Theorem C01_agrees_is : forall nf s endp bc r,
  agrees nf s endp bc r <->
  match r with
  | SDone t' =>
    exists n s', steps nf n s = Some s' /\ ip s' = endp /\ sim t' s' /\
                 code s' = code s /\ rlog s' = None /\ insn_limit s' = None /\ rskeys s' = rskeys s
  | SBroke t' =>
    exists n s', steps nf n s = Some s' /\
                 nth_error (code s) (ip s') = Some (brk_op (ip s') bc) /\ bc <> BNone /\ sim t' s' /\
                 code s' = code s /\ rlog s' = None /\ insn_limit s' = None /\ rskeys s' = rskeys s
  | SFail k pl _ t' =>
    exists n sN s', steps nf n s = Some sN /\ insn_limit sN = None /\
                    fetch_and_run nf sN = RErr k pl s' /\ sim t' s'
  | SOut => True
  | SUnsup => True
  end.
Proof. exact agrees_is. Qed.
Check C01_agrees_is : forall nf s endp bc r,
  agrees nf s endp bc r <->
  match r with
  | SDone t' =>
    exists n s', steps nf n s = Some s' /\ ip s' = endp /\ sim t' s' /\
                 code s' = code s /\ rlog s' = None /\ insn_limit s' = None /\ rskeys s' = rskeys s
  | SBroke t' =>
    exists n s', steps nf n s = Some s' /\
                 nth_error (code s) (ip s') = Some (brk_op (ip s') bc) /\ bc <> BNone /\ sim t' s' /\
                 code s' = code s /\ rlog s' = None /\ insn_limit s' = None /\ rskeys s' = rskeys s
  | SFail k pl _ t' =>
    exists n sN s', steps nf n s = Some sN /\ insn_limit sN = None /\
                    fetch_and_run nf sN = RErr k pl s' /\ sim t' s'
  | SOut => True
  | SUnsup => True
  end.

Theorem C01_run_agrees_is : forall fo s r,
  run_agrees fo s r <->
  match r with
  | SDone t' =>
    exists N s', (forall k, N < k -> run (native_fn fo) k s = Some (ROk tt s')) /\ sim t' s'
  | SFail kd pl _ t' =>
    exists N s', (forall k, N < k -> run (native_fn fo) k s = Some (RErr kd pl s')) /\ sim t' s'
  | _ => True
  end.
Proof. exact run_agrees_is. Qed.
Check C01_run_agrees_is : forall fo s r,
  run_agrees fo s r <->
  match r with
  | SDone t' =>
    exists N s', (forall k, N < k -> run (native_fn fo) k s = Some (ROk tt s')) /\ sim t' s'
  | SFail kd pl _ t' =>
    exists N s', (forall k, N < k -> run (native_fn fo) k s = Some (RErr kd pl s')) /\ sim t' s'
  | _ => True
  end.

Theorem C01_funs_placed_is : forall funs faddr c,
  funs_placed funs faddr c <->
  (forall g body, fun_body funs g = Some body ->
     code_at c (faddr g) (lay_block faddr body (faddr g) BNone ++ [ORet]) /\ wf_b body /\ nb_b body).
Proof. exact funs_placed_is. Qed.
Check C01_funs_placed_is : forall funs faddr c,
  funs_placed funs faddr c <->
  (forall g body, fun_body funs g = Some body ->
     code_at c (faddr g) (lay_block faddr body (faddr g) BNone ++ [ORet]) /\ wf_b body /\ nb_b body).

Theorem C01_code_at_is : forall c org l,
  code_at c org l <-> (forall i op, nth_error l i = Some op -> nth_error c (org + i) = Some op).
Proof. exact code_at_is. Qed.
Check C01_code_at_is : forall c org l,
  code_at c org l <-> (forall i op, nth_error l i = Some op -> nth_error c (org + i) = Some op).

Theorem C01_prog_wf_is : forall funs l,
  prog_wf funs l <->
  (wf_b l /\ nb_b l /\
   Forall (fun gb => In (SDef (fst gb)) l /\ wf_b (snd gb) /\ nb_b (snd gb)) funs).
Proof. exact prog_wf_is. Qed.
Check C01_prog_wf_is : forall funs l,
  prog_wf funs l <->
  (wf_b l /\ nb_b l /\
   Forall (fun gb => In (SDef (fst gb)) l /\ wf_b (snd gb) /\ nb_b (snd gb)) funs).

Theorem C01_brk_ok_is : forall bc b, brk_ok bc b <-> (bc = BNone -> nb_b b).
Proof. exact brk_ok_is. Qed.
Check C01_brk_ok_is : forall bc b, brk_ok bc b <-> (bc = BNone -> nb_b b).

(* ---------- blocks and statements: every nesting, every break context ---------- *)
Theorem C01_block_simulation : forall fo funs faddr fuel b org bc t s,
  funs_placed funs faddr (code s) -> wf_b b -> brk_ok bc b ->
  firstn (size_block b) (skipn org (code s)) = lay_block faddr b org bc ->
  rlog s = None -> insn_limit s = None -> ip s = org -> sim t s ->
  agrees (native_fn fo) s (org + size_block b) bc (sblock fo funs fuel b t).
Proof. exact fwd_block. Qed.
Check C01_block_simulation : forall fo funs faddr fuel b org bc t s,
  funs_placed funs faddr (code s) -> wf_b b -> brk_ok bc b ->
  firstn (size_block b) (skipn org (code s)) = lay_block faddr b org bc ->
  rlog s = None -> insn_limit s = None -> ip s = org -> sim t s ->
  agrees (native_fn fo) s (org + size_block b) bc (sblock fo funs fuel b t).

Theorem C01_stmt_simulation : forall fo funs faddr fuel x org bc t s,
  funs_placed funs faddr (code s) -> wf_s x -> brk_ok_s bc x ->
  firstn (size_stmt x) (skipn org (code s)) = lay_stmt faddr x org bc ->
  rlog s = None -> insn_limit s = None -> ip s = org -> sim t s ->
  agrees (native_fn fo) s (org + size_stmt x) bc (sstmt fo funs fuel x t).
Proof. exact fwd_stmt. Qed.
Check C01_stmt_simulation : forall fo funs faddr fuel x org bc t s,
  funs_placed funs faddr (code s) -> wf_s x -> brk_ok_s bc x ->
  firstn (size_stmt x) (skipn org (code s)) = lay_stmt faddr x org bc ->
  rlog s = None -> insn_limit s = None -> ip s = org -> sim t s ->
  agrees (native_fn fo) s (org + size_stmt x) bc (sstmt fo funs fuel x t).

(* the three cases of a block, spelled out *)
Theorem C01_block_done : forall fo funs faddr fuel b org bc t s t',
  funs_placed funs faddr (code s) -> wf_b b -> brk_ok bc b ->
  firstn (size_block b) (skipn org (code s)) = lay_block faddr b org bc ->
  rlog s = None -> insn_limit s = None -> ip s = org -> sim t s ->
  sblock fo funs fuel b t = SDone t' ->
  exists n s', steps (native_fn fo) n s = Some s' /\ ip s' = org + size_block b /\ sim t' s' /\
               code s' = code s /\ rlog s' = None /\ insn_limit s' = None /\ rskeys s' = rskeys s.
Proof. exact block_done. Qed.
Check C01_block_done : forall fo funs faddr fuel b org bc t s t',
  funs_placed funs faddr (code s) -> wf_b b -> brk_ok bc b ->
  firstn (size_block b) (skipn org (code s)) = lay_block faddr b org bc ->
  rlog s = None -> insn_limit s = None -> ip s = org -> sim t s ->
  sblock fo funs fuel b t = SDone t' ->
  exists n s', steps (native_fn fo) n s = Some s' /\ ip s' = org + size_block b /\ sim t' s' /\
               code s' = code s /\ rlog s' = None /\ insn_limit s' = None /\ rskeys s' = rskeys s.

Theorem C01_block_broke : forall fo funs faddr fuel b org bc t s t',
  funs_placed funs faddr (code s) -> wf_b b -> brk_ok bc b ->
  firstn (size_block b) (skipn org (code s)) = lay_block faddr b org bc ->
  rlog s = None -> insn_limit s = None -> ip s = org -> sim t s ->
  sblock fo funs fuel b t = SBroke t' ->
  exists n s', steps (native_fn fo) n s = Some s' /\ sim t' s' /\
    match bc with
    | BNone => False
    | BJump target => nth_error (code s) (ip s') = Some (OJump (rel (ip s') target))
    | BLoop target => nth_error (code s) (ip s') = Some (OBreak (rel (ip s') target))
    end.
Proof. exact block_broke. Qed.
Check C01_block_broke : forall fo funs faddr fuel b org bc t s t',
  funs_placed funs faddr (code s) -> wf_b b -> brk_ok bc b ->
  firstn (size_block b) (skipn org (code s)) = lay_block faddr b org bc ->
  rlog s = None -> insn_limit s = None -> ip s = org -> sim t s ->
  sblock fo funs fuel b t = SBroke t' ->
  exists n s', steps (native_fn fo) n s = Some s' /\ sim t' s' /\
    match bc with
    | BNone => False
    | BJump target => nth_error (code s) (ip s') = Some (OJump (rel (ip s') target))
    | BLoop target => nth_error (code s) (ip s') = Some (OBreak (rel (ip s') target))
    end.

Theorem C01_block_fail : forall fo funs faddr fuel b org bc t s k pl p t',
  funs_placed funs faddr (code s) -> wf_b b -> brk_ok bc b ->
  firstn (size_block b) (skipn org (code s)) = lay_block faddr b org bc ->
  rlog s = None -> insn_limit s = None -> ip s = org -> sim t s ->
  sblock fo funs fuel b t = SFail k pl p t' ->
  exists n sN s', steps (native_fn fo) n s = Some sN /\
                  fetch_and_run (native_fn fo) sN = RErr k pl s' /\ sim t' s'.
Proof. exact block_fail. Qed.
Check C01_block_fail : forall fo funs faddr fuel b org bc t s k pl p t',
  funs_placed funs faddr (code s) -> wf_b b -> brk_ok bc b ->
  firstn (size_block b) (skipn org (code s)) = lay_block faddr b org bc ->
  rlog s = None -> insn_limit s = None -> ip s = org -> sim t s ->
  sblock fo funs fuel b t = SFail k pl p t' ->
  exists n sN s', steps (native_fn fo) n s = Some sN /\
                  fetch_and_run (native_fn fo) sN = RErr k pl s' /\ sim t' s'.

(* ---------- the loops that catch `break`: the clean statement-level theorem ---------- *)
Theorem C01_loops_catch_break : forall fo funs fuel x t t',
  (exists p b pl, x = SDo p b pl) \/ (exists b, x = SRepeat b) \/ (exists c p b, x = SWhile c p b) ->
  sstmt fo funs fuel x t <> SBroke t'.
Proof. exact loops_no_broke. Qed.
Check C01_loops_catch_break : forall fo funs fuel x t t',
  (exists p b pl, x = SDo p b pl) \/ (exists b, x = SRepeat b) \/ (exists c p b, x = SWhile c p b) ->
  sstmt fo funs fuel x t <> SBroke t'.

Theorem C01_loop_statement : forall fo funs faddr fuel x org bc t s,
  (exists p b pl, x = SDo p b pl) \/ (exists b, x = SRepeat b) \/ (exists c p b, x = SWhile c p b) ->
  funs_placed funs faddr (code s) -> wf_s x ->
  firstn (size_stmt x) (skipn org (code s)) = lay_stmt faddr x org bc ->
  rlog s = None -> insn_limit s = None -> ip s = org -> sim t s ->
  match sstmt fo funs fuel x t with
  | SDone t' =>
    exists n s', steps (native_fn fo) n s = Some s' /\ ip s' = org + size_stmt x /\ sim t' s' /\
                 rskeys s' = rskeys s
  | SBroke _ => False
  | SFail k pl _ t' =>
    exists n sN s', steps (native_fn fo) n s = Some sN /\
                    fetch_and_run (native_fn fo) sN = RErr k pl s' /\ sim t' s'
  | SOut => True
  | SUnsup => True
  end.
Proof. exact loop_stmt. Qed.
Check C01_loop_statement : forall fo funs faddr fuel x org bc t s,
  (exists p b pl, x = SDo p b pl) \/ (exists b, x = SRepeat b) \/ (exists c p b, x = SWhile c p b) ->
  funs_placed funs faddr (code s) -> wf_s x ->
  firstn (size_stmt x) (skipn org (code s)) = lay_stmt faddr x org bc ->
  rlog s = None -> insn_limit s = None -> ip s = org -> sim t s ->
  match sstmt fo funs fuel x t with
  | SDone t' =>
    exists n s', steps (native_fn fo) n s = Some s' /\ ip s' = org + size_stmt x /\ sim t' s' /\
                 rskeys s' = rskeys s
  | SBroke _ => False
  | SFail k pl _ t' =>
    exists n sN s', steps (native_fn fo) n s = Some sN /\
                    fetch_and_run (native_fn fo) sN = RErr k pl s' /\ sim t' s'
  | SOut => True
  | SUnsup => True
  end.

(* ---------- whole programs: definitions inline behind a jump, calls, recursion ---------- *)
(* the layout puts every function where [def_addrs] says *)
Theorem C01_layout_places_functions : forall funs l org prog c,
  layout_program funs l org = Some prog -> prog_wf funs l ->
  firstn (length prog) (skipn org c) = prog ->
  funs_placed funs (addr_lookup (def_addrs funs l org)) c.
Proof. exact layout_places_functions. Qed.
Check C01_layout_places_functions : forall funs l org prog c,
  layout_program funs l org = Some prog -> prog_wf funs l ->
  firstn (length prog) (skipn org c) = prog ->
  funs_placed funs (addr_lookup (def_addrs funs l org)) c.

Theorem C01_program_simulation : forall fo funs l org prog fuel t s,
  layout_program funs l org = Some prog -> prog_wf funs l ->
  firstn (length prog) (skipn org (code s)) = prog ->
  rlog s = None -> insn_limit s = None -> ip s = org -> sim t s ->
  agrees (native_fn fo) s (org + length prog) BNone (sblock fo funs fuel l t).
Proof. exact fwd_program. Qed.
Check C01_program_simulation : forall fo funs l org prog fuel t s,
  layout_program funs l org = Some prog -> prog_wf funs l ->
  firstn (length prog) (skipn org (code s)) = prog ->
  rlog s = None -> insn_limit s = None -> ip s = org -> sim t s ->
  agrees (native_fn fo) s (org + length prog) BNone (sblock fo funs fuel l t).

(* the program is the tail of the code vector: what [run] returns *)
Theorem C01_program_run : forall fo funs l org prog fuel t s,
  layout_program funs l org = Some prog -> prog_wf funs l ->
  skipn org (code s) = prog ->
  rlog s = None -> insn_limit s = None -> ip s = org -> sim t s ->
  run_agrees fo s (sblock fo funs fuel l t).
Proof. exact fwd_program_run. Qed.
Check C01_program_run : forall fo funs l org prog fuel t s,
  layout_program funs l org = Some prog -> prog_wf funs l ->
  skipn org (code s) = prog ->
  rlog s = None -> insn_limit s = None -> ip s = org -> sim t s ->
  run_agrees fo s (sblock fo funs fuel l t).

(* converse piece (determinism): whatever [run] returns is what the evaluator's answer predicts;
   in particular a run that ends normally excludes [SFail] and a failing run excludes [SDone] *)
Theorem C01_run_converse : forall fo funs l org prog fuel t s k r,
  layout_program funs l org = Some prog -> prog_wf funs l ->
  skipn org (code s) = prog ->
  rlog s = None -> insn_limit s = None -> ip s = org -> sim t s ->
  run (native_fn fo) k s = Some r ->
  match sblock fo funs fuel l t with
  | SDone t' => exists s', r = ROk tt s' /\ sim t' s'
  | SFail kd pl _ t' => exists s', r = RErr kd pl s' /\ sim t' s'
  | _ => True
  end.
Proof. exact run_converse. Qed.
Check C01_run_converse : forall fo funs l org prog fuel t s k r,
  layout_program funs l org = Some prog -> prog_wf funs l ->
  skipn org (code s) = prog ->
  rlog s = None -> insn_limit s = None -> ip s = org -> sim t s ->
  run (native_fn fo) k s = Some r ->
  match sblock fo funs fuel l t with
  | SDone t' => exists s', r = ROk tt s' /\ sim t' s'
  | SFail kd pl _ t' => exists s', r = RErr kd pl s' /\ sim t' s'
  | _ => True
  end.

(* ---------- every source: the parser only returns well-formed programs ---------- *)
Theorem C01_parsed_program_well_formed : forall fo pr src heap0 l funs n,
  parse_source fo pr src heap0 = Some (l, funs, n) ->
  well_placed funs l = true ->
  prog_wf funs l.
Proof. exact parse_prog_wf. Qed.
Check C01_parsed_program_well_formed : forall fo pr src heap0 l funs n,
  parse_source fo pr src heap0 = Some (l, funs, n) ->
  well_placed funs l = true ->
  prog_wf funs l.

(* [seval_source] is the structural evaluation of the source from [t0] (its variables exist as
   nil cells before any code runs); the machine [s] holds the layout of the parsed source *)
Theorem C01_source_simulation : forall fo pr src org prog fuel t0 s l funs n,
  parse_source fo pr src (length (heap t0)) = Some (l, funs, n) ->
  layout_program funs l org = Some prog ->
  firstn (length prog) (skipn org (code s)) = prog ->
  rlog s = None -> insn_limit s = None -> ip s = org ->
  sim (set_heap t0 (heap t0 ++ repeat CNil (n - length (heap t0)))) s ->
  exists r, seval_source fo pr fuel src t0 = CRun r /\
            agrees (native_fn fo) s (org + length prog) BNone r.
Proof. exact source_steps. Qed.
Check C01_source_simulation : forall fo pr src org prog fuel t0 s l funs n,
  parse_source fo pr src (length (heap t0)) = Some (l, funs, n) ->
  layout_program funs l org = Some prog ->
  firstn (length prog) (skipn org (code s)) = prog ->
  rlog s = None -> insn_limit s = None -> ip s = org ->
  sim (set_heap t0 (heap t0 ++ repeat CNil (n - length (heap t0)))) s ->
  exists r, seval_source fo pr fuel src t0 = CRun r /\
            agrees (native_fn fo) s (org + length prog) BNone r.

Theorem C01_source_run : forall fo pr src org prog fuel t0 s l funs n,
  parse_source fo pr src (length (heap t0)) = Some (l, funs, n) ->
  layout_program funs l org = Some prog ->
  skipn org (code s) = prog ->
  rlog s = None -> insn_limit s = None -> ip s = org ->
  sim (set_heap t0 (heap t0 ++ repeat CNil (n - length (heap t0)))) s ->
  exists r, seval_source fo pr fuel src t0 = CRun r /\ run_agrees fo s r.
Proof. exact source_run. Qed.
Check C01_source_run : forall fo pr src org prog fuel t0 s l funs n,
  parse_source fo pr src (length (heap t0)) = Some (l, funs, n) ->
  layout_program funs l org = Some prog ->
  skipn org (code s) = prog ->
  rlog s = None -> insn_limit s = None -> ip s = org ->
  sim (set_heap t0 (heap t0 ++ repeat CNil (n - length (heap t0)))) s ->
  exists r, seval_source fo pr fuel src t0 = CRun r /\ run_agrees fo s r.

(* ---------- a terminated counted loop leaves no loop index visible to later code ---------- *)
(* the loop stack after do ... loop is the loop stack before it: I / J / K of the code that
   follows see what they saw before the loop (whatever the body did, breaks included) *)
Theorem C01_do_leaves_no_index : forall fo funs fuel p b pl t t',
  sstmt fo funs fuel (SDo p b pl) t = SDone t' -> loops t' = loops t.
Proof. exact do_leaves_no_index. Qed.
Check C01_do_leaves_no_index : forall fo funs fuel p b pl t t',
  sstmt fo funs fuel (SDo p b pl) t = SDone t' -> loops t' = loops t.

Theorem C01_do_leaves_no_index_machine : forall fo funs faddr fuel p b pl org bc t s t',
  funs_placed funs faddr (code s) -> wf_s (SDo p b pl) ->
  firstn (size_stmt (SDo p b pl)) (skipn org (code s)) = lay_stmt faddr (SDo p b pl) org bc ->
  rlog s = None -> insn_limit s = None -> ip s = org -> sim t s ->
  sstmt fo funs fuel (SDo p b pl) t = SDone t' ->
  exists n s', steps (native_fn fo) n s = Some s' /\ ip s' = org + size_stmt (SDo p b pl) /\
               sim t' s' /\ loops s' = loops s.
Proof. exact do_no_index_machine. Qed.
Check C01_do_leaves_no_index_machine : forall fo funs faddr fuel p b pl org bc t s t',
  funs_placed funs faddr (code s) -> wf_s (SDo p b pl) ->
  firstn (size_stmt (SDo p b pl)) (skipn org (code s)) = lay_stmt faddr (SDo p b pl) org bc ->
  rlog s = None -> insn_limit s = None -> ip s = org -> sim t s ->
  sstmt fo funs fuel (SDo p b pl) t = SDone t' ->
  exists n s', steps (native_fn fo) n s = Some s' /\ ip s' = org + size_stmt (SDo p b pl) /\
               sim t' s' /\ loops s' = loops s.

(* ---------- a loop that structurally never terminates never falls through ---------- *)
(* begin ... repeat whose body has no break of its own: the evaluator never finishes it ... *)
Theorem C01_repeat_never_done : forall fo funs,
  funs_nb funs ->
  forall fuel b t t', nb_b b -> sstmt fo funs fuel (SRepeat b) t <> SDone t'.
Proof. exact repeat_never_done. Qed.
Check C01_repeat_never_done : forall fo funs,
  funs_nb funs ->
  forall fuel b t t', nb_b b -> sstmt fo funs fuel (SRepeat b) t <> SDone t'.

Theorem C01_prog_wf_funs_nb : forall funs l, prog_wf funs l -> funs_nb funs.
Proof. exact prog_wf_funs_nb. Qed.
Check C01_prog_wf_funs_nb : forall funs l, prog_wf funs l -> funs_nb funs.

(* ... and the machine, whatever the body does (calls, recursion, errors), is inside the code
   of the loop whenever the return stack is at the depth it had on entry: it never reaches the
   cell behind the loop.  (Pure machine-side invariant: no fuel, no evaluator, any break
   context, any code around the loop, no instruction-limit hypothesis.) *)
Theorem C01_repeat_never_falls_through : forall fo faddr b org bc s,
  nb_b b ->
  firstn (size_stmt (SRepeat b)) (skipn org (code s)) = lay_stmt faddr (SRepeat b) org bc ->
  rlog s = None -> ip s = org ->
  forall n sn, steps (native_fn fo) n s = Some sn -> length (rs sn) = length (rs s) ->
               org <= ip sn < org + size_stmt (SRepeat b).
Proof. exact repeat_no_fall_through. Qed.
Check C01_repeat_never_falls_through : forall fo faddr b org bc s,
  nb_b b ->
  firstn (size_stmt (SRepeat b)) (skipn org (code s)) = lay_stmt faddr (SRepeat b) org bc ->
  rlog s = None -> ip s = org ->
  forall n sn, steps (native_fn fo) n s = Some sn -> length (rs sn) = length (rs s) ->
               org <= ip sn < org + size_stmt (SRepeat b).

(* ---------- non-vacuity ---------- *)
Local Open Scope string_scope.
Definition ex_fo : fops := fops_with Z.add Z.sub Z.mul Z.div Z.rem Z.min Z.max.
Definition ex_pr : string -> option Z := fun _ => None.

(* a recursive definition with a local, a variable, do with I and a break inside if, a call in
   the loop body, case, begin-while-repeat, begin-until *)
Definition ex_src : string :=
  ": fact local n n 1 <= if 1 else n n 1 - fact * then ; 0 var acc 5 0 do I 3 == if break then I fact acc + ! acc loop acc case 1 of 100 endof 10 of 200 endof 300 endcase 0 begin dup 3 < while 1 + repeat begin 1 + dup 6 >= until".
Definition ex_parsed := Eval vm_compute in parse_source ex_fo ex_pr ex_src (length boot_heap).
Definition ex_l := Eval vm_compute in match ex_parsed with Some (l, _, _) => l | None => [] end.
Definition ex_funs := Eval vm_compute in match ex_parsed with Some (_, f, _) => f | None => [] end.
Definition ex_n := Eval vm_compute in match ex_parsed with Some (_, _, n) => n | None => 0 end.
Definition ex_prog := Eval vm_compute in match layout_program ex_funs ex_l 0 with Some p => p | None => [] end.
Definition ex_t0 : state := set_code boot ex_prog.
Definition ex_s : state := set_heap ex_t0 (heap ex_t0 ++ repeat CNil (ex_n - length (heap ex_t0))).

(* the hypotheses of C01_source_run / C01_source_simulation hold ... *)
Example C01_source_hypotheses :
  parse_source ex_fo ex_pr ex_src (length (heap ex_t0)) = Some (ex_l, ex_funs, ex_n) /\
  layout_program ex_funs ex_l 0 = Some ex_prog /\
  skipn 0 (code ex_s) = ex_prog /\ firstn (length ex_prog) (skipn 0 (code ex_s)) = ex_prog /\
  rlog ex_s = None /\ insn_limit ex_s = None /\ ip ex_s = 0 /\
  sim (set_heap ex_t0 (heap ex_t0 ++ repeat CNil (ex_n - length (heap ex_t0)))) ex_s /\
  length ex_funs = 1 /\ length ex_prog = 55.
Proof. vm_compute. repeat split. Qed.

(* ... and both sides finish with the same stack: 0! + 1! + 2! = 4 (break at I = 3), the
   default arm, the while loop counts to 3 and the until loop on to 6 *)
Example C01_source_done :
  exists t' s',
    seval_source ex_fo ex_pr 100 ex_src ex_t0 = CRun (SDone t') /\
    run (native_fn ex_fo) 1000 ex_s = Some (ROk tt s') /\
    sim t' s' /\ ds s' = [CInt 6; CInt 300; CInt 4] /\ loops s' = [] /\ rs s' = [] /\
    nth_error (heap s') 6 = Some (CInt 4) /\ ip s' = 55.
Proof. eexists. eexists. vm_compute. repeat split. Qed.

(* a failing program: division by zero in the sixth iteration; same error kind, same payload,
   same stacks (the loop record is still there) *)
Definition ex_src2 : string := "10 0 do I 5 == if 1 0 / then loop".
Definition ex_l2 := Eval vm_compute in
  match parse_source ex_fo ex_pr ex_src2 (length boot_heap) with Some (l, _, _) => l | None => [] end.
Definition ex_prog2 := Eval vm_compute in match layout_program [] ex_l2 0 with Some p => p | None => [] end.
Definition ex_s2 : state := set_code boot ex_prog2.

Example C01_source_fail :
  parse_source ex_fo ex_pr ex_src2 (length (heap ex_s2)) = Some (ex_l2, [], 6) /\
  layout_program [] ex_l2 0 = Some ex_prog2 /\ skipn 0 (code ex_s2) = ex_prog2 /\
  exists p t' s',
    seval_source ex_fo ex_pr 100 ex_src2 ex_s2 = CRun (SFail EDivZero None p t') /\
    run (native_fn ex_fo) 1000 ex_s2 = Some (RErr EDivZero None s') /\
    sim t' s' /\ loops s' = [mkloop CNil 5 10] /\ ds s' = [].
Proof. split; [|split; [|split]]; try (vm_compute; reflexivity). eexists. eexists. eexists. vm_compute. repeat split. Qed.

(* the hypotheses of the block / statement theorems: a tree with nested do / if / break, laid
   out in a break context, functions placed *)
Example C01_block_hypotheses :
  funs_placed ex_funs (addr_lookup (def_addrs ex_funs ex_l 0)) (code ex_s) /\
  prog_wf ex_funs ex_l /\ funs_nb ex_funs /\
  exists p b pl, In (SDo p b pl) ex_l /\ wf_s (SDo p b pl) /\ In (SIf (78, 80)%nat [SBreak]) b /\
                 firstn (size_stmt (SDo p b pl)) (skipn 19 (code ex_s)) =
                 lay_stmt (addr_lookup (def_addrs ex_funs ex_l 0)) (SDo p b pl) 19 BNone.
Proof.
  assert (W : prog_wf ex_funs ex_l).
  { eapply C01_parsed_program_well_formed with (fo := ex_fo) (pr := ex_pr) (src := ex_src) (heap0 := 6) (n := ex_n);
      vm_compute; reflexivity. }
  split; [|split; [exact W|split; [exact (C01_prog_wf_funs_nb _ _ W)|]]].
  - eapply C01_layout_places_functions with (prog := ex_prog) (org := 0); [vm_compute; reflexivity|exact W|vm_compute; reflexivity].
  - eexists. eexists. eexists. split; [cbn; right; right; right; right; right; left; reflexivity|].
    split; [repeat constructor|]. split; [cbn; right; right; right; left; reflexivity|vm_compute; reflexivity].
Qed.

(* begin 1 drop repeat: the hypotheses of C01_repeat_never_falls_through hold, and after 100
   steps the machine is still inside the three cells of the loop *)
Definition ex_loop : list stmt := [SLit (CInt 1) (0, 1)%nat; SPrim "drop" (2, 6)%nat].
Definition ex_s3 : state := set_code boot (lay_stmt (fun _ => 0) (SRepeat ex_loop) 0 BNone ++ [OLoadNil]).

Example C01_repeat_nonvacuous :
  nb_b ex_loop /\
  firstn (size_stmt (SRepeat ex_loop)) (skipn 0 (code ex_s3)) = lay_stmt (fun _ => 0) (SRepeat ex_loop) 0 BNone /\
  rlog ex_s3 = None /\ ip ex_s3 = 0 /\
  exists sn, steps (native_fn ex_fo) 100 ex_s3 = Some sn /\ length (rs sn) = length (rs ex_s3) /\
             ip sn = 1 /\ size_stmt (SRepeat ex_loop) = 3.
Proof.
  split; [repeat constructor|]. split; [vm_compute; reflexivity|]. split; [reflexivity|]. split; [reflexivity|].
  eexists. vm_compute. repeat split.
Qed.
