(* C08 - placeholder until Proofs/NoPanic.v is merged *)
From Xeh Require Import Model.Prelude Model.Vm.

Theorem C08_pop_never_panics : forall s, pop_data s <> RPanic.
Proof. intros s. unfold pop_data. destruct (ds s); [discriminate|]. destruct (_ <? _); discriminate. Qed.
Check C08_pop_never_panics : forall s, pop_data s <> RPanic.
