(* C08 - no source text, input or API call sequence can crash the interpreter.

   Every mirror function returns a result, an error value, [RUnsup] (behaviour outside the
   model) or [RPanic] - the latter exactly where the Rust code would panic.  For each
   modelled layer the panic outcome is unreachable:
     (a) every native word, for every state and every [fops];
     (b) fetch_and_run / next / run: the only panic of the step function is the fetch
         outside the code vector, and next / run check is_running first;
     (c) reverse_changes / rnext;
     (d) the lexer and token_location: total functions with no panic outcome; token spans
         are ordered and (for UTF-8 text) inside the text;
     (e) the bit-string library under [wf]: no panic outcome; every byte index the
         iterators touch is inside the buffer, the constructors give [wf] values;
     (f) the builder: code_emit panics iff the debug map is shorter than the code; the
         invariant [cd_inv] that excludes this is preserved by every eval / compile call;
         with the flow-stack invariant of Proofs/NoPanicFlow.v no API call sequence from the
         boot state reaches any panic outcome of eval / compile / next / run / rnext.
   Property theorems only: each is closed by [exact] of a lemma of Proofs/NoPanic*.v. *)
From Xeh Require Import Model.Prelude Model.Bits Model.Codec Model.Cell Model.Lexer Model.Fmt
                        Model.Vm Model.Words Model.Build Model.Boot.
From Xeh Require Import Proofs.LexLoc.
From Xeh Require Proofs.NoPanic Proofs.NoPanicLex Proofs.NoPanicBits Proofs.NoPanicBuild Proofs.NoPanicFlow.
Local Notation length := List.length.
Local Open Scope nat_scope.
Local Open Scope list_scope.

(* ---------- (a) native words ---------- *)

Theorem C08_native_words_never_panic : forall fo w f s,
  native_fn fo w = Some f -> f s <> RPanic.
Proof. exact NoPanic.native_no_panic. Qed.
Check C08_native_words_never_panic : forall fo w f s,
  native_fn fo w = Some f -> f s <> RPanic.

(* ---------- (b) step, next, run ---------- *)

(* the instruction limit is reached: the step fails with ELimit before it fetches *)
Definition meter_exhausted (s : state) : bool :=
  match insn_limit s with Some l => (l <=? meter s)%Z | None => false end.

(* the step function panics exactly on a fetch outside the code vector *)
Theorem C08_step_panics_iff_fetch_outside_code : forall fo s,
  fetch_and_run (native_fn fo) s = RPanic <-> (is_running s = false /\ meter_exhausted s = false).
Proof. exact NoPanic.far_panic_iff. Qed.
Check C08_step_panics_iff_fetch_outside_code : forall fo s,
  fetch_and_run (native_fn fo) s = RPanic <-> (is_running s = false /\ meter_exhausted s = false).

Theorem C08_step_never_panics_when_running : forall fo s,
  is_running s = true -> fetch_and_run (native_fn fo) s <> RPanic.
Proof. exact NoPanic.far_no_panic. Qed.
Check C08_step_never_panics_when_running : forall fo s,
  is_running s = true -> fetch_and_run (native_fn fo) s <> RPanic.

Theorem C08_next_never_panics : forall fo s, next (native_fn fo) s <> RPanic.
Proof. exact NoPanic.next_no_panic. Qed.
Check C08_next_never_panics : forall fo s, next (native_fn fo) s <> RPanic.

Theorem C08_run_never_panics : forall fo fuel s, run (native_fn fo) fuel s <> Some RPanic.
Proof. exact NoPanic.run_no_panic. Qed.
Check C08_run_never_panics : forall fo fuel s, run (native_fn fo) fuel s <> Some RPanic.

(* ---------- (c) reverse stepping ---------- *)

Theorem C08_reverse_changes_never_panics : forall r s, reverse_changes r s <> RPanic.
Proof. exact NoPanic.reverse_changes_no_panic. Qed.
Check C08_reverse_changes_never_panics : forall r s, reverse_changes r s <> RPanic.

Theorem C08_rnext_never_panics : forall s, rnext s <> RPanic.
Proof. exact NoPanic.rnext_no_panic. Qed.
Check C08_rnext_never_panics : forall s, rnext s <> RPanic.

(* ---------- (d) lexer and token_location ---------- *)

Theorem C08_lex_next_total : forall l, exists t l', lex_next l = (t, l').
Proof. exact NoPanicLex.lex_next_total. Qed.
Check C08_lex_next_total : forall l, exists t l', lex_next l = (t, l').

Theorem C08_token_location_total : forall s p, exists line col ls le,
  token_location s p = (line, col, ls, le).
Proof. exact NoPanicLex.token_location_total. Qed.
Check C08_token_location_total : forall s p, exists line col ls le,
  token_location s p = (line, col, ls, le).

Theorem C08_lex_span_ordered : forall s t a b, In (t, a, b) (lex_string s) -> a <= b.
Proof. exact NoPanicLex.lex_span_ordered. Qed.
Check C08_lex_span_ordered : forall s t a b, In (t, a, b) (lex_string s) -> a <= b.

(* for UTF-8 text every token span - the span of a final parse-error token included - is
   ordered and inside the text (for byte strings that are not UTF-8 this is false: see
   lex_reaches_end_refuted in Proofs/LexProofs.v) *)
Theorem C08_lex_span_inside : forall s t a b,
  valid_utf8 s = true -> In (t, a, b) (lex_string s) -> a <= b /\ b <= String.length s.
Proof. exact NoPanicLex.lex_span_inside_full. Qed.
Check C08_lex_span_inside : forall s t a b,
  valid_utf8 s = true -> In (t, a, b) (lex_string s) -> a <= b /\ b <= String.length s.

(* ---------- (e) bit-string library ---------- *)

Theorem C08_bit_index_safe : forall c i,
  wf c -> cstart c <= i < cend c -> i / 8 < length (cdata c).
Proof. exact NoPanicBits.bit_index_safe. Qed.
Check C08_bit_index_safe : forall c i,
  wf c -> cstart c <= i < cend c -> i / 8 < length (cdata c).

(* the bytes [bits] reads *)
Theorem C08_bits_index_safe : forall c, wf c ->
  Forall (fun i => i / 8 < length (cdata c)) (seq (cstart c) (clen c)).
Proof. exact NoPanicBits.bits_index_safe. Qed.
Check C08_bits_index_safe : forall c, wf c ->
  Forall (fun i => i / 8 < length (cdata c)) (seq (cstart c) (clen c)).

(* the byte indices Iter8::next reads, following [iter8_go]: data[idx], and data[idx + 1]
   when the group crosses a byte boundary *)
Fixpoint iter8_reads (e fuel pos : nat) : list nat :=
  match fuel with
  | O => []
  | S f =>
    if e <=? pos then [] else
    let len := Nat.min (e - pos) 8 in
    let idx := pos / 8 in
    let n := snd (cut_bits 0 pos (pos + len)) in
    (idx :: (if n <? len then [idx + 1] else [])) ++ iter8_reads e f (pos + len)
  end.

Theorem C08_iter8_index_safe : forall c, wf c ->
  Forall (fun i => i < length (cdata c)) (iter8_reads (cend c) (clen c) (cstart c)).
Proof. exact NoPanicBits.iter8_index_safe. Qed.
Check C08_iter8_index_safe : forall c, wf c ->
  Forall (fun i => i < length (cdata c)) (iter8_reads (cend c) (clen c) (cstart c)).

(* slice / bytes_of: &data[start / 8 .. upper_bound_index(end)] *)
Theorem C08_bytes_range_safe : forall c, wf c ->
  cstart c / 8 <= ubi (cend c) /\ ubi (cend c) <= length (cdata c).
Proof. exact NoPanicBits.bytes_range_safe. Qed.
Check C08_bytes_range_safe : forall c, wf c ->
  cstart c / 8 <= ubi (cend c) /\ ubi (cend c) <= length (cdata c).

Theorem C08_from_int_wf : forall v w o, wf (from_int v w o).
Proof. exact NoPanicBits.from_int_wf'. Qed.
Check C08_from_int_wf : forall v w o, wf (from_int v w o).

Theorem C08_detach_wf : forall u c, wf c -> wf (detach u c).
Proof. exact NoPanicBits.detach_wf. Qed.
Check C08_detach_wf : forall u c, wf c -> wf (detach u c).

Theorem C08_append_wf : forall u c t, wf c -> wf t -> wf (Bits.append u c t).
Proof. exact NoPanicBits.append_wf. Qed.
Check C08_append_wf : forall u c t, wf c -> wf t -> wf (Bits.append u c t).

Theorem C08_invert_wf : forall u c, wf c -> wf (invert u c).
Proof. exact NoPanicBits.invert_wf. Qed.
Check C08_invert_wf : forall u c, wf c -> wf (invert u c).

(* ---------- (f) the builder ---------- *)

(* the debug map covers the code *)
Definition cd_inv (s : state) : Prop := length (code s) <= length (dbg s).

Definition res_all {A} (P : state -> Prop) (r : res A) : Prop :=
  match r with
  | ROk _ s => P s
  | RErr _ _ s => P s
  | _ => True
  end.

Theorem C08_code_emit_panics_iff : forall op s,
  code_emit op s = RPanic <-> length (dbg s) < length (code s).
Proof. exact NoPanicBuild.code_emit_panic_iff. Qed.
Check C08_code_emit_panics_iff : forall op s,
  code_emit op s = RPanic <-> length (dbg s) < length (code s).

Theorem C08_code_emit_never_panics : forall op s, cd_inv s -> code_emit op s <> RPanic.
Proof. exact NoPanicBuild.code_emit_no_panic. Qed.
Check C08_code_emit_never_panics : forall op s, cd_inv s -> code_emit op s <> RPanic.

Theorem C08_code_emit_keeps_inv : forall op s, cd_inv s -> res_all cd_inv (code_emit op s).
Proof. exact NoPanicBuild.code_emit_cd. Qed.
Check C08_code_emit_keeps_inv : forall op s, cd_inv s -> res_all cd_inv (code_emit op s).

Theorem C08_step_keeps_inv : forall fo s,
  cd_inv s -> res_all cd_inv (fetch_and_run (native_fn fo) s).
Proof. exact NoPanicBuild.far_cd_native. Qed.
Check C08_step_keeps_inv : forall fo s,
  cd_inv s -> res_all cd_inv (fetch_and_run (native_fn fo) s).

Theorem C08_context_close_keeps_inv : forall fo rf s,
  cd_inv s -> res_all cd_inv (context_close fo rf s).
Proof. exact NoPanicBuild.context_close_cd. Qed.
Check C08_context_close_keeps_inv : forall fo rf s,
  cd_inv s -> res_all cd_inv (context_close fo rf s).

Theorem C08_build_unwind_keeps_inv : forall depth inputs dsl heapl s,
  cd_inv s -> cd_inv (build_unwind depth inputs dsl heapl s).
Proof. exact NoPanicBuild.build_unwind_cd. Qed.
Check C08_build_unwind_keeps_inv : forall depth inputs dsl heapl s,
  cd_inv s -> cd_inv (build_unwind depth inputs dsl heapl s).

(* whole source submissions keep the invariant (all immediate words, let patterns, nested
   meta contexts, immediate user words, unwinding of a failed build) *)
Theorem C08_eval_keeps_inv : forall fo pr rf bf src s,
  cd_inv s -> res_all cd_inv (eval fo pr rf bf src s).
Proof. exact NoPanicBuild.eval_cd. Qed.
Check C08_eval_keeps_inv : forall fo pr rf bf src s,
  cd_inv s -> res_all cd_inv (eval fo pr rf bf src s).

Theorem C08_compile_keeps_inv : forall fo pr rf bf src s,
  cd_inv s -> res_all cd_inv (compile fo pr rf bf src s).
Proof. exact NoPanicBuild.compile_cd. Qed.
Check C08_compile_keeps_inv : forall fo pr rf bf src s,
  cd_inv s -> res_all cd_inv (compile fo pr rf bf src s).

Theorem C08_rnext_keeps_inv : forall s, cd_inv s -> res_all cd_inv (rnext s).
Proof. exact NoPanicBuild.rnext_cd. Qed.
Check C08_rnext_keeps_inv : forall s, cd_inv s -> res_all cd_inv (rnext s).

(* ---------- API call sequences ---------- *)

(* the states an embedding program can reach from boot through eval, compile, next, run,
   rnext, setting limits and switching recording: every property that holds of boot and is
   kept by every API call holds of s *)
Definition api_reach (fo : fops) (pr : string -> option Z) (s : state) : Prop :=
  forall P : state -> Prop,
    P boot ->
    (forall s rf bf src s', P s -> res_state (eval fo pr rf bf src s) = Some s' -> P s') ->
    (forall s rf bf src s', P s -> res_state (compile fo pr rf bf src s) = Some s' -> P s') ->
    (forall s s', P s -> res_state (next (native_fn fo) s) = Some s' -> P s') ->
    (forall s fuel r s', P s -> run (native_fn fo) fuel s = Some r -> res_state r = Some s' -> P s') ->
    (forall s s', P s -> res_state (rnext s) = Some s' -> P s') ->
    (forall s i h k, P s -> P (set_limits s i h k)) ->
    (forall s l, P s -> P (set_rlog s l)) ->
    P s.

(* in every reachable state: next, run, rnext never panic, and emitting an instruction
   (what every compiled token does) never panics - the part that needs [cd_inv] only *)
Theorem C08_api_step_and_emit_never_panic : forall fo pr s, api_reach fo pr s ->
  next (native_fn fo) s <> RPanic /\
  (forall fuel, run (native_fn fo) fuel s <> Some RPanic) /\
  rnext s <> RPanic /\
  (forall op, code_emit op s <> RPanic).
Proof. exact NoPanicBuild.api_no_panic_partial. Qed.
Check C08_api_step_and_emit_never_panic : forall fo pr s, api_reach fo pr s ->
  next (native_fn fo) s <> RPanic /\
  (forall fuel, run (native_fn fo) fuel s <> Some RPanic) /\
  rnext s <> RPanic /\
  (forall op, code_emit op s <> RPanic).

(* the whole API: in every reachable state no source text makes eval or compile panic, and
   next / run / rnext never panic.  The builder has, besides code_emit, three more panic
   outcomes ([backpatch] outside the code, [backpatch_jump] on an instruction that is not a
   jump, [i_def_end] on a dictionary entry that is not a function); Proofs/NoPanicFlow.v
   excludes them with an invariant on the flow stack ("every entry points at instructions
   of its kind below the code mark of its context, and at a function entry below the
   dictionary mark") carried through every immediate word, let pattern, meta-context close,
   immediate user word and the unwinding of a failed build. *)
Theorem C08_api_never_panics : forall fo pr s, api_reach fo pr s ->
  (forall rf bf src, eval fo pr rf bf src s <> RPanic /\ compile fo pr rf bf src s <> RPanic) /\
  next (native_fn fo) s <> RPanic /\
  (forall fuel, run (native_fn fo) fuel s <> Some RPanic) /\
  rnext s <> RPanic.
Proof. exact NoPanicFlow.api_no_panic. Qed.
Check C08_api_never_panics : forall fo pr s, api_reach fo pr s ->
  (forall rf bf src, eval fo pr rf bf src s <> RPanic /\ compile fo pr rf bf src s <> RPanic) /\
  next (native_fn fo) s <> RPanic /\
  (forall fuel, run (native_fn fo) fuel s <> Some RPanic) /\
  rnext s <> RPanic.

(* the same as an inductive invariant of the API: it holds of boot, every call keeps it (in
   the state a result or an error leaves behind), and under it eval / compile do not panic *)
Theorem C08_builder_invariant_exists : forall fo pr, exists Inv : state -> Prop,
  Inv boot /\
  (forall s rf bf src, Inv s ->
     eval fo pr rf bf src s <> RPanic /\ res_all Inv (eval fo pr rf bf src s) /\
     compile fo pr rf bf src s <> RPanic /\ res_all Inv (compile fo pr rf bf src s)) /\
  (forall s, Inv s -> res_all Inv (next (native_fn fo) s)) /\
  (forall s fuel, Inv s -> match run (native_fn fo) fuel s with Some r => res_all Inv r | None => True end) /\
  (forall s, Inv s -> res_all Inv (rnext s)).
Proof. exact NoPanicFlow.builder_invariant_exists. Qed.
Check C08_builder_invariant_exists : forall fo pr, exists Inv : state -> Prop,
  Inv boot /\
  (forall s rf bf src, Inv s ->
     eval fo pr rf bf src s <> RPanic /\ res_all Inv (eval fo pr rf bf src s) /\
     compile fo pr rf bf src s <> RPanic /\ res_all Inv (compile fo pr rf bf src s)) /\
  (forall s, Inv s -> res_all Inv (next (native_fn fo) s)) /\
  (forall s fuel, Inv s -> match run (native_fn fo) fuel s with Some r => res_all Inv r | None => True end) /\
  (forall s, Inv s -> res_all Inv (rnext s)).

(* ---------- non-vacuity ---------- *)

(* the panic outcome exists in the model and is reachable where the hypotheses fail *)
Example C08_step_outside_code_nonvacuous : forall fo, fetch_and_run (native_fn fo) boot = RPanic.
Proof. intros fo. reflexivity. Qed.

Example C08_code_emit_nonvacuous :
  code_emit ONop (set_code boot [ONop]) = RPanic /\ cd_inv boot.
Proof. split; [reflexivity|]. unfold cd_inv. cbn. lia. Qed.

Example C08_api_reach_nonvacuous : forall fo pr, api_reach fo pr boot.
Proof. exact NoPanicBuild.api_reach_boot. Qed.

Example C08_lex_span_nonvacuous :
  valid_utf8 "1 |zz"%string = true /\
  exists e x y, In (TErr e x y, 2, 4) (lex_string "1 |zz"%string).
Proof. split; [reflexivity|]. vm_compute. do 3 eexists. right. right. left. reflexivity. Qed.

Example C08_native_nonvacuous : forall fo, exists f, native_fn fo "+"%string = Some f.
Proof. intros fo. eexists. reflexivity. Qed.
