(* C09 (IEEE part) - the real-number words are IEEE-754 binary64 arithmetic.
   Props/C09.v shows that on reals every word is exactly the operation of the record [fo : fops];
   this file states what the concrete instance [flocq_fops] of Model/F64.v (the one extracted and
   compared against the implementation) means on REAL NUMBERS: a pattern [p : Z] (64 bits) denotes
   the real [fval p]; + - * / are the correctly rounded (to nearest, ties to even) results,
   overflow gives the infinity of the right sign, NaN / infinite operands follow the IEEE table;
   the integer-arithmetic conversions of Model/F64c.v ARE Flocq's correctly rounded conversions;
   comparison is IEEE comparison; fmod is exact.

   EXCEPTION to the closed-context rule (this file only): the theorems depend on the axioms of
   Flocq / the Coq Reals library and on nothing else -
     Classical_Prop.classic, ClassicalDedekindReals.sig_not_dec,
     ClassicalDedekindReals.sig_forall_dec, FunctionalExtensionality.functional_extensionality_dep
   Print Assumptions, per theorem: "closed" in the comment above a statement = Closed under the
   global context; every other theorem lists exactly these four.  Already the DEFINITIONS
   b64_of_bits, fl_add, fl_sub, fl_mul, fl_div (hence flocq_fops) carry the four, because Flocq's
   operations embed proofs about real numbers; so does every statement that mentions them, even
   when its proof is pure integer reasoning (C09_ieee_compare, C09_ieee_nan_propagates, ...).

   NaN caveat.  IEEE-754 leaves the sign and payload of a NaN RESULT open.  The model (Flocq's
   binary64 with payloads, [binop_nan_pl64]) returns the first NaN operand UNCHANGED (a signalling
   NaN is not quieted) and 0x7ff8000000000000 for an invalid operation; fl_rem returns
   0x7ff8000000000000 for every NaN case.  Hardware differs in exactly these bits (x86-64 SSE:
   0xfff8000000000000 for inf - inf, 0 * inf, 0 / 0, fmod(inf, y); signalling NaNs are quieted).
   What is IEEE-mandated - NaN in, NaN out; invalid operation gives a NaN - is what the theorems
   below should be read as; the exact patterns are statements about the model only. *)
From Coq Require Import ZArith Reals Lia.
From Flocq Require Import Core.Core IEEE754.BinarySingleNaN IEEE754.Binary IEEE754.Bits.
From Xeh Require Import Model.Prelude Model.Bits Model.Cell Model.Vm Model.F64c Model.Words Model.Boot Model.F64.
From Xeh Require Import Proofs.WordRun Proofs.ArithNum Proofs.ArithProofs Proofs.F64cProofs.
From Xeh Require Import Proofs.F64Ieee Proofs.F64IeeeConv Proofs.F64IeeeCmp Proofs.F64IeeeRem.
Local Notation length := List.length.
Local Open Scope Z_scope.

(* ---------- vocabulary of the statements ---------- *)
Definition f64_pat (r : Z) : Prop := 0 <= r < 2 ^ 64.
(* the real number denoted by a pattern (0 for infinities and NaN, as Flocq's B2R) *)
Definition fval (p : Z) : R := B2R 53 1024 (b64_of_bits p).
(* rounding to binary64: to nearest, ties to even, gradual underflow (emin = -1074, 53 bits) *)
Definition rnd64 (x : R) : R := round radix2 (FLT_exp (-1074) 53) ZnearestE x.
Definition f64_finite (p : Z) : Prop := f64_exp p <> 2047.
Definition f64_inf (s : bool) : Z := f64_sign_bit s + 2047 * 2 ^ 52.
Definition f64_zero (s : bool) : Z := f64_sign_bit s.
Definition f64_default_nan : Z := 2047 * 2 ^ 52 + 2 ^ 51.
Definition clamp128 (v : Z) : Z := if v <? i128_min then i128_min else if i128_max <? v then i128_max else v.
(* Flocq's correctly rounded conversion of an integer, and its round-half-away / truncation *)
Definition b64_of_Z (z : Z) : binary64 := binary_normalize 53 1024 eq_refl eq_refl mode_NE z 0 false.
Definition b64_round_away (b : binary64) : binary64 := Bnearbyint 53 1024 eq_refl unop_nan_pl64 mode_NA b.

(* the instance: the real operations of the words are fl_* and the conversions of F64c.v *)
Example C09_ieee_instance :
  f_add flocq_fops = fl_add /\ f_sub flocq_fops = fl_sub /\ f_mul flocq_fops = fl_mul /\
  f_div flocq_fops = fl_div /\ f_rem flocq_fops = fl_rem /\ f_min flocq_fops = fl_min /\
  f_max flocq_fops = fl_max /\ f_of_int flocq_fops = f64_of_int /\ f_to_int flocq_fops = f64_to_int /\
  f_round flocq_fops = f64_round.
Proof. repeat split. Qed.

(* ================= 1. bit patterns <-> Flocq floats ================= *)
(* axioms: the four (carried by the DEFINITION of b64_of_bits).  Every one of the 2^64 patterns survives the round trip: NaN payloads and signs are
   preserved (Flocq's binary_float carries the payload; there is no canonical NaN) *)
Theorem C09_ieee_bits_round_trip : forall p, f64_pat p -> bits_of_b64 (b64_of_bits p) = p.
Proof. exact bits_round_trip. Qed.
Check C09_ieee_bits_round_trip : forall p, f64_pat p -> bits_of_b64 (b64_of_bits p) = p.

(* axioms: the four *)
Theorem C09_ieee_b64_round_trip : forall b : binary64,
  b64_of_bits (bits_of_b64 b) = b /\ f64_pat (bits_of_b64 b).
Proof. exact b64_bits_facts. Qed.
Check C09_ieee_b64_round_trip : forall b : binary64,
  b64_of_bits (bits_of_b64 b) = b /\ f64_pat (bits_of_b64 b).

(* closed.  fl_add .. fl_rem reduce their operands mod 2^64 first; on patterns this is the identity *)
Theorem C09_ieee_pat : forall z, f64_pat (pat z) /\ (f64_pat z -> pat z = z).
Proof. exact pat_facts. Qed.
Check C09_ieee_pat : forall z, f64_pat (pat z) /\ (f64_pat z -> pat z = z).

(* axioms: the four.  A NaN pattern is the Flocq NaN with the same sign and the same payload *)
Theorem C09_ieee_nan_payload : forall p, f64_pat p -> f64_is_nan p = true ->
  exists H, b64_of_bits p = B754_nan 53 1024 (f64_neg p) (Z.to_pos (f64_man p)) H.
Proof. exact nan_payload. Qed.
Check C09_ieee_nan_payload : forall p, f64_pat p -> f64_is_nan p = true ->
  exists H, b64_of_bits p = B754_nan 53 1024 (f64_neg p) (Z.to_pos (f64_man p)) H.

(* axioms: classic, sig_not_dec, sig_forall_dec, functional_extensionality_dep (through R).
   The fields the model reads (Cell.v: f64_exp f64_man f64_neg f64_is_nan; F64c.v: f64_mant f64_ex)
   are the class, sign and value of the Flocq float:
   value = (-1)^sign * mant * 2^ex for a finite pattern *)
Theorem C09_ieee_fields : forall p, f64_pat p ->
  is_nan 53 1024 (b64_of_bits p) = f64_is_nan p /\
  is_finite 53 1024 (b64_of_bits p) = negb (f64_exp p =? 2047) /\
  Bsign 53 1024 (b64_of_bits p) = f64_neg p /\
  (f64_finite p -> fval p = F2R (Float radix2 (cond_Zopp (f64_neg p) (f64_mant p)) (f64_ex p))) /\
  (f64_exp p = 2047 -> fval p = 0%R).
Proof. exact fields_summary. Qed.
Check C09_ieee_fields : forall p, f64_pat p ->
  is_nan 53 1024 (b64_of_bits p) = f64_is_nan p /\
  is_finite 53 1024 (b64_of_bits p) = negb (f64_exp p =? 2047) /\
  Bsign 53 1024 (b64_of_bits p) = f64_neg p /\
  (f64_finite p -> fval p = F2R (Float radix2 (cond_Zopp (f64_neg p) (f64_mant p)) (f64_ex p))) /\
  (f64_exp p = 2047 -> fval p = 0%R).

(* axioms: the four.  Zero test on a finite pattern *)
Theorem C09_ieee_zero : forall p, f64_pat p -> f64_finite p -> (fval p = 0%R <-> f64_is_zero p = true).
Proof. exact fval_zero_iff. Qed.
Check C09_ieee_zero : forall p, f64_pat p -> f64_finite p -> (fval p = 0%R <-> f64_is_zero p = true).

(* ================= 2. + - * / are correctly rounded ================= *)
(* axioms: the four (all theorems of this section).
   Finite operands.  If the rounded exact sum stays below 2^1024 the result is finite and IS the
   rounded exact sum, with the IEEE sign of a zero sum (+0 unless both operands are negative);
   otherwise it is the infinity with the sign of the operands *)
Theorem C09_ieee_add : forall x y, f64_pat x -> f64_pat y -> f64_finite x -> f64_finite y ->
  ((Rabs (rnd64 (fval x + fval y)) < bpow radix2 1024)%R ->
     fval (fl_add x y) = rnd64 (fval x + fval y) /\ f64_finite (fl_add x y) /\
     f64_neg (fl_add x y) = match Rcompare (fval x + fval y) 0 with
                            | Eq => f64_neg x && f64_neg y | Lt => true | Gt => false end) /\
  ((bpow radix2 1024 <= Rabs (rnd64 (fval x + fval y)))%R ->
     fl_add x y = f64_inf (f64_neg x) /\ f64_neg x = f64_neg y).
Proof. exact add_correct. Qed.
Check C09_ieee_add : forall x y, f64_pat x -> f64_pat y -> f64_finite x -> f64_finite y ->
  ((Rabs (rnd64 (fval x + fval y)) < bpow radix2 1024)%R ->
     fval (fl_add x y) = rnd64 (fval x + fval y) /\ f64_finite (fl_add x y) /\
     f64_neg (fl_add x y) = match Rcompare (fval x + fval y) 0 with
                            | Eq => f64_neg x && f64_neg y | Lt => true | Gt => false end) /\
  ((bpow radix2 1024 <= Rabs (rnd64 (fval x + fval y)))%R ->
     fl_add x y = f64_inf (f64_neg x) /\ f64_neg x = f64_neg y).

Theorem C09_ieee_sub : forall x y, f64_pat x -> f64_pat y -> f64_finite x -> f64_finite y ->
  ((Rabs (rnd64 (fval x - fval y)) < bpow radix2 1024)%R ->
     fval (fl_sub x y) = rnd64 (fval x - fval y) /\ f64_finite (fl_sub x y) /\
     f64_neg (fl_sub x y) = match Rcompare (fval x - fval y) 0 with
                            | Eq => f64_neg x && negb (f64_neg y) | Lt => true | Gt => false end) /\
  ((bpow radix2 1024 <= Rabs (rnd64 (fval x - fval y)))%R ->
     fl_sub x y = f64_inf (f64_neg x) /\ f64_neg x = negb (f64_neg y)).
Proof. exact sub_correct. Qed.
Check C09_ieee_sub : forall x y, f64_pat x -> f64_pat y -> f64_finite x -> f64_finite y ->
  ((Rabs (rnd64 (fval x - fval y)) < bpow radix2 1024)%R ->
     fval (fl_sub x y) = rnd64 (fval x - fval y) /\ f64_finite (fl_sub x y) /\
     f64_neg (fl_sub x y) = match Rcompare (fval x - fval y) 0 with
                            | Eq => f64_neg x && negb (f64_neg y) | Lt => true | Gt => false end) /\
  ((bpow radix2 1024 <= Rabs (rnd64 (fval x - fval y)))%R ->
     fl_sub x y = f64_inf (f64_neg x) /\ f64_neg x = negb (f64_neg y)).

Theorem C09_ieee_mul : forall x y, f64_pat x -> f64_pat y -> f64_finite x -> f64_finite y ->
  ((Rabs (rnd64 (fval x * fval y)) < bpow radix2 1024)%R ->
     fval (fl_mul x y) = rnd64 (fval x * fval y) /\ f64_finite (fl_mul x y) /\
     f64_neg (fl_mul x y) = xorb (f64_neg x) (f64_neg y)) /\
  ((bpow radix2 1024 <= Rabs (rnd64 (fval x * fval y)))%R ->
     fl_mul x y = f64_inf (xorb (f64_neg x) (f64_neg y))).
Proof. exact mul_correct. Qed.
Check C09_ieee_mul : forall x y, f64_pat x -> f64_pat y -> f64_finite x -> f64_finite y ->
  ((Rabs (rnd64 (fval x * fval y)) < bpow radix2 1024)%R ->
     fval (fl_mul x y) = rnd64 (fval x * fval y) /\ f64_finite (fl_mul x y) /\
     f64_neg (fl_mul x y) = xorb (f64_neg x) (f64_neg y)) /\
  ((bpow radix2 1024 <= Rabs (rnd64 (fval x * fval y)))%R ->
     fl_mul x y = f64_inf (xorb (f64_neg x) (f64_neg y))).

(* the divisor is a non-zero finite number *)
Theorem C09_ieee_div : forall x y, f64_pat x -> f64_pat y -> f64_finite x -> f64_finite y -> fval y <> 0%R ->
  ((Rabs (rnd64 (fval x / fval y)) < bpow radix2 1024)%R ->
     fval (fl_div x y) = rnd64 (fval x / fval y) /\ f64_finite (fl_div x y) /\
     f64_neg (fl_div x y) = xorb (f64_neg x) (f64_neg y)) /\
  ((bpow radix2 1024 <= Rabs (rnd64 (fval x / fval y)))%R ->
     fl_div x y = f64_inf (xorb (f64_neg x) (f64_neg y))).
Proof. exact div_correct. Qed.
Check C09_ieee_div : forall x y, f64_pat x -> f64_pat y -> f64_finite x -> f64_finite y -> fval y <> 0%R ->
  ((Rabs (rnd64 (fval x / fval y)) < bpow radix2 1024)%R ->
     fval (fl_div x y) = rnd64 (fval x / fval y) /\ f64_finite (fl_div x y) /\
     f64_neg (fl_div x y) = xorb (f64_neg x) (f64_neg y)) /\
  ((bpow radix2 1024 <= Rabs (rnd64 (fval x / fval y)))%R ->
     fl_div x y = f64_inf (xorb (f64_neg x) (f64_neg y))).

(* NaN in, NaN out: the first NaN operand, unchanged (see the caveat at the top) *)
Theorem C09_ieee_nan_propagates : forall x y, f64_pat x -> f64_pat y -> f64_is_nan x || f64_is_nan y = true ->
  let r := if f64_is_nan x then x else y in
  fl_add x y = r /\ fl_sub x y = r /\ fl_mul x y = r /\ fl_div x y = r.
Proof. exact nan_propagates. Qed.
Check C09_ieee_nan_propagates : forall x y, f64_pat x -> f64_pat y -> f64_is_nan x || f64_is_nan y = true ->
  let r := if f64_is_nan x then x else y in
  fl_add x y = r /\ fl_sub x y = r /\ fl_mul x y = r /\ fl_div x y = r.

(* The invalid operations: inf + (-inf), inf - inf, inf * 0, 0 * inf, 0 / 0, inf / inf
   give a NaN (the model's default quiet NaN 0x7ff8000000000000) *)
Theorem C09_ieee_invalid_operations : forall s t,
  fl_add (f64_inf s) (f64_inf (negb s)) = f64_default_nan /\
  fl_sub (f64_inf s) (f64_inf s) = f64_default_nan /\
  fl_mul (f64_inf s) (f64_zero t) = f64_default_nan /\
  fl_mul (f64_zero t) (f64_inf s) = f64_default_nan /\
  fl_div (f64_zero s) (f64_zero t) = f64_default_nan /\
  fl_div (f64_inf s) (f64_inf t) = f64_default_nan.
Proof. exact invalid_ops. Qed.
Check C09_ieee_invalid_operations : forall s t,
  fl_add (f64_inf s) (f64_inf (negb s)) = f64_default_nan /\
  fl_sub (f64_inf s) (f64_inf s) = f64_default_nan /\
  fl_mul (f64_inf s) (f64_zero t) = f64_default_nan /\
  fl_mul (f64_zero t) (f64_inf s) = f64_default_nan /\
  fl_div (f64_zero s) (f64_zero t) = f64_default_nan /\
  fl_div (f64_inf s) (f64_inf t) = f64_default_nan.

(* An infinity with a finite operand y (for * : y non-zero) *)
Theorem C09_ieee_infinite_operand : forall s y, f64_pat y -> f64_finite y ->
  fl_add (f64_inf s) y = f64_inf s /\ fl_add y (f64_inf s) = f64_inf s /\
  fl_sub (f64_inf s) y = f64_inf s /\ fl_sub y (f64_inf s) = f64_inf (negb s) /\
  fl_div (f64_inf s) y = f64_inf (xorb s (f64_neg y)) /\
  fl_div y (f64_inf s) = f64_zero (xorb (f64_neg y) s) /\
  (f64_is_zero y = false ->
   fl_mul (f64_inf s) y = f64_inf (xorb s (f64_neg y)) /\ fl_mul y (f64_inf s) = f64_inf (xorb (f64_neg y) s)).
Proof. exact inf_ops. Qed.
Check C09_ieee_infinite_operand : forall s y, f64_pat y -> f64_finite y ->
  fl_add (f64_inf s) y = f64_inf s /\ fl_add y (f64_inf s) = f64_inf s /\
  fl_sub (f64_inf s) y = f64_inf s /\ fl_sub y (f64_inf s) = f64_inf (negb s) /\
  fl_div (f64_inf s) y = f64_inf (xorb s (f64_neg y)) /\
  fl_div y (f64_inf s) = f64_zero (xorb (f64_neg y) s) /\
  (f64_is_zero y = false ->
   fl_mul (f64_inf s) y = f64_inf (xorb s (f64_neg y)) /\ fl_mul y (f64_inf s) = f64_inf (xorb (f64_neg y) s)).

Theorem C09_ieee_two_infinities : forall s t,
  fl_add (f64_inf s) (f64_inf s) = f64_inf s /\ fl_sub (f64_inf s) (f64_inf (negb s)) = f64_inf s /\
  fl_mul (f64_inf s) (f64_inf t) = f64_inf (xorb s t).
Proof. exact inf_inf. Qed.
Check C09_ieee_two_infinities : forall s t,
  fl_add (f64_inf s) (f64_inf s) = f64_inf s /\ fl_sub (f64_inf s) (f64_inf (negb s)) = f64_inf s /\
  fl_mul (f64_inf s) (f64_inf t) = f64_inf (xorb s t).

(* The OPERATION x / 0 for a non-zero finite x is the infinity with the xor of the signs
   (the IEEE divide-by-zero result) ... *)
Theorem C09_ieee_div_by_zero : forall x y, f64_pat x -> f64_pat y -> f64_finite x ->
  f64_is_zero x = false -> f64_is_zero y = true ->
  fl_div x y = f64_inf (xorb (f64_neg x) (f64_neg y)).
Proof. exact div_by_zero. Qed.
Check C09_ieee_div_by_zero : forall x y, f64_pat x -> f64_pat y -> f64_finite x ->
  f64_is_zero x = false -> f64_is_zero y = true ->
  fl_div x y = f64_inf (xorb (f64_neg x) (f64_neg y)).

(* ... but the WORD / never gets there: a zero divisor (either sign) is a division error
   before the operation is reached; otherwise the word is fl_div (C09_div_real at flocq_fops) *)
Theorem C09_ieee_div_word : forall s a b rest x y,
  args2 s a b rest -> room s rest -> value a = CReal x -> value b = CReal y ->
  w_div flocq_fops s = if f64_is_zero y then err2 s a b rest EDivZero None
                       else ok2 s a b rest (CReal (fl_div x y)).
Proof. exact (div_real flocq_fops). Qed.
Check C09_ieee_div_word : forall s a b rest x y,
  args2 s a b rest -> room s rest -> value a = CReal x -> value b = CReal y ->
  w_div flocq_fops s = if f64_is_zero y then err2 s a b rest EDivZero None
                       else ok2 s a b rest (CReal (fl_div x y)).

(* The other words at flocq_fops *)
Theorem C09_ieee_words : forall s a b rest x y,
  args2 s a b rest -> room s rest -> value a = CReal x -> value b = CReal y ->
  w_add flocq_fops s = ok2 s a b rest (CReal (fl_add x y)) /\
  w_sub flocq_fops s = ok2 s a b rest (CReal (fl_sub x y)) /\
  w_mul flocq_fops s = ok2 s a b rest (CReal (fl_mul x y)) /\
  w_rem flocq_fops s = ok2 s a b rest (CReal (fl_rem x y)) /\
  w_min flocq_fops s = ok2 s a b rest (CReal (fl_min x y)) /\
  w_max flocq_fops s = ok2 s a b rest (CReal (fl_max x y)).
Proof.
  exact (fun s a b rest x y A R Va Vb =>
    conj (add_real flocq_fops s a b rest x y A R Va Vb)
   (conj (sub_real flocq_fops s a b rest x y A R Va Vb)
   (conj (mul_real flocq_fops s a b rest x y A R Va Vb)
   (conj (rem_real flocq_fops s a b rest x y A R Va Vb)
   (conj (min_real flocq_fops s a b rest x y A R Va Vb)
         (max_real flocq_fops s a b rest x y A R Va Vb)))))).
Qed.
Check C09_ieee_words : forall s a b rest x y,
  args2 s a b rest -> room s rest -> value a = CReal x -> value b = CReal y ->
  w_add flocq_fops s = ok2 s a b rest (CReal (fl_add x y)) /\
  w_sub flocq_fops s = ok2 s a b rest (CReal (fl_sub x y)) /\
  w_mul flocq_fops s = ok2 s a b rest (CReal (fl_mul x y)) /\
  w_rem flocq_fops s = ok2 s a b rest (CReal (fl_rem x y)) /\
  w_min flocq_fops s = ok2 s a b rest (CReal (fl_min x y)) /\
  w_max flocq_fops s = ok2 s a b rest (CReal (fl_max x y)).

(* ================= 3. the conversions agree with Flocq ================= *)
(* axioms: the four.  i128 -> f64 in integer arithmetic (bit length, shift, round half to even)
   IS Flocq's correctly rounded conversion, for every |z| < 2^1023 (the i128 range and far beyond;
   f64_of_mag has no overflow branch, see C09_ieee_of_int_range_needed) *)
Theorem C09_ieee_of_int_flocq : forall z, Z.abs z < 2 ^ 1023 -> f64_of_int z = bits_of_b64 (b64_of_Z z).
Proof. exact f64_of_int_flocq. Qed.
Check C09_ieee_of_int_flocq : forall z, Z.abs z < 2 ^ 1023 -> f64_of_int z = bits_of_b64 (b64_of_Z z).

(* axioms: the four.  Its value is the integer rounded to nearest even; finite; sign of z *)
Theorem C09_ieee_of_int_value : forall z, Z.abs z < 2 ^ 1023 ->
  fval (f64_of_int z) = rnd64 (IZR z) /\ f64_finite (f64_of_int z) /\ f64_neg (f64_of_int z) = (z <? 0) /\
  f64_pat (f64_of_int z).
Proof. exact fval_of_int. Qed.
Check C09_ieee_of_int_value : forall z, Z.abs z < 2 ^ 1023 ->
  fval (f64_of_int z) = rnd64 (IZR z) /\ f64_finite (f64_of_int z) /\ f64_neg (f64_of_int z) = (z <? 0) /\
  f64_pat (f64_of_int z).

(* axioms: the four.  Exact whenever the integer has at most 53 significant bits
   (k = 0: every |z| < 2^53; m = 1: every power of two) *)
Theorem C09_ieee_of_int_exact : forall m k, Z.abs m < 2 ^ 53 -> 0 <= k -> Z.abs (m * 2 ^ k) < 2 ^ 1023 ->
  fval (f64_of_int (m * 2 ^ k)) = IZR (m * 2 ^ k).
Proof. exact of_int_exact. Qed.
Check C09_ieee_of_int_exact : forall m k, Z.abs m < 2 ^ 53 -> 0 <= k -> Z.abs (m * 2 ^ k) < 2 ^ 1023 ->
  fval (f64_of_int (m * 2 ^ k)) = IZR (m * 2 ^ k).

(* axioms: the four.  f64 -> i128: NaN gives 0, an infinity saturates, a finite value is truncated
   toward zero and saturated to the i128 range *)
Theorem C09_ieee_to_int : forall p, f64_pat p ->
  f64_to_int p =
  if f64_is_nan p then 0
  else if f64_exp p =? 2047 then (if f64_neg p then i128_min else i128_max)
  else clamp128 (Ztrunc (fval p)).
Proof. exact to_int_correct. Qed.
Check C09_ieee_to_int : forall p, f64_pat p ->
  f64_to_int p =
  if f64_is_nan p then 0
  else if f64_exp p =? 2047 then (if f64_neg p then i128_min else i128_max)
  else clamp128 (Ztrunc (fval p)).

(* axioms: the four.  The same with Flocq's Btrunc *)
Theorem C09_ieee_to_int_flocq : forall p, f64_pat p -> f64_finite p ->
  f64_to_int p = clamp128 (Btrunc 53 1024 (b64_of_bits p)).
Proof. exact to_int_flocq. Qed.
Check C09_ieee_to_int_flocq : forall p, f64_pat p -> f64_finite p ->
  f64_to_int p = clamp128 (Btrunc 53 1024 (b64_of_bits p)).

(* axioms: the four.  round: the nearest integer, halves away from zero (ZnearestA), the sign is
   kept (so -0.4 rounds to -0), the result is finite *)
Theorem C09_ieee_round : forall p, f64_pat p -> f64_finite p ->
  let r := f64_round p in
  f64_pat r /\ f64_finite r /\ f64_neg r = f64_neg p /\ fval r = IZR (ZnearestA (fval p)).
Proof. exact round_correct. Qed.
Check C09_ieee_round : forall p, f64_pat p -> f64_finite p ->
  let r := f64_round p in
  f64_pat r /\ f64_finite r /\ f64_neg r = f64_neg p /\ fval r = IZR (ZnearestA (fval p)).

(* closed.  Infinities and NaN are returned unchanged *)
Theorem C09_ieee_round_nonfinite : forall p, f64_exp p = 2047 -> f64_round p = p.
Proof. exact round_nonfinite. Qed.
Check C09_ieee_round_nonfinite : forall p, f64_exp p = 2047 -> f64_round p = p.

(* axioms: the four.  On EVERY pattern round is Flocq's Bnearbyint in mode_NA *)
Theorem C09_ieee_round_flocq : forall p, f64_pat p -> f64_round p = bits_of_b64 (b64_round_away (b64_of_bits p)).
Proof. exact round_flocq. Qed.
Check C09_ieee_round_flocq : forall p, f64_pat p -> f64_round p = bits_of_b64 (b64_round_away (b64_of_bits p)).

(* ================= 4. comparisons ================= *)
(* axioms: the four (through b64_of_bits; the proof itself is integer reasoning).
   The partial comparison of the model (order of the sign-magnitude key, None on NaN)
   IS Flocq's IEEE comparison, on all patterns: -0 = +0, -inf < finite < +inf, NaN unordered *)
Theorem C09_ieee_compare : forall p q, f64_pat p -> f64_pat q ->
  f64_pcmp p q = b64_compare (b64_of_bits p) (b64_of_bits q).
Proof. exact pcmp_flocq. Qed.
Check C09_ieee_compare : forall p q, f64_pat p -> f64_pat q ->
  f64_pcmp p q = b64_compare (b64_of_bits p) (b64_of_bits q).

(* axioms: the four.  On finite operands it is the order of the real values *)
Theorem C09_ieee_compare_finite : forall p q, f64_pat p -> f64_pat q -> f64_finite p -> f64_finite q ->
  f64_pcmp p q = Some (Rcompare (fval p) (fval q)) /\
  (f64_key p ?= f64_key q) = Rcompare (fval p) (fval q).
Proof. exact pcmp_real. Qed.
Check C09_ieee_compare_finite : forall p q, f64_pat p -> f64_pat q -> f64_finite p -> f64_finite q ->
  f64_pcmp p q = Some (Rcompare (fval p) (fval q)) /\
  (f64_key p ?= f64_key q) = Rcompare (fval p) (fval q).

(* axioms: the four.  Hence the six comparison words on finite reals (f = is_lt .. is_ne) *)
Theorem C09_ieee_cmp_word : forall f s a b rest x y,
  args2 s a b rest -> room s rest -> value a = CReal x -> value b = CReal y ->
  f64_pat x -> f64_pat y -> f64_finite x -> f64_finite y ->
  w_cmp f s = ok2 s a b rest (CFlag (f (Rcompare (fval x) (fval y)))).
Proof. exact cmp_real_value. Qed.
Check C09_ieee_cmp_word : forall f s a b rest x y,
  args2 s a b rest -> room s rest -> value a = CReal x -> value b = CReal y ->
  f64_pat x -> f64_pat y -> f64_finite x -> f64_finite y ->
  w_cmp f s = ok2 s a b rest (CFlag (f (Rcompare (fval x) (fval y)))).

(* closed.  The two zeros are equal; the infinities bound every non-NaN pattern *)
Theorem C09_ieee_zeros_and_infinities : forall p, f64_pat p -> f64_is_nan p = false ->
  (forall s, f64_key (f64_zero s) = 0) /\
  f64_key (f64_inf true) <= f64_key p <= f64_key (f64_inf false) /\
  (f64_finite p -> f64_key (f64_inf true) < f64_key p < f64_key (f64_inf false)).
Proof. exact (fun p Hp N => conj key_zero (key_bounds p Hp N)). Qed.
Check C09_ieee_zeros_and_infinities : forall p, f64_pat p -> f64_is_nan p = false ->
  (forall s, f64_key (f64_zero s) = 0) /\
  f64_key (f64_inf true) <= f64_key p <= f64_key (f64_inf false) /\
  (f64_finite p -> f64_key (f64_inf true) < f64_key p < f64_key (f64_inf false)).

(* closed.  Unordered operands (the property leaves the result open): the model and the
   implementation treat them as EQUAL - so == <= >= answer true and < > <> answer false on a NaN,
   whereas IEEE's == is false and <> is true on unordered operands *)
Theorem C09_ieee_compare_unordered : forall f s a b rest x y,
  (f64_pcmp x y = None <-> f64_is_nan x || f64_is_nan y = true) /\
  (args2 s a b rest -> room s rest -> value a = CReal x -> value b = CReal y ->
   f64_is_nan x || f64_is_nan y = true ->
   w_cmp f s = ok2 s a b rest (CFlag (f Eq))).
Proof. exact (fun f s a b rest x y => conj (pcmp_none x y) (cmp_real_nan f s a b rest x y)). Qed.
Check C09_ieee_compare_unordered : forall f s a b rest x y,
  (f64_pcmp x y = None <-> f64_is_nan x || f64_is_nan y = true) /\
  (args2 s a b rest -> room s rest -> value a = CReal x -> value b = CReal y ->
   f64_is_nan x || f64_is_nan y = true ->
   w_cmp f s = ok2 s a b rest (CFlag (f Eq))).

(* axioms: the four.  zero? positive? negative? on a finite real *)
Theorem C09_ieee_sign_tests : forall r, f64_pat r -> f64_finite r ->
  f64_is_zero r = Req_bool (fval r) 0 /\ f64_pos r = Rlt_bool 0 (fval r) /\ f64_negv r = Rlt_bool (fval r) 0.
Proof. exact sign_tests_real_value. Qed.
Check C09_ieee_sign_tests : forall r, f64_pat r -> f64_finite r ->
  f64_is_zero r = Req_bool (fval r) 0 /\ f64_pos r = Rlt_bool 0 (fval r) /\ f64_negv r = Rlt_bool (fval r) 0.

(* closed (the NaN part) / axioms: the four (the value part).  min max: a NaN operand is ignored (f64::min / f64::max); on finite
   operands the result is one of the operands and has the smaller / larger value (for -0 and +0
   either may be returned: the values are equal) *)
Theorem C09_ieee_minmax_nan : forall x y,
  (f64_is_nan x = true -> fl_min x y = y /\ fl_max x y = y) /\
  (f64_is_nan x = false -> f64_is_nan y = true -> fl_min x y = x /\ fl_max x y = x).
Proof. exact minmax_nan. Qed.
Check C09_ieee_minmax_nan : forall x y,
  (f64_is_nan x = true -> fl_min x y = y /\ fl_max x y = y) /\
  (f64_is_nan x = false -> f64_is_nan y = true -> fl_min x y = x /\ fl_max x y = x).

Theorem C09_ieee_minmax : forall x y, f64_pat x -> f64_pat y -> f64_finite x -> f64_finite y ->
  (fl_min x y = x \/ fl_min x y = y) /\ (fl_max x y = x \/ fl_max x y = y) /\
  fval (fl_min x y) = Rmin (fval x) (fval y) /\ fval (fl_max x y) = Rmax (fval x) (fval y).
Proof. exact minmax_real. Qed.
Check C09_ieee_minmax : forall x y, f64_pat x -> f64_pat y -> f64_finite x -> f64_finite y ->
  (fl_min x y = x \/ fl_min x y = y) /\ (fl_max x y = x \/ fl_max x y = y) /\
  fval (fl_min x y) = Rmin (fval x) (fval y) /\ fval (fl_max x y) = Rmax (fval x) (fval y).

(* ================= 5. rem on reals is fmod, exact ================= *)
(* axioms: the four.  Finite x, finite non-zero y: x - trunc(x / y) * y with NO rounding, finite,
   with the sign of x (also when the result is zero) *)
Theorem C09_ieee_rem : forall x y, f64_pat x -> f64_pat y -> f64_finite x -> f64_finite y -> f64_is_zero y = false ->
  let r := fl_rem x y in
  f64_pat r /\ f64_finite r /\ f64_neg r = f64_neg x /\
  fval r = (fval x - IZR (Ztrunc (fval x / fval y)) * fval y)%R.
Proof. exact rem_correct. Qed.
Check C09_ieee_rem : forall x y, f64_pat x -> f64_pat y -> f64_finite x -> f64_finite y -> f64_is_zero y = false ->
  let r := fl_rem x y in
  f64_pat r /\ f64_finite r /\ f64_neg r = f64_neg x /\
  fval r = (fval x - IZR (Ztrunc (fval x / fval y)) * fval y)%R.

(* closed.  NaN operand, infinite x or zero y: a NaN (the default one; payloads are NOT propagated);
   finite x and infinite y: x.  The WORD rem does not raise a division error on reals
   (C09_rem_real): x 0.0 rem is NaN *)
Theorem C09_ieee_rem_special : forall x y, f64_pat x -> f64_pat y ->
  (f64_is_nan x || f64_is_nan y || (f64_exp x =? 2047) || f64_is_zero y = true -> fl_rem x y = f64_default_nan) /\
  (f64_finite x -> f64_exp y = 2047 -> f64_man y = 0 -> fl_rem x y = x).
Proof. exact rem_special. Qed.
Check C09_ieee_rem_special : forall x y, f64_pat x -> f64_pat y ->
  (f64_is_nan x || f64_is_nan y || (f64_exp x =? 2047) || f64_is_zero y = true -> fl_rem x y = f64_default_nan) /\
  (f64_finite x -> f64_exp y = 2047 -> f64_man y = 0 -> fl_rem x y = x).

(* axioms: the four.  The packing function used by fl_rem: m * 2^e (m > 0) correctly rounded,
   infinity on overflow (fl_rem only uses it on exactly representable values) *)
Theorem C09_ieee_of_scaled : forall neg m e, 0 < m ->
  let p := f64_of_scaled neg m e in
  let v := rnd64 (IZR m * bpow radix2 e) in
  f64_pat p /\ f64_neg p = neg /\
  ((v < bpow radix2 1024)%R -> f64_finite p /\ fval p = cond_Ropp neg v) /\
  ((bpow radix2 1024 <= v)%R -> p = f64_inf neg).
Proof. exact of_scaled_correct. Qed.
Check C09_ieee_of_scaled : forall neg m e, 0 < m ->
  let p := f64_of_scaled neg m e in
  let v := rnd64 (IZR m * bpow radix2 e) in
  f64_pat p /\ f64_neg p = neg /\
  ((v < bpow radix2 1024)%R -> f64_finite p /\ fval p = cond_Ropp neg v) /\
  ((bpow radix2 1024 <= v)%R -> p = f64_inf neg).

(* ================= concrete values (vm_compute) ================= *)
(* 1.5 + 2.25 = 3.75; 0.1 + 0.2 = 0.30000000000000004; 1 / 3; DBL_MAX + DBL_MAX = +inf;
   the smallest subnormal times 0.5 underflows to +0 (tie to even) *)
Example C09_ieee_values_arith :
  fl_add 0x3ff8000000000000 0x4002000000000000 = 0x400e000000000000 /\
  fl_add 0x3fb999999999999a 0x3fc999999999999a = 0x3fd3333333333334 /\
  fl_div 0x3ff0000000000000 0x4008000000000000 = 0x3fd5555555555555 /\
  fl_add 0x7fefffffffffffff 0x7fefffffffffffff = f64_inf false /\
  fl_mul 0x0000000000000001 0x3fe0000000000000 = f64_zero false /\
  fl_sub 0x3ff0000000000000 0x3ff0000000000000 = f64_zero false.
Proof. vm_compute. repeat split. Qed.

(* 2^53 + 1 -> 2^53 (tie to even), 2^53 + 3 -> 2^53 + 4; -2.5 >int = -2; round 2.5 = 3, round -0.5 = -1,
   round 0.49999999999999994 = 0; 5.5 rem 2 = 1.5, -5.5 rem 2 = -1.5 *)
Example C09_ieee_values_conv :
  f64_of_int (2 ^ 53 + 1) = 0x4340000000000000 /\ f64_of_int (2 ^ 53 + 3) = 0x4340000000000002 /\
  f64_of_int i128_max = 0x47e0000000000000 /\ f64_of_int i128_min = 0xc7e0000000000000 /\
  f64_to_int 0xc004000000000000 = -2 /\ f64_to_int (f64_inf true) = i128_min /\
  f64_to_int 0x47e0000000000000 = i128_max /\
  f64_round 0x4004000000000000 = 0x4008000000000000 /\ f64_round 0xbfe0000000000000 = 0xbff0000000000000 /\
  f64_round 0x3fdfffffffffffff = 0 /\
  fl_rem 0x4016000000000000 0x4000000000000000 = 0x3ff8000000000000 /\
  fl_rem 0xc016000000000000 0x4000000000000000 = 0xbff8000000000000.
Proof. vm_compute. repeat split. Qed.

(* the model keeps a signalling NaN as it is (hardware quiets it: 0x7ff8000000000001) *)
Example C09_ieee_snan_not_quieted :
  fl_add 0x7ff0000000000001 0x3ff0000000000000 = 0x7ff0000000000001 /\
  f64_round 0x7ff0000000000001 = 0x7ff0000000000001.
Proof. vm_compute. split; reflexivity. Qed.

(* the range hypothesis of C09_ieee_of_int_flocq cannot be dropped altogether: f64_of_mag has no
   overflow branch (2^1024 happens to give +inf, 2^1025 gives -0); integers of the language are i128 *)
Example C09_ieee_of_int_range_needed :
  f64_of_int (2 ^ 1024) = f64_inf false /\ f64_of_int (2 ^ 1025) = f64_zero true.
Proof. vm_compute. split; reflexivity. Qed.

(* the hypotheses are satisfiable: 1.5 + 2.25 does not overflow, DBL_MAX + DBL_MAX does *)
Example C09_ieee_nonvacuous :
  let a := 0x3ff8000000000000 in let b := 0x4002000000000000 in let m := 0x7fefffffffffffff in
  f64_pat a /\ f64_pat b /\ f64_pat m /\ f64_finite a /\ f64_finite b /\ f64_finite m /\
  (Rabs (rnd64 (fval a + fval b)) < bpow radix2 1024)%R /\
  (bpow radix2 1024 <= Rabs (rnd64 (fval m + fval m)))%R.
Proof. exact nonvacuous_add. Qed.
