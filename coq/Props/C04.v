(* C04 - bit-string operations depend only on the bit sequence, never on how it
   is stored.  Property theorems only: each is closed by [exact] of a lemma proved
   in Proofs/.  [wf c] admits ANY representation: any offset, any slack after the
   range, any stale bits outside it; [u] is the answer of Rc::strong_count == 1,
   so both values cover "whatever the value's history". *)
From Xeh Require Import Model.Prelude Model.Bits Proofs.BitsBasic Proofs.BitsProofs.



Theorem C04_bits : forall c, wf c -> bits c = map b2n (abs c).
Proof. exact bits_spec. Qed.
Check C04_bits : forall c, wf c -> bits c = map b2n (abs c).

Theorem C04_iter8 : forall c, wf c -> iter8 c = map grp (chunk8 (abs c)).
Proof. exact iter8_spec. Qed.
Check C04_iter8 : forall c, wf c -> iter8 c = map grp (chunk8 (abs c)).

Theorem C04_seek : forall c pos, wf c ->
  match seek c pos with
  | Some r => cstart c <= pos <= cend c /\ wf r /\ abs r = skipn (pos - cstart c) (abs c)
  | None => ~ (cstart c <= pos <= cend c)
  end.
Proof. exact seek_spec. Qed.
Check C04_seek : forall c pos, wf c ->
  match seek c pos with
  | Some r => cstart c <= pos <= cend c /\ wf r /\ abs r = skipn (pos - cstart c) (abs c)
  | None => ~ (cstart c <= pos <= cend c)
  end.

Theorem C04_read : forall c n, wf c ->
  match read c n with
  | Some (r, rest) => n <= clen c /\ wf r /\ wf rest /\
                      abs r = firstn n (abs c) /\ abs rest = skipn n (abs c)
  | None => clen c < n
  end.
Proof. exact read_spec. Qed.
Check C04_read : forall c n, wf c ->
  match read c n with
  | Some (r, rest) => n <= clen c /\ wf r /\ wf rest /\
                      abs r = firstn n (abs c) /\ abs rest = skipn n (abs c)
  | None => clen c < n
  end.

Theorem C04_peek : forall c n, wf c ->
  match peek c n with
  | Some r => n <= clen c /\ wf r /\ abs r = firstn n (abs c)
  | None => clen c < n
  end.
Proof. exact peek_spec. Qed.
Check C04_peek : forall c n, wf c ->
  match peek c n with
  | Some r => n <= clen c /\ wf r /\ abs r = firstn n (abs c)
  | None => clen c < n
  end.

Theorem C04_substr : forall c s e, wf c ->
  match substr c s e with
  | Some r => s <= e /\ cstart c <= s /\ e <= cend c /\ wf r /\
              abs r = firstn (e - s) (skipn (s - cstart c) (abs c))
  | None => ~ (s <= e /\ cstart c <= s /\ e <= cend c)
  end.
Proof. exact substr_spec. Qed.
Check C04_substr : forall c s e, wf c ->
  match substr c s e with
  | Some r => s <= e /\ cstart c <= s /\ e <= cend c /\ wf r /\
              abs r = firstn (e - s) (skipn (s - cstart c) (abs c))
  | None => ~ (s <= e /\ cstart c <= s /\ e <= cend c)
  end.

Theorem C04_split_at : forall c i, wf c ->
  match split_at c i with
  | Some (l, r) => i <= clen c /\ wf l /\ wf r /\
                   abs l = firstn i (abs c) /\ abs r = skipn i (abs c)
  | None => clen c < i
  end.
Proof. exact split_at_spec. Qed.
Check C04_split_at : forall c i, wf c ->
  match split_at c i with
  | Some (l, r) => i <= clen c /\ wf l /\ wf r /\
                   abs l = firstn i (abs c) /\ abs r = skipn i (abs c)
  | None => clen c < i
  end.

Theorem C04_detach : forall u c, wf c -> wf (detach u c) /\ abs (detach u c) = abs c.
Proof. exact detach_spec. Qed.
Check C04_detach : forall u c, wf c -> wf (detach u c) /\ abs (detach u c) = abs c.

Theorem C04_append : forall u c t, wf c -> wf t ->
  wf (append u c t) /\ abs (append u c t) = abs c ++ abs t.
Proof. exact append_spec. Qed.
Check C04_append : forall u c t, wf c -> wf t ->
  wf (append u c t) /\ abs (append u c t) = abs c ++ abs t.

Theorem C04_insert : forall u c i s, wf c -> wf s ->
  match insert u c i s with
  | Some r => i <= clen c /\ wf r /\ abs r = firstn i (abs c) ++ abs s ++ skipn i (abs c)
  | None => clen c < i
  end.
Proof. exact insert_spec. Qed.
Check C04_insert : forall u c i s, wf c -> wf s ->
  match insert u c i s with
  | Some r => i <= clen c /\ wf r /\ abs r = firstn i (abs c) ++ abs s ++ skipn i (abs c)
  | None => clen c < i
  end.

Theorem C04_invert : forall u c, wf c ->
  wf (invert u c) /\ abs (invert u c) = map negb (abs c).
Proof. exact invert_spec. Qed.
Check C04_invert : forall u c, wf c ->
  wf (invert u c) /\ abs (invert u c) = map negb (abs c).

Theorem C04_eq_with : forall a b, wf a -> wf b -> (eq_with a b = true <-> abs a = abs b).
Proof. exact eq_with_spec. Qed.
Check C04_eq_with : forall a b, wf a -> wf b -> (eq_with a b = true <-> abs a = abs b).

Theorem C04_to_hex : forall c, wf c ->
  to_hex_digits c =
  flat_map (fun g => (if 4 <? length g then [N.shiftr (bits_to_N g) 4] else []) ++ [N.land (bits_to_N g) 15])
           (chunk8 (abs c)).
Proof. exact to_hex_spec. Qed.
Check C04_to_hex : forall c, wf c ->
  to_hex_digits c =
  flat_map (fun g => (if 4 <? length g then [N.shiftr (bits_to_N g) 4] else []) ++ [N.land (bits_to_N g) 15])
           (chunk8 (abs c)).

Theorem C04_to_bytes : forall c, wf c ->
  to_bytes c = if clen c mod 8 =? 0 then Some (map bits_to_N (chunk8 (abs c))) else None.
Proof. exact to_bytes_spec. Qed.
Check C04_to_bytes : forall c, wf c ->
  to_bytes c = if clen c mod 8 =? 0 then Some (map bits_to_N (chunk8 (abs c))) else None.

Theorem C04_bytestr : forall c, wf c ->
  bytestr c = if clen c mod 8 =? 0 then Some (map bits_to_N (chunk8 (abs c))) else None.
Proof. exact bytestr_spec. Qed.
Check C04_bytestr : forall c, wf c ->
  bytestr c = if clen c mod 8 =? 0 then Some (map bits_to_N (chunk8 (abs c))) else None.

Theorem C04_slice : forall c d, wf c -> slice c = Some d -> d = map bits_to_N (chunk8 (abs c)).
Proof. exact slice_spec. Qed.
Check C04_slice : forall c d, wf c -> slice c = Some d -> d = map bits_to_N (chunk8 (abs c)).

Theorem C04_padding : forall c, wf c -> to_bytes_with_padding c = map bits_to_N (chunk8 (abs c)).
Proof. exact padding_spec. Qed.
Check C04_padding : forall c, wf c -> to_bytes_with_padding c = map bits_to_N (chunk8 (abs c)).

Theorem C04_from_bits : forall l, wf (of_bools l) /\ abs (of_bools l) = l.
Proof. exact of_bools_spec. Qed.
Check C04_from_bits : forall l, wf (of_bools l) /\ abs (of_bools l) = l.



Theorem C04_from_hex : forall ds, Forall (fun d => (d < 16)%N) ds ->
  wf (from_hex ds) /\ abs (from_hex ds) = flat_map nibble_bits ds.
Proof. exact from_hex_spec. Qed.
Check C04_from_hex : forall ds, Forall (fun d => (d < 16)%N) ds ->
  wf (from_hex ds) /\ abs (from_hex ds) = flat_map nibble_bits ds.

(* the hypotheses are satisfiable by a value with slack after its range and stale
   bits inside its last byte: a uniquely owned 4-bit slice of ff 34 *)
Example C04_nonvacuous :
  wf (mkcbs 0 4 [255; 52]%N) /\
  abs (append true (mkcbs 0 4 [255; 52]%N) (mkcbs 0 4 [0]%N))
  = [true; true; true; true; false; false; false; false].
Proof. split; [repeat split; try (cbn; lia); repeat constructor | reflexivity]. Qed.
