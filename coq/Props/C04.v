(* C04 - placeholder until Proofs/BitsProofs.v is merged (see Props/pending/C04.v). *)
From Xeh Require Import Model.Prelude Model.Bits Proofs.BitsBasic.

Theorem C04_abs_length : forall c, length (abs c) = clen c.
Proof. exact abs_length. Qed.
Check C04_abs_length : forall c, length (abs c) = clen c.
