(* C04 - bit-string operations depend only on the bit sequence, never on how it
   is stored.  Property theorems only: each is closed by [exact] of a lemma proved
   in Proofs/.  [wf c] admits ANY representation: any offset, any slack after the
   range, any stale bits outside it; [u] is the answer of Rc::strong_count == 1,
   so both values cover "whatever the value's history". *)
From Xeh Require Import Model.Prelude Model.Bits Proofs.BitsBasic Proofs.BitsProofs.
From Xeh Require Proofs.BitsDetach.



Theorem C04_bits : forall c, wf c -> bits c = map b2n (abs c).
Proof. exact bits_spec. Qed.
Check C04_bits : forall c, wf c -> bits c = map b2n (abs c).

Theorem C04_iter8 : forall c, wf c -> iter8 c = map grp (chunk8 (abs c)).
Proof. exact iter8_spec. Qed.
Check C04_iter8 : forall c, wf c -> iter8 c = map grp (chunk8 (abs c)).

Theorem C04_seek : forall c pos, wf c ->
  match seek c pos with
  | Some r => cstart c <= pos <= cend c /\ wf r /\ abs r = skipn (pos - cstart c) (abs c)
  | None => ~ (cstart c <= pos <= cend c)
  end.
Proof. exact seek_spec. Qed.
Check C04_seek : forall c pos, wf c ->
  match seek c pos with
  | Some r => cstart c <= pos <= cend c /\ wf r /\ abs r = skipn (pos - cstart c) (abs c)
  | None => ~ (cstart c <= pos <= cend c)
  end.

Theorem C04_read : forall c n, wf c ->
  match read c n with
  | Some (r, rest) => n <= clen c /\ wf r /\ wf rest /\
                      abs r = firstn n (abs c) /\ abs rest = skipn n (abs c)
  | None => clen c < n
  end.
Proof. exact read_spec. Qed.
Check C04_read : forall c n, wf c ->
  match read c n with
  | Some (r, rest) => n <= clen c /\ wf r /\ wf rest /\
                      abs r = firstn n (abs c) /\ abs rest = skipn n (abs c)
  | None => clen c < n
  end.

Theorem C04_peek : forall c n, wf c ->
  match peek c n with
  | Some r => n <= clen c /\ wf r /\ abs r = firstn n (abs c)
  | None => clen c < n
  end.
Proof. exact peek_spec. Qed.
Check C04_peek : forall c n, wf c ->
  match peek c n with
  | Some r => n <= clen c /\ wf r /\ abs r = firstn n (abs c)
  | None => clen c < n
  end.

Theorem C04_substr : forall c s e, wf c ->
  match substr c s e with
  | Some r => s <= e /\ cstart c <= s /\ e <= cend c /\ wf r /\
              abs r = firstn (e - s) (skipn (s - cstart c) (abs c))
  | None => ~ (s <= e /\ cstart c <= s /\ e <= cend c)
  end.
Proof. exact substr_spec. Qed.
Check C04_substr : forall c s e, wf c ->
  match substr c s e with
  | Some r => s <= e /\ cstart c <= s /\ e <= cend c /\ wf r /\
              abs r = firstn (e - s) (skipn (s - cstart c) (abs c))
  | None => ~ (s <= e /\ cstart c <= s /\ e <= cend c)
  end.

Theorem C04_split_at : forall c i, wf c ->
  match split_at c i with
  | Some (l, r) => i <= clen c /\ wf l /\ wf r /\
                   abs l = firstn i (abs c) /\ abs r = skipn i (abs c)
  | None => clen c < i
  end.
Proof. exact split_at_spec. Qed.
Check C04_split_at : forall c i, wf c ->
  match split_at c i with
  | Some (l, r) => i <= clen c /\ wf l /\ wf r /\
                   abs l = firstn i (abs c) /\ abs r = skipn i (abs c)
  | None => clen c < i
  end.

Theorem C04_detach : forall u c, wf c -> wf (detach u c) /\ abs (detach u c) = abs c.
Proof. exact detach_spec. Qed.
Check C04_detach : forall u c, wf c -> wf (detach u c) /\ abs (detach u c) = abs c.

Theorem C04_append : forall u c t, wf c -> wf t ->
  wf (append u c t) /\ abs (append u c t) = abs c ++ abs t.
Proof. exact append_spec. Qed.
Check C04_append : forall u c t, wf c -> wf t ->
  wf (append u c t) /\ abs (append u c t) = abs c ++ abs t.

Theorem C04_insert : forall u c i s, wf c -> wf s ->
  match insert u c i s with
  | Some r => i <= clen c /\ wf r /\ abs r = firstn i (abs c) ++ abs s ++ skipn i (abs c)
  | None => clen c < i
  end.
Proof. exact insert_spec. Qed.
Check C04_insert : forall u c i s, wf c -> wf s ->
  match insert u c i s with
  | Some r => i <= clen c /\ wf r /\ abs r = firstn i (abs c) ++ abs s ++ skipn i (abs c)
  | None => clen c < i
  end.

Theorem C04_invert : forall u c, wf c ->
  wf (invert u c) /\ abs (invert u c) = map negb (abs c).
Proof. exact invert_spec. Qed.
Check C04_invert : forall u c, wf c ->
  wf (invert u c) /\ abs (invert u c) = map negb (abs c).

Theorem C04_eq_with : forall a b, wf a -> wf b -> (eq_with a b = true <-> abs a = abs b).
Proof. exact eq_with_spec. Qed.
Check C04_eq_with : forall a b, wf a -> wf b -> (eq_with a b = true <-> abs a = abs b).

Theorem C04_to_hex : forall c, wf c ->
  to_hex_digits c =
  flat_map (fun g => (if 4 <? length g then [N.shiftr (bits_to_N g) 4] else []) ++ [N.land (bits_to_N g) 15])
           (chunk8 (abs c)).
Proof. exact to_hex_spec. Qed.
Check C04_to_hex : forall c, wf c ->
  to_hex_digits c =
  flat_map (fun g => (if 4 <? length g then [N.shiftr (bits_to_N g) 4] else []) ++ [N.land (bits_to_N g) 15])
           (chunk8 (abs c)).

Theorem C04_to_bytes : forall c, wf c ->
  to_bytes c = if clen c mod 8 =? 0 then Some (map bits_to_N (chunk8 (abs c))) else None.
Proof. exact to_bytes_spec. Qed.
Check C04_to_bytes : forall c, wf c ->
  to_bytes c = if clen c mod 8 =? 0 then Some (map bits_to_N (chunk8 (abs c))) else None.

Theorem C04_bytestr : forall c, wf c ->
  bytestr c = if clen c mod 8 =? 0 then Some (map bits_to_N (chunk8 (abs c))) else None.
Proof. exact bytestr_spec. Qed.
Check C04_bytestr : forall c, wf c ->
  bytestr c = if clen c mod 8 =? 0 then Some (map bits_to_N (chunk8 (abs c))) else None.

Theorem C04_slice : forall c d, wf c -> slice c = Some d -> d = map bits_to_N (chunk8 (abs c)).
Proof. exact slice_spec. Qed.
Check C04_slice : forall c d, wf c -> slice c = Some d -> d = map bits_to_N (chunk8 (abs c)).

Theorem C04_padding : forall c, wf c -> to_bytes_with_padding c = map bits_to_N (chunk8 (abs c)).
Proof. exact padding_spec. Qed.
Check C04_padding : forall c, wf c -> to_bytes_with_padding c = map bits_to_N (chunk8 (abs c)).

Theorem C04_from_bits : forall l, wf (of_bools l) /\ abs (of_bools l) = l.
Proof. exact of_bools_spec. Qed.
Check C04_from_bits : forall l, wf (of_bools l) /\ abs (of_bools l) = l.



Theorem C04_from_hex : forall ds, Forall (fun d => (d < 16)%N) ds ->
  wf (from_hex ds) /\ abs (from_hex ds) = flat_map nibble_bits ds.
Proof. exact from_hex_spec. Qed.
Check C04_from_hex : forall ds, Forall (fun d => (d < 16)%N) ds ->
  wf (from_hex ds) /\ abs (from_hex ds) = flat_map nibble_bits ds.

(* the hypotheses are satisfiable by a value with slack after its range and stale
   bits inside its last byte: a uniquely owned 4-bit slice of ff 34 *)
Example C04_nonvacuous :
  wf (mkcbs 0 4 [255; 52]%N) /\
  abs (append true (mkcbs 0 4 [255; 52]%N) (mkcbs 0 4 [0]%N))
  = [true; true; true; true; false; false; false; false].
Proof. split; [repeat split; try (cbn; lia); repeat constructor | reflexivity]. Qed.

(* ---------- the representation of a detached value does not depend on the ownership flag ----------

   [detach u c] keeps [c] as it is only when [u] holds (uniquely owned) AND [c] starts at bit
   0; in every other case it copies and rebases to bit 0.  (Before the repair a uniquely owned
   slice with a non-zero start was kept, so the start offset of the result of append / invert /
   insert - observable through `open-bitstr offset` - depended on who else held the buffer.) *)

(* the start offset of a detached value is 0 in ALL cases; the two cases of the definition *)
Theorem C04_detach_start : forall u c,
  cstart (detach u c) = 0 /\
  ((u = true /\ cstart c = 0 /\ detach u c = c) \/
   (~ (u = true /\ cstart c = 0) /\ detach u c = detach false c)).
Proof. exact BitsDetach.detach_start. Qed.
Check C04_detach_start : forall u c,
  cstart (detach u c) = 0 /\
  ((u = true /\ cstart c = 0 /\ detach u c = c) \/
   (~ (u = true /\ cstart c = 0) /\ detach u c = detach false c)).

(* start, end and bits of a detached value, in closed form: no [u] on the right-hand sides *)
Theorem C04_detach_repr : forall u c, wf c ->
  cstart (detach u c) = 0 /\ cend (detach u c) = clen c /\ abs (detach u c) = abs c.
Proof. exact BitsDetach.detach_repr. Qed.
Check C04_detach_repr : forall u c, wf c ->
  cstart (detach u c) = 0 /\ cend (detach u c) = clen c /\ abs (detach u c) = abs c.

Theorem C04_detach_ownership_independent : forall u u' c, wf c ->
  cstart (detach u c) = cstart (detach u' c) /\
  cend (detach u c) = cend (detach u' c) /\
  abs (detach u c) = abs (detach u' c).
Proof. exact BitsDetach.detach_indep. Qed.
Check C04_detach_ownership_independent : forall u u' c, wf c ->
  cstart (detach u c) = cstart (detach u' c) /\
  cend (detach u c) = cend (detach u' c) /\
  abs (detach u c) = abs (detach u' c).

(* append: the result starts at bit 0 for every ownership flag (no hypothesis at all) ... *)
Theorem C04_append_start : forall u c t,
  cstart (append u c t) = 0 /\ cend (append u c t) = clen c + clen t.
Proof. exact BitsDetach.append_range. Qed.
Check C04_append_start : forall u c t,
  cstart (append u c t) = 0 /\ cend (append u c t) = clen c + clen t.

(* ... and the WHOLE result - start, end, and the backing bytes - is the same on both paths:
   append_bits_mut cuts the buffer back to the value and clears the stale bits first *)
Theorem C04_append_ownership_independent : forall u u' c t, wf c ->
  append u c t = append u' c t.
Proof. exact BitsDetach.append_indep. Qed.
Check C04_append_ownership_independent : forall u u' c t, wf c ->
  append u c t = append u' c t.

(* insert: same *)
Theorem C04_insert_start : forall u c i s, cstart c <= cend c ->
  match insert u c i s with
  | Some r => i <= clen c /\ cstart r = 0 /\ cend r = clen c + clen s
  | None => clen c < i
  end.
Proof. exact BitsDetach.insert_range. Qed.
Check C04_insert_start : forall u c i s, cstart c <= cend c ->
  match insert u c i s with
  | Some r => i <= clen c /\ cstart r = 0 /\ cend r = clen c + clen s
  | None => clen c < i
  end.

Theorem C04_insert_ownership_independent : forall u u' c i s, wf c ->
  insert u c i s = insert u' c i s.
Proof. exact BitsDetach.insert_indep. Qed.
Check C04_insert_ownership_independent : forall u u' c i s, wf c ->
  insert u c i s = insert u' c i s.

(* invert: start, end and bits are the same on both paths; the backing bytes beyond the
   value are NOT (see C04_bytes_beyond_the_value_may_differ) *)
Theorem C04_invert_start : forall u c,
  cstart (invert u c) = 0 /\ cend (invert u c) = clen c.
Proof. exact BitsDetach.invert_range. Qed.
Check C04_invert_start : forall u c,
  cstart (invert u c) = 0 /\ cend (invert u c) = clen c.

Theorem C04_invert_ownership_independent : forall u u' c, wf c ->
  cstart (invert u c) = cstart (invert u' c) /\
  cend (invert u c) = cend (invert u' c) /\
  abs (invert u c) = abs (invert u' c).
Proof. exact BitsDetach.invert_indep. Qed.
Check C04_invert_ownership_independent : forall u u' c, wf c ->
  cstart (invert u c) = cstart (invert u' c) /\
  cend (invert u c) = cend (invert u' c) /\
  abs (invert u c) = abs (invert u' c).

(* what still depends on [u]: the backing bytes of detach / invert outside the value.  A
   4-bit value at the start of the byte ff is kept with its stale bits when uniquely owned,
   copied and left-aligned otherwise; with a slack byte the buffers even differ in length. *)
Example C04_bytes_beyond_the_value_may_differ :
  let c := mkcbs 0 4 [255%N] in
  wfb c = true /\ cdata (detach true c) = [255%N] /\ cdata (detach false c) = [240%N] /\
  cdata (invert true c) = [15%N] /\ cdata (invert false c) = [0%N].
Proof. exact BitsDetach.detach_bytes_differ. Qed.

Example C04_slack_bytes_may_differ :
  let c := mkcbs 0 4 [255; 52]%N in
  wfb c = true /\ cdata (detach true c) = [255; 52]%N /\ cdata (detach false c) = [240%N].
Proof. exact BitsDetach.detach_slack_differs. Qed.

(* the repaired case, non-vacuously: a uniquely owned slice [4, 12) of ab cd is rebased *)
Example C04_unique_slice_is_rebased :
  let c := mkcbs 4 12 [171; 205]%N in
  wfb c = true /\ detach true c = mkcbs 0 8 [188%N] /\ detach true c = detach false c.
Proof. exact BitsDetach.detach_unique_slice_rebased. Qed.
