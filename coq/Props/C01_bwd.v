(* C01 (converse direction) - divergence is preserved and termination is reflected by the
   compiler: the clause "a loop that structurally never terminates never falls through", in
   general.  Property theorems only; every one is closed by [exact] of a lemma proved in
   Proofs/CompileBwd*.v.

   Props/C01.v proves the FORWARD simulation: when the structural evaluator returns
   [SDone] / [SBroke] / [SFail], the machine running the jump-resolved layout reaches the
   corresponding state.  It says nothing when the evaluator is out of fuel.  Here:

   1. QUANTITATIVE LEMMA.  The evaluator's fuel is a bound on the DEPTH of the evaluation; it is
      spent (a) by descending into the tree that is being executed (one unit per statement, per
      list cell, per nesting level: at most [wt_block b] in total at any moment, plus
      [wt_block body] for the body of every call that is being entered), and (b) by loop trips
      and calls.  Every unit of kind (b) corresponds to at least one machine step (the closing
      Jump / JumpIfNot / Loop instruction of the loop, the Call instruction).  Hence: if
      [sblock fo funs fuel b t = SOut] the machine makes at least
      (fuel - wt_block b) / call_weight funs steps, every one of them successful, and every
      state on the way is INSIDE the region of the block ([inreg]): in the activation that
      entered the block the instruction pointer is in [org, org + size_block b) - in
      particular not at the cell behind the block -, or the return stack is deeper (a function
      called from the block is running).  [call_weight funs] = 1 + the weight of the heaviest
      function body.
   2. DIVERGENCE.  If the evaluator is out of fuel for EVERY fuel, the machine runs forever
      inside the region: it never falls through, never fails; at program / source level [run]
      returns [None] for every run fuel.
   3. TERMINATION REFLECTION.  If after n steps the machine has left the region or has stopped,
      the evaluator returns a result with fuel [wt_block b + call_weight funs * (n + 2)]; by the
      traced forward simulation and determinism of [steps] the result is the one the machine
      exhibits: [SDone] with the related state at the first exit, [SFail] with the same error.
   4. For every source the parser accepts: [run] ends normally / fails / never returns exactly
      when [seval_source] is [SDone] / [SFail] for some fuel / [SOut] for every fuel, with
      [sim]-related states ([C01_source_run_converse], [C01_source_run_iff]).

   All constructs are covered (if, if-else, case, begin-until, begin-repeat, begin-while-repeat,
   do-loop, break, calls, recursion, definitions); nothing is left [_partial].

   Vocabulary (Proofs/CompileBwdStep.v, CompileBwdProg.v; spelled out by the [_is] theorems):
   - [inreg K lo hi s]: [s] is inside the region [lo, hi) entered with return-stack keys [K].
   - [wt_stmt] / [wt_block] / [wt_arms]: the syntactic weight of a tree; [call_weight funs].
   - [agreesq nf R W s endp bc B r]: [agrees] of Props/C01.v with the trace: every state before
     the final one is in [R]; [SOut]: the machine makes every number m of steps with
     W * (m + 1) <= B inside [R]; [SUnsup]: the machine reaches, inside [R], an instruction that
     exists and returns a panic / unsupported result.
   - [cl_s funs x] / [cl_b funs l]: every call of the tree has a body in [funs];
     [funs_closed funs]: so do the calls in the function bodies; [prog_closed funs l]: both.
     Without it the evaluator answers [SUnsup] for a call while the machine jumps to an
     unrelated address.  EVERY program returned by the parser is closed
     ([C01_parsed_program_closed]), so the source-level theorems have no such hypothesis.
     A word that is not native needs no hypothesis: the machine answers [RUnsup] as well.
   - [run_reflects fo funs t l r]: the result [r] of [run] is the evaluator's, for some fuel.

   Hypotheses that restrict the theorems: as in Props/C01.v (recording off, no instruction
   limit, layout in place, functions placed, well-formedness), plus closedness at the block /
   program level. *)
From Xeh Require Import Model.Prelude Model.Bits Model.Cell Model.Lexer Model.Vm Model.Words Model.Struct Model.Boot.
From Xeh Require Import Proofs.CompileSim Proofs.CompileLayout Proofs.CompileStep Proofs.CompileEval
                        Proofs.CompileFwd Proofs.CompileFwd2 Proofs.CompileProg Proofs.CompileMain
                        Proofs.CompileBwdStep Proofs.CompileBwdFwd Proofs.CompileBwdFwd2 Proofs.CompileBwdProg
                        Proofs.CompileBwdParse Proofs.CompileBwdMain.
From Xeh Require Proofs.StructNonterm.
Local Notation length := List.length.

(* ---------- vocabulary, spelled out ---------- *)
Theorem C01_inreg_is : forall K lo hi s,
  inreg K lo hi s <->
  ((rskeys s = K /\ lo <= ip s < hi) \/ (exists pre, pre <> [] /\ rskeys s = pre ++ K)).
Proof. exact inreg_is. Qed.
Check C01_inreg_is : forall K lo hi s,
  inreg K lo hi s <->
  ((rskeys s = K /\ lo <= ip s < hi) \/ (exists pre, pre <> [] /\ rskeys s = pre ++ K)).

(* a state inside the region, in the activation that entered it, is not at the exit address *)
Theorem C01_region_excludes_exit : forall K lo hi s,
  inreg K lo hi s -> rskeys s = K -> lo <= ip s < hi.
Proof. exact inreg_not_exit. Qed.
Check C01_region_excludes_exit : forall K lo hi s,
  inreg K lo hi s -> rskeys s = K -> lo <= ip s < hi.

Theorem C01_agreesq_is : forall nf R W s endp bc B r,
  agreesq nf R W s endp bc B r <->
  match r with
  | SDone t' =>
    exists n s', steps nf n s = Some s' /\
                 (forall m, m < n -> exists sm, steps nf m s = Some sm /\ R sm) /\
                 ip s' = endp /\ sim t' s' /\
                 code s' = code s /\ rlog s' = None /\ insn_limit s' = None /\ rskeys s' = rskeys s
  | SBroke t' =>
    exists n s', steps nf n s = Some s' /\
                 (forall m, m <= n -> exists sm, steps nf m s = Some sm /\ R sm) /\
                 nth_error (code s) (ip s') = Some (brk_op (ip s') bc) /\ bc <> BNone /\ sim t' s' /\
                 code s' = code s /\ rlog s' = None /\ insn_limit s' = None /\ rskeys s' = rskeys s
  | SFail k pl _ t' =>
    exists n sN s', steps nf n s = Some sN /\
                    (forall m, m <= n -> exists sm, steps nf m s = Some sm /\ R sm) /\
                    insn_limit sN = None /\ fetch_and_run nf sN = RErr k pl s' /\ sim t' s'
  | SOut => forall m, W * S m <= B -> exists sm, steps nf m s = Some sm /\ R sm
  | SUnsup =>
    exists n sN, steps nf n s = Some sN /\
                 (forall m, m <= n -> exists sm, steps nf m s = Some sm /\ R sm) /\
                 is_running sN = true /\
                 (fetch_and_run nf sN = RPanic \/ fetch_and_run nf sN = RUnsup)
  end.
Proof. exact agreesq_is. Qed.
Check C01_agreesq_is : forall nf R W s endp bc B r,
  agreesq nf R W s endp bc B r <->
  match r with
  | SDone t' =>
    exists n s', steps nf n s = Some s' /\
                 (forall m, m < n -> exists sm, steps nf m s = Some sm /\ R sm) /\
                 ip s' = endp /\ sim t' s' /\
                 code s' = code s /\ rlog s' = None /\ insn_limit s' = None /\ rskeys s' = rskeys s
  | SBroke t' =>
    exists n s', steps nf n s = Some s' /\
                 (forall m, m <= n -> exists sm, steps nf m s = Some sm /\ R sm) /\
                 nth_error (code s) (ip s') = Some (brk_op (ip s') bc) /\ bc <> BNone /\ sim t' s' /\
                 code s' = code s /\ rlog s' = None /\ insn_limit s' = None /\ rskeys s' = rskeys s
  | SFail k pl _ t' =>
    exists n sN s', steps nf n s = Some sN /\
                    (forall m, m <= n -> exists sm, steps nf m s = Some sm /\ R sm) /\
                    insn_limit sN = None /\ fetch_and_run nf sN = RErr k pl s' /\ sim t' s'
  | SOut => forall m, W * S m <= B -> exists sm, steps nf m s = Some sm /\ R sm
  | SUnsup =>
    exists n sN, steps nf n s = Some sN /\
                 (forall m, m <= n -> exists sm, steps nf m s = Some sm /\ R sm) /\
                 is_running sN = true /\
                 (fetch_and_run nf sN = RPanic \/ fetch_and_run nf sN = RUnsup)
  end.

Theorem C01_wt_block_is : forall l,
  wt_block l = match l with [] => 1 | x :: r => 1 + wt_stmt x + wt_block r end.
Proof. exact wt_block_is. Qed.
Check C01_wt_block_is : forall l,
  wt_block l = match l with [] => 1 | x :: r => 1 + wt_stmt x + wt_block r end.

Theorem C01_wt_stmt_is : forall x,
  wt_stmt x =
  match x with
  | SIf _ t => 1 + wt_block t
  | SIfE _ t e => 1 + wt_block t + wt_block e
  | SCase arms d => 1 + wt_arms arms + wt_block d
  | SUntil b _ => 1 + wt_block b
  | SRepeat b => 1 + wt_block b
  | SWhile c _ b => 1 + wt_block c + wt_block b
  | SDo _ b _ => 1 + wt_block b
  | _ => 1
  end.
Proof. exact wt_stmt_is. Qed.
Check C01_wt_stmt_is : forall x,
  wt_stmt x =
  match x with
  | SIf _ t => 1 + wt_block t
  | SIfE _ t e => 1 + wt_block t + wt_block e
  | SCase arms d => 1 + wt_arms arms + wt_block d
  | SUntil b _ => 1 + wt_block b
  | SRepeat b => 1 + wt_block b
  | SWhile c _ b => 1 + wt_block c + wt_block b
  | SDo _ b _ => 1 + wt_block b
  | _ => 1
  end.

Theorem C01_wt_arms_is : forall l,
  wt_arms l = match l with [] => 0 | (pre, _, body) :: r => wt_block pre + wt_block body + wt_arms r end.
Proof. exact wt_arms_is. Qed.
Check C01_wt_arms_is : forall l,
  wt_arms l = match l with [] => 0 | (pre, _, body) :: r => wt_block pre + wt_block body + wt_arms r end.

Theorem C01_call_weight_is : forall fs,
  (forall g body, fun_body fs g = Some body -> wt_block body < call_weight fs) /\
  1 <= call_weight fs /\
  call_weight fs = S (fold_right (fun gb a => Nat.max (wt_block (snd gb)) a) 0 fs).
Proof. exact call_weight_is. Qed.
Check C01_call_weight_is : forall fs,
  (forall g body, fun_body fs g = Some body -> wt_block body < call_weight fs) /\
  1 <= call_weight fs /\
  call_weight fs = S (fold_right (fun gb a => Nat.max (wt_block (snd gb)) a) 0 fs).

Theorem C01_closed_is : forall funs,
  (forall x, cl_s funs x <->
     match x with
     | SCall g _ => fun_body funs g <> None
     | SIf _ t => cl_b funs t
     | SIfE _ t e => cl_b funs t /\ cl_b funs e
     | SCase arms d => cl_a funs arms /\ cl_b funs d
     | SUntil b _ => cl_b funs b
     | SRepeat b => cl_b funs b
     | SWhile c _ b => cl_b funs c /\ cl_b funs b
     | SDo _ b _ => cl_b funs b
     | _ => True
     end) /\
  (forall l, cl_b funs l <-> match l with [] => True | x :: r => cl_s funs x /\ cl_b funs r end) /\
  (forall a, cl_a funs a <->
     match a with [] => True | (pre, _, body) :: r => cl_b funs pre /\ cl_b funs body /\ cl_a funs r end).
Proof. exact cl_is. Qed.
Check C01_closed_is : forall funs,
  (forall x, cl_s funs x <->
     match x with
     | SCall g _ => fun_body funs g <> None
     | SIf _ t => cl_b funs t
     | SIfE _ t e => cl_b funs t /\ cl_b funs e
     | SCase arms d => cl_a funs arms /\ cl_b funs d
     | SUntil b _ => cl_b funs b
     | SRepeat b => cl_b funs b
     | SWhile c _ b => cl_b funs c /\ cl_b funs b
     | SDo _ b _ => cl_b funs b
     | _ => True
     end) /\
  (forall l, cl_b funs l <-> match l with [] => True | x :: r => cl_s funs x /\ cl_b funs r end) /\
  (forall a, cl_a funs a <->
     match a with [] => True | (pre, _, body) :: r => cl_b funs pre /\ cl_b funs body /\ cl_a funs r end).

Theorem C01_funs_closed_is : forall funs,
  funs_closed funs <-> (forall g body, fun_body funs g = Some body -> cl_b funs body).
Proof. exact funs_closed_is. Qed.
Check C01_funs_closed_is : forall funs,
  funs_closed funs <-> (forall g body, fun_body funs g = Some body -> cl_b funs body).

Theorem C01_prog_closed_is : forall funs l, prog_closed funs l <-> (cl_b funs l /\ funs_closed funs).
Proof. exact prog_closed_is. Qed.
Check C01_prog_closed_is : forall funs l, prog_closed funs l <-> (cl_b funs l /\ funs_closed funs).

Theorem C01_run_reflects_is : forall fo funs t l r,
  run_reflects fo funs t l r <->
  match r with
  | ROk _ s' => exists fuel t', sblock fo funs fuel l t = SDone t' /\ sim t' s'
  | RErr kd pl s' => exists fuel p t', sblock fo funs fuel l t = SFail kd pl p t' /\ sim t' s'
  | RPanic => exists fuel, sblock fo funs fuel l t = SUnsup
  | RUnsup => exists fuel, sblock fo funs fuel l t = SUnsup
  end.
Proof. exact run_reflects_is. Qed.
Check C01_run_reflects_is : forall fo funs t l r,
  run_reflects fo funs t l r <->
  match r with
  | ROk _ s' => exists fuel t', sblock fo funs fuel l t = SDone t' /\ sim t' s'
  | RErr kd pl s' => exists fuel p t', sblock fo funs fuel l t = SFail kd pl p t' /\ sim t' s'
  | RPanic => exists fuel, sblock fo funs fuel l t = SUnsup
  | RUnsup => exists fuel, sblock fo funs fuel l t = SUnsup
  end.

(* ---------- blocks and statements: every nesting, every break context ----------
   the forward simulation with the trace: every machine state before the final one is inside
   the region of the tree; out of fuel = many steps inside; SUnsup = stuck inside *)
Theorem C01_block_simulation_traced : forall fo funs faddr fuel b org bc t s,
  funs_placed funs faddr (code s) -> funs_closed funs -> wf_b b -> cl_b funs b -> brk_ok bc b ->
  firstn (size_block b) (skipn org (code s)) = lay_block faddr b org bc ->
  rlog s = None -> insn_limit s = None -> ip s = org -> sim t s ->
  agreesq (native_fn fo) (inreg (rskeys s) org (org + size_block b)) (call_weight funs) s
          (org + size_block b) bc (fuel - wt_block b) (sblock fo funs fuel b t).
Proof. exact fwdq_block. Qed.
Check C01_block_simulation_traced : forall fo funs faddr fuel b org bc t s,
  funs_placed funs faddr (code s) -> funs_closed funs -> wf_b b -> cl_b funs b -> brk_ok bc b ->
  firstn (size_block b) (skipn org (code s)) = lay_block faddr b org bc ->
  rlog s = None -> insn_limit s = None -> ip s = org -> sim t s ->
  agreesq (native_fn fo) (inreg (rskeys s) org (org + size_block b)) (call_weight funs) s
          (org + size_block b) bc (fuel - wt_block b) (sblock fo funs fuel b t).

Theorem C01_stmt_simulation_traced : forall fo funs faddr fuel x org bc t s,
  funs_placed funs faddr (code s) -> funs_closed funs -> wf_s x -> cl_s funs x -> brk_ok_s bc x ->
  firstn (size_stmt x) (skipn org (code s)) = lay_stmt faddr x org bc ->
  rlog s = None -> insn_limit s = None -> ip s = org -> sim t s ->
  agreesq (native_fn fo) (inreg (rskeys s) org (org + size_stmt x)) (call_weight funs) s
          (org + size_stmt x) bc (fuel - wt_stmt x) (sstmt fo funs fuel x t).
Proof. exact fwdq_stmt. Qed.
Check C01_stmt_simulation_traced : forall fo funs faddr fuel x org bc t s,
  funs_placed funs faddr (code s) -> funs_closed funs -> wf_s x -> cl_s funs x -> brk_ok_s bc x ->
  firstn (size_stmt x) (skipn org (code s)) = lay_stmt faddr x org bc ->
  rlog s = None -> insn_limit s = None -> ip s = org -> sim t s ->
  agreesq (native_fn fo) (inreg (rskeys s) org (org + size_stmt x)) (call_weight funs) s
          (org + size_stmt x) bc (fuel - wt_stmt x) (sstmt fo funs fuel x t).

(* 1. the quantitative lemma: an evaluator that is out of fuel has spent at most [wt_block b] units
   on the descent and at most [call_weight funs] units per machine step, so the machine makes
   (fuel - wt_block b) / call_weight funs steps without leaving the code of the block (in the
   activation that entered it) and without failing *)
Theorem C01_block_out_of_fuel_steps : forall fo funs faddr fuel b org bc t s,
  funs_placed funs faddr (code s) -> funs_closed funs -> wf_b b -> cl_b funs b -> brk_ok bc b ->
  firstn (size_block b) (skipn org (code s)) = lay_block faddr b org bc ->
  rlog s = None -> insn_limit s = None -> ip s = org -> sim t s ->
  sblock fo funs fuel b t = SOut ->
  forall m, wt_block b + call_weight funs * S m <= fuel ->
    exists sm, steps (native_fn fo) m s = Some sm /\ inreg (rskeys s) org (org + size_block b) sm.
Proof. exact block_out_steps. Qed.
Check C01_block_out_of_fuel_steps : forall fo funs faddr fuel b org bc t s,
  funs_placed funs faddr (code s) -> funs_closed funs -> wf_b b -> cl_b funs b -> brk_ok bc b ->
  firstn (size_block b) (skipn org (code s)) = lay_block faddr b org bc ->
  rlog s = None -> insn_limit s = None -> ip s = org -> sim t s ->
  sblock fo funs fuel b t = SOut ->
  forall m, wt_block b + call_weight funs * S m <= fuel ->
    exists sm, steps (native_fn fo) m s = Some sm /\ inreg (rskeys s) org (org + size_block b) sm.

Theorem C01_block_out_of_fuel_steps_quotient : forall fo funs faddr fuel b org bc t s,
  funs_placed funs faddr (code s) -> funs_closed funs -> wf_b b -> cl_b funs b -> brk_ok bc b ->
  firstn (size_block b) (skipn org (code s)) = lay_block faddr b org bc ->
  rlog s = None -> insn_limit s = None -> ip s = org -> sim t s ->
  sblock fo funs fuel b t = SOut ->
  forall m, m < (fuel - wt_block b) / call_weight funs ->
    exists sm, steps (native_fn fo) m s = Some sm /\ inreg (rskeys s) org (org + size_block b) sm.
Proof. exact block_out_steps_div. Qed.
Check C01_block_out_of_fuel_steps_quotient : forall fo funs faddr fuel b org bc t s,
  funs_placed funs faddr (code s) -> funs_closed funs -> wf_b b -> cl_b funs b -> brk_ok bc b ->
  firstn (size_block b) (skipn org (code s)) = lay_block faddr b org bc ->
  rlog s = None -> insn_limit s = None -> ip s = org -> sim t s ->
  sblock fo funs fuel b t = SOut ->
  forall m, m < (fuel - wt_block b) / call_weight funs ->
    exists sm, steps (native_fn fo) m s = Some sm /\ inreg (rskeys s) org (org + size_block b) sm.

(* 2. divergence: structurally never terminates => the machine runs forever inside the code of
   the block: every step succeeds, and whenever the return stack is at the entry depth the
   instruction pointer is strictly before the cell behind the block (it never falls through) *)
Theorem C01_block_divergence : forall fo funs faddr b org bc t s,
  funs_placed funs faddr (code s) -> funs_closed funs -> wf_b b -> cl_b funs b -> brk_ok bc b ->
  firstn (size_block b) (skipn org (code s)) = lay_block faddr b org bc ->
  rlog s = None -> insn_limit s = None -> ip s = org -> sim t s ->
  (forall fuel, sblock fo funs fuel b t = SOut) ->
  forall n, exists sn s', steps (native_fn fo) n s = Some sn /\
                          inreg (rskeys s) org (org + size_block b) sn /\
                          fetch_and_run (native_fn fo) sn = ROk tt s' /\
                          (rskeys sn = rskeys s -> org <= ip sn < org + size_block b).
Proof. exact block_diverges. Qed.
Check C01_block_divergence : forall fo funs faddr b org bc t s,
  funs_placed funs faddr (code s) -> funs_closed funs -> wf_b b -> cl_b funs b -> brk_ok bc b ->
  firstn (size_block b) (skipn org (code s)) = lay_block faddr b org bc ->
  rlog s = None -> insn_limit s = None -> ip s = org -> sim t s ->
  (forall fuel, sblock fo funs fuel b t = SOut) ->
  forall n, exists sn s', steps (native_fn fo) n s = Some sn /\
                          inreg (rskeys s) org (org + size_block b) sn /\
                          fetch_and_run (native_fn fo) sn = ROk tt s' /\
                          (rskeys sn = rskeys s -> org <= ip sn < org + size_block b).

(* the same for one statement - in particular for a loop (begin-repeat, begin-until,
   begin-while-repeat, do-loop): a loop that structurally never terminates never falls through *)
Theorem C01_stmt_out_of_fuel_steps : forall fo funs faddr fuel x org bc t s,
  funs_placed funs faddr (code s) -> funs_closed funs -> wf_s x -> cl_s funs x -> brk_ok_s bc x ->
  firstn (size_stmt x) (skipn org (code s)) = lay_stmt faddr x org bc ->
  rlog s = None -> insn_limit s = None -> ip s = org -> sim t s ->
  sstmt fo funs fuel x t = SOut ->
  forall m, wt_stmt x + call_weight funs * S m <= fuel ->
    exists sm, steps (native_fn fo) m s = Some sm /\ inreg (rskeys s) org (org + size_stmt x) sm.
Proof. exact stmt_out_steps. Qed.
Check C01_stmt_out_of_fuel_steps : forall fo funs faddr fuel x org bc t s,
  funs_placed funs faddr (code s) -> funs_closed funs -> wf_s x -> cl_s funs x -> brk_ok_s bc x ->
  firstn (size_stmt x) (skipn org (code s)) = lay_stmt faddr x org bc ->
  rlog s = None -> insn_limit s = None -> ip s = org -> sim t s ->
  sstmt fo funs fuel x t = SOut ->
  forall m, wt_stmt x + call_weight funs * S m <= fuel ->
    exists sm, steps (native_fn fo) m s = Some sm /\ inreg (rskeys s) org (org + size_stmt x) sm.

Theorem C01_stmt_divergence : forall fo funs faddr x org bc t s,
  funs_placed funs faddr (code s) -> funs_closed funs -> wf_s x -> cl_s funs x -> brk_ok_s bc x ->
  firstn (size_stmt x) (skipn org (code s)) = lay_stmt faddr x org bc ->
  rlog s = None -> insn_limit s = None -> ip s = org -> sim t s ->
  (forall fuel, sstmt fo funs fuel x t = SOut) ->
  forall n, exists sn s', steps (native_fn fo) n s = Some sn /\
                          inreg (rskeys s) org (org + size_stmt x) sn /\
                          fetch_and_run (native_fn fo) sn = ROk tt s' /\
                          (rskeys sn = rskeys s -> org <= ip sn < org + size_stmt x).
Proof. exact stmt_diverges. Qed.
Check C01_stmt_divergence : forall fo funs faddr x org bc t s,
  funs_placed funs faddr (code s) -> funs_closed funs -> wf_s x -> cl_s funs x -> brk_ok_s bc x ->
  firstn (size_stmt x) (skipn org (code s)) = lay_stmt faddr x org bc ->
  rlog s = None -> insn_limit s = None -> ip s = org -> sim t s ->
  (forall fuel, sstmt fo funs fuel x t = SOut) ->
  forall n, exists sn s', steps (native_fn fo) n s = Some sn /\
                          inreg (rskeys s) org (org + size_stmt x) sn /\
                          fetch_and_run (native_fn fo) sn = ROk tt s' /\
                          (rskeys sn = rskeys s -> org <= ip sn < org + size_stmt x).

(* 3. termination reflection: within n steps the machine has left the region or stopped => the
   evaluator returns a result, with an explicit fuel (and [C01_block_simulation_traced] says
   that the result is what the machine exhibits) *)
Theorem C01_block_termination_reflected : forall fo funs faddr b org bc t s n sn,
  funs_placed funs faddr (code s) -> funs_closed funs -> wf_b b -> cl_b funs b -> brk_ok bc b ->
  firstn (size_block b) (skipn org (code s)) = lay_block faddr b org bc ->
  rlog s = None -> insn_limit s = None -> ip s = org -> sim t s ->
  steps (native_fn fo) n s = Some sn ->
  (~ inreg (rskeys s) org (org + size_block b) sn \/
   (forall s', fetch_and_run (native_fn fo) sn <> ROk tt s')) ->
  sblock fo funs (wt_block b + call_weight funs * S (S n)) b t <> SOut.
Proof. exact block_terminates. Qed.
Check C01_block_termination_reflected : forall fo funs faddr b org bc t s n sn,
  funs_placed funs faddr (code s) -> funs_closed funs -> wf_b b -> cl_b funs b -> brk_ok bc b ->
  firstn (size_block b) (skipn org (code s)) = lay_block faddr b org bc ->
  rlog s = None -> insn_limit s = None -> ip s = org -> sim t s ->
  steps (native_fn fo) n s = Some sn ->
  (~ inreg (rskeys s) org (org + size_block b) sn \/
   (forall s', fetch_and_run (native_fn fo) sn <> ROk tt s')) ->
  sblock fo funs (wt_block b + call_weight funs * S (S n)) b t <> SOut.

(* the machine has left the region: the evaluator ran the block to its end ([sm] is the first
   state outside: the cell behind the block, entry depth, related state) or stopped at a `break`
   of the enclosing loop ([sm] stands at the break instruction) *)
Theorem C01_block_leaves_converse : forall fo funs faddr b org bc t s n sn,
  funs_placed funs faddr (code s) -> funs_closed funs -> wf_b b -> cl_b funs b -> brk_ok bc b ->
  firstn (size_block b) (skipn org (code s)) = lay_block faddr b org bc ->
  rlog s = None -> insn_limit s = None -> ip s = org -> sim t s ->
  steps (native_fn fo) n s = Some sn -> ~ inreg (rskeys s) org (org + size_block b) sn ->
  exists fuel m sm, m <= n /\ steps (native_fn fo) m s = Some sm /\
    (forall k, k < m -> exists sk, steps (native_fn fo) k s = Some sk /\
                                   inreg (rskeys s) org (org + size_block b) sk) /\
    match sblock fo funs fuel b t with
    | SDone t' => ip sm = org + size_block b /\ sim t' sm /\ rskeys sm = rskeys s
    | SBroke t' => m < n /\ inreg (rskeys s) org (org + size_block b) sm /\
                   nth_error (code s) (ip sm) = Some (brk_op (ip sm) bc) /\ bc <> BNone /\
                   sim t' sm /\ rskeys sm = rskeys s
    | _ => False
    end.
Proof. exact block_leaves. Qed.
Check C01_block_leaves_converse : forall fo funs faddr b org bc t s n sn,
  funs_placed funs faddr (code s) -> funs_closed funs -> wf_b b -> cl_b funs b -> brk_ok bc b ->
  firstn (size_block b) (skipn org (code s)) = lay_block faddr b org bc ->
  rlog s = None -> insn_limit s = None -> ip s = org -> sim t s ->
  steps (native_fn fo) n s = Some sn -> ~ inreg (rskeys s) org (org + size_block b) sn ->
  exists fuel m sm, m <= n /\ steps (native_fn fo) m s = Some sm /\
    (forall k, k < m -> exists sk, steps (native_fn fo) k s = Some sk /\
                                   inreg (rskeys s) org (org + size_block b) sk) /\
    match sblock fo funs fuel b t with
    | SDone t' => ip sm = org + size_block b /\ sim t' sm /\ rskeys sm = rskeys s
    | SBroke t' => m < n /\ inreg (rskeys s) org (org + size_block b) sm /\
                   nth_error (code s) (ip sm) = Some (brk_op (ip sm) bc) /\ bc <> BNone /\
                   sim t' sm /\ rskeys sm = rskeys s
    | _ => False
    end.

(* no enclosing loop: the first arrival at the cell behind the block, at the entry depth, is the
   evaluator's final state *)
Theorem C01_block_done_converse : forall fo funs faddr b org t s n sn,
  funs_placed funs faddr (code s) -> funs_closed funs -> wf_b b -> cl_b funs b -> nb_b b ->
  firstn (size_block b) (skipn org (code s)) = lay_block faddr b org BNone ->
  rlog s = None -> insn_limit s = None -> ip s = org -> sim t s ->
  steps (native_fn fo) n s = Some sn -> ip sn = org + size_block b -> rskeys sn = rskeys s ->
  (forall k sk, k < n -> steps (native_fn fo) k s = Some sk ->
                ~ (ip sk = org + size_block b /\ rskeys sk = rskeys s)) ->
  exists fuel t', sblock fo funs fuel b t = SDone t' /\ sim t' sn.
Proof. exact block_done_converse. Qed.
Check C01_block_done_converse : forall fo funs faddr b org t s n sn,
  funs_placed funs faddr (code s) -> funs_closed funs -> wf_b b -> cl_b funs b -> nb_b b ->
  firstn (size_block b) (skipn org (code s)) = lay_block faddr b org BNone ->
  rlog s = None -> insn_limit s = None -> ip s = org -> sim t s ->
  steps (native_fn fo) n s = Some sn -> ip sn = org + size_block b -> rskeys sn = rskeys s ->
  (forall k sk, k < n -> steps (native_fn fo) k s = Some sk ->
                ~ (ip sk = org + size_block b /\ rskeys sk = rskeys s)) ->
  exists fuel t', sblock fo funs fuel b t = SDone t' /\ sim t' sn.

(* no enclosing loop: a machine that fails before it has left the region fails like the evaluator *)
Theorem C01_block_fail_converse : forall fo funs faddr b org t s n sn k pl s',
  funs_placed funs faddr (code s) -> funs_closed funs -> wf_b b -> cl_b funs b -> nb_b b ->
  firstn (size_block b) (skipn org (code s)) = lay_block faddr b org BNone ->
  rlog s = None -> insn_limit s = None -> ip s = org -> sim t s ->
  steps (native_fn fo) n s = Some sn -> fetch_and_run (native_fn fo) sn = RErr k pl s' ->
  (forall m sm, m <= n -> steps (native_fn fo) m s = Some sm ->
                inreg (rskeys s) org (org + size_block b) sm) ->
  exists fuel p t', sblock fo funs fuel b t = SFail k pl p t' /\ sim t' s'.
Proof. exact block_fail_converse. Qed.
Check C01_block_fail_converse : forall fo funs faddr b org t s n sn k pl s',
  funs_placed funs faddr (code s) -> funs_closed funs -> wf_b b -> cl_b funs b -> nb_b b ->
  firstn (size_block b) (skipn org (code s)) = lay_block faddr b org BNone ->
  rlog s = None -> insn_limit s = None -> ip s = org -> sim t s ->
  steps (native_fn fo) n s = Some sn -> fetch_and_run (native_fn fo) sn = RErr k pl s' ->
  (forall m sm, m <= n -> steps (native_fn fo) m s = Some sm ->
                inreg (rskeys s) org (org + size_block b) sm) ->
  exists fuel p t', sblock fo funs fuel b t = SFail k pl p t' /\ sim t' s'.

(* ---------- whole programs ---------- *)
Theorem C01_program_simulation_traced : forall fo funs l org prog fuel t s,
  layout_program funs l org = Some prog -> prog_wf funs l -> prog_closed funs l ->
  firstn (length prog) (skipn org (code s)) = prog ->
  rlog s = None -> insn_limit s = None -> ip s = org -> sim t s ->
  agreesq (native_fn fo) (inreg (rskeys s) org (org + length prog)) (call_weight funs) s
          (org + length prog) BNone (fuel - wt_block l) (sblock fo funs fuel l t).
Proof. exact fwdq_program. Qed.
Check C01_program_simulation_traced : forall fo funs l org prog fuel t s,
  layout_program funs l org = Some prog -> prog_wf funs l -> prog_closed funs l ->
  firstn (length prog) (skipn org (code s)) = prog ->
  rlog s = None -> insn_limit s = None -> ip s = org -> sim t s ->
  agreesq (native_fn fo) (inreg (rskeys s) org (org + length prog)) (call_weight funs) s
          (org + length prog) BNone (fuel - wt_block l) (sblock fo funs fuel l t).

Theorem C01_program_out_of_fuel_steps : forall fo funs l org prog fuel t s,
  layout_program funs l org = Some prog -> prog_wf funs l -> prog_closed funs l ->
  firstn (length prog) (skipn org (code s)) = prog ->
  rlog s = None -> insn_limit s = None -> ip s = org -> sim t s ->
  sblock fo funs fuel l t = SOut ->
  forall m, wt_block l + call_weight funs * S m <= fuel ->
    exists sm, steps (native_fn fo) m s = Some sm /\ inreg (rskeys s) org (org + length prog) sm.
Proof. exact program_out_steps. Qed.
Check C01_program_out_of_fuel_steps : forall fo funs l org prog fuel t s,
  layout_program funs l org = Some prog -> prog_wf funs l -> prog_closed funs l ->
  firstn (length prog) (skipn org (code s)) = prog ->
  rlog s = None -> insn_limit s = None -> ip s = org -> sim t s ->
  sblock fo funs fuel l t = SOut ->
  forall m, wt_block l + call_weight funs * S m <= fuel ->
    exists sm, steps (native_fn fo) m s = Some sm /\ inreg (rskeys s) org (org + length prog) sm.

Theorem C01_program_divergence : forall fo funs l org prog t s,
  layout_program funs l org = Some prog -> prog_wf funs l -> prog_closed funs l ->
  firstn (length prog) (skipn org (code s)) = prog ->
  rlog s = None -> insn_limit s = None -> ip s = org -> sim t s ->
  (forall fuel, sblock fo funs fuel l t = SOut) ->
  forall n, exists sn s', steps (native_fn fo) n s = Some sn /\
                          inreg (rskeys s) org (org + length prog) sn /\
                          fetch_and_run (native_fn fo) sn = ROk tt s' /\
                          (rskeys sn = rskeys s -> org <= ip sn < org + length prog).
Proof. exact program_diverges. Qed.
Check C01_program_divergence : forall fo funs l org prog t s,
  layout_program funs l org = Some prog -> prog_wf funs l -> prog_closed funs l ->
  firstn (length prog) (skipn org (code s)) = prog ->
  rlog s = None -> insn_limit s = None -> ip s = org -> sim t s ->
  (forall fuel, sblock fo funs fuel l t = SOut) ->
  forall n, exists sn s', steps (native_fn fo) n s = Some sn /\
                          inreg (rskeys s) org (org + length prog) sn /\
                          fetch_and_run (native_fn fo) sn = ROk tt s' /\
                          (rskeys sn = rskeys s -> org <= ip sn < org + length prog).

(* the program is the tail of the code vector: the evaluator answers SUnsup => [run] stops on a panic / unsupported result *)
Theorem C01_program_unsup_run : forall fo funs l org prog fuel t s,
  layout_program funs l org = Some prog -> prog_wf funs l -> prog_closed funs l ->
  skipn org (code s) = prog ->
  rlog s = None -> insn_limit s = None -> ip s = org -> sim t s ->
  sblock fo funs fuel l t = SUnsup ->
  exists N r, (r = RPanic \/ r = RUnsup) /\ forall k, N < k -> run (native_fn fo) k s = Some r.
Proof. exact program_run_unsup. Qed.
Check C01_program_unsup_run : forall fo funs l org prog fuel t s,
  layout_program funs l org = Some prog -> prog_wf funs l -> prog_closed funs l ->
  skipn org (code s) = prog ->
  rlog s = None -> insn_limit s = None -> ip s = org -> sim t s ->
  sblock fo funs fuel l t = SUnsup ->
  exists N r, (r = RPanic \/ r = RUnsup) /\ forall k, N < k -> run (native_fn fo) k s = Some r.

(* the evaluator is out of fuel for every fuel => [run] never returns, whatever its fuel *)
Theorem C01_program_divergence_run : forall fo funs l org prog t s,
  layout_program funs l org = Some prog -> prog_wf funs l -> prog_closed funs l ->
  skipn org (code s) = prog ->
  rlog s = None -> insn_limit s = None -> ip s = org -> sim t s ->
  (forall fuel, sblock fo funs fuel l t = SOut) ->
  forall rf, run (native_fn fo) rf s = None.
Proof. exact program_run_diverges. Qed.
Check C01_program_divergence_run : forall fo funs l org prog t s,
  layout_program funs l org = Some prog -> prog_wf funs l -> prog_closed funs l ->
  skipn org (code s) = prog ->
  rlog s = None -> insn_limit s = None -> ip s = org -> sim t s ->
  (forall fuel, sblock fo funs fuel l t = SOut) ->
  forall rf, run (native_fn fo) rf s = None.

(* [run] returns with fuel k => the evaluator returns a result with an explicit fuel *)
Theorem C01_program_run_termination_reflected : forall fo funs l org prog t s k r,
  layout_program funs l org = Some prog -> prog_wf funs l -> prog_closed funs l ->
  skipn org (code s) = prog ->
  rlog s = None -> insn_limit s = None -> ip s = org -> sim t s ->
  run (native_fn fo) k s = Some r ->
  sblock fo funs (wt_block l + call_weight funs * S k) l t <> SOut.
Proof. exact program_run_terminates. Qed.
Check C01_program_run_termination_reflected : forall fo funs l org prog t s k r,
  layout_program funs l org = Some prog -> prog_wf funs l -> prog_closed funs l ->
  skipn org (code s) = prog ->
  rlog s = None -> insn_limit s = None -> ip s = org -> sim t s ->
  run (native_fn fo) k s = Some r ->
  sblock fo funs (wt_block l + call_weight funs * S k) l t <> SOut.

(* the converse of C01_program_run: whatever [run] returns is the evaluator's result for some fuel *)
Theorem C01_program_run_converse : forall fo funs l org prog t s k r,
  layout_program funs l org = Some prog -> prog_wf funs l -> prog_closed funs l ->
  skipn org (code s) = prog ->
  rlog s = None -> insn_limit s = None -> ip s = org -> sim t s ->
  run (native_fn fo) k s = Some r -> run_reflects fo funs t l r.
Proof. exact program_run_converse. Qed.
Check C01_program_run_converse : forall fo funs l org prog t s k r,
  layout_program funs l org = Some prog -> prog_wf funs l -> prog_closed funs l ->
  skipn org (code s) = prog ->
  rlog s = None -> insn_limit s = None -> ip s = org -> sim t s ->
  run (native_fn fo) k s = Some r -> run_reflects fo funs t l r.

(* termination, failure and divergence are the same on both sides *)
Theorem C01_program_run_iff : forall fo funs l org prog t s,
  layout_program funs l org = Some prog -> prog_wf funs l -> prog_closed funs l ->
  skipn org (code s) = prog ->
  rlog s = None -> insn_limit s = None -> ip s = org -> sim t s ->
  ((exists k s', run (native_fn fo) k s = Some (ROk tt s')) <->
   (exists fuel t', sblock fo funs fuel l t = SDone t')) /\
  ((exists k kd pl s', run (native_fn fo) k s = Some (RErr kd pl s')) <->
   (exists fuel kd pl p t', sblock fo funs fuel l t = SFail kd pl p t')) /\
  ((forall k, run (native_fn fo) k s = None) <-> (forall fuel, sblock fo funs fuel l t = SOut)).
Proof. exact program_run_iff. Qed.
Check C01_program_run_iff : forall fo funs l org prog t s,
  layout_program funs l org = Some prog -> prog_wf funs l -> prog_closed funs l ->
  skipn org (code s) = prog ->
  rlog s = None -> insn_limit s = None -> ip s = org -> sim t s ->
  ((exists k s', run (native_fn fo) k s = Some (ROk tt s')) <->
   (exists fuel t', sblock fo funs fuel l t = SDone t')) /\
  ((exists k kd pl s', run (native_fn fo) k s = Some (RErr kd pl s')) <->
   (exists fuel kd pl p t', sblock fo funs fuel l t = SFail kd pl p t')) /\
  ((forall k, run (native_fn fo) k s = None) <-> (forall fuel, sblock fo funs fuel l t = SOut)).

(* ---------- every source: the parser only returns closed programs ----------
   (so the source-level theorems have neither a well-formedness nor a closedness hypothesis) *)
Theorem C01_parsed_program_closed : forall fo pr src heap0 l funs n,
  parse_source fo pr src heap0 = Some (l, funs, n) -> prog_closed funs l.
Proof. exact parse_prog_closed. Qed.
Check C01_parsed_program_closed : forall fo pr src heap0 l funs n,
  parse_source fo pr src heap0 = Some (l, funs, n) -> prog_closed funs l.

Theorem C01_source_simulation_traced : forall fo pr src org prog fuel t0 s l funs n,
  parse_source fo pr src (length (heap t0)) = Some (l, funs, n) ->
  layout_program funs l org = Some prog ->
  firstn (length prog) (skipn org (code s)) = prog ->
  rlog s = None -> insn_limit s = None -> ip s = org ->
  sim (set_heap t0 (heap t0 ++ repeat CNil (n - length (heap t0)))) s ->
  exists r, seval_source fo pr fuel src t0 = CRun r /\
            agreesq (native_fn fo) (inreg (rskeys s) org (org + length prog)) (call_weight funs) s
                    (org + length prog) BNone (fuel - wt_block l) r.
Proof. exact source_stepsq. Qed.
Check C01_source_simulation_traced : forall fo pr src org prog fuel t0 s l funs n,
  parse_source fo pr src (length (heap t0)) = Some (l, funs, n) ->
  layout_program funs l org = Some prog ->
  firstn (length prog) (skipn org (code s)) = prog ->
  rlog s = None -> insn_limit s = None -> ip s = org ->
  sim (set_heap t0 (heap t0 ++ repeat CNil (n - length (heap t0)))) s ->
  exists r, seval_source fo pr fuel src t0 = CRun r /\
            agreesq (native_fn fo) (inreg (rskeys s) org (org + length prog)) (call_weight funs) s
                    (org + length prog) BNone (fuel - wt_block l) r.

Theorem C01_source_out_of_fuel_steps : forall fo pr src org prog fuel t0 s l funs n,
  parse_source fo pr src (length (heap t0)) = Some (l, funs, n) ->
  layout_program funs l org = Some prog ->
  firstn (length prog) (skipn org (code s)) = prog ->
  rlog s = None -> insn_limit s = None -> ip s = org ->
  sim (set_heap t0 (heap t0 ++ repeat CNil (n - length (heap t0)))) s ->
  seval_source fo pr fuel src t0 = CRun SOut ->
  forall m, wt_block l + call_weight funs * S m <= fuel ->
    exists sm, steps (native_fn fo) m s = Some sm /\ inreg (rskeys s) org (org + length prog) sm.
Proof. exact source_out_steps. Qed.
Check C01_source_out_of_fuel_steps : forall fo pr src org prog fuel t0 s l funs n,
  parse_source fo pr src (length (heap t0)) = Some (l, funs, n) ->
  layout_program funs l org = Some prog ->
  firstn (length prog) (skipn org (code s)) = prog ->
  rlog s = None -> insn_limit s = None -> ip s = org ->
  sim (set_heap t0 (heap t0 ++ repeat CNil (n - length (heap t0)))) s ->
  seval_source fo pr fuel src t0 = CRun SOut ->
  forall m, wt_block l + call_weight funs * S m <= fuel ->
    exists sm, steps (native_fn fo) m s = Some sm /\ inreg (rskeys s) org (org + length prog) sm.

Theorem C01_source_divergence : forall fo pr src org prog t0 s l funs n,
  parse_source fo pr src (length (heap t0)) = Some (l, funs, n) ->
  layout_program funs l org = Some prog ->
  firstn (length prog) (skipn org (code s)) = prog ->
  rlog s = None -> insn_limit s = None -> ip s = org ->
  sim (set_heap t0 (heap t0 ++ repeat CNil (n - length (heap t0)))) s ->
  (forall fuel, seval_source fo pr fuel src t0 = CRun SOut) ->
  forall k, exists sk s', steps (native_fn fo) k s = Some sk /\
                          inreg (rskeys s) org (org + length prog) sk /\
                          fetch_and_run (native_fn fo) sk = ROk tt s' /\
                          (rskeys sk = rskeys s -> org <= ip sk < org + length prog).
Proof. exact source_diverges. Qed.
Check C01_source_divergence : forall fo pr src org prog t0 s l funs n,
  parse_source fo pr src (length (heap t0)) = Some (l, funs, n) ->
  layout_program funs l org = Some prog ->
  firstn (length prog) (skipn org (code s)) = prog ->
  rlog s = None -> insn_limit s = None -> ip s = org ->
  sim (set_heap t0 (heap t0 ++ repeat CNil (n - length (heap t0)))) s ->
  (forall fuel, seval_source fo pr fuel src t0 = CRun SOut) ->
  forall k, exists sk s', steps (native_fn fo) k s = Some sk /\
                          inreg (rskeys s) org (org + length prog) sk /\
                          fetch_and_run (native_fn fo) sk = ROk tt s' /\
                          (rskeys sk = rskeys s -> org <= ip sk < org + length prog).

(* the converse of C01_source_run *)
Theorem C01_source_run_converse : forall fo pr src org prog t0 s l funs n k r,
  parse_source fo pr src (length (heap t0)) = Some (l, funs, n) ->
  layout_program funs l org = Some prog ->
  skipn org (code s) = prog ->
  rlog s = None -> insn_limit s = None -> ip s = org ->
  sim (set_heap t0 (heap t0 ++ repeat CNil (n - length (heap t0)))) s ->
  run (native_fn fo) k s = Some r ->
  match r with
  | ROk _ s' => exists fuel t', seval_source fo pr fuel src t0 = CRun (SDone t') /\ sim t' s'
  | RErr kd pl s' => exists fuel p t', seval_source fo pr fuel src t0 = CRun (SFail kd pl p t') /\ sim t' s'
  | RPanic => exists fuel, seval_source fo pr fuel src t0 = CRun SUnsup
  | RUnsup => exists fuel, seval_source fo pr fuel src t0 = CRun SUnsup
  end.
Proof. exact source_run_converse. Qed.
Check C01_source_run_converse : forall fo pr src org prog t0 s l funs n k r,
  parse_source fo pr src (length (heap t0)) = Some (l, funs, n) ->
  layout_program funs l org = Some prog ->
  skipn org (code s) = prog ->
  rlog s = None -> insn_limit s = None -> ip s = org ->
  sim (set_heap t0 (heap t0 ++ repeat CNil (n - length (heap t0)))) s ->
  run (native_fn fo) k s = Some r ->
  match r with
  | ROk _ s' => exists fuel t', seval_source fo pr fuel src t0 = CRun (SDone t') /\ sim t' s'
  | RErr kd pl s' => exists fuel p t', seval_source fo pr fuel src t0 = CRun (SFail kd pl p t') /\ sim t' s'
  | RPanic => exists fuel, seval_source fo pr fuel src t0 = CRun SUnsup
  | RUnsup => exists fuel, seval_source fo pr fuel src t0 = CRun SUnsup
  end.

Theorem C01_source_run_termination_reflected : forall fo pr src org prog t0 s l funs n k r,
  parse_source fo pr src (length (heap t0)) = Some (l, funs, n) ->
  layout_program funs l org = Some prog ->
  skipn org (code s) = prog ->
  rlog s = None -> insn_limit s = None -> ip s = org ->
  sim (set_heap t0 (heap t0 ++ repeat CNil (n - length (heap t0)))) s ->
  run (native_fn fo) k s = Some r ->
  seval_source fo pr (wt_block l + call_weight funs * S k) src t0 <> CRun SOut.
Proof. exact source_run_terminates. Qed.
Check C01_source_run_termination_reflected : forall fo pr src org prog t0 s l funs n k r,
  parse_source fo pr src (length (heap t0)) = Some (l, funs, n) ->
  layout_program funs l org = Some prog ->
  skipn org (code s) = prog ->
  rlog s = None -> insn_limit s = None -> ip s = org ->
  sim (set_heap t0 (heap t0 ++ repeat CNil (n - length (heap t0)))) s ->
  run (native_fn fo) k s = Some r ->
  seval_source fo pr (wt_block l + call_weight funs * S k) src t0 <> CRun SOut.

(* for every source the parser accepts: [run] ends normally / fails / never returns exactly when the structural evaluation does *)
Theorem C01_source_run_iff : forall fo pr src org prog t0 s l funs n,
  parse_source fo pr src (length (heap t0)) = Some (l, funs, n) ->
  layout_program funs l org = Some prog ->
  skipn org (code s) = prog ->
  rlog s = None -> insn_limit s = None -> ip s = org ->
  sim (set_heap t0 (heap t0 ++ repeat CNil (n - length (heap t0)))) s ->
  ((exists k s', run (native_fn fo) k s = Some (ROk tt s')) <->
   (exists fuel t', seval_source fo pr fuel src t0 = CRun (SDone t'))) /\
  ((exists k kd pl s', run (native_fn fo) k s = Some (RErr kd pl s')) <->
   (exists fuel kd pl p t', seval_source fo pr fuel src t0 = CRun (SFail kd pl p t'))) /\
  ((forall k, run (native_fn fo) k s = None) <-> (forall fuel, seval_source fo pr fuel src t0 = CRun SOut)).
Proof. exact source_run_iff. Qed.
Check C01_source_run_iff : forall fo pr src org prog t0 s l funs n,
  parse_source fo pr src (length (heap t0)) = Some (l, funs, n) ->
  layout_program funs l org = Some prog ->
  skipn org (code s) = prog ->
  rlog s = None -> insn_limit s = None -> ip s = org ->
  sim (set_heap t0 (heap t0 ++ repeat CNil (n - length (heap t0)))) s ->
  ((exists k s', run (native_fn fo) k s = Some (ROk tt s')) <->
   (exists fuel t', seval_source fo pr fuel src t0 = CRun (SDone t'))) /\
  ((exists k kd pl s', run (native_fn fo) k s = Some (RErr kd pl s')) <->
   (exists fuel kd pl p t', seval_source fo pr fuel src t0 = CRun (SFail kd pl p t'))) /\
  ((forall k, run (native_fn fo) k s = None) <-> (forall fuel, seval_source fo pr fuel src t0 = CRun SOut)).
(* ---------- non-vacuity ---------- *)
Local Open Scope string_scope.
Definition exq_fo : fops := fops_with Z.add Z.sub Z.mul Z.div Z.rem Z.min Z.max.
Definition exq_pr : string -> option Z := fun _ => None.

(* A. a definition whose body is an infinite loop, called from the top level *)
Definition exq_srcA : string := ": spin begin 1 drop repeat ; 7 spin 8".
Definition exq_parsedA := Eval vm_compute in parse_source exq_fo exq_pr exq_srcA (length boot_heap).
Definition exq_lA := Eval vm_compute in match exq_parsedA with Some (l, _, _) => l | None => [] end.
Definition exq_fA := Eval vm_compute in match exq_parsedA with Some (_, f, _) => f | None => [] end.
Definition exq_progA := Eval vm_compute in match layout_program exq_fA exq_lA 0 with Some p => p | None => [] end.
Definition exq_sA : state := set_code boot exq_progA.

(* the hypotheses of the source-level theorems hold ... *)
Example C01_divergence_hypotheses :
  parse_source exq_fo exq_pr exq_srcA (length (heap exq_sA)) = Some (exq_lA, exq_fA, 6) /\
  layout_program exq_fA exq_lA 0 = Some exq_progA /\
  skipn 0 (code exq_sA) = exq_progA /\ firstn (length exq_progA) (skipn 0 (code exq_sA)) = exq_progA /\
  rlog exq_sA = None /\ insn_limit exq_sA = None /\ ip exq_sA = 0 /\
  sim (set_heap exq_sA (heap exq_sA ++ repeat CNil (6 - length (heap exq_sA)))) exq_sA /\
  length exq_progA = 8 /\ wt_block exq_lA = 9 /\ call_weight exq_fA = 9.
Proof. vm_compute. repeat split. Qed.

(* ... the evaluator is out of fuel with fuel 60, the machine is still inside after 1000 steps
   (in the loop of `spin`, one activation deep), and [run] has not returned *)
Example C01_divergence_example :
  seval_source exq_fo exq_pr 60 exq_srcA exq_sA = CRun SOut /\
  (exists sn, steps (native_fn exq_fo) 1000 exq_sA = Some sn /\
              inreg (rskeys exq_sA) 0 (0 + length exq_progA) sn /\
              ip sn = 2 /\ rskeys sn = [(1, 7)%nat]) /\
  run (native_fn exq_fo) 1000 exq_sA = None.
Proof.
  split; [vm_compute; reflexivity|]. split; [|vm_compute; reflexivity].
  eexists. split; [vm_compute; reflexivity|]. split; [|vm_compute; split; reflexivity].
  right. exists [(1, 7)%nat]. split; [discriminate|vm_compute; reflexivity].
Qed.

(* the quantitative theorem applied: fuel 60 guarantees (60 - 9) / 9 = 5 steps inside *)
Example C01_out_of_fuel_example :
  exists sm, steps (native_fn exq_fo) 4 exq_sA = Some sm /\ inreg (rskeys exq_sA) 0 (0 + length exq_progA) sm.
Proof.
  eapply C01_source_out_of_fuel_steps with (pr := exq_pr) (src := exq_srcA) (fuel := 60) (t0 := exq_sA)
                                           (l := exq_lA) (funs := exq_fA) (n := 6);
    try (vm_compute; reflexivity).
  vm_compute. lia.
Qed.

(* B. a terminating loop that calls a definition: [run] returns, and the evaluator returns the
   related state with the fuel given by C01_source_run_termination_reflected: 17 + 6 * 41 *)
Definition exq_srcB : string := ": inc 1 + ; 0 begin dup 3 < while inc repeat".
Definition exq_parsedB := Eval vm_compute in parse_source exq_fo exq_pr exq_srcB (length boot_heap).
Definition exq_lB := Eval vm_compute in match exq_parsedB with Some (l, _, _) => l | None => [] end.
Definition exq_fB := Eval vm_compute in match exq_parsedB with Some (_, f, _) => f | None => [] end.
Definition exq_progB := Eval vm_compute in match layout_program exq_fB exq_lB 0 with Some p => p | None => [] end.
Definition exq_sB : state := set_code boot exq_progB.

Example C01_termination_reflected_example :
  parse_source exq_fo exq_pr exq_srcB (length (heap exq_sB)) = Some (exq_lB, exq_fB, 6) /\
  layout_program exq_fB exq_lB 0 = Some exq_progB /\ skipn 0 (code exq_sB) = exq_progB /\
  rlog exq_sB = None /\ insn_limit exq_sB = None /\ ip exq_sB = 0 /\
  sim (set_heap exq_sB (heap exq_sB ++ repeat CNil (6 - length (heap exq_sB)))) exq_sB /\
  wt_block exq_lB + call_weight exq_fB * S 40 = 263 /\
  exists s' t',
    run (native_fn exq_fo) 40 exq_sB = Some (ROk tt s') /\
    seval_source exq_fo exq_pr 263 exq_srcB exq_sB = CRun (SDone t') /\
    sim t' s' /\ ds s' = [CInt 3] /\ ip s' = 11.
Proof.
  repeat (split; [vm_compute; reflexivity|]). eexists. eexists. vm_compute. repeat split.
Qed.

(* the converse theorem applied to it *)
Example C01_source_run_converse_example :
  forall s', run (native_fn exq_fo) 40 exq_sB = Some (ROk tt s') ->
  exists fuel t', seval_source exq_fo exq_pr fuel exq_srcB exq_sB = CRun (SDone t') /\ sim t' s'.
Proof.
  intros s' H.
  exact (C01_source_run_converse exq_fo exq_pr exq_srcB 0 exq_progB exq_sB exq_sB exq_lB exq_fB 6 40 (ROk tt s')
           ltac:(vm_compute; reflexivity) ltac:(vm_compute; reflexivity) ltac:(vm_compute; reflexivity)
           eq_refl eq_refl eq_refl ltac:(vm_compute; reflexivity) H).
Qed.

(* C. the hypotheses of the block-level theorems: a block laid out in the middle of a code
   vector (a cell follows it), no functions; the machine leaves it after 26 steps, at the cell
   behind it, with the evaluator's final state *)
Definition exq_blk := Eval vm_compute in
  match parse_source exq_fo exq_pr "0 begin dup 3 < while 1 + repeat" (length boot_heap) with
  | Some (l, _, _) => l | None => [] end.
Definition exq_sC : state := set_code boot (lay_block (fun _ => 0) exq_blk 0 BNone ++ [OLoadNil]).

Example C01_block_converse_hypotheses :
  funs_placed [] (fun _ => 0) (code exq_sC) /\ funs_closed [] /\
  wf_b exq_blk /\ cl_b [] exq_blk /\ nb_b exq_blk /\ brk_ok BNone exq_blk /\
  firstn (size_block exq_blk) (skipn 0 (code exq_sC)) = lay_block (fun _ => 0) exq_blk 0 BNone /\
  rlog exq_sC = None /\ insn_limit exq_sC = None /\ ip exq_sC = 0 /\ sim exq_sC exq_sC /\
  size_block exq_blk = 8 /\ length (code exq_sC) = 9 /\
  exists sn, steps (native_fn exq_fo) 26 exq_sC = Some sn /\
             ip sn = 0 + size_block exq_blk /\ rskeys sn = rskeys exq_sC /\
             ~ inreg (rskeys exq_sC) 0 (0 + size_block exq_blk) sn /\ ds sn = [CInt 3] /\
             exists t', sblock exq_fo [] 40 exq_blk exq_sC = SDone t' /\ sim t' sn.
Proof.
  split; [intros g body H; discriminate|]. split; [intros g body H; discriminate|].
  split; [repeat constructor|]. split; [unfold cl_b; repeat constructor|].
  assert (N : nb_b exq_blk) by repeat constructor.
  split; [exact N|]. split; [intros _; exact N|].
  repeat (split; [vm_compute; reflexivity|]).
  eexists. split; [vm_compute; reflexivity|]. split; [vm_compute; reflexivity|]. split; [vm_compute; reflexivity|].
  split.
  - intros [[_ H]|(pre & Hne & E)].
    + vm_compute in H. lia.
    + vm_compute in E. destruct pre; [contradiction|discriminate].
  - split; [vm_compute; reflexivity|]. eexists. vm_compute. split; reflexivity.
Qed.

(* D. divergence, for every fuel: `begin 1 drop repeat` followed by a cell.  The evaluator is
   out of fuel for EVERY fuel (C01_repeat_diverges of Props/C01_struct.v), all the hypotheses of
   C01_block_divergence hold, hence the machine runs forever inside the three cells of the loop *)
Definition exq_loop : list stmt := [SLit (CInt 1) (6, 7)%nat; SPrim "drop" (8, 12)%nat].
Definition exq_blkD : list stmt := [SRepeat exq_loop].
Definition exq_sD : state := set_code boot (lay_block (fun _ => 0) exq_blkD 0 BNone ++ [OLoadNil]).

Example C01_block_divergence_hypotheses :
  (forall fuel, sblock exq_fo [] fuel exq_blkD exq_sD = SOut) /\
  funs_placed [] (fun _ => 0) (code exq_sD) /\ funs_closed [] /\
  wf_b exq_blkD /\ cl_b [] exq_blkD /\ brk_ok BNone exq_blkD /\
  firstn (size_block exq_blkD) (skipn 0 (code exq_sD)) = lay_block (fun _ => 0) exq_blkD 0 BNone /\
  rlog exq_sD = None /\ insn_limit exq_sD = None /\ ip exq_sD = 0 /\ sim exq_sD exq_sD /\
  size_block exq_blkD = 3 /\ length (code exq_sD) = 4.
Proof.
  split.
  - intro fuel. destruct fuel as [|f]; [reflexivity|]. unfold exq_blkD. rewrite CompileEval.sblock_cons.
    rewrite (StructNonterm.repeat_diverges exq_fo [] exq_loop (fun s => s = exq_sD)); [reflexivity| |reflexivity].
    intros f0 s ->. destruct f0 as [|[|[|f0]]]; try (left; reflexivity).
    right. eexists. split; [vm_compute; reflexivity|reflexivity].
  - split; [intros g body H; discriminate|]. split; [intros g body H; discriminate|].
    split; [repeat constructor|]. split; [unfold cl_b; repeat constructor|].
    split; [intros _; repeat constructor|].
    repeat (split; [vm_compute; reflexivity|]). vm_compute; reflexivity.
Qed.

Example C01_block_divergence_example :
  forall n, exists sn s', steps (native_fn exq_fo) n exq_sD = Some sn /\
                          inreg (rskeys exq_sD) 0 (0 + size_block exq_blkD) sn /\
                          fetch_and_run (native_fn exq_fo) sn = ROk tt s' /\
                          (rskeys sn = rskeys exq_sD -> 0 <= ip sn < 0 + size_block exq_blkD).
Proof.
  destruct C01_block_divergence_hypotheses as (H0 & H1 & H2 & H3 & H4 & H5 & H6 & H7 & H8 & H9 & H10 & _).
  exact (C01_block_divergence exq_fo [] (fun _ => 0) exq_blkD 0 BNone exq_sD exq_sD H1 H2 H3 H4 H5 H6 H7 H8 H9 H10 H0).
Qed.
