(* C18 - text encodings of binary data round-trip.
   Bytes and characters are numbers; [b32_encode Rfc4648 / b32_decode Rfc4648] are the words
   base32 / base32>, [Crockford] is base32hex / base32hex>, [b64_*] is base64 / base64>,
   [z85_*] is zero85 / zero85>.  Round trips hold for EVERY byte list of EVERY length;
   text with a character outside the alphabet decodes to None, which the decode words turn
   into nil; the decode words never raise an error of their own; the encode words accept what
   >bitstr accepts when it is a whole number of bytes, at any alignment. *)
From Xeh Require Import Model.Prelude Model.Bits Model.Cell Model.Vm Model.BaseN Model.Words.
From Xeh Require Import Proofs.BaseNKernel Proofs.BaseNProofs Proofs.WordRun Proofs.BaseNWords.
Local Notation length := List.length.

Definition is_bytes (d : list N) : Prop := Forall (fun x => (x < 256)%N) d.

(* ---------- round trips, every byte string of every length ---------- *)
Theorem C18_b32_round : forall d, is_bytes d -> b32_decode Rfc4648 (b32_encode Rfc4648 d) = Some d.
Proof. exact (b32_round Rfc4648). Qed.
Check C18_b32_round : forall d, is_bytes d -> b32_decode Rfc4648 (b32_encode Rfc4648 d) = Some d.

Theorem C18_b32hex_round : forall d, is_bytes d -> b32_decode Crockford (b32_encode Crockford d) = Some d.
Proof. exact (b32_round Crockford). Qed.
Check C18_b32hex_round : forall d, is_bytes d -> b32_decode Crockford (b32_encode Crockford d) = Some d.

Theorem C18_b64_round : forall d, is_bytes d -> b64_decode (b64_encode d) = Some d.
Proof. exact b64_round. Qed.
Check C18_b64_round : forall d, is_bytes d -> b64_decode (b64_encode d) = Some d.

Theorem C18_z85_round : forall d, is_bytes d -> z85_decode (z85_encode d) = Some d.
Proof. exact z85_round. Qed.
Check C18_z85_round : forall d, is_bytes d -> z85_decode (z85_encode d) = Some d.

(* ---------- what the encoders produce: the digits of each whole group ---------- *)
(* the symbols of a whole group are the base-64 / base-32 / base-85 digits of its big-endian
   value, most significant first, and whole groups are encoded independently of what follows *)
Definition be24 (b0 b1 b2 : N) : N := ((b0 * 256 + b1) * 256 + b2)%N.
Definition be40 (b0 b1 b2 b3 b4 : N) : N := ((((b0 * 256 + b1) * 256 + b2) * 256 + b3) * 256 + b4)%N.

Theorem C18_b64_group_digits : forall b0 b1 b2, (b0 < 256 -> b1 < 256 -> b2 < 256 ->
  let n := be24 b0 b1 b2 in
  b64_encode [b0; b1; b2]
  = map (nthN b64_alphabet) [ n / 262144; (n / 4096) mod 64; (n / 64) mod 64; n mod 64 ])%N.
Proof. exact b64_group_digits. Qed.
Check C18_b64_group_digits : forall b0 b1 b2, (b0 < 256 -> b1 < 256 -> b2 < 256 ->
  let n := be24 b0 b1 b2 in
  b64_encode [b0; b1; b2]
  = map (nthN b64_alphabet) [ n / 262144; (n / 4096) mod 64; (n / 64) mod 64; n mod 64 ])%N.

Theorem C18_b32_group_digits : forall a b0 b1 b2 b3 b4,
  (b0 < 256 -> b1 < 256 -> b2 < 256 -> b3 < 256 -> b4 < 256 ->
  let n := be40 b0 b1 b2 b3 b4 in
  b32_encode a [b0; b1; b2; b3; b4]
  = map (nthN (match a with Rfc4648 => rfc_alphabet | Crockford => crock_alphabet end))
        [ n / 34359738368; (n / 1073741824) mod 32; (n / 33554432) mod 32; (n / 1048576) mod 32;
          (n / 32768) mod 32; (n / 1024) mod 32; (n / 32) mod 32; n mod 32 ])%N.
Proof. exact b32_group_digits. Qed.
Check C18_b32_group_digits : forall a b0 b1 b2 b3 b4,
  (b0 < 256 -> b1 < 256 -> b2 < 256 -> b3 < 256 -> b4 < 256 ->
  let n := be40 b0 b1 b2 b3 b4 in
  b32_encode a [b0; b1; b2; b3; b4]
  = map (nthN (match a with Rfc4648 => rfc_alphabet | Crockford => crock_alphabet end))
        [ n / 34359738368; (n / 1073741824) mod 32; (n / 33554432) mod 32; (n / 1048576) mod 32;
          (n / 32768) mod 32; (n / 1024) mod 32; (n / 32) mod 32; n mod 32 ])%N.

Theorem C18_z85_group_digits : forall b0 b1 b2 b3,
  (let n := be32 b0 b1 b2 b3 in
  z85_encode [b0; b1; b2; b3]
  = map (nthN z85_letters)
        [ (n / 52200625) mod 85; (n / 614125) mod 85; (n / 7225) mod 85; (n / 85) mod 85; n mod 85 ])%N.
Proof. exact z85_group_digits. Qed.
Check C18_z85_group_digits : forall b0 b1 b2 b3,
  (let n := be32 b0 b1 b2 b3 in
  z85_encode [b0; b1; b2; b3]
  = map (nthN z85_letters)
        [ (n / 52200625) mod 85; (n / 614125) mod 85; (n / 7225) mod 85; (n / 85) mod 85; n mod 85 ])%N.

Theorem C18_encode_groups :
  (forall a g d, length g = 5 -> b32_encode a (g ++ d) = (b32_encode a g ++ b32_encode a d)%list) /\
  (forall g d, length g = 3 -> b64_encode (g ++ d) = (b64_encode g ++ b64_encode d)%list) /\
  (forall g d, length g = 4 -> z85_encode (g ++ d) = (z85_encode g ++ z85_encode d)%list).
Proof. exact (conj b32_encode_app (conj b64_encode_app z85_encode_app)). Qed.
Check C18_encode_groups :
  (forall a g d, length g = 5 -> b32_encode a (g ++ d) = (b32_encode a g ++ b32_encode a d)%list) /\
  (forall g d, length g = 3 -> b64_encode (g ++ d) = (b64_encode g ++ b64_encode d)%list) /\
  (forall g d, length g = 4 -> z85_encode (g ++ d) = (z85_encode g ++ z85_encode d)%list).

(* ---------- invalid text is None ---------- *)
(* the characters a base32 decoder accepts: the alphabet in either case; the padding
   character '=' for RFC 4648; the aliases I, L, O for Crockford *)
Definition b32_valid_char (a : b32alpha) (c : N) : Prop :=
  In (to_upper c) (match a with Rfc4648 => rfc_alphabet | Crockford => crock_alphabet end) \/
  match a with Rfc4648 => c = 61%N | Crockford => In (to_upper c) [73; 76; 79]%N end.

Theorem C18_b32_invalid : forall a data c,
  In c data -> ~ b32_valid_char a c -> b32_decode a data = None.
Proof. exact b32_invalid. Qed.
Check C18_b32_invalid : forall a data c,
  In c data -> ~ b32_valid_char a c -> b32_decode a data = None.

Theorem C18_b64_invalid : forall data c,
  In c data -> ~ In c b64_alphabet -> c <> 61%N -> b64_decode data = None.
Proof. exact b64_invalid. Qed.
Check C18_b64_invalid : forall data c,
  In c data -> ~ In c b64_alphabet -> c <> 61%N -> b64_decode data = None.

Theorem C18_z85_invalid : forall data c,
  In c data -> ~ In c z85_letters -> z85_decode data = None.
Proof. exact z85_invalid. Qed.
Check C18_z85_invalid : forall data c,
  In c data -> ~ In c z85_letters -> z85_decode data = None.

(* ---------- the decode words ---------- *)
(* [new] (newest first) is put on top of the reverse log, if the machine is recording *)
Definition with_log (new : list rstep) (s : state) : state :=
  match rlog s with Some l => set_rlog s (Some (new ++ l)%list) | None => s end.

(* apart from the reverse log, [set_ds (with_log l s) v] is [s] with the data stack [v] *)
Theorem C18_frame : forall l s v,
  erase_log (set_ds (with_log l s) v) = set_ds (erase_log s) v /\
  rlog (set_ds (with_log l s) v) = match rlog s with Some old => Some (l ++ old)%list | None => None end.
Proof. exact result_frame. Qed.
Check C18_frame : forall l s v,
  erase_log (set_ds (with_log l s) v) = set_ds (erase_log s) v /\
  rlog (set_ds (with_log l s) v) = match rlog s with Some old => Some (l ++ old)%list | None => None end.

(* the cell a decode word leaves for the popped cell [c] *)
Definition decoded (dec : list N -> option (list N)) (c : cell) : cell :=
  match value c with
  | CStr t => match dec (bytes_of_string t) with Some b => CBits (from_bytes b) | None => CNil end
  | _ => CNil
  end.

(* the only error a decode word can return is the data-stack limit of its final push *)
Theorem C18_decode_errors : forall dec s k p s', w_decode dec s = RErr k p s' ->
  k = ELimit /\ p = None /\ limit_reached (stack_limit s') (length (ds s')) = true.
Proof. exact w_decode_errors. Qed.
Check C18_decode_errors : forall dec s k p s', w_decode dec s = RErr k p s' ->
  k = ELimit /\ p = None /\ limit_reached (stack_limit s') (length (ds s')) = true.

Theorem C18_decode_no_panic : forall dec s, w_decode dec s <> RPanic /\ w_decode dec s <> RUnsup.
Proof. exact w_decode_no_panic. Qed.
Check C18_decode_no_panic : forall dec s, w_decode dec s <> RPanic /\ w_decode dec s <> RUnsup.

(* whatever is on the stack, the word is a push of nil or of a decoded bit-string *)
Theorem C18_decode_total : forall dec s,
  exists c s1, w_decode dec s = push_data c s1 /\
               (c = CNil \/ exists t b, dec (bytes_of_string t) = Some b /\ c = CBits (from_bytes b)).
Proof. exact w_decode_total. Qed.
Check C18_decode_total : forall dec s,
  exists c s1, w_decode dec s = push_data c s1 /\
               (c = CNil \/ exists t b, dec (bytes_of_string t) = Some b /\ c = CBits (from_bytes b)).

(* a cell above the context mark: it is replaced by [decoded dec c]; nothing else changes *)
Theorem C18_decode_run : forall dec s c rest,
  ds s = c :: rest -> ds_len (cx s) <= length rest ->
  limit_reached (stack_limit s) (length rest) = false ->
  w_decode dec s = ROk tt (set_ds (with_log [RPopData; RPushData c] s) (decoded dec c :: rest)).
Proof. exact w_decode_run. Qed.
Check C18_decode_run : forall dec s c rest,
  ds s = c :: rest -> ds_len (cx s) <= length rest ->
  limit_reached (stack_limit s) (length rest) = false ->
  w_decode dec s = ROk tt (set_ds (with_log [RPopData; RPushData c] s) (decoded dec c :: rest)).

(* no argument above the context mark: nil is pushed *)
Theorem C18_decode_run_empty : forall dec s,
  length (ds s) <= ds_len (cx s) ->
  limit_reached (stack_limit s) (length (ds s)) = false ->
  w_decode dec s = ROk tt (set_ds (with_log [RPopData] s) (CNil :: ds s)).
Proof. exact w_decode_run_empty. Qed.
Check C18_decode_run_empty : forall dec s,
  length (ds s) <= ds_len (cx s) ->
  limit_reached (stack_limit s) (length (ds s)) = false ->
  w_decode dec s = ROk tt (set_ds (with_log [RPopData] s) (CNil :: ds s)).

(* a string with a character outside the alphabet: the four decode words leave nil *)
Theorem C18_decode_invalid_nil : forall c t ch,
  value c = CStr t -> In ch (bytes_of_string t) ->
  (~ b32_valid_char Rfc4648 ch -> decoded (b32_decode Rfc4648) c = CNil) /\
  (~ b32_valid_char Crockford ch -> decoded (b32_decode Crockford) c = CNil) /\
  (~ In ch b64_alphabet -> ch <> 61%N -> decoded b64_decode c = CNil) /\
  (~ In ch z85_letters -> decoded z85_decode c = CNil).
Proof. exact decoded_invalid. Qed.
Check C18_decode_invalid_nil : forall c t ch,
  value c = CStr t -> In ch (bytes_of_string t) ->
  (~ b32_valid_char Rfc4648 ch -> decoded (b32_decode Rfc4648) c = CNil) /\
  (~ b32_valid_char Crockford ch -> decoded (b32_decode Crockford) c = CNil) /\
  (~ In ch b64_alphabet -> ch <> 61%N -> decoded b64_decode c = CNil) /\
  (~ In ch z85_letters -> decoded z85_decode c = CNil).

(* ---------- the encode words ---------- *)
(* same outcome as >bitstr's argument conversion, plus the whole-bytes requirement; the
   bytes are the 8-bit groups of the bit sequence (C04's bytestr), at any alignment *)
Theorem C18_encode_domain : forall enc s,
  match into_bitstr s with
  | ROk bs s1 =>
    if clen bs mod 8 =? 0
    then exists bytes, bytestr bs = Some bytes /\
                       (wf bs -> bytes = map bits_to_N (chunk8 (abs bs))) /\
                       w_encode enc s = push_data (CStr (string_of_codes (enc bytes))) s1
    else w_encode enc s = RErr EToBytestr None s1
  | RErr k p s1 => w_encode enc s = RErr k p s1
  | RPanic => w_encode enc s = RPanic
  | RUnsup => w_encode enc s = RUnsup
  end.
Proof. exact w_encode_domain. Qed.
Check C18_encode_domain : forall enc s,
  match into_bitstr s with
  | ROk bs s1 =>
    if clen bs mod 8 =? 0
    then exists bytes, bytestr bs = Some bytes /\
                       (wf bs -> bytes = map bits_to_N (chunk8 (abs bs))) /\
                       w_encode enc s = push_data (CStr (string_of_codes (enc bytes))) s1
    else w_encode enc s = RErr EToBytestr None s1
  | RErr k p s1 => w_encode enc s = RErr k p s1
  | RPanic => w_encode enc s = RPanic
  | RUnsup => w_encode enc s = RUnsup
  end.

Theorem C18_encode_accepts : forall enc s,
  (exists s', w_encode enc s = ROk tt s') <->
  (exists s', w_into_bitstr s = ROk tt s') /\
  (exists bs s1, into_bitstr s = ROk bs s1 /\ clen bs mod 8 = 0).
Proof. exact w_encode_accepts. Qed.
Check C18_encode_accepts : forall enc s,
  (exists s', w_encode enc s = ROk tt s') <->
  (exists s', w_into_bitstr s = ROk tt s') /\
  (exists bs s1, into_bitstr s = ROk bs s1 /\ clen bs mod 8 = 0).

(* a bit-string operand with any offset into its buffer *)
Theorem C18_encode_bits : forall enc s c rest b,
  ds s = c :: rest -> ds_len (cx s) <= length rest ->
  limit_reached (stack_limit s) (length rest) = false ->
  value c = CBits b -> wf b -> clen b mod 8 = 0 ->
  w_encode enc s
  = ROk tt (set_ds (with_log [RPopData; RPushData c] s)
                   (CStr (string_of_codes (enc (map bits_to_N (chunk8 (abs b))))) :: rest)).
Proof. exact w_encode_bits. Qed.
Check C18_encode_bits : forall enc s c rest b,
  ds s = c :: rest -> ds_len (cx s) <= length rest ->
  limit_reached (stack_limit s) (length rest) = false ->
  value c = CBits b -> wf b -> clen b mod 8 = 0 ->
  w_encode enc s
  = ROk tt (set_ds (with_log [RPopData; RPushData c] s)
                   (CStr (string_of_codes (enc (map bits_to_N (chunk8 (abs b))))) :: rest)).

(* ---------- the words compose: encode then decode gives back the bits ---------- *)
Definition codec_words : list ((list N -> list N) * (list N -> option (list N))) :=
  [ (b32_encode Rfc4648, b32_decode Rfc4648); (b32_encode Crockford, b32_decode Crockford);
    (b64_encode, b64_decode); (z85_encode, z85_decode) ].

Theorem C18_word_round : forall enc dec s c rest bs,
  In (enc, dec) codec_words ->
  ds s = c :: rest -> ds_len (cx s) <= length rest ->
  limit_reached (stack_limit s) (length rest) = false ->
  (forall s0, bitstr_concat c s0 = ROk bs s0) -> wf bs -> clen bs mod 8 = 0 ->
  let bytes := map bits_to_N (chunk8 (abs bs)) in
  (w_encode enc ;; w_decode dec) s
  = ROk tt (set_ds (with_log [RPopData; RPushData (CStr (string_of_codes (enc bytes))); RPopData; RPushData c] s)
                   (CBits (from_bytes bytes) :: rest))
  /\ wf (from_bytes bytes) /\ abs (from_bytes bytes) = abs bs.
Proof. exact word_round_table. Qed.
Check C18_word_round : forall enc dec s c rest bs,
  In (enc, dec) codec_words ->
  ds s = c :: rest -> ds_len (cx s) <= length rest ->
  limit_reached (stack_limit s) (length rest) = false ->
  (forall s0, bitstr_concat c s0 = ROk bs s0) -> wf bs -> clen bs mod 8 = 0 ->
  let bytes := map bits_to_N (chunk8 (abs bs)) in
  (w_encode enc ;; w_decode dec) s
  = ROk tt (set_ds (with_log [RPopData; RPushData (CStr (string_of_codes (enc bytes))); RPopData; RPushData c] s)
                   (CBits (from_bytes bytes) :: rest))
  /\ wf (from_bytes bytes) /\ abs (from_bytes bytes) = abs bs.

(* >bitstr keeps well-formedness: every bit-string inside the operand (at any depth of
   vectors, under tags) well-formed => so is the concatenation; strings and byte values
   always are.  With it the round trip needs no assumption on the converted value. *)
Fixpoint cell_bits_wf (c : cell) : Prop :=
  match c with
  | CBits b => wf b
  | CVec l => (fix all (l : list cell) : Prop :=
                 match l with [] => True | x :: r => cell_bits_wf x /\ all r end) l
  | CTag _ v => cell_bits_wf v
  | _ => True
  end.

Theorem C18_into_bitstr_wf : forall c s bs s',
  cell_bits_wf c -> bitstr_concat c s = ROk bs s' -> wf bs /\ s' = s.
Proof. exact bitstr_concat_wf. Qed.
Check C18_into_bitstr_wf : forall c s bs s',
  cell_bits_wf c -> bitstr_concat c s = ROk bs s' -> wf bs /\ s' = s.

Theorem C18_word_round_cell : forall enc dec s c rest bs,
  In (enc, dec) codec_words ->
  ds s = c :: rest -> ds_len (cx s) <= length rest ->
  limit_reached (stack_limit s) (length rest) = false ->
  cell_bits_wf c -> bitstr_concat c s = ROk bs s -> clen bs mod 8 = 0 ->
  let bytes := map bits_to_N (chunk8 (abs bs)) in
  (w_encode enc ;; w_decode dec) s
  = ROk tt (set_ds (with_log [RPopData; RPushData (CStr (string_of_codes (enc bytes))); RPopData; RPushData c] s)
                   (CBits (from_bytes bytes) :: rest))
  /\ wf (from_bytes bytes) /\ abs (from_bytes bytes) = abs bs.
Proof. exact word_round_cell_table. Qed.
Check C18_word_round_cell : forall enc dec s c rest bs,
  In (enc, dec) codec_words ->
  ds s = c :: rest -> ds_len (cx s) <= length rest ->
  limit_reached (stack_limit s) (length rest) = false ->
  cell_bits_wf c -> bitstr_concat c s = ROk bs s -> clen bs mod 8 = 0 ->
  let bytes := map bits_to_N (chunk8 (abs bs)) in
  (w_encode enc ;; w_decode dec) s
  = ROk tt (set_ds (with_log [RPopData; RPushData (CStr (string_of_codes (enc bytes))); RPopData; RPushData c] s)
                   (CBits (from_bytes bytes) :: rest))
  /\ wf (from_bytes bytes) /\ abs (from_bytes bytes) = abs bs.

(* the words of the table are these programs *)
Example C18_table : forall fo,
  table_find (word_table fo) "base32" = Some (w_encode (b32_encode Rfc4648)) /\
  table_find (word_table fo) "base32>" = Some (w_decode (b32_decode Rfc4648)) /\
  table_find (word_table fo) "base32hex" = Some (w_encode (b32_encode Crockford)) /\
  table_find (word_table fo) "base32hex>" = Some (w_decode (b32_decode Crockford)) /\
  table_find (word_table fo) "base64" = Some (w_encode b64_encode) /\
  table_find (word_table fo) "base64>" = Some (w_decode b64_decode) /\
  table_find (word_table fo) "zero85" = Some (w_encode z85_encode) /\
  table_find (word_table fo) "zero85>" = Some (w_decode z85_decode).
Proof. intro fo. repeat split. Qed.

(* the hypotheses are satisfiable: an unaligned 16-bit slice (bits 4..20 of ab cd ef, i.e.
   the bytes bc de) goes through base32 and comes back, and invalid text gives None *)
Example C18_nonvacuous :
  wf (mkcbs 4 20 [171; 205; 239]%N) /\
  map bits_to_N (chunk8 (abs (mkcbs 4 20 [171; 205; 239]%N))) = [188; 222]%N /\
  b32_encode Rfc4648 [188; 222]%N = [88; 84; 80; 65; 61; 61; 61; 61]%N /\
  b32_decode Rfc4648 [88; 84; 80; 65; 61; 61; 61; 61]%N = Some [188; 222]%N /\
  b64_decode (b64_encode [1; 2; 3; 4]%N) = Some [1; 2; 3; 4]%N /\
  z85_decode (z85_encode [1; 2; 3; 4; 5]%N) = Some [1; 2; 3; 4; 5]%N /\
  b32_decode Rfc4648 [88; 84; 49; 65]%N = None /\ b64_decode [65; 42; 65; 65]%N = None /\
  z85_decode [48; 48; 34; 48; 48]%N = None.
Proof.
  split; [repeat split; try (cbn; lia); repeat constructor|].
  vm_compute. repeat split.
Qed.

(* ---------- zero85> on a final group of five padding marks (repair of D39) ----------
   The z85 crate computes `4 - diff` for the number of padding marks of the last group and panics for five of
   them; `zero85>` refuses such a text before calling the crate.  [z85_decode] is the guarded decoder the word
   uses, [z85_crate_decode] the crate's. *)
Theorem C18_z85_guard_excludes_underflow : forall X a b c e f,
  ends_hash5 (X ++ [a; b; c; e; f]) = false -> (count_lead_hash [a; b; c; e; f] <= 4)%nat.
Proof. exact z85_guard_excludes_underflow. Qed.
Check C18_z85_guard_excludes_underflow : forall X a b c e f,
  ends_hash5 (X ++ [a; b; c; e; f]) = false -> (count_lead_hash [a; b; c; e; f] <= 4)%nat.

Theorem C18_z85_guard_is_needed :
  ends_hash5 [35; 35; 35; 35; 35]%N = true /\ count_lead_hash [35; 35; 35; 35; 35]%N = 5%nat.
Proof. exact z85_guard_is_needed. Qed.
Check C18_z85_guard_is_needed :
  ends_hash5 [35; 35; 35; 35; 35]%N = true /\ count_lead_hash [35; 35; 35; 35; 35]%N = 5%nat.

(* the guard never refuses what the encoder produces, so the round trip above is unaffected by it *)
Theorem C18_z85_encode_passes_guard : forall d, is_bytes d -> ends_hash5 (z85_encode d) = false.
Proof. exact z85_encode_not_hash5. Qed.
Check C18_z85_encode_passes_guard : forall d, is_bytes d -> ends_hash5 (z85_encode d) = false.

Theorem C18_z85_guarded_is_crate : forall d, ends_hash5 d = false -> z85_decode d = z85_crate_decode d.
Proof. intros d H. unfold z85_decode. rewrite H. reflexivity. Qed.
Check C18_z85_guarded_is_crate : forall d, ends_hash5 d = false -> z85_decode d = z85_crate_decode d.

Example C18_padding_only_is_refused :
  z85_decode [35; 35; 35; 35; 35]%N = None /\ z85_decode [48; 48; 48; 48; 48; 35; 35; 35; 35; 35]%N = None /\
  z85_decode [35; 35; 35; 48; 49]%N = Some [1]%N.
Proof. vm_compute. repeat split. Qed.
