(* C18 - placeholder until Proofs/BaseNProofs.v is merged *)
From Xeh Require Import Model.Prelude Model.BaseN.

Theorem C18_z85_empty : z85_decode (z85_encode []) = Some [].
Proof. reflexivity. Qed.
Check C18_z85_empty : z85_decode (z85_encode []) = Some [].
