(* C15 - how a program is driven does not change what it does. *)
From Xeh Require Import Model.Prelude Model.Bits Model.Cell Model.Vm Model.Words Proofs.VmDrive.

(* recording is transparent: a step with the reverse log erased afterwards is the step of
   the state with the log erased before - same result, same error, same state *)
Theorem C15_recording_transparent : forall fo s,
  res_map erase_log (fetch_and_run (native_fn fo) s) = fetch_and_run (native_fn fo) (erase_log s).
Proof. exact recording_transparent. Qed.
Check C15_recording_transparent : forall fo s,
  res_map erase_log (fetch_and_run (native_fn fo) s) = fetch_and_run (native_fn fo) (erase_log s).

Theorem C15_recording_transparent_run : forall fo fuel s,
  option_map (res_map erase_log) (run (native_fn fo) fuel s) = run (native_fn fo) fuel (erase_log s).
Proof. exact recording_transparent_run. Qed.
Check C15_recording_transparent_run : forall fo fuel s,
  option_map (res_map erase_log) (run (native_fn fo) fuel s) = run (native_fn fo) fuel (erase_log s).

(* run is single stepping until the machine stops: n successful steps followed by a stopped
   machine, or by a failing step, is exactly what run returns *)
Theorem C15_run_is_stepping : forall nf n s sn fuel,
  steps nf n s = Some sn -> n < fuel ->
  run nf fuel s = (if is_running sn then run nf (fuel - n) sn else Some (ROk tt sn)).
Proof. exact run_is_stepping. Qed.
Check C15_run_is_stepping : forall nf n s sn fuel,
  steps nf n s = Some sn -> n < fuel ->
  run nf fuel s = (if is_running sn then run nf (fuel - n) sn else Some (ROk tt sn)).

Theorem C15_next_is_step : forall nf s,
  next nf s = (if is_running s then fetch_and_run nf s else ROk tt s).
Proof. exact next_is_step. Qed.
Check C15_next_is_step : forall nf s,
  next nf s = (if is_running s then fetch_and_run nf s else ROk tt s).
