(* C03 - a cloned interpreter is an independent snapshot; re-running it is deterministic.

   Two layers, as in the design.
   (i)  Store.v: bit-string buffers are shared (Rc) and mutated in place when uniquely owned.
        [store_inv st live]: the strong count of every buffer is the number of live handles
        on it and every live handle is well formed.  It is preserved by every operation
        (1); an operation never changes what another live handle denotes (2); the result
        denotes what the list-level operation denotes (3).  [h :: L] reads "the handle the
        operation consumes, and the other live handles".
   (ii) the interpreter model: every container of [state] is a value, so a clone is the
        state itself and evaluation is a function of (state, source) (4).
   Property theorems only: each is closed by [exact] of a lemma of Proofs/StoreProofs.v or
   Proofs/SnapshotProofs.v. *)
From Xeh Require Import Model.Prelude Model.Bits Model.Store.
From Xeh Require Import Model.Cell Model.Vm Model.Words Model.Build.
From Xeh Require Proofs.StoreProofs Proofs.SnapshotProofs Proofs.StoreDetach.
Local Notation length := List.length.
Local Open Scope nat_scope.
Local Open Scope list_scope.

(* ---------- definitions used by the pool statements ---------- *)

(* buffers hold bytes *)
Definition pop_ok (o : pop) : Prop :=
  match o with PNew d _ => Forall (fun x => (x < 256)%N) d | _ => True end.

(* the index of the handle an operation consumes *)
Definition consumes (o : pop) : option nat :=
  match o with
  | PDrop i | PDetach i | PAppend i _ | PInvert i | PInsert i _ _ => Some i
  | _ => None
  end.

(* the live handles other than the consumed one *)
Definition survivors (live : list handle) (o : pop) : list handle :=
  match consumes o with Some i => remove_nth live i | None => live end.

(* whether the operation applies: indices in range, ranges valid (buffer coordinates) *)
Definition pool_enabled (live : list handle) (o : pop) : bool :=
  let geth i := nth i live (mkh 0 0 0) in
  match o with
  | PNew _ _ => true
  | PClone i | PDrop i | PDetach i | PInvert i => i <? length live
  | PSubstr i s e =>
    (i <? length live) && ((s <=? e) && (hstart (geth i) <=? s) && (e <=? hend (geth i)))
  | PAppend i j => (i <? length live) && (j <? length live) && negb (i =? j)
  | PInsert i k j =>
    (i <? length live) && (j <? length live) && negb (i =? j) &&
    (k <=? hend (geth i) - hstart (geth i))
  end.

(* what the new handle denotes, on lists of bits *)
Definition pool_result (st : store) (live : list handle) (o : pop) : list (list bool) :=
  let v i := habs st (nth i live (mkh 0 0 0)) in
  match o with
  | PNew d _ => [abs (from_bytes d)]
  | PClone i => [v i]
  | PDrop _ => []
  | PSubstr i s e => [firstn (e - s) (skipn (s - hstart (nth i live (mkh 0 0 0))) (v i))]
  | PDetach i => [v i]
  | PAppend i j => [v i ++ v j]
  | PInvert i => [map negb (v i)]
  | PInsert i k j => [firstn k (v i) ++ v j ++ skipn k (v i)]
  end.

(* where handle number k of the pool is after the operation; None = consumed *)
Definition track (live : list handle) (o : pop) (k : nat) : option nat :=
  if pool_enabled live o then
    match consumes o with
    | Some i => if k =? i then None else Some (if i <? k then k - 1 else k)
    | None => Some k
    end
  else Some k.

Fixpoint survives (ops : list pop) (sp : store * list handle) (k : nat) : option nat :=
  match ops with
  | [] => Some k
  | o :: r => match track (snd sp) o k with
              | Some k' => survives r (pool_step sp o) k'
              | None => None
              end
  end.

(* ---------- (1) the invariant is preserved ---------- *)

Theorem C03_store_inv_step : forall st live o,
  store_inv st live -> pop_ok o ->
  let '(st', live') := pool_step (st, live) o in store_inv st' live'.
Proof. exact StoreProofs.pool_step_inv. Qed.
Check C03_store_inv_step : forall st live o,
  store_inv st live -> pop_ok o ->
  let '(st', live') := pool_step (st, live) o in store_inv st' live'.

Theorem C03_store_inv_run : forall ops, Forall pop_ok ops ->
  store_inv (fst (pool_run ops)) (snd (pool_run ops)).
Proof. exact StoreProofs.pool_run_inv. Qed.
Check C03_store_inv_run : forall ops, Forall pop_ok ops ->
  store_inv (fst (pool_run ops)) (snd (pool_run ops)).

(* ---------- (2) isolation ---------- *)

(* one operation: every live handle other than the consumed one is still live and
   denotes the same bits *)
Theorem C03_isolation_step : forall st live o st' live' g,
  store_inv st live -> pop_ok o -> pool_step (st, live) o = (st', live') ->
  In g (survivors live o) -> habs st' g = habs st g /\ In g live'.
Proof. exact StoreProofs.pool_step_isolation. Qed.
Check C03_isolation_step : forall st live o st' live' g,
  store_inv st live -> pop_ok o -> pool_step (st, live) o = (st', live') ->
  In g (survivors live o) -> habs st' g = habs st g /\ In g live'.

(* the same by position in the pool *)
Theorem C03_isolation_indexed : forall st live o st' live' k k' g,
  store_inv st live -> pop_ok o -> pool_step (st, live) o = (st', live') ->
  nth_error live k = Some g -> track live o k = Some k' ->
  nth_error live' k' = Some g /\ habs st' g = habs st g.
Proof. exact StoreProofs.pool_step_track. Qed.
Check C03_isolation_indexed : forall st live o st' live' k k' g,
  store_inv st live -> pop_ok o -> pool_step (st, live) o = (st', live') ->
  nth_error live k = Some g -> track live o k = Some k' ->
  nth_error live' k' = Some g /\ habs st' g = habs st g.

(* a snapshot handle through any run of operations on the other handles of the pool:
   as long as it is not itself consumed it denotes what it denoted *)
Theorem C03_snapshot_run : forall ops st live k k' g,
  store_inv st live -> Forall pop_ok ops ->
  nth_error live k = Some g -> survives ops (st, live) k = Some k' ->
  let '(st', live') := fold_left pool_step ops (st, live) in
  nth_error live' k' = Some g /\ habs st' g = habs st g.
Proof. exact StoreProofs.pool_snapshot. Qed.
Check C03_snapshot_run : forall ops st live k k' g,
  store_inv st live -> Forall pop_ok ops ->
  nth_error live k = Some g -> survives ops (st, live) k = Some k' ->
  let '(st', live') := fold_left pool_step ops (st, live) in
  nth_error live' k' = Some g /\ habs st' g = habs st g.

(* ---------- (3) the pool evolves as the list-level semantics says ---------- *)

Theorem C03_pool_view_step : forall st live o,
  store_inv st live -> pop_ok o ->
  pool_view (pool_step (st, live) o) =
  if pool_enabled live o then map (habs st) (survivors live o) ++ pool_result st live o
  else pool_view (st, live).
Proof. exact StoreProofs.pool_view_step. Qed.
Check C03_pool_view_step : forall st live o,
  store_inv st live -> pop_ok o ->
  pool_view (pool_step (st, live) o) =
  if pool_enabled live o then map (habs st) (survivors live o) ++ pool_result st live o
  else pool_view (st, live).

Theorem C03_disabled_noop : forall st live o,
  pool_enabled live o = false -> pool_step (st, live) o = (st, live).
Proof. exact StoreProofs.pool_disabled_noop. Qed.
Check C03_disabled_noop : forall st live o,
  pool_enabled live o = false -> pool_step (st, live) o = (st, live).

(* ---------- (1)(2)(3) per operation of Store.v ---------- *)

Theorem C03_new : forall st L d bo st' h,
  store_inv st L -> Forall (fun x => (x < 256)%N) d -> h_new st d bo = (st', h) ->
  store_inv st' (h :: L) /\ (forall g, In g L -> view st' g = view st g) /\
  view st' h = from_bytes d.
Proof. exact StoreProofs.h_new_spec. Qed.
Check C03_new : forall st L d bo st' h,
  store_inv st L -> Forall (fun x => (x < 256)%N) d -> h_new st d bo = (st', h) ->
  store_inv st' (h :: L) /\ (forall g, In g L -> view st' g = view st g) /\
  view st' h = from_bytes d.

Theorem C03_clone : forall st h L st' h',
  store_inv st (h :: L) -> h_clone st h = (st', h') ->
  store_inv st' (h' :: h :: L) /\ (forall g, view st' g = view st g) /\ h' = h.
Proof. exact StoreProofs.h_clone_spec. Qed.
Check C03_clone : forall st h L st' h',
  store_inv st (h :: L) -> h_clone st h = (st', h') ->
  store_inv st' (h' :: h :: L) /\ (forall g, view st' g = view st g) /\ h' = h.

Theorem C03_drop : forall st h L,
  store_inv st (h :: L) ->
  store_inv (h_drop st h) L /\ (forall g, view (h_drop st h) g = view st g).
Proof. exact StoreProofs.h_drop_spec. Qed.
Check C03_drop : forall st h L,
  store_inv st (h :: L) ->
  store_inv (h_drop st h) L /\ (forall g, view (h_drop st h) g = view st g).

Theorem C03_substr : forall st h L s e,
  store_inv st (h :: L) ->
  match h_substr st h s e with
  | Some (st', h') =>
    s <= e /\ hstart h <= s /\ e <= hend h /\
    store_inv st' (h' :: h :: L) /\ (forall g, view st' g = view st g) /\
    habs st' h' = firstn (e - s) (skipn (s - hstart h) (habs st h))
  | None => ~ (s <= e /\ hstart h <= s /\ e <= hend h)
  end.
Proof. exact StoreProofs.h_substr_spec. Qed.
Check C03_substr : forall st h L s e,
  store_inv st (h :: L) ->
  match h_substr st h s e with
  | Some (st', h') =>
    s <= e /\ hstart h <= s /\ e <= hend h /\
    store_inv st' (h' :: h :: L) /\ (forall g, view st' g = view st g) /\
    habs st' h' = firstn (e - s) (skipn (s - hstart h) (habs st h))
  | None => ~ (s <= e /\ hstart h <= s /\ e <= hend h)
  end.

(* detach: in place iff uniquely owned and starting at bit 0; either way nobody else sees a change, the bits are
   the same and the result is uniquely owned *)
Theorem C03_detach : forall st h L st' h',
  store_inv st (h :: L) -> h_detach st h = (st', h') ->
  store_inv st' (h' :: L) /\ (forall g, In g L -> view st' g = view st g) /\
  habs st' h' = habs st h /\ strong (sget st' (hptr h')) = 1.
Proof. exact StoreProofs.h_detach_spec. Qed.
Check C03_detach : forall st h L st' h',
  store_inv st (h :: L) -> h_detach st h = (st', h') ->
  store_inv st' (h' :: L) /\ (forall g, In g L -> view st' g = view st g) /\
  habs st' h' = habs st h /\ strong (sget st' (hptr h')) = 1.

(* when detach copies: in place iff the strong count is 1 AND the value starts at bit 0 (a
   uniquely owned slice with a non-zero start is copied and rebased like a shared one), and
   under the invariant "strong count 1" means that no other live handle is on the buffer *)
Theorem C03_unique_iff_unshared : forall st h L, store_inv st (h :: L) ->
  (strong (sget st (hptr h)) = 1 <-> forall g, In g L -> hptr g <> hptr h).
Proof. exact StoreProofs.unique_iff_unshared. Qed.
Check C03_unique_iff_unshared : forall st h L, store_inv st (h :: L) ->
  (strong (sget st (hptr h)) = 1 <-> forall g, In g L -> hptr g <> hptr h).

Theorem C03_detach_in_place : forall st h,
  strong (sget st (hptr h)) = 1 -> hstart h = 0 -> h_detach st h = (st, h).
Proof. exact StoreProofs.h_detach_in_place. Qed.
Check C03_detach_in_place : forall st h,
  strong (sget st (hptr h)) = 1 -> hstart h = 0 -> h_detach st h = (st, h).

Theorem C03_detach_copies : forall st h,
  strong (sget st (hptr h)) <> 1 \/ hstart h <> 0 ->
  hptr (snd (h_detach st h)) = length st /\ length (fst (h_detach st h)) = S (length st).
Proof. exact StoreProofs.h_detach_copies. Qed.
Check C03_detach_copies : forall st h,
  strong (sget st (hptr h)) <> 1 \/ hstart h <> 0 ->
  hptr (snd (h_detach st h)) = length st /\ length (fst (h_detach st h)) = S (length st).

Theorem C03_make_mut : forall st h L st' h',
  store_inv st (h :: L) -> h_make_mut st h = (st', h') ->
  store_inv st' (h' :: L) /\ (forall g, In g L -> view st' g = view st g) /\
  view st' h' = view st h /\ strong (sget st' (hptr h')) = 1.
Proof. exact StoreProofs.h_make_mut_spec. Qed.
Check C03_make_mut : forall st h L st' h',
  store_inv st (h :: L) -> h_make_mut st h = (st', h') ->
  store_inv st' (h' :: L) /\ (forall g, In g L -> view st' g = view st g) /\
  view st' h' = view st h /\ strong (sget st' (hptr h')) = 1.

Theorem C03_append_bits_mut : forall st h t L st' h',
  store_inv st (h :: L) -> In t L -> h_append_bits_mut st h t = (st', h') ->
  store_inv st' (h' :: L) /\ (forall g, In g L -> view st' g = view st g) /\
  habs st' h' = habs st h ++ habs st t.
Proof. exact StoreProofs.h_append_bits_mut_spec. Qed.
Check C03_append_bits_mut : forall st h t L st' h',
  store_inv st (h :: L) -> In t L -> h_append_bits_mut st h t = (st', h') ->
  store_inv st' (h' :: L) /\ (forall g, In g L -> view st' g = view st g) /\
  habs st' h' = habs st h ++ habs st t.

Theorem C03_append : forall st h t L st' h',
  store_inv st (h :: L) -> In t L -> h_append st h t = (st', h') ->
  store_inv st' (h' :: L) /\ (forall g, In g L -> view st' g = view st g) /\
  habs st' h' = habs st h ++ habs st t.
Proof. exact StoreProofs.h_append_spec. Qed.
Check C03_append : forall st h t L st' h',
  store_inv st (h :: L) -> In t L -> h_append st h t = (st', h') ->
  store_inv st' (h' :: L) /\ (forall g, In g L -> view st' g = view st g) /\
  habs st' h' = habs st h ++ habs st t.

Theorem C03_invert : forall st h L st' h',
  store_inv st (h :: L) -> h_invert st h = (st', h') ->
  store_inv st' (h' :: L) /\ (forall g, In g L -> view st' g = view st g) /\
  habs st' h' = map negb (habs st h).
Proof. exact StoreProofs.h_invert_spec. Qed.
Check C03_invert : forall st h L st' h',
  store_inv st (h :: L) -> h_invert st h = (st', h') ->
  store_inv st' (h' :: L) /\ (forall g, In g L -> view st' g = view st g) /\
  habs st' h' = map negb (habs st h).

Theorem C03_insert : forall st h i s L,
  store_inv st (h :: L) -> In s L ->
  match h_insert st h i s with
  | Some (st', h') =>
    i <= hend h - hstart h /\
    store_inv st' (h' :: L) /\ (forall g, In g L -> view st' g = view st g) /\
    habs st' h' = firstn i (habs st h) ++ habs st s ++ skipn i (habs st h)
  | None => hend h - hstart h < i
  end.
Proof. exact StoreProofs.h_insert_spec. Qed.
Check C03_insert : forall st h i s L,
  store_inv st (h :: L) -> In s L ->
  match h_insert st h i s with
  | Some (st', h') =>
    i <= hend h - hstart h /\
    store_inv st' (h' :: L) /\ (forall g, In g L -> view st' g = view st g) /\
    habs st' h' = firstn i (habs st h) ++ habs st s ++ skipn i (habs st h)
  | None => hend h - hstart h < i
  end.

(* the interpreter model applies the VALUE-level operations of Bits.v ([Bits.append false],
   [invert false]); whatever the sharing situation ([u] = any answer of
   Rc::strong_count == 1) the handle operation denotes the same bits *)
Theorem C03_append_agrees_with_value_level : forall st h t L st' h' u,
  store_inv st (h :: L) -> In t L -> h_append st h t = (st', h') ->
  habs st' h' = abs (Bits.append u (view st h) (view st t)).
Proof. exact StoreProofs.store_append_refines. Qed.
Check C03_append_agrees_with_value_level : forall st h t L st' h' u,
  store_inv st (h :: L) -> In t L -> h_append st h t = (st', h') ->
  habs st' h' = abs (Bits.append u (view st h) (view st t)).

Theorem C03_invert_agrees_with_value_level : forall st h L st' h' u,
  store_inv st (h :: L) -> h_invert st h = (st', h') ->
  habs st' h' = abs (invert u (view st h)).
Proof. exact StoreProofs.store_invert_refines. Qed.
Check C03_invert_agrees_with_value_level : forall st h L st' h' u,
  store_inv st (h :: L) -> h_invert st h = (st', h') ->
  habs st' h' = abs (invert u (view st h)).

Theorem C03_insert_agrees_with_value_level : forall st h i s L u,
  store_inv st (h :: L) -> In s L ->
  match h_insert st h i s, insert u (view st h) i (view st s) with
  | Some (st', h'), Some r => habs st' h' = abs r
  | None, None => True
  | _, _ => False
  end.
Proof. exact StoreProofs.store_insert_refines. Qed.
Check C03_insert_agrees_with_value_level : forall st h i s L u,
  store_inv st (h :: L) -> In s L ->
  match h_insert st h i s, insert u (view st h) i (view st s) with
  | Some (st', h'), Some r => habs st' h' = abs r
  | None, None => True
  | _, _ => False
  end.

(* ---------- (4) the interpreter level: clone s = s ---------- *)

Definition clone_state (s : state) : state := s.

(* the state an eval call leaves behind (result or error) *)
Definition eval_state (fo : fops) (pr : string -> option Z) (rf bf : nat)
           (s : state) (src : string) : state :=
  match res_state (eval fo pr rf bf src s) with Some s' => s' | None => s end.

Definition run_path (fo : fops) (pr : string -> option Z) (rf bf : nat)
           (srcs : list string) (s : state) : state :=
  fold_left (eval_state fo pr rf bf) srcs s.

Theorem C03_eval_functional : forall fo pr rf bf src s1 s2,
  s1 = s2 -> eval fo pr rf bf src s1 = eval fo pr rf bf src s2.
Proof. exact SnapshotProofs.eval_functional. Qed.
Check C03_eval_functional : forall fo pr rf bf src s1 s2,
  s1 = s2 -> eval fo pr rf bf src s1 = eval fo pr rf bf src s2.

Theorem C03_eval_on_clone : forall fo pr rf bf src s,
  eval fo pr rf bf src (clone_state s) = eval fo pr rf bf src s.
Proof. exact SnapshotProofs.eval_on_clone. Qed.
Check C03_eval_on_clone : forall fo pr rf bf src s,
  eval fo pr rf bf src (clone_state s) = eval fo pr rf bf src s.

Theorem C03_snapshot_unchanged : forall fo pr rf bf srcs s,
  let snap := clone_state s in
  let s' := run_path fo pr rf bf srcs s in
  snap = s /\ run_path fo pr rf bf srcs snap = s'.
Proof. exact SnapshotProofs.snapshot_unchanged. Qed.
Check C03_snapshot_unchanged : forall fo pr rf bf srcs s,
  let snap := clone_state s in
  let s' := run_path fo pr rf bf srcs s in
  snap = s /\ run_path fo pr rf bf srcs snap = s'.

Theorem C03_clone_tree : forall fo pr rf bf p q s,
  run_path fo pr rf bf (p ++ q) s = run_path fo pr rf bf q (clone_state (run_path fo pr rf bf p s)).
Proof. exact SnapshotProofs.clone_tree. Qed.
Check C03_clone_tree : forall fo pr rf bf p q s,
  run_path fo pr rf bf (p ++ q) s = run_path fo pr rf bf q (clone_state (run_path fo pr rf bf p s)).

(* ---------- non-vacuity ---------- *)

Definition b8 (x : N) : list bool := abs (from_bytes [x]).

(* share then mutate: a value 0xAA, a clone, a slice of it (three handles on one buffer);
   the original is inverted (copies, because shared), then the inverted value is appended
   to IN PLACE (it is uniquely owned now): clone and slice still read 0xAA / its nibble *)
Example C03_isolation_nonvacuous :
  let ops := [PNew [170%N] false; PClone 0; PSubstr 0 2 6; PInvert 0; PAppend 2 0] in
  Forall pop_ok ops /\
  pool_view (pool_run ops) = [b8 170; firstn 4 (skipn 2 (b8 170)); b8 85 ++ b8 170] /\
  length (fst (pool_run ops)) = 2.
Proof. vm_compute. split; [repeat constructor|split; reflexivity]. Qed.

(* a uniquely owned value is modified in place: no new buffer *)
Example C03_in_place_nonvacuous :
  let sp := pool_run [PNew [170%N] false; PInvert 0] in
  pool_view sp = [b8 85] /\ length (fst sp) = 1.
Proof. vm_compute. split; reflexivity. Qed.

(* why isolation is stated for the SURVIVORS (positions) and not for handle values: the
   result of an in-place operation can be the same handle value as the consumed argument *)
Example C03_consumed_handle_value_is_reused :
  let sp := pool_run [PNew [170%N] false] in
  let sp' := pool_step sp (PInvert 0) in
  snd sp' = snd sp /\ pool_view sp = [b8 170] /\ pool_view sp' = [b8 85].
Proof. vm_compute. repeat split; reflexivity. Qed.

(* the snapshot theorem applies: handle 1 survives the whole run at index 0 *)
Example C03_snapshot_nonvacuous :
  let sp := pool_run [PNew [170%N] false; PClone 0] in
  survives [PInvert 0; PNew [1%N] true; PAppend 1 2] sp 1 = Some 0.
Proof. vm_compute. reflexivity. Qed.

(* ---------- (5) who else holds a buffer does not show in the representation of a result ----------

   [h_detach] works in place only when the strong count is 1 AND the handle starts at bit 0;
   otherwise it copies and rebases to bit 0.  (Before the repair a uniquely owned slice with
   a non-zero start was kept in place, so the start offset of the result of append / invert /
   insert depended on whether another interpreter clone still held the buffer.) *)

(* (5a) the range of the result handle: start 0 whatever the strong counts - no invariant,
   no hypothesis on the store at all *)
Theorem C03_detach_start : forall st h st' h', h_detach st h = (st', h') ->
  hstart h' = 0 /\ hend h' = hend h - hstart h.
Proof. exact StoreDetach.h_detach_range. Qed.
Check C03_detach_start : forall st h st' h', h_detach st h = (st', h') ->
  hstart h' = 0 /\ hend h' = hend h - hstart h.

Theorem C03_append_start : forall st h t st' h', h_append st h t = (st', h') ->
  hstart h' = 0 /\ hend h' = (hend h - hstart h) + (hend t - hstart t).
Proof. exact StoreDetach.h_append_range. Qed.
Check C03_append_start : forall st h t st' h', h_append st h t = (st', h') ->
  hstart h' = 0 /\ hend h' = (hend h - hstart h) + (hend t - hstart t).

Theorem C03_invert_start : forall st h st' h', h_invert st h = (st', h') ->
  hstart h' = 0 /\ hend h' = hend h - hstart h.
Proof. exact StoreDetach.h_invert_range. Qed.
Check C03_invert_start : forall st h st' h', h_invert st h = (st', h') ->
  hstart h' = 0 /\ hend h' = hend h - hstart h.

Theorem C03_insert_start : forall st h i s st' h', h_insert st h i s = Some (st', h') ->
  hstart h + i <= hend h /\
  hstart h' = 0 /\ hend h' = (hend h - hstart h) + (hend s - hstart s).
Proof. exact StoreDetach.h_insert_range. Qed.
Check C03_insert_start : forall st h i s st' h', h_insert st h i s = Some (st', h') ->
  hstart h + i <= hend h /\
  hstart h' = 0 /\ hend h' = (hend h - hstart h) + (hend s - hstart s).

(* (5b) the whole view of the result handle (range AND backing bytes) is the value-level
   operation of Bits.v on the views of the operands: for detach / invert with the ownership
   flag "strong count is 1", for append / insert with EVERY flag - in particular with the
   [false] the interpreter model uses *)
Theorem C03_detach_view : forall st h st' h', h_detach st h = (st', h') ->
  view st' h' = detach (strong (sget st (hptr h)) =? 1) (view st h).
Proof. exact StoreDetach.h_detach_view. Qed.
Check C03_detach_view : forall st h st' h', h_detach st h = (st', h') ->
  view st' h' = detach (strong (sget st (hptr h)) =? 1) (view st h).

Theorem C03_append_view : forall st h t L st' h' u,
  store_inv st (h :: L) -> In t L -> h_append st h t = (st', h') ->
  view st' h' = Bits.append u (view st h) (view st t).
Proof. exact StoreDetach.h_append_view. Qed.
Check C03_append_view : forall st h t L st' h' u,
  store_inv st (h :: L) -> In t L -> h_append st h t = (st', h') ->
  view st' h' = Bits.append u (view st h) (view st t).

Theorem C03_invert_view : forall st h L st' h',
  store_inv st (h :: L) -> h_invert st h = (st', h') ->
  view st' h' = invert (strong (sget st (hptr h)) =? 1) (view st h).
Proof. exact StoreDetach.h_invert_view. Qed.
Check C03_invert_view : forall st h L st' h',
  store_inv st (h :: L) -> h_invert st h = (st', h') ->
  view st' h' = invert (strong (sget st (hptr h)) =? 1) (view st h).

Theorem C03_insert_view : forall st h i s L u,
  store_inv st (h :: L) -> In s L ->
  match h_insert st h i s, insert u (view st h) i (view st s) with
  | Some (st', h'), Some r => view st' h' = r
  | None, None => True
  | _, _ => False
  end.
Proof. exact StoreDetach.h_insert_view. Qed.
Check C03_insert_view : forall st h i s L u,
  store_inv st (h :: L) -> In s L ->
  match h_insert st h i s, insert u (view st h) i (view st s) with
  | Some (st', h'), Some r => view st' h' = r
  | None, None => True
  | _, _ => False
  end.

(* (5c) two stores / pools whose operand handles have the same views - they differ only in
   who else holds the buffers (strong counts, other live handles, pointers) - give result
   handles with the same [hstart], [hend] and bits.  For append / insert the whole view of the
   result is the same; for detach / invert the backing bytes beyond the value may differ
   (C03_bytes_beyond_the_value_may_differ). *)
Theorem C03_detach_ownership_independent : forall st1 h1 L1 st1' h1' st2 h2 L2 st2' h2',
  store_inv st1 (h1 :: L1) -> store_inv st2 (h2 :: L2) ->
  view st1 h1 = view st2 h2 ->
  h_detach st1 h1 = (st1', h1') -> h_detach st2 h2 = (st2', h2') ->
  hstart h1' = hstart h2' /\ hend h1' = hend h2' /\ habs st1' h1' = habs st2' h2'.
Proof. exact StoreDetach.h_detach_ownership_indep. Qed.
Check C03_detach_ownership_independent : forall st1 h1 L1 st1' h1' st2 h2 L2 st2' h2',
  store_inv st1 (h1 :: L1) -> store_inv st2 (h2 :: L2) ->
  view st1 h1 = view st2 h2 ->
  h_detach st1 h1 = (st1', h1') -> h_detach st2 h2 = (st2', h2') ->
  hstart h1' = hstart h2' /\ hend h1' = hend h2' /\ habs st1' h1' = habs st2' h2'.

Theorem C03_append_ownership_independent : forall st1 h1 t1 L1 st1' h1' st2 h2 t2 L2 st2' h2',
  store_inv st1 (h1 :: L1) -> In t1 L1 -> store_inv st2 (h2 :: L2) -> In t2 L2 ->
  view st1 h1 = view st2 h2 -> view st1 t1 = view st2 t2 ->
  h_append st1 h1 t1 = (st1', h1') -> h_append st2 h2 t2 = (st2', h2') ->
  hstart h1' = hstart h2' /\ hend h1' = hend h2' /\ habs st1' h1' = habs st2' h2' /\
  view st1' h1' = view st2' h2'.
Proof. exact StoreDetach.h_append_ownership_indep. Qed.
Check C03_append_ownership_independent : forall st1 h1 t1 L1 st1' h1' st2 h2 t2 L2 st2' h2',
  store_inv st1 (h1 :: L1) -> In t1 L1 -> store_inv st2 (h2 :: L2) -> In t2 L2 ->
  view st1 h1 = view st2 h2 -> view st1 t1 = view st2 t2 ->
  h_append st1 h1 t1 = (st1', h1') -> h_append st2 h2 t2 = (st2', h2') ->
  hstart h1' = hstart h2' /\ hend h1' = hend h2' /\ habs st1' h1' = habs st2' h2' /\
  view st1' h1' = view st2' h2'.

Theorem C03_invert_ownership_independent : forall st1 h1 L1 st1' h1' st2 h2 L2 st2' h2',
  store_inv st1 (h1 :: L1) -> store_inv st2 (h2 :: L2) ->
  view st1 h1 = view st2 h2 ->
  h_invert st1 h1 = (st1', h1') -> h_invert st2 h2 = (st2', h2') ->
  hstart h1' = hstart h2' /\ hend h1' = hend h2' /\ habs st1' h1' = habs st2' h2'.
Proof. exact StoreDetach.h_invert_ownership_indep. Qed.
Check C03_invert_ownership_independent : forall st1 h1 L1 st1' h1' st2 h2 L2 st2' h2',
  store_inv st1 (h1 :: L1) -> store_inv st2 (h2 :: L2) ->
  view st1 h1 = view st2 h2 ->
  h_invert st1 h1 = (st1', h1') -> h_invert st2 h2 = (st2', h2') ->
  hstart h1' = hstart h2' /\ hend h1' = hend h2' /\ habs st1' h1' = habs st2' h2'.

Theorem C03_insert_ownership_independent : forall st1 h1 s1 L1 st2 h2 s2 L2 i,
  store_inv st1 (h1 :: L1) -> In s1 L1 -> store_inv st2 (h2 :: L2) -> In s2 L2 ->
  view st1 h1 = view st2 h2 -> view st1 s1 = view st2 s2 ->
  match h_insert st1 h1 i s1, h_insert st2 h2 i s2 with
  | Some (st1', h1'), Some (st2', h2') =>
    hstart h1' = hstart h2' /\ hend h1' = hend h2' /\ habs st1' h1' = habs st2' h2' /\
    view st1' h1' = view st2' h2'
  | None, None => True
  | _, _ => False
  end.
Proof. exact StoreDetach.h_insert_ownership_indep. Qed.
Check C03_insert_ownership_independent : forall st1 h1 s1 L1 st2 h2 s2 L2 i,
  store_inv st1 (h1 :: L1) -> In s1 L1 -> store_inv st2 (h2 :: L2) -> In s2 L2 ->
  view st1 h1 = view st2 h2 -> view st1 s1 = view st2 s2 ->
  match h_insert st1 h1 i s1, h_insert st2 h2 i s2 with
  | Some (st1', h1'), Some (st2', h2') =>
    hstart h1' = hstart h2' /\ hend h1' = hend h2' /\ habs st1' h1' = habs st2' h2' /\
    view st1' h1' = view st2' h2'
  | None, None => True
  | _, _ => False
  end.

(* (5d) the same under the weaker relation "the operands denote the same BITS" (their offsets
   and buffers may differ too): range and bits of the result are functions of the operands'
   bits alone *)
Theorem C03_detach_same_bits : forall st1 h1 L1 st1' h1' st2 h2 L2 st2' h2',
  store_inv st1 (h1 :: L1) -> store_inv st2 (h2 :: L2) ->
  habs st1 h1 = habs st2 h2 ->
  h_detach st1 h1 = (st1', h1') -> h_detach st2 h2 = (st2', h2') ->
  hstart h1' = hstart h2' /\ hend h1' = hend h2' /\ habs st1' h1' = habs st2' h2'.
Proof. exact StoreDetach.h_detach_same_bits. Qed.
Check C03_detach_same_bits : forall st1 h1 L1 st1' h1' st2 h2 L2 st2' h2',
  store_inv st1 (h1 :: L1) -> store_inv st2 (h2 :: L2) ->
  habs st1 h1 = habs st2 h2 ->
  h_detach st1 h1 = (st1', h1') -> h_detach st2 h2 = (st2', h2') ->
  hstart h1' = hstart h2' /\ hend h1' = hend h2' /\ habs st1' h1' = habs st2' h2'.

Theorem C03_append_same_bits : forall st1 h1 t1 L1 st1' h1' st2 h2 t2 L2 st2' h2',
  store_inv st1 (h1 :: L1) -> In t1 L1 -> store_inv st2 (h2 :: L2) -> In t2 L2 ->
  habs st1 h1 = habs st2 h2 -> habs st1 t1 = habs st2 t2 ->
  h_append st1 h1 t1 = (st1', h1') -> h_append st2 h2 t2 = (st2', h2') ->
  hstart h1' = hstart h2' /\ hend h1' = hend h2' /\ habs st1' h1' = habs st2' h2'.
Proof. exact StoreDetach.h_append_same_bits. Qed.
Check C03_append_same_bits : forall st1 h1 t1 L1 st1' h1' st2 h2 t2 L2 st2' h2',
  store_inv st1 (h1 :: L1) -> In t1 L1 -> store_inv st2 (h2 :: L2) -> In t2 L2 ->
  habs st1 h1 = habs st2 h2 -> habs st1 t1 = habs st2 t2 ->
  h_append st1 h1 t1 = (st1', h1') -> h_append st2 h2 t2 = (st2', h2') ->
  hstart h1' = hstart h2' /\ hend h1' = hend h2' /\ habs st1' h1' = habs st2' h2'.

Theorem C03_invert_same_bits : forall st1 h1 L1 st1' h1' st2 h2 L2 st2' h2',
  store_inv st1 (h1 :: L1) -> store_inv st2 (h2 :: L2) ->
  habs st1 h1 = habs st2 h2 ->
  h_invert st1 h1 = (st1', h1') -> h_invert st2 h2 = (st2', h2') ->
  hstart h1' = hstart h2' /\ hend h1' = hend h2' /\ habs st1' h1' = habs st2' h2'.
Proof. exact StoreDetach.h_invert_same_bits. Qed.
Check C03_invert_same_bits : forall st1 h1 L1 st1' h1' st2 h2 L2 st2' h2',
  store_inv st1 (h1 :: L1) -> store_inv st2 (h2 :: L2) ->
  habs st1 h1 = habs st2 h2 ->
  h_invert st1 h1 = (st1', h1') -> h_invert st2 h2 = (st2', h2') ->
  hstart h1' = hstart h2' /\ hend h1' = hend h2' /\ habs st1' h1' = habs st2' h2'.

Theorem C03_insert_same_bits : forall st1 h1 s1 L1 st2 h2 s2 L2 i,
  store_inv st1 (h1 :: L1) -> In s1 L1 -> store_inv st2 (h2 :: L2) -> In s2 L2 ->
  habs st1 h1 = habs st2 h2 -> habs st1 s1 = habs st2 s2 ->
  match h_insert st1 h1 i s1, h_insert st2 h2 i s2 with
  | Some (st1', h1'), Some (st2', h2') =>
    hstart h1' = hstart h2' /\ hend h1' = hend h2' /\ habs st1' h1' = habs st2' h2'
  | None, None => True
  | _, _ => False
  end.
Proof. exact StoreDetach.h_insert_same_bits. Qed.
Check C03_insert_same_bits : forall st1 h1 s1 L1 st2 h2 s2 L2 i,
  store_inv st1 (h1 :: L1) -> In s1 L1 -> store_inv st2 (h2 :: L2) -> In s2 L2 ->
  habs st1 h1 = habs st2 h2 -> habs st1 s1 = habs st2 s2 ->
  match h_insert st1 h1 i s1, h_insert st2 h2 i s2 with
  | Some (st1', h1'), Some (st2', h2') =>
    hstart h1' = hstart h2' /\ hend h1' = hend h2' /\ habs st1' h1' = habs st2' h2'
  | None, None => True
  | _, _ => False
  end.

(* non-vacuity, on reachable pools.  A slice [4, 12) of ab cd; in pool A the original value
   has been dropped (the slice is uniquely owned), in pool B it is still live (the buffer is
   shared).  Both detach to a handle [0, 8) with the bits of bc - before the repair the first
   one stayed at [4, 12). *)
Example C03_detach_unique_vs_shared :
  let spA := pool_run [PNew [171; 205]%N false; PSubstr 0 4 12; PDrop 0; PDetach 0] in
  let spB := pool_run [PNew [171; 205]%N false; PSubstr 0 4 12; PDetach 1] in
  let hA := nth 0 (snd spA) (mkh 0 0 0) in
  let hB := nth 1 (snd spB) (mkh 0 0 0) in
  (hstart hA, hend hA) = (0, 8) /\ (hstart hB, hend hB) = (0, 8) /\
  habs (fst spA) hA = habs (fst spB) hB /\
  habs (fst spA) hA = abs (from_bytes [188%N]).
Proof. exact StoreDetach.pool_detach_unique_vs_shared. Qed.

(* append / invert / insert on the uniquely owned and on the shared slice: same range, bits *)
Example C03_ops_unique_vs_shared :
  let pre := [PNew [171; 205]%N false; PNew [15%N] false; PSubstr 0 4 12] in
  let res ops := let sp := pool_run ops in
                 let h := nth (length (snd sp) - 1) (snd sp) (mkh 0 0 0) in
                 (hstart h, hend h, habs (fst sp) h) in
  res (pre ++ [PDrop 0; PAppend 1 0]) = res (pre ++ [PAppend 2 1]) /\
  res (pre ++ [PDrop 0; PInvert 1]) = res (pre ++ [PInvert 2]) /\
  res (pre ++ [PDrop 0; PInsert 1 3 0]) = res (pre ++ [PInsert 2 3 1]) /\
  fst (fst (res (pre ++ [PDrop 0; PInvert 1]))) = 0.
Proof. exact StoreDetach.pool_ops_unique_vs_shared. Qed.

(* what may still differ between the two ownership situations: the backing bytes beyond the
   value - a 4-bit value at the start of the byte ff is detached in place when uniquely owned
   (stale bits stay), copied and left-aligned when the original is live *)
Example C03_bytes_beyond_the_value_may_differ :
  let spA := pool_run [PNew [255%N] false; PSubstr 0 0 4; PDrop 0; PDetach 0] in
  let spB := pool_run [PNew [255%N] false; PSubstr 0 0 4; PDetach 1] in
  let hA := nth 0 (snd spA) (mkh 0 0 0) in
  let hB := nth 1 (snd spB) (mkh 0 0 0) in
  (hstart hA, hend hA) = (hstart hB, hend hB) /\ habs (fst spA) hA = habs (fst spB) hB /\
  cdata (view (fst spA) hA) = [255%N] /\ cdata (view (fst spB) hB) = [240%N].
Proof. exact StoreDetach.pool_detach_bytes_differ. Qed.
