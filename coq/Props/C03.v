(* C03 - placeholder until Proofs/StoreProofs.v is merged *)
From Xeh Require Import Model.Prelude Model.Bits Model.Store.

Theorem C03_clone_same_view : forall st h, snd (h_clone st h) = h.
Proof. reflexivity. Qed.
Check C03_clone_same_view : forall st h, snd (h_clone st h) = h.
