(* C02 - placeholder: theorems are added with Proofs/VmProofs.v *)
From Xeh Require Import Model.Prelude Model.Vm.

Theorem C02_next_stopped : forall nf s, is_running s = false -> next nf s = ROk tt s.
Proof. intros nf s H. unfold next. rewrite H. reflexivity. Qed.
Check C02_next_stopped : forall nf s, is_running s = false -> next nf s = ROk tt s.
