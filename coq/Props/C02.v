(* C02 - reverse stepping exactly undoes forward stepping, and replay reproduces it.
   Property theorems only. *)
From Xeh Require Import Model.Prelude Model.Bits Model.Cell Model.Vm Model.Words Proofs.VmRev.

(* one backward step undoes one forward step: everything except the instruction meter and
   the captured output is restored, the reverse log included *)
Theorem C02_rnext_undoes_step : forall fo s s',
  recording s = true -> log_ok s -> wf_marks s -> not_resolve s ->
  fetch_and_run (native_fn fo) s = ROk tt s' ->
  exists s'', rnext s' = ROk tt s'' /\ eq_rev s'' s.
Proof. exact rnext_undoes_step. Qed.
Check C02_rnext_undoes_step : forall fo s s',
  recording s = true -> log_ok s -> wf_marks s -> not_resolve s ->
  fetch_and_run (native_fn fo) s = ROk tt s' ->
  exists s'', rnext s' = ROk tt s'' /\ eq_rev s'' s.

(* the hypotheses are invariants of forward stepping *)
Theorem C02_step_invariants : forall fo s s',
  recording s = true -> log_ok s -> wf_marks s ->
  fetch_and_run (native_fn fo) s = ROk tt s' ->
  recording s' = true /\ log_ok s' /\ wf_marks s'.
Proof. exact step_invariants. Qed.
Check C02_step_invariants : forall fo s s',
  recording s = true -> log_ok s -> wf_marks s ->
  fetch_and_run (native_fn fo) s = ROk tt s' ->
  recording s' = true /\ log_ok s' /\ wf_marks s'.

(* a failed step that logged partial changes is undone too.  The interpreter's "about to stop" flag,
   which only the word `exit` sets (and `exit` always fails), is not part of the reversible state:
   without the last hypothesis the statement is refuted by `exit` (failed_step_counterexample). *)
Theorem C02_rnext_undoes_failed_step : forall fo s k p s',
  recording s = true -> log_ok s -> wf_marks s -> not_resolve s ->
  fetch_and_run (native_fn fo) s = RErr k p s' -> log_len s < log_len s' ->
  stopping s' = stopping s ->
  exists s'', rnext s' = ROk tt s'' /\ eq_rev s'' s.
Proof. exact rnext_undoes_failed_step_weak. Qed.
Check C02_rnext_undoes_failed_step : forall fo s k p s',
  recording s = true -> log_ok s -> wf_marks s -> not_resolve s ->
  fetch_and_run (native_fn fo) s = RErr k p s' -> log_len s < log_len s' ->
  stopping s' = stopping s ->
  exists s'', rnext s' = ROk tt s'' /\ eq_rev s'' s.

(* every word other than `exit` satisfies that hypothesis *)
Theorem C02_rnext_undoes_failed_step_noexit : forall fo s k p s',
  recording s = true -> log_ok s -> wf_marks s -> not_resolve s ->
  fetch_and_run (native_fn fo) s = RErr k p s' -> log_len s < log_len s' ->
  nth_error (code s) (ip s) <> Some (ONative "exit") ->
  exists s'', rnext s' = ROk tt s'' /\ eq_rev s'' s.
Proof. exact rnext_undoes_failed_step_weak_noexit. Qed.
Check C02_rnext_undoes_failed_step_noexit : forall fo s k p s',
  recording s = true -> log_ok s -> wf_marks s -> not_resolve s ->
  fetch_and_run (native_fn fo) s = RErr k p s' -> log_len s < log_len s' ->
  nth_error (code s) (ip s) <> Some (ONative "exit") ->
  exists s'', rnext s' = ROk tt s'' /\ eq_rev s'' s.

(* k backward steps after n forward steps give the state after n-k forward steps,
   for every k up to the start *)
Theorem C02_rewind : forall fo n k s sn,
  recording s = true -> log_ok s -> wf_marks s ->
  (forall m sm, m < n -> steps (native_fn fo) m s = Some sm -> not_resolve sm) ->
  steps (native_fn fo) n s = Some sn -> k <= n ->
  exists s' sm, rnexts k sn = Some s' /\ steps (native_fn fo) (n - k) s = Some sm /\ eq_rev s' sm.
Proof. exact rewind. Qed.
Check C02_rewind : forall fo n k s sn,
  recording s = true -> log_ok s -> wf_marks s ->
  (forall m sm, m < n -> steps (native_fn fo) m s = Some sm -> not_resolve sm) ->
  steps (native_fn fo) n s = Some sn -> k <= n ->
  exists s' sm, rnexts k sn = Some s' /\ steps (native_fn fo) (n - k) s = Some sm /\ eq_rev s' sm.

(* ====================================================================================== *)
(* REPLAY: stepping forward again after rewinding reproduces the original execution.      *)
(* ====================================================================================== *)
From Xeh Require Import Proofs.VmReplayBase Proofs.VmReplayWords Proofs.VmReplay.

(* What [eq_rev] hides.  [eq_rev a b] holds exactly when the two states agree on the instruction
   pointer, the data stack, the call frames with their locals, the loop stack, the vector-builder
   marks, every variable (heap), the code, the dictionary, the current and the suspended contexts,
   the pending control structures, THE REVERSE LOG ITSELF, the inputs and sources, the debug map,
   the last token, the about-to-stop flag and the three limits: everything except the
   instruction meter and the captured output. *)
Theorem C02_eq_rev_is_the_complete_state : forall a b,
  eq_rev a b <->
  (ip a = ip b /\ ds a = ds b /\ rs a = rs b /\ loops a = loops b /\ special a = special b /\
   heap a = heap b /\ code a = code b /\ dict a = dict b /\ cx a = cx b /\ nested a = nested b /\
   flows a = flows b /\ rlog a = rlog b /\ input a = input b /\ sources a = sources b /\
   dbg a = dbg b /\ last_tok a = last_tok b /\ stopping a = stopping b /\
   insn_limit a = insn_limit b /\ heap_limit a = heap_limit b /\ stack_limit a = stack_limit b).
Proof. exact eq_rev_same_machine. Qed.
Check C02_eq_rev_is_the_complete_state : forall a b,
  eq_rev a b <->
  (ip a = ip b /\ ds a = ds b /\ rs a = rs b /\ loops a = loops b /\ special a = special b /\
   heap a = heap b /\ code a = code b /\ dict a = dict b /\ cx a = cx b /\ nested a = nested b /\
   flows a = flows b /\ rlog a = rlog b /\ input a = input b /\ sources a = sources b /\
   dbg a = dbg b /\ last_tok a = last_tok b /\ stopping a = stopping b /\
   insn_limit a = insn_limit b /\ heap_limit a = heap_limit b /\ stack_limit a = stack_limit b).

(* a backward step gives EXACTLY the earlier state, except that the meter and the captured output
   keep the values they had after the step (rnext never touches them) *)
Theorem C02_rnext_undoes_step_exact : forall fo s s',
  recording s = true -> log_ok s -> wf_marks s -> not_resolve s ->
  fetch_and_run (native_fn fo) s = ROk tt s' ->
  rnext s' = ROk tt (set_out (set_meter s (meter s')) (out s')).
Proof. exact rnext_undoes_step_exact. Qed.
Check C02_rnext_undoes_step_exact : forall fo s s',
  recording s = true -> log_ok s -> wf_marks s -> not_resolve s ->
  fetch_and_run (native_fn fo) s = ROk tt s' ->
  rnext s' = ROk tt (set_out (set_meter s (meter s')) (out s')).

(* so the invariants needed for further backward steps hold again *)
Theorem C02_rnext_invariants : forall fo s s' s'',
  recording s = true -> log_ok s -> wf_marks s -> not_resolve s ->
  fetch_and_run (native_fn fo) s = ROk tt s' -> rnext s' = ROk tt s'' ->
  recording s'' = true /\ log_ok s'' /\ wf_marks s'' /\ not_resolve s''.
Proof. exact rnext_invariants. Qed.
Check C02_rnext_invariants : forall fo s s' s'',
  recording s = true -> log_ok s -> wf_marks s -> not_resolve s ->
  fetch_and_run (native_fn fo) s = ROk tt s' -> rnext s' = ROk tt s'' ->
  recording s'' = true /\ log_ok s'' /\ wf_marks s'' /\ not_resolve s''.

(* ---------- step congruence ---------- *)
(* every native word, run from two states that differ in the meter and the output only, gives the
   same outcome: the same value / the same error kind and payload, and related states *)
Theorem C02_word_respects_eq_rev : forall fo w f a b,
  native_fn fo w = Some f -> eq_rev a b ->
  match f a, f b with
  | ROk x s, ROk y t => x = y /\ eq_rev s t
  | RErr k p s, RErr k' p' t => k = k' /\ p = p' /\ eq_rev s t
  | RPanic, RPanic => True
  | RUnsup, RUnsup => True
  | _, _ => False
  end.
Proof. exact word_congruence. Qed.
Check C02_word_respects_eq_rev : forall fo w f a b,
  native_fn fo w = Some f -> eq_rev a b ->
  match f a, f b with
  | ROk x s, ROk y t => x = y /\ eq_rev s t
  | RErr k p s, RErr k' p' t => k = k' /\ p = p' /\ eq_rev s t
  | RPanic, RPanic => True
  | RUnsup, RUnsup => True
  | _, _ => False
  end.

(* One instruction step (any opcode, Resolve included).  The step reads ONE thing that [eq_rev]
   ignores: the meter, which is compared with the instruction limit.  [meter_ok j s] says that the
   limit (if any) allows j more increments:
     meter_ok j s = match insn_limit s with Some l => meter s + j <= l | None => True end. *)
Theorem C02_step_respects_eq_rev : forall fo a b,
  eq_rev a b -> meter_ok 2 a -> meter_ok 2 b ->
  match fetch_and_run (native_fn fo) a, fetch_and_run (native_fn fo) b with
  | ROk x s, ROk y t => x = y /\ eq_rev s t
  | RErr k p s, RErr k' p' t => k = k' /\ p = p' /\ eq_rev s t
  | RPanic, RPanic => True
  | RUnsup, RUnsup => True
  | _, _ => False
  end.
Proof. exact step_congruence. Qed.
Check C02_step_respects_eq_rev : forall fo a b,
  eq_rev a b -> meter_ok 2 a -> meter_ok 2 b ->
  match fetch_and_run (native_fn fo) a, fetch_and_run (native_fn fo) b with
  | ROk x s, ROk y t => x = y /\ eq_rev s t
  | RErr k p s, RErr k' p' t => k = k' /\ p = p' /\ eq_rev s t
  | RPanic, RPanic => True
  | RUnsup, RUnsup => True
  | _, _ => False
  end.

(* an instruction other than Resolve is metered once *)
Theorem C02_step_respects_eq_rev_not_resolve : forall fo a b,
  eq_rev a b -> not_resolve a -> meter_ok 1 a -> meter_ok 1 b ->
  match fetch_and_run (native_fn fo) a, fetch_and_run (native_fn fo) b with
  | ROk x s, ROk y t => x = y /\ eq_rev s t
  | RErr k p s, RErr k' p' t => k = k' /\ p = p' /\ eq_rev s t
  | RPanic, RPanic => True
  | RUnsup, RUnsup => True
  | _, _ => False
  end.
Proof. exact step_congruence_nr. Qed.
Check C02_step_respects_eq_rev_not_resolve : forall fo a b,
  eq_rev a b -> not_resolve a -> meter_ok 1 a -> meter_ok 1 b ->
  match fetch_and_run (native_fn fo) a, fetch_and_run (native_fn fo) b with
  | ROk x s, ROk y t => x = y /\ eq_rev s t
  | RErr k p s, RErr k' p' t => k = k' /\ p = p' /\ eq_rev s t
  | RPanic, RPanic => True
  | RUnsup, RUnsup => True
  | _, _ => False
  end.

(* without an instruction limit there is no side condition *)
Theorem C02_step_respects_eq_rev_nolimit : forall fo a b,
  eq_rev a b -> insn_limit a = None ->
  match fetch_and_run (native_fn fo) a, fetch_and_run (native_fn fo) b with
  | ROk x s, ROk y t => x = y /\ eq_rev s t
  | RErr k p s, RErr k' p' t => k = k' /\ p = p' /\ eq_rev s t
  | RPanic, RPanic => True
  | RUnsup, RUnsup => True
  | _, _ => False
  end.
Proof. exact step_congruence_nolimit. Qed.
Check C02_step_respects_eq_rev_nolimit : forall fo a b,
  eq_rev a b -> insn_limit a = None ->
  match fetch_and_run (native_fn fo) a, fetch_and_run (native_fn fo) b with
  | ROk x s, ROk y t => x = y /\ eq_rev s t
  | RErr k p s, RErr k' p' t => k = k' /\ p = p' /\ eq_rev s t
  | RPanic, RPanic => True
  | RUnsup, RUnsup => True
  | _, _ => False
  end.

(* FINDING: the side condition on the meter cannot be dropped.  Two states that differ in the
   meter only; under an instruction limit one executes its Nop, the other is refused (ELimit). *)
Theorem C02_step_respects_eq_rev_unmetered_refuted :
  ~ (forall fo a b, eq_rev a b ->
       match fetch_and_run (native_fn fo) a, fetch_and_run (native_fn fo) b with
       | ROk x s, ROk y t => x = y /\ eq_rev s t
       | RErr k p s, RErr k' p' t => k = k' /\ p = p' /\ eq_rev s t
       | RPanic, RPanic => True
       | RUnsup, RUnsup => True
       | _, _ => False
       end).
Proof. exact step_congruence_needs_meter. Qed.
Check C02_step_respects_eq_rev_unmetered_refuted :
  ~ (forall fo a b, eq_rev a b ->
       match fetch_and_run (native_fn fo) a, fetch_and_run (native_fn fo) b with
       | ROk x s, ROk y t => x = y /\ eq_rev s t
       | RErr k p s, RErr k' p' t => k = k' /\ p = p' /\ eq_rev s t
       | RPanic, RPanic => True
       | RUnsup, RUnsup => True
       | _, _ => False
       end).

(* ---------- replay: related states run in lock step ---------- *)
(* [a] is any state whose m-step run succeeds, [b] any related state with room under the limit
   (a step increments the meter at most twice) *)
Theorem C02_replay : forall fo m a b a',
  eq_rev a b -> meter_ok (2 * Z.of_nat m) b ->
  steps (native_fn fo) m a = Some a' ->
  exists b', steps (native_fn fo) m b = Some b' /\ eq_rev a' b'.
Proof. exact replay_steps. Qed.
Check C02_replay : forall fo m a b a',
  eq_rev a b -> meter_ok (2 * Z.of_nat m) b ->
  steps (native_fn fo) m a = Some a' ->
  exists b', steps (native_fn fo) m b = Some b' /\ eq_rev a' b'.

(* exactly one increment per step when no Resolve is executed *)
Theorem C02_replay_not_resolve : forall fo m a b a',
  eq_rev a b -> meter_ok (Z.of_nat m) b ->
  (forall i ai, i < m -> steps (native_fn fo) i a = Some ai -> not_resolve ai) ->
  steps (native_fn fo) m a = Some a' ->
  exists b', steps (native_fn fo) m b = Some b' /\ eq_rev a' b'.
Proof. exact replay_steps_nr. Qed.
Check C02_replay_not_resolve : forall fo m a b a',
  eq_rev a b -> meter_ok (Z.of_nat m) b ->
  (forall i ai, i < m -> steps (native_fn fo) i a = Some ai -> not_resolve ai) ->
  steps (native_fn fo) m a = Some a' ->
  exists b', steps (native_fn fo) m b = Some b' /\ eq_rev a' b'.

Theorem C02_replay_nolimit : forall fo m a b a',
  eq_rev a b -> insn_limit a = None ->
  steps (native_fn fo) m a = Some a' ->
  exists b', steps (native_fn fo) m b = Some b' /\ eq_rev a' b'.
Proof. exact replay_steps_nolimit. Qed.
Check C02_replay_nolimit : forall fo m a b a',
  eq_rev a b -> insn_limit a = None ->
  steps (native_fn fo) m a = Some a' ->
  exists b', steps (native_fn fo) m b = Some b' /\ eq_rev a' b'.

(* the run that ends in a failing step (or in an unsupported / panicking one): the replay fails
   in the same way, with the same error kind and payload, in a related state *)
Theorem C02_replay_final_step : forall fo m a b a',
  eq_rev a b -> meter_ok (2 * Z.of_nat m + 2) b ->
  steps (native_fn fo) m a = Some a' -> meter_ok 2 a' ->
  exists b', steps (native_fn fo) m b = Some b' /\ eq_rev a' b' /\
    match fetch_and_run (native_fn fo) a', fetch_and_run (native_fn fo) b' with
    | ROk x s, ROk y t => x = y /\ eq_rev s t
    | RErr k p s, RErr k' p' t => k = k' /\ p = p' /\ eq_rev s t
    | RPanic, RPanic => True
    | RUnsup, RUnsup => True
    | _, _ => False
    end.
Proof. exact replay_steps_final. Qed.
Check C02_replay_final_step : forall fo m a b a',
  eq_rev a b -> meter_ok (2 * Z.of_nat m + 2) b ->
  steps (native_fn fo) m a = Some a' -> meter_ok 2 a' ->
  exists b', steps (native_fn fo) m b = Some b' /\ eq_rev a' b' /\
    match fetch_and_run (native_fn fo) a', fetch_and_run (native_fn fo) b' with
    | ROk x s, ROk y t => x = y /\ eq_rev s t
    | RErr k p s, RErr k' p' t => k = k' /\ p = p' /\ eq_rev s t
    | RPanic, RPanic => True
    | RUnsup, RUnsup => True
    | _, _ => False
    end.

Theorem C02_replay_final_step_nolimit : forall fo m a b a',
  eq_rev a b -> insn_limit a = None ->
  steps (native_fn fo) m a = Some a' ->
  exists b', steps (native_fn fo) m b = Some b' /\ eq_rev a' b' /\
    match fetch_and_run (native_fn fo) a', fetch_and_run (native_fn fo) b' with
    | ROk x s, ROk y t => x = y /\ eq_rev s t
    | RErr k p s, RErr k' p' t => k = k' /\ p = p' /\ eq_rev s t
    | RPanic, RPanic => True
    | RUnsup, RUnsup => True
    | _, _ => False
    end.
Proof. exact replay_steps_final_nolimit. Qed.
Check C02_replay_final_step_nolimit : forall fo m a b a',
  eq_rev a b -> insn_limit a = None ->
  steps (native_fn fo) m a = Some a' ->
  exists b', steps (native_fn fo) m b = Some b' /\ eq_rev a' b' /\
    match fetch_and_run (native_fn fo) a', fetch_and_run (native_fn fo) b' with
    | ROk x s, ROk y t => x = y /\ eq_rev s t
    | RErr k p s, RErr k' p' t => k = k' /\ p = p' /\ eq_rev s t
    | RPanic, RPanic => True
    | RUnsup, RUnsup => True
    | _, _ => False
    end.

(* ---------- the full round trip ---------- *)
(* n steps forward, k <= n backward, m <= k forward again: the state after n - k + m steps of the
   original run, for every such n, k, m.  The meter is not rewound, so the m replayed steps need
   room under the instruction limit (counted from the state the rewinding started in). *)
Theorem C02_round_trip : forall fo n k m s sn,
  recording s = true -> log_ok s -> wf_marks s ->
  (forall i si, i < n -> steps (native_fn fo) i s = Some si -> not_resolve si) ->
  steps (native_fn fo) n s = Some sn -> k <= n -> m <= k ->
  meter_ok (Z.of_nat m) sn ->
  exists s1 s2 t, rnexts k sn = Some s1 /\ steps (native_fn fo) m s1 = Some s2 /\
                  steps (native_fn fo) (n - k + m) s = Some t /\ eq_rev s2 t.
Proof. exact round_trip. Qed.
Check C02_round_trip : forall fo n k m s sn,
  recording s = true -> log_ok s -> wf_marks s ->
  (forall i si, i < n -> steps (native_fn fo) i s = Some si -> not_resolve si) ->
  steps (native_fn fo) n s = Some sn -> k <= n -> m <= k ->
  meter_ok (Z.of_nat m) sn ->
  exists s1 s2 t, rnexts k sn = Some s1 /\ steps (native_fn fo) m s1 = Some s2 /\
                  steps (native_fn fo) (n - k + m) s = Some t /\ eq_rev s2 t.

(* Arbitrary interleavings.  A walk is a list of moves Fwd | Back; [walk nf w s] performs them
   (fetch_and_run / rnext); [walk_pos N w p] is the running position (None when it would go below 0
   or above the horizon N up to which the original run is known to succeed; N may exceed n, so
   forward moves beyond n continue the original execution); [fwd_count w] counts the Fwd moves.
   Wherever the walk ends, the machine is in the state the original run had at that position,
   and the invariants hold there, so the walk can be continued. *)
Theorem C02_walk : forall fo N n s sN sn w q,
  recording s = true -> log_ok s -> wf_marks s ->
  (forall i si, i < N -> steps (native_fn fo) i s = Some si -> not_resolve si) ->
  steps (native_fn fo) N s = Some sN -> n <= N -> steps (native_fn fo) n s = Some sn ->
  meter_ok (Z.of_nat (fwd_count w)) sn ->
  walk_pos N w n = Some q ->
  exists cur sq, walk (native_fn fo) w sn = Some cur /\ steps (native_fn fo) q s = Some sq /\
                 eq_rev cur sq /\ recording cur = true /\ log_ok cur /\ wf_marks cur.
Proof. exact walk_round_trip. Qed.
Check C02_walk : forall fo N n s sN sn w q,
  recording s = true -> log_ok s -> wf_marks s ->
  (forall i si, i < N -> steps (native_fn fo) i s = Some si -> not_resolve si) ->
  steps (native_fn fo) N s = Some sN -> n <= N -> steps (native_fn fo) n s = Some sn ->
  meter_ok (Z.of_nat (fwd_count w)) sn ->
  walk_pos N w n = Some q ->
  exists cur sq, walk (native_fn fo) w sn = Some cur /\ steps (native_fn fo) q s = Some sq /\
                 eq_rev cur sq /\ recording cur = true /\ log_ok cur /\ wf_marks cur.

(* The same with checkable hypotheses: a program that contains no Resolve instruction
   ([resolve_freeb]: a boolean scan of the code vector; the code then never changes) and a machine
   without an instruction limit. *)
Theorem C02_round_trip_plain : forall fo n k m s sn,
  recording s = true -> log_ok s -> wf_marks s -> resolve_freeb s = true -> insn_limit s = None ->
  steps (native_fn fo) n s = Some sn -> k <= n -> m <= k ->
  exists s1 s2 t, rnexts k sn = Some s1 /\ steps (native_fn fo) m s1 = Some s2 /\
                  steps (native_fn fo) (n - k + m) s = Some t /\ eq_rev s2 t.
Proof. exact round_trip_plain. Qed.
Check C02_round_trip_plain : forall fo n k m s sn,
  recording s = true -> log_ok s -> wf_marks s -> resolve_freeb s = true -> insn_limit s = None ->
  steps (native_fn fo) n s = Some sn -> k <= n -> m <= k ->
  exists s1 s2 t, rnexts k sn = Some s1 /\ steps (native_fn fo) m s1 = Some s2 /\
                  steps (native_fn fo) (n - k + m) s = Some t /\ eq_rev s2 t.

Theorem C02_walk_plain : forall fo N n s sN sn w q,
  recording s = true -> log_ok s -> wf_marks s -> resolve_freeb s = true -> insn_limit s = None ->
  steps (native_fn fo) N s = Some sN -> n <= N -> steps (native_fn fo) n s = Some sn ->
  walk_pos N w n = Some q ->
  exists cur sq, walk (native_fn fo) w sn = Some cur /\ steps (native_fn fo) q s = Some sq /\
                 eq_rev cur sq /\ recording cur = true /\ log_ok cur /\ wf_marks cur.
Proof. exact walk_round_trip_plain. Qed.
Check C02_walk_plain : forall fo N n s sN sn w q,
  recording s = true -> log_ok s -> wf_marks s -> resolve_freeb s = true -> insn_limit s = None ->
  steps (native_fn fo) N s = Some sN -> n <= N -> steps (native_fn fo) n s = Some sn ->
  walk_pos N w n = Some q ->
  exists cur sq, walk (native_fn fo) w sn = Some cur /\ steps (native_fn fo) q s = Some sq /\
                 eq_rev cur sq /\ recording cur = true /\ log_ok cur /\ wf_marks cur.

(* FINDING: under an instruction limit the replay half of the property is false as stated.
   rnext does not rewind the meter (neither does State::rnext in state.rs), so every replayed
   step is metered a second time: four Nops under a limit of 5 run, two are rewound, the first
   is replayed, the second is refused with ELimit (witness: round_trip_needs_meter). *)
Theorem C02_round_trip_unmetered_refuted :
  ~ (forall fo n k m s sn,
       recording s = true -> log_ok s -> wf_marks s ->
       (forall i si, i < n -> steps (native_fn fo) i s = Some si -> not_resolve si) ->
       steps (native_fn fo) n s = Some sn -> k <= n -> m <= k ->
       exists s1 s2 t, rnexts k sn = Some s1 /\ steps (native_fn fo) m s1 = Some s2 /\
                       steps (native_fn fo) (n - k + m) s = Some t /\ eq_rev s2 t).
Proof. exact round_trip_unmetered_refuted. Qed.
Check C02_round_trip_unmetered_refuted :
  ~ (forall fo n k m s sn,
       recording s = true -> log_ok s -> wf_marks s ->
       (forall i si, i < n -> steps (native_fn fo) i s = Some si -> not_resolve si) ->
       steps (native_fn fo) n s = Some sn -> k <= n -> m <= k ->
       exists s1 s2 t, rnexts k sn = Some s1 /\ steps (native_fn fo) m s1 = Some s2 /\
                       steps (native_fn fo) (n - k + m) s = Some t /\ eq_rev s2 t).

(* ---------- non-vacuity: a compiled program on the boot state ---------- *)
From Xeh Require Import Model.Build Model.Boot.

(* a global variable, a definition with a local, a counted loop calling it, a vector literal,
   output: 22 instructions, 44 steps, x = 0 + 1 + 4 = 5 *)
Definition c02_prog : string :=
  "0 var x : sq local n n n * ; 3 0 do I sq x + ! x loop [ x 7 ] println"%string.
Definition c02_start : state :=
  match compile cex_fo (fun _ => None) 1000 1000 c02_prog (set_rlog boot (Some [])) with
  | ROk _ s => s
  | _ => boot
  end.
Definition c02_after (n : nat) : state :=
  match steps (native_fn cex_fo) n c02_start with Some s => s | None => boot end.

Example C02_example_hypotheses :
  recording c02_start = true /\ log_ok c02_start /\ resolve_freeb c02_start = true /\
  insn_limit c02_start = None /\ List.length (code c02_start) = 22 /\ ip c02_start = 0 /\
  exists s44, steps (native_fn cex_fo) 44 c02_start = Some s44 /\ ip s44 = 22 /\
              nth_error (heap s44) 6 = Some (CInt 5) /\ meter s44 = 44%Z.
Proof.
  split; [vm_compute; reflexivity|]. split; [vm_compute; exact I|].
  split; [vm_compute; reflexivity|]. split; [vm_compute; reflexivity|].
  split; [vm_compute; reflexivity|]. split; [vm_compute; reflexivity|].
  eexists. split; [vm_compute; reflexivity|]. vm_compute. repeat split.
Qed.
Example C02_example_wf_marks : wf_marks c02_start.
Proof. unfold wf_marks. vm_compute. repeat split; constructor. Qed.

(* from the end: 34 steps back lands inside the first call of sq (a frame with a local, a loop
   record), 31 steps forward again lands inside the vector literal (a vector-builder mark);
   the meter shows that the steps really were executed again *)
Example C02_example_round_trip :
  exists s1 s2,
    rnexts 34 (c02_after 44) = Some s1 /\ eq_rev s1 (c02_after 10) /\
    ip s1 = 5 /\ rs s1 = [mkframe 3 13 [CInt 0]] /\ loops s1 = [mkloop CNil 0 3] /\
    steps (native_fn cex_fo) 31 s1 = Some s2 /\ eq_rev s2 (c02_after 41) /\
    ip s2 = 19 /\ special s2 = [0] /\ ds s2 = [CInt 5] /\ meter s2 = 75%Z.
Proof.
  do 2 eexists.
  split; [vm_compute; reflexivity|]. split; [vm_compute; reflexivity|].
  split; [vm_compute; reflexivity|]. split; [vm_compute; reflexivity|].
  split; [vm_compute; reflexivity|]. split; [vm_compute; reflexivity|].
  split; [vm_compute; reflexivity|]. vm_compute. repeat split.
Qed.

(* an interleaving that starts at position 30, goes back to 15, and ends at 35 *)
Definition c02_walk : list move :=
  [Back; Back; Back; Fwd; Back; Back; Back; Back; Back; Back; Back; Back; Back; Back; Back; Back; Back;
   Fwd; Fwd; Fwd; Back; Fwd; Fwd; Fwd; Fwd; Fwd; Fwd; Fwd; Fwd; Fwd; Fwd; Fwd; Fwd; Fwd; Fwd; Fwd;
   Fwd; Fwd; Fwd].
Example C02_example_walk :
  exists cur, walk_pos 44 c02_walk 30 = Some 35 /\
              walk (native_fn cex_fo) c02_walk (c02_after 30) = Some cur /\
              eq_rev cur (c02_after 35) /\ meter cur = 52%Z.
Proof.
  eexists. split; [vm_compute; reflexivity|]. split; [vm_compute; reflexivity|].
  split; vm_compute; reflexivity.
Qed.

(* the witness of the finding, in full *)
Example C02_example_limit_breaks_replay :
  exists s4 s2 s3,
    recording rt_s = true /\ log_ok rt_s /\ wf_marks rt_s /\
    (forall i si, i < 4 -> steps (native_fn cex_fo) i rt_s = Some si -> not_resolve si) /\
    steps (native_fn cex_fo) 4 rt_s = Some s4 /\
    rnexts 2 s4 = Some s2 /\
    fetch_and_run (native_fn cex_fo) s2 = ROk tt s3 /\
    fetch_and_run (native_fn cex_fo) s3 = RErr ELimit None s3 /\
    meter s2 = 4%Z.
Proof. exact round_trip_needs_meter. Qed.
