(* C02 - reverse stepping exactly undoes forward stepping, and replay reproduces it.
   Property theorems only. *)
From Xeh Require Import Model.Prelude Model.Bits Model.Cell Model.Vm Model.Words Proofs.VmRev.

(* one backward step undoes one forward step: everything except the instruction meter and
   the captured output is restored, the reverse log included *)
Theorem C02_rnext_undoes_step : forall fo s s',
  recording s = true -> log_ok s -> wf_marks s -> not_resolve s ->
  fetch_and_run (native_fn fo) s = ROk tt s' ->
  exists s'', rnext s' = ROk tt s'' /\ eq_rev s'' s.
Proof. exact rnext_undoes_step. Qed.
Check C02_rnext_undoes_step : forall fo s s',
  recording s = true -> log_ok s -> wf_marks s -> not_resolve s ->
  fetch_and_run (native_fn fo) s = ROk tt s' ->
  exists s'', rnext s' = ROk tt s'' /\ eq_rev s'' s.

(* the hypotheses are invariants of forward stepping *)
Theorem C02_step_invariants : forall fo s s',
  recording s = true -> log_ok s -> wf_marks s ->
  fetch_and_run (native_fn fo) s = ROk tt s' ->
  recording s' = true /\ log_ok s' /\ wf_marks s'.
Proof. exact step_invariants. Qed.
Check C02_step_invariants : forall fo s s',
  recording s = true -> log_ok s -> wf_marks s ->
  fetch_and_run (native_fn fo) s = ROk tt s' ->
  recording s' = true /\ log_ok s' /\ wf_marks s'.

(* a failed step that logged partial changes is undone too.  The interpreter's "about to stop" flag,
   which only the word `exit` sets (and `exit` always fails), is not part of the reversible state:
   without the last hypothesis the statement is refuted by `exit` (failed_step_counterexample). *)
Theorem C02_rnext_undoes_failed_step : forall fo s k p s',
  recording s = true -> log_ok s -> wf_marks s -> not_resolve s ->
  fetch_and_run (native_fn fo) s = RErr k p s' -> log_len s < log_len s' ->
  stopping s' = stopping s ->
  exists s'', rnext s' = ROk tt s'' /\ eq_rev s'' s.
Proof. exact rnext_undoes_failed_step_weak. Qed.
Check C02_rnext_undoes_failed_step : forall fo s k p s',
  recording s = true -> log_ok s -> wf_marks s -> not_resolve s ->
  fetch_and_run (native_fn fo) s = RErr k p s' -> log_len s < log_len s' ->
  stopping s' = stopping s ->
  exists s'', rnext s' = ROk tt s'' /\ eq_rev s'' s.

(* every word other than `exit` satisfies that hypothesis *)
Theorem C02_rnext_undoes_failed_step_noexit : forall fo s k p s',
  recording s = true -> log_ok s -> wf_marks s -> not_resolve s ->
  fetch_and_run (native_fn fo) s = RErr k p s' -> log_len s < log_len s' ->
  nth_error (code s) (ip s) <> Some (ONative "exit") ->
  exists s'', rnext s' = ROk tt s'' /\ eq_rev s'' s.
Proof. exact rnext_undoes_failed_step_weak_noexit. Qed.
Check C02_rnext_undoes_failed_step_noexit : forall fo s k p s',
  recording s = true -> log_ok s -> wf_marks s -> not_resolve s ->
  fetch_and_run (native_fn fo) s = RErr k p s' -> log_len s < log_len s' ->
  nth_error (code s) (ip s) <> Some (ONative "exit") ->
  exists s'', rnext s' = ROk tt s'' /\ eq_rev s'' s.

(* k backward steps after n forward steps give the state after n-k forward steps,
   for every k up to the start *)
Theorem C02_rewind : forall fo n k s sn,
  recording s = true -> log_ok s -> wf_marks s ->
  (forall m sm, m < n -> steps (native_fn fo) m s = Some sm -> not_resolve sm) ->
  steps (native_fn fo) n s = Some sn -> k <= n ->
  exists s' sm, rnexts k sn = Some s' /\ steps (native_fn fo) (n - k) s = Some sm /\ eq_rev s' sm.
Proof. exact rewind. Qed.
Check C02_rewind : forall fo n k s sn,
  recording s = true -> log_ok s -> wf_marks s ->
  (forall m sm, m < n -> steps (native_fn fo) m s = Some sm -> not_resolve sm) ->
  steps (native_fn fo) n s = Some sn -> k <= n ->
  exists s' sm, rnexts k sn = Some s' /\ steps (native_fn fo) (n - k) s = Some sm /\ eq_rev s' sm.
