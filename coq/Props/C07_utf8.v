(* C07 (continuation) - `bitstr>utf8`, the inverse of building a bit-string from a string.
   The word is characterised completely (value, errors, log); it accepts exactly the byte sequences of the
   Unicode well-formedness table ([utf8_valid], the mirror of String::from_utf8), among them all ASCII, and what it
   returns has the same bytes, so `>bitstr` of the result gives the bits back. *)
From Xeh Require Import Model.Prelude Model.Bits Model.Codec Model.Cell Model.Lexer Model.Fmt Model.Vm Model.Words.
From Xeh Require Import Proofs.DumpUtf8.
Local Notation length := List.length.

Theorem C07_bitstr_to_utf8_spec : forall s c rest b,
  ds s = c :: rest -> (ds_len (cx s) < length (ds s))%nat -> value c = CBits b ->
  w_bitstr_to_utf8 s =
    let s1 := add_rstep (RPushData c) (set_ds s rest) in
    match bytestr b with
    | None => RErr EToBytestr None s1
    | Some bytes => if utf8_valid bytes then push_data (CStr (string_of_bytes bytes)) s1
                    else RErr EParse None s1
    end.
Proof. exact w_bitstr_to_utf8_spec. Qed.
Check C07_bitstr_to_utf8_spec : forall s c rest b,
  ds s = c :: rest -> (ds_len (cx s) < length (ds s))%nat -> value c = CBits b ->
  w_bitstr_to_utf8 s =
    let s1 := add_rstep (RPushData c) (set_ds s rest) in
    match bytestr b with
    | None => RErr EToBytestr None s1
    | Some bytes => if utf8_valid bytes then push_data (CStr (string_of_bytes bytes)) s1
                    else RErr EParse None s1
    end.

Theorem C07_bitstr_to_utf8_type_error : forall s c rest,
  ds s = c :: rest -> (ds_len (cx s) < length (ds s))%nat ->
  (forall b, value c <> CBits b) ->
  w_bitstr_to_utf8 s = RErr EType (Some (value c)) (add_rstep (RPushData c) (set_ds s rest)).
Proof. exact w_bitstr_to_utf8_type_error. Qed.
Check C07_bitstr_to_utf8_type_error : forall s c rest,
  ds s = c :: rest -> (ds_len (cx s) < length (ds s))%nat ->
  (forall b, value c <> CBits b) ->
  w_bitstr_to_utf8 s = RErr EType (Some (value c)) (add_rstep (RPushData c) (set_ds s rest)).

Theorem C07_utf8_valid_ascii : forall l, Forall (fun x => (x < 128)%N) l -> utf8_valid l = true.
Proof. exact utf8_valid_ascii. Qed.
Check C07_utf8_valid_ascii : forall l, Forall (fun x => (x < 128)%N) l -> utf8_valid l = true.

Theorem C07_utf8_valid_head : forall a r, utf8_valid (a :: r) = true -> (a < 128)%N \/ (194 <= a <= 244)%N.
Proof. exact utf8_valid_head. Qed.
Check C07_utf8_valid_head : forall a r, utf8_valid (a :: r) = true -> (a < 128)%N \/ (194 <= a <= 244)%N.

(* the string returned has exactly the bytes read, and bytes -> string -> bytes is the identity: packing the
   result again (`>bitstr` of a string is from_bytes of its bytes) gives the same byte sequence *)
Theorem C07_string_bytes_inverse :
  (forall t, string_of_bytes (bytes_of_string t) = t) /\
  (forall l, Forall (fun x => (x < 256)%N) l -> bytes_of_string (string_of_bytes l) = l).
Proof. exact (conj string_of_bytes_of_string bytes_of_string_of_bytes). Qed.
Check C07_string_bytes_inverse :
  (forall t, string_of_bytes (bytes_of_string t) = t) /\
  (forall l, Forall (fun x => (x < 256)%N) l -> bytes_of_string (string_of_bytes l) = l).

Theorem C07_utf8_word : forall fo, native_fn fo "bitstr>utf8"%string = Some w_bitstr_to_utf8.
Proof. intro fo. reflexivity. Qed.
Check C07_utf8_word : forall fo, native_fn fo "bitstr>utf8"%string = Some w_bitstr_to_utf8.

(* non-vacuity: the boundaries of the well-formedness table - "hé€😀" is accepted; a surrogate (ED A0 80), a code
   point above U+10FFFF (F4 90 80 80), an overlong form (C0 80, E0 80 80), a lone continuation byte and a truncated
   sequence are refused *)
Example C07_utf8_table :
  utf8_valid [104; 195; 169; 226; 130; 172; 240; 159; 152; 128]%N = true /\
  utf8_valid [237; 160; 128]%N = false /\ utf8_valid [237; 159; 191]%N = true /\
  utf8_valid [244; 144; 128; 128]%N = false /\ utf8_valid [244; 143; 191; 191]%N = true /\
  utf8_valid [192; 128]%N = false /\ utf8_valid [224; 128; 128]%N = false /\ utf8_valid [224; 160; 128]%N = true /\
  utf8_valid [240; 128; 128; 128]%N = false /\ utf8_valid [240; 144; 128; 128]%N = true /\
  utf8_valid [128]%N = false /\ utf8_valid [226; 130]%N = false /\ utf8_valid [245; 128; 128; 128]%N = false.
Proof. vm_compute. repeat split. Qed.
