(* C11, continuation: `enum Name  : A  3 = B ... endenum`.

   `enum` opens a meta context that holds the two field words (dictionary names ":" and "="),
   pushes the enum entry and opens the meta context in which the text up to the next field word
   runs; a field word closes that inner context, appends the constant to the outer one and
   opens a fresh inner one; `endenum` closes both.  Each of these tokens performs two context
   operations, so it is none of the three kinds of token step of Props/C11.v
   (C11_enum_step_not_classified): the theorems there that speak of token steps exclude enum
   words ([tstep], [enum_free]).

   What is established here for the enum itself are machine-checked INSTANCES on the boot state
   (vm_compute), not yet the theorem for all field lists:
   - the build succeeds; code, debug map, heap, all five stacks, contexts and input are exactly
     those before; the dictionary is the old one followed by the constants - in the order the
     purge of the two field words leaves them (swap_remove: the last two constants take the
     places of ":" and "="), with values previous + 1 from 0 or the stated values;
   - names that are not distinct: every field appends its own constant, the later one is found;
   - the surrounding data stack is neither seen nor changed (sealed like any meta block);
   - after `endenum` the names ":" and "=" mean what they meant before. *)
From Xeh Require Import Model.Prelude Model.Bits Model.Codec Model.Cell Model.Lexer Model.Fmt
                        Model.Vm Model.Words Model.Build Model.Boot.
From Xeh Require Import Proofs.VmLimits Proofs.NoPanicBuild Proofs.UnwindLists Proofs.UnwindFrame Proofs.UnwindInv
                        Proofs.UnwindBuild Proofs.UnwindMain Proofs.UnwindWitness
                        Proofs.MetaBase Proofs.MetaPurge Proofs.MetaBuild Proofs.MetaClose Proofs.MetaPrefix
                        Proofs.MetaBlock Proofs.MetaSeg Proofs.MetaInline Proofs.MetaFindings Proofs.EnumWitness.
Local Notation length := List.length.
Local Open Scope string_scope.
Local Open Scope list_scope.
Theorem C11_enum_step_not_classified :
  Pre2 (length (code en_ta)) (length (dict en_ta)) en_o1 /\
  rawstep 10 en_o1 = ROk tt en_o2 /\ rawstep 10 en_o2 = ROk tt en_o3 /\ rawstep 10 en_o3 = ROk tt en_o4 /\
  depth en_o2 = S (S (depth en_o1)) /\ depth en_o3 = depth en_o2 /\ depth en_o4 = depth en_o1 /\
  ~ (R2 (length (code en_ta)) (length (dict en_ta)) en_o1 en_o2 \/
     (exists s2, R2 (length (code en_ta)) (length (dict en_ta)) en_o1 s2 /\ en_o2 = opened s2) \/
     closes fo0 1000 (length (code en_ta)) (length (dict en_ta)) en_o1 en_o2).
Proof. exact enum_step_not_classified. Qed.
Check C11_enum_step_not_classified :
  Pre2 (length (code en_ta)) (length (dict en_ta)) en_o1 /\
  rawstep 10 en_o1 = ROk tt en_o2 /\ rawstep 10 en_o2 = ROk tt en_o3 /\ rawstep 10 en_o3 = ROk tt en_o4 /\
  depth en_o2 = S (S (depth en_o1)) /\ depth en_o3 = depth en_o2 /\ depth en_o4 = depth en_o1 /\
  ~ (R2 (length (code en_ta)) (length (dict en_ta)) en_o1 en_o2 \/
     (exists s2, R2 (length (code en_ta)) (length (dict en_ta)) en_o1 s2 /\ en_o2 = opened s2) \/
     closes fo0 1000 (length (code en_ta)) (length (dict en_ta)) en_o1 en_o2).

Example C11_enum_plain :
  enum_facts "enum E : A : B : C endenum"
             [mkdent "C" (DConst (CInt 2)); mkdent "B" (DConst (CInt 1)); mkdent "A" (DConst (CInt 0))].
Proof. exact ex_enum_plain. Qed.

Example C11_enum_values :
  enum_facts "enum E 3 = A : B 10 = C : D endenum"
             [mkdent "D" (DConst (CInt 11)); mkdent "C" (DConst (CInt 10)); mkdent "A" (DConst (CInt 3));
              mkdent "B" (DConst (CInt 4))].
Proof. exact ex_enum_values. Qed.

Example C11_enum_expressions :
  enum_facts "enum E : A 1 = B A B + = C : D endenum"
             [mkdent "D" (DConst (CInt 2)); mkdent "C" (DConst (CInt 1)); mkdent "A" (DConst (CInt 0));
              mkdent "B" (DConst (CInt 1))].
Proof. exact ex_enum_expr. Qed.

Example C11_enum_empty :
  enum_facts "enum E endenum" [].
Proof. exact ex_enum_empty. Qed.

Example C11_enum_duplicate_names :
  enum_facts "enum E : A : A endenum" [mkdent "A" (DConst (CInt 1)); mkdent "A" (DConst (CInt 0))] /\
  ds_of (ev "enum E : A : A endenum A" boot) = Some [CInt 0].
Proof. exact ex_enum_dup. Qed.

Example C11_enum_sealed :
  ds_of (ev "enum E depth = A endenum A" s9) = Some [CInt 0; CInt 9] /\
  (exists s, ev "enum E drop endenum" s9 = RErr EUnderflow None s /\ ds s = [CInt 9]).
Proof. exact ex_enum_sealed. Qed.

Example C11_enum_field_words_purged :
  ds_of (ev "enum E : A endenum : g A 1 + ; g" boot) = Some [CInt 1] /\
  dict_entry boot "=" = None /\
  (exists s, ev "enum E : A endenum 1 = B" boot = RErr EUnknown None s).
Proof. exact ex_enum_purged. Qed.

Example C11_enum_nested :
  ds_of (ev ": f enum E : A : B endenum A B + ; f" boot) = Some [CInt 1] /\
  ds_of (ev "#( enum E : A : B endenum A B + #)" boot) = Some [CInt 1] /\
  ds_of (ev "[ enum E : A : B endenum A B ]" boot) = Some [CVec [CInt 0; CInt 1]] /\
  ds_of (ev "enum E : A enum F : X : Y endenum : B endenum A B X Y" boot) = Some [CInt 1; CInt 0; CInt 1; CInt 0].
Proof. exact ex_enum_nested. Qed.

(* ================= all field lists (Proofs/EnumGen*.v) =================

   LEVEL of these theorems: the immediate words themselves, in the order and with the token reads
   with which build1 processes `enum Name : f1 : f2 ... : fn endenum` once it has read the token
   `enum`: [enum_seq n] = i_enum ;; n x (read the token ":" ;; i_enum_field) ;; read the token
   "endenum" ;; i_endenum.  Not included: the dictionary dispatch of build_word (":" resolving to
   the field word) and the idle pre-run of build1 between tokens; the lexer is abstracted by the
   hypotheses [reads] / [feeds_fields] (the pending input yields these words), which
   C11_enum_reader_independent makes checkable by computation ([check_enum_text]) and which hold
   of real text (C11_enum_all_fields_instance, which also shows that eval of the text on boot
   gives exactly the dictionary the theorem states).
   Hypothesis on the state s in which `enum` is met, [enum_pre] (boolean [enum_pre_b]): the
   current context is not a meta context and the debug map is as long as the code.
   Result [efinal s fields i l]: s with the dictionary extended by the constants f_k = k in the
   order [enum_order] (swap_remove purge of the two field words: the last two constants first,
   then the others in definition order) and the pending input / last-token record advanced;
   every other component - code, debug map, heap, the five stacks, contexts, meter, limits, log,
   output - is that of s (C11_enum_final_state). *)
From Xeh Require Import Proofs.EnumGen Proofs.EnumGenMain Proofs.EnumGenEx Proofs.UnwindWitness.

(* MAIN: for every list of field names the builder succeeds and yields [efinal]: s plus the constants f_k = k *)
Theorem C11_enum_all_fields :
  forall fo pr rf s E fs i1 l1 i2 l2,
  enum_pre s -> reads pr (input s) (last_tok s) E i1 l1 -> feeds_fields pr i1 l1 fs i2 l2 ->
  (Z.of_nat (length fs) <= two127)%Z ->
  enum_seq fo pr rf (length fs) s = ROk tt (efinal s (numbered 0 fs) i2 l2).
Proof. exact enum_seq_spec. Qed.
Check C11_enum_all_fields :
  forall fo pr rf s E fs i1 l1 i2 l2,
  enum_pre s -> reads pr (input s) (last_tok s) E i1 l1 -> feeds_fields pr i1 l1 fs i2 l2 ->
  (Z.of_nat (length fs) <= two127)%Z ->
  enum_seq fo pr rf (length fs) s = ROk tt (efinal s (numbered 0 fs) i2 l2).

(* the same with the hypotheses as boolean checks *)
Theorem C11_enum_all_fields_checked :
  forall pr fo rf s E fs i2 l2,
  enum_pre_b s = true -> check_enum_text pr s E fs = Some (i2, l2) ->
  (Z.of_nat (length fs) <= two127)%Z ->
  enum_seq fo pr rf (length fs) s = ROk tt (efinal s (numbered 0 fs) i2 l2).
Proof. exact enum_seq_checked. Qed.
Check C11_enum_all_fields_checked :
  forall pr fo rf s E fs i2 l2,
  enum_pre_b s = true -> check_enum_text pr s E fs = Some (i2, l2) ->
  (Z.of_nat (length fs) <= two127)%Z ->
  enum_seq fo pr rf (length fs) s = ROk tt (efinal s (numbered 0 fs) i2 l2).

(* what [efinal] is, component by component: only the dictionary and the reader bookkeeping differ from s *)
Theorem C11_enum_final_state :
  forall s fields i l,
  let s' := efinal s fields i l in
  dict s' = dict s ++ enum_order (map const_of fields) /\
  heap s' = heap s /\ code s' = code s /\ dbg s' = dbg s /\ sources s' = sources s /\
  ds s' = ds s /\ rs s' = rs s /\ flows s' = flows s /\ loops s' = loops s /\ special s' = special s /\
  cx s' = cx s /\ nested s' = nested s /\ meter s' = meter s /\
  insn_limit s' = insn_limit s /\ heap_limit s' = heap_limit s /\ stack_limit s' = stack_limit s /\
  rlog s' = rlog s /\ out s' = out s /\ stopping s' = stopping s /\
  input s' = i /\ last_tok s' = l.
Proof. exact efinal_fields. Qed.
Check C11_enum_final_state :
  forall s fields i l,
  let s' := efinal s fields i l in
  dict s' = dict s ++ enum_order (map const_of fields) /\
  heap s' = heap s /\ code s' = code s /\ dbg s' = dbg s /\ sources s' = sources s /\
  ds s' = ds s /\ rs s' = rs s /\ flows s' = flows s /\ loops s' = loops s /\ special s' = special s /\
  cx s' = cx s /\ nested s' = nested s /\ meter s' = meter s /\
  insn_limit s' = insn_limit s /\ heap_limit s' = heap_limit s /\ stack_limit s' = stack_limit s /\
  rlog s' = rlog s /\ out s' = out s /\ stopping s' = stopping s /\
  input s' = i /\ last_tok s' = l.

(* the purge of the two field words leaves the constants in the order [enum_order]: last, last but one, then the rest in definition order *)
Theorem C11_enum_purge_order :
  forall cs, Forall (fun e => is_dconst e = true) cs ->
  purge_all (enum_imms ++ cs) = enum_order cs.
Proof. exact purge_enum. Qed.
Check C11_enum_purge_order :
  forall cs, Forall (fun e => is_dconst e = true) cs ->
  purge_all (enum_imms ++ cs) = enum_order cs.

(* a field after i128::MAX fails with EOverflow before anything is defined: dictionary and enum entry are those before the field word *)
Theorem C11_enum_field_overflow :
  forall fo pr rf s E fields i l f i1 l1,
  length (dbg s) = length (code s) -> reads pr i l f i1 l1 -> enum_next_value fields = None ->
  i_enum_field fo pr (S rf) (estate s E fields i l) = RErr EOverflow None (estate1 s E fields i1 l1).
Proof. exact field_overflow. Qed.
Check C11_enum_field_overflow :
  forall fo pr rf s E fields i l f i1 l1,
  length (dbg s) = length (code s) -> reads pr i l f i1 l1 -> enum_next_value fields = None ->
  i_enum_field fo pr (S rf) (estate s E fields i l) = RErr EOverflow None (estate1 s E fields i1 l1).

(* the reader depends on the pending input and the last-token record only (so [reads] / [tokreads] can be computed on a skeleton state) *)
Theorem C11_enum_reader_independent :
  forall pr t,
  next_name pr t = rmap t (next_name pr (tk_skel (input t) (last_tok t))) /\
  get_token pr t = rmap t (get_token pr (tk_skel (input t) (last_tok t))).
Proof. exact (fun pr t => conj (next_name_indep pr t) (get_token_indep pr t)). Qed.
Check C11_enum_reader_independent :
  forall pr t,
  next_name pr t = rmap t (next_name pr (tk_skel (input t) (last_tok t))) /\
  get_token pr t = rmap t (get_token pr (tk_skel (input t) (last_tok t))).

(* non-vacuity: boot and the state after reading `enum` of a real text satisfy the hypotheses *)
Example C11_enum_all_fields_hypotheses :
  enum_pre_b boot = true /\ enum_pre_b ex_s = true /\
  exists i2 l2, check_enum_text wit_pr ex_s "Color" ["Red"; "Green"; "Blue"; "Alpha"] = Some (i2, l2).
Proof. exact ex_hypotheses. Qed.

(* the theorem applied to that text, and eval of the text on boot gives exactly the stated dictionary and nothing else *)
Example C11_enum_all_fields_instance :
  exists i2 l2,
    enum_seq wit_fo wit_pr 999 4 ex_s =
      ROk tt (efinal ex_s [("Red", 0%Z); ("Green", 1%Z); ("Blue", 2%Z); ("Alpha", 3%Z)] i2 l2) /\
    enum_order (map const_of [("Red", 0%Z); ("Green", 1%Z); ("Blue", 2%Z); ("Alpha", 3%Z)]) =
      [mkdent "Alpha" (DConst (CInt 3)); mkdent "Blue" (DConst (CInt 2));
       mkdent "Red" (DConst (CInt 0)); mkdent "Green" (DConst (CInt 1))] /\
    match wit_eval ex_txt boot with
    | ROk _ s' => dict s' = dict boot ++ enum_order (map const_of [("Red", 0%Z); ("Green", 1%Z); ("Blue", 2%Z); ("Alpha", 3%Z)]) /\
                  same_machine (set_dict boot (dict s')) s'
    | _ => False
    end.
Proof. exact ex_applied. Qed.

(* the overflow branch on boot: rejected with EOverflow, not reported by the watch, unwound completely (C10) *)
Example C11_enum_overflow_unwound :
  enum_next_value [("A", i128_max)] = None /\
  wit_built ovf_txt boot = RErr EOverflow None (wit_state (wit_built ovf_txt boot)) /\
  calls_bad wit_fo wit_pr wit_rf (length (dict boot)) wit_fuel
            (length (nested (wit_opened ovf_txt boot))) (wit_opened ovf_txt boot) = false /\
  wit_eval ovf_txt boot = RErr EOverflow None (wit_unwound ovf_txt boot) /\
  same_machine boot (wit_unwound ovf_txt boot).
Proof. exact ex_overflow. Qed.
