(* C11, continuation: `enum Name  : A  3 = B ... endenum`.

   `enum` opens a meta context that holds the two field words (dictionary names ":" and "="),
   pushes the enum entry and opens the meta context in which the text up to the next field word
   runs; a field word closes that inner context, appends the constant to the outer one and
   opens a fresh inner one; `endenum` closes both.  Each of these tokens performs two context
   operations, so it is none of the three kinds of token step of Props/C11.v
   (C11_enum_step_not_classified): the theorems there that speak of token steps exclude enum
   words ([tstep], [enum_free]).

   What is established here for the enum itself are machine-checked INSTANCES on the boot state
   (vm_compute), not yet the theorem for all field lists:
   - the build succeeds; code, debug map, heap, all five stacks, contexts and input are exactly
     those before; the dictionary is the old one followed by the constants - in the order the
     purge of the two field words leaves them (swap_remove: the last two constants take the
     places of ":" and "="), with values previous + 1 from 0 or the stated values;
   - names that are not distinct: every field appends its own constant, the later one is found;
   - the surrounding data stack is neither seen nor changed (sealed like any meta block);
   - after `endenum` the names ":" and "=" mean what they meant before. *)
From Xeh Require Import Model.Prelude Model.Bits Model.Codec Model.Cell Model.Lexer Model.Fmt
                        Model.Vm Model.Words Model.Build Model.Boot.
From Xeh Require Import Proofs.VmLimits Proofs.NoPanicBuild Proofs.UnwindLists Proofs.UnwindFrame Proofs.UnwindInv
                        Proofs.UnwindBuild Proofs.UnwindMain Proofs.UnwindWitness
                        Proofs.MetaBase Proofs.MetaPurge Proofs.MetaBuild Proofs.MetaClose Proofs.MetaPrefix
                        Proofs.MetaBlock Proofs.MetaSeg Proofs.MetaInline Proofs.MetaFindings Proofs.EnumWitness.
Local Notation length := List.length.
Local Open Scope string_scope.
Local Open Scope list_scope.
Theorem C11_enum_step_not_classified :
  Pre2 (length (code en_ta)) (length (dict en_ta)) en_o1 /\
  rawstep 10 en_o1 = ROk tt en_o2 /\ rawstep 10 en_o2 = ROk tt en_o3 /\ rawstep 10 en_o3 = ROk tt en_o4 /\
  depth en_o2 = S (S (depth en_o1)) /\ depth en_o3 = depth en_o2 /\ depth en_o4 = depth en_o1 /\
  ~ (R2 (length (code en_ta)) (length (dict en_ta)) en_o1 en_o2 \/
     (exists s2, R2 (length (code en_ta)) (length (dict en_ta)) en_o1 s2 /\ en_o2 = opened s2) \/
     closes fo0 1000 (length (code en_ta)) (length (dict en_ta)) en_o1 en_o2).
Proof. exact enum_step_not_classified. Qed.
Check C11_enum_step_not_classified :
  Pre2 (length (code en_ta)) (length (dict en_ta)) en_o1 /\
  rawstep 10 en_o1 = ROk tt en_o2 /\ rawstep 10 en_o2 = ROk tt en_o3 /\ rawstep 10 en_o3 = ROk tt en_o4 /\
  depth en_o2 = S (S (depth en_o1)) /\ depth en_o3 = depth en_o2 /\ depth en_o4 = depth en_o1 /\
  ~ (R2 (length (code en_ta)) (length (dict en_ta)) en_o1 en_o2 \/
     (exists s2, R2 (length (code en_ta)) (length (dict en_ta)) en_o1 s2 /\ en_o2 = opened s2) \/
     closes fo0 1000 (length (code en_ta)) (length (dict en_ta)) en_o1 en_o2).

Example C11_enum_plain :
  enum_facts "enum E : A : B : C endenum"
             [mkdent "C" (DConst (CInt 2)); mkdent "B" (DConst (CInt 1)); mkdent "A" (DConst (CInt 0))].
Proof. exact ex_enum_plain. Qed.

Example C11_enum_values :
  enum_facts "enum E 3 = A : B 10 = C : D endenum"
             [mkdent "D" (DConst (CInt 11)); mkdent "C" (DConst (CInt 10)); mkdent "A" (DConst (CInt 3));
              mkdent "B" (DConst (CInt 4))].
Proof. exact ex_enum_values. Qed.

Example C11_enum_expressions :
  enum_facts "enum E : A 1 = B A B + = C : D endenum"
             [mkdent "D" (DConst (CInt 2)); mkdent "C" (DConst (CInt 1)); mkdent "A" (DConst (CInt 0));
              mkdent "B" (DConst (CInt 1))].
Proof. exact ex_enum_expr. Qed.

Example C11_enum_empty :
  enum_facts "enum E endenum" [].
Proof. exact ex_enum_empty. Qed.

Example C11_enum_duplicate_names :
  enum_facts "enum E : A : A endenum" [mkdent "A" (DConst (CInt 1)); mkdent "A" (DConst (CInt 0))] /\
  ds_of (ev "enum E : A : A endenum A" boot) = Some [CInt 0].
Proof. exact ex_enum_dup. Qed.

Example C11_enum_sealed :
  ds_of (ev "enum E depth = A endenum A" s9) = Some [CInt 0; CInt 9] /\
  (exists s, ev "enum E drop endenum" s9 = RErr EUnderflow None s /\ ds s = [CInt 9]).
Proof. exact ex_enum_sealed. Qed.

Example C11_enum_field_words_purged :
  ds_of (ev "enum E : A endenum : g A 1 + ; g" boot) = Some [CInt 1] /\
  dict_entry boot "=" = None /\
  (exists s, ev "enum E : A endenum 1 = B" boot = RErr EUnknown None s).
Proof. exact ex_enum_purged. Qed.

Example C11_enum_nested :
  ds_of (ev ": f enum E : A : B endenum A B + ; f" boot) = Some [CInt 1] /\
  ds_of (ev "#( enum E : A : B endenum A B + #)" boot) = Some [CInt 1] /\
  ds_of (ev "[ enum E : A : B endenum A B ]" boot) = Some [CVec [CInt 0; CInt 1]] /\
  ds_of (ev "enum E : A enum F : X : Y endenum : B endenum A B X Y" boot) = Some [CInt 1; CInt 0; CInt 1; CInt 0].
Proof. exact ex_enum_nested. Qed.

